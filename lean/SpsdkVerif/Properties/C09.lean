/-
C09 — ciphers, MACs, hashes, CRCs and KDFs match their standards and invert.

Only property theorems, specification definitions and non-vacuity examples live here.
  * Part A: the modes (defined in Crypto/Modes.lean over an ARBITRARY `c : CryptoOps`) invert, for every
    key, IV/nonce/tweak, message and length — needs only `CryptoLaws c` (`Sm4Laws c` for SM4).
  * Part B: SPSDK's wrappers (Model/SymWrappers.lean, tied to /repo by the C09 correspondence sweep)
    round-trip, including the IV defaulted on either side; exactly which inputs are refused.
  * Part C: `Counter` advances exactly by the stated number of blocks, 32-bit wrap included.
  * Part D: constants regenerated from the source on every run (`Generated/SymConsts`, `Generated/CrcTable`)
    equal the documented / catalogue values; structure of HMAC/CMAC/HKDF, key-store and SB3.1 derivations.
  * Part E: the executable instance satisfies the laws (so Part A/B are not vacuous).
"Produces the ciphertext the standard prescribes" for OpenSSL itself is a differential test against the
Lean reference (harness/props/C09.py), not a theorem.
-/
import SpsdkVerif.Model.SymWrappers
import SpsdkVerif.Proofs.Crypto
import SpsdkVerif.Proofs.SymWrappers
import SpsdkVerif.Proofs.ExecLaws
import SpsdkVerif.Proofs.Crc
import SpsdkVerif.Crypto.Break
import SpsdkVerif.Model.SymStream
import SpsdkVerif.Proofs.SymStream
import SpsdkVerif.Generated.CounterConsts

namespace SpsdkVerif.C09
open SpsdkVerif SpsdkVerif.Crypto SpsdkVerif.SymWrappers SpsdkVerif.Generated SpsdkVerif.SymStream
open SpsdkVerif.Misc (beEnc beDec leEnc leDec)

variable {c : CryptoOps}

/-! ## Part A — modes invert (every instance with the block laws; all keys/IVs/messages/lengths) -/

theorem ecb_inv (h : CryptoLaws c) (k m : Bytes) (hm : m.length % 16 = 0) : ecbDec c k (ecbEnc c k m) = m :=
  Crypto.ecb_inv h k m hm

theorem cbc_inv (h : CryptoLaws c) (k iv m : Bytes) (hiv : iv.length = 16) (hm : m.length % 16 = 0) :
    cbcDec c k iv (cbcEnc c k iv m) = m :=
  Crypto.cbc_inv h k iv m hiv hm

/-- with SPSDK's zero padding: ANY message length; what comes back is the zero-padded message -/
theorem cbc_inv_pad (h : CryptoLaws c) (k iv m : Bytes) (hiv : iv.length = 16) :
    cbcDec c k iv (cbcEnc c k iv (zeroPad16 m)) = zeroPad16 m :=
  Crypto.cbc_inv_pad h k iv m hiv

/-- the padding only appends zeros, fewer than 16, up to the next block boundary -/
theorem zeroPad16_spec (m : Bytes) :
    ∃ n, n < 16 ∧ zeroPad16 m = m ++ List.replicate n 0 ∧ (m.length + n) % 16 = 0 := by
  refine ⟨(16 - m.length % 16) % 16, by omega, rfl, by omega⟩

theorem sm4cbc_inv (h : Sm4Laws c) (k iv m : Bytes) (hiv : iv.length = 16) (hm : m.length % 16 = 0) :
    sm4CbcDec c k iv (sm4CbcEnc c k iv m) = m :=
  Crypto.sm4cbc_inv h k iv m hiv hm

/-- CTR is an involution: every key, every counter block, every message length (also non-block-multiples) -/
theorem ctr_invol (h : CryptoLaws c) (k iv m : Bytes) : ctrXor c k iv (ctrXor c k iv m) = m :=
  Crypto.ctr_invol h k iv m

theorem ctr_length (h : CryptoLaws c) (k iv m : Bytes) : (ctrXor c k iv m).length = m.length :=
  Crypto.ctrXor_length h k iv m

theorem xts_inv (h : CryptoLaws c) (k1 k2 t m : Bytes) (hm : m.length % 16 = 0) :
    xtsDec c k1 k2 t (xtsEnc c k1 k2 t m) = m :=
  Crypto.xts_inv h k1 k2 t m hm

/-- CCM decrypt-and-verify of an encryption: every key, nonce, associated data, tag length ≤ 16, message -/
theorem ccm_inv (h : CryptoLaws c) (k n a : Bytes) (t : Nat) (m : Bytes) (ht : t ≤ 16) :
    ccmDec c k n a t (ccmEnc c k n a t m) = some m :=
  Crypto.ccm_inv h k n a t m ht

/-- RFC 3394: every KEK, every payload that is a multiple of 8 and at least 16 bytes -/
theorem kw_inv (h : CryptoLaws c) (kek p : Bytes) (hp : p.length % 8 = 0) (hp16 : 16 ≤ p.length) :
    kwUnwrap c kek (kwWrap c kek p) = some p :=
  Crypto.kw_inv h kek p hp hp16

/-! ## Part B — SPSDK's wrappers -/

/-- a legal `iv_data` argument: absent, empty (both mean "default") or 16 bytes -/
def IvArg (iv : Option Bytes) : Prop := iv = none ∨ iv = some [] ∨ ∃ v, iv = some v ∧ v.length = 16

/-- the IV the wrappers end up using -/
def effIv (iv : Option Bytes) : Bytes := ivOrDefault iv 16

theorem effIv_default : effIv none = zeros 16 ∧ effIv (some []) = zeros 16 := by
  simp [effIv, ivOrDefault]

/-- `aes_cbc_decrypt(key, aes_cbc_encrypt(key, m, iv₁), iv₂)` returns the zero-padded message whenever both
    sides end up with the same IV — given or defaulted on either side — for every legal key and every message length. -/
theorem aesCbc_roundtrip (h : CryptoLaws c) (k m : Bytes) (iv₁ iv₂ : Option Bytes) (hk : aesKeyOk k = true)
    (h₁ : IvArg iv₁) (h₂ : IvArg iv₂) (he : effIv iv₁ = effIv iv₂) :
    ∃ ct, aesCbcEncrypt c k m iv₁ = .ok ct ∧ ct.length = (zeroPad16 m).length ∧
      aesCbcDecrypt c k ct iv₂ = .ok (zeroPad16 m) := by
  have l₁ : (ivOrDefault iv₁ 16).length = 16 := ivOrDefault_length iv₁ 16 h₁
  have l₂ : (ivOrDefault iv₂ 16).length = 16 := ivOrDefault_length iv₂ 16 h₂
  have hp := zeroPad16_length_mod m
  have hl : (cbcEnc c k (ivOrDefault iv₁ 16) (zeroPad16 m)).length = (zeroPad16 m).length := by
    rw [cbcEnc_length h]; omega
  refine ⟨cbcEnc c k (ivOrDefault iv₁ 16) (zeroPad16 m), ?_, hl, ?_⟩
  · simp [aesCbcEncrypt, aesKeyOk_listed hk, hk, SymConsts.aesCbcEncDefaultIvLen, SymConsts.aesCbcEncIvBits, l₁]
  · have hm : (cbcEnc c k (ivOrDefault iv₁ 16) (zeroPad16 m)).length % 16 = 0 := by rw [hl]; exact hp
    simp only [effIv] at he
    simp [aesCbcDecrypt, aesKeyOk_listed hk, hk, SymConsts.aesCbcDecDefaultIvLen, SymConsts.aesCbcDecIvBits, l₂, hm]
    rw [← he]
    exact Crypto.cbc_inv_pad h k _ m l₁

/-- the IV left to default on both sides (DESIGN §7 #3: false before `fix: … default IV is one block`) -/
theorem aesCbc_default_iv (h : CryptoLaws c) (k m : Bytes) (hk : aesKeyOk k = true) :
    ∃ ct, aesCbcEncrypt c k m none = .ok ct ∧ aesCbcDecrypt c k ct none = .ok (zeroPad16 m) := by
  obtain ⟨ct, h1, _, h2⟩ := aesCbc_roundtrip h k m none none hk (Or.inl rfl) (Or.inl rfl) rfl
  exact ⟨ct, h1, h2⟩

/-- defaulted on one side, sixteen explicit zero bytes on the other -/
theorem aesCbc_default_vs_zero_iv (h : CryptoLaws c) (k m : Bytes) (hk : aesKeyOk k = true) :
    (∃ ct, aesCbcEncrypt c k m none = .ok ct ∧ aesCbcDecrypt c k ct (some (zeros 16)) = .ok (zeroPad16 m)) ∧
    (∃ ct, aesCbcEncrypt c k m (some (zeros 16)) = .ok ct ∧ aesCbcDecrypt c k ct none = .ok (zeroPad16 m)) := by
  have hz : IvArg (some (zeros 16)) := Or.inr (Or.inr ⟨_, rfl, by simp⟩)
  have e : effIv none = effIv (some (zeros 16)) := by simp [effIv, ivOrDefault, zeros]
  obtain ⟨ct, h1, _, h2⟩ := aesCbc_roundtrip h k m none _ hk (Or.inl rfl) hz e
  obtain ⟨ct', h1', _, h2'⟩ := aesCbc_roundtrip h k m _ none hk hz (Or.inl rfl) e.symm
  exact ⟨⟨ct, h1, h2⟩, ⟨ct', h1', h2'⟩⟩

/-- exactly the documented refusals of `aes_cbc_encrypt`: SPSDKError iff the key size is not one of the listed
    ones or the (given) IV is not 16 bytes; accepted iff the key is 16/24/32 bytes and the IV is fine -/
theorem aesCbcEncrypt_refusals (k m : Bytes) (iv : Option Bytes) :
    (aesCbcEncrypt c k m iv = .error .spsdk ↔ (aesKeySizeListed k = false ∨ (effIv iv).length ≠ 16)) ∧
    ((∃ ct, aesCbcEncrypt c k m iv = .ok ct) ↔ (aesKeyOk k = true ∧ (effIv iv).length = 16)) := by
  simp only [aesCbcEncrypt, effIv, SymConsts.aesCbcEncDefaultIvLen, SymConsts.aesCbcEncIvBits]
  have hx : (ivOrDefault iv 16).length * 8 = 128 ↔ (ivOrDefault iv 16).length = 16 := by omega
  have hkl : aesKeyOk k = true → aesKeySizeListed k = true := aesKeyOk_listed
  rcases Bool.eq_false_or_eq_true (aesKeySizeListed k) with h1 | h1 <;>
    rcases Bool.eq_false_or_eq_true (aesKeyOk k) with h3 | h3 <;>
    by_cases h2 : (ivOrDefault iv 16).length = 16 <;> simp_all

theorem aesCbcDecrypt_refusals (k ct : Bytes) (iv : Option Bytes) :
    (aesCbcDecrypt c k ct iv = .error .spsdk ↔ (aesKeySizeListed k = false ∨ (effIv iv).length ≠ 16)) ∧
    ((∃ m, aesCbcDecrypt c k ct iv = .ok m) ↔ (aesKeyOk k = true ∧ (effIv iv).length = 16 ∧ ct.length % 16 = 0)) := by
  simp only [aesCbcDecrypt, effIv, SymConsts.aesCbcDecDefaultIvLen, SymConsts.aesCbcDecIvBits]
  have hx : (ivOrDefault iv 16).length * 8 = 128 ↔ (ivOrDefault iv 16).length = 16 := by omega
  have hkl : aesKeyOk k = true → aesKeySizeListed k = true := aesKeyOk_listed
  rcases Bool.eq_false_or_eq_true (aesKeySizeListed k) with h1 | h1 <;>
    rcases Bool.eq_false_or_eq_true (aesKeyOk k) with h3 | h3 <;>
    by_cases h2 : (ivOrDefault iv 16).length = 16 <;> by_cases h4 : ct.length % 16 = 0 <;> simp_all

/-- SM4-CBC twin -/
theorem sm4Cbc_roundtrip (h : Sm4Laws c) (k m : Bytes) (iv₁ iv₂ : Option Bytes) (hk : k.length = 16)
    (h₁ : IvArg iv₁) (h₂ : IvArg iv₂) (he : effIv iv₁ = effIv iv₂) :
    ∃ ct, sm4CbcEncrypt c k m iv₁ = .ok ct ∧ ct.length = (zeroPad16 m).length ∧
      sm4CbcDecrypt c k ct iv₂ = .ok (zeroPad16 m) := by
  have l₁ : (ivOrDefault iv₁ 16).length = 16 := ivOrDefault_length iv₁ 16 h₁
  have l₂ : (ivOrDefault iv₂ 16).length = 16 := ivOrDefault_length iv₂ 16 h₂
  have hp := zeroPad16_length_mod m
  have hl : (sm4CbcEnc c k (ivOrDefault iv₁ 16) (zeroPad16 m)).length = (zeroPad16 m).length := by
    unfold sm4CbcEnc; rw [cbcEncWith_length (h.enc_len k)]; omega
  refine ⟨sm4CbcEnc c k (ivOrDefault iv₁ 16) (zeroPad16 m), ?_, hl, ?_⟩
  · simp [sm4CbcEncrypt, sm4KeyOk, hk, SymConsts.sm4CbcEncDefaultIvLen, SymConsts.sm4CbcEncIvBits, l₁]
  · have hm : (sm4CbcEnc c k (ivOrDefault iv₁ 16) (zeroPad16 m)).length % 16 = 0 := by rw [hl]; exact hp
    simp only [effIv] at he
    simp [sm4CbcDecrypt, sm4KeyOk, hk, SymConsts.sm4CbcDecDefaultIvLen, SymConsts.sm4CbcDecIvBits, l₂, hm]
    rw [← he]
    exact Crypto.sm4cbc_inv_pad h k _ m l₁

theorem sm4Cbc_default_iv (h : Sm4Laws c) (k m : Bytes) (hk : k.length = 16) :
    ∃ ct, sm4CbcEncrypt c k m none = .ok ct ∧ sm4CbcDecrypt c k ct none = .ok (zeroPad16 m) := by
  obtain ⟨ct, h1, _, h2⟩ := sm4Cbc_roundtrip h k m none none hk (Or.inl rfl) (Or.inl rfl) rfl
  exact ⟨ct, h1, h2⟩

theorem aesEcb_roundtrip (h : CryptoLaws c) (k m : Bytes) (hk : aesKeyOk k = true) (hm : m.length % 16 = 0) :
    ∃ ct, aesEcbEncrypt c k m = .ok ct ∧ ct.length = m.length ∧ aesEcbDecrypt c k ct = .ok m := by
  have hl : (ecbEnc c k m).length = m.length := by rw [ecbEnc_length h]; omega
  refine ⟨ecbEnc c k m, by simp [aesEcbEncrypt, hk, hm], hl, ?_⟩
  simp [aesEcbDecrypt, hk, hl, hm, Crypto.ecb_inv h k m hm]

/-- ECB refuses exactly bad key lengths and non-block-multiples (with the library's exception, not SPSDKError) -/
theorem aesEcbEncrypt_refusals (k m : Bytes) :
    (∃ ct, aesEcbEncrypt c k m = .ok ct) ↔ (aesKeyOk k = true ∧ m.length % 16 = 0) := by
  simp only [aesEcbEncrypt]
  by_cases h1 : aesKeyOk k = true <;> by_cases h2 : m.length % 16 = 0 <;> simp_all

theorem aesCtr_roundtrip (h : CryptoLaws c) (k m nonce : Bytes) (hk : aesKeyOk k = true) (hn : nonce.length = 16) :
    ∃ ct, aesCtr c k m nonce = .ok ct ∧ ct.length = m.length ∧ aesCtr c k ct nonce = .ok m := by
  refine ⟨ctrXor c k nonce m, by simp [aesCtr, hk, hn], ctrXor_length h k nonce m, ?_⟩
  simp [aesCtr, hk, hn, Crypto.ctr_invol h k nonce m]

/-- XTS, data unit = the whole input of at least one block, ANY length ≥ 16: whole blocks as IEEE 1619 XTS
    (`Crypto.xts_inv`), a trailing partial block by ciphertext stealing (what OpenSSL does; `xtsSteal_inv`) -/
theorem aesXts_roundtrip (h : CryptoLaws c) (k m tweak : Bytes) (hk : k.length = 32 ∨ k.length = 64)
    (hd : (k.take (k.length / 2) == k.drop (k.length / 2)) = false) (ht : tweak.length = 16)
    (hm : 16 ≤ m.length) :
    ∃ ct, aesXtsEncrypt c k m tweak = .ok ct ∧ ct.length = m.length ∧ aesXtsDecrypt c k ct tweak = .ok m := by
  have hk' : (k.length == 32 || k.length == 64) = true := by rcases hk with h | h <;> simp [h]
  have hc : ∀ x : Bytes, 16 ≤ x.length → xtsCheck k x tweak = none := by
    intro x hx
    have : ¬ (0 < x.length ∧ x.length < 16) := by omega
    simp [xtsCheck, hk', hd, ht, this]
  obtain ⟨hl, hinv⟩ := xtsSteal_inv (h.dec_enc (k.take (k.length / 2))) (h.enc_len (k.take (k.length / 2)))
    (c.encBlk (k.drop (k.length / 2)) tweak) m (h.enc_len _ _) hm
  refine ⟨_, by simp only [aesXtsEncrypt, hc m hm], hl, ?_⟩
  simp only [aesXtsDecrypt, hc _ (by rw [hl]; exact hm), hinv]

/-- on whole blocks the wrapper is plain XTS -/
theorem aesXts_aligned (k m tweak : Bytes) (hc : xtsCheck k m tweak = none) (hm : m.length % 16 = 0) :
    aesXtsEncrypt c k m tweak = .ok (xtsEnc c (k.take (k.length / 2)) (k.drop (k.length / 2)) tweak m) := by
  simp only [aesXtsEncrypt, hc, xtsSteal_aligned _ _ _ _ hm]; rfl

theorem aesCcm_roundtrip (h : CryptoLaws c) (k m nonce aad : Bytes) (t : Int) (hp : ccmParamsOk k nonce t = true)
    (hm : m.length < 256 ^ (15 - nonce.length)) :
    ∃ ct, aesCcmEncrypt c k m nonce aad t = .ok ct ∧ (ct.length : Int) = m.length + t ∧
      aesCcmDecrypt c k ct nonce aad t = .ok m := by
  have ht : t.toNat ≤ 16 ∧ (t.toNat : Int) = t := by
    simp only [ccmParamsOk, Bool.and_eq_true, Bool.or_eq_true, beq_iff_eq] at hp
    omega
  refine ⟨ccmEnc c k nonce aad t.toNat m, ?_, ?_, ?_⟩
  · simp [aesCcmEncrypt, hp, Nat.not_le.mpr hm]
  · rw [ccmEnc_length h _ _ _ _ _ ht.1]; omega
  · simp [aesCcmDecrypt, hp, Crypto.ccm_inv h k nonce aad t.toNat m ht.1]

theorem aesKeyWrap_roundtrip (h : CryptoLaws c) (kek p : Bytes) (hk : aesKeyOk kek = true)
    (hp : p.length % 8 = 0) (hp16 : 16 ≤ p.length) :
    ∃ w, aesKeyWrap c kek p = .ok w ∧ w.length = p.length + 8 ∧ aesKeyUnwrap c kek w = .ok p := by
  refine ⟨kwWrap c kek p, ?_, kwWrap_length h kek p hp, ?_⟩
  · have : ¬ (p.length < 16 ∨ p.length % 8 ≠ 0) := by omega
    simp [aesKeyWrap, hk, this]
  · simp [aesKeyUnwrap, hk, Crypto.kw_inv h kek p hp hp16]

/-! ## Part C — `Counter` -/

/-- apply a sequence of `increment` calls -/
def Counter.run (cn : Counter) (incs : List Int) : Counter := incs.foldl Counter.increment cn

theorem Counter.run_spec (cn : Counter) (incs : List Int) :
    (Counter.run cn incs).ctr = cn.ctr + incs.sum ∧ (Counter.run cn incs).nonce = cn.nonce ∧
      (Counter.run cn incs).little = cn.little := by
  induction incs generalizing cn with
  | nil => simp [Counter.run]
  | cons v incs ih =>
    have := ih (cn.increment v)
    simp only [Counter.run, List.foldl_cons] at this ⊢
    simp only [Counter.increment] at this
    simp [this, Counter.increment]; omega

/-- a counter is refused exactly when the nonce is not 16 bytes long -/
theorem counter_new_refusal (nonce : Bytes) (cv : Option Int) (l : Bool) :
    Counter.new nonce cv l = .error .spsdk ↔ nonce.length ≠ 16 := by
  simp only [Counter.new]; split <;> simp_all

/-- "advances exactly by the number of blocks stated, including 32-bit wrap": after any sequence of increments
    the value is the first 12 nonce bytes followed by (initial word + ctr_value + Σ increments) mod 2^32 in the
    chosen byte order (DESIGN §7 #4: before `fix: Counter.value …` this raised OverflowError past 2^32). -/
theorem counter_value (nonce : Bytes) (cv : Option Int) (l : Bool) (incs : List Int) (hn : nonce.length = 16) :
    ∃ cn, Counter.new nonce cv l = .ok cn ∧
      (Counter.run cn incs).value =
        nonce.take 12 ++ enc32 l ((((dec32 l (nonce.drop 12) : Nat) : Int) + cv.getD 0 + incs.sum) % 4294967296).toNat := by
  refine ⟨⟨nonce.take 12, (dec32 l (nonce.drop 12) : Int) + cv.getD 0, l⟩, by simp [Counter.new, hn], ?_⟩
  obtain ⟨h1, h2, h3⟩ := Counter.run_spec ⟨nonce.take 12, (dec32 l (nonce.drop 12) : Int) + cv.getD 0, l⟩ incs
  simp [Counter.value, h1, h2, h3]

theorem counter_value_length (nonce : Bytes) (cv : Option Int) (l : Bool) (incs : List Int) (cn : Counter)
    (h : Counter.new nonce cv l = .ok cn) : (Counter.run cn incs).value.length = 16 := by
  simp only [Counter.new] at h
  split at h
  · cases h
  · cases h
    obtain ⟨_, h2, _⟩ := Counter.run_spec ⟨nonce.take 12, (dec32 l (nonce.drop 12) : Int) + cv.getD 0, l⟩ incs
    simp only [Counter.value, h2, List.length_append, enc32_length, List.length_take]
    omega

/-- one step, read back as a 32-bit word: `word' = (word + k) mod 2^32`, for every `k` (also negative, also ≥ 2^32) -/
theorem counter_step (cn : Counter) (k : Int) (hn : cn.nonce.length = 12) :
    ((dec32 cn.little ((cn.increment k).value.drop 12) : Nat) : Int) =
      ((dec32 cn.little (cn.value.drop 12) : Nat) + k) % 4294967296 := by
  have e1 : (cn.increment k).value.drop 12 = enc32 cn.little ((cn.ctr + k) % 4294967296).toNat := by
    simp [Counter.value, Counter.increment, List.drop_left' hn]
  have e2 : cn.value.drop 12 = enc32 cn.little (cn.ctr % 4294967296).toNat := by
    simp [Counter.value, List.drop_left' hn]
  rw [e1, e2, dec32_enc32, dec32_enc32]
  omega

/-- the nonce part never changes -/
theorem counter_nonce_fixed (cn : Counter) (k : Int) (hn : cn.nonce.length = 12) :
    (cn.increment k).value.take 12 = cn.value.take 12 := by
  simp [Counter.value, Counter.increment, List.take_left' hn]

/-! ## Part D — constants regenerated from the source, and the structure of the MAC/KDF constructions -/

/-- the default IV substituted by all four CBC wrappers is one block, and the required IV size is 128 bits -/
theorem default_iv_consts :
    SymConsts.aesCbcEncDefaultIvLen = 16 ∧ SymConsts.aesCbcDecDefaultIvLen = 16 ∧
    SymConsts.sm4CbcEncDefaultIvLen = 16 ∧ SymConsts.sm4CbcDecDefaultIvLen = 16 ∧
    SymConsts.aesCbcEncIvBits = 128 ∧ SymConsts.aesCbcDecIvBits = 128 ∧
    SymConsts.sm4CbcEncIvBits = 128 ∧ SymConsts.sm4CbcDecIvBits = 128 := by decide

/-- the AES-ECB inputs of `KeyStore.derive_*` are the documented constants; all master keys are 32 bytes -/
theorem keystore_consts :
    SymConsts.deriveHmacKeyInput = zeros 16 ∧
    SymConsts.deriveEncImageKeyInput = [1] ++ zeros 15 ++ [2] ++ zeros 15 ∧
    SymConsts.deriveSbKekInput = [3] ++ zeros 15 ++ [4] ++ zeros 15 ∧
    SymConsts.hmacKeyLen = 32 ∧ SymConsts.encImageMasterKeyLen = 32 ∧ SymConsts.sbKekMasterKeyLen = 32 ∧
    SymConsts.otfadKekMasterKeyLen = 32 ∧ SymConsts.otfadKekInputLen = 16 ∧
    SymConsts.otpMasterKeySize = 32 ∧ SymConsts.otfadKeySize = 16 ∧ SymConsts.sbkekSize = 32 := by decide

/-- the derived keys are the block encryptions of those constants under the 32-byte master key:
    one block for the HMAC key, two blocks (a 32-byte key) for the image-encryption key and the SB KEK -/
theorem keystore_derivations (h : CryptoLaws c) (k : Bytes) (hk : k.length = 32) :
    deriveHmacKey c k = .ok (c.encBlk k (zeros 16)) ∧
    deriveEncImageKey c k = .ok (c.encBlk k ([1] ++ zeros 15) ++ c.encBlk k ([2] ++ zeros 15)) ∧
    deriveSbKekKey c k = .ok (c.encBlk k ([3] ++ zeros 15) ++ c.encBlk k ([4] ++ zeros 15)) := by
  have hk' : aesKeyOk k = true := by simp [aesKeyOk, hk]
  have e16 := h.enc_len
  refine ⟨?_, ?_, ?_⟩ <;>
    simp [deriveHmacKey, deriveEncImageKey, deriveSbKekKey, SymConsts.hmacKeyLen, SymConsts.encImageMasterKeyLen,
      SymConsts.sbKekMasterKeyLen, hk, hk', aesEcbEncrypt, SymConsts.deriveHmacKeyInput,
      SymConsts.deriveEncImageKeyInput, SymConsts.deriveSbKekInput, ecbEnc, ecbEncWith, mapBlocks, zeros]

theorem keystore_refusals (k : Bytes) (hk : k.length ≠ 32) :
    deriveHmacKey c k = .error .spsdk ∧ deriveEncImageKey c k = .error .spsdk ∧
    deriveSbKekKey c k = .error .spsdk ∧ ∀ i, deriveOtfadKekKey c k i = .error .spsdk := by
  simp [deriveHmacKey, deriveEncImageKey, deriveSbKekKey, deriveOtfadKekKey, SymConsts.hmacKeyLen,
    SymConsts.encImageMasterKeyLen, SymConsts.sbKekMasterKeyLen, SymConsts.otfadKekMasterKeyLen, hk]

/-- the three rows of `CRC_ALGORITHMS`, translated from crcmod's conventions, are the catalogue parameter sets
    CRC-32 (ISO-HDLC), CRC-32/MPEG-2 and CRC-16/XMODEM — and there are exactly these three -/
theorem crc_table_standard :
    (crcLookup "CRC32").map crcParams = some Crc.crc32 ∧
    (crcLookup "CRC32_MPEG").map crcParams = some Crc.crc32Mpeg2 ∧
    (crcLookup "CRC16_XMODEM").map crcParams = some Crc.crc16Xmodem ∧
    CrcTable.table.map (·.1) = ["CRC32", "CRC32_MPEG", "CRC16_XMODEM"] := by decide

/-- HKDF is fixed to SHA-256 -/
theorem hkdf_hash_const : hkdfAlg = .sha256 := by decide

/-- RFC 2104: `H((K0 ⊕ opad) ‖ H((K0 ⊕ ipad) ‖ m))`, `K0` = key (hashed if longer than a block) zero-padded to a block -/
theorem hmac_def (a : HashAlg) (k m : Bytes) :
    hmac c a k m =
      c.hash a ((hmacKey0 c a k).map (· ^^^ 0x5c) ++ c.hash a ((hmacKey0 c a k).map (· ^^^ 0x36) ++ m)) ∧
    hmacKey0 c a k = (if k.length > a.blockSize then c.hash a k else k) ++
      zeros (a.blockSize - (if k.length > a.blockSize then c.hash a k else k).length) := ⟨rfl, rfl⟩

theorem hmacKey0_length (h : CryptoLaws c) (a : HashAlg) (k : Bytes) : (hmacKey0 c a k).length = a.blockSize := by
  have hs : a.size ≤ a.blockSize := by cases a <;> simp [HashAlg.size, HashAlg.blockSize]
  simp only [hmacKey0]
  split
  · simp [h.hash_len]; omega
  · simp; omega

/-- SP 800-38B: subkeys by doubling `E_K(0^128)`, last block masked with K1 (complete) or padded `10…0` and
    masked with K2, CBC-MAC over the result -/
theorem cmac_def (k m : Bytes) :
    cmac c k m =
      (let k1 := cmacDbl (c.encBlk k (zeros 16))
       let k2 := cmacDbl k1
       let n := if m.length = 0 then 1 else blocksFor m.length
       let lastB := m.drop (16 * (n - 1))
       cbcMac (c.encBlk k) (m.take (16 * (n - 1)) ++
         (if lastB.length = 16 then xorBytes lastB k1
          else xorBytes (lastB ++ [0x80] ++ zeros (15 - lastB.length)) k2))) := rfl

/-- RFC 5869: extract = HMAC(salt or HashLen zeros, IKM); expand = T(1) ‖ T(2) ‖ … truncated -/
theorem hkdf_def (a : HashAlg) (salt ikm info : Bytes) (len : Nat) :
    hkdf c a salt ikm info len =
      (hkdfExpandAux c a (hmac c a (if salt.isEmpty then zeros a.size else salt) ikm) info
        ((len + a.size - 1) / a.size) 1 []).take len ∧
    (∀ prk n i prev, hkdfExpandAux c a prk info (n + 1) i prev =
      hmac c a prk (prev ++ info ++ [UInt8.ofNat i]) ++
        hkdfExpandAux c a prk info n (i + 1) (hmac c a prk (prev ++ info ++ [UInt8.ofNat i]))) := ⟨rfl, fun _ _ _ _ => rfl⟩

/-- SB3.1 derivation data: exactly 32 bytes = label (12, LE) ‖ context (12) ‖ length (4, BE) ‖ iteration (4, BE) -/
theorem sb31_kdf_layout (dc rights kl it : Nat) (mode : KdfMode) (hr : rights ≤ 3) (hk : kl = 128 ∨ kl = 256)
    (hd : dc < 2 ^ 96) (hi : it < 2 ^ 32) :
    ∃ d, kdfData dc rights mode kl it = .ok d ∧ d.length = 32 ∧
      d.take 12 = leEnc 12 dc ∧
      (d.drop 12).take 12 = zeros 8 ++ [UInt8.ofNat (rights * 64), if mode = .kdk then 0x01 else 0x10, 0,
        if kl = 128 then 0x20 else 0x21] ∧
      (d.drop 24).take 4 = beEnc 4 kl ∧ d.drop 28 = beEnc 4 it := by
  have h1 : ¬ ((dc : Int) < 0 ∨ (dc : Int) ≥ 2 ^ 96) := by
    have : ((2 : Int) ^ 96) = ((2 ^ 96 : Nat) : Int) := by norm_cast
    omega
  have h2 : ¬ ((it : Int) < 0 ∨ (it : Int) ≥ 2 ^ 32) := by
    have : ((2 : Int) ^ 32) = ((2 ^ 32 : Nat) : Int) := by norm_cast
    omega
  have h3 : ((0 : Int) ≤ rights ∧ (rights : Int) ≤ 3) := by omega
  have h4 : ((kl : Int) = 128 ∨ (kl : Int) = 256) := by omega
  have hl12 := leEnc_length 12 dc
  refine ⟨_, by simp only [kdfData, h1, h2, h3, h4, not_true_eq_false, if_false, not_false_eq_true]; rfl, ?_, ?_, ?_, ?_, ?_⟩
  · simp [leEnc_length, beEnc_length, zeros]
  · simp [List.take_append, hl12]
  · have e : ((kl : Int) = 128) ↔ kl = 128 := by omega
    simp [List.drop_append, List.take_append, hl12, zeros, beEnc_length, e]
  · simp [List.drop_append, List.take_append, hl12, zeros, beEnc_length]
  · simp [List.drop_append, hl12, zeros, beEnc_length]

/-- illegal access rights / key lengths are refused with an SPSDK error -/
theorem sb31_kdf_refusals (dc rights kl it : Int) (mode : KdfMode)
    (h : ¬ (0 ≤ rights ∧ rights ≤ 3) ∨ ¬ (kl = 128 ∨ kl = 256)) :
    kdfData dc rights mode kl it = .error .spsdk := by
  simp only [kdfData]
  rcases h with h | h
  · simp [h]
  · by_cases hr : (0 ≤ rights ∧ rights ≤ 3) <;> simp [hr, h]

/-- the derived key is CMAC(key, data(1)) for 128-bit keys and CMAC(key, data(1)) ‖ CMAC(key, data(2)) for 256-bit
    keys, hence exactly `key_length / 8` bytes -/
theorem sb31_derive_key (h : CryptoLaws c) (key : Bytes) (dc rights : Nat) (mode : KdfMode)
    (hkey : aesKeyOk key = true) (hr : rights ≤ 3) (hd : dc < 2 ^ 96) :
    (∃ d1, kdfData dc rights mode 128 1 = .ok d1 ∧ deriveKey c key dc rights mode 128 = .ok (cmac c key d1)) ∧
    (∃ d1 d2, kdfData dc rights mode 256 1 = .ok d1 ∧ kdfData dc rights mode 256 2 = .ok d2 ∧
      deriveKey c key dc rights mode 256 = .ok (cmac c key d1 ++ cmac c key d2) ∧
      (cmac c key d1 ++ cmac c key d2).length = 32) := by
  obtain ⟨d1, e1, _⟩ := sb31_kdf_layout dc rights 128 1 mode hr (Or.inl rfl) hd (by omega)
  obtain ⟨d2, e2, _⟩ := sb31_kdf_layout dc rights 256 1 mode hr (Or.inr rfl) hd (by omega)
  obtain ⟨d3, e3, _⟩ := sb31_kdf_layout dc rights 256 2 mode hr (Or.inr rfl) hd (by omega)
  have e1' : kdfData dc rights mode 128 1 = .ok d1 := e1
  have e2' : kdfData dc rights mode 256 1 = .ok d2 := e2
  have e3' : kdfData dc rights mode 256 2 = .ok d3 := e3
  refine ⟨⟨d1, e1', ?_⟩, ⟨d2, d3, e2', e3', ?_, ?_⟩⟩
  · simp [deriveKey, e1', cmacW, hkey]
  · simp [deriveKey, e2', e3', cmacW, hkey]
  · simp [cmac_length h]

/-! ## Part F — the three CRCs of `CRC_ALGORITHMS` equal their reference (polynomial) definition -/

/-- what the proofs need from a row of the generated table: ≥ 8 bits wide, truncated polynomial and initial register
    in range, constant term 1, and `G(x)` is the polynomial exactly as written in the source (with its leading term) -/
theorem crc_table_wf : ∀ e ∈ CrcTable.table,
    8 ≤ (crcParams e.2.2).width ∧ (crcParams e.2.2).poly < 2 ^ (crcParams e.2.2).width ∧
    (crcParams e.2.2).init < 2 ^ (crcParams e.2.2).width ∧ (crcParams e.2.2).poly % 2 = 1 ∧
    Crc.gen (crcParams e.2.2) = e.2.2.polynomial := by decide

theorem crcLookup_mem {name : String} {cfg : CrcTable.CrcConfig} (h : crcLookup name = some cfg) :
    ∃ e ∈ CrcTable.table, e.2.2 = cfg := by
  simp only [crcLookup, Option.map_eq_some_iff] at h
  obtain ⟨e, he, rfl⟩ := h
  exact ⟨e, List.mem_of_find?_eq_some he, rfl⟩

/-- **`crc_generic_spec`**: for each algorithm of the table, every message `d`: the shift register computed bit by bit
    is THE polynomial of degree < width congruent to `init·x^(8|d|) + M(x)·x^width` modulo the generator polynomial
    written in the source, in GF(2)[x] (`M` = the message, bytes bit-reversed for the reflected CRC-32); the CRC is that
    remainder, bit-reversed for CRC-32, xor the final value. -/
theorem crc_generic_spec (name : String) (cfg : CrcTable.CrcConfig) (h : crcLookup name = some cfg) (d : Bytes) :
    Crc.register (crcParams cfg) d < 2 ^ (crcParams cfg).width ∧
    Crc.CongrMod cfg.polynomial
      (((crcParams cfg).init <<< (8 * d.length)) ^^^ (Crc.msgPoly (crcParams cfg) d <<< (crcParams cfg).width))
      (Crc.register (crcParams cfg) d) ∧
    (∀ r, r < 2 ^ (crcParams cfg).width →
      Crc.CongrMod cfg.polynomial
        (((crcParams cfg).init <<< (8 * d.length)) ^^^ (Crc.msgPoly (crcParams cfg) d <<< (crcParams cfg).width)) r →
      r = Crc.register (crcParams cfg) d) ∧
    crcCalculate name d = .ok ((if cfg.reverse then Crc.reflect (crcParams cfg).width (Crc.register (crcParams cfg) d)
      else Crc.register (crcParams cfg) d) ^^^ cfg.finalXor) := by
  obtain ⟨e, he, rfl⟩ := crcLookup_mem h
  obtain ⟨w8, hp, hi, _, hg⟩ := crc_table_wf e he
  have wf : Crc.WF (crcParams e.2.2) := ⟨w8, hp⟩
  rw [← hg]
  refine ⟨Crc.registerFrom_lt wf d _ hi, Crc.registerFrom_congr wf d _ hi,
    fun r hr hc => Crc.registerFrom_unique wf d _ r hi hr hc, ?_⟩
  simp only [crcCalculate, h, Crc.crc]
  rfl

/-- without reflection (XMODEM, MPEG-2) the message polynomial is simply the big-endian integer of the message -/
theorem crc_msgPoly_plain (cfg : CrcTable.CrcConfig) (hr : cfg.reverse = false) (d : Bytes) :
    Crc.msgPoly (crcParams cfg) d = beDec d :=
  Crc.msgPoly_eq_beDec _ hr d

/-- **single-byte error detection** for all three algorithms (`crc16_burst` is the XMODEM instance):
    two messages that differ in exactly one byte never have the same CRC -/
theorem crc_burst (name : String) (cfg : CrcTable.CrcConfig) (h : crcLookup name = some cfg)
    (pre suf : Bytes) (x y : UInt8) (hxy : x ≠ y) :
    crcCalculate name (pre ++ x :: suf) ≠ crcCalculate name (pre ++ y :: suf) := by
  obtain ⟨e, he, rfl⟩ := crcLookup_mem h
  obtain ⟨w8, hp, hi, hodd, _⟩ := crc_table_wf e he
  simp only [crcCalculate, h]
  intro heq
  exact Crc.crc_burst ⟨w8, hp⟩ hodd hi pre suf x y hxy (by injection heq)

theorem crc16_burst (pre suf : Bytes) (x y : UInt8) (hxy : x ≠ y) :
    Crc.crc Crc.crc16Xmodem (pre ++ x :: suf) ≠ Crc.crc Crc.crc16Xmodem (pre ++ y :: suf) :=
  Crc.crc_burst Crc.wf_crc16Xmodem (by decide) (by decide) pre suf x y hxy

/-- all three are affine maps of the message; CRC-16/XMODEM (zero init, zero xor-out) is linear -/
theorem crc_affine (name : String) (cfg : CrcTable.CrcConfig) (h : crcLookup name = some cfg) (a b c : Bytes)
    (h1 : a.length = b.length) (h2 : b.length = c.length) :
    Crc.crc (crcParams cfg) (xorBytes (xorBytes a b) c) =
      Crc.crc (crcParams cfg) a ^^^ Crc.crc (crcParams cfg) b ^^^ Crc.crc (crcParams cfg) c := by
  obtain ⟨e, he, rfl⟩ := crcLookup_mem h
  obtain ⟨w8, hp, hi, _, _⟩ := crc_table_wf e he
  exact Crc.crc_affine ⟨w8, hp⟩ hi a b c h1 h2

theorem crc16_linear (a b : Bytes) (hl : a.length = b.length) :
    Crc.crc Crc.crc16Xmodem (xorBytes a b) = Crc.crc Crc.crc16Xmodem a ^^^ Crc.crc Crc.crc16Xmodem b :=
  Crc.crc16Xmodem_xor a b hl

/-- **residues**: a message followed by its own CRC (big-endian for XMODEM / MPEG-2, little-endian for CRC-32) checks to a
    constant: 0, 0 and 0x2144DF1C — the receiver-side test "CRC over data ‖ CRC" used by frame formats -/
theorem crc_residues (m : Bytes) :
    Crc.crc Crc.crc16Xmodem (m ++ beEnc 2 (Crc.crc Crc.crc16Xmodem m)) = 0 ∧
    Crc.crc Crc.crc32Mpeg2 (m ++ beEnc 4 (Crc.crc Crc.crc32Mpeg2 m)) = 0 ∧
    Crc.crc Crc.crc32 (m ++ leEnc 4 (Crc.crc Crc.crc32 m)) = 0x2144DF1C :=
  ⟨Crc.crc_append_self_zero Crc.wf_crc16Xmodem (by decide) rfl rfl rfl 2 rfl m,
   Crc.crc_append_self_zero Crc.wf_crc32Mpeg2 (by decide) rfl rfl rfl 4 rfl m,
   Crc.crc32_residue m⟩

/-! ## Part G — more structure of the hash / MAC / KDF glue, and negative statements as reductions to a break -/

/-- `Hash(alg)`, any number of `update` calls, `finalize` = the one-shot `get_hash` of the concatenation — for every
    way of splitting a message (the library's streaming object is tied to this by the correspondence sweep over all
    splits of short messages) -/
theorem hash_stream_eq_oneshot (a : HashAlg) (parts : List Bytes) :
    (parts.foldl HashObj.update (HashObj.new a)).finalize c = getHash c a parts.flatten := by
  suffices h : ∀ (o : HashObj), (parts.foldl HashObj.update o).finalize c = c.hash o.alg (o.data ++ parts.flatten) by
    simpa [HashObj.new, getHash] using h (HashObj.new a)
  induction parts with
  | nil => intro o; simp [HashObj.finalize]
  | cons p ps ih => intro o; simp [ih, HashObj.update, List.append_assoc]

theorem hash_split (a : HashAlg) (m : Bytes) (i : Nat) :
    (((HashObj.new a).update (m.take i)).update (m.drop i)).finalize c = getHash c a m := by
  have := hash_stream_eq_oneshot (c := c) a [m.take i, m.drop i]
  simpa using this

/-- every member of the generated `EnumHashAlgorithm` has the digest length of its standard; `NONE` is refused -/
theorem hash_enum_spec :
    SymConsts.hashEnum.map (fun e => (e.2.2, getHashLength e.2.2)) =
      [("sha1", .ok 20), ("sha256", .ok 32), ("sha384", .ok 48), ("sha512", .ok 64), ("md5", .ok 16), ("sm3", .ok 32),
       ("none", .error .spsdk)] := by decide

/-- the labels of the four modelled algorithms select exactly those algorithms -/
theorem hash_enum_modelled : ∀ a : HashAlg, hashKindOfLabel a.name = some (.modelled a) := by
  intro a; cases a <;> decide

/-- RFC 2104 key normalisation: longer than a block → hashed first; shorter → zero padding is immaterial -/
theorem hmac_key_normalisation (h : CryptoLaws c) (a : HashAlg) (k m : Bytes) :
    (k.length > a.blockSize → hmac c a k m = hmac c a (c.hash a k) m) ∧
    (∀ j, k.length + j ≤ a.blockSize → hmac c a (k ++ zeros j) m = hmac c a k m) :=
  ⟨Crypto.hmac_long_key h a k m, fun j hj => Crypto.hmac_key_zero_pad a k m j hj⟩

/-- HKDF: requested length honoured; shorter outputs are prefixes of longer ones; the first block is
    HMAC(PRK, info ‖ 01); an empty salt means `HashLen` zero bytes (equivalently the empty HMAC key) -/
theorem hkdf_structure (h : CryptoLaws c) (a : HashAlg) (salt ikm info : Bytes) (len len' : Nat) :
    (hkdf c a salt ikm info len).length = len ∧
    (len ≤ len' → hkdf c a salt ikm info len = (hkdf c a salt ikm info len').take len) ∧
    (0 < len → len ≤ a.size →
      hkdf c a salt ikm info len = (hmac c a (hkdfExtract c a salt ikm) (info ++ [1])).take len) ∧
    hkdfExtract c a [] ikm = hmac c a (zeros a.size) ikm ∧ hkdfExtract c a [] ikm = hmac c a [] ikm :=
  ⟨Crypto.hkdf_length h a salt ikm info len, Crypto.hkdf_prefix h a salt ikm info len len',
   Crypto.hkdf_first_block a salt ikm info len, (Crypto.hkdfExtract_empty_salt a ikm).1,
   (Crypto.hkdfExtract_empty_salt a ikm).2⟩

/-- the SPSDK wrapper: exactly the lengths up to 255 blocks of SHA-256 are served, with exactly that many bytes -/
theorem hkdfW_spec (h : CryptoLaws c) (salt ikm info : Bytes) (len : Nat) :
    (len ≤ 255 * 32 → ∃ okm, hkdfW c salt ikm info len = .ok okm ∧ okm.length = len) ∧
    (255 * 32 < len → hkdfW c salt ikm info len = .error .other) := by
  have hs : hkdfAlg.size = 32 := by decide
  constructor
  · intro hl
    refine ⟨hkdf c hkdfAlg salt ikm info len, by simp [hkdfW, hs, Nat.not_lt.mpr hl],
      Crypto.hkdf_length h _ salt ikm info len⟩
  · intro hl; simp [hkdfW, hs, hl]

/-- CMAC uses the right subkey: K1 = dbl(E_K(0¹²⁸)) on a complete last block, K2 = dbl(K1) on a padded one
    (which includes the empty message) -/
theorem cmac_subkeys (k m : Bytes) :
    (∀ n, 0 < n → m.length = 16 * n →
      cmac c k m = cbcMac (c.encBlk k) (m.take (16 * (n - 1)) ++
        xorBytes (m.drop (16 * (n - 1))) (cmacDbl (c.encBlk k (zeros 16))))) ∧
    ((m.length % 16 ≠ 0 ∨ m.length = 0) →
      cmac c k m = cbcMac (c.encBlk k) (m.take (16 * (m.length / 16)) ++
        xorBytes (m.drop (16 * (m.length / 16)) ++ [0x80] ++ zeros (15 - m.length % 16))
          (cmacDbl (cmacDbl (c.encBlk k (zeros 16)))))) :=
  ⟨fun n hn hm => Crypto.cmacWith_complete _ m n hn hm, fun hm => Crypto.cmacWith_partial _ m hm⟩

/-- the SB3.1 derivation data EXECUTED from the source by the generator's AST interpreter on the whole finite
    parameter domain equals the model, row by row (120 rows: accepted ones byte for byte, refused ones as SPSDKError) -/
theorem sb31_kdf_table_agrees : ∀ r ∈ Sb31Kdf.table,
    kdfData r.1 r.2.1 (if r.2.2.1 then .kdk else .blk) r.2.2.2.1 r.2.2.2.2.1 =
      (match r.2.2.2.2.2 with
       | some b => .ok b
       | none => .error .spsdk) := by decide +kernel

/-- `cmac_validate`/`hmac_validate` accept a tag computed for another message only if the MAC itself is broken -/
theorem cmacValidate_sound (k m m' : Bytes) (hv : cmacValidate c k m' (cmac c k m) = .ok true) :
    m' = m ∨ Break c := by
  by_cases hm : m' = m
  · exact Or.inl hm
  · right
    simp only [cmacValidate] at hv
    split at hv
    · cases hv
    · exact Break.cmacForgery k m' m hm (by simpa using hv)

theorem hmacValidate_sound (a : HashAlg) (k m m' : Bytes) (hv : hmacValidate c a k m' (hmac c a k m) = true) :
    m' = m ∨ Break c := by
  by_cases hm : m' = m
  · exact Or.inl hm
  · exact Or.inr (Break.hmacForgery a k m' m hm (by simpa [hmacValidate] using hv))

/-- equal digests of different data are a collision -/
theorem getHash_binding (a : HashAlg) (m m' : Bytes) (he : getHash c a m = getHash c a m') : m = m' ∨ Break c := by
  by_cases hm : m = m'
  · exact Or.inl hm
  · exact Or.inr (Break.collision a m m' hm he)

/-- a wrapped key unwraps under a different KEK only if RFC 3394's integrity check is broken -/
theorem aesKeyUnwrap_wrong_kek (kek kek' p x : Bytes) (hu : aesKeyUnwrap c kek' (kwWrap c kek p) = .ok x) :
    kek' = kek ∨ Break c := by
  by_cases hk : kek' = kek
  · exact Or.inl hk
  · right
    refine Break.wrapForgery kek kek' p (fun e => hk e.symm) ?_
    simp only [aesKeyUnwrap] at hu
    split at hu
    · cases hu
    · split at hu
      · rename_i hs; simp [hs]
      · cases hu

/-- a CCM ciphertext is accepted under another nonce / associated data / after modification only if CCM is broken -/
theorem aesCcmDecrypt_tamper (k n n' a a' m ct' x : Bytes) (t : Int)
    (hd : aesCcmDecrypt c k ct' n' a' t = .ok x) :
    (n', a', ct') = (n, a, ccmEnc c k n a t.toNat m) ∨ Break c := by
  by_cases he : (n', a', ct') = (n, a, ccmEnc c k n a t.toNat m)
  · exact Or.inl he
  · right
    refine Break.ccmForgery k n n' a a' t.toNat m ct' he ?_
    simp only [aesCcmDecrypt] at hd
    split at hd
    · cases hd
    · split at hd
      · rename_i hs; simp [hs]
      · cases hd


/-! ## Part H (phase 3) — the incremental forms: streaming hash, CRC continuation and bursts, positioned AES-CTR -/

/-- **streaming SHA = one-shot SHA, for ALL chunkings.**  `ShaObj` is the running state of `Hash(alg)` written out over
    the Lean FIPS 180-4 reference (chaining value, < 1 block of buffer, byte count — the data itself is not kept);
    any number of `update` calls with chunks of any size (empty ones included), then `finalize`, gives the digest of the
    concatenation.  SHA-1, SHA-256, SHA-384, SHA-512. -/
theorem sha_stream_eq_oneshot (a : HashAlg) (chunks : List Bytes) :
    (chunks.foldl ShaObj.update (ShaObj.new a)).finalize = Sha.hash a chunks.flatten :=
  shaObj_stream a chunks

/-- the same with `update_int` calls mixed in: each contributes the minimal big-endian bytes of `abs(value)` -/
theorem hash_calls_eq_oneshot (a : HashAlg) (calls : List HashCall) :
    (calls.foldl ShaObj.call (ShaObj.new a)).finalize = getHash execOps a (calls.map HashCall.data).flatten := by
  rw [foldl_call, shaObj_stream]; rfl

/-- hence the state machine and the "remember everything" model of phase 2 agree on every call sequence -/
theorem shaObj_refines_hashObj (a : HashAlg) (chunks : List Bytes) :
    (chunks.foldl ShaObj.update (ShaObj.new a)).finalize =
      (chunks.foldl HashObj.update (HashObj.new a)).finalize execOps := by
  rw [sha_stream_eq_oneshot, hash_stream_eq_oneshot]; rfl

/-- the buffer holds exactly the bytes after the last complete block — never a whole block -/
theorem sha_stream_buffer (a : HashAlg) (chunks : List Bytes) :
    (chunks.foldl ShaObj.update (ShaObj.new a)).buffered = chunks.flatten.length % a.blockSize ∧
    (chunks.foldl ShaObj.update (ShaObj.new a)).buffered < a.blockSize := by
  rw [shaObj_buffered]
  exact ⟨rfl, Nat.mod_lt _ (by cases a <;> decide)⟩

/-- the generic statement behind it: any Merkle–Damgård hash with a non-empty block -/
theorem md_stream_eq_oneshot {σ : Type} (A : MdAlg σ) (hb : 0 < A.blk) (chunks : List Bytes) :
    A.finalize (chunks.foldl A.update A.init) = A.oneShot chunks.flatten :=
  A.stream_eq_oneShot hb chunks

/-- incremental HMAC (the library object under `spsdk_hmac.hmac`: inner hash pre-fed with `K0 ⊕ ipad`, outer hash at
    `finalize`) over the streaming SHA = RFC 2104 on the concatenation, every chunking, every key length -/
theorem hmac_stream_eq_oneshot (a : HashAlg) (key : Bytes) (chunks : List Bytes) :
    (chunks.foldl HmacObj.update (HmacObj.new a key)).finalize = hmacW execOps a key chunks.flatten :=
  hmacObj_stream a key chunks

/-- the CRC of the model is a left fold of the byte step over the message, starting from the initial register -/
theorem crc_is_fold (name : String) (cfg : CrcTable.CrcConfig) (h : crcLookup name = some cfg) (d : Bytes) :
    crcCalculate name d = .ok ((if cfg.reverse
      then Crc.reflect (crcParams cfg).width (d.foldl (Crc.byteStep (crcParams cfg)) (crcParams cfg).init)
      else d.foldl (Crc.byteStep (crcParams cfg)) (crcParams cfg).init) ^^^ cfg.finalXor) := by
  simp only [crcCalculate, h]; rfl

/-- `crcParams` (no bit reversal of the start register) is exact for every row of `CRC_ALGORITHMS` -/
theorem crcParamsExact_table : ∀ e ∈ CrcTable.table, crcParamsExact e.2.2 = crcParams e.2.2 := by decide

/-- **continuation** as the code offers it (`crc_obj.initial_value = crc_so_far; crc_obj.calculate(rest)`, used by the MBI
    CRC mixin): resuming from the CRC of `a` over `b` is the CRC of `a ++ b` — all three algorithms (the reflected CRC-32
    included), every split point -/
theorem crc_resume (name : String) (cfg : CrcTable.CrcConfig) (h : crcLookup name = some cfg) (a b : Bytes) :
    crcResume name (Crc.crc (crcParams cfg) a) b = crcCalculate name (a ++ b) := by
  obtain ⟨e, he, rfl⟩ := crcLookup_mem h
  obtain ⟨w8, hp, hi, _, _⟩ := crc_table_wf e he
  have := CrcX.crc_resume (p := crcParams e.2.2) ⟨w8, hp⟩ hi a b
  simp only [crcResume, crcCalculate, h]
  rw [← this]
  rfl

/-- any number of pieces -/
theorem crc_pieces (name : String) (cfg : CrcTable.CrcConfig) (h : crcLookup name = some cfg) (pieces : List Bytes) :
    crcPieces name pieces = crcCalculate name pieces.flatten := by
  cases pieces with
  | nil => rfl
  | cons p ps =>
    simp only [crcPieces, List.flatten_cons]
    induction ps generalizing p with
    | nil => simp
    | cons q qs ih =>
      have e : crcCalculate name p = .ok (Crc.crc (crcParams cfg) p) := by simp [crcCalculate, h]
      simp only [List.foldl_cons, e, crc_resume name cfg h p q]
      have := ih (p ++ q)
      simpa [List.append_assoc] using this

/-- **burst detection at full strength**: for each algorithm of the table, two messages of equal length whose message
    polynomials differ by `B·x^j`, `B ≠ 0`, `deg B < width` — i.e. every error pattern confined to a window of at most
    `width` consecutive bits (16 resp. 32), at any bit offset, across byte boundaries; single-bit errors are `B = 1` —
    never have the same CRC.  (For the reflected CRC-32 the window is in transmission order: `msgPoly` reverses each byte.) -/
theorem crc_burst_width (name : String) (cfg : CrcTable.CrcConfig) (h : crcLookup name = some cfg)
    (m m' : Bytes) (hl : m.length = m'.length) (B j : Nat) (hB0 : B ≠ 0) (hB : B < 2 ^ (crcParams cfg).width)
    (hd : Crc.msgPoly (crcParams cfg) m ^^^ Crc.msgPoly (crcParams cfg) m' = B <<< j) :
    crcCalculate name m ≠ crcCalculate name m' := by
  obtain ⟨e, he, rfl⟩ := crcLookup_mem h
  obtain ⟨w8, hp, hi, hodd, _⟩ := crc_table_wf e he
  simp only [crcCalculate, h]
  intro heq
  exact CrcX.crc_detects_burst ⟨w8, hp⟩ hodd hi m m' hl B j hB0 hB hd (by injection heq)

/-- for XMODEM and MPEG-2 (not reflected) in plain terms: the big-endian integers of the two messages differ by a
    non-zero `B < 2^width` shifted to any position -/
theorem crc_burst_width_plain (name : String) (cfg : CrcTable.CrcConfig) (h : crcLookup name = some cfg)
    (hr : cfg.reverse = false) (m m' : Bytes) (hl : m.length = m'.length) (B j : Nat) (hB0 : B ≠ 0)
    (hB : B < 2 ^ (crcParams cfg).width) (hd : beDec m ^^^ beDec m' = B <<< j) :
    crcCalculate name m ≠ crcCalculate name m' := by
  refine crc_burst_width name cfg h m m' hl B j hB0 hB ?_
  rw [Crc.msgPoly_eq_beDec _ hr, Crc.msgPoly_eq_beDec _ hr]; exact hd

/-- single-bit errors, every position, every message -/
theorem crc_single_bit (name : String) (cfg : CrcTable.CrcConfig) (h : crcLookup name = some cfg)
    (m m' : Bytes) (hl : m.length = m'.length) (j : Nat)
    (hd : Crc.msgPoly (crcParams cfg) m ^^^ Crc.msgPoly (crcParams cfg) m' = 2 ^ j) :
    crcCalculate name m ≠ crcCalculate name m' := by
  obtain ⟨e, he, rfl⟩ := crcLookup_mem h
  obtain ⟨w8, _, _, _, _⟩ := crc_table_wf e he
  refine crc_burst_width name _ h m m' hl 1 j (by decide) (Nat.one_lt_two_pow (by omega)) ?_
  rw [hd, Nat.shiftLeft_eq, Nat.one_mul]

/-- **AES-CTR split at any block boundary**: `aes_ctr_encrypt(k, a ++ b, iv)` = `aes_ctr_encrypt(k, a, iv)` followed by
    `aes_ctr_encrypt(k, b, iv advanced by len(a)/16 as a 128-bit big-endian integer)` — every block cipher with 16-byte
    outputs, every key the wrapper accepts, every length of `b` -/
theorem aesCtr_split (h : CryptoLaws c) (k iv a b : Bytes) (n : Nat) (hk : aesKeyOk k = true) (hiv : iv.length = 16)
    (ha : a.length = 16 * n) :
    aesCtr c k (a ++ b) iv = .ok (ctrXor c k iv a ++ ctrXor c k (ctrBlock iv n) b) ∧
    aesCtr c k a iv = .ok (ctrXor c k iv a) ∧ aesCtr c k b (ctrBlock iv n) = .ok (ctrXor c k (ctrBlock iv n) b) := by
  have hb : (ctrBlock iv n).length = 16 := by simp [ctrBlock, Crypto.beEnc_length]
  refine ⟨?_, by simp [aesCtr, hk, hiv], by simp [aesCtr, hk, hb]⟩
  simp only [aesCtr, hk, hiv, ctrXor, Bool.not_true, Bool.false_eq_true, if_false, ne_eq, not_true_eq_false]
  rw [ctrXorWith_split (h.enc_len k) iv a b n ha]

/-- **`Counter` positions the keystream**: the pattern `out += aes_ctr_encrypt(key, chunk, counter.value);
    counter.increment(len(chunk) // 16)` over block-aligned chunks equals ONE call on the concatenation with the initial
    counter value, for every chunking, as long as the 32-bit word (big-endian, the default) does not overflow -/
theorem counter_positions_ctr (h : CryptoLaws c) (k : Bytes) (hk : aesKeyOk k = true) (chunks : List Bytes)
    (cn : Counter) (hn : cn.nonce.length = 12) (hl : cn.little = false) (hal : ∀ ch ∈ chunks, ch.length % 16 = 0)
    (hw : Counter.word cn + chunks.flatten.length / 16 < 4294967296) :
    ctrChunks c k cn chunks = aesCtr c k chunks.flatten cn.value :=
  ctrChunks_eq h k hk chunks cn hn hl hal hw

/-- one `increment(n)` without overflow lands on block `n` of the 128-bit stream … -/
theorem counter_lands_on_block (cn : Counter) (hn : cn.nonce.length = 12) (hl : cn.little = false) (n : Nat)
    (hw : Counter.word cn + n < 4294967296) : (cn.increment (n : Int)).value = ctrBlock cn.value n :=
  counter_block_be cn hn hl n hw

/-- … and ACROSS the 32-bit wrap it does not: `Counter` keeps the nonce and wraps the word, the 128-bit counter of
    AES-CTR carries into the nonce.  So "two calls = one call" is false exactly from the wrap on; the positions `Counter`
    reaches there are those of `counter_value` (what the boot ROM's `uint32_t` counter does), not those of one long CTR call.
    The full statement "for all block-aligned splits incl. the wrap, two calls = one call" is therefore NOT a theorem. -/
theorem counter_wrap_diverges (cn : Counter) (hn : cn.nonce.length = 12) (hl : cn.little = false) (n : Nat)
    (hn32 : n < 4294967296) (hw : 4294967296 ≤ Counter.word cn + n) :
    (cn.increment (n : Int)).value ≠ ctrBlock cn.value n ∧
    (cn.increment (n : Int)).value = cn.nonce ++ beEnc 4 (Counter.word cn + n - 4294967296) ∧
    ctrBlock cn.value n = beEnc 12 (beDec cn.nonce + 1) ++ beEnc 4 (Counter.word cn + n - 4294967296) :=
  SymStream.counter_wrap_diverges cn hn hl n hn32 hw


/-- the constants of `Counter` regenerated from spsdk/crypto/symmetric.py on every run (required nonce length, nonce bytes
    kept, counter word size, the mask in `.value`, default increment, default byte order) are the modelled ones -/
theorem counter_consts :
    CounterConsts.nonceLen = 16 ∧ CounterConsts.nonceKeep = 12 ∧ CounterConsts.wordBytes = 4 ∧
    CounterConsts.wordMask = 4294967295 ∧ CounterConsts.defaultIncrement = 1 ∧ CounterConsts.defaultLittle = true := by decide

/-- … and the model's `Counter` is built from exactly those: refused iff the nonce length differs from the source's,
    `value` = kept nonce bytes ‖ the word reduced modulo `mask + 1`, of total length `nonceKeep + wordBytes` -/
theorem counter_model_uses_source_consts (nonce : Bytes) (cv : Option Int) (l : Bool) :
    (Counter.new nonce cv l = .error .spsdk ↔ (nonce.length : Int) ≠ CounterConsts.nonceLen) ∧
    (∀ cn, Counter.new nonce cv l = .ok cn →
      (cn.nonce.length : Int) = CounterConsts.nonceKeep ∧
      (cn.value.length : Int) = CounterConsts.nonceKeep + CounterConsts.wordBytes ∧
      cn.value = cn.nonce ++ enc32 l (cn.ctr % (CounterConsts.wordMask + 1)).toNat) := by
  refine ⟨?_, ?_⟩
  · rw [counter_new_refusal]; simp only [CounterConsts.nonceLen]; omega
  · intro cn h
    simp only [Counter.new] at h
    split at h
    · cases h
    · rename_i hn
      cases h
      simp only [Counter.value, CounterConsts.nonceKeep, CounterConsts.wordBytes, CounterConsts.wordMask,
        List.length_append, List.length_take, enc32_length]
      refine ⟨by omega, by omega, rfl⟩

/-! ## Part E — the laws are satisfiable: by the executable FIPS-197 AES / SM4 / SHA instance itself -/

/-- `decBlk k (encBlk k b) = b` etc. for the AES, SM4 and SHA written out in Crypto/{Aes,Sm4,Sha}.lean -/
theorem exec_laws : CryptoLaws execOps ∧ Sm4Laws execOps := ⟨execOps_laws, execOps_sm4Laws⟩

/-- hence every theorem above speaks about the instance the correspondence sweep runs -/
theorem exec_aesCbc_default_iv (k m : Bytes) (hk : aesKeyOk k = true) :
    ∃ ct, aesCbcEncrypt execOps k m none = .ok ct ∧ aesCbcDecrypt execOps k ct none = .ok (zeroPad16 m) :=
  aesCbc_default_iv execOps_laws k m hk

/-! ## non-vacuity -/

example : IvArg none ∧ IvArg (some []) ∧ IvArg (some (zeros 16)) :=
  ⟨Or.inl rfl, Or.inr (Or.inl rfl), Or.inr (Or.inr ⟨_, rfl, by simp⟩)⟩
example : aesKeyOk (zeros 16) = true ∧ aesKeyOk (zeros 24) = true ∧ aesKeyOk (zeros 32) = true ∧ aesKeyOk (zeros 64) = false := by decide
example : ccmParamsOk (zeros 16) (zeros 13) 4 = true ∧ ccmParamsOk (zeros 32) (zeros 7) 16 = true ∧
    ccmParamsOk (zeros 16) (zeros 14) 4 = false ∧ ccmParamsOk (zeros 16) (zeros 12) 5 = false := by decide
/-- wrap-around really happens in the model: start word ff ff ff ff, one increment -/
example : (Counter.increment ⟨zeros 12, 4294967295, false⟩ 1).value = zeros 16 := by decide
example : (Counter.increment ⟨zeros 12, 4294967295, true⟩ 2).value = zeros 12 ++ [1, 0, 0, 0] := by decide
example : kdfData 1 3 .blk 256 2 =
    .ok ([1,0,0,0,0,0,0,0,0,0,0,0] ++ zeros 8 ++ [0xC0, 0x10, 0, 0x21] ++ [0,0,1,0] ++ [0,0,0,2]) := by decide
example : zeroPad16 [1, 2, 3] = [1, 2, 3] ++ zeros 13 ∧ zeroPad16 (zeros 16) = zeros 16 ∧ zeroPad16 [] = [] := by decide
/-- CRC check values of the catalogue ("123456789") computed by the kernel from the generated table -/
example : crcCalculate "CRC16_XMODEM" [0x31,0x32,0x33,0x34,0x35,0x36,0x37,0x38,0x39] = .ok 0x31C3 := by decide +kernel
example : crcCalculate "CRC32" [0x31,0x32,0x33,0x34,0x35,0x36,0x37,0x38,0x39] = .ok 0xCBF43926 := by decide +kernel
example : crcCalculate "CRC32_MPEG" [0x31,0x32,0x33,0x34,0x35,0x36,0x37,0x38,0x39] = .ok 0x0376E6E7 := by decide +kernel

/-- phase 3 non-vacuity: a chunking with an empty chunk, a chunk crossing a block boundary and an `update_int` -/
example : (([HashCall.bytes [], .bytes (zeros 70), .int 258, .bytes [7]].map HashCall.data).flatten).length = 73 := by decide
example : (([[1, 2, 3], [], zeros 61, [9]].foldl alg256.update alg256.init).buf.length,
           ([[1, 2, 3], [], zeros 61, [9]].foldl alg256.update alg256.init).total) = (1, 65) := by decide
/-- burst hypotheses: a 9-bit error pattern straddling a byte boundary (XMODEM, 4-byte messages), and a single bit -/
example : beDec [0, 0x12, 0x34, 0] ^^^ beDec [0, 0x0D, 0xC4, 0] = 0x1FF <<< 12 ∧ (0x1FF : Nat) ≠ 0 ∧
    0x1FF < 2 ^ (crcParams ⟨0x11021, 0, 0, false⟩).width := by decide
example : Crc.msgPoly (crcParams ⟨0x104C11DB7, 0, 0xFFFFFFFF, true⟩) [1, 2] ^^^
    Crc.msgPoly (crcParams ⟨0x104C11DB7, 0, 0xFFFFFFFF, true⟩) [1, 3] = 2 ^ 7 := by decide
/-- CRC continuation on the reflected CRC-32 really needs the exact (bit-reversing) start register -/
example : crcResume "CRC32" 0x83DCEFB7 [0x32] = crcCalculate "CRC32" [0x31, 0x32] ∧
    crcCalculate "CRC32" [0x31] = .ok 0x83DCEFB7 := by decide +kernel
/-- Counter hypotheses: no-wrap and wrap cases exist -/
example : Counter.word ⟨zeros 12, 4294967294, false⟩ + 1 < 4294967296 ∧
    4294967296 ≤ Counter.word ⟨zeros 12, 4294967294, false⟩ + 2 := by decide

end SpsdkVerif.C09
