/-
C08 — keys and signatures: serialisation is lossless and sign/verify is sound.

What is PROVED here is SPSDK's own layer: the NXP raw encodings (RSA `modulus ‖ exponent`, ECC `X ‖ Y`,
ECDSA `r ‖ s`), the DER `ECDSA-Sig-Value` codec that the length sniffing relies on, the length / prefix sniffing
itself (`ECDSASignature.get_encoding/get_ecc_curve/parse`, `recreate_public_numbers`, `recreate_from_data`,
`PublicKey.parse` routing, `SPSDKEncoding.get_file_encodings`), `serialize_signature`, the candidate encodings
`verify_signature` hands to the backend, and `SignatureProvider.get_signature`.
What is NOT proved (it belongs to the `cryptography` package and is covered by differential runs only):
PEM/DER/PKCS#8 serialisation of keys, password encryption, the RSA / ECDSA primitives.  In the theorems these
appear as the parameters `ext : Ext` (answers of the loaders / validators) and `backend` (the verifier).

Model: Model/Keys.lean (hand-written, tied to /repo by the C08 correspondence streams) over
Generated/KeysTables.lean (tables and the integer tests of the sniffing, re-extracted from the source on every run).
Helper lemmas: Proofs/KeysBase.lean, Proofs/Keys.lean (part A), Proofs/KeysB.lean (part B).
-/
import SpsdkVerif.Proofs.Keys
import SpsdkVerif.Proofs.KeysB
import SpsdkVerif.Proofs.KeysGlue
import SpsdkVerif.Proofs.KeysCert

namespace SpsdkVerif.C08
open SpsdkVerif SpsdkVerif.Keys SpsdkVerif.Misc SpsdkVerif.Generated

/-! ## Generated tables agree with the specification constants -/

/-- `list(EccCurve)` is P-256, P-384, P-521 in this order (the loops take the first match). -/
theorem curve_table_agrees : Curve.all.map Curve.name = KeysTables.curveNames := by decide

/-- The three sources of the coordinate size agree: `KeyEccCommon.coordinate_size` (= ceil(key_size/8)),
    the literal table `ECDSASignature.COORDINATE_LENGTHS` and the local computation in `verify_signature`. -/
theorem coord_len_tables_agree (c : Curve) :
    sigCoordLen c = c.cl ∧ KeysTables.verifyCoordinateSize c.keySize = c.cl ∧ c.sigSize = 2 * c.cl := by
  cases c <;> decide

theorem coord_sizes : Curve.p256.cl = 32 ∧ Curve.p384.cl = 48 ∧ Curve.p521.cl = 66 := by decide

theorem rsa_key_sizes_agree : KeysTables.rsaSupportedKeySizes = [2048, 3072, 4096] := by decide

/-- default hash per curve: SHA-256 / SHA-384 / SHA-512 -/
theorem ecc_default_hash_agrees :
    Curve.all.map (fun c => KeysTables.eccDefaultHash.lookup c.keySize) = [some "sha256", some "sha384", some "sha512"] := by
  decide

/-! ## ECDSA signatures, raw `r ‖ s` -/

/-- Exporting then parsing the raw form returns the same numbers and the same curve — for every `r`, `s`
    that fit the coordinate width, in particular with any number of leading zero bytes. -/
theorem ecdsa_raw_roundtrip (c : Curve) (r s : Nat) (hr : r < 256 ^ c.cl) (hs : s < 256 ^ c.cl) :
    sigExport ⟨r, s, c⟩ .nxp = .ok (rawSig c r s) ∧ sigParse (rawSig c r s) = .ok ⟨r, s, c⟩ :=
  ⟨sigExport_raw c r s hr hs, sigParse_raw c r s hr hs⟩

/-- A raw signature is always recognised as raw, with the right curve, whatever its content. -/
theorem ecdsa_sniff_raw (c : Curve) (r s : Nat) :
    sigSniff (rawSig c r s) = .ok .nxp ∧ sigCurve (rawSig c r s).length = .ok c ∧ (rawSig c r s).length = c.sigSize := by
  refine ⟨sigSniff_raw c r s, ?_, ?_⟩
  · rw [rawSig_length]; exact (raw_window_facts c).2.1
  · rw [rawSig_length]; exact (raw_window_facts c).2.2.2.2.1.symm

/-- Numbers that do not fit are refused (Python `OverflowError`), never truncated. -/
theorem ecdsa_raw_export_overflow (c : Curve) (r s : Nat) (h : 256 ^ c.cl ≤ r ∨ 256 ^ c.cl ≤ s) :
    sigExport ⟨r, s, c⟩ .nxp = .error .other := sigExport_raw_overflow c r s h

/-! ## ECDSA signatures, DER -/

/-- The DER codec is lossless for ALL `r`, `s` whose encoding the decoder can read at all: the only hypothesis is
    that the encoding is shorter than 4 GiB (the decoder, rust-asn1, refuses length fields of more than four
    octets; no Python integer of that size can be exercised).  No bound relative to any curve, any number of
    leading zero bytes, top bit set or not. -/
theorem ecdsa_der_roundtrip (r s : Nat) (h : derLen r s < 2 ^ 32) : derDecode (derEncode r s) = some (r, s) :=
  derDecode_derEncode r s h

/-- … in particular for everything below `256 ^ k`, `k ≤ 2^30` bytes (all supported curves: `k = 66`). -/
theorem ecdsa_der_roundtrip_bounded (r s k : Nat) (hk : k ≤ 2 ^ 30) (hr : r < 256 ^ k) (hs : s < 256 ^ k) :
    derDecode (derEncode r s) = some (r, s) := by
  have := derLen_lt r s k hk hr hs
  have e30 : (2 : Nat) ^ 32 = 4 * 2 ^ 30 := by decide
  exact derDecode_derEncode r s (by omega)

/-- the encoder's output length is the closed form `derLen` the window hypothesis below talks about -/
theorem der_length (r s : Nat) : (derEncode r s).length = derLen r s := derEncode_length r s

/-- raw → DER → raw and DER → raw → DER conversions lose nothing -/
theorem ecdsa_raw_der_convert (c : Curve) (r s : Nat) (hr : r < 256 ^ c.cl) (hs : s < 256 ^ c.cl) :
    (sigParse (rawSig c r s)).bind (fun x => sigExport x .der) = .ok (derEncode r s) ∧
    serializeSignature (derEncode r s) c.cl = .ok (rawSig c r s) := by
  constructor
  · rw [sigParse_raw c r s hr hs]; rfl
  · have hcl : c.cl ≤ 2 ^ 30 := by cases c <;> decide
    have := derLen_lt r s c.cl hcl hr hs
    have e30 : (2 : Nat) ^ 32 = 4 * 2 ^ 30 := by decide
    rw [serialize_der r s c.cl (by omega)]
    exact rawPair_ok _ _ _ hr hs

/-- Orders of the base points (specification constants; only used to phrase "all (r, s) in [1, n-1]"). -/
def curveOrder : Curve → Nat
  | .p256 => 0xFFFFFFFF00000000FFFFFFFFFFFFFFFFBCE6FAADA7179E84F3B9CAC2FC632551
  | .p384 => 0xFFFFFFFFFFFFFFFFFFFFFFFFFFFFFFFFFFFFFFFFFFFFFFFFC7634D81F4372DDF581A0DB248B0A77AECEC196ACCC52973
  | .p521 => 0x1FFFFFFFFFFFFFFFFFFFFFFFFFFFFFFFFFFFFFFFFFFFFFFFFFFFFFFFFFFFFFFFFFA51868783BF2F966B7FCC0148F709A5D03BB5C9B8899C47AEBB6FB71E91386409

/-- FULL-STRENGTH statement the property asks for: every DER signature with `1 ≤ r, s < n` parses back to the
    same numbers and the curve it was made for.  It is FALSE on the current code (see `ecdsa_sniff_der_full_refuted`):
    `ECDSASignature.parse` has to guess the curve and even the encoding from the total length.  Recorded as the open
    known finding `C08-ecdsa-der-length-sniffing`; what holds is `ecdsa_sniff_der_partial`. -/
def SniffDerFull : Prop :=
  ∀ (c : Curve) (r s : Nat), 1 ≤ r → r < curveOrder c → 1 ≤ s → s < curveOrder c → sigParse (derEncode r s) = .ok ⟨r, s, c⟩

/-- What holds: whenever the DER length lies in the window `[2·cl+3, 2·cl+8]` the code attributes to the curve
    (this is the case for all but a ≈2⁻³² fraction of random signatures), parsing is exact. -/
theorem ecdsa_sniff_der_partial (c : Curve) (r s : Nat) (hw : LenWindow c r s) :
    sigParse (derEncode r s) = .ok ⟨r, s, c⟩ := sigParse_der c r s hw

/-- Witness 1 (replayed on the real code by the harness): `r = s = 1`, DER length 8 matches no curve. -/
example : derLen 1 1 = 8 ∧ sigParse (derEncode 1 1) = .error .spsdk := by decide

/-- Witness 2: a P-384 signature whose `s` has six leading zero bytes; its DER form is 96 bytes long, is taken
    for a raw P-384 signature and parses *without error* to different numbers. -/
def w2r : Nat := 0x100000000000000000000000000000000000000000000000000000000000000000000000000000000000000000003039  -- 2^380 + 12345
def w2s : Nat := 0x40000000000000000000000000000000000000000000000000000000000000000000000000000010932  -- 2^330 + 67890
example : w2r < curveOrder .p384 ∧ w2s < curveOrder .p384 := by decide +kernel
example : (derEncode w2r w2s).length = 96 := by decide +kernel
example : sigSniff (derEncode w2r w2s) = .ok .nxp := by decide +kernel
example : ∃ x, sigParse (derEncode w2r w2s) = .ok x ∧ x.curve = .p384 ∧ x.r ≠ w2r := by
  refine ⟨⟨beDec ((derEncode w2r w2s).take 48), beDec ((derEncode w2r w2s).drop 48), .p384⟩, ?_, rfl, ?_⟩ <;> decide +kernel

/-- Witness 3: one zero byte less (97 bytes) is taken for raw as well and then matches no curve. -/
def w3s : Nat := 0x4000000000000000000000000000000000000000000000000000000000000000000000000000000000001  -- 2^338 + 1
example : (derEncode w2r w3s).length = 97 ∧ sigParse (derEncode w2r w3s) = .error .spsdk := by decide +kernel

theorem ecdsa_sniff_der_full_refuted : ¬ SniffDerFull := by
  intro h
  have := h .p256 1 1 (by decide) (by decide) (by decide) (by decide)
  revert this
  decide

/-! ### Phase 3: the EXACT set of DER lengths on which the sniffing works -/

theorem sig_curve_small : ∀ L, L < 1024 →
    (sigCurve L = .ok .p256 ↔ (L = 64 ∨ (67 ≤ L ∧ L ≤ 72))) ∧
    (sigCurve L = .ok .p384 ↔ (L = 96 ∨ (99 ≤ L ∧ L ≤ 104))) ∧
    (sigCurve L = .ok .p521 ↔ (L = 132 ∨ (135 ≤ L ∧ L ≤ 140))) := by decide +kernel

theorem sig_curve_large (L : Nat) (h : 1024 ≤ L) : sigCurve L = .error .spsdk := by
  unfold sigCurve
  have : sigTable.find? (fun p => KeysTables.sigCurveStep L p.2) = none := by
    rw [List.find?_eq_none]
    intro p hp
    rw [B.sigStep_false p L hp h]; simp
  rw [this]

/-- `ECDSASignature.get_ecc_curve` for EVERY length (tests generated from the source): curve `c` is answered iff the length is `c`'s raw
    length `2·cl` or lies in `c`'s DER window `[2·cl+3, 2·cl+8]`; every other length is refused. -/
theorem sig_curve_exact (L : Nat) (c : Curve) :
    sigCurve L = .ok c ↔ (L = 2 * c.cl ∨ (2 * c.cl + 3 ≤ L ∧ L ≤ 2 * c.cl + 8)) := by
  by_cases h : L < 1024
  · have := sig_curve_small L h
    have cs := coord_sizes
    cases c
    · rw [cs.1]; simpa using this.1
    · rw [cs.2.1]; simpa using this.2.1
    · rw [cs.2.2]; simpa using this.2.2
  · rw [sig_curve_large L (by omega)]
    have := coord_sizes
    constructor
    · intro hh; cases hh
    · intro hh; cases c <;> omega

/-- EXACT characterisation of `ECDSASignature.parse` on a DER signature, for ALL `(r, s)` (encoding shorter than 4 GiB), by the length
    `L = derLen r s` alone — the three classes are disjoint and exhaustive:
    * `L ∈ {64, 65, 96, 97, 132, 133}`: the bytes are taken for raw `r ‖ s` (never DER-decoded): halves of the DER string as numbers;
    * `L` in the window `[2·cl+3, 2·cl+8]` of a curve `c`: exact — `(r, s, c)`;
    * every other `L`: refused with an SPSDK error.
    So the open finding `C08-ecdsa-der-length-sniffing` concerns exactly the complement of the three windows, and inside a window the
    curve reported is the window's (a P-384 signature with enough leading zero bytes to fall into 67..72 is reported as P-256). -/
theorem ecdsa_sniff_der_exact (r s : Nat) (h : derLen r s < 2 ^ 32) :
    (derLen r s ∈ [64, 65, 96, 97, 132, 133] →
      sigSniff (derEncode r s) = .ok .nxp ∧
      sigParse (derEncode r s) =
        (match sigCurve (derLen r s) with
         | .ok c => .ok ⟨beDec ((derEncode r s).take (derLen r s / 2)), beDec ((derEncode r s).drop (derLen r s / 2)), c⟩
         | .error e => .error e)) ∧
    (∀ c, LenWindow c r s → sigParse (derEncode r s) = .ok ⟨r, s, c⟩) ∧
    (derLen r s ∉ [64, 65, 96, 97, 132, 133] → (∀ c, ¬ LenWindow c r s) → sigParse (derEncode r s) = .error .spsdk) := by
  refine ⟨?_, fun c hw => sigParse_der c r s hw, ?_⟩
  · intro hm
    have hs := (B.sniffed_raw_lengths (derLen r s)).mpr hm
    unfold sigParse sigSniff
    simp only [derEncode_length, hs, if_true, true_and]
    cases sigCurve (derLen r s) <;> rfl
  · intro hm hw
    have hs : KeysTables.sigSniffNxp (derLen r s) = false := by
      rw [Bool.eq_false_iff]; exact fun hh => hm ((B.sniffed_raw_lengths _).mp hh)
    have hdec := derDecode_derEncode r s h
    have hc : sigCurve (derLen r s) = .error .spsdk := by
      cases hcur : sigCurve (derLen r s) with
      | ok c =>
        rcases (sig_curve_exact _ c).mp hcur with h1 | h2
        · exfalso; apply hm; have := coord_sizes; cases c <;> simp <;> omega
        · exact absurd h2 (hw c)
      | error e =>
        unfold sigCurve at hcur
        split at hcur
        · cases hcur
        · cases hcur; rfl
    unfold sigParse sigSniff
    simp only [derEncode_length, hs, hdec, hc]
    simp

/-- the three windows and the six raw lengths are pairwise disjoint, so the classes above never overlap -/
theorem sniff_classes_disjoint (c : Curve) (r s : Nat) (hw : LenWindow c r s) :
    derLen r s ∉ [64, 65, 96, 97, 132, 133] ∧ ∀ c', LenWindow c' r s → c' = c := by
  unfold LenWindow at *
  have := coord_sizes
  constructor
  · cases c <;> simp <;> omega
  · intro c' hw'
    cases c <;> cases c' <;> first | rfl | (exfalso; omega)

/-! ## sign → verify plumbing and the signature provider -/

/-- `PrivateKeyEcc.sign` (raw output) followed by `PublicKeyEcc.verify_signature`: the backend is asked about
    exactly the DER signature the backend produced, so the round trip succeeds whenever the backend's own does. -/
theorem sign_raw_then_verify (backend : Bytes → Bool) (c : Curve) (r s : Nat) (hr : r < 256 ^ c.cl) (hs : s < 256 ^ c.cl)
    (hb : backend (derEncode r s) = true) :
    serializeSignature (derEncode r s) c.cl = .ok (rawSig c r s) ∧ verifySignature backend c (rawSig c r s) = true := by
  refine ⟨(ecdsa_raw_der_convert c r s hr hs).2, ?_⟩
  unfold verifySignature
  rw [verifyCandidates_raw c r s hr hs]
  simp [hb]

/-- `sign(der_format=True)` followed by `verify_signature`: a signature the backend accepts is accepted, whatever
    its length (on the unrepaired code this needed `derLen r s ≠ 2·cl`: a DER signature exactly as long as the raw
    form was read as raw and rejected — proposed_fixes/C08-1.diff). -/
theorem verify_der (backend : Bytes → Bool) (c : Curve) (sig : Bytes) (hb : backend sig = true) :
    verifySignature backend c sig = true := by
  unfold verifySignature
  rw [List.any_eq_true]
  exact ⟨sig, mem_verifyCandidates c sig, hb⟩

/-- Conversely SPSDK accepts only what the backend accepted in one of the two legitimate readings (as given, or
    as raw `r ‖ s` of the key's width): no acceptance is introduced by SPSDK's own code. -/
theorem verify_sound (backend : Bytes → Bool) (c : Curve) (sig : Bytes) (h : verifySignature backend c sig = true) :
    backend sig = true ∨
      (sig.length = c.sigSize ∧ backend (derEncode (beDec (sig.take c.cl)) (beDec (sig.drop c.cl))) = true) := by
  unfold verifySignature verifyCandidates at h
  rw [(coord_len_tables_agree c).2.1] at h
  split at h
  · rename_i hl
    simp only [List.any_cons, List.any_nil, Bool.or_false, Bool.or_eq_true] at h
    rcases h with h | h
    · exact Or.inr ⟨hl, h⟩
    · exact Or.inl h
  · simp only [List.any_cons, List.any_nil, Bool.or_false] at h
    exact Or.inl h

/-- `SignatureProvider.get_signature`: whatever a provider's `sign` returns — raw, or DER inside the window — the
    result is the raw `r ‖ s` of the curve's width (`signature_length`); asking for DER converts losslessly. -/
theorem sigprovider_normalises (c : Curve) (r s : Nat) (hr : r < 256 ^ c.cl) (hs : s < 256 ^ c.cl) :
    getSignature (rawSig c r s) none = .ok (rawSig c r s) ∧
    getSignature (rawSig c r s) (some .nxp) = .ok (rawSig c r s) ∧
    getSignature (rawSig c r s) (some .der) = .ok (derEncode r s) ∧
    (rawSig c r s).length = c.sigSize ∧
    (LenWindow c r s → getSignature (derEncode r s) none = .ok (rawSig c r s)) := by
  refine ⟨?_, ?_, ?_, ?_, fun hw => getSignature_der c r s hr hs hw⟩
  · rw [getSignature_raw c r s hr hs]
  · rw [getSignature_raw c r s hr hs]
  · rw [getSignature_raw c r s hr hs]
  · rw [rawSig_length]; exact (raw_window_facts c).2.2.2.2.1.symm

/-- Outside the window the provider's DER output is passed on unchanged (only a log warning) — the same finding. -/
example : getSignature (derEncode 1 1) none = .ok (derEncode 1 1) := by decide

/-! ## public keys, NXP raw forms -/

/-- RSA `modulus ‖ exponent`: for every supported size, every modulus of exactly that many bits and every exponent
    of three or four bytes (65537 included) the raw export is `ks/8 + 3` or `+ 4` bytes and is read back exactly. -/
theorem rsa_raw_roundtrip (ks n e : Nat) (hks : ks ∈ KeysTables.rsaSupportedKeySizes) (hn : TopBit n ks)
    (he : 65536 ≤ e ∧ e < 2 ^ 32) :
    ∃ d, rsaExportNxp n e = .ok d ∧ d = beEnc (ks / 8) n ++ beEnc (byteLen e) e ∧
      (d.length = ks / 8 + 3 ∨ d.length = ks / 8 + 4) ∧ rsaRecreateNumbers d = .ok (n, e) :=
  B.rsa_raw_roundtrip ks n e hks hn he

/-- ECC `X ‖ Y`: fixed width per curve (leading zero bytes kept), the curve is recovered from the length. -/
theorem ecc_raw_roundtrip (ext : Ext) (c : Curve) (x y : Nat) (hx : x < 256 ^ c.cl) (hy : y < 256 ^ c.cl)
    (hon : ext.onCurve c x y = true) :
    eccExportNxp c x y = .ok (rawSig c x y) ∧ (rawSig c x y).length = 2 * c.cl ∧
      eccRecreateFromData ext (rawSig c x y) none = .ok (.ecc c x y) ∧
      eccRecreateFromData ext (rawSig c x y) (some c) = .ok (.ecc c x y) :=
  B.ecc_raw_roundtrip ext c x y hx hy hon

/-- For EVERY blob length at most one (curve, raw/DER) alternative or RSA size matches, and at most one curve
    matches a signature length: the first-match loops are order independent and raw ECC / raw RSA / the DER
    windows can never be confused with one another. -/
theorem raw_lengths_unambiguous (L : Nat) :
    (B.eccMatches L).length + (B.rsaMatches L).length ≤ 1 ∧ (B.sigMatches L).length ≤ 1 :=
  B.raw_lengths_unambiguous L

/-- exactly these signature lengths are taken for raw `r ‖ s` before any DER decoding is attempted -/
theorem sniffed_raw_lengths (L : Nat) : KeysTables.sigSniffNxp L = true ↔ L ∈ [64, 65, 96, 97, 132, 133] :=
  B.sniffed_raw_lengths L

/-! ## `get_file_encodings` and the routing of `PublicKey.parse` -/

/-- A DER object of 128 bytes or more (`30 8x …`) is never mistaken for PEM: its second byte is not valid UTF-8. -/
theorem sniff_der_long (l : UInt8) (rest : Bytes) (hl : 0x80 ≤ l.toNat ∧ l.toNat ≤ 0xBF) :
    fileEncoding (0x30 :: l :: rest) = .der := B.sniff_der_long l rest hl

/-- ASCII text containing `----` (every PEM file) is PEM; anything without `----` is DER. -/
theorem sniff_pem_ascii (d : Bytes) (hascii : ∀ b ∈ d, b.toNat < 128) (hd : hasDashes d = true) :
    fileEncoding d = .pem := B.sniff_pem_ascii d hascii hd
theorem sniff_no_dashes (d : Bytes) (hd : hasDashes d = false) : fileEncoding d = .der := B.sniff_no_dashes d hd

/-- The auto-detecting and both type-specific entry points return the exported ECC key for its NXP raw form.
    Hypotheses name what is assumed of `cryptography` (`loadDer = none`: the DER loader does not accept the raw
    blob) and the one residual risk of the sniffing (`fileEncoding = der`: the 2·cl bytes are not UTF-8 text
    containing `----`). -/
theorem pubparse_nxp_ecc (ext : Ext) (c : Curve) (x y : Nat) (hx : x < 256 ^ c.cl) (hy : y < 256 ^ c.cl)
    (hon : ext.onCurve c x y = true) (hder : ext.loadDer = none) (hs : fileEncoding (rawSig c x y) = .der) :
    pubParse ext (rawSig c x y) = .ok (.ecc c x y) ∧ pubParseEcc ext (rawSig c x y) = .ok (.ecc c x y) ∧
      pubParseRsa ext (rawSig c x y) = .error .spsdk :=
  B.pubparse_nxp_ecc ext c x y hx hy hon hder hs

/-- The routing does not look at the first byte: a raw ECC key of a legal length is recovered by the auto-detecting
    entry point WHATEVER its leading byte is (0x30 = DER SEQUENCE tag, 0x2D = '-', 0x04, …), as long as the DER loader
    either refuses the blob (then the raw fallback runs) or yields the very same key.  (A re-routing such as
    "data starting with 0x30 goes to the DER loader only" falsifies this statement's model counterpart and shows up
    in the `key_serialisation` correspondence and oracle, which sweep all 256 leading bytes of X and Y per curve.) -/
theorem pubparse_nxp_ecc_any_first_byte (ext : Ext) (c : Curve) (x y : Nat) (hx : x < 256 ^ c.cl) (hy : y < 256 ^ c.cl)
    (hon : ext.onCurve c x y = true) (hder : ext.loadDer = none ∨ ext.loadDer = some (.ecc c x y))
    (hs : fileEncoding (rawSig c x y) = .der) :
    pubParse ext (rawSig c x y) = .ok (.ecc c x y) ∧ pubParseEcc ext (rawSig c x y) = .ok (.ecc c x y) := by
  rcases hder with hder | hder
  · exact ⟨(B.pubparse_nxp_ecc ext c x y hx hy hon hder hs).1, (B.pubparse_nxp_ecc ext c x y hx hy hon hder hs).2.1⟩
  · have h : pubParse ext (rawSig c x y) = .ok (.ecc c x y) := by simp [pubParse, hs, hder]
    exact ⟨h, by simp [pubParseEcc, h]⟩

/-- non-vacuity: a raw P-256 blob whose first byte is the DER SEQUENCE tag, sniffed as binary -/
example : (rawSig .p256 (0x30 * 256 ^ 31 + 5) 7).head? = some 0x30 ∧ fileEncoding (rawSig .p256 (0x30 * 256 ^ 31 + 5) 7) = .der := by
  decide +kernel

theorem pubparse_nxp_rsa (ext : Ext) (ks n e : Nat) (hks : ks ∈ KeysTables.rsaSupportedKeySizes) (hn : TopBit n ks)
    (he : 65536 ≤ e ∧ e < 2 ^ 32) (hok : ext.rsaOk n e = true) (hder : ext.loadDer = none)
    (d : Bytes) (hd : rsaExportNxp n e = .ok d) (hs : fileEncoding d = .der) :
    pubParse ext d = .ok (.rsa n e) ∧ pubParseRsa ext d = .ok (.rsa n e) ∧ pubParseEcc ext d = .error .spsdk :=
  B.pubparse_nxp_rsa ext ks n e hks hn he hok hder d hd hs

/-- PEM and DER blobs are handed to the matching loader and its answer is returned unchanged. -/
theorem pubparse_pem_der (ext : Ext) (d : Bytes) (k : PubKey) :
    (fileEncoding d = .pem → ext.loadPem = some k → pubParse ext d = .ok k) ∧
    (fileEncoding d = .der → ext.loadDer = some k → pubParse ext d = .ok k) := by
  constructor
  · intro h1 h2; simp [pubParse, h1, h2]
  · intro h1 h2; simp [pubParse, h1, h2]

/-! ## Phase 2: the glue around the key objects (Model/KeysGlue.lean) -/

/-! ### DER → raw → DER with the explicit window predicate -/

/-- For ALL `(r, s)`: whenever the DER length lies in the window of curve `c` (the exact predicate under which
    `ECDSASignature.parse` recovers the curve) the DER form survives parse → export(DER) unchanged, and — when the numbers
    fit the coordinate width — DER → raw → DER is the identity and so is raw → DER → raw. -/
theorem ecdsa_der_raw_der (c : Curve) (r s : Nat) (hw : LenWindow c r s) :
    (sigParse (derEncode r s)).bind (fun x => sigExport x .der) = .ok (derEncode r s) ∧
    (r < 256 ^ c.cl → s < 256 ^ c.cl →
      (sigParse (derEncode r s)).bind (fun x => sigExport x .nxp) = .ok (rawSig c r s) ∧
      (sigParse (rawSig c r s)).bind (fun x => sigExport x .der) = .ok (derEncode r s) ∧
      (sigParse (rawSig c r s)).bind (fun x => sigExport x .nxp) = .ok (rawSig c r s)) := by
  refine ⟨by rw [sigParse_der c r s hw]; rfl, fun hr hs => ⟨?_, ?_, ?_⟩⟩
  · rw [sigParse_der c r s hw]; exact sigExport_raw c r s hr hs
  · rw [sigParse_raw c r s hr hs]; rfl
  · rw [sigParse_raw c r s hr hs]; exact sigExport_raw c r s hr hs

/-! ### attempt order of `extract_public_key_from_data` (and of every `try … except SPSDKError: pass` chain) -/

/-- A certificate is tried before a private key before a public key; the first decoder that accepts wins, whatever the
    later ones would say. -/
theorem extract_public_key_order {α : Type} (k : α) (p q : Try α) :
    extractPublicKey (.ok k) p q = .ok k ∧ extractPublicKey .spsdk (.ok k) q = .ok k ∧
    extractPublicKey .spsdk .spsdk (.ok k) = .ok k := ⟨rfl, rfl, rfl⟩

/-- If all three refuse the result is an SPSDK error — and only then. -/
theorem extract_public_key_all_refuse {α : Type} (c p q : Try α) :
    extractPublicKey c p q = .error .spsdk ↔ c = .spsdk ∧ p = .spsdk ∧ q = .spsdk := by
  unfold extractPublicKey
  rw [firstAccept_spsdk_iff]
  simp

/-- A failure that is not an `SPSDKError` does not fall through: it escapes exactly when every earlier attempt refused. -/
theorem extract_public_key_escape {α : Type} (c p q : Try α) :
    extractPublicKey c p q = .error .other ↔
      c = .other ∨ (c = .spsdk ∧ p = .other) ∨ (c = .spsdk ∧ p = .spsdk ∧ q = .other) := by
  cases c <;> cases p <;> cases q <;> simp [extractPublicKey, firstAccept]

/-- General form, for chains of any length (`PublicKey.parse`, `reconstruct_key`, …). -/
theorem first_accept_spec {α : Type} (l : List (Try α)) (a : α) :
    (firstAccept l = .ok a ↔ ∃ pre post, l = pre ++ .ok a :: post ∧ ∀ t ∈ pre, t = .spsdk) ∧
    (firstAccept l = .error .spsdk ↔ ∀ t ∈ l, t = .spsdk) ∧
    (firstAccept l = .error .other ↔ ∃ pre post, l = pre ++ .other :: post ∧ ∀ t ∈ pre, t = .spsdk) :=
  ⟨firstAccept_ok_iff l a, firstAccept_spsdk_iff l, firstAccept_other_iff l⟩

/-- `get_matching_key_id(_from_signature)` returns `i` iff key `i` matches and no earlier key does; it refuses with an SPSDK
    error iff no key matches. -/
theorem matching_key_id_spec (ms : List Bool) (i : Nat) :
    (matchingKeyId ms = .ok i ↔ ms[i]? = some true ∧ ∀ j, j < i → ms[j]? = some false) ∧
    (matchingKeyId ms = .error .spsdk ↔ ∀ m ∈ ms, m = false) := by
  refine ⟨?_, firstTrueFrom_err_iff ms 0⟩
  unfold matchingKeyId
  rw [firstTrueFrom_ok_iff]
  simp

/-! ### certificates -/

/-- `Certificate.parse(cert.export(NXP))` returns the certificate: the zero padding to a multiple of four is stripped one
    byte per `ExtraData` error until the loader accepts.  Assumptions on `cryptography` (hypotheses): it loads the DER form
    and reports `ExtraData` for the DER form followed by zero bytes. -/
theorem cert_nxp_roundtrip {γ : Type} (load : Bytes → LoadRes γ) (der : Bytes) (c : γ)
    (hload : load der = .ok c) (hextra : ∀ k, 0 < k → load (der ++ List.replicate k 0) = .extraData) :
    certLoadDer load (certExportNxp der) = .ok c ∧ certLoadDer load der = .ok c := by
  constructor
  · rw [certLoadDer_eq]
    unfold certExportNxp
    exact certLoadDerF_padded load der c hload hextra _ _ (by rw [List.length_append, List.length_replicate]; omega)
  · have := certLoadDerF_padded load der c hload hextra 0 der.length (by omega)
    rw [certLoadDer_eq]
    simpa using this

/-- … through `Certificate.parse` itself for every DER certificate of 128 bytes or more (`30 8x …`): padded or not it is
    never sniffed as PEM. -/
theorem cert_parse_nxp_roundtrip {γ : Type} (loadPem : Bytes → Option γ) (load : Bytes → LoadRes γ) (l : UInt8) (rest : Bytes) (c : γ)
    (hl : 0x80 ≤ l.toNat ∧ l.toNat ≤ 0xBF)
    (hload : load (0x30 :: l :: rest) = .ok c)
    (hextra : ∀ k, 0 < k → load ((0x30 :: l :: rest) ++ List.replicate k 0) = .extraData) :
    certParse loadPem load (certExportNxp (0x30 :: l :: rest)) = .ok c ∧ certParse loadPem load (0x30 :: l :: rest) = .ok c := by
  have h1 : fileEncoding (certExportNxp (0x30 :: l :: rest)) = .der := by
    unfold certExportNxp
    rw [List.cons_append, List.cons_append]
    exact B.sniff_der_long l _ hl
  have h2 : fileEncoding (0x30 :: l :: rest) = .der := B.sniff_der_long l rest hl
  have hr := cert_nxp_roundtrip load (0x30 :: l :: rest) c hload hextra
  unfold certParse
  simp [h1, h2, hr.1, hr.2]

/-- `raw_size` is the DER length rounded up to a multiple of four -/
theorem cert_raw_size (der : Bytes) :
    certRawSize der % 4 = 0 ∧ der.length ≤ certRawSize der ∧ certRawSize der < der.length + 4 := by
  unfold certRawSize certExportNxp
  rw [List.length_append, List.length_replicate]
  omega

/-- Only zero bytes are ever stripped: trailing data that is not zero is refused. -/
theorem cert_strip_only_zeros {γ : Type} (load : Bytes → LoadRes γ) (data : Bytes)
    (h : load data = .extraData) (hz : data.getLast? ≠ some 0) : certLoadDer load data = .error .spsdk := by
  rw [certLoadDer_eq]
  unfold certLoadDerF
  rw [h]
  simp [hz]

/-! #### Phase 3: the padding is removed BY THE DECLARED LENGTH of the DER element -/

/-- What the generator found in `Certificate.parse` (certificate.py): a retry loop that removes ONE trailing byte per failed load,
    only the byte 0x00, only on the loader's `ExtraData` error.  (An unconditional `data.rstrip(b"\\0")` is generated as mode 1 and
    falsifies this and — through `certLoadDer` — every theorem of this section.) -/
theorem cert_pad_removal_agrees :
    KeysTables.certPadMode = 0 ∧ KeysTables.certPadBytes = [0] ∧ KeysTables.certPadNeedsExtraData = true := by decide

/-- The declared total length is a function of the header alone: appended bytes never change it … -/
theorem der_total_len_header_only (d t : Bytes) (n : Nat) (h : derTotalLen d = some n) : derTotalLen (d ++ t) = some n :=
  derTotalLen_append d t n h

/-- … and every canonical DER SEQUENCE (content shorter than 4 GiB) declares exactly its own length. -/
theorem der_total_len_canonical (content : Bytes) (h : content.length < 2 ^ 32) :
    derTotalLen (encTLV 0x30 content) = some (encTLV 0x30 content).length := derTotalLen_encTLV content h

/-- FULL characterisation of `load_der_certificate` over the length-driven loader, for EVERY element `el` that declares its own length
    and EVERY tail: the tail is dropped iff it consists of zero bytes only, and the answer is then the loader's answer on exactly `el`.
    Nothing of a well-formed `el` is ever removed — whatever bytes it ends with (a signature ending in 0x00 …); `syn el = .extra`
    (the decoder's `ExtraData` error raised INSIDE a damaged element) may cost the element zero bytes, but the outcome is the error. -/
theorem cert_strip_by_declared_length {γ : Type} (syn : Bytes → SynRes) (body : Bytes → Option γ) (el tail : Bytes)
    (hn : derTotalLen el = some el.length) :
    certLoadDer (derLoad syn body) (el ++ tail) = if tail.all (· == 0) then loadExact syn body el else .error .spsdk := by
  rw [certLoadDer_eq]
  exact certLoadDerF_derLoad syn body el hn tail _ (by rw [List.length_append]; omega)

/-- `parse (export_nxp c) = c` with NO assumption on the last bytes of the DER form (the phase-2 theorem `cert_nxp_roundtrip` assumes
    the loader's answers; here they follow from the declared length): the padded form, the bare DER form and the DER form followed by
    any number of zero bytes all give the certificate. -/
theorem cert_nxp_roundtrip_any_ending {γ : Type} (syn : Bytes → SynRes) (body : Bytes → Option γ) (der : Bytes) (c : γ)
    (hn : derTotalLen der = some der.length) (hsyn : syn der = .ok) (hbody : body der = some c) :
    certLoadDer (derLoad syn body) (certExportNxp der) = .ok c ∧ certLoadDer (derLoad syn body) der = .ok c ∧
    ∀ k, certLoadDer (derLoad syn body) (der ++ List.replicate k 0) = .ok c := by
  have hall : ∀ k, (List.replicate k (0 : UInt8)).all (· == 0) = true := by
    intro k; simp
  have hex : loadExact syn body der = .ok c := by simp [loadExact, hsyn, hbody]
  have hk : ∀ k, certLoadDer (derLoad syn body) (der ++ List.replicate k 0) = .ok c := by
    intro k; rw [cert_strip_by_declared_length syn body der _ hn, hall k, if_pos rfl, hex]
  refine ⟨hk _, ?_, hk⟩
  have := hk 0
  simpa using this

/-- … and through `Certificate.parse` itself (sniffing included) for every DER certificate of 128 bytes or more. -/
theorem cert_parse_nxp_roundtrip_any_ending {γ : Type} (loadPem : Bytes → Option γ) (syn : Bytes → SynRes) (body : Bytes → Option γ)
    (l : UInt8) (rest : Bytes) (c : γ) (hl : 0x80 ≤ l.toNat ∧ l.toNat ≤ 0xBF)
    (hn : derTotalLen (0x30 :: l :: rest) = some (0x30 :: l :: rest).length)
    (hsyn : syn (0x30 :: l :: rest) = .ok) (hbody : body (0x30 :: l :: rest) = some c) :
    certParse loadPem (derLoad syn body) (certExportNxp (0x30 :: l :: rest)) = .ok c := by
  have h1 : fileEncoding (certExportNxp (0x30 :: l :: rest)) = .der := by
    unfold certExportNxp
    rw [List.cons_append, List.cons_append]
    exact B.sniff_der_long l _ hl
  unfold certParse
  rw [h1]
  simp only [reduceCtorEq, if_false]
  exact (cert_nxp_roundtrip_any_ending syn body _ c hn hsyn hbody).1

/-- Damaged input is refused, never "repaired": a non-zero byte anywhere behind the element, or an element cut short, is an SPSDK error. -/
theorem cert_trailer_refused {γ : Type} (syn : Bytes → SynRes) (body : Bytes → Option γ) (el tail : Bytes)
    (hn : derTotalLen el = some el.length) (hnz : ∃ b ∈ tail, b ≠ 0) :
    certLoadDer (derLoad syn body) (el ++ tail) = .error .spsdk := by
  rw [cert_strip_by_declared_length syn body el tail hn]
  obtain ⟨b, hb, hb0⟩ := hnz
  have : tail.all (· == 0) = false := by
    rw [Bool.eq_false_iff]; intro h
    rw [List.all_eq_true] at h
    exact hb0 (by simpa using h b hb)
  rw [this]; rfl

/-- The variant "strip every trailing zero, then load" (generated mode 1) is NOT equivalent: it loses every certificate whose DER form
    ends in 0x00 — witness: a 4-byte element ending in zero, padded to 4 (unchanged) resp. followed by zeros. -/
theorem cert_rstrip_variant_refuted :
    let el : Bytes := [0x30, 0x02, 0x05, 0x00]
    derTotalLen el = some el.length ∧
    certLoadDer (derLoad (fun _ => .ok) some) (el ++ [0, 0]) = .ok el ∧
    certLoadDerStrip [0] (derLoad (fun _ => .ok) some) (el ++ [0, 0]) = .error .spsdk ∧
    certLoadDerStrip [0] (derLoad (fun _ => .ok) some) (certExportNxp el) = .error .spsdk := by decide

/-- non-vacuity: elements that declare their own length and END IN ZERO bytes (short and long length form) -/
example : derTotalLen [0x30, 0x03, 0x01, 0x00, 0x00] = some 5 := by decide
example : derTotalLen (encTLV 0x30 (List.replicate 200 0)) = some 203 ∧ (encTLV 0x30 (List.replicate 200 0)).getLast? = some 0 := by
  decide +kernel
example : certLoadDer (derLoad (fun _ => .ok) some) (certExportNxp [0x30, 0x03, 0x01, 0x00, 0x00]) = .ok [0x30, 0x03, 0x01, 0x00, 0x00] := by
  decide
example : certLoadDer (derLoad (fun _ => .ok) some) ([0x30, 0x03, 0x01, 0x00, 0x00] ++ [0, 0, 7]) = .error .spsdk := by decide

/-- `validate_certificate_chain`: a chain of `n ≥ 2` certificates yields `n - 1` answers, answer `i` being
    `chain[i].validate(chain[i+1])` (subject first, its issuer next); shorter chains are refused. -/
theorem validate_chain_spec {γ : Type} (valid : γ → γ → Bool) (chain : List γ) :
    (chain.length ≤ 1 → validateChain valid chain = .error .spsdk) ∧
    (2 ≤ chain.length → ∃ r, validateChain valid chain = .ok r ∧ r.length = chain.length - 1 ∧
      ∀ i (h : i + 1 < chain.length), r[i]? = some (valid (chain[i]'(by omega)) (chain[i + 1]'h))) := by
  constructor
  · intro h; simp [validateChain, h]
  · intro h
    have h' : ¬ chain.length ≤ 1 := by omega
    refine ⟨List.zipWith valid chain chain.tail, by simp [validateChain, h'], ?_, ?_⟩
    · simp only [List.length_zipWith, List.length_tail]; omega
    · intro i hi
      rw [List.getElem?_zipWith]
      have h1 : chain[i]? = some (chain[i]'(by omega)) := List.getElem?_eq_getElem (by omega)
      have h2 : chain.tail[i]? = some (chain[i + 1]'hi) := by
        rw [List.getElem?_tail]; exact List.getElem?_eq_getElem hi
      rw [h1, h2]

/-- `Certificate.validate` / `validate_subject` check the signature with the parameters the certificate was signed with:
    the certificate's hash, and PSS padding exactly for RSASSA-PSS certificates (full strength since commit 10a0142; the
    seeded/unrepaired variant that never passes `pss_padding` falsifies it for `.rsaPss`). -/
theorem cert_validate_params (alg : CertAlg) (hash : String) :
    certValidateCall alg hash = certValidateSpec alg hash := rfl

/-! ### signature providers -/

/-- A provider created by `SignatureProvider.create` / `get_signature_provider(sp_cfg="type=file;…", pss_padding=v)` signs
    with PSS iff `value_to_bool(v)`: `pss_padding` is a NAMED parameter of `PlainFileSP.__init__` (list generated from the
    source), so `filter_params` keeps it although it is a reserved key (full strength since commit 9fd8586; before, the key
    was deleted and the provider always signed PKCS#1 v1.5). -/
theorem sp_create_honours_pss (params : Params) (v : PVal) (h : params.lookup "pss_padding" = some v) :
    createdUsesPss params = valueToBool v := by
  have hn : KeysTables.plainFileInitParams.contains "pss_padding" = true := by decide
  have hk : (filterParams plainFileVarnames KeysTables.spReservedKeys params).lookup "pss_padding" = some v := by
    unfold filterParams
    rw [lookup_filter_keep]
    · exact h
    · intro p hp; rw [hp]; decide
  unfold createdUsesPss plainFileSignKwargs plainFileInitKwargs
  rw [hk, hn, List.lookup_append, lookup_filter_none]
  · simp [PVal.truthy]
  · intro p hp; rw [hp, hn]; rfl

/-- … and without the key the provider signs PKCS#1 v1.5. -/
theorem sp_create_default_v15 (params : Params) (h : params.lookup "pss_padding" = none) :
    createdUsesPss params = false := by
  have hn : KeysTables.plainFileInitParams.contains "pss_padding" = true := by decide
  have hk : (filterParams plainFileVarnames KeysTables.spReservedKeys params).lookup "pss_padding" = none := by
    unfold filterParams
    rw [lookup_filter_keep]
    · exact h
    · intro p hp; rw [hp]; decide
  unfold createdUsesPss plainFileSignKwargs plainFileInitKwargs
  rw [hk, hn, List.lookup_append, lookup_filter_none]
  · simp
  · intro p hp; rw [hp, hn]; rfl

/-- The `local_file_key=` path converts the same way (the text `"False"` is false). -/
theorem sp_local_file_honours_pss (kwargs : Params) (v : PVal) (h : kwargs.lookup "pss_padding" = some v) :
    localFileUsesPss kwargs = valueToBool v := by
  have hn : KeysTables.plainFileInitParams.contains "pss_padding" = true := by decide
  unfold localFileUsesPss plainFileInitKwargs
  rw [h, hn, List.lookup_append, lookup_filter_none]
  · simp [PVal.truthy]
  · intro p hp; rw [hp, hn]; rfl

/-- Every other keyword (not reserved, not a named parameter) reaches `private_key.sign` unchanged. -/
theorem sp_create_keeps_other_kwargs (params : Params) (k : String) (hk : k ≠ "pss_padding")
    (h1 : KeysTables.spReservedKeys.contains k = false) (h2 : KeysTables.plainFileInitParams.contains k = false) :
    (plainFileSignKwargs params).lookup k = params.lookup k := by
  have hb : (k == "pss_padding") = false := by rw [beq_eq_false_iff_ne]; exact hk
  unfold plainFileSignKwargs plainFileInitKwargs filterParams
  rw [List.lookup_append, lookup_filter_keep, lookup_filter_keep]
  · cases hl : params.lookup k with
    | some v => simp
    | none =>
      simp only [Option.none_or]
      split
      · split <;> simp [List.lookup, hb]
      · rfl
  · intro p hp; rw [hp, h1]; rfl
  · intro p hp; rw [hp, h2]; rfl

/-- `signature_length` announced by a provider = the actual length of what `get_signature` returns: RSA `key_size // 8`
    = the modulus length in bytes (the length of every RSASSA signature, RFC 8017) for every supported size; ECC
    `2·cl` = the length of the raw `r ‖ s` (and of its normalisation, `sigprovider_normalises`). -/
theorem signature_length_actual :
    (∀ ks n, ks ∈ KeysTables.rsaSupportedKeySizes → TopBit n ks → rsaSigLen ks = byteLen n) ∧
    (∀ c r s, eccSigLen c = (rawSig c r s).length) ∧
    (Curve.all.map eccSigLen = [64, 96, 132] ∧ KeysTables.rsaSupportedKeySizes.map rsaSigLen = [256, 384, 512]) := by
  refine ⟨?_, ?_, by decide⟩
  · intro ks n hks hn
    simp only [KeysTables.rsaSupportedKeySizes, List.mem_cons, List.mem_nil_iff, or_false] at hks
    rcases hks with rfl | rfl | rfl
    · rw [B.byteLen_topbit n 2048 256 (by decide) (by decide) hn]; decide
    · rw [B.byteLen_topbit n 3072 384 (by decide) (by decide) hn]; decide
    · rw [B.byteLen_topbit n 4096 512 (by decide) (by decide) hn]; decide
  · intro c r s
    rw [rawSig_length]
    exact (raw_window_facts c).2.2.2.2.1

/-! #### Phase 3: `signature_length` vs what `get_signature` really returns, over the generated tables -/

/-- `PlainFileSP.signature_length` is the private key's `signature_size`; the public and the private RSA class compute it alike. -/
theorem sp_signature_length_source :
    KeysTables.plainFileSigLenAttr = "self.private_key.signature_size" ∧
    ∀ ks, KeysTables.rsaPubSignatureSize ks = KeysTables.rsaSignatureSize ks := ⟨by decide, fun _ => rfl⟩

theorem sigCurve_error_spsdk (L : Nat) (e : PyErr) (h : sigCurve L = .error e) : e = .spsdk := by
  unfold sigCurve at h
  split at h
  · cases h
  · cases h; rfl

/-- `get_signature` never re-interprets a signature longer than the largest ECDSA window (140 bytes): whatever the bytes are — even
    if they happen to be a well-formed DER `ECDSA-Sig-Value` — and whatever encoding is asked for, the provider's bytes are returned
    unchanged.  In particular every RSA signature (`signature_length` = 256 / 384 / 512) comes back with exactly the announced length. -/
theorem sp_long_signature_passthrough (signed : Bytes) (enc : Option Enc) (h : 141 ≤ signed.length) :
    getSignature signed enc = .ok signed := by
  have hs : KeysTables.sigSniffNxp signed.length = false := by
    rw [Bool.eq_false_iff]; intro hh
    have := (B.sniffed_raw_lengths _).mp hh
    simp at this; omega
  have hc : sigCurve signed.length = .error .spsdk := by
    cases hcur : sigCurve signed.length with
    | ok c =>
      have := (sig_curve_exact _ c).mp hcur
      have cs := coord_sizes
      cases c <;> omega
    | error e => rw [sigCurve_error_spsdk _ e hcur]
  have hp : sigParse signed = .error .spsdk := by
    unfold sigParse sigSniff
    rw [hs]
    simp only [Bool.false_eq_true, if_false]
    cases derDecode signed with
    | none => rfl
    | some p => simp only [hc]
  unfold getSignature
  rw [hp]

theorem sp_rsa_signature_length (ks : Nat) (hks : ks ∈ KeysTables.rsaSupportedKeySizes) (signed : Bytes) (enc : Option Enc)
    (hl : signed.length = rsaSigLen ks) :
    ∃ out, getSignature signed enc = .ok out ∧ out.length = rsaSigLen ks := by
  refine ⟨signed, sp_long_signature_passthrough signed enc ?_, hl⟩
  simp only [KeysTables.rsaSupportedKeySizes, List.mem_cons, List.mem_nil_iff, or_false] at hks
  rcases hks with rfl | rfl | rfl <;> (rw [hl]; decide)

/-- ECC providers: raw output, or DER output inside the curve's window, is returned with exactly `signature_length` bytes
    (default and NXP encoding) — the "unexpected length" warning of `get_signature` cannot fire there. -/
theorem sp_ecc_signature_length (c : Curve) (r s : Nat) (hr : r < 256 ^ c.cl) (hs : s < 256 ^ c.cl) :
    (∃ out, getSignature (rawSig c r s) none = .ok out ∧ out.length = eccSigLen c) ∧
    (LenWindow c r s → ∃ out, getSignature (derEncode r s) none = .ok out ∧ out.length = eccSigLen c) := by
  have hlen : (rawSig c r s).length = eccSigLen c := (signature_length_actual.2.1 c r s).symm
  exact ⟨⟨_, (sigprovider_normalises c r s hr hs).1, hlen⟩, fun hw => ⟨_, (sigprovider_normalises c r s hr hs).2.2.2.2 hw, hlen⟩⟩

/-- non-vacuity: a 256-byte blob that IS a well-formed DER ECDSA-Sig-Value still passes through unchanged -/
example : (derEncode (2 ^ 999) (2 ^ 1007)).length = 261 ∧ (derDecode (derEncode (2 ^ 999) (2 ^ 1007))).isSome = true ∧ getSignature (derEncode (2 ^ 999) (2 ^ 1007)) none = .ok (derEncode (2 ^ 999) (2 ^ 1007)) := by
  decide +kernel

/-- `get_hash_type_from_signature_size` is the default hash of the curve with that raw signature size -/
theorem hash_from_sig_size_agrees :
    KeysTables.hashFromSigSize = Curve.all.map (fun c => (c.sigSize, (KeysTables.eccDefaultHash.lookup c.keySize).getD "")) := by
  decide

/-! ### raw key files of the nxpcrypto CLI -/

/-- Every raw private key written by `nxpcrypto key convert -e RAW` — all three curves, any number of leading zero
    bytes — is read back by `reconstruct_key` (full strength since commit 3df4efc; before, the 66 bytes of secp521r1
    were refused). -/
theorem cli_raw_private_roundtrip (privOk : Curve → Nat → Bool) (onCurve : Curve → Nat → Nat → Bool) (c : Curve) (d : Nat)
    (hd : d < 256 ^ c.cl) (hok : privOk c d = true) :
    cliRawPrivate c d = .ok (beEnc c.cl d) ∧ reconstructRaw privOk onCurve (beEnc c.cl d) = .ok (.priv c d) := by
  refine ⟨toBytes_ok _ _ hd, ?_⟩
  unfold reconstructRaw
  rw [beEnc_length, beDec_beEnc _ _ hd]
  cases c with
  | p256 =>
    have : (KeysTables.keyLenCurve Curve.p256.cl).bind Curve.ofName = some .p256 := by decide
    rw [this]; simp only
    have h2 : Curve.p256.cl ≤ 48 ∨ Curve.p256.cl = 66 := by decide
    simp [h2, hok]
  | p384 =>
    have : (KeysTables.keyLenCurve Curve.p384.cl).bind Curve.ofName = some .p384 := by decide
    rw [this]; simp only
    have h2 : Curve.p384.cl ≤ 48 ∨ Curve.p384.cl = 66 := by decide
    simp [h2, hok]
  | p521 =>
    have : (KeysTables.keyLenCurve Curve.p521.cl).bind Curve.ofName = some .p521 := by decide
    rw [this]; simp only
    have h2 : Curve.p521.cl ≤ 48 ∨ Curve.p521.cl = 66 := by decide
    simp [h2, hok]

/-- raw public keys of 64 / 96 bytes are also understood by the raw stage (they normally never get there: `PublicKey.parse`
    accepts them first — and the 132-byte P-521 form, `pubparse_nxp_ecc`) -/
theorem cli_raw_public_roundtrip_partial (privOk : Curve → Nat → Bool) (onCurve : Curve → Nat → Nat → Bool) (c : Curve) (x y : Nat)
    (hc : c ≠ .p521) (hx : x < 256 ^ c.cl) (hy : y < 256 ^ c.cl) (hon : onCurve c x y = true) :
    cliRawPublic c x y = .ok (rawSig c x y) ∧ reconstructRaw privOk onCurve (rawSig c x y) = .ok (.pub c x y) := by
  refine ⟨rawPair_ok _ _ _ hx hy, ?_⟩
  unfold reconstructRaw
  rw [rawSig_length]
  cases c with
  | p521 => exact absurd rfl hc
  | p256 =>
    have e : 2 * Curve.p256.cl = 64 := by decide
    have hh : (64 : Nat) / 2 = Curve.p256.cl := by decide
    rw [e]
    have : (KeysTables.keyLenCurve 64).bind Curve.ofName = some .p256 := by decide
    rw [this]; simp only
    rw [hh]; unfold rawSig
    rw [take_pair, drop_pair, beDec_beEnc _ _ hx, beDec_beEnc _ _ hy]
    simp [hon]
  | p384 =>
    have e : 2 * Curve.p384.cl = 96 := by decide
    have hh : (96 : Nat) / 2 = Curve.p384.cl := by decide
    rw [e]
    have : (KeysTables.keyLenCurve 96).bind Curve.ofName = some .p384 := by decide
    rw [this]; simp only
    rw [hh]; unfold rawSig
    rw [take_pair, drop_pair, beDec_beEnc _ _ hx, beDec_beEnc _ _ hy]
    simp [hon]

/-- `reconstruct_key`: a PEM / DER private key wins over everything, then a public key, then the raw stage -/
theorem reconstruct_key_order {α : Type} (k : α) (q : Try α) (raw : PyRes α) :
    reconstructKey (.ok k) q raw = .ok k ∧ reconstructKey .spsdk (.ok k) raw = .ok k ∧
    reconstructKey .spsdk .spsdk raw = raw ∧ reconstructKey .other q raw = .error .other := ⟨rfl, rfl, rfl, rfl⟩

/-- non-vacuity of the phase-2 hypotheses -/
example : matchingKeyId [false, false, true, true] = .ok 2 := by decide
example : validateChain (fun a b => a + 1 == b) [1, 2, 4, 5] = .ok [true, false, true] := by decide
example : certExportNxp [0x30, 0x82, 1, 2, 3] = [0x30, 0x82, 1, 2, 3, 0, 0, 0] := by decide
example : plainFileSignKwargs [("type", .str "file"), ("file_path", .str "k"), ("pss_padding", .str "True"), ("foo", .str "1")] = [("foo", .str "1"), ("pss_padding", .bool true)] := by decide
example : createdUsesPss [("type", .str "file"), ("pss_padding", .str "False")] = false ∧ localFileUsesPss [("pss_padding", .bool true)] = true := by decide
example : reconstructRaw (fun _ _ => true) (fun _ _ _ => true) (beEnc 66 7) = .ok (.priv .p521 7) := by decide +kernel
example : reconstructRaw (fun _ _ => true) (fun _ _ _ => true) (beEnc 32 7) = .ok (.priv .p256 7) := by decide +kernel

/-! ## non-vacuity -/

/-- a raw P-256 signature whose `r` has 31 leading zero bytes -/
example : sigParse (rawSig .p256 5 (2 ^ 255)) = .ok ⟨5, 2 ^ 255, .p256⟩ := (ecdsa_raw_roundtrip .p256 5 (2 ^ 255) (by decide) (by decide)).2
/-- the window hypothesis is satisfiable: a typical P-256 signature (71 bytes) and one with a short `r` (67 bytes) -/
example : LenWindow .p256 (2 ^ 255 + 1) (2 ^ 254 + 1) := by unfold LenWindow; decide +kernel
example : LenWindow .p256 (2 ^ 230 + 1) (2 ^ 254 + 1) := by unfold LenWindow; decide +kernel
example : LenWindow .p521 (2 ^ 520 + 1) (2 ^ 519 + 1) := by unfold LenWindow; decide +kernel
example : TopBit (2 ^ 2047 + 1) 2048 := by unfold TopBit; omega
example : (2048 : Nat) ∈ KeysTables.rsaSupportedKeySizes := by decide
example : fileEncoding [0x2D, 0x2D, 0x2D, 0x2D, 0x2D, 0x42] = .pem := by decide
example : fileEncoding [0x30, 0x82, 0x01, 0x22] = .der := by decide

end SpsdkVerif.C08
