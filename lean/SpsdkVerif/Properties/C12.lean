/-
C12 — per-device configuration areas: template, configuration and binary round trip.

Model      : Model/ConfigArea.lean (hand-written, on top of the C16 `BinaryImage` model; tied to /repo by harness/props/C12.py:
             layouts compared with the live `Registers` objects, export/parse/computed/seal/CRC compared with the real code).
Generated  : Generated/RegLayouts.lean (every distinct register layout of the device database after alias/revision
             resolution, binary sizes, prefill bytes, computed-field rules, seal words), Generated/PfrRules.lean (bit-expression trees
             of the two computed-field functions of spsdk/pfr/pfr.py).
Helper lemmas: Proofs/ConfigArea.lean.

What is proved here is generic: it holds for EVERY layout accepted by the Boolean checker `layoutWFb`
(`layoutWFb_sound`), and the checker is run by the kernel over the whole generated table
(`gen_layouts_wf_partial`).  The clauses "the template is valid YAML, satisfies the schema and loads" live in
ruamel.yaml / PyYAML / fastjsonschema and are decided only by the exhaustive enumeration on the real code (harness).
-/
import SpsdkVerif.Model.ConfigArea
import SpsdkVerif.Proofs.ConfigArea
import SpsdkVerif.Proofs.ConfigAreaCfg
import SpsdkVerif.Proofs.ConfigAreaGrp
import SpsdkVerif.Proofs.RegistersCfg
import SpsdkVerif.Proofs.RegistersGen
import SpsdkVerif.Properties.C11
import SpsdkVerif.Generated.RegLayouts
import SpsdkVerif.Generated.RegDetails
import SpsdkVerif.Generated.PfrRules
import SpsdkVerif.Generated.ScalarRule
import SpsdkVerif.Generated.CrcTable

namespace SpsdkVerif.C12
open SpsdkVerif SpsdkVerif.CfgArea SpsdkVerif.Misc SpsdkVerif.BinImg
open SpsdkVerif.Regs (leEnc_length leDec_leEnc)

set_option maxRecDepth 100000

/-! ## well-formedness of a layout (specification) and the verified checker -/

def FieldDisj (f g : BF) : Prop := f.off + f.width ≤ g.off ∨ g.off + g.width ≤ f.off

/-- a register: whole bytes, all bits backed by (sub-)registers, bit-fields inside the register and pairwise disjoint -/
structure RegWF (r : RegL) : Prop where
  bytes : r.width % 8 = 0
  pos : 0 < r.width
  cov : r.cov = r.width
  fieldsIn : ∀ f ∈ r.fields, f.off + f.width ≤ r.width
  fieldsDisj : r.fields.Pairwise FieldDisj

/-- computed-field rules refer to existing 32-bit registers, at most one rule per register -/
structure ComputedWF (l : Layout) : Prop where
  regs : ∀ ir ∈ l.computed, ∃ r, l.regs[ir.1]? = some r ∧ r.width = 32 ∧ ir.2 ≤ 1
  nodup : (l.computed.map (·.1)).Nodup

/-- a well-formed area layout; for an area with a binary form: registers pairwise disjoint (`BinWF.disjoint`), inside the
    image (`BinWF.inside`), the export has the documented size, computed rules and seal words fit -/
structure LayoutWF (l : Layout) : Prop where
  regs : ∀ r ∈ l.regs, RegWF r
  bin : l.binary = true → BinWF l ∧ l.regs ≠ [] ∧ (l.docSize ≠ 0 → l.exportLen = l.docSize) ∧ ComputedWF l ∧
    (l.sealCount ≠ 0 → l.size ≠ 0 ∧ l.sealStart + l.sealCount * 4 ≤ l.size)

/-- every raw register value fits its register (what `Register.set_value` enforces) -/
def StateOK (l : Layout) (vals : Vals) : Prop := RV (fun r v => v < 2 ^ r.width) l.regs vals

theorem regWFb_sound (r : RegL) (h : regWFb r = true) : RegWF r := by
  simp only [regWFb, Bool.and_eq_true, beq_iff_eq, decide_eq_true_eq, List.all_eq_true] at h
  obtain ⟨⟨⟨⟨h1, h2⟩, h3⟩, h4⟩, h5⟩ := h
  refine ⟨h1, h2, h3, h4, ?_⟩
  refine (pairwiseB_sound _ _ h5).imp ?_
  intro f g hfg
  simpa [fieldDisjB, FieldDisj] using hfg

/-- **the Boolean checker is sound** -/
theorem layoutWFb_sound (l : Layout) (h : layoutWFb l = true) : LayoutWF l := by
  simp only [layoutWFb, Bool.and_eq_true, List.all_eq_true, Bool.or_eq_true, Bool.not_eq_true'] at h
  obtain ⟨hr, hb⟩ := h
  refine ⟨fun r hr' => regWFb_sound r (hr r hr'), ?_⟩
  intro hbin
  rcases hb with hb | hb
  · rw [hbin] at hb; cases hb
  obtain ⟨⟨⟨⟨⟨hd, hin⟩, hne⟩, hdoc⟩, hcomp⟩, hseal⟩ := hb
  refine ⟨⟨?_, ?_, ?_⟩, ?_, ?_, ⟨?_, ?_⟩, ?_⟩
  · intro r hr'
    have := regWFb_sound r (hr r hr')
    exact ⟨this.bytes, this.pos, this.cov⟩
  · refine (pairwiseB_sound _ _ hd).imp ?_
    intro a b hab
    simpa [disjointB, DisjR] using hab
  · intro hs r hr'
    rcases hin with hin | hin
    · simp at hin; exact absurd hin hs
    · simpa using hin r hr'
  · intro he; simp [he] at hne
  · intro hd'
    rcases hdoc with hdoc | hdoc
    · simp at hdoc; exact absurd hdoc hd'
    · simpa using hdoc
  · intro ir hir
    simp only [computedWFb, Bool.and_eq_true, List.all_eq_true] at hcomp
    have := hcomp.1 ir hir
    split at this
    · rename_i r hr'
      simp only [Bool.and_eq_true, beq_iff_eq, decide_eq_true_eq] at this
      exact ⟨r, hr', this.1, this.2⟩
    · cases this
  · simp only [computedWFb, Bool.and_eq_true] at hcomp
    exact nodupB_sound _ hcomp.2
  · intro hc
    rcases hseal with hseal | hseal
    · simp at hseal; exact absurd hseal hc
    · simp only [bne_iff_ne, ne_eq, decide_eq_true_eq] at hseal
      exact hseal

/-! ## the table obligation: every generated layout passes the checker (kernel evaluation)

Full-strength statement (FALSE on the pinned tree, so not provable):
    `∀ l ∈ Generated.RegLayouts.layouts, layoutWFb l = true`.
The layouts named below are ill-formed in the database itself (data defects; the harness shows their effect on the real code
where there is one, see known_findings.jsonl):
  * ifr_cmactable_a0.json (kw45/kw47): 128-bit "Hash update needed" registers overlap the reserved registers behind them,
    a reserved register at offset 0x16 (22) overlaps its neighbours; six registers share one name/uid;
  * kw47b42zb7/ifr_romcfg_a0.json: reserved registers at 0x109 and 0x10A (16 bit each) overlap in byte 0x10A;
  * mcxn946 pfr_cmpa_a0.json / pfr_cfpa_a0.json: the groups CUST_MK_SK_KEY_BLOB (384 bit) / DICE_Certificate (1152 bit) have a
    single 32-bit sub-register in revision a0 (`cov ≠ width`) and overlap the following reserved words. -/

def knownIllFormed : List String :=
  ["devices/kw45b41z8/ifr_cmactable_a0.json", "devices/kw47b42zb7/ifr_cmactable_a0.json",
   "devices/kw47b42zb7/ifr_romcfg_a0.json", "devices/mcxn946/pfr_cmpa_a0.json", "devices/mcxn946/pfr_cfpa_a0.json"]

theorem gen_layouts_wf_partial :
    (Generated.RegLayouts.layouts.all (fun l => knownIllFormed.contains l.name || layoutWFb l)) = true := by
  decide +kernel

/-- … hence every generated layout outside the named data defects is well-formed -/
theorem gen_layouts_wellformed (l : Layout) (hl : l ∈ Generated.RegLayouts.layouts)
    (hk : knownIllFormed.contains l.name = false) : LayoutWF l := by
  have h := gen_layouts_wf_partial
  rw [List.all_eq_true] at h
  have := h l hl
  rw [hk, Bool.false_or] at this
  exact layoutWFb_sound l this


/-! ## the second generated table: initial values, names, access, enum tables (every fact below is evaluated by the kernel over the
    whole database; a typo in a register JSON - a reset value that does not fit, an enum value wider than its field, a renamed
    computed bit-field, a duplicated name - makes the corresponding theorem fail to check) -/

def layoutsD : List (Layout × LayoutD) := Generated.RegLayouts.layouts.zip Generated.RegDetails.details

/-- Register names / uids.  Full-strength statement (false on the pinned tree): `regNamesB` for every layout.
    Refuted by ifr_cmactable_a0.json (six registers named 'Reserved 0x00012' with uid 'Reserved00012', three with uid 'field000');
    known finding C12-cmactable-duplicate-register-names. -/
def knownDuplicateRegNames : List String :=
  ["devices/kw45b41z8/ifr_cmactable_a0.json", "devices/kw47b42zb7/ifr_cmactable_a0.json"]

/-- Bit-field names inside one register.  Full-strength statement (false on the pinned tree): `fieldNamesB` for every layout.
    Refuted by XMCD configOption1 ('reserved' twice / three times) and the i.MX91/95 fuse words with several 'Restricted'
    fields; known finding C12-duplicate-bitfield-names. -/
def knownDuplicateFieldNames : List String :=
  ["common/xmcd/flexspi_ram_simplified.json", "common/xmcd/xspi_ram_simplified.json",
   "devices/mimx9131/fuses.json", "devices/mimx9596/fuses.json"]

/-- all per-layout facts about the details table in one Boolean (one kernel evaluation of the 0.7 MB table) -/
def detailsOkB (ld : Layout × LayoutD) : Bool :=
  alignedB ld.1 ld.2 && resetsB ld.1 ld.2 && enumsFitB ld.1 ld.2 && computedTargetsB ld.1 ld.2 &&
  (knownDuplicateRegNames.contains ld.1.name || (regNamesB ld.1 ld.2 && findRegB ld.2)) &&
  (knownDuplicateFieldNames.contains ld.1.name || fieldNamesB ld.2)

theorem gen_details_ok :
    Generated.RegLayouts.layouts.length = Generated.RegDetails.details.length ∧ layoutsD.all detailsOkB = true := by
  constructor <;> decide +kernel

theorem details_all {p : Layout × LayoutD → Bool} (h : ∀ ld, detailsOkB ld = true → p ld = true) :
    layoutsD.all p = true := by
  have := gen_details_ok.2
  rw [List.all_eq_true] at this ⊢
  exact fun ld hld => h ld (this ld hld)

/-- both tables describe the same registers, the same number of bit-fields per register and the same computed-field rules -/
theorem gen_details_aligned : layoutsD.all (fun ld => alignedB ld.1 ld.2) = true :=
  details_all (fun ld h => by simp only [detailsOkB, Bool.and_eq_true] at h; exact h.1.1.1.1.1)

/-- every initial register value fits its register; every bit-field reset value fits its field (after its SHIFT_RIGHT
    processor) and is exactly what the field reads in the initial register value -/
theorem gen_resets_fit : layoutsD.all (fun ld => resetsB ld.1 ld.2) = true :=
  details_all (fun ld h => by simp only [detailsOkB, Bool.and_eq_true] at h; exact h.1.1.1.1.2)

/-- every enum value of every bit-field fits the field: a template or configuration naming it loads -/
theorem gen_enums_fit : layoutsD.all (fun ld => enumsFitB ld.1 ld.2) = true :=
  details_all (fun ld h => by simp only [detailsOkB, Bool.and_eq_true] at h; exact h.1.1.1.2)

/-- the computed bit-field the database names is exactly the bits the rule function writes (inverse half-word: bits 16..31 of a
    32-bit register, inverse byte: bits 8..15), and it is hidden in the loaded object -/
theorem gen_computed_targets : layoutsD.all (fun ld => computedTargetsB ld.1 ld.2) = true :=
  details_all (fun ld h => by simp only [detailsOkB, Bool.and_eq_true] at h; exact h.1.1.2)

theorem gen_reg_names_unique_partial :
    layoutsD.all (fun ld => knownDuplicateRegNames.contains ld.1.name || (regNamesB ld.1 ld.2 && findRegB ld.2)) = true :=
  details_all (fun ld h => by simp only [detailsOkB, Bool.and_eq_true] at h; exact h.1.2)

/-- … hence `find_reg(name)` (first register whose name OR uid is the key) resolves the name of every register of every
    generated layout to that very register: a configuration keyed by register names addresses the registers it was taken from -/
theorem gen_find_reg_resolves_partial (l : Layout) (d : LayoutD) (hld : (l, d) ∈ layoutsD)
    (hk : knownDuplicateRegNames.contains l.name = false) (i j : Nat) (r r' : RegD)
    (hi : d.regs[i]? = some r) (hj : d.regs[j]? = some r') (hm : r'.name = r.name ∨ r'.uid = r.name) : j = i := by
  have h := gen_reg_names_unique_partial
  rw [List.all_eq_true] at h
  have := h (l, d) hld
  simp only [hk, Bool.false_or, Bool.and_eq_true] at this
  exact findRegB_sound d this.2 i j r r' hi hj hm

theorem gen_field_names_unique_partial :
    layoutsD.all (fun ld => knownDuplicateFieldNames.contains ld.1.name || fieldNamesB ld.2) = true :=
  details_all (fun ld h => by simp only [detailsOkB, Bool.and_eq_true] at h; exact h.2)

/-- the seal words are whole 32-bit registers of the page -/
theorem gen_seal_words_are_registers : Generated.RegLayouts.layouts.all sealRegsB = true := by decide +kernel

/-- the XMCD header word of every XMCD layout has the bit-fields the model's `xmcdHeader` assumes:
    size[0:12] type[12:16] instance[16:20] interface[20:24] version[24:28] tag[28:32] -/
theorem gen_xmcd_header_fields :
    (Generated.RegLayouts.layouts.filter (·.kind == 7)).all (fun l =>
      match l.regs with
      | r :: _ => r.off == 0 && r.width == 32 && r.fields == [⟨0, 12⟩, ⟨12, 4⟩, ⟨16, 4⟩, ⟨20, 4⟩, ⟨24, 4⟩, ⟨28, 4⟩]
      | [] => false) = true := by decide +kernel

/-! ## enum names in configurations (generic: the statement behind fix C12-1) -/

/-- whatever the enum table (names may be shared by several values), the configuration value produced for `v` decodes back to `v` -/
theorem enum_roundtrip (enums : List (Nat × Nat)) (v : Nat) : decodeCfgVal enums (enumValue enums v) = some v := by
  simp only [enumValue]
  split
  · split
    · next h => simpa [decodeCfgVal] using h
    · rfl
  · rfl

/-- a name is used only when it is the one `get_enum_constant` resolves to this value -/
theorem enum_name_used_iff (enums : List (Nat × Nat)) (v n : Nat) (h : enumValue enums v = .name n) :
    enumConstant enums n = some v := by
  have := enum_roundtrip enums v
  rw [h] at this
  exact this

/-! ## export: documented fixed size -/

/-- the export of a well-formed area succeeds and has exactly `exportLen` bytes … -/
theorem area_export_size (l : Layout) (vals : Vals) (wf : LayoutWF l) (hb : l.binary = true) (hs : StateOK l vals) :
    ∃ b, exportArea l vals = .ok b ∧ b.length = l.exportLen :=
  export_ok l vals (wf.bin hb).1 hs.length

/-- … which is the documented size of the area wherever one is documented (PFR/IFR pages, BCA, FCF) -/
theorem area_export_doc_size (l : Layout) (vals : Vals) (wf : LayoutWF l) (hb : l.binary = true) (hs : StateOK l vals)
    (hd : l.docSize ≠ 0) : ∃ b, exportArea l vals = .ok b ∧ b.length = l.docSize := by
  obtain ⟨b, h1, h2⟩ := area_export_size l vals wf hb hs
  exact ⟨b, h1, by rw [h2, (wf.bin hb).2.2.1 hd]⟩

/-- the bytes of every register are its little-endian value at its offset -/
theorem area_export_register_bytes (l : Layout) (vals : Vals) (b : Bytes) (wf : LayoutWF l) (hb : l.binary = true)
    (hs : StateOK l vals) (he : exportArea l vals = .ok b) :
    RV (fun r v => slice b r.off r.bytes = leEnc r.bytes v) l.regs vals :=
  forall2_of_regImgs l.regs vals hs.length
    (fun r v hr hm => export_slice l vals b (wf.bin hb).1 hs.length he r v hr hm)

/-! ## parse ∘ export -/

/-- parsing the export into an object that held `cur`: every visible register gets the exported value back,
    hidden (reserved) registers keep what the object held -/
theorem area_export_parse (l : Layout) (vals cur : Vals) (b : Bytes) (wf : LayoutWF l) (hb : l.binary = true)
    (hs : StateOK l vals) (he : exportArea l vals = .ok b) :
    parseArea l b cur = mergeHidden l.regs vals cur := by
  have bw := (wf.bin hb).1
  obtain ⟨b', he', hlen⟩ := export_ok l vals bw hs.length
  rw [he] at he'; cases he'
  apply parseAux_of_slices
  refine ((area_export_register_bytes l vals b wf hb hs he).and hs).imp ?_
  intro r v hr h
  obtain ⟨h8, _, hcov⟩ := bw.regs r hr
  refine ⟨h.1, h.2, ?_, hcov, h8⟩
  rw [hlen, Layout.exportLen]
  split
  · exact bw.inside (by assumption) r hr
  · exact le_maxStop hr

/-- values restored: parsing the export into the same object (or any object with the same reserved registers,
    e.g. a fresh one when the reserved registers were never written) gives back every value -/
theorem area_values_restored (l : Layout) (vals : Vals) (b : Bytes) (wf : LayoutWF l) (hb : l.binary = true)
    (hs : StateOK l vals) (he : exportArea l vals = .ok b) : parseArea l b vals = vals := by
  rw [area_export_parse l vals vals b wf hb hs he, mergeHidden_self]

/-- export ∘ parse ∘ export = export -/
theorem area_parse_export (l : Layout) (vals : Vals) (b : Bytes) (wf : LayoutWF l) (hb : l.binary = true)
    (hs : StateOK l vals) (he : exportArea l vals = .ok b) : exportArea l (parseArea l b vals) = .ok b := by
  rw [area_values_restored l vals b wf hb hs he, he]

/-- the same for a fresh object: if `cur` agrees with `vals` on the reserved registers -/
theorem area_parse_export_fresh (l : Layout) (vals cur : Vals) (b : Bytes) (wf : LayoutWF l) (hb : l.binary = true)
    (hs : StateOK l vals) (he : exportArea l vals = .ok b) (hc : mergeHidden l.regs vals cur = vals) :
    exportArea l (parseArea l b cur) = .ok b := by
  rw [area_export_parse l vals cur b wf hb hs he, hc, he]

/-! ## computed fields -/

/-- the two rules establish their relation for every input value, give a 32-bit value and keep the user's bits -/
theorem rule_holds (rule v : Nat) : RuleHolds rule (applyRule rule v) := by
  simp only [applyRule]
  split
  · next h => subst h; exact invHighHalf_holds v
  · split
    · next h => subst h; exact invLow8_holds v
    · next h1 h2 => simp [RuleHolds, h1, h2]

theorem rule_bound (rule v : Nat) (h : rule ≤ 1) : applyRule rule v < 2 ^ 32 := by
  have : rule = 0 ∨ rule = 1 := by omega
  rcases this with rfl | rfl
  · exact invHighHalf_lt v
  · exact invLow8_lt v

theorem rule_keeps_user_bits (v : Nat) (hv : v < 2 ^ 32) :
    applyRule 0 v &&& 0xFFFF = v &&& 0xFFFF ∧ applyRule 1 v &&& 0xFFFF00FF = v &&& 0xFFFF00FF :=
  ⟨invHighHalf_low v, invLow8_keeps v hv⟩

/-- the model's rules are the functions of the CURRENT source: `Generated/PfrRules.lean` holds the bodies of
    `pfr_reg_inverse_high_half` / `pfr_reg_inverse_lower_8_bits` as bit-expression trees (constants read by value); the VERIFIED
    equivalence checker `bitEquiv32` (Base/BitExpr.lean) compares them semantically with the model's rules - every bit below the
    bound by brute force over the input bits it depends on, the constant part above - so any rewrite of the source that computes
    the same function passes and any change of behaviour on a 32-bit input fails, whatever the shape of the body -/
theorem rule0_is_source : Generated.PfrRules.rule0.map (fun e => BitExpr.bitEquiv32 e specRule0) = some true := by decide +kernel
theorem rule1_is_source : Generated.PfrRules.rule1.map (fun e => BitExpr.bitEquiv32 e specRule1) = some true := by decide +kernel

/-- … i.e. on every 32-bit register value the source functions compute the model's rules -/
theorem rules_are_source :
    (∃ e, Generated.PfrRules.rule0 = some e ∧ ∀ v, v < 2 ^ 32 → BitExpr.eval e v = applyRule 0 v) ∧
    (∃ e, Generated.PfrRules.rule1 = some e ∧ ∀ v, v < 2 ^ 32 → BitExpr.eval e v = applyRule 1 v) := by
  constructor
  · have h := rule0_is_source
    cases hr : Generated.PfrRules.rule0 with
    | none => rw [hr] at h; cases h
    | some e =>
      rw [hr] at h
      simp only [Option.map_some, Option.some.injEq] at h
      exact ⟨e, rfl, fun v hv => by rw [BitExpr.bitEquiv32_sound e specRule0 h v hv, specRule0_eval]; rfl⟩
  · have h := rule1_is_source
    cases hr : Generated.PfrRules.rule1 with
    | none => rw [hr] at h; cases h
    | some e =>
      rw [hr] at h
      simp only [Option.map_some, Option.some.injEq] at h
      exact ⟨e, rfl, fun v hv => by rw [BitExpr.bitEquiv32_sound e specRule1 h v hv, specRule1_eval]; rfl⟩

/-- after `set_config`, every computed register the configuration mentions satisfies its rule … -/
theorem computed_hold (l : Layout) (m : Nat → Bool) (vals : Vals) (wf : LayoutWF l) (hb : l.binary = true)
    (hs : StateOK l vals) (ir : Nat × Nat) (hir : ir ∈ l.computed) (hm : m ir.1 = true) :
    RuleHolds ir.2 ((computeAll l.computed m vals).getD ir.1 0) := by
  have cw := (wf.bin hb).2.2.2.1
  obtain ⟨r, hr, _, _⟩ := cw.regs ir hir
  have hi : ir.1 < vals.length := by
    rw [← hs.length]
    exact (List.getElem?_eq_some_iff.1 hr).1
  rw [computeAll_get l.computed m vals cw.nodup ir hir hm hi]
  exact rule_holds _ _

/-- … every other register is untouched … -/
theorem computed_frame (l : Layout) (m : Nat → Bool) (vals : Vals) (i : Nat)
    (h : ∀ ir ∈ l.computed, ir.1 = i → m i = false) :
    (computeAll l.computed m vals).getD i 0 = vals.getD i 0 := computeAll_frame l.computed m vals i h

/-- … the state stays valid … -/
theorem computed_state_ok (l : Layout) (m : Nat → Bool) (vals : Vals) (wf : LayoutWF l) (hb : l.binary = true)
    (hs : StateOK l vals) : StateOK l (computeAll l.computed m vals) := by
  have cw := (wf.bin hb).2.2.2.1
  have hlen := computeAll_length l.computed m vals
  -- index-wise characterisation of RV
  have key : ∀ (rs : List RegL) (vs ws : Vals) (k : Nat), RV (fun r v => v < 2 ^ r.width) rs vs → ws.length = vs.length →
      (∀ i r, rs[i]? = some r → ws.getD i 0 < 2 ^ r.width) → RV (fun r v => v < 2 ^ r.width) rs ws := by
    intro rs vs ws _ h
    induction h generalizing ws with
    | nil => intro hl _; cases ws with | nil => exact .nil | cons _ _ => simp at hl
    | @cons r v rs vs _ _ ih =>
      intro hl hw
      cases ws with
      | nil => simp at hl
      | cons w ws =>
        refine .cons (by simpa using hw 0 r rfl) (ih ws (by simpa using hl) ?_)
        intro i r' hr'
        simpa using hw (i + 1) r' (by simpa using hr')
  refine key l.regs vals _ 0 hs hlen ?_
  intro i r hr
  by_cases hc : ∃ ir ∈ l.computed, ir.1 = i ∧ m i = true
  · obtain ⟨ir, hir, rfl, hm⟩ := hc
    obtain ⟨r', hr', hw, hrule⟩ := cw.regs ir hir
    rw [hr] at hr'; cases hr'
    have hi : ir.1 < vals.length := by rw [← hs.length]; exact (List.getElem?_eq_some_iff.1 hr).1
    rw [computeAll_get l.computed m vals cw.nodup ir hir hm hi, hw]
    exact rule_bound _ _ hrule
  · rw [computeAll_frame l.computed m vals i (by
      intro ir hir he
      cases hmi : m i with
      | false => rfl
      | true => exact absurd ⟨ir, hir, he, hmi⟩ hc)]
    -- the old value fits
    have : ∀ (rs : List RegL) (vs : Vals), RV (fun r v => v < 2 ^ r.width) rs vs → ∀ i r, rs[i]? = some r →
        vs.getD i 0 < 2 ^ r.width := by
      intro rs vs h
      induction h with
      | nil => intro i r hr; simp at hr
      | @cons r0 v0 rs vs h0 _ ih =>
        intro i r hr
        cases i with
        | zero => simp at hr; subst hr; simpa using h0
        | succ j => simpa using ih j r (by simpa using hr)
    exact this l.regs vals hs i r hr

/-- … and therefore the relation holds IN THE EXPORTED BINARY: the 4 bytes at the register's offset decode to a word
    that satisfies the rule -/
theorem computed_in_binary (l : Layout) (m : Nat → Bool) (vals : Vals) (b : Bytes) (wf : LayoutWF l) (hb : l.binary = true)
    (hs : StateOK l vals) (he : exportArea l (computeAll l.computed m vals) = .ok b)
    (ir : Nat × Nat) (hir : ir ∈ l.computed) (hm : m ir.1 = true) :
    ∃ r, l.regs[ir.1]? = some r ∧ RuleHolds ir.2 (leDec (slice b r.off 4)) := by
  have cw := (wf.bin hb).2.2.2.1
  obtain ⟨r, hr, hw, _⟩ := cw.regs ir hir
  refine ⟨r, hr, ?_⟩
  have hs' := computed_state_ok l m vals wf hb hs
  have hp := area_values_restored l _ b wf hb hs' he
  have hbytes := area_export_register_bytes l _ b wf hb hs' he
  -- pick the register out of the pointwise facts
  have pick : ∀ (rs : List RegL) (vs : Vals) (i : Nat) (r : RegL),
      RV (fun r v => slice b r.off r.bytes = leEnc r.bytes v ∧ v < 2 ^ r.width) rs vs → rs[i]? = some r →
      slice b r.off r.bytes = leEnc r.bytes (vs.getD i 0) ∧ vs.getD i 0 < 2 ^ r.width := by
    intro rs vs i r h
    induction h generalizing i with
    | nil => intro hr; simp at hr
    | @cons r0 v0 rs vs h0 _ ih =>
      intro hr
      cases i with
      | zero => simp at hr; subst hr; simpa using h0
      | succ j => simpa using ih j (by simpa using hr)
  obtain ⟨h1, h2⟩ := pick l.regs _ ir.1 r (hbytes.and hs') hr
  have hb4 : r.bytes = 4 := by simp [RegL.bytes, hw]
  rw [hb4] at h1
  rw [h1, Regs.leDec_leEnc 4 _ (by rw [hw] at h2; omega)]
  exact computed_hold l m vals wf hb hs ir hir hm

/-! ## seal -/

theorem sealMark_length : Generated.RegLayouts.sealMark.length = 4 := by decide

/-- `export(add_seal=True)`: same size, the seal words hold the mark, nothing else changes -/
theorem seal_in_place (l : Layout) (vals : Vals) (b : Bytes) (wf : LayoutWF l) (hb : l.binary = true) (hs : StateOK l vals)
    (hsz : l.size ≠ 0) (he : exportArea l vals = .ok b) :
    ∃ bs, exportSealed Generated.RegLayouts.sealMark l vals = .ok bs ∧ bs.length = l.size ∧
      slice bs l.sealStart (l.sealCount * 4) = repeatBytes Generated.RegLayouts.sealMark l.sealCount ∧
      bs.take l.sealStart = b.take l.sealStart ∧
      bs.drop (l.sealStart + l.sealCount * 4) = b.drop (l.sealStart + l.sealCount * 4) := by
  obtain ⟨b', he', hlen⟩ := area_export_size l vals wf hb hs
  rw [he] at he'; cases he'
  have hl : b.length = l.size := by rw [hlen, Layout.exportLen, if_pos hsz]
  obtain ⟨bs, h1, h2⟩ := seal_spec Generated.RegLayouts.sealMark b l sealMark_length hl
    (fun hc => ((wf.bin hb).2.2.2.2 hc).2)
  exact ⟨bs, by simp [exportSealed, he, h1], h2⟩

/-! ## XMCD and TrustZone -/

/-- the XMCD block is an ordinary area (header word + option block): size, parse and re-export are the generic theorems;
    the size and tag fields of the header word read back what was put in -/
theorem xmcd_header_fields (tag size bt inst iface : Nat) (hs : size < 2 ^ 12) (ht : tag < 2 ^ 4) :
    xmcdSizeField (xmcdHeader tag size bt inst iface) = size ∧ xmcdTagField (xmcdHeader tag size bt inst iface) = tag :=
  ⟨xmcd_size_field tag size bt inst iface hs, xmcd_tag_field tag size bt inst iface ht⟩

theorem xmcd_roundtrip (l : Layout) (vals : Vals) (wf : LayoutWF l) (hb : l.binary = true) (hs : StateOK l vals) :
    ∃ b, exportArea l vals = .ok b ∧ b.length = l.exportLen ∧ parseArea l b vals = vals ∧
      exportArea l (parseArea l b vals) = .ok b ∧ xmcdCrc l vals = .ok (beEnc 4 (crc32Mpeg b)) := by
  obtain ⟨b, he, hlen⟩ := area_export_size l vals wf hb hs
  exact ⟨b, he, hlen, area_values_restored l vals b wf hb hs he, area_parse_export l vals b wf hb hs he,
    by simp [xmcdCrc, he]⟩

/-- the CRC the model computes is the one the SOURCE names: `XMCD.calculate_crc` uses the `CrcAlg` member `xmcdCrcAlg`
    (read from xmcd.py), whose row in `CRC_ALGORITHMS` (read from crc.py by the C09 generator) is a non-reflected CRC with
    exactly the model's polynomial, start value and final xor -/
theorem xmcd_crc_is_source_algorithm :
    ∃ cfg, (Generated.CrcTable.table.find? (fun row => row.1 == Generated.RegLayouts.xmcdCrcAlg)).map (·.2.2) = some cfg ∧
      cfg.reverse = false ∧ ∀ b, crc32Mpeg b = crcMsb32 (cfg.polynomial % 2 ^ 32) cfg.initialValue cfg.finalXor b :=
  ⟨⟨0x104C11DB7, 0xFFFFFFFF, 0x0, false⟩, by decide, rfl, fun _ => rfl⟩

/-- the model's CRC is CRC-32/MPEG-2 (check value of the catalogue for "123456789") -/
theorem xmcd_crc_check : crc32Mpeg [0x31, 0x32, 0x33, 0x34, 0x35, 0x36, 0x37, 0x38, 0x39] = 0x0376E6E7 := by decide

/-- TrustZone preset: `n` words of 32 bit export to `4n` bytes that parse back to the same words (a longer binary is
    accepted, its tail ignored) -/
theorem tz_roundtrip (ws : List Nat) (tail : Bytes) (h : ∀ w ∈ ws, w < 2 ^ 32) :
    ∃ b, tzExport ws = .ok b ∧ b.length = 4 * ws.length ∧ tzParse ws.length (b ++ tail) = .ok ws :=
  tz_roundtrip' ws tail h

/-- the model packs little-endian unsigned 32-bit words because the SOURCE does: the struct formats of `_custom_export` /
    `_parse_raw_data` are read by value and normalised (`L` and `I` are the same 4-byte unsigned item under the standard-size
    prefix `<`) -/
theorem gen_tz_struct_formats :
    Generated.RegLayouts.tzPackFormat = ("<", "I", 4) ∧ Generated.RegLayouts.tzUnpackFormat = ("<", "I", 4) := by decide

theorem tz_short_binary_refused (n : Nat) (b : Bytes) (h : b.length < 4 * n) : tzParse n b = .error .spsdk := by
  have : n > b.length / 4 := by omega
  simp [tzParse, this]

/-! ## the parsers of FCB / BCA / FCF and the option words of the memory configuration -/

/-- **BCA**: the parser accepts the export of every state whose tag register holds the tag, and restores it -/
theorem bca_parse_export (tag : Bytes) (ti : Nat) (l : Layout) (vals : Vals) (b : Bytes) (r : RegL) (wf : LayoutWF l)
    (hb : l.binary = true) (hs : StateOK l vals) (he : exportArea l vals = .ok b)
    (hr : l.regs[ti]? = some r) (ht : leEnc r.bytes (vals.getD ti 0) = tag) :
    bcaParse tag ti l b vals = .ok vals := by
  simp only [bcaParse]
  rw [area_values_restored l vals b wf hb hs he]
  exact tagCheck_ok tag ti l vals r hr ht

/-- **FCF**: the parser accepts the export (whose length is the documented one) and restores every value -/
theorem fcf_parse_export (minSize : Nat) (l : Layout) (vals : Vals) (b : Bytes) (wf : LayoutWF l)
    (hb : l.binary = true) (hs : StateOK l vals) (he : exportArea l vals = .ok b) (hm : minSize ≤ l.exportLen) :
    fcfParse minSize l b vals = .ok vals := by
  obtain ⟨b', he', hlen⟩ := area_export_size l vals wf hb hs
  rw [he] at he'; cases he'
  have : ¬ b.length < minSize := by omega
  simp only [fcfParse, this, if_false]
  rw [area_values_restored l vals b wf hb hs he]

/-- **FCB**, plain image: accepted and restored over the WHOLE block of whatever memory type (no fixed 0x200 window) -/
theorem fcb_parse_export (minSize : Nat) (tag : Bytes) (ti : Nat) (l : Layout) (vals : Vals) (b : Bytes) (r : RegL)
    (wf : LayoutWF l) (hb : l.binary = true) (hs : StateOK l vals) (he : exportArea l vals = .ok b)
    (hm : minSize ≤ l.exportLen) (hr : l.regs[ti]? = some r) (ho : r.off = 0) (hl : r.bytes = tag.length)
    (ht : leEnc r.bytes (vals.getD ti 0) = tag) (hsw : tag ≠ swapPairs tag) :
    fcbParse minSize tag ti l b vals = .ok vals := by
  obtain ⟨b', he', hlen⟩ := area_export_size l vals wf hb hs
  rw [he] at he'; cases he'
  have h1 : ¬ b.length < minSize := by omega
  have hsl := (rv_pick (area_export_register_bytes l vals b wf hb hs he) hr)
  have htk : b.take tag.length = tag := by
    have : slice b r.off r.bytes = tag := by rw [hsl, ht]
    simpa [slice, ho, hl] using this
  simp only [fcbParse, h1, if_false, htk, if_neg hsw]
  rw [area_values_restored l vals b wf hb hs he]
  exact tagCheck_ok tag ti l vals r hr ht

/-- **FCB**, byte-swapped image (as some tools store it): detected by the swapped tag, swapped back, accepted and restored -/
theorem fcb_parse_swapped (minSize : Nat) (tag : Bytes) (ti : Nat) (l : Layout) (vals : Vals) (b : Bytes) (r : RegL)
    (wf : LayoutWF l) (hb : l.binary = true) (hs : StateOK l vals) (he : exportArea l vals = .ok b)
    (hm : minSize ≤ l.exportLen) (hr : l.regs[ti]? = some r) (ho : r.off = 0) (hl : r.bytes = tag.length) (h4 : tag.length = 4)
    (ht : leEnc r.bytes (vals.getD ti 0) = tag) (hev : l.exportLen % 2 = 0) (h4l : 4 ≤ l.exportLen) :
    fcbParse minSize tag ti l (swapPairs b) vals = .ok vals := by
  obtain ⟨b', he', hlen⟩ := area_export_size l vals wf hb hs
  rw [he] at he'; cases he'
  obtain ⟨hsl1, hsl2⟩ := swapPairs_spec b
  have h1 : ¬ (swapPairs b).length < minSize := by rw [hsl1]; omega
  have hsl := (rv_pick (area_export_register_bytes l vals b wf hb hs he) hr)
  have htk : b.take tag.length = tag := by
    have : slice b r.off r.bytes = tag := by rw [hsl, ht]
    simpa [slice, ho, hl] using this
  have htk' : (swapPairs b).take tag.length = swapPairs tag := by
    rw [h4, swapPairs_take4 b (by omega), ← h4, htk]
  have hsb : swapBytes (swapPairs b) = .ok b := by
    simp [swapBytes, hsl1, hlen, hev, hsl2]
  simp only [fcbParse, h1, if_false, htk', if_true, hsb]
  rw [area_values_restored l vals b wf hb hs he]
  exact tagCheck_ok tag ti l vals r hr ht

/-- **memory configuration**: the option words that count (what `blhost configure-memory` receives), written with
    `option_words_to_bytes` and parsed into any object of the same peripheral, give the same option words again -/
theorem memcfg_parse_option_words (rule fi ud : Nat) (l : Layout) (vals cur ws : List Nat) (hw : WordsFrom 0 l.regs)
    (hne : l.regs ≠ []) (hs : StateOK l vals) (hc : l.regs.length = cur.length)
    (how : optionWords [rule, 0, fi, ud] l vals = .ok ws) :
    optionWords [rule, 0, fi, ud] l (parseArea l (owBytes ws) cur) = .ok ws := by
  simp only [optionWords] at how
  cases hn : owCount [rule, 0, fi, ud] l vals with
  | error e => rw [hn] at how; cases how
  | ok n =>
    rw [hn] at how
    simp only [Except.ok.injEq] at how
    have hpos := owCount_pos rule fi ud l vals n hne hn
    have hlv : l.regs.length = vals.length := hs.length
    have hb : ∀ w ∈ ws, w < 2 ^ 32 := by
      intro w hwm
      rw [← how] at hwm
      exact stateOK_words hw hs w (List.mem_of_mem_take hwm)
    have hwl : ws.length = min n vals.length := by rw [← how]; simp
    have hp : parseArea l (owBytes ws) cur = ws ++ cur.drop ws.length := by
      have := parseAux_words l.regs [] ws cur (by simpa using hw) hb hc
      simp only [List.nil_append] at this
      rw [parseArea, this, List.take_of_length_le (by omega), Nat.min_eq_left (by omega)]
    have hvpos : 1 ≤ vals.length := by
      rw [← hlv]; cases hr : l.regs with | nil => exact absurd hr hne | cons _ _ => simp
    have h0 : (ws ++ cur.drop ws.length).getD 0 0 = vals.getD 0 0 := by
      rw [← how]
      cases vals with
      | nil => simp at hvpos
      | cons v vs => cases n with
        | zero => omega
        | succ m => simp
    rw [hp]
    simp only [optionWords]
    rw [owCount_congr rule fi ud l _ vals h0, hn]
    simp only [Except.ok.injEq]
    by_cases hle : n ≤ vals.length
    · have : ws.length = n := by omega
      rw [List.take_append_of_le_length (by omega), List.take_of_length_le (by omega)]
    · have hwv : ws = vals := by rw [← how]; exact List.take_of_length_le (by omega)
      have : cur.drop ws.length = [] := by
        apply List.drop_eq_nil_of_le; rw [hwv]; omega
      rw [this, List.append_nil, List.take_of_length_le (by rw [hwv]; omega)]


/-! ### … and the database satisfies the hypotheses of these parser theorems -/

theorem fcb_tag_not_symmetric : Generated.RegLayouts.fcbTag ≠ swapPairs Generated.RegLayouts.fcbTag ∧
    Generated.RegLayouts.fcbTag.length = 4 := by decide

/-- every FCB layout (each memory type of each family): the tag register is the first word and RESETS to the FCB tag (the
    export of an unmodified template is accepted - repaired defect C12-2), the block is at least `FCB.SIZE` long and of even
    length, so `fcb_parse_export` / `fcb_parse_swapped` apply to the whole block of every memory type -/
theorem gen_fcb_table :
    (layoutsD.filter (fun ld => ld.1.kind == 6)).all
      (fun ld => fcbTableB Generated.RegLayouts.fcbSize Generated.RegLayouts.fcbTag ld.1 ld.2) = true := by decide +kernel

/-- every BCA layout: first word = tag register resetting to `kcfg`; every FCF layout is at least `FCF.SIZE` long -/
theorem gen_bca_fcf_table :
    (layoutsD.filter (fun ld => ld.1.kind == 4)).all (fun ld => fcbTableB Generated.RegLayouts.bcaSize Generated.RegLayouts.bcaTag ld.1 ld.2) = true ∧
    (Generated.RegLayouts.layouts.filter (·.kind == 5)).all (fun l => decide (Generated.RegLayouts.fcfSize ≤ l.exportLen)) = true := by
  constructor <;> decide +kernel

/-- every memcfg peripheral of every family: the option-word count rule of the database is resolvable against the option-word
    specification it is combined with (rule `OptionSize` needs that bit-field in the first word - repaired defect C12-4), and
    the option words are visible 32-bit words at offsets 0, 4, 8, … -/
theorem gen_memcfg_table :
    (layoutsD.filter (fun ld => ld.1.kind == 9)).all (fun ld => memcfgTableB ld.1 ld.2) = true := by decide +kernel

/-! ## BCA / FCF / FCB / memory-configuration option words end to end over the GENERATED layouts (bca.py, fcf.py, fcb.py,
    segments_base.py, memcfg.py): size, own parser, byte order - every family, revision and memory type of the database -/

/-- the segment areas of the table have a binary form, and the documented size of a BCA / FCF layout IS `BCA.SIZE` / `FCF.SIZE` -/
theorem gen_segment_sizes :
    (Generated.RegLayouts.layouts.filter (fun l => l.kind == 4 || l.kind == 5 || l.kind == 6)).all (fun l => l.binary &&
      (l.kind != 4 || l.docSize == Generated.RegLayouts.bcaSize) && (l.kind != 5 || l.docSize == Generated.RegLayouts.fcfSize)) = true := by
  decide +kernel

theorem fcbTableB_spec {minSize : Nat} {tag : Bytes} {l : Layout} {d : LayoutD} (h : fcbTableB minSize tag l d = true) :
    ∃ ti r rd, d.aux = [ti] ∧ l.regs[ti]? = some r ∧ d.regs[ti]? = some rd ∧ r.off = 0 ∧ r.width = 32 ∧ leEnc 4 rd.init = tag ∧
      minSize ≤ l.exportLen ∧ l.exportLen % 2 = 0 := by
  unfold fcbTableB at h
  split at h
  · next ti haux =>
    simp only [Bool.and_eq_true, decide_eq_true_eq, beq_iff_eq] at h
    obtain ⟨⟨h1, h2⟩, h3⟩ := h
    split at h1
    · next r rd hr hrd =>
      simp only [Bool.and_eq_true, beq_iff_eq, Bool.not_eq_true'] at h1
      exact ⟨ti, r, rd, haux, hr, hrd, h1.1.1.1, h1.1.1.2, h1.2, h2, h3⟩
    · cases h1
  · cases h

/-- **BCA, every generated layout** (every family / revision that has a BCA): a state whose TAG word holds `kcfg` exports to exactly
    `BCA.SIZE` bytes, `BCA.parse` accepts them and gives the state back; the fresh object (template state) is such a state -/
theorem gen_bca_roundtrip (l : Layout) (d : LayoutD) (hld : (l, d) ∈ layoutsD) (hk : l.kind = 4)
    (hill : knownIllFormed.contains l.name = false) (vals : Vals) (hs : StateOK l vals) :
    ∃ ti, d.aux = [ti] ∧ leEnc 4 (d.initVals.getD ti 0) = Generated.RegLayouts.bcaTag ∧
      (leEnc 4 (vals.getD ti 0) = Generated.RegLayouts.bcaTag →
        ∃ b, exportArea l vals = .ok b ∧ b.length = Generated.RegLayouts.bcaSize ∧
          bcaParse Generated.RegLayouts.bcaTag ti l b vals = .ok vals) := by
  have hl : l ∈ Generated.RegLayouts.layouts := (List.of_mem_zip hld).1
  have wf := gen_layouts_wellformed l hl hill
  have hseg := gen_segment_sizes
  rw [List.all_eq_true] at hseg
  have h1 := hseg l (List.mem_filter.2 ⟨hl, by simp [hk]⟩)
  simp only [hk, Bool.and_eq_true, bne_self_eq_false, Bool.false_or, beq_iff_eq] at h1
  have hb : l.binary = true := h1.1.1
  have hdoc : l.docSize = Generated.RegLayouts.bcaSize := h1.1.2
  have ht := gen_bca_fcf_table.1
  rw [List.all_eq_true] at ht
  obtain ⟨ti, r, rd, haux, hr, hrd, _, hw, hinit, hmin, _⟩ := fcbTableB_spec (ht (l, d) (List.mem_filter.2 ⟨hld, by simp [hk]⟩))
  refine ⟨ti, haux, ?_, ?_⟩
  · simp [LayoutD.initVals, List.getD_eq_getElem?_getD, List.getElem?_map, hrd, hinit]
  · intro htag
    obtain ⟨b, he, hlen⟩ := area_export_size l vals wf hb hs
    have hdne : l.docSize ≠ 0 := by rw [hdoc]; decide
    refine ⟨b, he, by rw [hlen, (wf.bin hb).2.2.1 hdne, hdoc], ?_⟩
    exact bca_parse_export _ ti l vals b r wf hb hs he hr (by simpa [RegL.bytes, hw] using htag)

/-- **FCF, every generated layout**: every state exports to exactly `FCF.SIZE` bytes, `FCF.parse` accepts them and gives the state back -/
theorem gen_fcf_roundtrip (l : Layout) (hl : l ∈ Generated.RegLayouts.layouts) (hk : l.kind = 5)
    (hill : knownIllFormed.contains l.name = false) (vals : Vals) (hs : StateOK l vals) :
    ∃ b, exportArea l vals = .ok b ∧ b.length = Generated.RegLayouts.fcfSize ∧
      fcfParse Generated.RegLayouts.fcfSize l b vals = .ok vals := by
  have wf := gen_layouts_wellformed l hl hill
  have hseg := gen_segment_sizes
  rw [List.all_eq_true] at hseg
  have h1 := hseg l (List.mem_filter.2 ⟨hl, by simp [hk]⟩)
  simp only [hk, Bool.and_eq_true, bne_self_eq_false, Bool.false_or, beq_iff_eq] at h1
  have hb : l.binary = true := h1.1.1
  have hdoc : l.docSize = Generated.RegLayouts.fcfSize := h1.2
  have ht := gen_bca_fcf_table.2
  rw [List.all_eq_true] at ht
  have hmin := ht l (List.mem_filter.2 ⟨hl, by simp [hk]⟩)
  simp only [decide_eq_true_eq] at hmin
  obtain ⟨b, he, hlen⟩ := area_export_size l vals wf hb hs
  have hdne : l.docSize ≠ 0 := by rw [hdoc]; decide
  exact ⟨b, he, by rw [hlen, (wf.bin hb).2.2.1 hdne, hdoc], fcf_parse_export _ l vals b wf hb hs he hmin⟩

/-- **FCB, every generated layout** (every memory type of every family): a state whose tag word holds `FCFB` exports to the whole
    block of that memory type (at least `FCB.SIZE`, even length); `FCB.parse` accepts the block AND its byte-swapped form and gives
    the state back; the fresh object (template state) is such a state -/
theorem gen_fcb_roundtrip (l : Layout) (d : LayoutD) (hld : (l, d) ∈ layoutsD) (hk : l.kind = 6)
    (hill : knownIllFormed.contains l.name = false) (vals : Vals) (hs : StateOK l vals) :
    ∃ ti, d.aux = [ti] ∧ leEnc 4 (d.initVals.getD ti 0) = Generated.RegLayouts.fcbTag ∧
      (leEnc 4 (vals.getD ti 0) = Generated.RegLayouts.fcbTag →
        ∃ b, exportArea l vals = .ok b ∧ b.length = l.exportLen ∧ Generated.RegLayouts.fcbSize ≤ b.length ∧
          fcbParse Generated.RegLayouts.fcbSize Generated.RegLayouts.fcbTag ti l b vals = .ok vals ∧
          fcbParse Generated.RegLayouts.fcbSize Generated.RegLayouts.fcbTag ti l (swapPairs b) vals = .ok vals) := by
  have hl : l ∈ Generated.RegLayouts.layouts := (List.of_mem_zip hld).1
  have wf := gen_layouts_wellformed l hl hill
  have hseg := gen_segment_sizes
  rw [List.all_eq_true] at hseg
  have h1 := hseg l (List.mem_filter.2 ⟨hl, by simp [hk]⟩)
  simp only [hk, Bool.and_eq_true] at h1
  have hb : l.binary = true := h1.1.1
  have ht := gen_fcb_table
  rw [List.all_eq_true] at ht
  obtain ⟨ti, r, rd, haux, hr, hrd, ho, hw, hinit, hmin, hev⟩ := fcbTableB_spec (ht (l, d) (List.mem_filter.2 ⟨hld, by simp [hk]⟩))
  have hmin : Generated.RegLayouts.fcbSize ≤ l.exportLen := hmin
  have hev : l.exportLen % 2 = 0 := hev
  have hb4 : r.bytes = 4 := by simp [RegL.bytes, hw]
  have htl : Generated.RegLayouts.fcbTag.length = 4 := fcb_tag_not_symmetric.2
  refine ⟨ti, haux, ?_, ?_⟩
  · simp [LayoutD.initVals, List.getD_eq_getElem?_getD, List.getElem?_map, hrd, hinit]
  · intro htag
    obtain ⟨b, he, hlen⟩ := area_export_size l vals wf hb hs
    have h4l : 4 ≤ l.exportLen := by
      have : (4 : Nat) ≤ Generated.RegLayouts.fcbSize := by decide
      omega
    refine ⟨b, he, hlen, by rw [hlen]; exact hmin, ?_, ?_⟩
    · exact fcb_parse_export _ _ ti l vals b r wf hb hs he hmin hr ho (by rw [hb4, htl]) (by rw [hb4]; exact htag)
        fcb_tag_not_symmetric.1
    · exact fcb_parse_swapped _ _ ti l vals b r wf hb hs he hmin hr ho (by rw [hb4, htl]) htl (by rw [hb4]; exact htag) hev h4l

/-- **memory configuration, every generated peripheral layout** (memcfg.py): the count rule of the database is one of the three the
    code knows and addresses the first option word; whenever the option words of a state exist, writing them with
    `option_words_to_bytes` (little-endian 32-bit words, in order) and parsing them into ANY object of that peripheral gives the same
    option words -/
theorem gen_memcfg_roundtrip (l : Layout) (d : LayoutD) (hld : (l, d) ∈ layoutsD) (hk : l.kind = 9)
    (vals cur ws : List Nat) (hs : StateOK l vals) (hc : l.regs.length = cur.length)
    (how : optionWords d.aux l vals = .ok ws) :
    (owBytes ws).length = 4 * ws.length ∧ optionWords d.aux l (parseArea l (owBytes ws) cur) = .ok ws := by
  have ht := gen_memcfg_table
  rw [List.all_eq_true] at ht
  have h := ht (l, d) (List.mem_filter.2 ⟨hld, by simp [hk]⟩)
  simp only [memcfgTableB, Bool.and_eq_true, Bool.not_eq_true', List.isEmpty_eq_false_iff] at h
  obtain ⟨⟨haux, hw⟩, hne⟩ := h
  have hlenAll : ∀ xs : List Nat, (owBytes xs).length = 4 * xs.length := by
    intro xs
    induction xs with
    | nil => rfl
    | cons w xs ih =>
      have ih' : (List.flatMap (leEnc 4) xs).length = 4 * xs.length := ih
      simp only [owBytes, List.flatMap_cons, List.length_append, leEnc_length, List.length_cons, ih']; omega
  have hlen := hlenAll ws
  refine ⟨hlen, ?_⟩
  split at haux
  · next rule ri fi ud hax =>
    rw [hax] at how ⊢
    simp only [Bool.and_eq_true, decide_eq_true_eq, Bool.or_eq_true, beq_iff_eq] at haux
    have hri : rule = 0 ∨ ri = 0 := by
      rcases haux.2 with h0 | h0
      · exact Or.inl h0
      · exact Or.inr h0.1
    rcases hri with h0 | h0
    · subst h0
      -- rule `All`: the register index is not looked at
      have e : ∀ vs, optionWords [0, ri, fi, ud] l vs = optionWords [0, 0, fi, ud] l vs := by
        intro vs; simp [optionWords, owCount]
      rw [e] at how ⊢
      exact memcfg_parse_option_words 0 fi ud l vals cur ws (wordsFromB_sound 0 l.regs hw) hne hs hc how
    · subst h0
      exact memcfg_parse_option_words rule fi ud l vals cur ws (wordsFromB_sound 0 l.regs hw) hne hs hc how
  · cases haux

/-! ## configuration level: `get_config` → `load_from_config` (on top of the C11 configuration theorems) -/

/-- a well-formed register with its details is a well-formed C11 register -/
theorem toReg_wf (r : RegL) (rd : RegD) (v : Nat) (wf : RegWF r) (hv : v < 2 ^ r.width) : C11.RegWF (toReg r rd v) := by
  refine ⟨rfl, rfl, hv, ?_, ?_⟩
  · intro f hf
    simp only [toReg] at hf
    obtain ⟨k, hk, rfl⟩ := List.mem_iff_getElem.1 hf
    simp only [List.getElem_zipWith, toField]
    exact wf.fieldsIn _ (List.getElem_mem _)
  · simp only [toReg]
    have : ∀ (fs : List BF) (fds : List FieldD), fs.Pairwise FieldDisj →
        (List.zipWith toField fs fds).Pairwise C11.FieldsDisjoint := by
      intro fs
      induction fs with
      | nil => intro fds _; simp
      | cons f fs ih =>
        intro fds hp
        cases fds with
        | nil => simp
        | cons fd fds =>
          rw [List.pairwise_cons] at hp
          simp only [List.zipWith_cons_cons, List.pairwise_cons]
          refine ⟨?_, ih fds hp.2⟩
          intro g hg
          obtain ⟨k, hk, rfl⟩ := List.mem_iff_getElem.1 hg
          simp only [List.getElem_zipWith, toField, C11.FieldsDisjoint]
          exact hp.1 _ (List.getElem_mem _)
    exact this _ _ wf.fieldsDisj

theorem stateOK_get {l : Layout} {vals : Vals} {i : Nat} {r : RegL} {v : Nat} (hs : StateOK l vals)
    (hr : l.regs[i]? = some r) (hv : vals[i]? = some v) : v < 2 ^ r.width := by
  have := rv_pick hs hr
  simpa [List.getD_eq_getElem?_getD, hv] using this

/-- **Configuration round trip, index level.**  For a well-formed layout without byte-reversed registers: the configuration
    taken from state `vals` (`get_config`) loads (`load_yml_config`) into an object in state `init` - e.g. a freshly constructed
    one - and afterwards every register holds its value of `vals`, provided `init` agrees with `vals` on the bits a configuration
    does not carry (bits no bit-field covers; hidden bit-fields that hold their reset value). -/
theorem area_config_roundtrip_idx (l : Layout) (d : LayoutD) (vals init : Vals)
    (ha : Aligned3 l.regs d.regs vals) (hai : Aligned3 l.regs d.regs init)
    (wf : ∀ r ∈ l.regs, RegWF r) (hs : StateOK l vals) (hs0 : StateOK l init)
    (hrest : ∀ (i : Nat) (r : RegL) (rd : RegD) (v v0 : Nat), l.regs[i]? = some r → d.regs[i]? = some rd → vals[i]? = some v → init[i]? = some v0 →
      ∀ k, ¬ Regs.Carried (toRegMeta rd) (toReg r rd v) k → v0.testBit k = v.testBit k) :
    ∃ cfg rf', Regs.getConfig (toMeta d) (toFile l d vals) = .ok cfg ∧
      Regs.loadConfig (toMeta d) (toFile l d init) cfg = .ok rf' ∧ valuesOf rf' = vals := by
  have hmeta : ∀ i rd, d.regs[i]? = some rd → (toMeta d).reg i = toRegMeta rd := by
    intro i rd h
    simp [Regs.Meta.reg, toMeta, List.getD_eq_getElem?_getD, List.getElem?_map, h]
  have hlen : (toFile l d init).length = (toFile l d vals).length := by
    simp only [toFile]; rw [toFileFrom_length hai, toFileFrom_length ha]
  obtain ⟨cfg, rf', h1, h2, h3, h4⟩ := C11.config_roundtrip (toMeta d) (toFile l d vals) (toFile l d init) hlen (by
    intro i x x0 hx hx0
    obtain ⟨r, rd, v, hr, hrd, hv, rfl⟩ := pick3 ha hx
    obtain ⟨r', rd', v0, hr', hrd', hv0, rfl⟩ := pick3 hai hx0
    rw [hr] at hr'; cases hr'
    rw [hrd] at hrd'; cases hrd'
    have hw := wf r (List.mem_of_getElem? hr)
    refine ⟨⟨rfl, rfl, rfl, rfl, rfl, rfl, rfl⟩, .plain (toReg_wf r rd v hw (stateOK_get hs hr hv)),
      .plain (toReg_wf r rd v0 hw (stateOK_get hs0 hr hv0)), ?_⟩
    intro hne; exact absurd rfl hne)
  refine ⟨cfg, rf', h1, h2, ?_⟩
  have hl : (toFile l d vals).length = l.regs.length := toFileFrom_length ha
  apply List.ext_getElem?
  intro i
  simp only [valuesOf, List.getElem?_map]
  cases hvi : vals[i]? with
  | none =>
    have : rf'.length ≤ i := by
      rw [h3, hl, ← (aligned3_lengths ha).2]; exact List.getElem?_eq_none_iff.1 hvi
    simp [List.getElem?_eq_none this]
  | some v =>
    have hi : i < l.regs.length := by rw [← (aligned3_lengths ha).2]; exact (List.getElem?_eq_some_iff.1 hvi).1
    obtain ⟨r, hr⟩ : ∃ r, l.regs[i]? = some r := ⟨_, List.getElem?_eq_getElem hi⟩
    obtain ⟨rd, hrd⟩ : ∃ rd, d.regs[i]? = some rd := ⟨_, List.getElem?_eq_getElem (by rw [(aligned3_lengths ha).1]; exact hi)⟩
    obtain ⟨v0, hv0⟩ : ∃ v0, init[i]? = some v0 := ⟨_, List.getElem?_eq_getElem (by rw [(aligned3_lengths hai).2]; exact hi)⟩
    have hx : (toFile l d vals)[i]? = some (toReg r rd v) := by
      simp only [toFile]; rw [toFileFrom_getElem? i ha, hr, hrd, hvi]
    have hx0 : (toFile l d init)[i]? = some (toReg r rd v0) := by
      simp only [toFile]; rw [toFileFrom_getElem? i hai, hr, hrd, hv0]
    obtain ⟨r', hr', hrt⟩ := h4 i _ _ hx hx0
    rw [hmeta i rd hrd] at hrt
    have hw := wf r (List.mem_of_getElem? hr)
    have hok : C11.RegOK (toRegMeta rd) (toReg r rd v) (toReg r rd v0) :=
      ⟨⟨rfl, rfl, rfl, rfl, rfl, rfl, rfl⟩, .plain (toReg_wf r rd v hw (stateOK_get hs hr hvi)),
        .plain (toReg_wf r rd v0 hw (stateOK_get hs0 hr hv0)), fun hne => absurd rfl hne⟩
    have := (C11.config_roundtrip_same_state (toRegMeta rd) _ _ r' hrt hok (hrest i r rd v v0 hr hrd hvi hv0)).1 true
    have hp' : r'.subW = 0 ∧ r'.reverse = false := by
      cases hrt with
      | whole _ _ => exact ⟨rfl, rfl⟩
      | group hne => exact absurd rfl hne
      | fields x _ _ _ _ => exact ⟨rfl, rfl⟩
    rw [Regs.getAlt_plain r' _ true hp'.1 hp'.2, Regs.getAlt_plain (toReg r rd v) _ true rfl rfl] at this
    simp only [Except.ok.injEq] at this
    simp [hr', this, toReg]


/-- **Configuration round trip** (`load_from_config(get_config(x))`), for every well-formed layout without byte-reversed
    registers whose names resolve (`findRegB`, `fieldNamesB`: kernel-checked for the generated tables): the dictionary
    `get_config` hands out, keyed by register and bit-field NAMES, is resolved by `find_reg` / `find_bitfield` to the registers
    it was taken from, loads into a fresh object, restores every value, and the fresh object then exports the same binary. -/
theorem area_config_roundtrip (l : Layout) (d : LayoutD) (vals : Vals)
    (ha : alignedB l d = true) (hlen : vals.length = l.regs.length) (wf : LayoutWF l)
    (hf : findRegB d = true) (hn : fieldNamesB d = true) (hs : StateOK l vals) (hs0 : StateOK l d.initVals)
    (hrest : ∀ (i : Nat) (r : RegL) (rd : RegD) (v : Nat), l.regs[i]? = some r → d.regs[i]? = some rd → vals[i]? = some v →
      ∀ k, ¬ Regs.Carried (toRegMeta rd) (toReg r rd v) k → rd.init.testBit k = v.testBit k) :
    ∃ cfg n rf', Regs.getConfig (toMeta d) (toFile l d vals) = .ok cfg ∧
      nameCfg d cfg = some n ∧ resolveCfg d n = some cfg ∧
      Regs.loadConfig (toMeta d) (toFile l d d.initVals) cfg = .ok rf' ∧ valuesOf rf' = vals ∧
      exportArea l (valuesOf rf') = exportArea l vals := by
  simp only [alignedB, Bool.and_eq_true] at ha
  have h3 : Aligned3 l.regs d.regs vals := aligned3_of_alignedB ha.1 hlen
  have hdl : d.regs.length = l.regs.length := (aligned3_lengths h3).1
  have h30 : Aligned3 l.regs d.regs d.initVals := aligned3_of_alignedB ha.1 (by simp [LayoutD.initVals, hdl])
  obtain ⟨cfg, rf', h1, h2, h4⟩ := area_config_roundtrip_idx l d vals d.initVals h3 h30 wf.regs hs hs0 (by
    intro i r rd v v0 hr hrd hv hv0 k hk
    have : v0 = rd.init := by
      simp only [LayoutD.initVals, List.getElem?_map, hrd, Option.map_some, Option.some.injEq] at hv0
      exact hv0.symm
    rw [this]; exact hrest i r rd v hr hrd hv k hk)
  obtain ⟨n, hn1, hn2⟩ := names_resolve d (toFile l d vals) cfg hf hn (by simp only [toFile]; rw [toFileFrom_length h3, hdl]) (by
    intro i x rd hx hrd
    obtain ⟨r, rd', v, hr, hrd', _, rfl⟩ := pick3 h3 hx
    rw [hrd] at hrd'; cases hrd'
    have hfl : r.fields.length = rd.fields.length := by
      have := rv3_fields h3 hr hrd
      exact this
    simp [toReg, hfl]) h1
  exact ⟨cfg, n, rf', h1, hn1, hn2, h2, h4, by rw [h4]⟩

theorem stateOK_init_of_resetsB (l : Layout) (d : LayoutD) (h : resetsB l d = true) : StateOK l d.initVals := by
  simp only [resetsB] at h
  simp only [StateOK, LayoutD.initVals]
  generalize l.regs = rs at h ⊢
  generalize d.regs = rds at h ⊢
  induction rs generalizing rds with
  | nil => cases rds with | nil => exact .nil | cons _ _ => simp [zipAll] at h
  | cons r rs ih =>
    cases rds with
    | nil => simp [zipAll] at h
    | cons rd rds =>
      simp only [zipAll, Bool.and_eq_true, decide_eq_true_eq] at h
      exact .cons h.1.1 (ih rds h.2)

/-- … and the database: every generated layout without byte-reversed registers, outside the named data defects, has the
    configuration round trip -/
theorem gen_config_roundtrip (l : Layout) (d : LayoutD) (hld : (l, d) ∈ layoutsD)
    (hk1 : knownIllFormed.contains l.name = false) (hk2 : knownDuplicateRegNames.contains l.name = false)
    (hk3 : knownDuplicateFieldNames.contains l.name = false) (_hnr : noReversedB d = true)
    (vals : Vals) (hlen : vals.length = l.regs.length) (hs : StateOK l vals)
    (hrest : ∀ (i : Nat) (r : RegL) (rd : RegD) (v : Nat), l.regs[i]? = some r → d.regs[i]? = some rd → vals[i]? = some v →
      ∀ k, ¬ Regs.Carried (toRegMeta rd) (toReg r rd v) k → rd.init.testBit k = v.testBit k) :
    ∃ cfg n rf', Regs.getConfig (toMeta d) (toFile l d vals) = .ok cfg ∧
      nameCfg d cfg = some n ∧ resolveCfg d n = some cfg ∧
      Regs.loadConfig (toMeta d) (toFile l d d.initVals) cfg = .ok rf' ∧ valuesOf rf' = vals ∧
      exportArea l (valuesOf rf') = exportArea l vals := by
  have hl : l ∈ Generated.RegLayouts.layouts := (List.of_mem_zip hld).1
  have wf := gen_layouts_wellformed l hl hk1
  have hall : ∀ {p : Layout × LayoutD → Bool}, layoutsD.all p = true → p (l, d) = true := by
    intro p hp; rw [List.all_eq_true] at hp; exact hp (l, d) hld
  have ha := hall gen_details_aligned
  have hr := hall gen_resets_fit
  have hn := hall gen_reg_names_unique_partial
  have hfn := hall gen_field_names_unique_partial
  simp only [hk2, Bool.false_or, Bool.and_eq_true] at hn
  simp only [hk3, Bool.false_or] at hfn
  exact area_config_roundtrip l d vals ha hlen wf hn.2 hfn hs (stateOK_init_of_resetsB l d hr) hrest


/-! ## configuration round trip with grouped registers (byte-reversed, alternative widths) and with the state hypothesis
    reduced to the bits no bit-field covers (Phase 3; helper lemmas in Proofs/ConfigAreaGrp.lean) -/

/-- one register of a well-formed layout with its details, in two states, satisfies the C11 round-trip conditions -/
theorem regOK_G (r : RegL) (rd : RegD) (v v0 : Nat) (wf : RegWF r) (hv : v < 2 ^ r.width) (hv0 : v0 < 2 ^ r.width)
    (gf : GroupFacts r rd) (hz : rd.subW ≠ 0 → rd.alts ≠ [] → v0 = 0) (hst : rd.subW ≠ 0 → AltStable r rd v) :
    C11.RegOK (toRegMeta rd) (toRegG r rd v) (toRegG r rd v0) := by
  by_cases h0 : rd.subW = 0
  · rw [toRegG_plain r rd v h0, toRegG_plain r rd v0 h0]
    exact ⟨⟨rfl, rfl, rfl, rfl, rfl, rfl, rfl⟩, .plain (toReg_wf r rd v wf hv), .plain (toReg_wf r rd v0 wf hv0),
      fun hne => absurd rfl hne⟩
  · rw [toRegG_group r rd v h0 hv, toRegG_group r rd v0 h0 hv0]
    have hw := gf.width h0
    have g1 := groupWF_G r rd v wf.bytes h0 hw
    have g0 := groupWF_G r rd v0 wf.bytes h0 hw
    have aok : ∀ x, C11.AltOK (toRegMeta rd).alts { groupBase r rd with subs := Regs.distribute (groupBase r rd) x } := fun x =>
      ⟨gf.alts h0, gf.order h0⟩
    refine ⟨⟨rfl, rfl, rfl, rfl, rfl, by simp only [Regs.distribute_length], rfl⟩, .group g1 rfl (aok v), .group g0 rfl (aok v0), ?_⟩
    intro _
    refine ⟨?_, ?_⟩
    · intro i hi
      by_cases hal : rd.alts = []
      · simp only [toRegMeta, hal, Regs.altWidth_nil] at hi
        have hlen : (Regs.distribute (groupBase r rd) v0).length = rd.nsubs := by
          simp [Regs.distribute_length, groupBase]
        have : rd.nsubs ≤ i := by
          have e : r.width / rd.subW = rd.nsubs := by rw [hw]; exact Nat.mul_div_cancel_left _ (by omega)
          simp only [groupBase] at hi
          rw [e] at hi; exact hi
        simp only []
        rw [List.getD_eq_getElem?_getD, List.getElem?_eq_none (by omega)]; rfl
      · have := hz h0 hal
        subst this
        exact distribute_zero r rd i
    · intro hr a ha hlt
      rw [assemble_G r rd v h0 hw hv] at hlt ⊢
      exact hst h0 hr a ha hlt


/-- the raw value a register holds after the round trip -/
theorem value_G (r : RegL) (rd : RegD) (v v0 : Nat) (r' : Regs.Reg) (hv : v < 2 ^ r.width) (hv0 : v0 < 2 ^ r.width)
    (gf : GroupFacts r rd) (hrt : C11.RegRT (toRegMeta rd) (toRegG r rd v) (toRegG r rd v0) r')
    (hrest : rd.subW = 0 → r.fields ≠ [] → ∀ k, ¬ Regs.Carried (toRegMeta rd) (toReg r rd v) k → v0.testBit k = v.testBit k) :
    (if r'.isGroup then Regs.assemble r' else r'.value) = v := by
  by_cases h0 : rd.subW = 0
  · rw [toRegG_plain r rd v h0, toRegG_plain r rd v0 h0] at hrt
    cases hrt with
    | whole _ _ => simp [Regs.Reg.isGroup, toReg]
    | group hne => exact absurd rfl hne
    | fields x hne _ hx hbits =>
      have hfne : r.fields ≠ [] := by
        intro he; apply hne; simp [toReg, he]
      have : x = v := by
        apply Nat.eq_of_testBit_eq; intro k
        by_cases hc : Regs.Carried (toRegMeta rd) (toReg r rd v) k
        · exact (hbits k).1 hc
        · rw [(hbits k).2 hc]; exact hrest h0 hfne k hc
      simp [Regs.Reg.isGroup, toReg, this]
  · rw [toRegG_group r rd v h0 hv, toRegG_group r rd v0 h0 hv0] at hrt
    cases hrt with
    | whole _ hp => exact absurd hp h0
    | group _ =>
      have hg : (groupBase r rd).subW ≠ 0 := h0
      simp only [Regs.Reg.isGroup, bne_iff_ne, ne_eq, hg, not_false_eq_true, if_true]
      exact assemble_G r rd v h0 (gf.width h0) hv
    | fields x _ hp _ _ => exact absurd hp h0

/-- **Configuration round trip, index level, grouped registers included.**  For a well-formed layout whose registers are plain
    registers or database-like groups (byte-reversed or not, with or without alternative widths): the configuration taken from state
    `vals` loads into an object in state `init` and afterwards EVERY register - groups through their sub-registers - holds its raw
    value of `vals`.  `hrest` is only asked for plain registers WITH bit-fields. -/
theorem area_config_roundtrip_groups_idx (l : Layout) (d : LayoutD) (vals init : Vals)
    (ha : Aligned3 l.regs d.regs vals) (hai : Aligned3 l.regs d.regs init)
    (wf : ∀ r ∈ l.regs, RegWF r) (hs : StateOK l vals) (hs0 : StateOK l init)
    (hg : ∀ (i : Nat) (r : RegL) (rd : RegD), l.regs[i]? = some r → d.regs[i]? = some rd → GroupFacts r rd)
    (hz : ∀ (i : Nat) (rd : RegD) (v0 : Nat), d.regs[i]? = some rd → init[i]? = some v0 → rd.subW ≠ 0 → rd.alts ≠ [] → v0 = 0)
    (hst : ∀ (i : Nat) (r : RegL) (rd : RegD) (v : Nat), l.regs[i]? = some r → d.regs[i]? = some rd → vals[i]? = some v →
      rd.subW ≠ 0 → AltStable r rd v)
    (hrest : ∀ (i : Nat) (r : RegL) (rd : RegD) (v v0 : Nat), l.regs[i]? = some r → d.regs[i]? = some rd → vals[i]? = some v →
      init[i]? = some v0 → rd.subW = 0 → r.fields ≠ [] →
      ∀ k, ¬ Regs.Carried (toRegMeta rd) (toReg r rd v) k → v0.testBit k = v.testBit k) :
    ∃ cfg rf', Regs.getConfig (toMeta d) (toFileG l d vals) = .ok cfg ∧
      Regs.loadConfig (toMeta d) (toFileG l d init) cfg = .ok rf' ∧ valuesOfG rf' = vals := by
  have hmeta : ∀ i rd, d.regs[i]? = some rd → (toMeta d).reg i = toRegMeta rd := by
    intro i rd h
    simp [Regs.Meta.reg, toMeta, List.getD_eq_getElem?_getD, List.getElem?_map, h]
  have hlen : (toFileG l d init).length = (toFileG l d vals).length := by
    simp only [toFileG]; rw [toFileFromG_length hai, toFileFromG_length ha]
  obtain ⟨cfg, rf', h1, h2, h3, h4⟩ := C11.config_roundtrip (toMeta d) (toFileG l d vals) (toFileG l d init) hlen (by
    intro i x x0 hx hx0
    obtain ⟨r, rd, v, hr, hrd, hv, rfl⟩ := pick3G ha hx
    obtain ⟨r', rd', v0, hr', hrd', hv0, rfl⟩ := pick3G hai hx0
    rw [hr] at hr'; cases hr'
    rw [hrd] at hrd'; cases hrd'
    rw [hmeta i rd hrd]
    exact regOK_G r rd v v0 (wf r (List.mem_of_getElem? hr)) (stateOK_get hs hr hv) (stateOK_get hs0 hr hv0) (hg i r rd hr hrd)
      (hz i rd v0 hrd hv0) (hst i r rd v hr hrd hv))
  refine ⟨cfg, rf', h1, h2, ?_⟩
  have hl : (toFileG l d vals).length = l.regs.length := toFileFromG_length ha
  apply List.ext_getElem?
  intro i
  simp only [valuesOfG, List.getElem?_map]
  cases hvi : vals[i]? with
  | none =>
    have : rf'.length ≤ i := by
      rw [h3, hl, ← (aligned3_lengths ha).2]; exact List.getElem?_eq_none_iff.1 hvi
    simp [List.getElem?_eq_none this]
  | some v =>
    have hi : i < l.regs.length := by rw [← (aligned3_lengths ha).2]; exact (List.getElem?_eq_some_iff.1 hvi).1
    obtain ⟨r, hr⟩ : ∃ r, l.regs[i]? = some r := ⟨_, List.getElem?_eq_getElem hi⟩
    obtain ⟨rd, hrd⟩ : ∃ rd, d.regs[i]? = some rd := ⟨_, List.getElem?_eq_getElem (by rw [(aligned3_lengths ha).1]; exact hi)⟩
    obtain ⟨v0, hv0⟩ : ∃ v0, init[i]? = some v0 := ⟨_, List.getElem?_eq_getElem (by rw [(aligned3_lengths hai).2]; exact hi)⟩
    have hx : (toFileG l d vals)[i]? = some (toRegG r rd v) := by
      simp only [toFileG]; rw [toFileFromG_getElem? i ha, hr, hrd, hvi]
    have hx0 : (toFileG l d init)[i]? = some (toRegG r rd v0) := by
      simp only [toFileG]; rw [toFileFromG_getElem? i hai, hr, hrd, hv0]
    obtain ⟨r', hr', hrt⟩ := h4 i _ _ hx hx0
    rw [hmeta i rd hrd] at hrt
    have := value_G r rd v v0 r' (stateOK_get hs hr hvi) (stateOK_get hs0 hr hv0) (hg i r rd hr hrd) hrt
      (hrest i r rd v v0 hr hrd hvi hv0)
    simp [hr', this]

theorem toRegG_fields_length (r : RegL) (rd : RegD) (v : Nat) (hfl : r.fields.length = rd.fields.length)
    (gf : GroupFacts r rd) (hv : v < 2 ^ r.width) : (toRegG r rd v).fields.length = rd.fields.length := by
  by_cases h0 : rd.subW = 0
  · rw [toRegG_plain r rd v h0]; simp [toReg, hfl]
  · rw [toRegG_group r rd v h0 hv]
    have := gf.nofields h0
    rw [this] at hfl
    simp [groupBase, ← hfl]

/-- **Configuration round trip** (`load_from_config(get_config(x))`) for every well-formed layout, byte-reversed and alternative-width
    groups (ROTKH, RKTH, reversed fuse groups) INCLUDED, whose group structure is database-like (`groupsB`), whose reset values are
    what the fresh registers read (`resetsB`) and whose names resolve: the name-keyed dictionary `get_config` hands out resolves to
    the registers it came from, loads into a FRESH object, restores every raw register value, and the fresh object exports the same
    binary.  What is asked of the state: (`hunc`) on the bits of a register with bit-fields that NO bit-field covers it agrees with
    the fresh object (such bits cannot be expressed in a configuration), and (`hst`) a byte-reversed alternative-width group is
    unambiguous (`AltStable`, vacuous for values that fit the alternative width: `altStable_of_fits`). -/
theorem area_config_roundtrip_groups (l : Layout) (d : LayoutD) (vals : Vals)
    (ha : alignedB l d = true) (hlen : vals.length = l.regs.length) (wf : LayoutWF l)
    (hgr : groupsB l d = true) (hres : resetsB l d = true)
    (hf : findRegB d = true) (hn : fieldNamesB d = true) (hs : StateOK l vals)
    (hst : ∀ (i : Nat) (r : RegL) (rd : RegD) (v : Nat), l.regs[i]? = some r → d.regs[i]? = some rd → vals[i]? = some v →
      rd.subW ≠ 0 → AltStable r rd v)
    (hunc : ∀ (i : Nat) (r : RegL) (rd : RegD) (v : Nat), l.regs[i]? = some r → d.regs[i]? = some rd → vals[i]? = some v →
      rd.subW = 0 → r.fields ≠ [] → ∀ k, k < r.width → ¬ Covered r k → rd.init.testBit k = v.testBit k) :
    ∃ cfg n rf', Regs.getConfig (toMeta d) (toFileG l d vals) = .ok cfg ∧
      nameCfg d cfg = some n ∧ resolveCfg d n = some cfg ∧
      Regs.loadConfig (toMeta d) (toFileG l d d.initVals) cfg = .ok rf' ∧ valuesOfG rf' = vals ∧
      exportArea l (valuesOfG rf') = exportArea l vals := by
  simp only [alignedB, Bool.and_eq_true] at ha
  simp only [groupsB, Bool.and_eq_true] at hgr
  have h3 : Aligned3 l.regs d.regs vals := aligned3_of_alignedB ha.1 hlen
  have hdl : d.regs.length = l.regs.length := (aligned3_lengths h3).1
  have h30 : Aligned3 l.regs d.regs d.initVals := aligned3_of_alignedB ha.1 (by simp [LayoutD.initVals, hdl])
  have hs0 : StateOK l d.initVals := stateOK_init_of_resetsB l d hres
  have hgf : ∀ (i : Nat) (r : RegL) (rd : RegD), l.regs[i]? = some r → d.regs[i]? = some rd → GroupFacts r rd :=
    fun i r rd hr hrd => groupOkB_sound r rd (zipAll_get hgr.1 i r rd hr hrd)
  have hinit : ∀ (i : Nat) (rd : RegD) (v0 : Nat), d.regs[i]? = some rd → d.initVals[i]? = some v0 → v0 = rd.init := by
    intro i rd v0 hrd hv0
    simp only [LayoutD.initVals, List.getElem?_map, hrd, Option.map_some, Option.some.injEq] at hv0
    exact hv0.symm
  obtain ⟨cfg, rf', h1, h2, h4⟩ := area_config_roundtrip_groups_idx l d vals d.initVals h3 h30 wf.regs hs hs0 hgf (by
    intro i rd v0 hrd hv0 hne hal
    rw [hinit i rd v0 hrd hv0]
    have hi : i < l.regs.length := by rw [← hdl]; exact (List.getElem?_eq_some_iff.1 hrd).1
    rcases (hgf i _ rd (List.getElem?_eq_getElem hi) hrd).fresh hne with h | h
    · exact absurd h hal
    · exact h) hst (by
    intro i r rd v v0 hr hrd hv hv0 h0 hfne k hk
    rw [hinit i rd v0 hrd hv0]
    by_cases hc : Covered r k
    · exact not_carried_covered r rd v k (rv3_fields h3 hr hrd) (fieldResets_of_resetsB l d hres i r rd hr hrd) hc hk
    · by_cases hkw : k < r.width
      · exact hunc i r rd v hr hrd hv h0 hfne k hkw hc
      · have e0 : rd.init < 2 ^ r.width := by
          have := stateOK_get hs0 hr (by simp [LayoutD.initVals, hrd] : d.initVals[i]? = some rd.init)
          exact this
        rw [Regs.testBit_eq_false_of_lt e0 (by omega), Regs.testBit_eq_false_of_lt (stateOK_get hs hr hv) (by omega)])
  obtain ⟨n, hn1, hn2⟩ := names_resolve d (toFileG l d vals) cfg hf hn (by simp only [toFileG]; rw [toFileFromG_length h3, hdl]) (by
    intro i x rd hx hrd
    obtain ⟨r, rd', v, hr, hrd', hv, rfl⟩ := pick3G h3 hx
    rw [hrd] at hrd'; cases hrd'
    exact toRegG_fields_length r rd v (rv3_fields h3 hr hrd) (hgf i r rd hr hrd) (stateOK_get hs hr hv)) h1
  exact ⟨cfg, n, rf', h1, hn1, hn2, h2, h4, by rw [h4]⟩

/-! ### … and the database: the group structure of every generated layout is database-like -/

/-- every register of every generated layout is a plain, non-reversed register without alternative widths, or a group without
    bit-fields of its own, exactly as wide as its sub-registers, whose alternative widths are byte and sub-register multiples not wider
    than the group, with normal sub-register order when there are alternative widths and a zero initial value in that case; and no
    register name is the name or uid of a sub-register.  Full-strength statement (false on the pinned tree): `groupsB` for every
    layout; refuted by mcxn946 pfr_cmpa_a0 / pfr_cfpa_a0 (group wider than its sub-registers, known finding
    C12-group-wider-than-subregs, already in `knownIllFormed`). -/
theorem gen_groups_ok_partial :
    layoutsD.all (fun ld => knownIllFormed.contains ld.1.name || groupsB ld.1 ld.2) = true := by decide +kernel

/-- **every generated layout** outside the named data defects - the 21 layouts with byte-reversed groups (ROTKH, RKTH, SRKH,
    OTFAD keys, …) and the alternative-width groups included - has the configuration round trip; the hypotheses left are about the
    STATE only: unambiguous reversed alternative-width values (`hst`) and agreement with the fresh object on bits no bit-field covers
    (`hunc`); everything about the layout is a kernel-checked fact of the generated tables -/
theorem gen_config_roundtrip_groups (l : Layout) (d : LayoutD) (hld : (l, d) ∈ layoutsD)
    (hk1 : knownIllFormed.contains l.name = false) (hk2 : knownDuplicateRegNames.contains l.name = false)
    (hk3 : knownDuplicateFieldNames.contains l.name = false)
    (vals : Vals) (hlen : vals.length = l.regs.length) (hs : StateOK l vals)
    (hst : ∀ (i : Nat) (r : RegL) (rd : RegD) (v : Nat), l.regs[i]? = some r → d.regs[i]? = some rd → vals[i]? = some v →
      rd.subW ≠ 0 → AltStable r rd v)
    (hunc : ∀ (i : Nat) (r : RegL) (rd : RegD) (v : Nat), l.regs[i]? = some r → d.regs[i]? = some rd → vals[i]? = some v →
      rd.subW = 0 → r.fields ≠ [] → ∀ k, k < r.width → ¬ Covered r k → rd.init.testBit k = v.testBit k) :
    ∃ cfg n rf', Regs.getConfig (toMeta d) (toFileG l d vals) = .ok cfg ∧
      nameCfg d cfg = some n ∧ resolveCfg d n = some cfg ∧
      Regs.loadConfig (toMeta d) (toFileG l d d.initVals) cfg = .ok rf' ∧ valuesOfG rf' = vals ∧
      exportArea l (valuesOfG rf') = exportArea l vals := by
  have hl : l ∈ Generated.RegLayouts.layouts := (List.of_mem_zip hld).1
  have wf := gen_layouts_wellformed l hl hk1
  have hall : ∀ {p : Layout × LayoutD → Bool}, layoutsD.all p = true → p (l, d) = true := by
    intro p hp; rw [List.all_eq_true] at hp; exact hp (l, d) hld
  have ha := hall gen_details_aligned
  have hr := hall gen_resets_fit
  have hn := hall gen_reg_names_unique_partial
  have hfn := hall gen_field_names_unique_partial
  have hgr := hall gen_groups_ok_partial
  simp only [hk2, Bool.false_or, Bool.and_eq_true] at hn
  simp only [hk3, Bool.false_or] at hfn
  simp only [hk1, Bool.false_or] at hgr
  exact area_config_roundtrip_groups l d vals ha hlen wf hgr hr hn.2 hfn hs hst hunc

/-! ## hex-string registers (`config_as_hexstring`: FCF BACKDOOR_COMPARISON_KEY, CMPA ROTKH, fuse key groups): the text
    `get_hex_value` writes - hexadecimal digits WITHOUT prefix - is read back as the value by `_load_yml_config`

`Generated/ScalarRule.lean` holds, read from the AST of the CURRENT source, which parser `_load_yml_config` applies to a scalar under
which condition and in which order (plain scalar and `{value: x}` entry). -/

/-- for a hex-string register given as a string, the first parser that applies is `int(x, 16)` - in both places -/
theorem scalar_rule_hex_first :
    Generated.ScalarRule.scalarRule.map hexFirstB = some true ∧ Generated.ScalarRule.dictValueRule.map hexFirstB = some true := by
  decide

/-- **`load(get_hex_value(v)) = v`** for a `config_as_hexstring` register of `w` bits (`w` a multiple of 4, e.g. an alternative
    width) and EVERY `v < 2^w` - the digit-only texts ('0000000000000010', '1122334455667788', all nines) and the texts that look
    like a binary literal ('0B11…') included: the `w/4` digits written by `get_hex_value` decode to `v` under the rule of the
    current source -/
theorem hexstring_scalar_roundtrip (w v : Nat) (h4 : w % 4 = 0) (hw : 0 < w) (hv : v < 2 ^ w) :
    (∃ rule, Generated.ScalarRule.scalarRule = some rule ∧ decodeScalar rule true (.digits (hexDigits (w / 4) v)) = some v) ∧
    (∃ rule, Generated.ScalarRule.dictValueRule = some rule ∧ decodeScalar rule true (.digits (hexDigits (w / 4) v)) = some v) := by
  have hn : 0 < w / 4 := by omega
  have hv' : v < 16 ^ (w / 4) := by
    have : (16 : Nat) ^ (w / 4) = 2 ^ w := by
      rw [show (16 : Nat) = 2 ^ 4 from rfl, ← Nat.pow_mul]; congr 1; omega
    rw [this]; exact hv
  obtain ⟨h1, h2⟩ := scalar_rule_hex_first
  constructor
  · cases hr : Generated.ScalarRule.scalarRule with
    | none => rw [hr] at h1; cases h1
    | some rule =>
      rw [hr] at h1
      simp only [Option.map_some, Option.some.injEq] at h1
      exact ⟨rule, rfl, decodeScalar_hex rule h1 _ v hn hv'⟩
  · cases hr : Generated.ScalarRule.dictValueRule with
    | none => rw [hr] at h2; cases h2
    | some rule =>
      rw [hr] at h2
      simp only [Option.map_some, Option.some.injEq] at h2
      exact ⟨rule, rfl, decodeScalar_hex rule h2 _ v hn hv'⟩

example : hexDigits 16 0x10 = [0, 0, 0, 0, 0, 0, 0, 0, 0, 0, 0, 0, 0, 0, 1, 0] := by decide
/-- why the order matters (seeded change C12f): "try `value_to_int` first, fall back to base 16" reads the digit-only text of 0x10
    as the decimal number 10, and a text that starts with 0B as a binary literal; the checker refuses that rule -/
example : decodeScalar [⟨.always, .valueToInt, true⟩, ⟨.hexReg, .hex16, false⟩] true (.digits (hexDigits 16 0x10)) = some 10 := by decide
example : decodeScalar [⟨.always, .valueToInt, true⟩, ⟨.hexReg, .hex16, false⟩] true (.digits (hexDigits 4 0x0B11)) = some 3 := by decide
example : decodeScalar [⟨.always, .valueToInt, true⟩, ⟨.hexReg, .hex16, false⟩] true (.digits (hexDigits 4 0xBEEF)) = some 0xBEEF := by decide
example : hexFirstB [⟨.always, .valueToInt, true⟩, ⟨.hexReg, .hex16, false⟩] = false := by decide

/-! ## alternative-width, byte-reversed registers (ROTKH of the CMPA, RKTH fuse group) -/

section Rotkh
open SpsdkVerif.Regs

/-- the stored raw value of a byte-reversed value of `n` bytes, exported little endian over `n + d` bytes, is the big-endian
    byte string of the value, left-justified and zero padded -/
theorem reversed_field_bytes (n d v : Nat) (hv : v < 256 ^ n) :
    leEnc (n + d) (leDec (beEnc n v)) = beEnc n v ++ List.replicate d 0 := by
  have hx : leDec (beEnc n v) < 256 ^ n := leDec_beEnc_lt n v
  have hpad := beEnc_pad n d (leDec (beEnc n v)) hx
  have hrev : (beEnc n (leDec (beEnc n v))).reverse = beEnc n v := by
    have h := beEnc_beDec_reverse (beEnc n v)
    rw [beEnc_length] at h
    simp only [leDec]
    rw [h, List.reverse_reverse]
  simp only [leEnc]
  rw [Nat.add_comm, hpad, List.reverse_append, hrev, List.reverse_replicate]

/-- **ROTKH / RKTH placement** (register of 384 bit with the alternative width 256, byte reversed; `gen_alt_width` of C11 ties
    `altWidth` to the current `Register.get_alt_width`): EVERY value below 2^256 - short ones with leading zero bytes included, down to
    0 and 1 - selects the 256-bit width, and the 48 exported bytes of the stored raw value are the 32-byte big-endian value followed
    by 16 zero bytes; a value that needs more than 32 bytes uses the full width. -/
theorem rotkh_placement (v : Nat) :
    (v < 2 ^ 256 → altWidth [256] 384 v = 256 ∧ ∃ x, brev 256 v = some x ∧ leEnc 48 x = beEnc 32 v ++ List.replicate 16 0) ∧
    (2 ^ 256 ≤ v → v < 2 ^ 384 → altWidth [256] 384 v = 384 ∧ ∃ x, brev 384 v = some x ∧ leEnc 48 x = beEnc 48 v) := by
  constructor
  · intro hv
    have e32 : (256 : Nat) ^ 32 = 2 ^ 256 := by decide
    have h256 : v < 256 ^ 32 := by rw [e32]; exact hv
    have hfit : byteCnt v ≤ 256 / 8 := (byteCnt_le_iff v 32 (by decide)).2 h256
    refine ⟨altWidth_cons_fit 256 [] 384 v hfit (by simp), leDec (beEnc 32 v), ?_, ?_⟩
    · rw [brev_eq 256 v (by decide) hv]
    · exact reversed_field_bytes 32 16 v h256
  · intro hlo hhi
    have e32 : (256 : Nat) ^ 32 = 2 ^ 256 := by decide
    have h256 : ¬ v < 256 ^ 32 := by rw [e32]; omega
    have hnf : ¬ byteCnt v ≤ 256 / 8 := fun h => h256 ((byteCnt_le_iff v 32 (by decide)).1 h)
    have e48 : (256 : Nat) ^ 48 = 2 ^ 384 := by decide
    have h384 : v < 256 ^ 48 := by rw [e48]; exact hhi
    refine ⟨by rw [altWidth_cons_nofit 256 [] 384 v hnf, altWidth_nil], leDec (beEnc 48 v), ?_, ?_⟩
    · rw [brev_eq 384 v (by decide) hhi]
    · have := reversed_field_bytes 48 0 v h384
      simpa using this

end Rotkh

/-! ## the database: every (family, revision, area) row uses one of the generated layouts, hence … -/

theorem gen_layouts_roundtrip (l : Layout) (hl : l ∈ Generated.RegLayouts.layouts)
    (hk : knownIllFormed.contains l.name = false) (hb : l.binary = true) (vals : Vals) (hs : StateOK l vals) :
    ∃ b, exportArea l vals = .ok b ∧ b.length = l.exportLen ∧ (l.docSize ≠ 0 → b.length = l.docSize) ∧
      parseArea l b vals = vals ∧ exportArea l (parseArea l b vals) = .ok b := by
  have wf := gen_layouts_wellformed l hl hk
  obtain ⟨b, he, hlen⟩ := area_export_size l vals wf hb hs
  exact ⟨b, he, hlen, fun hd => by rw [hlen, (wf.bin hb).2.2.1 hd],
    area_values_restored l vals b wf hb hs he, area_parse_export l vals b wf hb hs he⟩

/-! ## non-vacuity -/

/-- a small page: two visible registers (one with bit-fields and a computed upper half), a reserved word, a seal word -/
def exLayout : Layout :=
  Layout.ofRaw "example" 0 16 0xFF 16 true [(0, 0)] 12 1
    [[0, 32, 0, 32, 0, 16, 16, 16], [4, 16, 0, 16], [8, 32, 1, 32], [12, 32, 0, 32]]

example : layoutWFb exLayout = true := by decide
example : LayoutWF exLayout := layoutWFb_sound _ (by decide)
example : StateOK exLayout [0x1234, 0xBEEF, 7, 0] :=
  .cons (by decide) (.cons (by decide) (.cons (by decide) (.cons (by decide) .nil)))
example : computeAll exLayout.computed (fun _ => true) [0x1234, 0xBEEF, 7, 0] = [0xEDCB1234, 0xBEEF, 7, 0] := by decide
example : exportArea exLayout [0xEDCB1234, 0xBEEF, 7, 0] =
    .ok [0x34, 0x12, 0xCB, 0xED, 0xEF, 0xBE, 0xFF, 0xFF, 7, 0, 0, 0, 0, 0, 0, 0] := by decide
-- the reserved register (index 2) is not touched by parse
example : parseArea exLayout [0x34, 0x12, 0xCB, 0xED, 0xEF, 0xBE, 0xFF, 0xFF, 7, 0, 0, 0, 0, 0, 0, 0] [0, 0, 99, 0]
    = [0xEDCB1234, 0xBEEF, 99, 0] := by decide
example : exportSealed Generated.RegLayouts.sealMark exLayout [0xEDCB1234, 0xBEEF, 7, 0] =
    .ok [0x34, 0x12, 0xCB, 0xED, 0xEF, 0xBE, 0xFF, 0xFF, 7, 0, 0, 0, 0x53, 0x45, 0x41, 0x4C] := by decide
-- an overlapping layout is refused by the checker
example : layoutWFb (Layout.ofRaw "bad" 0 8 0 0 true [] 0 0 [[0, 32, 0, 32], [2, 32, 0, 32]]) = false := by decide
-- the generated table is not empty and contains binary areas with computed fields and seals
example : Generated.RegLayouts.layouts.any (fun l => l.binary && !l.computed.isEmpty && l.sealCount != 0) = true := by
  decide +kernel
example : tzExport [1, 0xFFFFFFFF] = .ok [1, 0, 0, 0, 0xFF, 0xFF, 0xFF, 0xFF] := by decide
example : RuleHolds 0 0xEDCB1234 ∧ RuleHolds 1 0x0000A55A := by decide

/-! ### non-vacuity of the grouped-register configuration round trip -/

/-- a 16-bit register with three 4-bit bit-fields (the middle one hidden; bits 12..15 covered by no bit-field) and a byte-reversed
    group of two 16-bit sub-registers with the alternative width 16 -/
def exLayoutG : Layout := Layout.ofRaw "exampleG" 0 8 0 0 true [] 0 0 [[0, 16, 0, 16, 0, 4, 4, 4, 8, 4], [4, 32, 0, 32]]
def exDetailsG : LayoutD := LayoutD.ofRaw 99 [] []
  [([0x0120, 1, 2, 4], [[0, 4, 0, 10], [2, 5, 0, 11], [1, 4, 0, 12]]), ([0, 3, 4, 5, 16, 2, 0, 1, 16, 6, 7, 8, 9], [])]

example : layoutWFb exLayoutG = true ∧ alignedB exLayoutG exDetailsG = true ∧ groupsB exLayoutG exDetailsG = true ∧
    resetsB exLayoutG exDetailsG = true ∧ findRegB exDetailsG = true ∧ fieldNamesB exDetailsG = true := by decide

def exR0 : RegL := ⟨0, 16, false, 16, [⟨0, 4⟩, ⟨4, 4⟩, ⟨8, 4⟩]⟩
def exR1 : RegL := ⟨4, 32, false, 32, []⟩
theorem exLayoutG_regs : exLayoutG.regs = [exR0, exR1] := by decide
theorem exDetailsG_subW : exDetailsG.regs.map (·.subW) = [0, 16] ∧ exDetailsG.regs.map (·.alts) = [[], [16]] ∧
    exDetailsG.regs.map (·.init) = [0x0120, 0] := by decide

/-- the state: the hidden bit-field at its reset value 2, the uncovered bits 12..15 as in the fresh object, the group holding the
    byte-reversed 16-bit value 0xABCD (raw 0xCDAB: fits the alternative width) -/
def exValsG : Vals := [0x0325, 0xCDAB]

example : StateOK exLayoutG exValsG := .cons (by decide) (.cons (by decide) .nil)

/-- what the model computes for it: the group is written out through its byte-reversed 16-bit view and comes back -/
example : (Regs.getConfig (toMeta exDetailsG) (toFileG exLayoutG exDetailsG exValsG)).toOption.map (·.map (·.2)) =
    some [.fields [(0, .num 5), (2, .num 3)], .value 0xABCD] := by decide
example : (Regs.getConfig (toMeta exDetailsG) (toFileG exLayoutG exDetailsG exValsG)).toOption.bind (fun cfg =>
    (Regs.loadConfig (toMeta exDetailsG) (toFileG exLayoutG exDetailsG exDetailsG.initVals) cfg).toOption.map valuesOfG) =
    some exValsG := by decide

/-- … and the hypotheses of `area_config_roundtrip_groups` hold for it (non-vacuity, all of them at once) -/
example : ∃ cfg n rf', Regs.getConfig (toMeta exDetailsG) (toFileG exLayoutG exDetailsG exValsG) = .ok cfg ∧
      nameCfg exDetailsG cfg = some n ∧ resolveCfg exDetailsG n = some cfg ∧
      Regs.loadConfig (toMeta exDetailsG) (toFileG exLayoutG exDetailsG exDetailsG.initVals) cfg = .ok rf' ∧ valuesOfG rf' = exValsG ∧
      exportArea exLayoutG (valuesOfG rf') = exportArea exLayoutG exValsG := by
  refine area_config_roundtrip_groups exLayoutG exDetailsG exValsG (by decide) rfl (layoutWFb_sound _ (by decide)) (by decide)
    (by decide) (by decide) (by decide) (.cons (by decide) (.cons (by decide) .nil)) ?_ ?_
  · intro i r rd v hr hrd hv hne
    apply altStable_of_fits
    have ha : (exDetailsG.regs.map (·.alts))[i]? = some rd.alts := by simp [hrd]
    rw [exDetailsG_subW.2.1] at ha
    match i, hv, ha with
    | 0, _, ha => simp at ha; intro a h; rw [ha] at h; cases h
    | 1, hv, ha =>
      simp [exValsG] at hv ha; subst hv
      intro a h; rw [← ha] at h; simp at h; subst h; decide
    | i + 2, hv, _ => simp [exValsG] at hv
  · intro i r rd v hr hrd hv h0 _ k hk hnc
    have hs : (exDetailsG.regs.map (·.subW))[i]? = some rd.subW := by simp [hrd]
    have hi : (exDetailsG.regs.map (·.init))[i]? = some rd.init := by simp [hrd]
    rw [exDetailsG_subW.1] at hs
    rw [exDetailsG_subW.2.2] at hi
    rw [exLayoutG_regs] at hr
    match i, hr, hv, hs, hi with
    | 0, hr, hv, _, hi =>
      simp at hr hi; simp [exValsG] at hv; subst hr; subst hv; rw [← hi]
      have hk' : k < 16 := hk
      by_cases h12 : k < 12
      · exfalso; apply hnc
        by_cases h4 : k < 4
        · exact ⟨⟨0, 4⟩, by simp [exR0], by simp, by simpa using h4⟩
        · by_cases h8 : k < 8
          · exact ⟨⟨4, 4⟩, by simp [exR0], by simp; omega, by simp; omega⟩
          · exact ⟨⟨8, 4⟩, by simp [exR0], by simp; omega, by simp; omega⟩
      · have : k = 12 ∨ k = 13 ∨ k = 14 ∨ k = 15 := by omega
        rcases this with rfl | rfl | rfl | rfl <;> decide
    | 1, _, _, hs, _ => simp at hs; omega
    | i + 2, hr, _, _, _ => simp at hr

end SpsdkVerif.C12
