/-
C05 — Secure Binary 3.1: hash chain, block keys and commands decode to the input.

Model        : Model/Sb31.lean, first half (`exportSb` = `SecureBinary31.export()` as a state transition of the
               Python object; command encoders, chunking, hash chain, header, KDF) over Generated/Sb31Consts.lean
               (tags, struct formats, header/KDF constants, `updTotalLength`, `chainStartHash`, `kdfData`
               re-extracted from the current source on every run).
ROM loader   : Model/Sb31.lean, namespace `Rom` — written from the format description with hand-written
               constants; the theorems below relate the two halves, so a changed source constant breaks them.
Vocabulary   : Model/Sb31.lean, namespace `Spec` (`hdrSpec`, `Good`, `StateWF`, `DevOK`, `Chained`, `Tiles`).
Helper lemmas: Proofs/Sb31.lean.  Tie to /repo: byte-for-byte correspondence in harness/props/C05.py.

Every theorem is for EVERY `c : CryptoOps` with `CryptoLaws c` (all keys, data, lengths).  Signatures are
abstract: `CryptoLaws.verify_sign` is the only fact used; the certificate block is an opaque input whose
acceptance by the loader (`DevOK.cert`) is a hypothesis here (its construction is property C03) and is
checked on real certificate blocks by the harness.
-/
import SpsdkVerif.Model.Sb31
import SpsdkVerif.Proofs.Sb31
import SpsdkVerif.Proofs.Sb31Ext
import SpsdkVerif.Proofs.CertBlockRom

namespace SpsdkVerif.C05
open SpsdkVerif SpsdkVerif.Misc SpsdkVerif.Crypto SpsdkVerif.Generated
open SpsdkVerif.Sb31 SpsdkVerif.Sb31.Rom SpsdkVerif.Sb31.Spec

/-! ## 0. the generated constants agree with the format description the loader is written from -/

theorem tags_agree :
    Sb31Consts.cmdTags = [("NONE", 0), ("ERASE", 1), ("LOAD", 2), ("EXECUTE", 3), ("CALL", 4), ("PROGRAM_FUSES", 5),
      ("PROGRAM_IFR", 6), ("LOAD_CMAC", 7), ("COPY", 8), ("LOAD_HASH_LOCKING", 9), ("LOAD_KEY_BLOB", 10),
      ("CONFIGURE_MEMORY", 11), ("FILL_MEMORY", 12), ("FW_VERSION_CHECK", 13), ("RESET", 14)] ∧
    Sb31Consts.cmdMagic = 0x55AAAA55 := by decide

/-- each of the 14 command classes passes its own tag, and `TAG_TO_CLASS` maps the tag back to the class -/
theorem classes_agree :
    Sb31Consts.classTags.length = 14 ∧
    ∀ p ∈ Sb31Consts.classTags, (p.2, p.1) ∈ Sb31Consts.tagToClass ∧ 1 ≤ p.2 ∧ p.2 ≤ 14 := by decide

theorem formats_agree :
    Sb31Consts.fmtBaseCmd = [4, 4, 4, 4] ∧ Sb31Consts.fmtBaseCmdLittle = true ∧
    Sb31Consts.fmtKeyBlob = [4, 2, 2, 4, 4] ∧ Sb31Consts.fmtKeyBlobLittle = true ∧
    Sb31Consts.fmtSection = [4, 4, 4, 4] ∧ Sb31Consts.fmtSectionLittle = true ∧
    Sb31Consts.fmtHeader = [4, 2, 2, 4, 4, 4, 8, 4, 4, 4, 4, 16] ∧ Sb31Consts.fmtHeaderLittle = true ∧
    Sb31Consts.fmtLoadMemBlock = [4, 4, 4, 4] ∧ Sb31Consts.fmtEraseTail = [4, 4, 4, 4] ∧
    Sb31Consts.fmtCopyTail = [4, 4, 4, 4] ∧ Sb31Consts.fmtFillTail = [4, 4, 4, 4] ∧
    Sb31Consts.fmtLoadMemBlockLittle = true ∧ Sb31Consts.fmtEraseTailLittle = true ∧
    Sb31Consts.fmtCopyTailLittle = true ∧ Sb31Consts.fmtFillTailLittle = true ∧
    Sb31Consts.fmtDataBlock.head?.getD 4 = 4 ∧ Sb31Consts.fmtDataBlockLittle = true ∧
    Sb31Consts.hasMemIdBlock = [("CmdLoad", true), ("CmdLoadCmac", true), ("CmdLoadHashLocking", true),
      ("CmdProgFuses", false), ("CmdProgIfr", false)] := by decide

theorem constants_agree :
    Sb31Consts.headerSize = 60 ∧ Sb31Consts.initTotalLength = 60 ∧ Sb31Consts.descLen = 16 ∧ Sb31Consts.chunkLen = 256 ∧
    Sb31Consts.hdrMagic = [0x73, 0x62, 0x76, 0x33] ∧ Sb31Consts.hdrVersionMajor = 3 ∧ Sb31Consts.hdrVersionMinor = 1 ∧
    Sb31Consts.loadAlign = 16 ∧ Sb31Consts.keyBlobAlign = 16 ∧ Sb31Consts.hashLockTail = 64 ∧ Sb31Consts.fuseWordSize = 4 ∧
    Sb31Consts.sectionUid = 1 ∧ Sb31Consts.sectionType = 1 ∧ Sb31Consts.imageTypeNxp = 7 ∧ Sb31Consts.imageTypeOem = 6 ∧
    Sb31Consts.keyLenOfHash = [(32, 128), (48, 256)] ∧ Sb31Consts.hashOfSigLen = [(64, 32), (96, 48)] ∧
    Sb31Consts.kdfRights = [0, 1, 2, 3] ∧ Sb31Consts.kdfKeyLens = [128, 256] ∧
    Sb31Consts.kdfIterationsFor = [(128, [1]), (256, [1, 2])] ∧ Sb31Consts.kdfModeKdk = 1 ∧ Sb31Consts.kdfModeBlk = 2 := by decide

/-- configuration glue: every YAML command name of `CFG_NAME_TO_CLASS` leads (through the class it names and the tag
    that class passes) to the tag of the command it spells, and every class reads exactly the documented keys -/
theorem config_names_agree :
    Sb31Consts.cfgNameToTag = [("call", 4), ("checkFwVersion", 13), ("configureMemory", 11), ("copy", 8), ("erase", 1),
      ("execute", 3), ("fillMemory", 12), ("load", 2), ("loadCMAC", 7), ("loadHashLocking", 9), ("loadKeyBlob", 10),
      ("programFuses", 5), ("programIFR", 6), ("reset", 14)] ∧
    Sb31Consts.cfgKeys = [("CmdCall", ["address"]), ("CmdConfigureMemory", ["configAddress", "memoryId"]),
      ("CmdCopy", ["addressFrom", "addressTo", "memoryIdFrom", "memoryIdTo", "size"]),
      ("CmdErase", ["address", "memoryId", "size"]), ("CmdExecute", ["address"]),
      ("CmdFillMemory", ["address", "pattern", "size"]), ("CmdFwVersionCheck", ["counterId", "value"]),
      ("CmdLoad", ["address", "authentication", "file", "memoryId", "value", "values"]),
      ("CmdLoadCmac", ["address", "file", "memoryId"]), ("CmdLoadHashLocking", ["address", "file", "memoryId"]),
      ("CmdLoadKeyBlob", ["family", "file", "offset", "plainInput", "wrappingKeyId"]),
      ("CmdProgFuses", ["address", "values"]), ("CmdProgIfr", ["address", "file", "value", "values"]),
      ("CmdReset", [])] := by decide

/-- the small integer functions translated from the source -/
theorem layout_functions (h old cert : Nat) (hh : h = 32 ∨ h = 48) :
    Sb31Consts.certBlockOffset h = 60 + h ∧ Sb31Consts.blockSize h = 260 + h ∧
    Sb31Consts.updTotalLength old h cert = 60 + h + cert + 2 * h :=
  ⟨(layout_eq h hh).1, (layout_eq h hh).2, updTotalLength_eq old h cert⟩

/-! ## 1. commands -/

/-- every command of each of the 14 kinds, with any in-range field values and any data, is read back by the
    loader exactly, and the loader consumes exactly the command's bytes -/
theorem cmd31_roundtrip (cmd : Cmd) (h : cmd.wf = true) (rest : Sb31.Bytes) :
    parseCmd (encCmd cmd ++ rest) = .ok (cmd, rest) := parseCmd_enc cmd h rest

/-- the constructors keep the round-trip domain closed: a command that can be constructed and whose fields fit
    their struct codes is in the domain of `cmd31_roundtrip` (partial fuse words are refused with an SPSDK error,
    so the PROGRAM_FUSES restriction is no longer a hypothesis on the caller) -/
theorem constructed_cmd_in_domain (cmd cmd' : Cmd) (h : newCmd cmd = .ok cmd') (hr : cmd'.inRange = true) :
    cmd' = cmd ∧ cmd'.wf = true := by
  cases cmd with
  | progFuses a d =>
    by_cases hg : d.length % 4 = 0
    · simp [newCmd, Sb31Consts.fuseDataGuard, hg] at h
      subst h
      exact ⟨rfl, by simp [Cmd.wf, hr, hg]⟩
    · simp [newCmd, Sb31Consts.fuseDataGuard, hg] at h
  | _ =>
    simp only [newCmd] at h
    injection h with h
    subst h
    exact ⟨rfl, by simp [Cmd.wf, hr]⟩

theorem partial_fuse_words_refused (a : Nat) (d : Sb31.Bytes) (h : d.length % 4 ≠ 0) :
    newCmd (.progFuses a d) = .error .spsdk := by
  simp [newCmd, Sb31Consts.fuseDataGuard, h]

/-- optional configuration keys default to memory id 0 for every command that has one (and `plainInput` to "bin") -/
theorem config_defaults_agree :
    Sb31Consts.cfgDefaults = [("CmdConfigureMemory", "memoryId", "0"), ("CmdCopy", "memoryIdFrom", "0"),
      ("CmdCopy", "memoryIdTo", "0"), ("CmdErase", "memoryId", "0"), ("CmdLoad", "memoryId", "0"),
      ("CmdLoadCmac", "memoryId", "0"), ("CmdLoadHashLocking", "memoryId", "0"),
      ("CmdLoadKeyBlob", "plainInput", "bin")] := by decide

/-- size of every exported command: the documented one, a multiple of 16 -/
theorem cmd31_size (cmd : Cmd) : (encCmd cmd).length = cmdSize cmd ∧ cmdSize cmd % 16 = 0 :=
  ⟨encCmd_length cmd, cmdSize_mod cmd⟩

theorem cmd31_stream_roundtrip (cmds : List Cmd) (h : ∀ cmd ∈ cmds, cmd.wf = true) :
    parseCmds (cmdBytes cmds).length (cmdBytes cmds) = .ok cmds :=
  parseCmds_enc cmds h _ (cmdBytes_length_ge cmds)

/-- section header + commands + zero padding to the block boundary parse back to the commands -/
theorem stream_roundtrip (cmds : List Cmd) (h : ∀ cmd ∈ cmds, cmd.wf = true) (hlen : (cmdBytes cmds).length < 4294967296) :
    parseStream (dataBlocks (cmdStream cmds)).flatten = .ok cmds := by
  rw [dataBlocks_flatten]; exact parseStream_enc cmds h hlen

/-! ## 2. key derivation -/

/-- what `_derive_key` computes is the documented CMAC counter-mode KDF, for both key sizes, all access rights,
    every derivation constant (timestamp / block number) and every base key -/
theorem kdf_documented (c : CryptoOps) (key : Sb31.Bytes) (const rights : Nat) (blk : Bool) (keyBits : Nat)
    (hr : rights < 4) (hk : keyBits = 128 ∨ keyBits = 256) :
    deriveKey c key const rights (if blk then Sb31Consts.kdfModeBlk else Sb31Consts.kdfModeKdk) keyBits =
      kdf c key const rights blk keyBits := (kdf_eq c key const rights blk keyBits hr hk).symm

/-- the key of block `n` is KDF(KDK, n) with KDK = KDF(PCK, timestamp), both under the configured access rights -/
theorem block_keys (c : CryptoOps) (s : ObjState) (hg : Good c s) (he : s.cfg.encrypted = true) (n : Nat) :
    blockKey c s n =
      kdf c (kdf c s.cfg.pck s.cfg.timestamp s.cfg.rights false (keyBitsOf s.cfg.hashLen)) n s.cfg.rights true
        (keyBitsOf s.cfg.hashLen) := by
  rw [kdf_eq c _ _ _ false _ (hg.rights he) (keyBitsOf_cases _), kdf_eq c _ _ _ true _ (hg.rights he) (keyBitsOf_cases _)]
  simp only [blockKey, deriveVia, Sb31Consts.blkCall, Sb31Consts.kdfModeBlk, Sb31Consts.kdfModeKdk, hg.kdk he, hg.keyLen,
    Bool.false_eq_true, if_false, if_true]

/-- KEY SEPARATION: two data blocks of a container are encrypted under the same key only if they are the same
    block — otherwise two different KDF inputs with the same CMAC are exhibited -/
theorem block_keys_distinct {c : CryptoOps} (hc : CryptoLaws c) (s : ObjState) (hg : Good c s) (he : s.cfg.encrypted = true)
    (n m : Nat) (hn : n < 256 ^ 12) (hm : m < 256 ^ 12) (h : blockKey c s n = blockKey c s m) : n = m ∨ Break c := by
  rw [block_keys c s hg he, block_keys c s hg he] at h
  exact kdf_sep_const hc _ n m _ true _ hn hm h

/-- the key derivation key (hence every block key) depends on the access rights and on the timestamp: equal KDKs
    under different rights / timestamps exhibit a CMAC forgery -/
theorem kdk_depends_on_rights_and_timestamp {c : CryptoOps} (hc : CryptoLaws c) (pck : Sb31.Bytes) (keyBits : Nat) :
    (∀ ts r₁ r₂, r₁ < 4 → r₂ < 4 → kdf c pck ts r₁ false keyBits = kdf c pck ts r₂ false keyBits → r₁ = r₂ ∨ Break c) ∧
    (∀ t₁ t₂ r, t₁ < 256 ^ 12 → t₂ < 256 ^ 12 → kdf c pck t₁ r false keyBits = kdf c pck t₂ r false keyBits → t₁ = t₂ ∨ Break c) :=
  ⟨fun ts r₁ r₂ h₁ h₂ h => kdf_sep_rights hc pck ts r₁ r₂ false keyBits h₁ h₂ h,
   fun t₁ t₂ r h₁ h₂ h => kdf_sep_const hc pck t₁ t₂ r false keyBits h₁ h₂ h⟩

/-- a freshly constructed object satisfies the invariants -/
theorem constructor_good (c : CryptoOps) (cfg : Cfg) (s : ObjState) (h : newObj c cfg = .ok s) :
    Good c s ∧ s.cfg = cfg ∧ s.cmds = [] := newObj_good c cfg s h

/-! ## 3. structure of an exported file -/

variable {c : CryptoOps}

/-- header ‖ H(block₁) ‖ certificate block ‖ signature ‖ block₁ … blockₙ, where block_i carries its number,
    H(block_{i+1}) and 256 payload bytes, and the last block carries the all-zero hash -/
theorem chain (hc : CryptoLaws c) (s : ObjState) (hg : Good c s) (r : Rand) :
    ∃ (h1 sig : Sb31.Bytes) (blocks : List Sb31.Bytes),
      (exportSb c s r).2 = encHeader (hdrSpec s) ++ (h1 ++ (s.cfg.cert ++ (sig ++ blocks.flatten))) ∧
      sig = c.sign (sigAlgOf s.cfg.hashLen) s.cfg.sk (encHeader (hdrSpec s) ++ (h1 ++ s.cfg.cert)) r ∧
      blocks.length = (hdrSpec s).blockCount ∧
      Chained c (algOfCoord s.cfg.hashLen) s.cfg.hashLen 1 h1 blocks := by
  refine ⟨(chainOf c s).1, sigOf c s r, (chainOf c s).2, exportSb_bytes c s r hg.hl, rfl, ?_, ?_⟩
  · simp only [chainOf]; rw [buildChain_length, dataBlocks_length, cmdStream_length]; rfl
  · exact buildChain_chained hc s hg.hl _ 1 (dataBlocks_mem _)

/-- header fields versus reality: the block count is ⌈stream / 256⌉ for a stream of 16 + Σ|cmd| bytes, block 0
    (header ‖ hash ‖ certificate block ‖ signature) is exactly `totalLength` bytes long and is followed by exactly
    `blockCount` blocks of `blockSize` bytes -/
theorem block_count_len (hc : CryptoLaws c) (s : ObjState) (hg : Good c s) (wf : StateWF c s) (r : Rand) :
    (hdrSpec s).blockCount = ((cmdStream s.cmds).length + 255) / 256 ∧
    (cmdStream s.cmds).length = 16 + (s.cmds.map cmdSize).sum ∧
    (signedOf c s ++ sigOf c s r).length = (hdrSpec s).totalLength ∧
    (exportSb c s r).2.take (hdrSpec s).totalLength = signedOf c s ++ sigOf c s r ∧
    (exportSb c s r).2.length = (hdrSpec s).totalLength + (hdrSpec s).blockCount * (hdrSpec s).blockSize := by
  have hH : (encHeader (hdrSpec s)).length = 60 := encHeader_length _ (adjustDesc_length _)
  have hh1 : (chainOf c s).1.length = s.cfg.hashLen := buildChain_fst_length hc s _ _ rfl hg.hl (by simp) _ _
  have hlen : (signedOf c s ++ sigOf c s r).length = (hdrSpec s).totalLength := by
    simp only [signedOf, List.length_append, hH, hh1, sigOf, wf.sigLen]
    simp only [hdrSpec]; omega
  refine ⟨by rw [cmdStream_length]; rfl, by rw [cmdStream_length]; rfl, hlen, ?_, export_length hc s hg wf r⟩
  rw [exportSb_bytes _ _ _ hg.hl]
  have e : encHeader (hdrSpec s) ++ ((chainOf c s).1 ++ (s.cfg.cert ++ (sigOf c s r ++ (chainOf c s).2.flatten)))
      = (signedOf c s ++ sigOf c s r) ++ (chainOf c s).2.flatten := by simp [signedOf, List.append_assoc]
  rw [e]
  exact List.take_left' hlen

/-- the ranges the loader authenticates (signed range, signature, block 1 … block n) are consecutive and end at
    the end of the file … -/
theorem coverage_total (hc : CryptoLaws c) (s : ObjState) (hg : Good c s) (wf : StateWF c s) (r : Rand) :
    Tiles 0 (coverage (hdrSpec s) s.cfg.hashLen) (exportSb c s r).2.length := by
  rw [export_length hc s hg wf r]
  have h2 : 2 * s.cfg.hashLen ≤ (hdrSpec s).totalLength := by simp only [hdrSpec]; omega
  refine ⟨rfl, by simp, ?_⟩
  have e : 0 + ((0 : Nat), (hdrSpec s).totalLength - 2 * s.cfg.hashLen).2 +
      ((hdrSpec s).totalLength - 2 * s.cfg.hashLen, 2 * s.cfg.hashLen).2 = (hdrSpec s).totalLength := by
    simp only []; omega
  rw [e]
  exact tiles_blocks _ _ _

/-- … so every byte index of the file lies inside signature coverage or inside a hashed block -/
theorem coverage_every_byte (hc : CryptoLaws c) (s : ObjState) (hg : Good c s) (wf : StateWF c s) (r : Rand)
    (j : Nat) (hj : j < (exportSb c s r).2.length) :
    ∃ p ∈ coverage (hdrSpec s) s.cfg.hashLen, p.1 ≤ j ∧ j < p.1 + p.2 :=
  tiles_cover _ _ _ (coverage_total hc s hg wf r) j (Nat.zero_le _) hj

/-! ## 4. the loader accepts what is exported — once, and after any history -/

/-- encrypted and plain containers, PCK of any size, access rights 0..3, SHA-256 and SHA-384 containers: the
    loader accepts the export and returns exactly the header values and the commands of the object -/
theorem rom_accepts (hc : CryptoLaws c) (s : ObjState) (hg : Good c s) (wf : StateWF c s)
    (dev : Dev) (obs : List SigOb) (hd : DevOK c dev s obs) (r : Rand) :
    romLoad c dev (exportSb c s r).2 =
      .ok ⟨hdrSpec s, s.cmds, obs ++ [⟨s.cfg.hashLen, c.pubOf s.cfg.sk, signedOf c s, sigOf c s r⟩]⟩ :=
  romLoad_export hc s hg wf dev obs hd r

/-- what a history of `add_command` / `export` calls leaves behind: the configuration and the derived keys are
    untouched and the command list is the old one plus the added commands (in particular: nothing an export
    stores influences later behaviour) -/
theorem history_frame (c : CryptoOps) (s : ObjState) (ops : List Op) :
    (run c s ops).cfg = s.cfg ∧ (run c s ops).keyLen = s.keyLen ∧ (run c s ops).kdk = s.kdk ∧
    (run c s ops).cmds = s.cmds ++ addsOf ops := run_frame c ops s

/-- HISTORY: after ANY sequence of `add_command` and `export` calls on one object, the next export is accepted
    and decodes to the object's configuration and its current command list -/
theorem history (hc : CryptoLaws c) (s : ObjState) (hg : Good c s) (ops : List Op)
    (wf : StateWF c (run c s ops)) (dev : Dev) (obs : List SigOb) (hd : DevOK c dev (run c s ops) obs) (r : Rand) :
    ∃ ob, romLoad c dev (exportSb c (run c s ops) r).2 = .ok ⟨hdrSpec (run c s ops), s.cmds ++ addsOf ops, ob⟩ := by
  have h := romLoad_export hc _ (run_good s hg ops) wf dev obs hd r
  rw [(run_frame c ops s).2.2.2] at h
  exact ⟨_, h⟩

/-- the clause the property adds over golden tests: export the same object n+1 times — the last file is accepted
    and decodes to the same header values and commands as the first (induction over the history inside `run_frame`) -/
theorem history_exports (hc : CryptoLaws c) (s : ObjState) (hg : Good c s) (wf : StateWF c s)
    (dev : Dev) (obs : List SigOb) (hd : DevOK c dev s obs) (rs : List Rand) (r : Rand) :
    ∃ ob, romLoad c dev (exportSb c (run c s (rs.map Op.exp)) r).2 = .ok ⟨hdrSpec s, s.cmds, ob⟩ := by
  have hadds : addsOf (rs.map Op.exp) = [] := by induction rs with
    | nil => rfl
    | cons x xs ih => simpa [addsOf] using ih
  obtain ⟨h1, h2, h3, h4⟩ := run_frame c (rs.map Op.exp) s
  rw [hadds, List.append_nil] at h4
  have wf' : StateWF c (run c s (rs.map Op.exp)) :=
    ⟨by rw [h4]; exact wf.cmds, by rw [h4]; exact wf.size, by rw [h1]; exact wf.flags, by rw [h1]; exact wf.fwVersion,
     by rw [h1]; exact wf.timestamp, by rw [h1]; exact wf.cert, by rw [h1]; exact wf.sigLen⟩
  have hd' : DevOK c dev (run c s (rs.map Op.exp)) obs :=
    ⟨by rw [h1]; exact hd.pck, by rw [h1]; exact hd.rights, by rw [h1]; exact hd.encrypted, by rw [h1]; exact hd.cert⟩
  obtain ⟨ob, h⟩ := history hc s hg (rs.map Op.exp) wf' dev obs hd' r
  refine ⟨ob, ?_⟩
  rw [h, hadds, List.append_nil]
  have : hdrSpec (run c s (rs.map Op.exp)) = hdrSpec s := by simp only [hdrSpec, h1, h4]
  rw [this]

/-! ## 5. one signature authenticates the whole file (reductions to an explicit break, no idealised axiom) -/

/-- two byte strings that the hash-chain walk accepts from the same anchor (block count, first block number,
    expected hash of the first block — all inside the signed range) are equal, or a SHA collision is exhibited -/
theorem chain_binding (c : CryptoOps) (alg : HashAlg) (hl : Nat) (dec : Nat → Sb31.Bytes → Sb31.Bytes)
    (k i : Nat) (expected rest₁ rest₂ out₁ out₂ : Sb31.Bytes)
    (h₁ : walk c alg hl dec k i expected rest₁ = .ok out₁) (h₂ : walk c alg hl dec k i expected rest₂ = .ok out₂) :
    rest₁ = rest₂ ∨ Break c := walk_binding c alg hl dec k i expected rest₁ rest₂ out₁ out₂ h₁ h₂

/-- keep block 0 of an exported file and replace, reorder, truncate or extend what follows: if the loader still
    accepts, nothing was changed — or a hash collision is exhibited -/
theorem tampered_blocks_refused (hc : CryptoLaws c) (s : ObjState) (hg : Good c s) (wf : StateWF c s)
    (dev : Dev) (obs : List SigOb) (hd : DevOK c dev s obs) (r : Rand) (rest' : Sb31.Bytes) (res : RomOk)
    (h : romLoad c dev (signedOf c s ++ (sigOf c s r ++ rest')) = .ok res) :
    signedOf c s ++ (sigOf c s r ++ rest') = (exportSb c s r).2 ∨ Break c := by
  rcases tamper_blocks_detected hc s hg wf dev obs hd r rest' res h with e | b
  · left; rw [e, exportSb_bytes _ _ _ hg.hl]; simp [signedOf, List.append_assoc]
  · right; exact b

/-- the loader accepts a file only on the strength of ONE signature check whose message is exactly the prefix of
    the file that ends where the signature field begins (header ‖ hash of block 1 ‖ certificate block) -/
theorem accepted_manifest_signed (c : CryptoOps) (dev : Dev) (file : Sb31.Bytes) (res : RomOk)
    (h : romLoad c dev file = .ok res) :
    ∃ ob, res.obligations.getLast? = some ob ∧ ob.msg = file.take (res.hdr.totalLength - 2 * ob.coord) ∧
      ob.sig.length = 2 * ob.coord ∧ file = ob.msg ++ (ob.sig ++ file.drop res.hdr.totalLength) ∧
      c.verify (.ecdsa (algOfCoord ob.coord)) ob.pub ob.msg ob.sig = true := by
  obtain ⟨b0, hb0, hh, hobs⟩ := romLoad_inv c dev file res h
  obtain ⟨pub, sig, obs', hob, hver, hlen, hsplit, hpl, h2⟩ := parseBlock0_inv c dev.rotkh file b0 hb0
  refine ⟨⟨b0.hl, pub, file.take (b0.hdr.totalLength - 2 * b0.hl), sig⟩, ?_, by rw [hh], hlen, ?_, hver⟩
  · rw [hobs, hob]; simp
  · dsimp only
    have hd : file.drop res.hdr.totalLength = b0.rest := by
      rw [hh]
      conv => lhs; rw [hsplit, ← List.append_assoc]
      apply List.drop_left'
      simp only [List.length_append, hpl, hlen]; omega
    rw [hd]; exact hsplit

/-- ONE SIGNATURE AUTHENTICATES THE WHOLE FILE: any file the loader accepts on the strength of the genuine
    signature of an export (same signing key, same bytes in its signature field) IS that export — otherwise a
    signature forgery (another manifest verifying under the old signature) or a hash collision (another data
    block with the expected digest) is exhibited.  Completes `chain_binding` / `tampered_blocks_refused`. -/
theorem whole_file_authenticated (hc : CryptoLaws c) (s : ObjState) (hg : Good c s) (wf : StateWF c s)
    (dev : Dev) (obs : List SigOb) (hd : DevOK c dev s obs) (r : Rand) (file' : Sb31.Bytes) (res : RomOk)
    (h : romLoad c dev file' = .ok res) (ob : SigOb) (hlast : res.obligations.getLast? = some ob)
    (hkey : ob.pub = c.pubOf s.cfg.sk) (hsig : ob.sig = sigOf c s r) :
    file' = (exportSb c s r).2 ∨ Break c :=
  whole_file_bound hc s hg wf dev obs hd r file' res h ob hlast hkey hsig

/-! ## 6. end to end with the certificate block of the C03 model (discharges `DevOK.cert`) -/

/-- the certificate block is no longer opaque: when it is the export of a well-formed C03 certificate block v2.1
    (`CertBlock.bytesV21 cb`, i.e. `CertBlockV21.export()` by C03's correspondence) whose signer (ISK if present,
    else the used root key) is the container's signing key, and the device fuses hold the hash of its root key
    record, the loader accepts the container — for every history -/
theorem rom_accepts_cert_model (hc : CryptoLaws c) (s : ObjState) (hg : Good c s) (ops : List Op)
    (wf : StateWF c (run c s ops)) (dev : Dev) (r : Rand)
    {pointOk : Sb31.Bytes → Bool} {ca : Bool} {used : Nat} {cv : Spec.Curve} {cb : CertBlock.CertBlockV21}
    (wfc : CertBlock.WFv21 c pointOk ca used cv cb) (rwf : CertBlock.RomWF c used cv cb)
    (hisk : ∀ i, cb.isk = some i → c.verify (.ecdsa cv.hashAlg) cb.rkr.rootPublicKey
      (CertBlock.rkrBytes cb.rkr ++ CertBlock.iskSignedPart i) i.signature = true)
    (hcert : s.cfg.cert = CertBlock.bytesV21 cb)
    (hsigner : CertBlock.signerOf cv cb = (c.pubOf s.cfg.sk, s.cfg.hashLen))
    (hpck : dev.pck = s.cfg.pck) (hrights : dev.rights = s.cfg.rights) (henc : dev.encrypted = s.cfg.encrypted)
    (hrot : dev.rotkh = CertBlock.rotkhOfRecord c cv cb.rkr) :
    CertBlock.exportV21Block cb = .ok s.cfg.cert ∧
    ∃ ob, romLoad c dev (exportSb c (run c s ops) r).2 = .ok ⟨hdrSpec (run c s ops), s.cmds ++ addsOf ops, ob⟩ := by
  refine ⟨by rw [hcert]; exact CertBlock.exportV21Block_ok wfc, ?_⟩
  have hcfg := (run_frame c ops s).1
  have hrc := CertBlock.sb31_romCert_accepts wfc rwf hisk
  rw [hsigner] at hrc
  exact history hc s hg ops wf dev _
    ⟨by rw [hcfg]; exact hpck, by rw [hcfg]; exact hrights, by rw [hcfg]; exact henc,
     by rw [hcfg, hcert, hrot]; exact hrc⟩ r

/-! ## 7. the loader is total with guaranteed progress (no input can make it loop) -/

/-- every command the decoder accepts consumes at least its 16-byte header (an unknown tag, a zero tag included, is refused with
    `cmdTag`; a declared data length beyond the remaining bytes with `truncated`) -/
theorem decoder_progress (b rest : Sb31.Bytes) (cmd : Cmd) (h : parseCmd b = .ok (cmd, rest)) : rest.length + 16 ≤ b.length :=
  parseCmd_progress b rest cmd h

/-- the fuel of the command-sequence decoder never decides: one unit per 16 remaining bytes is enough, and the loader gives one unit
    per byte (`parseCmds body.length body`), so the number of steps is bounded by the number of bytes of the section -/
theorem decoder_fuel_suffices (f k : Nat) (b : Sb31.Bytes) (hb : b.length ≤ 16 * f) : parseCmds (f + k) b = parseCmds f b :=
  parseCmds_fuel_suffices f k b hb

/-! ## 8. phase 3: KDF call sites, key substitution, header round trip, `validate()`, `export(cert_block=…)`, every command class -/

/-- the arguments `KeyDerivator` passes at its two call sites, generated by EXECUTING `KeyDerivator.__init__` and `get_block_key` for
    every accepted access-rights value and key length: the configured access rights and key length reach BOTH derivations unchanged;
    the KDK is derived from (PCK, timestamp) in mode 1, a block key from (KDK, block number) in mode 2 -/
theorem kdf_call_sites_agree (pck kdk : Sb31.Bytes) (ts n keyLen rights : Nat) :
    Sb31Consts.kdkCall pck ts keyLen rights = (pck, ts, rights, 1, keyLen) ∧
    Sb31Consts.blkCall kdk n keyLen rights = (kdk, n, rights, 2, keyLen) := ⟨rfl, rfl⟩

/-- the derivation data the code builds IS the documented layout, for all four access-rights values, both key lengths, both modes and
    every derivation constant / counter; the access rights sit in byte 20 as `rights << 6` -/
theorem kdf_layout_documented (const rights : Nat) (blk : Bool) (keyBits iter : Nat) (hr : rights < 4)
    (hk : keyBits = 128 ∨ keyBits = 256) :
    Sb31Consts.kdfData const rights (if blk then Sb31Consts.kdfModeBlk else Sb31Consts.kdfModeKdk) keyBits iter =
      kdfInput const rights blk keyBits iter ∧
    (kdfInput const rights blk keyBits iter)[20]? = some (UInt8.ofNat (rights * 64)) ∧
    (kdfInput const rights blk keyBits iter).length = 32 := by
  refine ⟨(kdfInput_eq const rights blk keyBits iter hr hk).symm, ?_, ?_⟩
  · have h12 : (leEnc 12 const).length = 12 := leEnc_length 12 const
    simp [kdfInput, List.getElem?_append_right, h12, zeros]
  · simp [kdfInput, leEnc_length, beEnc_length, zeros]

/-- ACCESS RIGHTS REACH EVERY KEY: the KDK of a constructed encrypted object and the key of every block are the documented KDF under the
    object's `kdk_access_rights`, whichever of the four values it is (constructor and `get_block_key` through the generated call sites) -/
theorem access_rights_reach_every_key (c : CryptoOps) (cfg : Cfg) (s : ObjState) (h : newObj c cfg = .ok s)
    (he : cfg.encrypted = true) (n : Nat) :
    cfg.rights < 4 ∧
    s.kdk = kdf c cfg.pck cfg.timestamp cfg.rights false (keyBitsOf cfg.hashLen) ∧
    blockKey c s n = kdf c s.kdk n cfg.rights true (keyBitsOf cfg.hashLen) := by
  obtain ⟨hg, hcfg, _⟩ := newObj_good c cfg s h
  have he' : s.cfg.encrypted = true := by rw [hcfg]; exact he
  have hr := hg.rights he'
  refine ⟨by rw [← hcfg]; exact hr, ?_, ?_⟩
  · rw [hg.kdk he', hg.keyLen, kdf_eq c _ _ _ false _ (by rw [← hcfg]; exact hr) (keyBitsOf_cases _), hcfg]; rfl
  · rw [kdf_eq c _ _ _ true _ (by rw [← hcfg]; exact hr) (keyBitsOf_cases _), ← hcfg, ← hg.keyLen]; rfl

/-- what is left of `whole_file_authenticated` when the loader used ANOTHER signing key: the file carries a different certificate block,
    which the loader accepted against the SAME fused root-of-trust hash and which names that other key, and the genuine signature
    bytes verify under that other key -/
structure KeySubstitution (c : CryptoOps) (dev : Dev) (s : ObjState) (r : Rand) (file' : Sb31.Bytes) (ob : SigOb) : Prop where
  otherKey : ob.pub ≠ c.pubOf s.cfg.sk
  certified : ∃ (p h1 cert rest : Sb31.Bytes) (ci : CertInfo) (obs : List SigOb),
    file' = p ++ (h1 ++ (cert ++ rest)) ∧ p.length = 60 ∧ h1.length = ob.coord ∧
    romCert c dev.rotkh cert = .ok (ci, obs) ∧ ci.signPub = ob.pub ∧ cert ≠ s.cfg.cert
  verifies : c.verify (.ecdsa (algOfCoord ob.coord)) ob.pub ob.msg (sigOf c s r) = true

/-- ONE SIGNATURE AUTHENTICATES THE WHOLE FILE, without the 'same signing key' hypothesis: a file the loader accepts with the signature
    bytes of an export in its signature field IS that export, or a forgery / collision is exhibited, or it is a KEY SUBSTITUTION in the
    precise sense of `KeySubstitution` (another certificate block accepted against the same fuses) -/
theorem whole_file_authenticated_any_key (hc : CryptoLaws c) (s : ObjState) (hg : Good c s) (wf : StateWF c s)
    (dev : Dev) (obs : List SigOb) (hd : DevOK c dev s obs) (r : Rand) (file' : Sb31.Bytes) (res : RomOk)
    (h : romLoad c dev file' = .ok res) (ob : SigOb) (hlast : res.obligations.getLast? = some ob)
    (hsig : ob.sig = sigOf c s r) :
    file' = (exportSb c s r).2 ∨ Break c ∨ KeySubstitution c dev s r file' ob := by
  by_cases hkey : ob.pub = c.pubOf s.cfg.sk
  · rcases whole_file_bound hc s hg wf dev obs hd r file' res h ob hlast hkey hsig with e | b
    · exact Or.inl e
    · exact Or.inr (Or.inl b)
  · right; right
    obtain ⟨b0, hb0, _, hobs⟩ := romLoad_inv c dev file' res h
    obtain ⟨p, h1, cert, sig, ci, obs', e, lp, lh1, _, _, hrc, _, hob, hver, _, _⟩ := parseBlock0_inv_cert c dev.rotkh file' b0 hb0
    rw [hobs, hob, getLast_append_single] at hlast
    injection hlast with hlast
    subst hlast
    dsimp only at hkey hsig ⊢
    refine ⟨hkey, ⟨p, h1, cert, sig ++ b0.rest, ci, obs', e, lp, lh1, hrc, rfl, ?_⟩, by rw [← hsig]; exact hver⟩
    intro hce
    rw [hce, hd.cert] at hrc
    injection hrc with hrc
    injection hrc with hci _
    exact hkey (by rw [← hci])

/-- connection with C03: when both certificate blocks of a key substitution are well-formed exported `CertBlockV21`s of the C03 model, the
    substitute commits to the SAME root-of-trust hash as the genuine one (C03 `sb31_romCert_ok_rot`; by C03 `rot_binding_v21` that is the
    same root key table or a hash collision) — so the other signing key is a key certified under the same root keys (a re-issued ISK
    certificate or another root of the table), never a key from outside the root of trust -/
theorem key_substitution_same_root_of_trust (dev : Dev)
    {pointOk pointOk' : Sb31.Bytes → Bool} {ca ca' : Bool} {used used' : Nat} {cv cv' : Spec.Curve} {cb cb' : CertBlock.CertBlockV21}
    (wfc : CertBlock.WFv21 c pointOk ca used cv cb) (rwf : CertBlock.RomWF c used cv cb)
    (hisk : ∀ i, cb.isk = some i → c.verify (.ecdsa cv.hashAlg) cb.rkr.rootPublicKey
      (CertBlock.rkrBytes cb.rkr ++ CertBlock.iskSignedPart i) i.signature = true)
    (wfc' : CertBlock.WFv21 c pointOk' ca' used' cv' cb') (rwf' : CertBlock.RomWF c used' cv' cb')
    (hisk' : ∀ i, cb'.isk = some i → c.verify (.ecdsa cv'.hashAlg) cb'.rkr.rootPublicKey
      (CertBlock.rkrBytes cb'.rkr ++ CertBlock.iskSignedPart i) i.signature = true)
    (x x' : CertInfo × List SigOb)
    (hacc : romCert c dev.rotkh (CertBlock.bytesV21 cb) = .ok x) (hacc' : romCert c dev.rotkh (CertBlock.bytesV21 cb') = .ok x') :
    CertBlock.rotkhOfRecord c cv' cb'.rkr = CertBlock.rotkhOfRecord c cv cb.rkr := by
  rw [← CertBlock.sb31_romCert_ok_rot wfc rwf hisk dev.rotkh x hacc, ← CertBlock.sb31_romCert_ok_rot wfc' rwf' hisk' dev.rotkh x' hacc']

/-- HEADER ROUND TRIP for all values: every header whose fields fit their struct codes (flags, block count, block size, 64-bit timestamp,
    firmware version, total length, image type, certificate block offset, 16 description bytes) is read back exactly, with the rest -/
theorem header_roundtrip (h : Header) (wf : HeaderWF h) (rest : Sb31.Bytes) :
    parseHeader (encHeader h ++ rest) = .ok (h, rest) ∧ (encHeader h).length = 60 :=
  ⟨parseHeader_enc h wf rest, encHeader_length h wf.description⟩

/-- the header of EVERY export reads back as the object's configuration: flags, timestamp, firmware version, image type and the
    description padded / truncated to 16 bytes, block count and total length as computed from the commands and the certificate block -/
theorem exported_header_roundtrip (_hc : CryptoLaws c) (s : ObjState) (hg : Good c s) (wf : StateWF c s) (r : Rand) :
    ∃ rest, parseHeader (exportSb c s r).2 = .ok (hdrSpec s, rest) ∧
      (hdrSpec s).flags = s.cfg.flags ∧ (hdrSpec s).timestamp = s.cfg.timestamp ∧ (hdrSpec s).fwVersion = s.cfg.fwVersion ∧
      (hdrSpec s).imageType = (if s.cfg.isNxp then 7 else 6) ∧ (hdrSpec s).description = adjustDesc s.cfg.description := by
  rw [exportSb_bytes c s r hg.hl]
  exact ⟨_, parseHeader_enc _ (hdrSpec_wf s hg wf) _, rfl, rfl, rfl, rfl, rfl⟩

/-- `_adjust_description`: always 16 bytes; shorter descriptions are zero padded, longer ones cut after 16 bytes -/
theorem description_adjusted (d : Sb31.Bytes) :
    (adjustDesc d).length = 16 ∧ (d.length ≤ 16 → adjustDesc d = d ++ zeros (16 - d.length)) ∧
    (16 ≤ d.length → adjustDesc d = d.take 16) := by
  refine ⟨adjustDesc_length d, fun h => ?_, fun h => ?_⟩
  · simp [adjustDesc, Sb31Consts.descLen, List.take_of_length_le h]
  · have : (d.take 16).length = 16 := by simp; omega
    simp [adjustDesc, Sb31Consts.descLen, this, zeros]

/-- the header layout and the description adjustment EXECUTED from the source by the generator (marker values in every field; the
    descriptions "", "A", "AB", … up to 20 characters) are what the model computes -/
theorem header_layout_executed :
    encHeader ⟨0xA1A2A3A4, 0xB1B2B3B4, Sb31Consts.blockSize 32, 0xC1C2C3C4C5C6C7C8, 0xD1D2D3D4, 0xE1E2E3E4, 6,
      Sb31Consts.certBlockOffset 32, (List.range 16).map (fun i => UInt8.ofNat (0x30 + i))⟩ = Sb31Consts.hdrSample ∧
    Sb31Consts.descTable.length = 21 ∧
    ∀ p ∈ Sb31Consts.descTable, adjustDesc ((List.range p.1).map (fun i => UInt8.ofNat (0x41 + i))) = p.2 := by decide

/-- `validate()` lets `export()` proceed only when the signature provider holds the key the certificate block names -/
theorem export_validates_signer (c : CryptoOps) (certSigner : Sb31.Bytes) (s : ObjState) (ov : Option Sb31.Bytes) (r : Rand) :
    (c.pubOf s.cfg.sk ≠ certSigner → exportFull c certSigner s ov r = .error .spsdk) ∧
    (∀ out, exportFull c certSigner s ov r = .ok out → c.pubOf s.cfg.sk = certSigner ∧ out = exportOv c s ov r) := by
  constructor
  · intro hne; simp [exportFull, validateSb, hne]
  · intro out h
    unfold exportFull validateSb at h
    split at h
    · cases h
    · rename_i hv
      split at hv
      · rename_i hk
        split at h
        · injection h with h; exact ⟨hk.1, h.symm⟩
        · cases h
      · cases hv

/-- … and on every constructed object the header part of `validate()` never fires (block size 292/308, image type 6/7, total length
    ≥ the header size after any history, description of 16 bytes) -/
theorem validate_header_passes (c : CryptoOps) (cfg : Cfg) (s : ObjState) (h : newObj c cfg = .ok s) (ops : List Op) :
    validateHdr (run c s ops) = true := by
  obtain ⟨hg, _, _⟩ := newObj_good c cfg s h
  have hg' := run_good s hg ops
  have key : ∀ (ops : List Op) (t : ObjState), 60 ≤ t.totalLength → 60 ≤ (run c t ops).totalLength := by
    intro ops
    induction ops with
    | nil => intro t ht; exact ht
    | cons op ops ih =>
      intro t ht
      show 60 ≤ (run c (step c t op) ops).totalLength
      apply ih
      cases op with
      | add cmd => exact ht
      | exp r => simp only [step, exportSb, Sb31Consts.updTotalLength]; omega
  have h0 : 60 ≤ s.totalLength := by
    unfold newObj at h
    split at h
    · cases h
    · split at h
      · cases h
      · injection h with h; subst h; simp [Sb31Consts.initTotalLength]
  have htl := key ops s h0
  have hadj := adjustDesc_length (run c s ops).cfg.description
  rcases hg'.hl with h32 | h48
  · cases hn : (run c s ops).cfg.isNxp <;>
      simp [validateHdr, h32, hn, Sb31Consts.blockSize, Sb31Consts.imageTypeNxp, Sb31Consts.imageTypeOem, Sb31Consts.headerSize, htl, hadj]
  · cases hn : (run c s ops).cfg.isNxp <;>
      simp [validateHdr, h48, hn, Sb31Consts.blockSize, Sb31Consts.imageTypeNxp, Sb31Consts.imageTypeOem, Sb31Consts.headerSize, htl, hadj]

/-- `export(cert_block=…)`: `None` / `b""` is the plain export; an override of the SAME length is exactly the export of the object that
    owns that certificate block — so, when the loader accepts the override block for the signing key, the file is accepted and decodes
    to the object's commands (an override of another length leaves `image_total_length` computed from the object's own block) -/
theorem export_override (hc : CryptoLaws c) (s : ObjState) (hg : Good c s) (ov : Sb31.Bytes) (r : Rand) (hne : ov ≠ [])
    (hlen : ov.length = s.cfg.cert.length) (wf : StateWF c (withCert s ov))
    (dev : Dev) (obs : List SigOb) (hd : DevOK c dev (withCert s ov) obs) :
    exportOv c s none r = exportSb c s r ∧ exportOv c s (some []) r = exportSb c s r ∧
    ∃ ob, romLoad c dev (exportOv c s (some ov) r).2 = .ok ⟨hdrSpec (withCert s ov), s.cmds, ob⟩ := by
  refine ⟨rfl, rfl, ?_⟩
  rw [exportOv_same_length c s ov r hne hlen]
  exact ⟨_, romLoad_export hc (withCert s ov) (good_withCert hg ov) wf dev obs hd r⟩

/- FULL-STRENGTH clause (false on the current tree, finding C05-override-length, proposed_fixes/C05-4.diff):
     theorem export_override_any_length … (wf : StateWF c (withCert s ov)) (hd : DevOK c dev (withCert s ov) obs) :
       ∃ ob, romLoad c dev (exportOv c s (some ov) r).2 = .ok ⟨hdrSpec (withCert s ov), s.cmds, ob⟩
   without `hlen`.  What holds instead is `export_override` (same length) and the refusal below. -/

/-- CURRENT BEHAVIOUR of `export(cert_block=ov)` when the override has ANOTHER length than the object's own certificate block:
    `image_total_length` still counts the object's own block, the header does not describe block 0, and NO device accepts the file -/
theorem export_override_other_length_refused (hc : CryptoLaws c) (s : ObjState) (hg : Good c s) (wf : StateWF c s)
    (ov : Sb31.Bytes) (r : Rand) (hne : ov ≠ []) (hlen : ov.length ≠ s.cfg.cert.length) (dev : Dev) (res : RomOk) :
    romLoad c dev (exportOv c s (some ov) r).2 ≠ .ok res :=
  exportOv_other_length_refused hc s hg wf ov r hne hlen dev res

/-- EVERY COMMAND CLASS IS COVERED, checked mechanically: the concrete command classes of commands.py (generated: descendants of
    `BaseCmd` without subclasses) are exactly the 14 classes with a generated tag, each is the class of one constructor of `Cmd`, and
    that constructor exports the tag the class passes — `cmd31_roundtrip` is stated for every `Cmd`, hence for every class -/
theorem every_command_class_covered :
    Sb31Consts.cmdLeafClasses = Sb31Consts.classTags.map (·.1) ∧
    cmdKinds.map Cmd.className = ["CmdErase", "CmdLoad", "CmdExecute", "CmdCall", "CmdProgFuses", "CmdProgIfr", "CmdLoadCmac", "CmdCopy",
      "CmdLoadHashLocking", "CmdLoadKeyBlob", "CmdConfigureMemory", "CmdFillMemory", "CmdFwVersionCheck", "CmdReset"] ∧
    (∀ cls ∈ Sb31Consts.cmdLeafClasses, ∃ cmd ∈ cmdKinds, cmd.className = cls) ∧
    (∀ cmd ∈ cmdKinds, (cmd.className, tagWord (encCmd cmd)) ∈ Sb31Consts.classTags ∧ cmd.wf = true) := by decide

/-- constructor + `export()` of EVERY command class, executed from the source by the generator on marker arguments (every field a
    distinct byte pattern, data that needs padding), is byte for byte what the model's encoder gives for the same arguments -/
theorem command_exports_executed :
    Sb31Consts.cmdSamples = sampleCmds.map (fun cmd => (cmd.className, encCmd cmd)) ∧
    sampleCmds.map Cmd.className = Sb31Consts.cmdLeafClasses ∧ sampleCmds.all Cmd.wf = true := by decide

/-- … hence the loader reads every executed export back as the constructor's arguments -/
theorem executed_exports_parse_back :
    ∀ p ∈ Sb31Consts.cmdSamples, ∃ cmd ∈ sampleCmds, cmd.className = p.1 ∧ parseCmd p.2 = .ok (cmd, []) := by
  rw [command_exports_executed.1]
  intro p hp
  simp only [List.mem_map] at hp
  obtain ⟨cmd, hm, rfl⟩ := hp
  refine ⟨cmd, hm, rfl, ?_⟩
  have hwf : cmd.wf = true := (List.all_eq_true.mp command_exports_executed.2.2) cmd hm
  simpa using cmd31_roundtrip cmd hwf []

/-- the tag word does not depend on the field values: every command exports the tag of its class -/
theorem command_tag_of_class (cmd : Cmd) : (cmd.className, tagWord (encCmd cmd)) ∈ Sb31Consts.classTags := by
  cases cmd <;>
    simp [Cmd.className, tagWord, encCmd, loadLike, baseHdr, words4, zeroPad, u32, u16, Sb31Consts.classTags, Sb31Consts.loadAlign,
      Sb31Consts.keyBlobAlign, leEnc_length, List.drop_append, List.take_append] <;>
    simp [List.drop_eq_nil_of_le, List.take_of_length_le, leEnc_length] <;> decide


/-! ## non-vacuity: the hypotheses are satisfiable by a concrete, non-trivial container -/

/-- a toy instance of the primitives (identity "cipher" on 16-byte blocks, constant hash, constant signatures);
    it satisfies `CryptoLaws`, which is all the theorems use -/
def norm16 (b : Sb31.Bytes) : Sb31.Bytes := (b ++ zeros 16).take 16

def toyOps : CryptoOps where
  hash := fun a _ => zeros a.size
  encBlk := fun _ b => norm16 b
  decBlk := fun _ b => norm16 b
  sm4Enc := fun _ b => b
  sm4Dec := fun _ b => b
  sign := fun a _ _ _ => match a with | .ecdsa h => zeros (2 * h.size) | _ => []
  verify := fun _ _ _ _ => true
  pubOf := fun sk => sk

theorem norm16_length (b : Sb31.Bytes) : (norm16 b).length = 16 := by simp [norm16, zeros]
theorem norm16_id (b : Sb31.Bytes) (h : b.length = 16) : norm16 b = b := by
  simp [norm16, List.take_append_of_le_length (Nat.le_of_eq h.symm), List.take_of_length_le (Nat.le_of_eq h)]

theorem toyLaws : CryptoLaws toyOps where
  dec_enc := fun _ b h => by simp [toyOps, norm16_id b h]
  enc_dec := fun _ b h => by simp [toyOps, norm16_id b h]
  enc_len := fun _ b => norm16_length b
  dec_len := fun _ b => norm16_length b
  hash_len := fun a _ => by simp [toyOps, zeros]
  verify_sign := fun _ _ _ _ => rfl

/-- a root public key (64 bytes), a CA certificate block over it, and a container with 5 commands of 5 kinds -/
def exRootPub : Sb31.Bytes := List.replicate 64 7
def exCert : Sb31.Bytes := [0x63, 0x68, 0x64, 0x72, 1, 0, 2, 0, 80, 0, 0, 0, 0x11, 0, 0, 0x80] ++ exRootPub
def exCfg : Cfg :=
  { hashLen := 32, fwVersion := 3, flags := 0, timestamp := 0x1234, description := [0x61, 0x62], isNxp := false,
    encrypted := true, pck := List.replicate 32 1, rights := 3, cert := exCert, sk := exRootPub }
def exCmds : List Cmd :=
  [.erase 0 4096 0, .load 0x100 [1, 2, 3, 4, 5] 0, .progFuses 8 [1, 0, 0, 0], .loadKeyBlob 4 [9, 9, 9] 16, .reset]
def exDev : Dev := ⟨List.replicate 32 1, 3, true, zeros 32⟩

example : exCmds.all Cmd.wf = true := by decide

/-- the object after some earlier exports: the mutable members hold stale values -/
def exState : ObjState :=
  { cfg := exCfg, cmds := exCmds, keyLen := 128,
    kdk := deriveKey toyOps exCfg.pck exCfg.timestamp exCfg.rights Sb31Consts.kdfModeKdk 128,
    blockCount := 7, totalLength := 12345, finalHash := [1, 2, 3] }

theorem exGood : Good toyOps exState :=
  ⟨Or.inl rfl, rfl, fun _ => by decide, fun _ => rfl⟩

theorem exWF : StateWF toyOps exState :=
  ⟨by decide, by rw [cmdBytes_length]; decide, by decide, by decide, by decide, by decide, fun _ _ => by simp [toyOps, sigAlgOf, exState, exCfg, hashAlgOf, HashAlg.size, zeros]⟩

theorem exDevOK : DevOK toyOps exDev exState [] :=
  ⟨rfl, rfl, rfl, by decide⟩

/-- three exports in a row of the example object: the third file is accepted and decodes to the 5 commands -/
example : ∃ ob, romLoad toyOps exDev (exportSb toyOps (run toyOps exState [.exp [], .exp [1]]) [2]).2 =
    .ok ⟨hdrSpec exState, exCmds, ob⟩ :=
  history_exports toyLaws exState exGood exWF exDev [] exDevOK [[], [1]] [2]

example : (hdrSpec exState).blockCount = 1 ∧ (hdrSpec exState).totalLength = 236 := by decide

/-- every one of the 14 kinds is in the domain of `cmd31_roundtrip` with non-trivial field values -/
example : [Cmd.erase 0 4096 1, .load 0x100 [1, 2, 3] 2, .execute 0xFFFFFFFF, .call 8, .progFuses 16 [1, 2, 3, 4],
    .progIfr 32 [5], .loadCmac 64 [6, 7] 0, .copy 1 2 3 4 5, .loadHashLocking 128 [8] 0, .loadKeyBlob 0xFFFF [9] 0xFFFF,
    .configureMemory 0x2000 9, .fillMemory 0 64 0xA5A5A5A5, .fwVersionCheck 7 2, .reset].all Cmd.wf = true := by decide

example : parseCmd (encCmd (.loadKeyBlob 0xFFFF [9] 0xFFFF) ++ [0xAA]) = .ok (.loadKeyBlob 0xFFFF [9] 0xFFFF, [0xAA]) :=
  cmd31_roundtrip _ (by decide) _

/-! ### non-vacuity of the phase-3 theorems -/

example : Sb31Consts.kdfData 0x1234 2 Sb31Consts.kdfModeBlk 256 2 = kdfInput 0x1234 2 true 256 2 :=
  (kdf_layout_documented 0x1234 2 true 256 2 (by decide) (Or.inr rfl)).1

/-- all four access-rights values give four different context bytes (0x00, 0x40, 0x80, 0xC0) -/
example : [0, 1, 2, 3].map (fun r => (Sb31Consts.kdfData 7 r 1 128 1)[20]?) = [some 0x00, some 0x40, some 0x80, some 0xC0] := by decide

/-- an encrypted object with access rights 1 (not the default 3) is constructed, and its keys follow the documented KDF -/
example : ∃ s, newObj toyOps { exCfg with rights := 1 } = .ok s ∧
    blockKey toyOps s 5 = kdf toyOps s.kdk 5 1 true 128 := by
  refine ⟨_, rfl, ?_⟩
  exact (access_rights_reach_every_key toyOps { exCfg with rights := 1 } _ rfl rfl 5).2.2

/-- `whole_file_authenticated_any_key` applies to the export itself -/
example : (exportSb toyOps exState [2]).2 = (exportSb toyOps exState [2]).2 ∨ Break toyOps ∨
    KeySubstitution toyOps exDev exState [2] (exportSb toyOps exState [2]).2
      ⟨exState.cfg.hashLen, toyOps.pubOf exState.cfg.sk, signedOf toyOps exState, sigOf toyOps exState [2]⟩ :=
  whole_file_authenticated_any_key toyLaws exState exGood exWF exDev [] exDevOK [2] _ _
    (rom_accepts toyLaws exState exGood exWF exDev [] exDevOK [2]) _ (by simp) rfl

/-- the hypotheses of `key_substitution_same_root_of_trust` are those of `rom_accepts_cert_model`, twice (C03 exhibits a well-formed block) -/
example (dev : Dev) {pointOk : Sb31.Bytes → Bool} {ca : Bool} {used : Nat} {cv : Spec.Curve} {cb : CertBlock.CertBlockV21}
    (wfc : CertBlock.WFv21 c pointOk ca used cv cb) (rwf : CertBlock.RomWF c used cv cb)
    (hisk : ∀ i, cb.isk = some i → c.verify (.ecdsa cv.hashAlg) cb.rkr.rootPublicKey
      (CertBlock.rkrBytes cb.rkr ++ CertBlock.iskSignedPart i) i.signature = true)
    (x : CertInfo × List SigOb) (hacc : romCert c dev.rotkh (CertBlock.bytesV21 cb) = .ok x) :
    CertBlock.rotkhOfRecord c cv cb.rkr = CertBlock.rotkhOfRecord c cv cb.rkr :=
  key_substitution_same_root_of_trust dev wfc rwf hisk wfc rwf hisk x x hacc hacc

example : HeaderWF (hdrSpec exState) := hdrSpec_wf exState exGood exWF

example : ∃ rest, parseHeader (exportSb toyOps exState [2]).2 = .ok (hdrSpec exState, rest) :=
  (exported_header_roundtrip toyLaws exState exGood exWF [2]).imp fun _ h => h.1

/-- a signature provider holding another key is refused; the right one exports -/
example : exportFull toyOps [1, 2, 3] exState none [2] = .error .spsdk ∧
    exportFull toyOps exRootPub exState none [2] = .ok (exportSb toyOps exState [2]) := by
  refine ⟨(export_validates_signer toyOps [1, 2, 3] exState none [2]).1 (by decide), ?_⟩
  have hv : validateSb toyOps exRootPub exState = .ok () := by decide
  have he : exportable exState = true := by rw [exportable, cmdBytes_length]; decide
  simp [exportFull, hv, he, exportOv_none]

/-- the override with the object's own certificate block bytes (non-empty, same length) -/
example : ∃ ob, romLoad toyOps exDev (exportOv toyOps exState (some exCert) [2]).2 = .ok ⟨hdrSpec exState, exCmds, ob⟩ :=
  (export_override toyLaws exState exGood exCert [2] (by decide) rfl exWF exDev [] exDevOK).2.2

/-- an override one byte longer than the object's own block: refused by every device -/
example (res : RomOk) : romLoad toyOps exDev (exportOv toyOps exState (some (exCert ++ [0])) [2]).2 ≠ .ok res :=
  export_override_other_length_refused toyLaws exState exGood exWF (exCert ++ [0]) [2] (by decide) (by decide) exDev res

/-- why the constructor must refuse partial fuse words: the encoder stores `len(data) // 4`, so five data bytes
    would not come back (the loader reads one word) -/
theorem fuses_domain_needed :
    parseCmd (encCmd (.progFuses 0 [1, 2, 3, 4, 5])) ≠ .ok (.progFuses 0 [1, 2, 3, 4, 5], []) := by decide

end SpsdkVerif.C05
