/-
C05 — Secure Binary 3.1 (stub while the model is being validated against the implementation).
-/
import SpsdkVerif.Model.Sb31

namespace SpsdkVerif.C05
open SpsdkVerif SpsdkVerif.Sb31

theorem stub : Generated.Sb31Consts.headerSize = 60 := by decide

end SpsdkVerif.C05
