import SpsdkVerif.Generated.PyFuns
import SpsdkVerif.Model.Misc

namespace SpsdkVerif.C20
open SpsdkVerif SpsdkVerif.Generated.PyFuns

theorem align_err (n a : Int) : (a ≤ 0 ∨ n < 0) ↔ align n a = .error .spsdk := by
  unfold align
  constructor
  · intro h; simp [h]
  · intro h
    by_cases h1 : a ≤ 0
    · exact Or.inl h1
    · by_cases h2 : n < 0
      · exact Or.inr h2
      · simp [h1, h2] at h
        split at h <;> simp at h

end SpsdkVerif.C20
