/-
C20 — number parsing, alignment and byte-order helpers satisfy their contracts.

Only property theorems and non-vacuity examples live here; helper lemmas are in Proofs/Misc.lean.
Theorems about `Generated.PyFuns.*` are statements about bodies re-translated from /repo's
Python source on every run; theorems about `Misc.*` are about the hand model that the C20
correspondence sweep ties to the implementation.
-/
import SpsdkVerif.Generated.PyFuns
import SpsdkVerif.Model.Misc
import SpsdkVerif.Proofs.Misc

namespace SpsdkVerif.C20
open SpsdkVerif SpsdkVerif.Generated.PyFuns SpsdkVerif.Misc

/-! ## Generated integer helpers -/

/-- `align` refuses exactly a non-positive alignment or a negative number, with an SPSDK error. -/
theorem align_err (n a : Int) : (a ≤ 0 ∨ n < 0) ↔ align n a = .error .spsdk := by
  unfold align
  by_cases h : a ≤ 0 ∨ n < 0
  · simp [h]
  · have h3 : ¬ a = 0 := by omega
    simp [h, h3]

/-- otherwise it returns a multiple of the alignment, not below the input and less than one alignment above -/
theorem align_spec (n a : Int) (ha : 0 < a) (hn : 0 ≤ n) :
    ∃ r, align n a = .ok r ∧ a ∣ r ∧ n ≤ r ∧ r < n + a := by
  have h1 : ¬ a ≤ 0 := by omega
  have h2 : ¬ n < 0 := by omega
  have h3 : ¬ a = 0 := by omega
  -- evaluate the translated body to *whatever* closed form the current source has …
  obtain ⟨r, hr⟩ : ∃ r, align n a = .ok r := by simp [align, h1, h2, h3]
  refine ⟨r, hr, ?_⟩
  simp [align, h1, h2, h3, pyFloorDiv, Int.fdiv_eq_ediv_of_nonneg _ (Int.le_of_lt ha)] at hr
  subst hr
  -- … and reason about it through the division facts for the usual spellings of the numerator
  have e := Int.emod_add_mul_ediv (n + (a-1)) a
  have l := Int.emod_lt_of_pos (n + (a-1)) ha
  have g := Int.emod_nonneg (n + (a-1)) (Int.ne_of_gt ha)
  have e' := Int.emod_add_mul_ediv (n + a - 1) a
  have l' := Int.emod_lt_of_pos (n + a - 1) ha
  have g' := Int.emod_nonneg (n + a - 1) (Int.ne_of_gt ha)
  rw [Int.mul_comm] at e e'
  refine ⟨?_, ?_, ?_⟩
  · first
      | exact Int.dvd_mul_left _ _
      | exact Int.dvd_mul_right _ _
  all_goals first
    | omega
    | (rw [Int.mul_comm]; omega)

/-- … which is the smallest such value. -/
theorem align_least (n a m : Int) (ha : 0 < a) (hn : 0 ≤ n) (hm : a ∣ m) (hnm : n ≤ m) :
    ∃ r, align n a = .ok r ∧ r ≤ m := by
  obtain ⟨r, hr, ⟨k, hk⟩, h1, h2⟩ := align_spec n a ha hn
  refine ⟨r, hr, ?_⟩
  obtain ⟨j, hj⟩ := hm
  subst hk hj
  -- a*k < n + a ≤ a*j + a = a*(j+1) → k < j+1 → k ≤ j
  have : a * k < a * (j + 1) := by rw [Int.mul_add]; omega
  have : k < j + 1 := Int.lt_of_mul_lt_mul_left this (Int.le_of_lt ha)
  exact Int.mul_le_mul_of_nonneg_left (by omega) (Int.le_of_lt ha)

/-- range checks answer truthfully -/
theorem checkRange_iff (x lo hi : Int) : check_range x lo hi = .ok (decide (lo ≤ x ∧ x ≤ hi)) := by
  simp [check_range]

theorem swap16_err (x : Int) : (x < 0 ∨ x > 0xFFFF) ↔ swap16 x = .error .spsdk := by
  unfold swap16
  by_cases h : x < 0 ∨ x > 65535
  · simp [h]
  · simp [h]

/-- `swap16` exchanges the two bytes … -/
theorem swap16_spec (x : Int) (h0 : 0 ≤ x) (h1 : x ≤ 0xFFFF) :
    swap16 x = .ok (x % 256 * 256 + x / 256) := by
  obtain ⟨k, rfl⟩ := Int.eq_ofNat_of_zero_le h0
  have h : ¬ ((k : Int) < 0 ∨ (k : Int) > 65535) := by omega
  have hk : k < 65536 := by omega
  simp only [swap16, pyShl_nat, pyShr_nat, pyAnd_nat, pyOr_nat]
  simp [h]
  have := swap16_nat k hk
  rw [this]
  omega

/-- … and is an involution on its domain. -/
theorem swap16_invol (x : Int) (h0 : 0 ≤ x) (h1 : x ≤ 0xFFFF) :
    ∃ y, swap16 x = .ok y ∧ swap16 y = .ok x := by
  refine ⟨_, swap16_spec x h0 h1, ?_⟩
  rw [swap16_spec _ (by omega) (by omega)]
  congr 1
  omega

theorem sbAlign_spec (n : Int) (hn : 0 ≤ n) :
    ∃ r, sbAlign n = .ok r ∧ (16 : Int) ∣ r ∧ n ≤ r ∧ r < n + 16 := by
  obtain ⟨r, hr, hd, h1, h2⟩ := align_spec n 16 (by omega) hn
  exact ⟨r, by simp [sbAlign, hr], hd, h1, h2⟩

/-- `to_num_blocks` accepts exactly multiples of 16 and then returns the quotient. -/
theorem sbToNumBlocks_spec (n : Int) :
    sbToNumBlocks n = if n % 16 = 0 then .ok (n / 16) else .error .spsdk := by
  simp only [sbToNumBlocks, sbIsAligned, pyMod, pyFloorDiv]
  rw [Int.fmod_eq_emod_of_nonneg _ (by omega), Int.fdiv_eq_ediv_of_nonneg _ (by omega)]
  by_cases h : n % 16 = 0 <;> simp [h]

/-- device id / group id are independent fields of the memory id -/
theorem memId_roundtrip (d g : Int) (hd : 0 ≤ d ∧ d < 256) (hg : 0 ≤ g ∧ g < 16) :
    ∃ m, getMemoryId d g = .ok m ∧ getDeviceId m = .ok d ∧ getGroupId m = .ok g := by
  obtain ⟨d, rfl⟩ := Int.eq_ofNat_of_zero_le hd.1
  obtain ⟨g, rfl⟩ := Int.eq_ofNat_of_zero_le hg.1
  have := memId_nat d g (by omega) (by omega)
  refine ⟨_, rfl, ?_, ?_⟩
  · simp only [getDeviceId, pyShl_nat, pyShr_nat, pyAnd_nat, pyOr_nat]
    exact congrArg (fun n : Nat => (Except.ok (n : Int) : PyRes Int)) this.1
  · simp only [getGroupId, pyShl_nat, pyShr_nat, pyAnd_nat, pyOr_nat]
    exact congrArg (fun n : Nat => (Except.ok (n : Int) : PyRes Int)) this.2

/-! ## `value_to_int` against the documented grammar

The grammar, written independently of the model (split on `_`, no state machine):
after ASCII strip and lower-casing, `[0x|0b|0o] groups [suffix]` where `groups` are non-empty runs of
base digits separated by single `_`, and `suffix` is at most three characters of `u`/`l`.
(Recorded deviation inherited from Python's `int(·, 2)`: after a `0b` prefix the digits may carry a
second `0b` and one `_` directly after it, e.g. `0b0b_1 = 1`.) -/

def splitUs : List Char → List (List Char)
  | [] => [[]]
  | c :: cs =>
    if c == '_' then [] :: splitUs cs
    else match splitUs cs with
      | g :: gs => (c :: g) :: gs
      | [] => [[c]]

def ofDigits (base : Nat) (ds : List Char) : Nat := ds.foldl (fun acc c => acc * base + digitVal c) 0

/-- groups separated by single underscores, every group a non-empty run of digits `< base` -/
def groupsValue (base : Nat) (s : List Char) : Option Nat :=
  if (splitUs s).all (fun g => !g.isEmpty && g.all (fun c => digitVal c < base))
  then some (ofDigits base (s.filter (· != '_'))) else none

/-- the model's underscore state machine computes exactly the grammar's group value.
    (Statement adjusted: the leading-underscore guard sits on the `digitsValue` side, where `pyIntOf`
    has it.  The original `digitsValue base s false 0 = if s.head? = some '_' then none else groupsValue base s`
    is false for `s = "_1"`: `digitsValue 10 "_1" false 0 = some 1`, the state machine started with
    `prevUs = false` accepts a leading underscore, which is why `pyIntOf` tests it beforehand.) -/
theorem digitsValue_eq_groups (base : Nat) (s : List Char) (hs : s ≠ []) :
    (if s.head? = some '_' then none else digitsValue base s false 0) = groupsValue base s := by
  simp only [groupsValue, ofDigits]
  exact digitsValue_groups_gen splitUs rfl (fun _ _ => rfl) base s hs

/-- Documented number grammar on an already stripped, lower-cased string. -/
def numGrammar (t : List Char) : Option Nat :=
  let parse (base : Nat) (body : List Char) : Option (Option Nat) :=   -- none = structure mismatch
    let num := body.takeWhile isNumCh
    let suf := body.dropWhile isNumCh
    if num.isEmpty || suf.length > 3 || !suf.all isSufCh then none
    else
      let num' := if base == 2 then
          (match num with
           | '0' :: 'b' :: '_' :: r => r
           | '0' :: 'b' :: r => r
           | r => r) else num
      if num'.isEmpty || num'.head? = some '_' then some none else some (groupsValue base num')
  match t with
  | '0' :: 'x' :: rest => (match parse 16 rest with | some r => r | none => (parse 10 t).join)
  | '0' :: 'o' :: rest => (match parse 8 rest with | some r => r | none => (parse 10 t).join)
  | '0' :: 'b' :: rest => (match parse 2 rest with | some r => r | none => (parse 10 t).join)
  | _ => (parse 10 t).join

/-- A string is accepted exactly when it matches the grammar, and then has its mathematical value. -/
theorem valueToInt_eq_grammar (raw : List Char) (h : raw ≠ []) :
    valueToInt raw = numGrammar ((strip raw).map lowerCh) := by
  have he : raw.isEmpty = false := by cases raw <;> simp_all
  simp only [valueToInt, he, Bool.false_eq_true, if_false]
  generalize (strip raw).map lowerCh = t
  unfold numGrammar
  extract_lets parse
  have key : ∀ (base : Nat) (body : List Char),
      parse base body = (matchNumSuf body).map (pyIntOf base) := by
    intro base body
    simp only [parse, matchNumSuf]
    generalize List.takeWhile isNumCh body = num
    generalize List.dropWhile isNumCh body = suf
    by_cases hc : (num.isEmpty || decide (suf.length > 3) || !suf.all isSufCh) = true
    · have hc' : (!num.isEmpty && decide (suf.length ≤ 3) && suf.all isSufCh) = false := by
        cases h1 : num.isEmpty <;> cases h2 : suf.all isSufCh <;> simp_all <;> omega
      simp [hc, hc']
    · have hc' : (!num.isEmpty && decide (suf.length ≤ 3) && suf.all isSufCh) = true := by
        cases h1 : num.isEmpty <;> cases h2 : suf.all isSufCh <;> simp_all <;> omega
      rw [if_neg hc, if_pos hc', Option.map_some, pyIntOf_eq_groups groupsValue digitsValue_eq_groups]
      exact (apply_ite some _ _ _).symm
  clear_value parse
  simp only [key]
  rcases t with _ | ⟨c0, _ | ⟨c1, rest⟩⟩
  · cases hm : matchNumSuf [] <;> simp [regexMatch, hm]
  · by_cases h0 : c0 = '0'
    · subst h0; cases hm : matchNumSuf ['0'] <;> simp [regexMatch, hm]
    · cases hm : matchNumSuf [c0] <;> simp [regexMatch, hm]
  · by_cases h0 : c0 = '0'
    case neg => cases hm : matchNumSuf (c0 :: c1 :: rest) <;> simp [regexMatch, h0, hm]
    subst h0
    by_cases hx : c1 = 'x'
    · subst hx
      cases hm : matchNumSuf rest <;> cases hm' : matchNumSuf ('0' :: 'x' :: rest) <;>
        simp [regexMatch, hm, hm']
    by_cases ho : c1 = 'o'
    · subst ho
      cases hm : matchNumSuf rest <;> cases hm' : matchNumSuf ('0' :: 'o' :: rest) <;>
        simp [regexMatch, hm, hm']
    by_cases hb : c1 = 'b'
    · subst hb
      cases hm : matchNumSuf rest <;> cases hm' : matchNumSuf ('0' :: 'b' :: rest) <;>
        simp [regexMatch, hm, hm']
    cases hm : matchNumSuf ('0' :: c1 :: rest) <;> simp [regexMatch, hx, ho, hb, hm]

/-- the empty string is refused -/
theorem valueToInt_empty : valueToInt [] = none := by
  simp [valueToInt]

/-- plain decimal digit strings have their decimal value -/
theorem valueToInt_decimal (ds : List Char) (h : ds ≠ []) (hd : ∀ c ∈ ds, '0' ≤ c ∧ c ≤ '9') :
    valueToInt ds = some (ofDigits 10 ds) :=
  valueToInt_digits ds h hd

/-! ## integer ↔ bytes -/

theorem beEnc_length (n v : Nat) : (beEnc n v).length = n := beEnc_length' n v

/-- integer-to-bytes conversions round-trip -/
theorem beDec_beEnc (n v : Nat) (h : v < 256 ^ n) : beDec (beEnc n v) = v := by
  rw [beDec_beEnc_mod, Nat.mod_eq_of_lt h]

theorem leDec_leEnc (n v : Nat) (h : v < 256 ^ n) : leDec (leEnc n v) = v := by
  simp [leDec, leEnc, beDec_beEnc n v h]

/-- `byteLen` is the minimal width -/
theorem byteLen_min (v : Nat) : v < 256 ^ byteLen v ∧ (0 < v → 256 ^ (byteLen v - 1) ≤ v) :=
  byteLenF_min v v (Nat.le_refl v)

/-- the width picked without `byte_cnt`: minimal, or (align_to_2n) 1, 2, then the next multiple of 4 -/
theorem getBytesCnt_default (v : Nat) (a2n : Bool) :
    getBytesCnt v a2n 0 = .ok (
      let m := max (byteLen v) 1
      if a2n && m > 2 then (m + 3) / 4 * 4 else m) := by
  by_cases hv : v = 0
  · subst hv; simp [getBytesCnt, byteLen, byteLenF]
  · have := byteLen_pos v hv
    have hm : max (byteLen v) 1 = byteLen v := by omega
    simp [getBytesCnt, hv, hm]

/- Full-strength statement (FALSE, kept for reference):

  theorem valueToBytes_roundtrip (v : Nat) (a2n le : Bool) (bc : Nat) :
      (∃ b, valueToBytes v a2n bc le = .ok b ∧ (if le then leDec b else beDec b) = v ∧
          (bc ≠ 0 → b.length = bc))
      ∨ (valueToBytes v a2n bc le = .error .spsdk ∧ bc ≠ 0 ∧ 256 ^ bc ≤ v)

  Counter-example: `v = 65536` (three bytes), `a2n = true`, `bc = 3`.  With `align_to_2n` the needed
  width is first rounded up to 4 and *then* compared with `byte_cnt`, so the call is refused
  (model and `value_to_bytes(65536, align_to_2n=True, byte_cnt=3)` alike: SPSDKValueError
  "Value takes more bytes than required byte count 3 after align") although `65536 < 256 ^ 3`.
  See the `example` after the partial theorem. -/

/-- with an explicit `byte_cnt` the value either fits and gets that width, or is refused with an SPSDK error.
    Extra hypothesis `hfit` (exactly the complement of the failing region): when `align_to_2n` rounding
    applies (`byteLen v > 2`) and the value itself fits `bc`, the rounded width fits `bc` too.
    It holds whenever `a2n = false`, or `bc ≤ 2`, or `bc % 4 = 0` (and trivially for `bc = 0`). -/
theorem valueToBytes_roundtrip_partial (v : Nat) (a2n le : Bool) (bc : Nat)
    (hfit : a2n = true → 2 < byteLen v → byteLen v ≤ bc → (byteLen v + 3) / 4 * 4 ≤ bc) :
    (∃ b, valueToBytes v a2n bc le = .ok b ∧ (if le then leDec b else beDec b) = v ∧
        (bc ≠ 0 → b.length = bc))
    ∨ (valueToBytes v a2n bc le = .error .spsdk ∧ bc ≠ 0 ∧ 256 ^ bc ≤ v) := by
  rcases getBytesCnt_cases v a2n bc hfit with ⟨n, h1, h2, h3⟩ | ⟨h1, h2, h3⟩
  · left
    refine ⟨_, by simp only [valueToBytes, h1]; rfl, ?_, ?_⟩
    · cases le
      · simpa using beDec_beEnc n v h2
      · simpa using leDec_leEnc n v h2
    · intro hb
      cases le <;> simp [leEnc, beEnc_length, h3 hb]
  · right
    exact ⟨by simp only [valueToBytes, h1], h2, h3⟩

/-- the hypothesis is implied by the parameter-only condition … -/
example (v bc : Nat) (a2n : Bool) (h : a2n = false ∨ bc ≤ 2 ∨ bc % 4 = 0) :
    a2n = true → 2 < byteLen v → byteLen v ≤ bc → (byteLen v + 3) / 4 * 4 ≤ bc := by
  intro h1 h2 h3; rcases h with h | h | h
  · simp [h] at h1
  · omega
  · omega

/-- … and the excluded point really fails the full statement: refused although the value fits 3 bytes -/
example : valueToBytes 65536 true 3 false = .error .spsdk ∧ 65536 < 256 ^ 3 ∧
    ¬ (true = true → 2 < byteLen 65536 → byteLen 65536 ≤ 3 → (byteLen 65536 + 3) / 4 * 4 ≤ 3) := by decide

/-! ## byte-order and bit-reversal helpers are involutions (error outside their domain) -/

theorem swap32_invol (x : Int) (h0 : 0 ≤ x) (h1 : x ≤ 0xFFFFFFFF) :
    ∃ y, swap32 x = .ok y ∧ swap32 y = .ok x := by
  refine ⟨_, swap32_ok x h0 h1, ?_⟩
  rw [swap32_ok _ (by omega) (by omega)]
  obtain ⟨e1, e2, e3, e4⟩ := bytes4 (x % 256) (x / 256 % 256) (x / 256 / 256 % 256) (x / 256 / 256 / 256 % 256)
    (by omega) (by omega) (by omega) (by omega) _ rfl
  rw [e1, e2, e3, e4]
  congr 1
  omega

theorem swap32_err (x : Int) : (x < 0 ∨ x > 0xFFFFFFFF) ↔ swap32 x = .error .spsdk := by
  unfold swap32
  by_cases h : x < 0 ∨ x > 0xFFFFFFFF <;> simp [h]

theorem reverseBits_invol (x n : Nat) (h : x < 2 ^ n) (hn : 0 < n) :
    reverseBits (reverseBits x n) n = x :=
  reverseBits_invol' x n h hn

theorem reverseBytesInLongs_invol (b : Bytes) (h : b.length % 4 = 0) :
    ∃ c, reverseBytesInLongs b = .ok c ∧ reverseBytesInLongs c = .ok b := by
  obtain ⟨h1, h2⟩ := revLongs_spec b h
  refine ⟨revLongs b, by simp [reverseBytesInLongs, h, revLongs], ?_⟩
  have : (revLongs b).length % 4 = 0 := by rw [h1]; exact h
  simp only [reverseBytesInLongs, this]
  simpa [revLongs] using h2

theorem reverseBytesInLongs_err (b : Bytes) : b.length % 4 ≠ 0 ↔ reverseBytesInLongs b = .error .spsdk := by
  unfold reverseBytesInLongs
  by_cases h : b.length % 4 ≠ 0 <;> simp [h]

theorem changeEndianness_invol (b : Bytes) (h : b.length = 1 ∨ b.length = 2 ∨ b.length % 4 = 0) :
    ∃ c, changeEndianness b = .ok c ∧ changeEndianness c = .ok b := by
  by_cases h1 : b.length = 1
  · exact ⟨b, by simp [changeEndianness, h1], by simp [changeEndianness, h1]⟩
  by_cases h2 : b.length = 2
  · exact ⟨b.reverse, by simp [changeEndianness, h2], by simp [changeEndianness, h2]⟩
  have h4 : b.length % 4 = 0 := by omega
  have h3 : b.length ≠ 3 := by omega
  obtain ⟨c, e1, e2⟩ := reverseBytesInLongs_invol b h4
  have hc : c.length = b.length := by
    have := (revLongs_spec b h4).1
    simp [reverseBytesInLongs, h4] at e1
    rw [← e1]; exact this
  refine ⟨c, by simp [changeEndianness, h1, h2, h3, e1], ?_⟩
  simp [changeEndianness, hc, h1, h2, h3, e2]

theorem swapBytes_invol (b : Bytes) (h : b.length % 2 = 0) :
    ∃ c, swapBytes b = .ok c ∧ swapBytes c = .ok b := by
  obtain ⟨h1, h2⟩ := swapPairs_spec b
  exact ⟨swapPairs b, by simp [swapBytes, h], by simp [swapBytes, h1, h, h2]⟩

/-! ## padding helpers only ever append -/

theorem alignBlock_spec (d : Bytes) (a : Int) (p : UInt8) (ha : 0 < a) :
    ∃ r, alignBlock d a p = .ok r ∧ d <+: r ∧ (r.length : Int) % a = 0 ∧
      d.length ≤ r.length ∧ (r.length : Int) < d.length + a ∧ ∀ x ∈ r.drop d.length, x = p := by
  obtain ⟨k, rfl⟩ := Int.eq_ofNat_of_zero_le (Int.le_of_lt ha)
  have hk : 0 < k := by omega
  obtain ⟨s1, s2, s3⟩ := alignNat_spec d.length k hk
  have hna : ¬ ((k : Int) ≤ 0) := by omega
  refine ⟨_, by simp only [alignBlock, hna, if_false]; rfl, List.prefix_append _ _, ?_, ?_, ?_, ?_⟩
  · simp only [List.length_append, List.length_replicate, Int.toNat_natCast]
    have : d.length + (alignNat d.length k - d.length) = alignNat d.length k := by omega
    rw [this]
    exact_mod_cast congrArg Nat.cast s1
  · simp
  · simp only [List.length_append, List.length_replicate, Int.toNat_natCast]
    omega
  · intro x hx
    simp at hx
    exact hx.2

theorem alignBlock_err (d : Bytes) (a : Int) (p : UInt8) : a ≤ 0 ↔ alignBlock d a p = .error .spsdk := by
  unfold alignBlock
  by_cases h : a ≤ 0 <;> simp [h]

theorem extendBlock_spec (d : Bytes) (len : Int) (p : UInt8) :
    extendBlock d len p =
      if len < d.length then .error .spsdk else .ok (d ++ List.replicate (len.toNat - d.length) p) := by
  rfl

theorem extendBlock_length (d : Bytes) (len : Int) (p : UInt8) (h : (d.length : Int) ≤ len) :
    ∃ r, extendBlock d len p = .ok r ∧ (r.length : Int) = len ∧ d <+: r := by
  have hn : ¬ (len < d.length) := by omega
  refine ⟨_, by simp only [extendBlock, hn, if_false]; rfl, ?_, List.prefix_append _ _⟩
  simp only [List.length_append, List.length_replicate]
  omega

theorem pattern_block_length (p : Pattern) (size : Nat) : (p.block size).length = size := by
  cases p <;> simp [Pattern.block, cycleTake_length]

/-- BCD version numbers: the textual form parses back to the number -/
theorem bcd_roundtrip (n : Nat) (h : bcdDigitOk n = true) :
    bcdFromDigits (bcdToDigits n) = .ok n :=
  bcd_roundtrip' n h

/-! ## non-vacuity: concrete non-trivial values meet the hypotheses / exercise the definitions -/

example : align 13 8 = .ok 16 ∧ align 16 8 = .ok 16 ∧ align 5 0 = .error .spsdk := by decide
example : check_range 3 0 3 = .ok true ∧ check_range (-5) 0 3 = .ok false ∧ check_range 4 0 3 = .ok false := by decide
example : swap16 0x1234 = .ok 0x3412 := by decide
example : valueToInt " 0x1F_0ul ".toList = some 0x1F0 ∧ valueToInt "0b".toList = none ∧
          valueToInt "1__0".toList = none ∧ valueToInt "0b0b_1".toList = some 1 := by decide
example : valueToBytes 70000 true 0 false = .ok [0, 1, 0x11, 0x70] := by decide
example : reverseBits 0b0011 4 = 0b1100 := by decide
example : bcdDigitOk 0x1234 = true ∧ bcdFromDigits (bcdToDigits 0x1234) = .ok 0x1234 := by decide

end SpsdkVerif.C20
