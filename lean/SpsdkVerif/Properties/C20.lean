/-
C20 — number parsing, alignment and byte-order helpers satisfy their contracts.

Only property theorems and non-vacuity examples live here; helper lemmas are in Proofs/Misc.lean.
Theorems about `Generated.PyFuns.*` are statements about bodies re-translated from /repo's
Python source on every run; theorems about `Misc.*` are about the hand model that the C20
correspondence sweep ties to the implementation.
-/
import SpsdkVerif.Generated.PyFuns
import SpsdkVerif.Model.Misc
import SpsdkVerif.Proofs.Misc
import SpsdkVerif.Generated.PyFuns2
import SpsdkVerif.Generated.EnumTables
import SpsdkVerif.Model.Misc2
import SpsdkVerif.Proofs.Misc2
import SpsdkVerif.Generated.PyFuns3
import SpsdkVerif.Generated.Misc3Tables
import SpsdkVerif.Model.Misc3
import SpsdkVerif.Proofs.Misc3

namespace SpsdkVerif.C20
open SpsdkVerif SpsdkVerif.Generated.PyFuns SpsdkVerif.Misc

/-! ## Generated integer helpers -/

/-- `align` refuses exactly a non-positive alignment or a negative number, with an SPSDK error. -/
theorem align_err (n a : Int) : (a ≤ 0 ∨ n < 0) ↔ align n a = .error .spsdk := by
  unfold align
  by_cases h : a ≤ 0 ∨ n < 0
  · simp [h]
  · have h3 : ¬ a = 0 := by omega
    simp [h, h3]

/-- otherwise it returns a multiple of the alignment, not below the input and less than one alignment above -/
theorem align_spec (n a : Int) (ha : 0 < a) (hn : 0 ≤ n) :
    ∃ r, align n a = .ok r ∧ a ∣ r ∧ n ≤ r ∧ r < n + a := by
  have h1 : ¬ a ≤ 0 := by omega
  have h2 : ¬ n < 0 := by omega
  have h3 : ¬ a = 0 := by omega
  -- evaluate the translated body to *whatever* closed form the current source has …
  obtain ⟨r, hr⟩ : ∃ r, align n a = .ok r := by simp [align, h1, h2, h3]
  refine ⟨r, hr, ?_⟩
  simp [align, h1, h2, h3, pyFloorDiv, Int.fdiv_eq_ediv_of_nonneg _ (Int.le_of_lt ha)] at hr
  subst hr
  -- … and reason about it through the division facts for the usual spellings of the numerator
  have e := Int.emod_add_mul_ediv (n + (a-1)) a
  have l := Int.emod_lt_of_pos (n + (a-1)) ha
  have g := Int.emod_nonneg (n + (a-1)) (Int.ne_of_gt ha)
  have e' := Int.emod_add_mul_ediv (n + a - 1) a
  have l' := Int.emod_lt_of_pos (n + a - 1) ha
  have g' := Int.emod_nonneg (n + a - 1) (Int.ne_of_gt ha)
  rw [Int.mul_comm] at e e'
  refine ⟨?_, ?_, ?_⟩
  · first
      | exact Int.dvd_mul_left _ _
      | exact Int.dvd_mul_right _ _
  all_goals first
    | omega
    | (rw [Int.mul_comm]; omega)

/-- … which is the smallest such value. -/
theorem align_least (n a m : Int) (ha : 0 < a) (hn : 0 ≤ n) (hm : a ∣ m) (hnm : n ≤ m) :
    ∃ r, align n a = .ok r ∧ r ≤ m := by
  obtain ⟨r, hr, ⟨k, hk⟩, h1, h2⟩ := align_spec n a ha hn
  refine ⟨r, hr, ?_⟩
  obtain ⟨j, hj⟩ := hm
  subst hk hj
  -- a*k < n + a ≤ a*j + a = a*(j+1) → k < j+1 → k ≤ j
  have : a * k < a * (j + 1) := by rw [Int.mul_add]; omega
  have : k < j + 1 := Int.lt_of_mul_lt_mul_left this (Int.le_of_lt ha)
  exact Int.mul_le_mul_of_nonneg_left (by omega) (Int.le_of_lt ha)

/-- range checks answer truthfully -/
theorem checkRange_iff (x lo hi : Int) : check_range x lo hi = .ok (decide (lo ≤ x ∧ x ≤ hi)) := by
  simp [check_range]

theorem swap16_err (x : Int) : (x < 0 ∨ x > 0xFFFF) ↔ swap16 x = .error .spsdk := by
  unfold swap16
  by_cases h : x < 0 ∨ x > 65535
  · simp [h]
  · simp [h]

/-- `swap16` exchanges the two bytes … -/
theorem swap16_spec (x : Int) (h0 : 0 ≤ x) (h1 : x ≤ 0xFFFF) :
    swap16 x = .ok (x % 256 * 256 + x / 256) := by
  obtain ⟨k, rfl⟩ := Int.eq_ofNat_of_zero_le h0
  have h : ¬ ((k : Int) < 0 ∨ (k : Int) > 65535) := by omega
  have hk : k < 65536 := by omega
  simp only [swap16, pyShl_nat, pyShr_nat, pyAnd_nat, pyOr_nat]
  simp [h]
  have := swap16_nat k hk
  rw [this]
  omega

/-- … and is an involution on its domain. -/
theorem swap16_invol (x : Int) (h0 : 0 ≤ x) (h1 : x ≤ 0xFFFF) :
    ∃ y, swap16 x = .ok y ∧ swap16 y = .ok x := by
  refine ⟨_, swap16_spec x h0 h1, ?_⟩
  rw [swap16_spec _ (by omega) (by omega)]
  congr 1
  omega

theorem sbAlign_spec (n : Int) (hn : 0 ≤ n) :
    ∃ r, sbAlign n = .ok r ∧ (16 : Int) ∣ r ∧ n ≤ r ∧ r < n + 16 := by
  obtain ⟨r, hr, hd, h1, h2⟩ := align_spec n 16 (by omega) hn
  exact ⟨r, by simp [sbAlign, hr], hd, h1, h2⟩

/-- `to_num_blocks` accepts exactly multiples of 16 and then returns the quotient. -/
theorem sbToNumBlocks_spec (n : Int) :
    sbToNumBlocks n = if n % 16 = 0 then .ok (n / 16) else .error .spsdk := by
  simp only [sbToNumBlocks, sbIsAligned, pyMod, pyFloorDiv]
  rw [Int.fmod_eq_emod_of_nonneg _ (by omega), Int.fdiv_eq_ediv_of_nonneg _ (by omega)]
  by_cases h : n % 16 = 0 <;> simp [h]

/-- device id / group id are independent fields of the memory id -/
theorem memId_roundtrip (d g : Int) (hd : 0 ≤ d ∧ d < 256) (hg : 0 ≤ g ∧ g < 16) :
    ∃ m, getMemoryId d g = .ok m ∧ getDeviceId m = .ok d ∧ getGroupId m = .ok g := by
  obtain ⟨d, rfl⟩ := Int.eq_ofNat_of_zero_le hd.1
  obtain ⟨g, rfl⟩ := Int.eq_ofNat_of_zero_le hg.1
  have := memId_nat d g (by omega) (by omega)
  refine ⟨_, rfl, ?_, ?_⟩
  · simp only [getDeviceId, pyShl_nat, pyShr_nat, pyAnd_nat, pyOr_nat]
    exact congrArg (fun n : Nat => (Except.ok (n : Int) : PyRes Int)) this.1
  · simp only [getGroupId, pyShl_nat, pyShr_nat, pyAnd_nat, pyOr_nat]
    exact congrArg (fun n : Nat => (Except.ok (n : Int) : PyRes Int)) this.2

/-! ## `value_to_int` against the documented grammar

The grammar, written independently of the model (split on `_`, no state machine):
after ASCII strip and lower-casing, `[0x|0b|0o] groups [suffix]` where `groups` are non-empty runs of
base digits separated by single `_`, and `suffix` is at most three characters of `u`/`l`.
(Recorded deviation inherited from Python's `int(·, 2)`: after a `0b` prefix the digits may carry a
second `0b` and one `_` directly after it, e.g. `0b0b_1 = 1`.) -/

def splitUs : List Char → List (List Char)
  | [] => [[]]
  | c :: cs =>
    if c == '_' then [] :: splitUs cs
    else match splitUs cs with
      | g :: gs => (c :: g) :: gs
      | [] => [[c]]

def ofDigits (base : Nat) (ds : List Char) : Nat := ds.foldl (fun acc c => acc * base + digitVal c) 0

/-- groups separated by single underscores, every group a non-empty run of digits `< base` -/
def groupsValue (base : Nat) (s : List Char) : Option Nat :=
  if (splitUs s).all (fun g => !g.isEmpty && g.all (fun c => digitVal c < base))
  then some (ofDigits base (s.filter (· != '_'))) else none

/-- the model's underscore state machine computes exactly the grammar's group value.
    (Statement adjusted: the leading-underscore guard sits on the `digitsValue` side, where `pyIntOf`
    has it.  The original `digitsValue base s false 0 = if s.head? = some '_' then none else groupsValue base s`
    is false for `s = "_1"`: `digitsValue 10 "_1" false 0 = some 1`, the state machine started with
    `prevUs = false` accepts a leading underscore, which is why `pyIntOf` tests it beforehand.) -/
theorem digitsValue_eq_groups (base : Nat) (s : List Char) (hs : s ≠ []) :
    (if s.head? = some '_' then none else digitsValue base s false 0) = groupsValue base s := by
  simp only [groupsValue, ofDigits]
  exact digitsValue_groups_gen splitUs rfl (fun _ _ => rfl) base s hs

/-- Documented number grammar on an already stripped, lower-cased string. -/
def numGrammar (t : List Char) : Option Nat :=
  let parse (base : Nat) (body : List Char) : Option (Option Nat) :=   -- none = structure mismatch
    let num := body.takeWhile isNumCh
    let suf := body.dropWhile isNumCh
    if num.isEmpty || suf.length > 3 || !suf.all isSufCh then none
    else
      let num' := if base == 2 then
          (match num with
           | '0' :: 'b' :: '_' :: r => r
           | '0' :: 'b' :: r => r
           | r => r) else num
      if num'.isEmpty || num'.head? = some '_' then some none else some (groupsValue base num')
  match t with
  | '0' :: 'x' :: rest => (match parse 16 rest with | some r => r | none => (parse 10 t).join)
  | '0' :: 'o' :: rest => (match parse 8 rest with | some r => r | none => (parse 10 t).join)
  | '0' :: 'b' :: rest => (match parse 2 rest with | some r => r | none => (parse 10 t).join)
  | _ => (parse 10 t).join

/-- A string is accepted exactly when it matches the grammar, and then has its mathematical value. -/
theorem valueToInt_eq_grammar (raw : List Char) (h : raw ≠ []) :
    valueToInt raw = numGrammar ((strip raw).map lowerCh) := by
  have he : raw.isEmpty = false := by cases raw <;> simp_all
  simp only [valueToInt, he, Bool.false_eq_true, if_false]
  generalize (strip raw).map lowerCh = t
  unfold numGrammar
  extract_lets parse
  have key : ∀ (base : Nat) (body : List Char),
      parse base body = (matchNumSuf body).map (pyIntOf base) := by
    intro base body
    simp only [parse, matchNumSuf]
    generalize List.takeWhile isNumCh body = num
    generalize List.dropWhile isNumCh body = suf
    by_cases hc : (num.isEmpty || decide (suf.length > 3) || !suf.all isSufCh) = true
    · have hc' : (!num.isEmpty && decide (suf.length ≤ 3) && suf.all isSufCh) = false := by
        cases h1 : num.isEmpty <;> cases h2 : suf.all isSufCh <;> simp_all <;> omega
      simp [hc, hc']
    · have hc' : (!num.isEmpty && decide (suf.length ≤ 3) && suf.all isSufCh) = true := by
        cases h1 : num.isEmpty <;> cases h2 : suf.all isSufCh <;> simp_all <;> omega
      rw [if_neg hc, if_pos hc', Option.map_some, pyIntOf_eq_groups groupsValue digitsValue_eq_groups]
      exact (apply_ite some _ _ _).symm
  clear_value parse
  simp only [key]
  rcases t with _ | ⟨c0, _ | ⟨c1, rest⟩⟩
  · cases hm : matchNumSuf [] <;> simp [regexMatch, hm]
  · by_cases h0 : c0 = '0'
    · subst h0; cases hm : matchNumSuf ['0'] <;> simp [regexMatch, hm]
    · cases hm : matchNumSuf [c0] <;> simp [regexMatch, hm]
  · by_cases h0 : c0 = '0'
    case neg => cases hm : matchNumSuf (c0 :: c1 :: rest) <;> simp [regexMatch, h0, hm]
    subst h0
    by_cases hx : c1 = 'x'
    · subst hx
      cases hm : matchNumSuf rest <;> cases hm' : matchNumSuf ('0' :: 'x' :: rest) <;>
        simp [regexMatch, hm, hm']
    by_cases ho : c1 = 'o'
    · subst ho
      cases hm : matchNumSuf rest <;> cases hm' : matchNumSuf ('0' :: 'o' :: rest) <;>
        simp [regexMatch, hm, hm']
    by_cases hb : c1 = 'b'
    · subst hb
      cases hm : matchNumSuf rest <;> cases hm' : matchNumSuf ('0' :: 'b' :: rest) <;>
        simp [regexMatch, hm, hm']
    cases hm : matchNumSuf ('0' :: c1 :: rest) <;> simp [regexMatch, hx, ho, hb, hm]

/-- the empty string is refused -/
theorem valueToInt_empty : valueToInt [] = none := by
  simp [valueToInt]

/-- plain decimal digit strings have their decimal value -/
theorem valueToInt_decimal (ds : List Char) (h : ds ≠ []) (hd : ∀ c ∈ ds, '0' ≤ c ∧ c ≤ '9') :
    valueToInt ds = some (ofDigits 10 ds) :=
  valueToInt_digits ds h hd

/-! ## integer ↔ bytes -/

theorem beEnc_length (n v : Nat) : (beEnc n v).length = n := beEnc_length' n v

/-- integer-to-bytes conversions round-trip -/
theorem beDec_beEnc (n v : Nat) (h : v < 256 ^ n) : beDec (beEnc n v) = v := by
  rw [beDec_beEnc_mod, Nat.mod_eq_of_lt h]

theorem leDec_leEnc (n v : Nat) (h : v < 256 ^ n) : leDec (leEnc n v) = v := by
  simp [leDec, leEnc, beDec_beEnc n v h]

/-- `byteLen` is the minimal width -/
theorem byteLen_min (v : Nat) : v < 256 ^ byteLen v ∧ (0 < v → 256 ^ (byteLen v - 1) ≤ v) :=
  byteLenF_min v v (Nat.le_refl v)

/-- the width picked without `byte_cnt`: minimal, or (align_to_2n) 1, 2, then the next multiple of 4 -/
theorem getBytesCnt_default (v : Nat) (a2n : Bool) :
    getBytesCnt v a2n 0 = .ok (
      let m := max (byteLen v) 1
      if a2n && m > 2 then (m + 3) / 4 * 4 else m) := by
  by_cases hv : v = 0
  · subst hv; simp [getBytesCnt, byteLen, byteLenF]
  · have := byteLen_pos v hv
    have hm : max (byteLen v) 1 = byteLen v := by omega
    simp [getBytesCnt, hv, hm]

/- Full-strength statement (FALSE, kept for reference):

  theorem valueToBytes_roundtrip (v : Nat) (a2n le : Bool) (bc : Nat) :
      (∃ b, valueToBytes v a2n bc le = .ok b ∧ (if le then leDec b else beDec b) = v ∧
          (bc ≠ 0 → b.length = bc))
      ∨ (valueToBytes v a2n bc le = .error .spsdk ∧ bc ≠ 0 ∧ 256 ^ bc ≤ v)

  Counter-example: `v = 65536` (three bytes), `a2n = true`, `bc = 3`.  With `align_to_2n` the needed
  width is first rounded up to 4 and *then* compared with `byte_cnt`, so the call is refused
  (model and `value_to_bytes(65536, align_to_2n=True, byte_cnt=3)` alike: SPSDKValueError
  "Value takes more bytes than required byte count 3 after align") although `65536 < 256 ^ 3`.
  See the `example` after the partial theorem. -/

/-- with an explicit `byte_cnt` the value either fits and gets that width, or is refused with an SPSDK error.
    Extra hypothesis `hfit` (exactly the complement of the failing region): when `align_to_2n` rounding
    applies (`byteLen v > 2`) and the value itself fits `bc`, the rounded width fits `bc` too.
    It holds whenever `a2n = false`, or `bc ≤ 2`, or `bc % 4 = 0` (and trivially for `bc = 0`). -/
theorem valueToBytes_roundtrip_partial (v : Nat) (a2n le : Bool) (bc : Nat)
    (hfit : a2n = true → 2 < byteLen v → byteLen v ≤ bc → (byteLen v + 3) / 4 * 4 ≤ bc) :
    (∃ b, valueToBytes v a2n bc le = .ok b ∧ (if le then leDec b else beDec b) = v ∧
        (bc ≠ 0 → b.length = bc))
    ∨ (valueToBytes v a2n bc le = .error .spsdk ∧ bc ≠ 0 ∧ 256 ^ bc ≤ v) := by
  rcases getBytesCnt_cases v a2n bc hfit with ⟨n, h1, h2, h3⟩ | ⟨h1, h2, h3⟩
  · left
    refine ⟨_, by simp only [valueToBytes, h1]; rfl, ?_, ?_⟩
    · cases le
      · simpa using beDec_beEnc n v h2
      · simpa using leDec_leEnc n v h2
    · intro hb
      cases le <;> simp [leEnc, beEnc_length, h3 hb]
  · right
    exact ⟨by simp only [valueToBytes, h1], h2, h3⟩

/-- the hypothesis is implied by the parameter-only condition … -/
example (v bc : Nat) (a2n : Bool) (h : a2n = false ∨ bc ≤ 2 ∨ bc % 4 = 0) :
    a2n = true → 2 < byteLen v → byteLen v ≤ bc → (byteLen v + 3) / 4 * 4 ≤ bc := by
  intro h1 h2 h3; rcases h with h | h | h
  · simp [h] at h1
  · omega
  · omega

/-- … and the excluded point really fails the full statement: refused although the value fits 3 bytes -/
example : valueToBytes 65536 true 3 false = .error .spsdk ∧ 65536 < 256 ^ 3 ∧
    ¬ (true = true → 2 < byteLen 65536 → byteLen 65536 ≤ 3 → (byteLen 65536 + 3) / 4 * 4 ≤ 3) := by decide

/-! ## byte-order and bit-reversal helpers are involutions (error outside their domain) -/

theorem swap32_invol (x : Int) (h0 : 0 ≤ x) (h1 : x ≤ 0xFFFFFFFF) :
    ∃ y, swap32 x = .ok y ∧ swap32 y = .ok x := by
  refine ⟨_, swap32_ok x h0 h1, ?_⟩
  rw [swap32_ok _ (by omega) (by omega)]
  obtain ⟨e1, e2, e3, e4⟩ := bytes4 (x % 256) (x / 256 % 256) (x / 256 / 256 % 256) (x / 256 / 256 / 256 % 256)
    (by omega) (by omega) (by omega) (by omega) _ rfl
  rw [e1, e2, e3, e4]
  congr 1
  omega

theorem swap32_err (x : Int) : (x < 0 ∨ x > 0xFFFFFFFF) ↔ swap32 x = .error .spsdk := by
  unfold swap32
  by_cases h : x < 0 ∨ x > 0xFFFFFFFF <;> simp [h]

theorem reverseBits_invol (x n : Nat) (h : x < 2 ^ n) (hn : 0 < n) :
    reverseBits (reverseBits x n) n = x :=
  reverseBits_invol' x n h hn

theorem reverseBytesInLongs_invol (b : Bytes) (h : b.length % 4 = 0) :
    ∃ c, reverseBytesInLongs b = .ok c ∧ reverseBytesInLongs c = .ok b := by
  obtain ⟨h1, h2⟩ := revLongs_spec b h
  refine ⟨revLongs b, by simp [reverseBytesInLongs, h, revLongs], ?_⟩
  have : (revLongs b).length % 4 = 0 := by rw [h1]; exact h
  simp only [reverseBytesInLongs, this]
  simpa [revLongs] using h2

theorem reverseBytesInLongs_err (b : Bytes) : b.length % 4 ≠ 0 ↔ reverseBytesInLongs b = .error .spsdk := by
  unfold reverseBytesInLongs
  by_cases h : b.length % 4 ≠ 0 <;> simp [h]

theorem changeEndianness_invol (b : Bytes) (h : b.length = 1 ∨ b.length = 2 ∨ b.length % 4 = 0) :
    ∃ c, changeEndianness b = .ok c ∧ changeEndianness c = .ok b := by
  by_cases h1 : b.length = 1
  · exact ⟨b, by simp [changeEndianness, h1], by simp [changeEndianness, h1]⟩
  by_cases h2 : b.length = 2
  · exact ⟨b.reverse, by simp [changeEndianness, h2], by simp [changeEndianness, h2]⟩
  have h4 : b.length % 4 = 0 := by omega
  have h3 : b.length ≠ 3 := by omega
  obtain ⟨c, e1, e2⟩ := reverseBytesInLongs_invol b h4
  have hc : c.length = b.length := by
    have := (revLongs_spec b h4).1
    simp [reverseBytesInLongs, h4] at e1
    rw [← e1]; exact this
  refine ⟨c, by simp [changeEndianness, h1, h2, h3, e1], ?_⟩
  simp [changeEndianness, hc, h1, h2, h3, e2]

theorem swapBytes_invol (b : Bytes) (h : b.length % 2 = 0) :
    ∃ c, swapBytes b = .ok c ∧ swapBytes c = .ok b := by
  obtain ⟨h1, h2⟩ := swapPairs_spec b
  exact ⟨swapPairs b, by simp [swapBytes, h], by simp [swapBytes, h1, h, h2]⟩

/-! ## padding helpers only ever append -/

theorem alignBlock_spec (d : Bytes) (a : Int) (p : UInt8) (ha : 0 < a) :
    ∃ r, alignBlock d a p = .ok r ∧ d <+: r ∧ (r.length : Int) % a = 0 ∧
      d.length ≤ r.length ∧ (r.length : Int) < d.length + a ∧ ∀ x ∈ r.drop d.length, x = p := by
  obtain ⟨k, rfl⟩ := Int.eq_ofNat_of_zero_le (Int.le_of_lt ha)
  have hk : 0 < k := by omega
  obtain ⟨s1, s2, s3⟩ := alignNat_spec d.length k hk
  have hna : ¬ ((k : Int) ≤ 0) := by omega
  refine ⟨_, by simp only [alignBlock, hna, if_false]; rfl, List.prefix_append _ _, ?_, ?_, ?_, ?_⟩
  · simp only [List.length_append, List.length_replicate, Int.toNat_natCast]
    have : d.length + (alignNat d.length k - d.length) = alignNat d.length k := by omega
    rw [this]
    exact_mod_cast congrArg Nat.cast s1
  · simp
  · simp only [List.length_append, List.length_replicate, Int.toNat_natCast]
    omega
  · intro x hx
    simp at hx
    exact hx.2

theorem alignBlock_err (d : Bytes) (a : Int) (p : UInt8) : a ≤ 0 ↔ alignBlock d a p = .error .spsdk := by
  unfold alignBlock
  by_cases h : a ≤ 0 <;> simp [h]

theorem extendBlock_spec (d : Bytes) (len : Int) (p : UInt8) :
    extendBlock d len p =
      if len < d.length then .error .spsdk else .ok (d ++ List.replicate (len.toNat - d.length) p) := by
  rfl

theorem extendBlock_length (d : Bytes) (len : Int) (p : UInt8) (h : (d.length : Int) ≤ len) :
    ∃ r, extendBlock d len p = .ok r ∧ (r.length : Int) = len ∧ d <+: r := by
  have hn : ¬ (len < d.length) := by omega
  refine ⟨_, by simp only [extendBlock, hn, if_false]; rfl, ?_, List.prefix_append _ _⟩
  simp only [List.length_append, List.length_replicate]
  omega

theorem pattern_block_length (p : Pattern) (size : Nat) : (p.block size).length = size := by
  cases p <;> simp [Pattern.block, cycleTake_length]

/-- BCD version numbers: the textual form parses back to the number -/
theorem bcd_roundtrip (n : Nat) (h : bcdDigitOk n = true) :
    bcdFromDigits (bcdToDigits n) = .ok n :=
  bcd_roundtrip' n h

/-! ## non-vacuity: concrete non-trivial values meet the hypotheses / exercise the definitions -/

example : align 13 8 = .ok 16 ∧ align 16 8 = .ok 16 ∧ align 5 0 = .error .spsdk := by decide
example : check_range 3 0 3 = .ok true ∧ check_range (-5) 0 3 = .ok false ∧ check_range 4 0 3 = .ok false := by decide
example : swap16 0x1234 = .ok 0x3412 := by decide
example : valueToInt " 0x1F_0ul ".toList = some 0x1F0 ∧ valueToInt "0b".toList = none ∧
          valueToInt "1__0".toList = none ∧ valueToInt "0b0b_1".toList = some 1 := by decide
example : valueToBytes 70000 true 0 false = .ok [0, 1, 0x11, 0x70] := by decide
example : reverseBits 0b0011 4 = 0b1100 := by decide
example : bcdDigitOk 0x1234 = true ∧ bcdFromDigits (bcdToDigits 0x1234) = .ok 0x1234 := by decide

/-! # Phase 2 — more of the code regenerated from the source, and more of the glue in the model

`Generated.PyFuns2.*` are translated from /repo on every run by the extended translator (while loops with an explicit
fuel argument, unrolled constant `for`, `int(ceil(a / b))` with the explicit 2^53 float guard, `Optional[int]`).
Each is shown to agree with the hand model of phase 1 on its domain, and the key contracts are restated over the
GENERATED function, so a changed source line must re-prove (or fails here). -/

section Phase2
open SpsdkVerif.Generated.PyFuns2 SpsdkVerif.Generated.EnumTables

/-! ## `get_bytes_cnt_of_int` (generated, with fuel) -/

/-- For a non-negative value the translated function — `while value != 0` loop included — computes what the hand model
    computes, for every fuel above the byte count.  `byte_cnt` is an `Optional[int]` of which only the truthiness and the
    value matter (`bcO.getD 0 = bc`: `None` and `0` both mean "not given").
    Domain restriction `h53`: the source rounds with `int(ceil(cnt / 4))`, a FLOAT division; the translator keeps the
    result only where it is exact (`cnt < 2^53`, i.e. values of fewer than 2^53 bytes). -/
theorem getBytesCnt_generated_eq_model (fuel v : Nat) (a2n : Bool) (bc : Nat) (bcO : Option Int)
    (hbc : bcO.getD 0 = (bc : Int)) (hf : byteLen v < fuel) (h53 : byteLen v < 2 ^ 53) :
    getBytesCntOfInt fuel (v : Int) a2n bcO = liftNat (getBytesCnt v a2n bc) :=
  getBytesCnt_gen_eq fuel v a2n bc bcO hbc hf h53

/-- termination for `value ≥ 0`: some fuel suffices, every larger fuel gives the same answer, and the answer is never
    "fuel exhausted" -/
theorem getBytesCntGen_terminates (v : Nat) (a2n : Bool) (bc : Nat) (bcO : Option Int)
    (hbc : bcO.getD 0 = (bc : Int)) (h53 : byteLen v < 2 ^ 53) :
    ∃ fuel₀ r, r ≠ .error .other ∧ ∀ fuel, fuel₀ ≤ fuel → getBytesCntOfInt fuel (v : Int) a2n bcO = r := by
  refine ⟨byteLen v + 1, liftNat (getBytesCnt v a2n bc), ?_, fun fuel h => getBytesCnt_gen_eq fuel v a2n bc bcO hbc (by omega) h53⟩
  exact getBytesCnt_ne_other v a2n bc

/-- negative values are refused with an SPSDK error for every fuel — before the loop, which would never end on them
    (`-1 >> 8 == -1`).  Fix 55a6c57; before it `get_bytes_cnt_of_int(-1)`, `value_to_bytes(-1)` and `load_hex_string(-1, n)`
    did not return (this theorem then read `= .error .other` = "fuel exhausted" for every fuel). -/
theorem getBytesCntGen_neg_refused (fuel : Nat) (v : Int) (hv : v < 0) (a2n : Bool) (bcO : Option Int) :
    getBytesCntOfInt fuel v a2n bcO = .error .spsdk :=
  getBytesCnt_gen_neg fuel v hv a2n bcO

/-- so the translated function answers for EVERY integer with enough fuel: it never runs out of fuel above the byte count -/
theorem getBytesCntGen_total (v : Int) (a2n : Bool) (bcO : Option Int) (hbc : 0 ≤ bcO.getD 0) (h53 : byteLen v.toNat < 2 ^ 53) :
    ∃ fuel₀, ∀ fuel, fuel₀ ≤ fuel → getBytesCntOfInt fuel v a2n bcO ≠ .error .other := by
  by_cases hv : v < 0
  · exact ⟨0, fun fuel _ => by rw [getBytesCnt_gen_neg fuel v hv a2n bcO]; intro h; cases h⟩
  · obtain ⟨n, rfl⟩ := Int.eq_ofNat_of_zero_le (Int.not_lt.1 hv)
    refine ⟨byteLen n + 1, fun fuel hf => ?_⟩
    have hb : bcO.getD 0 = ((bcO.getD 0).toNat : Int) := by omega
    rw [getBytesCnt_gen_eq fuel n a2n _ bcO hb (by omega) (by simpa using h53)]
    exact getBytesCnt_ne_other n a2n _

example : (0 : Int) ≤ (some (3 : Int)).getD 0 ∧ byteLen (-70000 : Int).toNat < 2 ^ 53 ∧ byteLen (70000 : Int).toNat < 2 ^ 53 := by decide

/-- contract over the generated function: without `byte_cnt` the documented width (minimal; with `align_to_2n` 1, 2,
    then the next multiple of 4) -/
theorem getBytesCntGen_default (fuel v : Nat) (a2n : Bool) (hf : byteLen v < fuel) (h53 : byteLen v < 2 ^ 53) :
    getBytesCntOfInt fuel (v : Int) a2n none = .ok ((
      let m := max (byteLen v) 1
      if a2n && m > 2 then (m + 3) / 4 * 4 else m : Nat) : Int) := by
  rw [getBytesCnt_gen_eq fuel v a2n 0 none rfl hf h53, getBytesCnt_default]
  rfl

/-- contract over the generated function: the chosen width holds the value; an explicit `byte_cnt` is honoured or the
    call is refused with an SPSDK error exactly when the value does not fit (same side condition as
    `valueToBytes_roundtrip_partial`) -/
theorem getBytesCntGen_fits (fuel v : Nat) (a2n : Bool) (bc : Nat) (bcO : Option Int)
    (hbc : bcO.getD 0 = (bc : Int)) (hf : byteLen v < fuel) (h53 : byteLen v < 2 ^ 53)
    (hfit : a2n = true → 2 < byteLen v → byteLen v ≤ bc → (byteLen v + 3) / 4 * 4 ≤ bc) :
    (∃ n : Nat, getBytesCntOfInt fuel (v : Int) a2n bcO = .ok (n : Int) ∧ v < 256 ^ n ∧ (bc ≠ 0 → n = bc))
    ∨ (getBytesCntOfInt fuel (v : Int) a2n bcO = .error .spsdk ∧ bc ≠ 0 ∧ 256 ^ bc ≤ v) := by
  rw [getBytesCnt_gen_eq fuel v a2n bc bcO hbc hf h53]
  rcases getBytesCnt_cases v a2n bc hfit with ⟨n, h1, h2, h3⟩ | ⟨h1, h2, h3⟩
  · exact Or.inl ⟨n, by rw [h1]; rfl, h2, h3⟩
  · exact Or.inr ⟨by rw [h1]; rfl, h2, h3⟩

/-! ## `BcdVersion3._check_number` (generated, `for index in range(4)` unrolled) -/

theorem bcdCheckNumber_generated_eq_model (n : Int) :
    bcdCheckNumber n = if 0 ≤ n ∧ bcdDigitOk n.toNat = true then .ok true else .error .spsdk :=
  bcdCheckNumber_eq n

/-- whatever the generated check accepts round-trips through the textual form -/
theorem bcd_roundtrip_generated (n : Int) (h : bcdCheckNumber n = .ok true) :
    0 ≤ n ∧ bcdFromDigits (bcdToDigits n.toNat) = .ok n.toNat := by
  rw [bcdCheckNumber_eq] at h
  by_cases hc : 0 ≤ n ∧ bcdDigitOk n.toNat = true
  · exact ⟨hc.1, bcd_roundtrip' _ hc.2⟩
  · rw [if_neg hc] at h; cases h

/-! ## guards and length arithmetic of `swap32`, `reverse_bytes_in_longs`, `extend_block`, `align_block` (generated slices) -/

/-- the model's `swap32` is the generated guard followed by the byte swap -/
theorem swap32_guard_generated (x : Int) :
    swap32 x = match swap32Guard x with
      | .error e => .error e
      | .ok _ => .ok (Int.ofNat (leDec (beEnc 4 x.toNat))) := by
  unfold swap32 swap32Guard
  by_cases h : x < 0 ∨ x > 0xFFFFFFFF
  · rcases h with h | h <;> simp [h]
  · have h1 : ¬ x < 0 := by omega
    have h2 : ¬ x > 4294967295 := by omega
    simp [h1, h2]

theorem swap32Guard_err (x : Int) : (x < 0 ∨ x > 0xFFFFFFFF) ↔ swap32Guard x = .error .spsdk := by
  unfold swap32Guard
  by_cases h : x < 0 ∨ x > 4294967295
  · rcases h with h | h <;> simp [h]
  · have h1 : ¬ x < 0 := by omega
    have h2 : ¬ x > 4294967295 := by omega
    simp [h1, h2]

theorem reverseBytesInLongs_guard_generated (b : Bytes) :
    reverseBytesInLongs b = match revLongsGuard b.length with
      | .error e => .error e
      | .ok _ => .ok ((chunk4 b).map List.reverse).flatten := by
  unfold reverseBytesInLongs revLongsGuard
  simp only [pyMod, Int.fmod_eq_emod_of_nonneg _ (show (0 : Int) ≤ 4 by omega)]
  by_cases h : b.length % 4 = 0
  · have : (b.length : Int) % 4 = 0 := by omega
    simp [h, this]
  · have : ¬ (b.length : Int) % 4 = 0 := by omega
    simp [h, this]

/-- `extend_block`: the model is the generated `num_padding` computation followed by appending that many padding bytes -/
theorem extendBlock_generated (d : Bytes) (len pad : Int) (p : UInt8) :
    extendBlock d len p = match extendBlockNumPadding d.length len pad with
      | .error e => .error e
      | .ok n => .ok (d ++ List.replicate n.toNat p) := by
  unfold extendBlock extendBlockNumPadding
  by_cases h : len < d.length
  · simp [h]
  · simp only [h, if_false, decide_false, Bool.false_eq_true]
    congr 3
    omega

/-- the generated `num_padding` of `align_block`: refused exactly for `alignment ≤ 0`, otherwise the distance to the
    smallest multiple of the alignment not below the length (`0 ≤ r < a`, `a ∣ len + r`) -/
theorem alignBlockNumPadding_spec (len : Nat) (a : Int) :
    (a ≤ 0 → alignBlockNumPadding len a = .error .spsdk) ∧
    (0 < a → ∃ r, alignBlockNumPadding len a = .ok r ∧ 0 ≤ r ∧ r < a ∧ a ∣ (len : Int) + r) := by
  constructor
  · intro ha
    unfold alignBlockNumPadding
    by_cases h : a < 0
    · simp [h]
    · have h0 : a = 0 := by omega
      have := (align_err (len : Int) a).1 (Or.inl ha)
      simp [h, this]
  · intro ha
    obtain ⟨r, hr, hd, h1, h2⟩ := align_spec (len : Int) a ha (by omega)
    have hn : ¬ a < 0 := by omega
    refine ⟨r - len, by simp [alignBlockNumPadding, hn, hr], by omega, by omega, ?_⟩
    have : (len : Int) + (r - len) = r := by omega
    rw [this]; exact hd

/-- `align_block`: the model is the generated `num_padding` computation followed by appending that many padding bytes
    (proved through the *contract* of the generated `align`, so any spelling of `align` that satisfies `align_spec` works) -/
theorem alignBlock_generated (d : Bytes) (a : Int) (p : UInt8) :
    alignBlock d a p = match alignBlockNumPadding d.length a with
      | .error e => .error e
      | .ok n => .ok (d ++ List.replicate n.toNat p) := by
  by_cases ha : a ≤ 0
  · rw [(alignBlockNumPadding_spec d.length a).1 ha]
    simp [alignBlock, ha]
  · have ha' : 0 < a := by omega
    obtain ⟨k, rfl⟩ := Int.eq_ofNat_of_zero_le (Int.le_of_lt ha')
    have hk : 0 < k := by omega
    obtain ⟨r, hr, h0, h1, h2⟩ := (alignBlockNumPadding_spec d.length (k : Int)).2 ha'
    obtain ⟨m1, m2, m3⟩ := alignNat_int d.length k hk
    have : (d.length : Int) + r = alignNat d.length k :=
      mult_unique (k : Int) d.length _ _ ha' h2 m1 ⟨by omega, by omega⟩ ⟨m2, m3⟩
    rw [hr]
    simp only [alignBlock, ha, if_false, Int.toNat_natCast]
    congr 3
    omega

/-! ## `load_hex_string`, literal branch (hand model `Misc.loadHexString`, behaviour after fixes 69fb592 / fd2f580)

For a string literal `s` (that is not the name of an existing file): `"0x"` is prepended unless present, the text goes
through `value_to_int` (so `_` separators and `u/l` suffixes are accepted) and the NUMBER is written big-endian on
`expected_size` bytes by `value_to_bytes(…, align_to_2n=False, byte_cnt=expected_size)`.  Hence: accepted exactly when the
literal denotes a number below `256 ^ expected_size`, i.e. at most `expected_size` significant bytes — a shorter literal
is zero-extended on the left, leading zero bytes of a longer one are dropped.  A bytes source must have exactly
`expected_size` bytes; an int source still goes through `align_to_2n=True` (`widthA`). -/

theorem loadHexString_literal_iff (s : List Char) (n : Int) (hs : s ≠ []) (hn : 1 ≤ n) (b : Bytes) :
    (loadHexString (.str s) n = .ok (some b) ↔
      ∃ v, valueToInt (with0x s) = some v ∧ v < 256 ^ n.toNat ∧ b = beEnc n.toNat v) ∧
    (loadHexString (.str s) n = .ok (some b) →
      (b.length : Int) = n ∧ ∃ v, valueToInt (with0x s) = some v ∧ beDec b = v) ∧
    ((¬ ∃ v, valueToInt (with0x s) = some v ∧ v < 256 ^ n.toNat) → loadHexString (.str s) n = .error .spsdk) := by
  rw [loadHexString_str s n hs hn]
  cases hv : valueToInt (with0x s) with
  | none => simp
  | some v =>
    by_cases hw : v < 256 ^ n.toNat
    · simp only [hw, if_true]
      refine ⟨⟨fun h => ⟨v, rfl, hw, ?_⟩, fun ⟨v', e, _, hb⟩ => ?_⟩, fun h => ?_, fun h => absurd ⟨v, rfl, hw⟩ h⟩
      · cases h; rfl
      · cases e; rw [hb]
      · cases h
        refine ⟨?_, v, rfl, beDec_beEnc _ _ hw⟩
        rw [beEnc_length]; omega
    · simp only [hw, if_false]
      refine ⟨⟨fun h => (by cases h), fun ⟨v', e, hw', _⟩ => ?_⟩, fun h => (by cases h), by simp⟩
      cases e; exact absurd hw' hw

/-- value preserved: the hex text of exactly `expected_size` bytes (lower case, with or without `0x`) loads to those
    bytes — for EVERY size ≥ 1 (before fix 69fb592 this failed for sizes 3, 5, 6, 7, 9, …) -/
theorem loadHexString_exact_hex (bs : Bytes) (n : Int) (hlen : (bs.length : Int) = n) (hn : 1 ≤ n) :
    loadHexString (.str (hexOf bs)) n = .ok (some bs) ∧
    loadHexString (.str ('0' :: 'x' :: hexOf bs)) n = .ok (some bs) := by
  have hne : bs ≠ [] := by intro h; subst h; simp at hlen; omega
  have hN : n.toNat = bs.length := by omega
  obtain ⟨p1, p2⟩ := valueToInt_hexOf bs hne
  have hw := beDec_lt bs
  constructor
  · rw [loadHexString_str _ n (hexOf_ne_nil bs hne) hn, p1]
    simp only [hN, hw, if_true, beEnc_beDec]
  · rw [loadHexString_str _ n (by simp) hn, p2]
    simp only [hN, hw, if_true, beEnc_beDec]

/-- a shorter hex literal is zero-extended on the left to `expected_size` bytes -/
theorem loadHexString_short_hex (bs : Bytes) (n : Int) (hne : bs ≠ []) (hlen : (bs.length : Int) ≤ n) :
    loadHexString (.str (hexOf bs)) n = .ok (some (beEnc n.toNat (beDec bs))) ∧
    beDec (beEnc n.toNat (beDec bs)) = beDec bs := by
  have hpos : 0 < bs.length := List.length_pos_iff.2 hne
  have hw : beDec bs < 256 ^ n.toNat :=
    Nat.lt_of_lt_of_le (beDec_lt bs) (Nat.pow_le_pow_right (by omega) (by omega))
  refine ⟨?_, beDec_beEnc _ _ hw⟩
  rw [loadHexString_str _ n (hexOf_ne_nil bs hne) (by omega), (valueToInt_hexOf bs hne).1]
  simp only [hw, if_true]

/-- a bytes source is accepted exactly when it has `expected_size` bytes (returned unchanged); an int is written
    big-endian on `expected_size` bytes when its `align_to_2n` width fits -/
theorem loadHexString_bytes_int (n : Int) (hn : 1 ≤ n) :
    (∀ b : Bytes, b ≠ [] → loadHexString (.bytes b) n = if (b.length : Int) = n then .ok (some b) else .error .spsdk) ∧
    (∀ v : Nat, v ≠ 0 → loadHexString (.int v) n =
      if widthA v ≤ n.toNat then .ok (some (beEnc n.toNat v)) else .error .spsdk) := by
  have hn' : ¬ n < 1 := by omega
  have hN : n.toNat ≠ 0 := by omega
  constructor
  · intro b hb
    have : b.isEmpty = false := by cases b <;> simp_all
    simp [loadHexString, HexSrc.falsy, this, hn']
  · intro v hv
    have h1 : ((v : Int) == 0) = false := by simp [hv]
    have h2 : ¬ ((v : Int) < 0) := by omega
    simp only [loadHexString, HexSrc.falsy, h1, hn', h2, Bool.false_eq_true, if_false, Int.toNat_natCast, valueToBytes,
      getBytesCnt_true v _ hN]
    by_cases hw : widthA v ≤ n.toNat <;> simp [hw]

/-- recorded behaviour -/
example : loadHexString (.str "010203".toList) 3 = .ok (some [1, 2, 3]) ∧          -- exactly 3 bytes (refused before 69fb592)
          loadHexString (.str "0102".toList) 3 = .ok (some [0, 1, 2]) ∧           -- 2 bytes: zero-extended
          loadHexString (.str "0001020304".toList) 4 = .ok (some [1, 2, 3, 4]) ∧  -- 5 bytes with a zero first byte: accepted
          loadHexString (.str "0101020304".toList) 4 = .error .spsdk ∧            -- 5 significant bytes: refused
          loadHexString (.bytes [1, 2]) 16 = .error .spsdk ∧                      -- bytes of the wrong size (accepted before fd2f580)
          loadHexString (.bytes [1, 2]) 2 = .ok (some [1, 2]) ∧
          loadHexString (.int 0x010203) 3 = .error .spsdk ∧                       -- int sources still round the width up
          loadHexString (.str "12_34ul".toList) 2 = .ok (some [0x12, 0x34]) ∧     -- number grammar, not just hex digits
          loadHexString (.str "".toList) 2 = .ok none := by decide                -- falsy source: random value

/-! ## `value_to_bool`, `BinaryPattern`, `split_data` -/

/-- strings are true exactly for the four spellings in the source (generated table), ints by `!= 0` -/
theorem valueToBool_spec :
    (∀ s, valueToBool (.str s) = true ↔ s ∈ valueToBoolTrue) ∧ (∀ i, valueToBool (.int i) = true ↔ i ≠ 0) ∧
    valueToBool .none = false ∧ (∀ b, valueToBool (.bool b) = b) := by
  refine ⟨fun s => by simp [valueToBool], fun i => by simp [valueToBool], rfl, fun _ => rfl⟩

/-- `BinaryPattern(p)` is accepted exactly for a number (`value_to_int` grammar) or one of the special names -/
theorem patternAccept_iff (p : List Char) :
    patternAccept p = true ↔ (∃ v, valueToInt p = some v) ∨ p ∈ binaryPatternSpecial := by
  simp [patternAccept, Option.isSome_iff_exists]

/-- the `pattern` property of a number re-parses to the same number (`hex()` stays inside the grammar), so it is
    accepted again and is a fixed point of the property -/
theorem patternProp_reparse (p : List Char) (v : Nat) (h : valueToInt p = some v) :
    valueToInt (patternProp p) = some v ∧ patternAccept (patternProp p) = true ∧
    patternProp (patternProp p) = patternProp p := by
  have e : patternProp p = pyHex v := by simp [patternProp, h]
  have k := valueToInt_pyHex v
  refine ⟨by rw [e, k], by rw [e]; simp [patternAccept, k], ?_⟩
  rw [e]; simp [patternProp, k]

/-- special names are their own `pattern` (none of them is a number) -/
example : binaryPatternSpecial.all (fun p => patternProp p == p && patternAccept p) = true := by decide

/-- `split_data` with a positive size: the chunks concatenate to the data, every chunk has 1..size bytes, all but the
    last exactly `size`, and there are ⌈len/size⌉ of them -/
theorem splitData_spec (d : Bytes) (size : Int) (h : 0 < size) :
    ∃ cs, splitData d size = .ok cs ∧ cs.flatten = d ∧ (∀ c ∈ cs, 1 ≤ c.length ∧ (c.length : Int) ≤ size) ∧
      (∀ c ∈ cs.dropLast, (c.length : Int) = size) ∧ cs.length = (d.length + size.toNat - 1) / size.toNat := by
  obtain ⟨k, rfl⟩ := Int.eq_ofNat_of_zero_le (Int.le_of_lt h)
  have hk : 0 < k := by omega
  obtain ⟨i1, i2, i3, i4⟩ := chunksF_spec d.length k d hk (Nat.le_refl _)
  have h0 : ¬ (k : Int) = 0 := by omega
  have h1 : ¬ (k : Int) < 0 := by omega
  refine ⟨_, by simp only [splitData, h0, h1, if_false]; rfl, ?_, ?_, ?_, ?_⟩
  · simpa using i1
  · intro c hc
    have := i2 c (by simpa using hc)
    exact ⟨this.1, by omega⟩
  · intro c hc
    have := i3 c (by simpa using hc)
    omega
  · simpa using i4

/-- size 0 is a `ValueError`; a NEGATIVE size silently yields no chunk at all (the data is dropped) — robustness
    observation, the callers pass positive constants -/
theorem splitData_nonpos (d : Bytes) (size : Int) (h : size ≤ 0) :
    splitData d size = if size = 0 then .error .other else .ok [] := by
  unfold splitData
  by_cases h0 : size = 0
  · simp [h0]
  · have : size < 0 := by omega
    simp [h0, this]

/-! ## `SpsdkEnum` lookups (generic model over a member table; two real tables generated from the source) -/

/-- unknown tag / label → `SPSDKKeyError`, and only then -/
theorem enum_unknown_iff (E : List EnumRow) :
    (∀ t, fromTag E t = .error .spsdk ↔ ∀ m ∈ E, m.1 ≠ t) ∧
    (∀ l, fromLabel E l = .error .spsdk ↔ ∀ m ∈ E, upper m.2.1 ≠ upper l) := by
  constructor
  · intro t
    unfold fromTag
    cases h : E.find? (fun m => m.1 == t) with
    | none =>
      simp only [true_iff]
      intro m hm
      have := List.find?_eq_none.1 h m hm
      simpa using this
    | some m =>
      simp only [reduceCtorEq, false_iff]
      intro hall
      have h1 := List.find?_some h
      exact hall m (List.mem_of_find?_eq_some h) (by simpa using h1)
  · intro l
    unfold fromLabel
    cases h : E.find? (fun m => upper m.2.1 == upper l) with
    | none =>
      simp only [true_iff]
      intro m hm
      have := List.find?_eq_none.1 h m hm
      simpa using this
    | some m =>
      simp only [reduceCtorEq, false_iff]
      intro hall
      have h1 := List.find?_some h
      exact hall m (List.mem_of_find?_eq_some h) (by simpa using h1)

/-- a successful lookup returns a member carrying that tag / that label up to case -/
theorem enum_lookup_sound (E : List EnumRow) (m : EnumRow) :
    (∀ t, fromTag E t = .ok m → m ∈ E ∧ m.1 = t) ∧
    (∀ l, fromLabel E l = .ok m → m ∈ E ∧ upper m.2.1 = upper l) := by
  constructor
  · intro t h
    unfold fromTag at h
    cases hf : E.find? (fun m => m.1 == t) with
    | none => rw [hf] at h; cases h
    | some m' =>
      rw [hf] at h; cases h
      exact ⟨List.mem_of_find?_eq_some hf, by simpa using List.find?_some hf⟩
  · intro l h
    unfold fromLabel at h
    cases hf : E.find? (fun m => upper m.2.1 == upper l) with
    | none => rw [hf] at h; cases h
    | some m' =>
      rw [hf] at h; cases h
      exact ⟨List.mem_of_find?_eq_some hf, by simpa using List.find?_some hf⟩

/-- label lookup is case-insensitive -/
theorem fromLabel_caseInsensitive (E : List EnumRow) (l l' : List Char) (h : upper l = upper l') :
    fromLabel E l = fromLabel E l' := by
  unfold fromLabel; rw [h]

/-- on a well-formed table (tags distinct, labels distinct up to case) the lookups are mutually inverse:
    `from_tag(get_tag(label)) = from_label(label)`, `from_label(get_label(tag)) = from_tag(tag)`,
    and every member is found by its own tag and by its own label -/
theorem enum_roundtrip (E : List EnumRow) (hwf : enumWF E = true) :
    (∀ m ∈ E, fromTag E m.1 = .ok m ∧ fromLabel E m.2.1 = .ok m) ∧
    (∀ l m, fromLabel E l = .ok m → getTag E l = .ok m.1 ∧ fromTag E m.1 = .ok m) ∧
    (∀ t m, fromTag E t = .ok m → getLabel E t = .ok m.2.1 ∧ fromLabel E m.2.1 = .ok m) := by
  simp only [enumWF, Bool.and_eq_true, decide_eq_true_eq] at hwf
  have key : ∀ m ∈ E, fromTag E m.1 = .ok m ∧ fromLabel E m.2.1 = .ok m := by
    intro m hm
    constructor
    · unfold fromTag
      rw [show E.find? (fun m' => m'.1 == m.1) = some m from find_unique (fun m : EnumRow => m.1) E hwf.1 m hm]
    · unfold fromLabel
      rw [show E.find? (fun m' => upper m'.2.1 == upper m.2.1) = some m from
        find_unique (fun m : EnumRow => upper m.2.1) E hwf.2 m hm]
  refine ⟨key, ?_, ?_⟩
  · intro l m h
    exact ⟨by simp [getTag, h], (key m ((enum_lookup_sound E m).2 l h).1).1⟩
  · intro t m h
    exact ⟨by simp [getLabel, h], (key m ((enum_lookup_sound E m).1 t h).1).2⟩

/-- `contains` answers truthfully -/
theorem enum_contains_iff (E : List EnumRow) :
    (∀ t, containsTag E t = true ↔ ∃ m ∈ E, m.1 = t) ∧
    (∀ l, containsLabel E l = true ↔ ∃ m ∈ E, upper m.2.1 = upper l) := by
  constructor
  · intro t; simp [containsTag, List.find?_isSome]
  · intro l; simp [containsLabel, List.find?_isSome]

set_option maxRecDepth 8000 in
/-- the two real member tables (regenerated from the source) are well-formed and non-empty, so `enum_roundtrip` applies:
    a duplicated tag or a label clash up to case introduced in the source fails here -/
theorem real_enums_wf :
    enumWF enumSb2CmdTag = true ∧ enumWF enumAhabTargetMemory = true ∧
    enumSb2CmdTag ≠ [] ∧ enumAhabTargetMemory ≠ [] := by decide

example : fromLabel enumAhabTargetMemory "NoR".toList = .ok (1, "nor".toList, none) ∧
          fromTag enumSb2CmdTag 6 = .error .spsdk ∧ getTag enumSb2CmdTag "erase".toList = .ok 7 ∧
          (getDescription enumSb2CmdTag 11 none).toOption.join.isSome = true ∧
          getDescription enumSb2CmdTag 1 (some ['d']) = .ok (some ['d']) := by decide

/-! ## non-vacuity for the generated phase-2 functions -/

example : getBytesCntOfInt 10 70000 true none = .ok 4 ∧ getBytesCntOfInt 10 70000 false none = .ok 3 ∧
          getBytesCntOfInt 10 65536 true (some 3) = .error .spsdk ∧ getBytesCntOfInt 10 0 true (some 0) = .ok 1 ∧
          getBytesCntOfInt 2 70000 true none = .error .other ∧          -- fuel too small
          getBytesCntOfInt 64 (-1) true none = .error .spsdk ∧ getBytesCntOfInt 0 (-1) true none = .error .spsdk := by decide   -- refused (fix 55a6c57)
example : bcdCheckNumber 0x1234 = .ok true ∧ bcdCheckNumber 0x12A4 = .error .spsdk ∧ bcdCheckNumber (-1) = .error .spsdk := by decide
example : alignBlockNumPadding 13 8 = .ok 3 ∧ alignBlockNumPadding 16 8 = .ok 0 ∧ alignBlockNumPadding 5 0 = .error .spsdk ∧
          extendBlockNumPadding 5 9 0 = .ok 4 ∧ extendBlockNumPadding 5 4 0 = .error .spsdk := by decide
example : splitData [1, 2, 3, 4, 5, 6, 7] 3 = .ok [[1, 2, 3], [4, 5, 6], [7]] ∧ splitData [1, 2] (-1) = .ok [] := by decide
example : patternProp "0b101".toList = "0x5".toList ∧ patternAccept "inc".toList = true ∧ patternAccept "incr".toList = false ∧
          patternAccept "".toList = false := by decide

end Phase2

/-! # Phase 3 — the remaining public helpers (Model/Misc3.lean, helpers Proofs/Misc3.lean)

`reverse_bits` on every integer, `format_value`, `value_to_bytes` on every source type, `extend_block` with an integer
padding, `find_first`, `SpsdkSoftEnum`, `Endianness`, `change_endianness` for every width, `size_fmt`, `BcdVersion3`
text round trip, `SecBootBlckSize.align_block_fill_zeros`, and the FILE branch of `load_hex_string`.
`PyFuns3.*` / `Misc3Tables.*` are regenerated from the source on every run. -/

section Phase3
open SpsdkVerif.Generated.PyFuns2 SpsdkVerif.Generated.PyFuns3 SpsdkVerif.Generated.EnumTables SpsdkVerif.Generated.Misc3Tables

theorem reverseBitsI_err (x n : Int) : (x < 0 ∨ n < 0) ↔ reverseBitsI x n = .error .other := by
  unfold reverseBitsI
  by_cases h : x < 0 ∨ n < 0 <;> simp [h]

theorem reverseBitsI_invol (x n : Int) (h0 : 0 ≤ x) (hn : 0 < n) (h : x.toNat < 2 ^ n.toNat) :
    ∃ y, reverseBitsI x n = .ok y ∧ reverseBitsI (y : Int) n = .ok x.toNat := by
  have h1 : ¬ (x < 0 ∨ n < 0) := by omega
  refine ⟨reverseBits x.toNat n.toNat, by simp only [reverseBitsI, h1, if_false], ?_⟩
  have h2 : ¬ (((reverseBits x.toNat n.toNat : Nat) : Int) < 0 ∨ n < 0) := by omega
  simp only [reverseBitsI, h2, if_false, Int.toNat_natCast]
  rw [reverseBits_invol _ _ h (by omega)]

theorem extendBlockI_spec (d : Bytes) (len pad : Int) :
    extendBlockI d len pad =
      if len < d.length then .error .spsdk
      else if len = d.length then .ok d
      else if pad < 0 ∨ pad > 255 then .error .other
      else .ok (d ++ List.replicate (len.toNat - d.length) (UInt8.ofNat pad.toNat)) := by
  unfold extendBlockI extendBlockNumPadding
  by_cases h : len < d.length
  · simp [h]
  · by_cases h2 : len = d.length
    · simp [h2]
    · have h3 : ¬ (len - (d.length : Int) = 0) := by omega
      simp only [h, h2, h3, if_false, decide_false, Bool.false_eq_true]
      by_cases h4 : pad < 0 ∨ pad > 255
      · simp [h4]
      · simp only [h4, if_false]
        congr 3
        omega

theorem extendBlockI_byte (d : Bytes) (len : Int) (p : UInt8) :
    extendBlockI d len (p.toNat : Int) = extendBlock d len p := by
  rw [extendBlockI_spec, extendBlock_spec]
  have hp := p.toNat_lt
  by_cases h : len < d.length
  · simp [h]
  · by_cases h2 : len = d.length
    · subst h2; simp
    · have h4 : ¬ ((p.toNat : Int) < 0 ∨ (p.toNat : Int) > 255) := by omega
      simp [h, h2, h4]

theorem findFirst_spec {α} (l : List α) (p : α → Bool) :
    (∀ a, findFirst l p = some a ↔ p a = true ∧ ∃ pre post, l = pre ++ a :: post ∧ ∀ x ∈ pre, p x = false) ∧
    (findFirst l p = none ↔ ∀ x ∈ l, p x = false) := by
  constructor
  · intro a
    simp [findFirst, List.find?_eq_some_iff_append]
  · simp [findFirst]

/-! soft enum -/
theorem softFromTag_spec (E : List EnumRow) (cls : List Char) (t : Int) :
    (softFromTag E cls t).1 = t ∧
    (∀ m, fromTag E t = .ok m → softFromTag E cls t = m ∧ softGetLabel E cls t = m.2.1) ∧
    (fromTag E t = .error .spsdk → softFromTag E cls t = softUnknownRow cls t ∧
        softGetDescription E cls t none ≠ none) := by
  refine ⟨?_, ?_, ?_⟩
  · unfold softFromTag
    cases h : fromTag E t with
    | ok m => exact ((enum_lookup_sound E m).1 t h).2
    | error e => rfl
  · intro m h
    simp [softFromTag, softGetLabel, h]
  · intro h
    simp [softFromTag, softGetDescription, h, softUnknownRow]

theorem endianness_members :
    endiannessMembers = [("BIG".toList, "big".toList), ("LITTLE".toList, "little".toList)] := by decide

theorem changeEndianness_widths (b : Bytes) :
    (changeEndianness b = .error .spsdk ↔ b.length ≠ 1 ∧ b.length ≠ 2 ∧ b.length % 4 ≠ 0) ∧
    (∀ c, changeEndianness b = .ok c → c.length = b.length) ∧
    (b.length ≤ 4 → b.length ≠ 3 → changeEndianness b = .ok b.reverse ∧ leDec b.reverse = beDec b) := by
  refine ⟨?_, ?_, ?_⟩
  · unfold changeEndianness reverseBytesInLongs
    by_cases h1 : b.length = 1
    · simp [h1]
    by_cases h2 : b.length = 2
    · simp [h2]
    by_cases h3 : b.length = 3
    · simp [h3]
    by_cases h4 : b.length % 4 = 0
    · simp [h1, h2, h3, h4]
    · simp [h1, h2, h3, h4]
  · intro c hc
    by_cases h : b.length = 1 ∨ b.length = 2 ∨ b.length % 4 = 0
    · obtain ⟨c', e1, e2⟩ := changeEndianness_invol b h
      rw [e1] at hc; cases hc
      by_cases h1 : b.length = 1
      · simp [changeEndianness, h1] at e1; rw [← e1]
      by_cases h2 : b.length = 2
      · simp [changeEndianness, h2] at e1; rw [← e1]; simp
      have h4 : b.length % 4 = 0 := by omega
      have h3 : b.length ≠ 3 := by omega
      simp [changeEndianness, h1, h2, h3, reverseBytesInLongs, h4] at e1
      rw [← e1]; exact (revLongs_spec b h4).1
    · have : changeEndianness b = .error .spsdk := by
        unfold changeEndianness reverseBytesInLongs
        have h1 : b.length ≠ 1 := by omega
        have h2 : b.length ≠ 2 := by omega
        have h4 : b.length % 4 ≠ 0 := by omega
        by_cases h3 : b.length = 3 <;> simp [h1, h2, h3, h4]
      rw [this] at hc; cases hc
  · intro h4 h3
    refine ⟨?_, by simp [leDec]⟩
    match b, h4, h3 with
    | [], _, _ => simp [changeEndianness, reverseBytesInLongs, chunk4]
    | [a], _, _ => simp [changeEndianness]
    | [a, b'], _, _ => simp [changeEndianness]
    | [a, b', c], _, h3 => simp at h3
    | [a, b', c, d], _, _ => simp [changeEndianness, reverseBytesInLongs, chunk4]
    | _ :: _ :: _ :: _ :: _ :: _, h4, _ => simp at h4

theorem sbFillZeros_spec (d : Bytes) :
    ∃ r, sbAlignBlockFillZeros d = .ok r ∧ d <+: r ∧ sbIsAligned r.length = .ok true ∧
      sbToNumBlocks r.length = .ok ((r.length : Int) / 16) ∧ sbAlign d.length = .ok (r.length : Int) ∧
      ∀ x ∈ r.drop d.length, x = 0 := by
  obtain ⟨r, hr, hp, hm, hle, hlt, hz⟩ := alignBlock_spec d 16 0 (by omega)
  refine ⟨r, hr, hp, ?_, ?_, ?_, hz⟩
  · have := sbToNumBlocks_spec (r.length : Int)
    simp only [sbIsAligned, pyMod]
    rw [Int.fmod_eq_emod_of_nonneg _ (by omega)]
    simp [hm]
  · rw [sbToNumBlocks_spec]; simp [hm]
  · obtain ⟨r', hr', hd, h1, h2⟩ := sbAlign_spec (d.length : Int) (by omega)
    rw [hr']
    congr 1
    obtain ⟨k, hk⟩ := hd
    have : (r.length : Int) = 16 * ((r.length : Int) / 16) := by omega
    omega

theorem formatValuePadding_spec (size : Int) :
    formatValuePadding size = .ok (if size % 8 ≠ 0 then size else size / 8 * 2) := by
  have e1 : pyMod size 8 = size % 8 := by
    simp only [pyMod]; exact Int.fmod_eq_emod_of_nonneg _ (by omega)
  have e2 : pyFloorDiv size 8 = size / 8 := by
    simp only [pyFloorDiv]; exact Int.fdiv_eq_ediv_of_nonneg _ (by omega)
  simp only [formatValuePadding, e1, e2]
  by_cases h : size % 8 = 0 <;> simp [h]

theorem formatValue_err (value size : Int) (d : List Char) (p : Bool) :
    size < 0 ↔ formatValue value size d p = .error .other := by
  unfold formatValue
  rw [formatValuePadding_spec]
  by_cases h8 : size % 8 = 0
  · simp only [h8, ne_eq, not_true_eq_false, if_false]
    by_cases h : size < 0
    · have : size / 8 * 2 < 0 := by omega
      simp [h, this]
    · have : ¬ size / 8 * 2 < 0 := by omega
      simp [h, this]
  · simp only [h8, ne_eq, not_false_eq_true, if_true]
    by_cases h : size < 0 <;> simp [h]

theorem guards3_spec :
    (∀ n : Nat, bcdNumFromStrGuard n = if 1 ≤ n ∧ n ≤ 4 then .ok true else .error .spsdk) ∧
    (∀ v : Int, unpackTimestampGuard v = if 0 ≤ v ∧ v ≤ 0xFFFFFFFFFFFFFFFF then .ok true else .error .spsdk) := by
  constructor
  · intro n
    unfold bcdNumFromStrGuard
    by_cases h : 1 ≤ n ∧ n ≤ 4
    · have h1 : ¬ ((n : Int) < 1) := by omega
      have h2 : ¬ ((n : Int) > 4) := by omega
      simp [h, h1, h2]
    · have h2 : (n : Int) < 1 ∨ (n : Int) > 4 := by omega
      rcases h2 with h2 | h2 <;> simp [h, h2]
  · intro v
    unfold unpackTimestampGuard
    by_cases h : 0 ≤ v ∧ v ≤ 0xFFFFFFFFFFFFFFFF
    · have h1 : ¬ (v < 0) := by omega
      have h2 : ¬ (v > 18446744073709551615) := by omega
      simp [h, h1, h2]
    · by_cases h1 : v < 0
      · simp [h, h1]
      · have h2 : v > 18446744073709551615 := by omega
        simp [h, h2]


/-! ## `value_to_bytes` on every source type -/

/-- bytes come back unchanged whatever `byte_cnt` says; a string is converted exactly like the number it denotes
    (`value_to_bytes(s) = value_to_bytes(value_to_int(s))`) and refused with an SPSDK error when it is no number -/
theorem valueToBytesAny_spec (a2n le : Bool) (bc : Option Int) :
    (∀ b, valueToBytesAny (.bytes b) a2n bc le = .ok b) ∧
    (∀ s v, valueToInt s = some v → valueToBytesAny (.str s) a2n bc le = valueToBytesAny (.int v) a2n bc le) ∧
    (∀ s, valueToInt s = none → valueToBytesAny (.str s) a2n bc le = .error .spsdk) ∧
    (∀ v : Nat, bc.getD 0 = 0 → valueToBytesAny (.int v) a2n bc le = valueToBytes v a2n 0 le) := by
  refine ⟨fun _ => rfl, ?_, ?_, ?_⟩
  · intro s v h
    have : ¬ ((v : Int) < 0) := by omega
    simp [valueToBytesAny, h, this]
  · intro s h; simp [valueToBytesAny, h]
  · intro v h
    have : ¬ ((v : Int) < 0) := by omega
    simp [valueToBytesAny, h, this]

/-! ## `size_fmt` (exact arithmetic) -/

/-- the printed mantissa is the nearest tenth (ties to even) of the exact quotient -/
theorem sizeFmt_rounding (a d : Nat) (hd : 0 < d) :
    2 * (roundHalfEven a d * d) ≤ 2 * a + d ∧ 2 * a ≤ 2 * (roundHalfEven a d * d) + d :=
  roundHalfEven_spec a d hd

/-- the unit is the largest one not above the value — as long as the loop does not run off the end of the unit list.
    FULL statement (false on the current code, known finding C20-size-fmt-last-unit): the upper bound `n < base^(r+1)`
    for every `n`; it fails from `base^6` on, where `r = 6` divisions are made but the label stays at the 6th unit (`P`). -/
theorem sizeFmt_unit_partial (base n : Nat) (suffix : List Char) :
    let r := (sizeFmtLoop base n (sizeFmtUnits suffix) 0 ['B']).1
    (r = 0 ∨ base ^ r ≤ n) ∧ (r < (sizeFmtUnits suffix).length → n < base ^ (r + 1)) ∧ r ≤ (sizeFmtUnits suffix).length := by
  obtain ⟨a, b, _, d⟩ := sizeFmtLoop_spec base n (sizeFmtUnits suffix) 0 ['B'] (Or.inl rfl)
  exact ⟨a, fun h => b (by omega), by omega⟩

example : sizeFmtBases = [(1000, "B".toList), (1024, "iB".toList)] ∧ sizeFmtPrefixes = "kMGTP".toList := by decide
example : sizeFmt 0 true = "0 B".toList ∧ sizeFmt 1023 true = "1023 B".toList ∧ sizeFmt (-2000) true = "-2000 B".toList ∧
          sizeFmt 1024 true = "1.0 kiB".toList ∧ sizeFmt 1536 true = "1.5 kiB".toList ∧ sizeFmt 1076 true = "1.1 kiB".toList ∧
          sizeFmt 1050 false = "1.0 kB".toList ∧ sizeFmt 1150 false = "1.2 kB".toList ∧      -- ties go to the even tenth
          sizeFmt (1024 * 1024 - 1) true = "1024.0 kiB".toList := by decide
/-- the defect: one exbibyte prints like one pebibyte -/
example : sizeFmt (1024 ^ 6) true = "1.0 PiB".toList ∧ sizeFmt (1024 ^ 5) true = "1.0 PiB".toList := by decide

/-! ## `BcdVersion3`: text form round trip -/

/-- `from_str(str(v)) = v` for every version the constructor accepts -/
theorem bcd_str_roundtrip (a b c : Nat) (ha : bcdDigitOk a = true) (hb : bcdDigitOk b = true) (hc : bcdDigitOk c = true) :
    bcdFromStr (bcdStr (a, b, c)) = .ok (a, b, c) := by
  have nd : ∀ n, bcdDigitOk n = true → '.' ∉ bcdToDigits n := by
    intro n hn hm
    exact (dec_facts _ ((bcdToDigits_facts n hn).2.2.1 _ hm)).2.2.1 rfl
  have e : bcdStr (a, b, c) = bcdToDigits a ++ '.' :: (bcdToDigits b ++ '.' :: bcdToDigits c) := by simp [bcdStr]
  simp only [bcdFromStr]
  rw [e, splitOn_append '.' _ _ (nd a ha), splitOn_append '.' _ _ (nd b hb), splitOn_nosep '.' _ (nd c hc)]
  simp only [bcdNumFromStr_digits a ha, bcdNumFromStr_digits b hb, bcdNumFromStr_digits c hc]

/-- whatever text `from_str` accepts, the printed form of the result parses back to the same version
    (the printed form is canonical even where the accepted text was not — see the finding below) -/
theorem bcd_canonical (t : List Char) (v : Nat × Nat × Nat) (h : bcdFromStr t = .ok v) :
    bcdFromStr (bcdStr v) = .ok v := by
  unfold bcdFromStr at h
  split at h
  · rename_i a b c _
    cases ha : bcdNumFromStr a with
    | error e => rw [ha] at h; cases h
    | ok x =>
      cases hb : bcdNumFromStr b with
      | error e => rw [ha, hb] at h; cases h
      | ok y =>
        cases hc : bcdNumFromStr c with
        | error e => rw [ha, hb, hc] at h; cases h
        | ok z =>
          rw [ha, hb, hc] at h
          cases h
          exact bcd_str_roundtrip x y z (bcdNumFromStr_ok a x ha) (bcdNumFromStr_ok b y hb) (bcdNumFromStr_ok c z hc)
  · cases h

/-- the generated constant `BcdVersion3.DEFAULT` is a valid version -/
theorem bcd_default_valid : bcdFromStr bcdDefault = .ok (0x999, 0x999, 0x999) := by decide

/-- the documented grammar `#.#.#`, `#` = 1–4 decimal digits, as a predicate on the text -/
def BcdGrammar (t : List Char) : Prop :=
  ∃ a b c : List Char, t = a ++ '.' :: (b ++ '.' :: c) ∧
    ∀ p ∈ [a, b, c], 1 ≤ p.length ∧ p.length ≤ 4 ∧ ∀ ch ∈ p, '0' ≤ ch ∧ ch ≤ '9'

/-- `str.split` re-joins to the text -/
theorem splitOn_join3 (t a b c : List Char) (h : splitOn '.' t = [a, b, c]) : t = a ++ '.' :: (b ++ '.' :: c) := by
  have key : ∀ (t : List Char) (g : List Char) (gs : List (List Char)), splitOn '.' t = g :: gs →
      t = joinWith ['.'] (g :: gs) := by
    intro t
    induction t with
    | nil => intro g gs h; simp [splitOn] at h; obtain ⟨rfl, rfl⟩ := h; rfl
    | cons ch cs ih =>
      intro g gs h
      rw [splitOn] at h
      by_cases hc : ch = '.'
      · subst hc
        simp only [beq_self_eq_true, if_true, List.cons.injEq] at h
        obtain ⟨rfl, rfl⟩ := h
        cases hs : splitOn '.' cs with
        | nil => exact absurd hs (splitOn_ne_nil '.' cs)
        | cons g' gs' =>
          have := ih g' gs' hs
          rw [this]
          simp [joinWith]
      · have hc' : (ch == '.') = false := by simp [hc]
        simp only [hc', if_false, Bool.false_eq_true] at h
        cases hs : splitOn '.' cs with
        | nil => exact absurd hs (splitOn_ne_nil '.' cs)
        | cons g' gs' =>
          rw [hs] at h
          simp only [List.cons.injEq] at h
          obtain ⟨rfl, rfl⟩ := h
          have := ih g' gs' hs
          rw [this]
          cases gs' with
          | nil => simp [joinWith]
          | cons g'' gs'' => simp [joinWith]
  have := key t a [b, c] h
  simpa [joinWith] using this

/-- AFTER fix 619e9e1 the parser accepts exactly the documented grammar: whatever `from_str` accepts is `#.#.#` with 1–4
    decimal digits per component (before the fix `'0x1.+2. 3'`, `'1_2.0.0'`, `'-0.0.0'` and non-ASCII digits were accepted) … -/
theorem bcdFromStr_grammar (t : List Char) (v : Nat × Nat × Nat) (h : bcdFromStr t = .ok v) : BcdGrammar t := by
  unfold bcdFromStr at h
  split at h
  · rename_i a b c hs
    cases ha : bcdNumFromStr a with
    | error e => rw [ha] at h; cases h
    | ok x =>
      cases hb : bcdNumFromStr b with
      | error e => rw [ha, hb] at h; cases h
      | ok y =>
        cases hc : bcdNumFromStr c with
        | error e => rw [ha, hb, hc] at h; cases h
        | ok z =>
          refine ⟨a, b, c, splitOn_join3 t a b c hs, ?_⟩
          intro p hp
          simp only [List.mem_cons, List.not_mem_nil, or_false] at hp
          rcases hp with rfl | rfl | rfl
          · exact bcdNumFromStr_grammar _ x ha
          · exact bcdNumFromStr_grammar _ y hb
          · exact bcdNumFromStr_grammar _ z hc
  · cases h

/-- … and every refusal is an SPSDK error (before the fix an empty or `_1` / `zz` component raised `ValueError`) -/
theorem bcdFromStr_err_spsdk (t : List Char) (e : PyErr) (h : bcdFromStr t = .error e) : e = .spsdk := by
  unfold bcdFromStr at h
  split at h
  · rename_i a b c _
    cases ha : bcdNumFromStr a with
    | error e' => rw [ha] at h; cases h; exact bcdNumFromStr_err a _ ha
    | ok x =>
      cases hb : bcdNumFromStr b with
      | error e' => rw [ha, hb] at h; cases h; exact bcdNumFromStr_err b _ hb
      | ok y =>
        cases hc : bcdNumFromStr c with
        | error e' => rw [ha, hb, hc] at h; cases h; exact bcdNumFromStr_err c _ hc
        | ok z => rw [ha, hb, hc] at h; cases h
  · cases h; rfl

/-- the generated alphabet of the component check -/
theorem bcd_alphabet : bcdNumAlphabet = "0123456789abcdefABCDEF".toList := by decide

/-- behaviour after fix 619e9e1 (each of the first six was accepted or a `ValueError` before) -/
example : bcdFromStr "0x1.+2. 3".toList = .error .spsdk ∧ bcdFromStr "1_2.0.0".toList = .error .spsdk ∧
          bcdFromStr "-0.0.0".toList = .error .spsdk ∧ bcdFromStr ".0.0".toList = .error .spsdk ∧
          bcdFromStr "_1.0.0".toList = .error .spsdk ∧ bcdFromStr "zz.0.0".toList = .error .spsdk ∧
          bcdFromStr "a.0.0".toList = .error .spsdk ∧ bcdFromStr "12345.0.0".toList = .error .spsdk ∧
          bcdFromStr "1.2".toList = .error .spsdk ∧ bcdFromStr "9999.0.10".toList = .ok (0x9999, 0, 0x10) := by decide
example : BcdGrammar "12.0.9999".toList :=
  ⟨"12".toList, "0".toList, "9999".toList, by decide, by decide⟩
example : bcdDigitOk 0x9999 = true ∧ bcdDigitOk 0x12 = true ∧ bcdStr (0x12, 0, 0x9999) = "12.0.9999".toList := by decide

/-! ## `load_hex_string`: the FILE branch -/

/-- A key file is read as a NUMBER when its (ASCII) text denotes one that fits `expected_size` bytes — then the result is
    that number big-endian on `expected_size` bytes, exactly as for a literal — and as RAW BYTES otherwise, which must then
    be exactly `expected_size` long; anything else is refused with an SPSDK error. -/
theorem loadHexFile_spec (content : Bytes) (n : Int) (hn : 1 ≤ n) :
    loadHexFile content n =
      match (asciiText content).bind (fun t => if t.isEmpty then none else valueToInt (with0x t)) with
      | some v => if v < 256 ^ n.toNat then .ok (some (beEnc n.toNat v))
                  else if (content.length : Int) = n then .ok (some content) else .error .spsdk
      | none => if (content.length : Int) = n then .ok (some content) else .error .spsdk :=
  loadHexFile_eq content n hn

/-- every accepted key file yields exactly `expected_size` bytes -/
theorem loadHexFile_length (content : Bytes) (n : Int) (hn : 1 ≤ n) (b : Bytes) (h : loadHexFile content n = .ok (some b)) :
    (b.length : Int) = n := by
  rw [loadHexFile_eq content n hn] at h
  split at h
  · split at h
    · cases h; rw [beEnc_length]; omega
    · split at h
      · cases h; assumption
      · cases h
  · split at h
    · cases h; assumption
    · cases h

/-- a file that is not ASCII text (a binary key) is returned verbatim when it has `expected_size` bytes, else refused -/
theorem loadHexFile_binary (content : Bytes) (n : Int) (hn : 1 ≤ n) (h : asciiText content = none) :
    loadHexFile content n = if (content.length : Int) = n then .ok (some content) else .error .spsdk := by
  rw [loadHexFile_eq content n hn, h]; rfl

/-- an existing file takes precedence over reading the source as a literal; without one the literal branch is used -/
theorem loadHexStringFS_dispatch (s : List Char) (n : Int) (hs : s ≠ []) (hn : 1 ≤ n) :
    (∀ content, loadHexStringFS (some content) (.str s) n = loadHexFile content n) ∧
    loadHexStringFS none (.str s) n = loadHexString (.str s) n := by
  have he : s.isEmpty = false := by cases s <;> simp_all
  have hn' : ¬ n < 1 := by omega
  exact ⟨fun c => by simp [loadHexStringFS, he, hn'], rfl⟩

def asciiBytes (s : String) : Bytes := s.toList.map (fun c => UInt8.ofNat c.toNat)

/-- recorded behaviour of the file branch -/
example : loadHexFile (asciiBytes "0102\n") 2 = .ok (some [1, 2]) ∧          -- hex text + newline
          loadHexFile (asciiBytes "0x0102") 2 = .ok (some [1, 2]) ∧
          loadHexFile (asciiBytes "  0102") 2 = .error .spsdk ∧                -- LEADING blanks: `0x` is prepended before the strip
          loadHexFile [0xFF, 0xFE] 2 = .ok (some [0xFF, 0xFE]) ∧                                             -- binary key
          loadHexFile [0xFF, 0xFE, 0x01] 2 = .error .spsdk ∧
          loadHexFile (asciiBytes "12") 2 = .ok (some [0, 0x12]) ∧             -- AMBIGUITY: a 2-byte binary key b"12" reads as the number 0x12
          loadHexFile [] 2 = .error .spsdk := by decide

/-! ## non-vacuity for phase 3 -/

example : reverseBitsI 2 1 = .ok 1 ∧ reverseBitsI 1 1 = .ok 1 ∧            -- x ≥ 2^n: mirrored on its own bit length, not an involution
          reverseBitsI 6 2 = .ok 3 ∧ reverseBitsI (-1) 4 = .error .other ∧ reverseBitsI 3 4 = .ok 12 := by decide
example : (0 : Int) ≤ 3 ∧ (0 : Int) < 4 ∧ (3 : Int).toNat < 2 ^ (4 : Int).toNat := by decide
example : formatValue 0x12345 32 "_".toList true = .ok "0x0001_2345".toList ∧ formatValue 5 3 "_".toList true = .ok "0b101".toList ∧
          formatValue (-5) 8 "_".toList true = .ok "-0x05".toList ∧ formatValue 5 (-8) "_".toList true = .error .other ∧
          formatValue 0x12345 20 "-:".toList false = .ok "0001:-0010:-0011:-0100:-0101".toList := by decide
example : extendBlockI [1, 2] 2 300 = .ok [1, 2] ∧ extendBlockI [1, 2] 3 300 = .error .other ∧ extendBlockI [1, 2] 4 7 = .ok [1, 2, 7, 7] ∧
          extendBlockI [1, 2] 1 0 = .error .spsdk := by decide
example : findFirst [1, 2, 3, 4] (fun x => x % 2 == 0) = some 2 ∧ findFirst ([] : List Nat) (fun _ => true) = none := by decide
example : softFromTag enumFlagsSrkSet "FlagsSrkSet".toList 1 = (1, "nxp".toList, some "Signed by NXP keys".toList) ∧
          softGetLabel enumFlagsSrkSet "FlagsSrkSet".toList 99 = "FlagsSrkSet:Unknown_0x63".toList ∧
          softGetLabel enumFlagsSrkSet "FlagsSrkSet".toList (-3) = "FlagsSrkSet:Unknown_-0x3".toList ∧
          fromTag enumFlagsSrkSet 99 = .error .spsdk ∧ enumWF enumFlagsSrkSet = true := by decide
example : changeEndianness [1, 2, 3, 4] = .ok [4, 3, 2, 1] ∧ changeEndianness [1, 2, 3] = .error .spsdk ∧
          changeEndianness [1, 2, 3, 4, 5, 6, 7, 8] = .ok [4, 3, 2, 1, 8, 7, 6, 5] ∧ changeEndianness [1, 2, 3, 4, 5] = .error .spsdk := by decide
example : sbAlignBlockFillZeros [1, 2, 3] = .ok ([1, 2, 3] ++ List.replicate 13 0) ∧ sbBlockSize = 16 := by decide
example : valueToBytesAny (.str " 1_000 ".toList) true none false = .ok [3, 0xE8] ∧ valueToBytesAny (.bytes [1, 2, 3]) true (some 1) false = .ok [1, 2, 3] ∧
          valueToBytesAny (.int 5) true (some (-1)) false = .error .spsdk ∧ valueToBytesAny (.int 0) true (some (-1)) false = .error .other ∧
          valueToBytesAny (.int (-1)) true none false = .error .spsdk ∧ loadHexString (.int (-1)) 4 = .error .spsdk := by decide   -- negative ints refused (fix 55a6c57)

end Phase3

end SpsdkVerif.C20
