/-
C01 - Master Boot Image: parse(export(x)) = x and a self-describing header.

Model: `SpsdkVerif.Mbi` (Model/Mbi.lean) - an interpreter of mixin lists over the GENERATED class table, mixin facts,
IVT constants, flag getters and `create_flags` (Generated/MbiClasses.lean, Generated/IvtConsts.lean).
All statements quantify over every payload, option value, key, IV, signature and certificate block (unbounded), and over
every class with `ClassWF c = true`; `all_classes_wf` decides `ClassWF` for every IVT class of the generated table.
Helper lemmas: Proofs/Mbi*.lean.
-/
import SpsdkVerif.Proofs.MbiPlain
import SpsdkVerif.Proofs.MbiSignedV1
import SpsdkVerif.Proofs.MbiSignedV21
import SpsdkVerif.Proofs.MbiEncrypted
import SpsdkVerif.Proofs.MbiMcxc
import SpsdkVerif.Proofs.MbiVx
import SpsdkVerif.Proofs.MbiTzConfig

namespace SpsdkVerif.Properties.C01
open SpsdkVerif SpsdkVerif.Misc SpsdkVerif.Mbi
open SpsdkVerif.Crypto (CryptoOps CryptoLaws)
open SpsdkVerif.Generated.IvtConsts
open SpsdkVerif.Generated.MbiClasses (MixinName)

/-! ## the class table -/

/-- every IVT class of the generated device table (102 = distinct (mixin list, TrustZone size) pairs of 545 database rows)
    is structurally well-formed -/
theorem all_classes_wf : ∀ c ∈ ivtClasses, ClassWF c = true := by decide +kernel

/-- the table is not empty and contains all four families (the quantifier above is not vacuous) -/
example : ivtClasses.length > 50 ∧ (ivtClasses.map (·.family)).eraseDups.length = 4 := by decide +kernel

/-- nothing leaves the theorems' domain silently: a generated class without IVT is one of the known header-less kinds
    (mc56 "Vx" images with a BCA table, mcxc images with BCA/FCF blocks) -/
theorem non_ivt_classes_known :
    ∀ c ∈ allClasses, c.hasAttr .ivt_table = true ∨ c.has .Mbi_MixinBcaTable = true ∨ c.has .Mbi_MixinBca = true := by
  decide +kernel

/-! ## every mixin of the device database is in the interpreter (phase 3: mechanical list, mbi_mixin.py vs. the model) -/

/-- the 28 mixins the interpreter of Model/Mbi.lean gives semantics to: by name in `mixLen` / `mixAppLen` / `flagsOf` / the
    collectors / `encryptStage` / `postEncryptStage` / `signStage` / `finalizeStage` / `mixParse` / the reverts, or through their
    parent (`derivesFrom`, `provider`: `Mbi_MixinIvtZeroTotalLength`, `Mbi_MixinTrustZoneMandatory`, `Mbi_MixinHmacMandatory`,
    `Mbi_MixinManifestCrc/Digest`).  Two of them only add configuration keys and have no export / parse behaviour of their own:
    `Mbi_MixinFwVersion` (the value is carried by the manifest mixins) and `Mbi_MixinLoadAddressOptional` (= `Mbi_MixinLoadAddress`
    with default 0 in `mix_load_from_config`). -/
def interpretedMixins : List MixinName :=
  [.Mbi_MixinApp, .Mbi_MixinIvt, .Mbi_MixinIvtZeroTotalLength, .Mbi_MixinLoadAddress, .Mbi_MixinLoadAddressOptional,
   .Mbi_MixinTrustZone, .Mbi_MixinTrustZoneMandatory, .Mbi_MixinImageSubType, .Mbi_MixinImageVersion, .Mbi_MixinHwKey,
   .Mbi_MixinKeyStore, .Mbi_MixinHmacMandatory, .Mbi_MixinCtrInitVector, .Mbi_MixinRelocTable, .Mbi_MixinFwVersion,
   .Mbi_MixinCertBlockV1, .Mbi_MixinCertBlockV21, .Mbi_MixinManifestCrc, .Mbi_MixinManifestDigest,
   .Mbi_ExportMixinApp, .Mbi_ExportMixinAppTrustZone, .Mbi_ExportMixinAppTrustZoneCertBlock,
   .Mbi_ExportMixinAppCertBlockManifest, .Mbi_ExportMixinAppTrustZoneCertBlockEncrypt, .Mbi_ExportMixinCrcSign,
   .Mbi_ExportMixinRsaSign, .Mbi_ExportMixinEccSign, .Mbi_ExportMixinHmacKeyStoreFinalize]

/-- no IVT class of the generated device table lists a mixin outside that list (a mixin class added to mbi_mixin.py and to a
    device's class makes this fail until the interpreter knows it) -/
theorem all_mixins_interpreted : ∀ c ∈ ivtClasses, ∀ m ∈ c.mixins, interpretedMixins.contains m = true := by decide +kernel

/-- the Vx model (Model/MbiVx.lean) is keyed by `Vx.Kind`, not by mixin names: which kind an mc56 / mwct mixin list is -/
def vxKindOfMixins (ms : List MixinName) : Option Vx.Kind :=
  if ms = [.Mbi_MixinApp, .Mbi_MixinBcaTable, .Mbi_MixinFcfObsolete, .Mbi_ExportMixinAppFcf] then some .plain
  else if ms = [.Mbi_MixinApp, .Mbi_MixinBcaTable, .Mbi_MixinFcfObsolete, .Mbi_ExportMixinCrcSignBca, .Mbi_ExportMixinAppFcf] then some .crc
  else if ms = [.Mbi_MixinApp, .Mbi_MixinBcaTable, .Mbi_MixinBcaObsolete, .Mbi_MixinFcfObsolete, .Mbi_MixinCertBlockVx,
                .Mbi_ExportMixinAppBcaFcf, .Mbi_ExportMixinEccSignVx] then some .signed
  else none

/-- every header-less class with a BCA table is EXACTLY one of the three mixin lists the Vx model covers, and the `sign`
    provider the generated MRO facts resolve for it is the one of that kind -/
theorem vx_classes_known : ∀ c ∈ allClasses, c.has .Mbi_MixinBcaTable = true →
    ∃ k, vxKindOfMixins c.mixins = some k
      ∧ c.resolve .sign = (match k with | .plain => none | .crc => some .Mbi_ExportMixinCrcSignBca | .signed => some .Mbi_ExportMixinEccSignVx)
      ∧ c.resolve .collect_data = (match k with | .signed => some .Mbi_ExportMixinAppBcaFcf | _ => some .Mbi_ExportMixinAppFcf) := by
  decide +kernel

/-- all 40 mixin classes of mbi_mixin.py (the generated `MixinName`) are accounted for: interpreted (IVT classes), one of the
    Vx lists, the two mcxc block mixins, or used by no class of the device database -/
theorem mixin_census : ∀ m : MixinName,
    interpretedMixins.contains m = true
    ∨ [MixinName.Mbi_MixinBcaTable, .Mbi_MixinBcaObsolete, .Mbi_MixinFcfObsolete, .Mbi_MixinCertBlockVx, .Mbi_ExportMixinAppBcaFcf,
       .Mbi_ExportMixinAppFcf, .Mbi_ExportMixinCrcSignBca, .Mbi_ExportMixinEccSignVx].contains m = true
    ∨ [MixinName.Mbi_MixinBca, .Mbi_MixinFcf].contains m = true
    ∨ (allClasses.all (fun c => !c.mixins.contains m)) = true := by
  intro m; cases m <;> decide +kernel

/-! ## the IVT flag word: bit-field independence over the generated masks / shifts / `create_flags` -/

theorem flags_fields (t tz sub ver ksLen : Nat) (hTz hSub hHw hw hKs ksSet hTab tab hVer hV2T v2t : Bool)
    (ht : t ≤ imageTypeMask) (htz : tz ≤ tzTypeMask) (hsub : sub ≤ subTypeMask) (hver : ver ≤ imgVerMask) :
    let f := createFlags t hTz tz hSub sub hHw hw hKs ksSet ksLen hTab tab hVer ver hV2T v2t
    getImageType f = t ∧ getTzType f = (if hTz then tz else 0) ∧ getSubType f = (if hSub then sub else 0)
    ∧ getHwKeyEnabled f = (hHw && hw) ∧ getKeyStorePresented f = (hKs && ksSet && decide (ksLen > 0))
    ∧ getAppTablePresented f = (hTab && tab) ∧ getImageVersion f = (if hVer && hV2T && v2t then ver else 0)
    ∧ f < 2 ^ 32 :=
  Mbi.flags_fields t tz sub ver ksLen hTz hSub hHw hw hKs ksSet hTab tab hVer hV2T v2t ht htz hsub hver

/-- the same round trip with the FORMAT's field widths as literals (6-bit image type, 2-bit TrustZone type, 2-bit sub type,
    16-bit image version - not the generated masks): every getter reads back what `create_flags` wrote over the FULL range of
    its field.  A getter mask narrower than the field the creator writes (e.g. `IVT_IMAGE_FLAGS_IMG_VER_MASK = 0xFF`) makes
    this theorem fail although `flags_fields` (domain = the generated mask) would still be provable. -/
theorem flags_fields_format_widths (t tz sub ver ksLen : Nat) (hTz hSub hHw hw hKs ksSet hTab tab hVer hV2T v2t : Bool)
    (ht : t < 2 ^ 6) (htz : tz < 2 ^ 2) (hsub : sub < 2 ^ 2) (hver : ver < 2 ^ 16) :
    let f := createFlags t hTz tz hSub sub hHw hw hKs ksSet ksLen hTab tab hVer ver hV2T v2t
    getImageType f = t ∧ getTzType f = (if hTz then tz else 0) ∧ getSubType f = (if hSub then sub else 0)
    ∧ getHwKeyEnabled f = (hHw && hw) ∧ getKeyStorePresented f = (hKs && ksSet && decide (ksLen > 0))
    ∧ getAppTablePresented f = (hTab && tab) ∧ getImageVersion f = (if hVer && hV2T && v2t then ver else 0)
    ∧ f < 2 ^ 32 :=
  Mbi.flags_fields t tz sub ver ksLen hTz hSub hHw hw hKs ksSet hTab tab hVer hV2T v2t
    (by have : imageTypeMask = 2 ^ 6 - 1 := by decide
        omega)
    (by have : tzTypeMask = 2 ^ 2 - 1 := by decide
        omega)
    (by have : subTypeMask = 2 ^ 2 - 1 := by decide
        omega)
    (by have : imgVerMask = 2 ^ 16 - 1 := by decide
        omega)

/-- `get_image_version (create_flags … v …) = v` for EVERY 16-bit version of a class that stores it (the reviewer's wave-6 change) -/
theorem image_version_roundtrip (t tz sub v ksLen : Nat) (hTz hSub hHw hw hKs ksSet hTab tab : Bool)
    (ht : t < 2 ^ 6) (htz : tz < 2 ^ 2) (hsub : sub < 2 ^ 2) (hv : v < 2 ^ 16) :
    getImageVersion (createFlags t hTz tz hSub sub hHw hw hKs ksSet ksLen hTab tab true v true true) = v :=
  (flags_fields_format_widths t tz sub v ksLen hTz hSub hHw hw hKs ksSet hTab tab true true true ht htz hsub hv).2.2.2.2.2.2.1

/-- the hypotheses are satisfiable at the top of every range -/
example : (63 : Nat) < 2 ^ 6 ∧ (3 : Nat) < 2 ^ 2 ∧ (0xFFFF : Nat) < 2 ^ 16
    ∧ getImageVersion (createFlags 63 true 3 true 3 true true true true 1424 true true true 0xFFFF true true) = 0xFFFF := by decide

/-! ## update_ivt / clean_ivt -/

/-- `clean_ivt` undoes `update_ivt` (on the four IVT words) -/
theorem ivt_update_clean (c : Cls) (cfg : Cfg) (app : Mbi.Bytes) (total crcOff : Nat) (h : minIvtSize ≤ app.length) :
    cleanIvt (updateIvt c cfg app total crcOff) = cleanIvt app := Mbi.cleanIvt_updateIvt c cfg app total crcOff h

/-- the four words read back as written -/
theorem ivt_update_words (c : Cls) (cfg : Cfg) (app : Mbi.Bytes) (total crcOff : Nat) (h : minIvtSize ≤ app.length)
    (hf : flagsOf c cfg < 2 ^ 32) (ht : total < 2 ^ 32) (ho : crcOff < 2 ^ 32) (hl : cfg.loadAddress < 2 ^ 32) :
    let u := updateIvt c cfg app total crcOff
    rd32 u ivtImageLengthOffset = (if c.zeroTotalLength then 0 else total)
    ∧ rd32 u ivtImageFlagsOffset = flagsOf c cfg
    ∧ rd32 u ivtCrcCertificateOffset = (if c.imageType = 0 then 0 else crcOff)
    ∧ rd32 u ivtLoadAddrOffset = (if c.hasAttr .load_address then cfg.loadAddress else 0) :=
  Mbi.updateIvt_words c cfg app total crcOff h hf ht ho hl

/-- every other byte is untouched and the length is kept -/
theorem ivt_update_frame (c : Cls) (cfg : Cfg) (app : Mbi.Bytes) (total crcOff : Nat) (h : minIvtSize ≤ app.length) :
    (updateIvt c cfg app total crcOff).length = app.length
    ∧ ∀ i, ¬ (32 ≤ i ∧ i < 44) → ¬ (52 ≤ i ∧ i < 56) → (updateIvt c cfg app total crcOff)[i]? = app[i]? :=
  Mbi.updateIvt_frame c cfg app total crcOff h

/-! ## relocation table -/

/-- the table parses back to the same entries in the same order, and the application is cut where it started -/
theorem reloc_roundtrip (pre : Mbi.Bytes) (es : List RelocEntry) (hne : es ≠ []) (hok : ∀ e ∈ es, relocEntryOk e = true)
    (hlen : pre.length + (relocExport es pre.length).length < 2 ^ 32) :
    relocParse (pre ++ relocExport es pre.length) = .ok (some (es, pre.length)) :=
  Mbi.reloc_roundtrip pre es hne hok hlen

/-! ## the image theorems -/

/-- hypotheses shared by the image theorems: crypto laws, a structurally well-formed class, an option set the builder
    accepts with values that fit their fields, the external certificate code answering what the builder was told, and a
    signature provider returning signatures of the announced length -/
abbrev Hyp := Mbi.Hyp

/-- "disassemble cuts exactly what collect appended": for every collector, given the TrustZone / certificate the
    mixins parsed, `disassemble_image` recovers the cleaned application and the relocation table -/
theorem disassemble_collect {co : CryptoOps} {env : Env} {c : Cls} {cfg : Cfg} {signer : Signer}
    (h : Hyp co env c cfg signer) (dek : Option Mbi.Bytes) (p : Parsed) (hp : p.tz = cfg.tz)
    (hcert : p.cert.isSome = c.hasAttr .cert_block) (hr : p.reloc = none) :
    ∃ raw, collect c cfg = .ok raw
      ∧ disassemble c p raw = .ok { p with app := (canon c cfg dek).app, reloc := (canon c cfg dek).reloc } := by
  rcases Mbi.family_cases h with hf | hf | hf | hf
  · exact Mbi.disassemble_collect_plain h hf dek p hp hcert hr
  · exact Mbi.disassemble_collect_signedV1 h hf dek p hp hcert hr
  · exact Mbi.disassemble_collect_signedV21 h hf dek p hp hcert hr
  · exact Mbi.disassemble_collect_encrypted h hf dek p hp hcert hr

/-- parse(export(x)) = x: same application (IVT words cleaned, padded to 4), same settings, for every well-formed class
    and option set; `dek` is the decryption key handed to the parser (the image key for encrypted images) -/
theorem parse_export {co : CryptoOps} {env : Env} {c : Cls} {cfg : Cfg} {signer : Signer}
    (h : Hyp co env c cfg signer) (dek : Option Mbi.Bytes) (hdek : c.family = some .encrypted → dek = cfg.hmacKey) :
    ∃ e, exportImage co c cfg signer = .ok e ∧ parseImage co env c dek e = .ok (canon c cfg dek) := by
  rcases Mbi.family_cases h with hf | hf | hf | hf
  · exact Mbi.parse_export_plain h hf dek
  · exact Mbi.parse_export_signedV1 h hf dek
  · exact Mbi.parse_export_signedV21 h hf dek
  · exact Mbi.parse_export_encrypted h hf dek (hdek hf)

/-- the class quantifier of the property: every IVT class of the device database -/
theorem parse_export_all_classes {co : CryptoOps} {env : Env} {c : Cls} {cfg : Cfg} {signer : Signer}
    (hc : c ∈ ivtClasses) (laws : CryptoLaws co) (hcfg : cfgWF c cfg = true) (henv : EnvOK env c cfg)
    (hsig : ∀ m, (signer m).length = cfg.sigLen) (dek : Option Mbi.Bytes) (hdek : c.family = some .encrypted → dek = cfg.hmacKey) :
    ∃ e, exportImage co c cfg signer = .ok e ∧ parseImage co env c dek e = .ok (canon c cfg dek) :=
  parse_export ⟨laws, all_classes_wf c hc, hcfg, henv, hsig⟩ dek hdek

/-- re-exporting the parsed image with the same keys (and any signature of the right length) reproduces every byte
    outside the signature field -/
theorem reexport {co : CryptoOps} {env : Env} {c : Cls} {cfg : Cfg} {signer : Signer}
    (h : Hyp co env c cfg signer) (signer' : Signer) (hs' : ∀ m, (signer' m).length = cfg.sigLen)
    (dek : Option Mbi.Bytes) (hdek : c.has .Mbi_MixinHmac = true → dek = cfg.hmacKey) :
    ∃ e e', exportImage co c cfg signer = .ok e ∧ exportImage co c (canon c cfg dek).toCfg signer' = .ok e'
      ∧ eqOutsideSig c cfg e e' := by
  rcases Mbi.family_cases h with hf | hf | hf | hf
  · exact Mbi.reexport_plain h hf signer' hs' dek hdek
  · exact Mbi.reexport_signedV1 h hf signer' hs' dek hdek
  · exact Mbi.reexport_signedV21 h hf signer' hs' dek hdek
  · exact Mbi.reexport_encrypted h hf signer' hs' dek hdek

/-- the words the boot ROM reads describe the emitted bytes: 0x20 = emitted length (0 for zero-total-length classes),
    0x24 = flags of the settings, 0x34 = load address, 0x28 = 0 (plain) / CRC-32-MPEG2 of the image without that word (CRC) /
    offset of the certificate block = length of application + relocation table = where the block really is (signed) -/
theorem header_describes {co : CryptoOps} {env : Env} {c : Cls} {cfg : Cfg} {signer : Signer}
    (h : Hyp co env c cfg signer) :
    ∃ e, exportImage co c cfg signer = .ok e
      ∧ rd32 e ivtImageLengthOffset = (if c.zeroTotalLength then 0 else e.length)
      ∧ rd32 e ivtImageFlagsOffset = flagsOf c cfg
      ∧ rd32 e ivtLoadAddrOffset = (if c.has .Mbi_MixinLoadAddress then cfg.loadAddress else 0)
      ∧ (c.imageType = 0 → rd32 e ivtCrcCertificateOffset = 0)
      ∧ (c.signKind = .crc → rd32 e ivtCrcCertificateOffset
            = crc32m (e.take ivtCrcCertificateOffset ++ e.drop (ivtCrcCertificateOffset + 4)))
      ∧ (c.hasAttr .cert_block = true →
          rd32 e ivtCrcCertificateOffset = appLen c cfg
          ∧ (let off := appLen c cfg + (if c.has .Mbi_MixinHmac then hmacSize + (cfg.keyStore.getD []).length else 0)
             slice e off (off + cfg.cert.length)
               = (if c.has .Mbi_MixinCertBlockV1 then certInImage c cfg else cfg.cert))) := by
  rcases Mbi.family_cases h with hf | hf | hf | hf
  · exact Mbi.header_describes_plain h hf
  · exact Mbi.header_describes_signedV1 h hf
  · exact Mbi.header_describes_signedV21 h hf
  · exact Mbi.header_describes_encrypted h hf

/-- the emitted length is the sum of the mixins' `mix_len` plus the terms the exporters add on top
    (RSA signature; encrypted IVT copy + counter IV) -/
theorem total_len_sum {co : CryptoOps} {env : Env} {c : Cls} {cfg : Cfg} {signer : Signer}
    (h : Hyp co env c cfg signer) :
    ∃ e, exportImage co c cfg signer = .ok e
      ∧ (e.length : Int) = totalLen c cfg + (if c.signKind = .rsa then cfg.sigLen else 0)
          + (if c.family = some .encrypted then encIvtCopySize + encIvSize else 0) := by
  rcases Mbi.family_cases h with hf | hf | hf | hf
  · exact Mbi.total_len_sum_plain h hf
  · exact Mbi.total_len_sum_signedV1 h hf
  · exact Mbi.total_len_sum_signedV21 h hf
  · exact Mbi.total_len_sum_encrypted h hf

/-- the four slices of the encrypted image that the forward `post_encrypt` takes - GENERATED from its AST, constants by value -
    are the ones `postEncryptStage` (Model/Mbi.lean) is written from: `[:64]` (the IVT part that gets the new words),
    `[64:app_len]` (rest of the application AND the relocation table: the bound is `app_len` = application + relocation table,
    not the length of the application), `[:56]` (copy of the encrypted IVT), `[app_len:]` (TrustZone data).  A changed bound
    (seeded change C02f: `len(self.app)`) breaks this obligation in addition to the concrete oracle failures. -/
theorem post_encrypt_slices :
    postEncryptSlices = [("", "64"), ("64", "app_len"), ("", "56"), ("app_len", "")]
    ∧ hmacOffset = 64 ∧ encIvtCopySize = 56 := by decide

/-! ## images without IVT: mcxc (BCA / FCF blocks inside the application) and mc56 / mwct "Vx" images (Model/MbiVx.lean) -/

/-- every generated class without IVT is either an mc56 class (BCA table) or THE mcxc class -/
theorem mcxc_classes_known :
    ∀ c ∈ allClasses, c.hasAttr .ivt_table = true ∨ c.has .Mbi_MixinBcaTable = true ∨ mcxcClass c = true := Mbi.mcxc_classes_known

/-- mcxc: parse(export(x)) = x, the image is the application with the BCA / FCF blocks in place (nothing else touched, same
    length), and re-exporting the parsed image gives the same bytes -/
theorem parse_export_mcxc (co : CryptoOps) (env : Env) (c : Cls) (cfg : Cfg) (signer : Signer) (dek : Option Mbi.Bytes)
    (hc : mcxcClass c = true) (hw : mcxcCfgWF cfg = true) :
    ∃ e, exportImage co c cfg signer = .ok e
      ∧ parseImage co env c dek e = .ok (canon c cfg dek)
      ∧ e.length = (appData cfg).length
      ∧ slice e fcfOffset (fcfOffset + fcfSize) = cfg.fcf.getD []
      ∧ (∀ b, cfg.bca = some b → slice e bcaOffset (bcaOffset + bcaSize) = b)
      ∧ (∀ i, ¬ (fcfOffset ≤ i ∧ i < fcfOffset + fcfSize) → ¬ (cfg.bca.isSome ∧ bcaOffset ≤ i ∧ i < bcaOffset + bcaSize) →
            e[i]? = (appData cfg)[i]?)
      ∧ exportImage co c (canon c cfg dek).toCfg signer = .ok e := Mbi.parse_export_mcxc co env c cfg signer dek hc hw

/-- Vx: the exporters write only into the tool-owned byte ranges; elsewhere the image is the (4-padded) application -/
theorem vx_export_frame (co : CryptoOps) (k : Vx.Kind) (cfg : Vx.Cfg) (signer : Signer) (hw : Vx.cfgWF k cfg = true)
    (hs : ∀ m, (signer m).length = vxImgBcaOffset - vxImgSignatureOffset)
    (hh : ∀ m, (co.hash .sha256 m).length = vxImgDigestSize) :
    ∃ e, Vx.exportImage co k cfg signer = .ok e
      ∧ e.length = (if cfg.justHeader then vxImgDukBlockOffset else (align4 cfg.app).length)
      ∧ ∀ i, i < e.length → Vx.owned k cfg i = false → e[i]? = (align4 cfg.app)[i]? := Vx.vx_export_frame co k cfg signer hw hs hh

/-- Vx: parse(export(x)) gives the image back as the application, with life cycle and firmware version -/
theorem vx_parse_export (co : CryptoOps) (k : Vx.Kind) (cfg : Vx.Cfg) (signer : Signer) (hw : Vx.cfgWF k cfg = true)
    (hs : ∀ m, (signer m).length = vxImgBcaOffset - vxImgSignatureOffset)
    (hh : ∀ m, (co.hash .sha256 m).length = vxImgDigestSize) :
    ∃ e, Vx.exportImage co k cfg signer = .ok e
      ∧ Vx.parseImage k e = .ok ⟨e, (if cfg.lifecycle = 0xFF then ((align4 cfg.app).getD vxImgFcfLifecycleOffset 0).toNat else cfg.lifecycle),
                                  (if k = .signed then cfg.fwVersion else 0)⟩ := Vx.vx_parse_export co k cfg signer hw hs hh

/-- Vx CRC images: the BCA words describe the data part of the emitted image -/
theorem vx_crc_describes (co : CryptoOps) (cfg : Vx.Cfg) (signer : Signer) (hw : Vx.cfgWF .crc cfg = true) :
    ∃ e, Vx.exportImage co .crc cfg signer = .ok e
      ∧ rd32 e (vxImgBcaOffset + 4) = vxImgDataStart
      ∧ rd32 e (vxImgBcaOffset + 8) = (e.drop vxImgDataStart).length
      ∧ rd32 e (vxImgBcaOffset + 12) = crc32m (e.drop vxImgDataStart) := Vx.vx_crc_describes co cfg signer hw

/-- Vx signed images: BCA words, digest and signature describe / cover exactly header + BCA + data of the emitted image -/
theorem vx_signed_describes (co : CryptoOps) (cfg : Vx.Cfg) (signer : Signer) (hw : Vx.cfgWF .signed cfg = true)
    (hj : cfg.justHeader = false) (hs : ∀ m, (signer m).length = vxImgBcaOffset - vxImgSignatureOffset)
    (hh : ∀ m, (co.hash .sha256 m).length = vxImgDigestSize) :
    ∃ e, Vx.exportImage co .signed cfg signer = .ok e
      ∧ (rd32 e vxImgBcaImageLengthOffset : Int) = (e.length : Int) - vxImgDataStart + (vxImgDigestOffset + (vxImgFcfOffset - vxImgBcaOffset))
      ∧ rd32 e vxImgBcaFwVersionOffset = cfg.fwVersion
      ∧ slice e vxImgDigestOffset vxImgSignatureOffset = co.hash .sha256 (Vx.dataToSign e)
      ∧ slice e vxImgSignatureOffset vxImgBcaOffset = signer (Vx.dataToSign e)
      ∧ slice e vxImgIskOffset (vxImgIskOffset + cfg.cert.length) = cfg.cert
      ∧ (cfg.addHash = true → slice e vxImgIskHashOffset (vxImgIskHashOffset + vxImgIskHashSize) = cfg.certHash) :=
  Vx.vx_signed_describes co cfg signer hw hj hs hh

/-- Vx: re-export of the parsed image reproduces it (outside the signature slot for signed images) -/
theorem vx_reexport (co : CryptoOps) (k : Vx.Kind) (cfg : Vx.Cfg) (signer signer' : Signer) (hw : Vx.cfgWF k cfg = true)
    (hj : cfg.justHeader = false)
    (hs : ∀ m, (signer m).length = vxImgBcaOffset - vxImgSignatureOffset)
    (hs' : ∀ m, (signer' m).length = vxImgBcaOffset - vxImgSignatureOffset)
    (hh : ∀ m, (co.hash .sha256 m).length = vxImgDigestSize) :
    ∃ e e', Vx.exportImage co k cfg signer = .ok e ∧ Vx.exportImage co k { cfg with app := e } signer' = .ok e'
      ∧ e'.length = e.length
      ∧ ∀ i, ¬ (k = .signed ∧ vxImgSignatureOffset ≤ i ∧ i < vxImgBcaOffset) → e'[i]? = e[i]? :=
  Vx.vx_reexport co k cfg signer signer' hw hj hs hs' hh

/-- a Vx configuration satisfying the hypotheses (non-vacuity) -/
example : Vx.cfgWF .signed { app := List.replicate 3100 7, lifecycle := 0x90, fwVersion := 5, cert := List.replicate 136 1,
                             certHash := List.replicate 16 2 } = true := by decide +kernel

/-! ## configuration path: the TrustZone keys `enableTrustZone` / `trustZonePresetFile` (loaders GENERATED from the source) -/

/-- the two `mix_load_from_config` decide as the schema describes the keys: optional TrustZone stays DISABLED unless
    `enableTrustZone` is true (a preset file named next to `enableTrustZone: false` / no `enableTrustZone` does not switch it
    on); enabled: the preset file if one is named, else the default; mandatory TrustZone: preset file if named, else default -/
theorem tz_config_loaders (en pf : Bool) :
    Generated.MbiClasses.tzLoad .Mbi_MixinTrustZone en pf
        = some (if en then (if pf then Generated.MbiClasses.TzChoice.preset else .enabled) else .disabled)
    ∧ Generated.MbiClasses.tzLoad .Mbi_MixinTrustZoneMandatory en pf
        = some (if pf then Generated.MbiClasses.TzChoice.preset else .enabled) := Mbi.tzLoad_spec en pf

/-- which loader decides, for every class of the database: the optional one exactly for the classes that list
    `Mbi_MixinTrustZone` itself, the mandatory one for every other class with a TrustZone setting (directly or through the
    manifest mixins' `super()` chain), none for classes without TrustZone -/
theorem tz_config_loader_of_class : ∀ c ∈ allClasses,
    (c.mixins.contains .Mbi_MixinTrustZone = true → c.tzLoader = some .Mbi_MixinTrustZone)
    ∧ (c.mixins.contains .Mbi_MixinTrustZone = false → c.hasTrustZone = true → c.tzLoader = some .Mbi_MixinTrustZoneMandatory)
    ∧ (c.hasTrustZone = false → c.tzLoader = none) := Mbi.tzLoader_classes

/-- the setting `load_from_config` derives is what the keys request (schema text, `tzRequestedTag`): its type, and for a
    preset file the file's content -/
theorem tz_config_requested (c : Cls) (k : TzKeys) (t : TzCfg)
    (hl : c.tzLoader = some .Mbi_MixinTrustZone ∨ c.tzLoader = some .Mbi_MixinTrustZoneMandatory)
    (h : tzOfConfig c k = .ok (some t)) :
    t.tag = tzRequestedTag (c.tzLoader == some .Mbi_MixinTrustZone) k
    ∧ (t.tag = tzCustom → ∃ d, k.preset = some (some d) ∧ t = .custom (d.take c.tzSize)) := Mbi.tzOfConfig_requested c k t hl h

/-- END TO END (configuration → image): the image exported for the settings `load_from_config` derives carries in the
    TrustZone-type bits of its flag word exactly what the configuration requests, and its TrustZone block is the preset file -/
theorem config_tz_in_image {co : CryptoOps} {env : Env} {c : Cls} {cfg : Cfg} {signer : Signer}
    (h : Mbi.Hyp co env c cfg signer) (htz : c.hasTrustZone = true) (k : TzKeys)
    (hl : c.tzLoader = some .Mbi_MixinTrustZone ∨ c.tzLoader = some .Mbi_MixinTrustZoneMandatory)
    (hk : tzOfConfig c k = .ok (some cfg.tz)) :
    ∃ e, exportImage co c cfg signer = .ok e
      ∧ getTzType (rd32 e ivtImageFlagsOffset) = tzRequestedTag (c.tzLoader == some .Mbi_MixinTrustZone) k
      ∧ (cfg.tz.tag = tzCustom → ∃ d, k.preset = some (some d) ∧ cfg.tz.bytes = d.take c.tzSize) :=
  Mbi.config_tz_in_image h htz k hl hk

/-- `enableTrustZone: false` with a preset file still named: the request is DISABLED (the seeded defect C01c) -/
example : tzRequestedTag true { enable := some false, preset := some (some [1, 2, 3, 4]) } = tzDisabled
    ∧ tzRequestedTag true { enable := none, preset := some (some [1, 2, 3, 4]) } = tzDisabled
    ∧ tzRequestedTag false { enable := some false, preset := some (some [1, 2, 3, 4]) } = tzCustom := by decide

/-! ## non-vacuity: a concrete non-trivial configuration satisfies the hypotheses (decided) -/

/-- an RSA signed load-to-RAM class with HMAC and key store, a relocation table of two entries and a (fake, structurally valid)
    certificate block of 164 bytes; `EnvOK` holds for the constant environment -/
example : ∃ c ∈ ivtClasses, ∃ cfg : Cfg, c.family = some .signedV1 ∧ c.has .Mbi_MixinHmac = true ∧ cfgWF c cfg = true
    ∧ (cfg.reloc.map List.length) = some 2
    ∧ EnvOK ⟨fun _ => cfg.sigLen, fun _ => 0, fun _ => true⟩ c cfg :=
  ⟨Mbi.exampleSignedClass, by decide +kernel, Mbi.exampleSignedCfg, by decide +kernel, by decide +kernel, by decide +kernel,
   by decide +kernel, ⟨fun _ _ => ⟨rfl, rfl⟩, fun h => absurd h (by decide +kernel)⟩⟩

/-- the encrypted class of the same family with counter IV and the image key as `dek` -/
example : ∃ c ∈ ivtClasses, ∃ cfg : Cfg, c.family = some .encrypted ∧ cfgWF c cfg = true ∧ cfg.ctrIv.length = 16 :=
  ⟨Mbi.exampleEncClass, by decide +kernel, { Mbi.exampleSignedCfg with ctrIv := List.replicate 16 0x11 }, by decide +kernel,
   by decide +kernel, by decide +kernel⟩

/-- … and that encrypted configuration CARRIES A RELOCATION TABLE of two entries (the encrypted + relocation-table combination is
    inside the domain of `parse_export` / `header_describes` / `total_len_sum`: `post_encrypt` keeps `image[64 : app_len]`,
    `app_len` = application + relocation table), with the application strictly shorter than `app_len` -/
example : ∃ c ∈ ivtClasses, ∃ cfg : Cfg, c.family = some .encrypted ∧ cfgWF c cfg = true
    ∧ (cfg.reloc.map List.length) = some 2 ∧ (appData cfg).length < appLen c cfg :=
  ⟨Mbi.exampleEncClass, by decide +kernel, { Mbi.exampleSignedCfg with ctrIv := List.replicate 16 0x11 }, by decide +kernel,
   by decide +kernel, by decide +kernel, by decide +kernel⟩

/-- a CRC XIP class with TrustZone and a 64-byte payload with custom TrustZone data -/
example : ∃ c ∈ ivtClasses, ∃ cfg : Cfg, c.signKind = .crc ∧ cfgWF c cfg = true ∧ cfg.app.length = 61 :=
  ⟨Mbi.exampleCrcClass, by decide +kernel, Mbi.exampleCrcCfg, by decide +kernel⟩

end SpsdkVerif.Properties.C01
