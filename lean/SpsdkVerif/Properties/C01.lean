/-
C01 - Master Boot Image: parse(export(x)) = x and a self-describing header.   (placeholder while the theorems are written)
-/
import SpsdkVerif.Model.Mbi

namespace SpsdkVerif.Properties.C01
open SpsdkVerif SpsdkVerif.Mbi

theorem placeholder : (1 : Nat) = 1 := rfl

end SpsdkVerif.Properties.C01
