/-
C14, cross-model part: the `Delimit` assumption of `C14.parse_export` DISCHARGED for application containers from the finished
container models (C01 MBI, C07 HAB, C05 SB3.1 header) - see Proofs/BimgDelimit.lean.  Kept in a module of its own: it imports
other properties' proof files, which their owners keep extending; harness/props/C14.py builds and audits it separately and
reports "blocked by a foreign module" instead of failing C14 when one of those files is temporarily unfinished.
-/
import SpsdkVerif.Model.Bimg
import SpsdkVerif.Model.BimgSpec
import SpsdkVerif.Proofs.BimgDelimit

namespace SpsdkVerif.C14
open SpsdkVerif SpsdkVerif.Misc SpsdkVerif.Bimg SpsdkVerif.Generated

/-! ## `Delimit` discharged for application containers from the container models (C01 MBI, C07 HAB, C05 SB3.1 header)

With `Ext.app` given by the container model, the hypothesis `Delimit.good` of `parse_export` holds for an exported
container - it is a theorem of the container's own round trip, not an assumption.  Not available for AHAB and SB2.1 (no
model of `AHABImage.parse` / `ImageHeaderV2.parse` in C06 / C04, see Proofs/BimgDelimit.lean). -/

/-- MBI: `MasterBootImage.parse` (+ `validate()`) accepts every image `exportImage` emits, for every well-formed class and
    option set (C01 `parse_export`, `reexport`); the class selection on the exported bytes is the hypothesis `hsel` -/
theorem mbi_delimits {co : Crypto.CryptoOps} {env : Mbi.Env} {c : Mbi.Cls} {cfg : Mbi.Cfg} {signer : Mbi.Signer}
    (h : Mbi.Hyp co env c cfg signer) (fixedType : Int) (family : List Mbi.Cls) (dek : Option Bytes)
    (hdek : c.has .Mbi_MixinHmac = true → dek = cfg.hmacKey) (hdek' : c.family = some .encrypted → dek = cfg.hmacKey)
    (e : Bytes) (he : Mbi.exportImage co c cfg signer = .ok e) (hne : e ≠ [])
    (hsel : Mbi.selectClass fixedType family e = some c)
    (ext : Ext) (fcbSup : Bool) (s : Seg) (hp : s.parser = .greedy) (hsz : s.size < 0)
    (hext : ∀ data, ext.app s.kind data = mbiApp co env fixedType family dek data) :
    parseSeg ext fcbSup s (e ++ []) = .present e :=
  Bimg.mbi_delimits' h fixedType family dek hdek hdek' e he hne hsel ext fcbSup s hp hsz hext

/-- HAB: `HabContainer.parse` accepts every exported container under the hypotheses of C07 `hab_roundtrip_partial` (inherited
    as they stand there: well-formed configuration, CSF conditions, and for unsigned images `hvis`: the application-offset
    heuristic finds the application - full strength is false, finding C07-parse-app-offset-guess) -/
theorem hab_delimits_partial (c : Hab.Cfg) (b : Hab.Built) (h : c.WF)
    (hd : ∀ d, c.dcd = some d → Hab.DcdWF d) (hx : ∀ x, c.xmcd = some x → Hab.XmcdWF x)
    (happ : b.app.length = c.appBin.length)
    (hc : c.hasCsf = true → Hab.CsfWF c.version b.cmds ∧ (Hab.getAut 2 b.cmds).isSome = Hab.isEnc c.flags ∧
      Hab.csfAppBlock b.cmds = some (c.start + c.ivtOff + c.appOff, c.appBin.length))
    (hvis : c.hasCsf = false → Hab.findAppOffset (Hab.exportImage c b) c.entry Generated.HabConsts.knownAppOffsets = some c.appOff)
    (hne : Hab.exportImage c b ≠ [])
    (ext : Ext) (fcbSup : Bool) (s : Seg) (hp : s.parser = .greedy) (hsz : s.size < 0)
    (hext : ∀ data, ext.app s.kind data = habApp data) :
    parseSeg ext fcbSup s (Hab.exportImage c b ++ []) = .present (Hab.exportImage c b) :=
  Bimg.hab_delimits_of_roundtrip' c b _ (SpsdkVerif.C07.hab_roundtrip_partial c b h hd hx happ hc hvis) hne ext fcbSup s hp hsz hext

/-- MBI rows end to end: with the container parser given by the C01 model, parsing the exported image recovers every supplied
    segment for every init offset; the hypotheses speak about the supplied bytes only (see Proofs/BimgDelimit.lean) -/
theorem parse_export_mbi_row {co : Crypto.CryptoOps} {env : Mbi.Env} {c : Mbi.Cls} {cfg : Mbi.Cfg} {signer : Mbi.Signer}
    (hm : Mbi.Hyp co env c cfg signer) (fixedType : Int) (family : List Mbi.Cls) (dek : Option Bytes)
    (hdek : c.has .Mbi_MixinHmac = true → dek = cfg.hmacKey) (hdek' : c.family = some .encrypted → dek = cfg.hmacKey)
    (e : Bytes) (he : Mbi.exportImage co c cfg signer = .ok e)
    (hsel : Mbi.selectClass fixedType family e = some c)
    (ext : Ext) (fcbSup : Bool) (d : Desc) (init : Nat) (raws : List (Option Bytes))
    (h : Ctx d init raws) (hsup : Supplied init (mkSlots d.segs raws))
    (hkinds : ∀ s ∈ mkSlots d.segs raws, s.seg.parser = .raw ∨ s.seg.parser = .imageVersion ∨ s.seg.parser = .imageVersionAp ∨
      s.seg.parser = .fcb ∨ s.seg.parser = .greedy)
    (hext : ∀ s ∈ mkSlots d.segs raws, s.seg.parser = .greedy → ∀ data, ext.app s.seg.kind data = mbiApp co env fixedType family dek data)
    (hraw : ∀ s ∈ mkSlots d.segs raws, s.present init = true → s.seg.parser = .raw →
      (s.bytes.length : Int) = s.seg.size ∧ isPadding s.seg s.bytes = false)
    (hiv : ∀ s ∈ mkSlots d.segs raws, s.present init = true →
      (s.seg.parser = .imageVersion ∨ s.seg.parser = .imageVersionAp) → s.bytes.length = 4)
    (hfcb : ∀ s ∈ mkSlots d.segs raws, s.present init = true → s.seg.parser = .fcb →
      (s.bytes.length : Int) = s.seg.size ∧
      (s.bytes.take 4 = BimgTables.fcbTag ∨ s.bytes.take 4 = BimgTables.fcbTagSwapped) ∧
      (fcbSup = true → ext.fcbOk s.bytes = true) ∧ (fcbSup = false → isPadding s.seg s.bytes = false))
    (hmbi : ∀ s ∈ mkSlots d.segs raws, s.present init = true → s.seg.parser = .greedy → s.bytes = e)
    (b : Bytes) (hb : exportImg d init raws = .ok b) :
    walk ext fcbSup init d.segs b = .ok (expectedFound init (mkSlots d.segs raws)) :=
  Bimg.parse_export_mbi_row' hm fixedType family dek hdek hdek' e he hsel ext fcbSup d init raws h hsup hkinds hext hraw hiv hfcb hmbi b hb

/-- SB3.1: a file that begins with an encoded header (fields in range) passes the header validation, whatever follows
    (header reader of the C05 ROM model) -/
theorem sb31_delimits (h : Sb31.Header) (wf : Sb31.Spec.HeaderWF h) (body : Bytes)
    (ext : Ext) (fcbSup : Bool) (s : Seg) (hp : s.parser = .sb) (hsz : s.size < 0)
    (hext : ∀ data, ext.app s.kind data = sb31App data) :
    parseSeg ext fcbSup s ((Sb31.encHeader h ++ body) ++ []) = .present (Sb31.encHeader h ++ body) :=
  Bimg.sb31_delimits' h wf body ext fcbSup s hp hsz hext

end SpsdkVerif.C14
