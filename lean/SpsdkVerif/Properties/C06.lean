/- C06 — AHAB image (placeholder while the harness is being built) -/
import SpsdkVerif.Model.Ahab
import SpsdkVerif.Model.AhabVerify
import SpsdkVerif.Spec.AhabRom

namespace SpsdkVerif.C06
theorem placeholder : True := trivial
end SpsdkVerif.C06
