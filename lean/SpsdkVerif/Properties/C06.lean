/-
C06 — AHAB image: containers verify, images hash and decrypt, offsets never collide.

Models (tied to /repo by harness/props/C06.py):
  * Generated/AhabConsts.lean — struct formats, tags, bit positions, the range records of the verify() trees, create_flags /
    create_meta / get_container_offset (translated from the source), per-chip database rows; Generated/PyFuns.lean (check_range, align)
  * Model/Ahab.lean — exporter (update_fields, offsets, signature block layout, container / image export)
  * Model/AhabVerify.lean — range / consistency part of the verify() trees, driven by the generated record tables
  * Spec/AhabRom.lean — independent check of a binary (hand-transcribed format constants)
Helper lemmas: Proofs/Ahab.lean, Proofs/AhabVerify.lean, Proofs/AhabRom.lean (the last one uses the C16 BinaryImage theorems).

Cryptography is a parameter `c : CryptoOps`; positive statements need only `CryptoLaws c`.  The model never signs: the
signature bytes are an input and the statements about them are (i) WHICH bytes are signed, (ii) that those bytes do not
depend on the signature.  Verification of the signature itself is discharged by the harness with `cryptography`.
-/
import SpsdkVerif.Proofs.Ahab
import SpsdkVerif.Proofs.AhabVerify
import SpsdkVerif.Proofs.AhabRom
import SpsdkVerif.Proofs.AhabParse
import SpsdkVerif.Proofs.AhabRom2
import SpsdkVerif.Proofs.AhabRom3
import SpsdkVerif.Proofs.AhabCert
import SpsdkVerif.Proofs.AhabZero
import SpsdkVerif.Proofs.AhabResign
import SpsdkVerif.Generated.AhabVerifierRecs

namespace SpsdkVerif.C06
open SpsdkVerif SpsdkVerif.Misc SpsdkVerif.Ahab SpsdkVerif.AhabVerify
open SpsdkVerif.Generated
open SpsdkVerif.Crypto (CryptoOps CryptoLaws Break)

/-! ## 0. the hand-transcribed format (Spec) agrees with the constants extracted from the source -/

theorem spec_consts_agree :
    Spec.AhabRom.containerTag = AhabConsts.containerTag ∧ Spec.AhabRom.sigBlockTag = AhabConsts.sigBlockTag ∧
    Spec.AhabRom.srkTableTag = AhabConsts.srkTableTag ∧ Spec.AhabRom.srkTableVersion = AhabConsts.srkTableVersion ∧
    Spec.AhabRom.srkRecordTag = AhabConsts.srkRecordTag ∧ Spec.AhabRom.signatureTag = AhabConsts.signatureTag ∧
    Spec.AhabRom.headerSize = AhabConsts.containerLayout.size ∧ Spec.AhabRom.headerSize = AhabConsts.containerV2Layout.size ∧
    Spec.AhabRom.iaeSize = AhabConsts.iaeLayout.size ∧ Spec.AhabRom.iaeSize = AhabConsts.iaeV2Layout.size ∧
    Spec.AhabRom.sigBlockHeaderSize = AhabConsts.sigBlockLayout.size ∧ Spec.AhabRom.sigBlockHeaderSize = AhabConsts.sigBlockV2Layout.size ∧
    Spec.AhabRom.hashFieldLen = AhabConsts.iaeHashLen ∧ Spec.AhabRom.ivFieldLen = AhabConsts.iaeIvLen ∧
    Spec.AhabRom.hashFieldOff = intsLen AhabConsts.iaeLayout.intWidths ∧
    Spec.AhabRom.ivFieldOff = intsLen AhabConsts.iaeLayout.intWidths + AhabConsts.iaeHashLen ∧
    Spec.AhabRom.blockAlign = AhabConsts.containerAlignment ∧
    (Spec.AhabRom.paramsV1 0 0).containerSize = AhabConsts.containerSizeV1 ∧ (Spec.AhabRom.paramsV2 0 0).containerSize = AhabConsts.containerSizeV2 ∧
    (Spec.AhabRom.paramsV1 0 0).version = AhabConsts.containerVersionV1 ∧ (Spec.AhabRom.paramsV2 0 0).version = AhabConsts.containerVersionV2 ∧
    (Spec.AhabRom.paramsV1 0 0).sbVersion = AhabConsts.sigBlockVersionV1 ∧ (Spec.AhabRom.paramsV2 0 0).sbVersion = AhabConsts.sigBlockVersionV2 ∧
    (Spec.AhabRom.paramsV1 0 0).encBit = AhabConsts.iFlagsIsEncryptedOffsetV1 ∧ (Spec.AhabRom.paramsV2 0 0).encBit = AhabConsts.iFlagsIsEncryptedOffsetV2 ∧
    (Spec.AhabRom.paramsV1 0 0).hashBits = AhabConsts.iFlagsHashSizeV1 ∧ (Spec.AhabRom.paramsV2 0 0).hashBits = AhabConsts.iFlagsHashSizeV2 ∧
    AhabConsts.iFlagsHashOffsetV1 = 8 ∧ AhabConsts.iFlagsHashOffsetV2 = 8 := by decide

/-- the order in which the exporters pack their fields (argument list of `pack(self.format(), ...)` in the source) -/
theorem field_order_agrees :
    AhabConsts.containerLayout.packArgs =
      ["version", "length", "tag", "flags", "sw_version", "fuse_version", "image_array_len", "_signature_block_offset", "RESERVED"] ∧
    AhabConsts.iaeLayout.packArgs =
      ["_image_offset", "image_size", "load_address", "entry_point", "flags", "image_meta_data", "image_hash", "image_iv"] ∧
    AhabConsts.sigBlockLayout.packArgs =
      ["version", "length", "tag", "_certificate_offset", "_srk_assets_offset", "signature_offset", "_blob_offset",
       "blob.key_identifier?RESERVED"] ∧
    AhabConsts.sigBlockV2Layout.packArgs = AhabConsts.sigBlockLayout.packArgs ∧
    AhabConsts.srkRecordLayout.packArgs =
      ["tag", "length", "version", "hash_algorithm.tag", "key_size", "RESERVED", "srk_flags", "parameter_lengths"] ∧
    AhabConsts.srkTableLayout.packArgs = ["tag", "length", "version"] ∧
    AhabConsts.signatureLayout.packArgs = ["version", "length", "tag", "RESERVED"] ∧
    AhabConsts.blobLayout.packArgs = ["version", "length", "tag", "flags", "_size//8", "algorithm.tag", "mode"] := by decide

/-- every chip row of the database is usable by the layout theorems: positive alignments, at most four containers
    (`get_container_offset` refuses index > 3), a known container generation -/
theorem chips_wf : ∀ r ∈ AhabConsts.chips,
    0 < r.imageSizeAlign ∧ 0 < r.minOffsetAlign ∧ 1 ≤ r.containersMax ∧ r.containersMax ≤ 4 ∧ 1 ≤ r.imagesMax ∧
    r.containerTypes ≠ [] ∧ (∀ t ∈ r.containerTypes, t = 1 ∨ t = 2) := by decide

/-! ## 1. round trips -/

/-- an exported image-array entry parses back to itself (both container generations) -/
theorem iae_roundtrip (v : Ver) (e : Iae) (b rest : Bytes) (hh : e.hash.length = 64) (hi : e.iv.length = 32)
    (h : encodeIae v.iaeLayout e = .ok b) : decodeIae v.iaeLayout (b ++ rest) = some e :=
  iae_roundtrip' v.iaeLayout (iaeLayout_facts v).1 (iaeLayout_facts v).2.1 (iaeLayout_facts v).2.2 e b rest hh hi h

/-- header and image array of an exported container parse back: all eight header fields and every entry -/
theorem container_roundtrip (v : Ver) (length flags sw fuse sbo : Nat) (es : List Iae) (hb ab rest : Bytes)
    (hwf : ∀ e ∈ es, e.hash.length = 64 ∧ e.iv.length = 32)
    (h1 : encodeHeader v length flags sw fuse es.length sbo = .ok hb) (h2 : encodeIaes v.iaeLayout es = .ok ab)
    (hl : length ≤ (hb ++ ab ++ rest).length) :
    decodeHeader v (hb ++ ab ++ rest) = some ⟨v.containerVersion, length, AhabConsts.containerTag, flags, sw, fuse, es.length, sbo⟩ ∧
    decodeIaes v.iaeLayout (hb ++ ab ++ rest) es.length (v.hdrLayout).size = some es := by
  refine ⟨?_, ?_⟩
  · rw [List.append_assoc]
    exact header_roundtrip' v length flags sw fuse es.length sbo hb (ab ++ rest) h1 (by rw [← List.append_assoc]; exact hl)
  · have := iaes_roundtrip' v.iaeLayout (iaeLayout_facts v).1 (iaeLayout_facts v).2.1 (iaeLayout_facts v).2.2 es ab hb rest hwf h2
    rw [encodeHeader_length v _ _ _ _ _ _ hb h1] at this
    rw [(hdrLayout_widths v).2]
    exact this

/-- an SRK record and a whole SRK table (four records of one key type, lengths as `update_fields` computes them) parse back -/
theorem srk_roundtrip (t : SrkTable) (b rest : Bytes) (hwf : SrkTableWF t) (h : encodeSrkTable t = .ok b) :
    decodeSrkTable (b ++ rest) = some t ∧
    ∀ r ∈ t.records, ∀ rb rrest, encodeSrkRecord r = .ok rb → decodeSrkRecord (rb ++ rrest) = some r :=
  ⟨srkTable_roundtrip' t b rest hwf h, fun r hr rb rrest hrb => srkRecord_roundtrip' r rb rrest (hwf.recs r hr) hrb⟩

/-! ## 2. flag and meta-data words (functions translated from the source) -/

/-- `create_flags` / `create_meta` pack their fields disjointly: every getter returns what was put in, and the word fits
    32 bits.  Version 1: hash field 3 bits, encrypted flag bit 11; version 2: 4 bits, bit 12. -/
theorem flags_meta_fields (ty core h boot a b m : Nat) (enc : Bool) (ht : ty < 16) (hc : core < 16) (hboot : boot < 2 ^ 15)
    (ha : a < 1024) (hb : b < 1024) (hm : m < 256) :
    (h < 8 → ∃ f : Nat, AhabConsts.createFlagsV1 ty core h enc boot = .ok (f : Int) ∧ f < 2 ^ 32 ∧
      getF f Ver.v1.typeOff Ver.v1.typeSize = ty ∧ getF f Ver.v1.coreOff Ver.v1.coreSize = core ∧ Iae.hashTag .v1 f = h ∧
      Iae.isEncrypted .v1 f = enc ∧ getF f Ver.v1.bootOff Ver.v1.bootSize = boot) ∧
    (h < 16 → ∃ f : Nat, AhabConsts.createFlagsV2 ty core h enc boot = .ok (f : Int) ∧ f < 2 ^ 32 ∧
      getF f Ver.v2.typeOff Ver.v2.typeSize = ty ∧ getF f Ver.v2.coreOff Ver.v2.coreSize = core ∧ Iae.hashTag .v2 f = h ∧
      Iae.isEncrypted .v2 f = enc ∧ getF f Ver.v2.bootOff Ver.v2.bootSize = boot) ∧
    (∃ md : Nat, AhabConsts.createMeta a b m = .ok (md : Int) ∧ md < 2 ^ 28 ∧
      getF md AhabConsts.iMetadataStartCpuIdOffsetV1 AhabConsts.iMetadataStartCpuIdSizeV1 = a ∧
      getF md AhabConsts.iMetadataMuCpuIdOffsetV1 AhabConsts.iMetadataMuCpuIdSizeV1 = b ∧
      getF md AhabConsts.iMetadataStartPartitionIdOffsetV1 AhabConsts.iMetadataStartPartitionIdSizeV1 = m) := by
  have encv : (if enc = true then 1 else 0 : Nat) ≤ 1 := by cases enc <;> simp
  refine ⟨fun hh => ?_, fun hh => ?_, ?_⟩
  · refine ⟨_, createFlagsV1_val ty core h boot enc ht hc hh, ?_⟩
    have A := flags_arith_v1 ty core h boot (if enc = true then 1 else 0) ht hc hh encv hboot
    simp only [Iae.hashTag, Iae.isEncrypted, getF_eq]
    refine ⟨A.1, A.2.1, A.2.2.1, A.2.2.2.1, ?_, A.2.2.2.2.2⟩
    have := A.2.2.2.2.1
    show (_ / 2 ^ 11 % 2 ^ 1 != 0) = enc
    rw [show (2 : Nat) ^ 11 = 2048 from rfl, show (2 : Nat) ^ 1 = 2 from rfl, show (2 : Nat) ^ 4 = 16 from rfl,
        show (2 : Nat) ^ 8 = 256 from rfl, show (2 : Nat) ^ 16 = 65536 from rfl, this]
    cases enc <;> simp
  · refine ⟨_, createFlagsV2_val ty core h boot enc ht hc hh, ?_⟩
    have A := flags_arith_v2 ty core h boot (if enc = true then 1 else 0) ht hc hh encv hboot
    simp only [Iae.hashTag, Iae.isEncrypted, getF_eq]
    refine ⟨A.1, A.2.1, A.2.2.1, A.2.2.2.1, ?_, A.2.2.2.2.2⟩
    have := A.2.2.2.2.1
    show (_ / 2 ^ 12 % 2 ^ 1 != 0) = enc
    rw [show (2 : Nat) ^ 12 = 4096 from rfl, show (2 : Nat) ^ 1 = 2 from rfl, show (2 : Nat) ^ 4 = 16 from rfl,
        show (2 : Nat) ^ 8 = 256 from rfl, show (2 : Nat) ^ 16 = 65536 from rfl, this]
    cases enc <;> simp
  · have A := meta_arith a b m ha hb hm
    refine ⟨_, createMeta_val a b m ha hb, A.1, ?_, ?_, ?_⟩
    · rw [getF_eq]; exact A.2.1
    · rw [getF_eq]; exact A.2.2.1
    · rw [getF_eq]; exact A.2.2.2

/-! ## 3. signature block: offsets and the signed range -/

/-- `0 < srkOff < sigOff (< certOff < blobOff) ≤ length` after `update_fields`, for both generations: every present block
    lies behind the 16-byte header and behind every earlier present block, inside the block; absent blocks have offset 0;
    version-1 offsets are 64-bit aligned -/
theorem sigblock_monotone (v : Ver) (sb : SigBlock) :
    let o := sbLayout v sb
    let s1 := sb.srk.length
    let s2 := sb.sigSize v
    let s3 := sb.cert.length
    let s4 := sb.blobLen
    (s1 = 0 → o.srkOff = 0) ∧ (s2 = 0 → o.sigOff = 0) ∧ (s3 = 0 → o.certOff = 0) ∧ (s4 = 0 → o.blobOff = 0) ∧
    (s1 ≠ 0 → 16 ≤ o.srkOff ∧ o.srkOff + s1 ≤ o.length) ∧
    (s2 ≠ 0 → 16 ≤ o.sigOff ∧ (s1 ≠ 0 → o.srkOff + s1 ≤ o.sigOff) ∧ o.sigOff + s2 ≤ o.length) ∧
    (s3 ≠ 0 → 16 ≤ o.certOff ∧ (s1 ≠ 0 → o.srkOff + s1 ≤ o.certOff) ∧ (s2 ≠ 0 → o.sigOff + s2 ≤ o.certOff) ∧
              o.certOff + s3 ≤ o.length) ∧
    (s4 ≠ 0 → 16 ≤ o.blobOff ∧ (s1 ≠ 0 → o.srkOff + s1 ≤ o.blobOff) ∧ (s2 ≠ 0 → o.sigOff + s2 ≤ o.blobOff) ∧
              (s3 ≠ 0 → o.certOff + s3 ≤ o.blobOff) ∧ o.blobOff + s4 = o.length) ∧
    16 ≤ o.length ∧
    (v = .v1 → o.srkOff % 8 = 0 ∧ o.sigOff % 8 = 0 ∧ o.certOff % 8 = 0 ∧ o.blobOff % 8 = 0) :=
  sigblock_layout v sb

/-- the headline chain for a signed container with certificate and blob -/
theorem sigblock_chain (v : Ver) (sb : SigBlock) (h1 : sb.srk.length ≠ 0) (h2 : sb.sigSize v ≠ 0) (h3 : sb.cert.length ≠ 0)
    (h4 : sb.blobLen ≠ 0) :
    0 < (sbLayout v sb).srkOff ∧ (sbLayout v sb).srkOff < (sbLayout v sb).sigOff ∧ (sbLayout v sb).sigOff < (sbLayout v sb).certOff ∧
    (sbLayout v sb).certOff < (sbLayout v sb).blobOff ∧ (sbLayout v sb).blobOff < (sbLayout v sb).length := by
  have L := sigblock_layout v sb
  simp only at L
  generalize sbLayout v sb = o at L ⊢
  obtain ⟨_, _, _, _, p1, p2, p3, p4, _, _⟩ := L
  have q1 := p1 h1
  have q2 := p2 h2
  have q3 := p3 h3
  have q4 := p4 h4
  have r2 := q2.2.1 h1
  have r3 := q3.2.2.1 h2
  have r4 := q4.2.2.2.1 h3
  have n1 : 0 < sb.srk.length := Nat.pos_of_ne_zero h1
  have n2 : 0 < sb.sigSize v := Nat.pos_of_ne_zero h2
  have n3 : 0 < sb.cert.length := Nat.pos_of_ne_zero h3
  have n4 : 0 < sb.blobLen := Nat.pos_of_ne_zero h4
  refine ⟨by omega, by omega, by omega, by omega, by omega⟩

/-- the data that is signed (`get_signature_data`) is the exported container cut at `signature block offset + signature
    offset`, and that prefix consists of: container header, image array, (alignment), signature-block header, SRK table
    (array) and the padding in front of the signature - nothing else -/
theorem signed_range (v : Ver) (c : Container) (iaes : List Iae) (b : Bytes) (hb : BlobLenOK c.sb)
    (h : exportContainerWith v c iaes = .ok b) :
    signatureData v c iaes = .ok (b.take (sigBlockOffset v iaes.length + (sbLayout v c.sb).sigOff)) ∧
    ∃ hd ab hdr,
      encodeHeader v (headerLength v iaes.length (sbLayout v c.sb).length) c.flags c.swVersion c.fuseVersion iaes.length
        (sigBlockOffset v iaes.length) = .ok hd ∧
      encodeIaes v.iaeLayout iaes = .ok ab ∧ sbHeader v (sbLayout v c.sb) c.sb.keyId = .ok hdr ∧
      b.take (sigBlockOffset v iaes.length + (sbLayout v c.sb).sigOff) =
        hd ++ ab ++ zerosB (sigBlockOffset v iaes.length - (hd ++ ab).length) ++
          (sbHead (sbLayout v c.sb) hdr c.sb.srk).take (sbLayout v c.sb).sigOff ∧
      b.length = sigBlockOffset v iaes.length + (sbLayout v c.sb).length := by
  refine ⟨by simp [signatureData, h], ?_⟩
  obtain ⟨hd, ab, s, hdr, e1, e2, _, e4, _, _, e7, e8⟩ := exportContainer_spec v c iaes b hb h
  exact ⟨hd, ab, hdr, e1, e2, e4, e8, e7⟩

/-- the signed data does not depend on the signature bytes (nor on the bytes of certificate and blob): replacing them by
    others of the same lengths leaves every signed byte unchanged - so signing after `update_fields` is well defined -/
theorem signed_independent (v : Ver) (c c' : Container) (iaes : List Iae) (b b' : Bytes)
    (hb : BlobLenOK c.sb) (hb' : BlobLenOK c'.sb)
    (hf : c'.flags = c.flags) (hsw : c'.swVersion = c.swVersion) (hfu : c'.fuseVersion = c.fuseVersion)
    (h1 : c'.sb.srk = c.sb.srk) (h2 : c'.sb.signature.length = c.sb.signature.length)
    (h3 : c'.sb.signature2.length = c.sb.signature2.length) (h4 : c'.sb.cert.length = c.sb.cert.length)
    (h5 : c'.sb.blobLen = c.sb.blobLen) (h6 : c'.sb.keyId = c.sb.keyId)
    (h : exportContainerWith v c iaes = .ok b) (h' : exportContainerWith v c' iaes = .ok b') :
    signatureData v c' iaes = signatureData v c iaes := by
  have ho := sbLayout_congr v c.sb c'.sb (by rw [h1]) h2 h3 h4 h5
  simp only [signatureData, h, h', ho]
  rw [signed_data_independent v c c' iaes b b' hb hb' hf hsw hfu h1 h2 h3 h4 h5 h6 h h']

/-! ## 4. offsets: assignment, disjointness, alignment, inside the image -/

/-- the offset loop: every image sits at its explicit offset or (automatic) exactly at the cursor, which is the aligned
    end (+ gap) of the previous image, across container boundaries, starting at the recommended start address -/
theorem offsets_assigned (c : CryptoOps) (img : Image) (us : List UContainer) (h : img.update c = .ok us) :
    Assigned img.chip img.ver (img.chip.startAddr img.ver) (allPlaced us) :=
  updateContainers_assigned c img.chip img.ver img.containers 0 _ us h

/-- no two images overlap: as long as no explicit offset points behind the cursor (in particular when all offsets are
    automatic) the images are in increasing order, each one starting at or after the end of the previous one and at or
    after the start address -/
theorem offsets_disjoint (c : CryptoOps) (img : Image) (us : List UContainer) (h : img.update c = .ok us)
    (ha : ExplicitAhead img.chip img.ver (img.chip.startAddr img.ver) (allPlaced us)) :
    (allPlaced us).Pairwise (fun p q => p.offset + p.ready.size ≤ q.offset) ∧
    ∀ p ∈ allPlaced us, img.chip.startAddr img.ver ≤ p.offset := by
  have ho := assigned_ordered img.chip img.ver _ _ (offsets_assigned c img us h) ha
  exact ⟨OrderedFrom_pairwise _ _ ho, OrderedFrom_ge _ _ ho⟩

theorem offsets_disjoint_auto (c : CryptoOps) (img : Image) (us : List UContainer) (h : img.update c = .ok us)
    (hauto : ∀ p ∈ allPlaced us, p.entry.offset = 0) :
    (allPlaced us).Pairwise (fun p q => p.offset + p.ready.size ≤ q.offset) ∧
    ∀ p ∈ allPlaced us, img.chip.startAddr img.ver ≤ p.offset :=
  offsets_disjoint c img us h (explicitAhead_of_auto _ _ _ _ hauto)

/-- the cursor behind an image is aligned to `max(get_valid_alignment(), valid_offset_minimal_alignment)` of THAT image and
    leaves room for image and gap; hence every automatically placed image that follows another one is so aligned -/
theorem offsets_aligned (ch : Chip) (v : Ver) (e : Entry) (r : Ready) (off : Nat) :
    off + r.size + e.gapAfter ≤ nextCursor ch v e r off ∧
    nextCursor ch v e r off % (max (validAlignment ch v e.flags) ch.row.minOffsetAlign) = 0 ∧
    4 ≤ max (validAlignment ch v e.flags) ch.row.minOffsetAlign := by
  refine ⟨(nextCursor_ge ch v e r off).1, (nextCursor_ge ch v e r off).2, ?_⟩
  unfold validAlignment; split <;> omega

/-- every image lies inside the length `AHABImage.__len__` reports -/
theorem offsets_inside (ch : Chip) (us : List UContainer) (hA : 0 < ch.imageAlignment) (p : Placed) (hp : p ∈ allPlaced us) :
    p.offset + p.ready.size ≤ imageLength ch us :=
  placed_within_length ch us hA p hp

/-! ## 5. containers sit at their fixed offsets -/

/-- container `k` gets offset `k * CONTAINER_SIZE` (0x400 / 0x4000; `get_container_offset` translated from the source) and
    there are at most four -/
theorem containers_fixed (c : CryptoOps) (img : Image) (us : List UContainer) (h : img.update c = .ok us) :
    us.length = img.containers.length ∧
    ∀ k u, us[k]? = some u → u.index = k ∧ u.base = k * img.ver.containerSize ∧ k ≤ 3 ∧ img.containers[k]? = some u.cont := by
  have := updateContainers_bases c img.chip img.ver img.containers 0 _ us h
  refine ⟨this.1, fun k u hk => ?_⟩
  have := this.2 k u hk
  simpa using this

/-- ... and in the exported FILE the bytes of container `k` start at `k * CONTAINER_SIZE` -/
theorem containers_fixed_in_file (c : CryptoOps) (img : Image) (bin : Bytes) (hexp : img.export c = .ok bin)
    (hA : 0 < img.chip.imageAlignment) (us : List UContainer) (hus : img.update c = .ok us) (k : Nat) (u : UContainer)
    (hk : us[k]? = some u) (hblob : BlobLenOK u.cont.sb) :
    ∃ cb, u.export img.ver = .ok cb ∧ u.base = k * img.ver.containerSize ∧ k ≤ 3 ∧
      Spec.AhabRom.slice bin (k * img.ver.containerSize) cb.length = cb :=
  export_containers_fixed' c img bin hexp hA us hus k u hk hblob

/-! ## 6. the independent check accepts what is exported -/

/-- `rom_accepts` (hash / placement / decryption part), for every `c` with `CryptoLaws c`: the independent entry check of
    Spec/AhabRom.lean, run on the exported file at the position of entry `i` of container `u`, succeeds and reports the
    entry's absolute offset, size and flags: the entry points at the bytes of its image, its hash field is the hash of
    those bytes under the algorithm its flags declare, and an encrypted image decrypts (AES-CBC, DEK, IV field[16:32]) to
    data whose SHA-256 is the IV field.
    `hnoext` excludes the open finding C06-encrypted-size-alignment (cipher text zero-extended after encryption); the first
    disjunct is the configuration "flagged encrypted but no blob", which SPSDK's verifier refuses. -/
theorem rom_accepts (c : CryptoOps) (hc : CryptoLaws c) (img : Image) (bin : Bytes) (maxC maxI : Nat)
    (hexp : img.export c = .ok bin) (hA : 0 < img.chip.imageAlignment)
    (us : List UContainer) (hus : img.update c = .ok us) (u : UContainer) (hu : u ∈ us)
    (i : Nat) (p : Placed) (hp : u.placed[i]? = some p)
    (hblob : BlobLenOK u.cont.sb) (hsz : 0 < p.ready.size)
    (hnoext : Iae.isEncrypted img.ver p.entry.flags = true → u.cont.sb.blob.isSome = true →
      p.ready.size = p.ready.image.length ∧ (storedImage img.chip p.entry.data).length % 16 = 0 ∧ u.cont.dek.isSome = true) :
    Iae.isEncrypted img.ver p.entry.flags = true ∧ u.cont.sb.blob.isSome = false ∨
    Spec.AhabRom.checkEntry c (romParams img.ver maxC maxI) bin u.base (u.base + (16 + 128 * i))
        (if u.cont.sb.blob.isSome then u.cont.dek else none) =
      .ok ⟨p.offset, p.ready.size, p.entry.flags, Iae.isEncrypted img.ver p.entry.flags⟩ :=
  rom_accepts_entry' c hc img bin maxC maxI hexp hA us hus u hu i p hp hblob hsz hnoext

/-- `rom_accepts`, signature-block part (version 1, signed): the independent `checkSigBlock` accepts the signature block of an
    exported container - tag, version, length = container length - offset, 16 <= SRK table < signature, alignment, signature
    container inside the block, certificate and blob behind it, SRK table header and four equal records, selected record not
    revoked - and reports: signed range `[base, base + sigblock offset + signature offset)`, the SRK table, the selected
    record, the signature bytes and the SHA-256 of the table -/
theorem rom_accepts_sigblock (c : CryptoOps) (maxC maxI : Nat) (bin cb : Bytes) (base : Nat) (cont : Container) (iaes : List Iae)
    (t : SrkTable) (hcb : Spec.AhabRom.slice bin base cb.length = cb) (hexp : exportContainerWith .v1 cont iaes = .ok cb)
    (hb : BlobLenOK cont.sb) (ht : SrkTableWF t) (hte : encodeSrkTable t = .ok cont.sb.srk) (hsig : cont.sb.signature ≠ [])
    (hset : cont.srkSet ≠ 0) (hrev : (cont.revokeMask >>> cont.usedSrkId) % 2 = 0) :
    ∃ P, cont.sb.srk.length = 4 + (12 + P) * 4 ∧
    Spec.AhabRom.checkSigBlock c (Spec.AhabRom.paramsV1 maxC maxI) bin base cb.length (sigBlockOffset .v1 iaes.length) cont.flags =
      .ok ((sbLayout .v1 cont.sb).srkOff, (sbLayout .v1 cont.sb).sigOff, (sbLayout .v1 cont.sb).certOff, (sbLayout .v1 cont.sb).blobOff,
           (sbLayout .v1 cont.sb).length,
           some ⟨sigBlockOffset .v1 iaes.length + (sbLayout .v1 cont.sb).sigOff,
                 base + sigBlockOffset .v1 iaes.length + (sbLayout .v1 cont.sb).srkOff, cont.sb.srk.length,
                 base + sigBlockOffset .v1 iaes.length + (sbLayout .v1 cont.sb).srkOff + 4 + cont.usedSrkId * (12 + P), 12 + P,
                 cont.usedSrkId,
                 base + sigBlockOffset .v1 iaes.length + (sbLayout .v1 cont.sb).sigOff + 8, cont.sb.signature.length,
                 c.hash .sha256 cont.sb.srk⟩) :=
  checkSigBlock_accepts_v1 c maxC maxI bin cb base cont iaes t hcb hexp hb ht hte hsig hset hrev

/-- `rom_accepts`, container level (version 1, signed with an SRK table), for every `c` with `CryptoLaws c`: `checkContainer` of
    the independent checker accepts container `k` of an exported image - header read at `k * 0x400`, every image-array entry
    (placement, hash, decryption), the signature block - and its report names the signed range, so together with the
    signature obligation (discharged on the real file by the harness) the container is authenticated.  The entry hypotheses
    exclude the open finding C06-encrypted-size-alignment and the refused configuration "encrypted flag without blob". -/
theorem rom_accepts_container (c : CryptoOps) (hc : CryptoLaws c) (img : Image) (hv : img.ver = .v1) (bin : Bytes) (maxC maxI : Nat)
    (hexp : img.export c = .ok bin) (hA : 0 < img.chip.imageAlignment)
    (us : List UContainer) (hus : img.update c = .ok us) (k : Nat) (u : UContainer) (hk : us[k]? = some u)
    (hblob : BlobLenOK u.cont.sb) (t : SrkTable) (ht : SrkTableWF t) (hte : encodeSrkTable t = .ok u.cont.sb.srk)
    (hsig : u.cont.sb.signature ≠ []) (hset : u.cont.srkSet ≠ 0) (hrev : (u.cont.revokeMask >>> u.cont.usedSrkId) % 2 = 0)
    (hn : u.placed.length ≤ maxI)
    (hent : ∀ (i : Nat) (p : Placed), u.placed[i]? = some p → 0 < p.ready.size ∧
      ¬ (Iae.isEncrypted img.ver p.entry.flags = true ∧ u.cont.sb.blob.isSome = false) ∧
      (Iae.isEncrypted img.ver p.entry.flags = true → u.cont.sb.blob.isSome = true →
        p.ready.size = p.ready.image.length ∧ (storedImage img.chip p.entry.data).length % 16 = 0 ∧ u.cont.dek.isSome = true)) :
    ∃ cb P, u.export .v1 = .ok cb ∧ u.cont.sb.srk.length = 4 + (12 + P) * 4 ∧
    Spec.AhabRom.checkContainer c (Spec.AhabRom.paramsV1 maxC maxI) bin k (if u.cont.sb.blob.isSome then u.cont.dek else none) =
      .ok ⟨k, k * 0x400, cb.length, u.cont.flags, u.cont.swVersion, u.cont.fuseVersion, sigBlockOffset .v1 u.placed.length,
           (sbLayout .v1 u.cont.sb).srkOff, (sbLayout .v1 u.cont.sb).sigOff, (sbLayout .v1 u.cont.sb).certOff,
           (sbLayout .v1 u.cont.sb).blobOff, (sbLayout .v1 u.cont.sb).length, u.placed.map (repOf .v1),
           some ⟨sigBlockOffset .v1 u.placed.length + (sbLayout .v1 u.cont.sb).sigOff,
                 k * 0x400 + sigBlockOffset .v1 u.placed.length + (sbLayout .v1 u.cont.sb).srkOff, u.cont.sb.srk.length,
                 k * 0x400 + sigBlockOffset .v1 u.placed.length + (sbLayout .v1 u.cont.sb).srkOff + 4 + u.cont.usedSrkId * (12 + P), 12 + P,
                 u.cont.usedSrkId,
                 k * 0x400 + sigBlockOffset .v1 u.placed.length + (sbLayout .v1 u.cont.sb).sigOff + 8, u.cont.sb.signature.length,
                 c.hash .sha256 u.cont.sb.srk⟩⟩ :=
  checkContainer_accepts_v1 c hc img hv bin maxC maxI hexp hA us hus k u hk hblob t ht hte hsig hset hrev hn hent

/-- `rom_accepts`, signature-block part for an UNSIGNED container (SRK set "none", no SRK table, no signature), both
    container generations: accepted, SRK table and signature offsets are 0 and NO signature obligation is reported - the
    checker never reports "nothing to verify" for a container whose SRK set is not "none" (see `rom_accepts_file`) -/
theorem rom_accepts_sigblock_unsigned (c : CryptoOps) (v : Ver) (maxC maxI : Nat) (bin cb : Bytes) (base : Nat) (cont : Container)
    (iaes : List Iae) (hcb : Spec.AhabRom.slice bin base cb.length = cb) (hexp : exportContainerWith v cont iaes = .ok cb)
    (hb : BlobLenOK cont.sb) (hset : cont.srkSet = 0) (hsrk : cont.sb.srk = []) (hsig : cont.sb.signature = []) :
    Spec.AhabRom.checkSigBlock c (romParams v maxC maxI) bin base cb.length (sigBlockOffset v iaes.length) cont.flags =
      .ok (0, 0, (sbLayout v cont.sb).certOff, (sbLayout v cont.sb).blobOff, (sbLayout v cont.sb).length, none) :=
  checkSigBlock_accepts_unsigned c v maxC maxI bin cb base cont iaes hcb hexp hb hset hsrk hsig

/-- `rom_accepts`, signature-block part (version 2, signed; the SRK table array is one opaque region for the checker): accepted;
    the report names the signed range `[base, base + sigblock offset + signature offset)`, the SRK table array region
    `[srk offset, signature offset)` and the first signature -/
theorem rom_accepts_sigblock_v2 (c : CryptoOps) (maxC maxI : Nat) (bin cb : Bytes) (base : Nat) (cont : Container) (iaes : List Iae)
    (hcb : Spec.AhabRom.slice bin base cb.length = cb) (hexp : exportContainerWith .v2 cont iaes = .ok cb)
    (hb : BlobLenOK cont.sb) (hsrk : cont.sb.srk ≠ []) (hsig : cont.sb.signature ≠ [])
    (hset : cont.srkSet ≠ 0) (hrev : (cont.revokeMask >>> cont.usedSrkId) % 2 = 0) :
    Spec.AhabRom.checkSigBlock c (Spec.AhabRom.paramsV2 maxC maxI) bin base cb.length (sigBlockOffset .v2 iaes.length) cont.flags =
      .ok ((sbLayout .v2 cont.sb).srkOff, (sbLayout .v2 cont.sb).sigOff, (sbLayout .v2 cont.sb).certOff, (sbLayout .v2 cont.sb).blobOff,
           (sbLayout .v2 cont.sb).length,
           some ⟨sigBlockOffset .v2 iaes.length + (sbLayout .v2 cont.sb).sigOff,
                 base + sigBlockOffset .v2 iaes.length + (sbLayout .v2 cont.sb).srkOff,
                 (sbLayout .v2 cont.sb).sigOff - (sbLayout .v2 cont.sb).srkOff, 0, 0, cont.usedSrkId,
                 base + sigBlockOffset .v2 iaes.length + (sbLayout .v2 cont.sb).sigOff + 8, cont.sb.signature.length, []⟩) :=
  checkSigBlock_accepts_v2 c maxC maxI bin cb base cont iaes hcb hexp hb hsrk hsig hset hrev

/-- `rom_accepts`, THE WHOLE FILE, for every `c` with `CryptoLaws c`, both container generations, any number of containers and
    images: `ahabCheck` of the independent checker accepts an exported image.  Every slot `k < n` is recognised as a container,
    starts behind the previous one and passes `checkContainer` (header fields, every entry: placement / hash / decryption,
    signature block); no later slot is taken for a container; all containers and images are pairwise disjoint.  The report
    gives, per container: index, base `k * CONTAINER_SIZE`, flags / sw / fuse version as configured, the images, the container
    bytes as exported, and - exactly when the SRK set is not "none" - the signature obligation with the signed range
    `[base, base + sigblock offset + signature offset)`, the position and length of the signature bytes, the selected SRK and
    (version 1) the SHA-256 of the SRK table.
    Hypotheses: each container is unsigned, or signed by a key that is not revoked (`SigKind`: v1 SRK table / v2 SRK table
    array), and fits its slot; entries outside the open finding C06-encrypted-size-alignment and not "encrypted flag without
    blob"; no explicit offset behind the cursor (`ExplicitAhead`, true when all offsets are automatic); the unused slots do
    not happen to hold a container head (`hph`); the containers end before the first image address (`hstart`, automatic for
    version 1: `containers_before_images_v1`). -/
theorem rom_accepts_file (c : CryptoOps) (hc : CryptoLaws c) (img : Image) (bin : Bytes) (maxC maxI : Nat)
    (hexp : img.export c = .ok bin) (hA : 0 < img.chip.imageAlignment)
    (us : List UContainer) (hus : img.update c = .ok us) (hne : us ≠ []) (hmax : us.length ≤ maxC)
    (hcont : ∀ u ∈ us, BlobLenOK u.cont.sb ∧ u.placed.length ≤ maxI ∧ SigKind img.ver u.cont ∧
      (∀ cb, u.export img.ver = .ok cb → cb.length ≤ img.ver.containerSize) ∧
      ∀ (i : Nat) (p : Placed), u.placed[i]? = some p → 0 < p.ready.size ∧
        ¬ (Iae.isEncrypted img.ver p.entry.flags = true ∧ u.cont.sb.blob.isSome = false) ∧
        (Iae.isEncrypted img.ver p.entry.flags = true → u.cont.sb.blob.isSome = true →
          p.ready.size = p.ready.image.length ∧ (storedImage img.chip p.entry.data).length % 16 = 0 ∧ u.cont.dek.isSome = true))
    (hph : ∀ m, us.length ≤ m → m < maxC →
      Spec.AhabRom.looksLikeContainer (romParams img.ver maxC maxI) bin (m * img.ver.containerSize) = false)
    (ha : ExplicitAhead img.chip img.ver (img.chip.startAddr img.ver) (allPlaced us))
    (hstart : us.length * img.ver.containerSize ≤ img.chip.startAddr img.ver) :
    ∃ reps, Spec.AhabRom.ahabCheck c (romParams img.ver maxC maxI) bin (us.map dekOf) = .ok reps ∧ reps.length = us.length ∧
      ∀ k u r, us[k]? = some u → reps[k]? = some r →
        r.index = k ∧ r.base = k * img.ver.containerSize ∧ r.flags = u.cont.flags ∧ r.swVersion = u.cont.swVersion ∧
        r.fuseVersion = u.cont.fuseVersion ∧ r.images = u.placed.map (repOf img.ver) ∧
        u.export img.ver = .ok (Spec.AhabRom.slice bin r.base r.length) ∧
        (r.sig = none ↔ u.cont.srkSet = 0) ∧
        ∀ s, r.sig = some s → s.signedLen = sigBlockOffset img.ver u.placed.length + (sbLayout img.ver u.cont.sb).sigOff ∧
          s.sigOff = r.base + s.signedLen + 8 ∧ s.sigLen = u.cont.sb.signature.length ∧ s.usedSrk = u.cont.usedSrkId ∧
          (img.ver = .v1 → s.srkHash = c.hash .sha256 u.cont.sb.srk) :=
  ahabCheck_accepts c hc img bin maxC maxI hexp hA us hus hne hmax hcont hph ha hstart

/-- `hstart` of `rom_accepts_file` for container version 1: up to four 0x400 slots end before both start addresses
    (0x2000 / NAND 0x1C00), read from the generated constants -/
theorem containers_before_images_v1 (ch : Chip) (n : Nat) (hn : n ≤ 4) : n * Ver.v1.containerSize ≤ ch.startAddr .v1 := by
  have e1 : Ver.v1.containerSize = 1024 := rfl
  unfold Chip.startAddr
  rw [e1]
  split
  · have : Ver.v1.startAddrNand = 7168 := rfl
    omega
  · have : Ver.v1.startAddr = 8192 := rfl
    omega

/-- ... and for version 2 with the regular start address (0xC000 = three 0x4000 slots).  For the NAND start address (0xBC00)
    a THIRD container longer than 0x3C00 bytes would reach into the first image: not a theorem, hence the hypothesis. -/
theorem containers_before_images_v2 (ch : Chip) (n : Nat) (hn : n ≤ 3) (hnand : ch.isNand = false) :
    n * Ver.v2.containerSize ≤ ch.startAddr .v2 := by
  have e1 : Ver.v2.containerSize = 16384 := rfl
  unfold Chip.startAddr
  rw [hnand, e1]
  have : Ver.v2.startAddr = 49152 := rfl
  simp only [Bool.false_eq_true, if_false]
  omega

/-! ## 7. the verifier's range records -/

/-- a bit-range record (`add_record_bit_range`) is an ERROR exactly for values outside `[0, 2^bits - 1]`.
    This goes through the GENERATED `check_range` (`start <= x <= end` after commit d90f269): with the former body
    (`start > x > end`, never true ... never failing) the statement is false and this theorem does not compile. -/
theorem bit_range_record (r : AhabConsts.RangeRec) (x : Int) (h : r.viaCheckRange = true) :
    recFails r (some x) = true ↔ ¬ (0 ≤ x ∧ x ≤ r.hi) :=
  recFails_bits r x h

/-- `verify_sound` / `verify_complete` for the container's own range records: they are clean exactly when flags,
    sw_version, fuse_version (each in ITS record: "SW version" looks at `sw_version`, 16 bits; "Fuse version" at
    `fuse_version`, 8 bits - the generated table says which attribute is fed in) and the signature block offset fit -/
theorem container_records (v : Ver) (c : VContainer) :
    failed AhabConsts.recsContainer (containerEnv v c) = [] ↔
      (0 ≤ c.flags ∧ c.flags ≤ 4294967295) ∧ (0 ≤ c.swVersion ∧ c.swVersion ≤ 65535) ∧ (0 ≤ c.fuseVersion ∧ c.fuseVersion ≤ 255) ∧
      ((sigBlockOffset v c.images.length : Nat) : Int) ≤ 65535 :=
  container_records_iff v c

/-- ... and an out-of-range sw / fuse version IS reported under that name, whatever the flags word is -/
theorem sw_fuse_version_reported (v : Ver) (c : VContainer) :
    (¬ (0 ≤ c.swVersion ∧ c.swVersion ≤ 65535) → "SW version" ∈ failed AhabConsts.recsContainer (containerEnv v c)) ∧
    (¬ (0 ≤ c.fuseVersion ∧ c.fuseVersion ≤ 255) → "Fuse version" ∈ failed AhabConsts.recsContainer (containerEnv v c)) := by
  refine ⟨fun h => ?_, fun h => ?_⟩
  · exact mem_failed AhabConsts.recsContainer _ ⟨"SW version", "sw_version", 0, 65535, true⟩ (by decide)
      ((recFails_bits _ _ rfl).2 h)
  · exact mem_failed AhabConsts.recsContainer _ ⟨"Fuse version", "fuse_version", 0, 255, true⟩ (by decide)
      ((recFails_bits _ _ rfl).2 h)

theorem iae_records (e : VIae) :
    failed AhabConsts.recsIae (iaeEnv e) = [] ↔
      (0 ≤ e.flags ∧ e.flags ≤ 4294967295) ∧ (0 ≤ e.metaData ∧ e.metaData ≤ 4294967295) ∧
      (0 ≤ e.imageOffset ∧ e.imageOffset ≤ 4294967295) ∧ (0 ≤ e.imageSize ∧ e.imageSize ≤ 4294967295) ∧
      (0 ≤ e.loadAddress ∧ e.loadAddress ≤ 18446744073709551615) ∧ (0 ≤ e.entryPoint ∧ e.entryPoint ≤ 18446744073709551615) :=
  iae_records_iff e

/-- `verify_complete` (container part): "a valid image is never reported as erroneous" for the model's verifier - every
    record (header tag / version / length, the range records, the four signature-block offset records with their
    minimum-offset and alignment conditions, the blob records, the image size and range records of every entry) is clean
    on a container as `update_fields` leaves it, provided its values fit the binary format.  Legal extreme values
    (sw 65535, fuse 255, flags 2^32-1, addresses 2^64-1, key identifier 2^32-1) are inside the hypotheses. -/
theorem verify_complete (ch : Chip) (v : Ver) (u : UContainer)
    (hflags : u.cont.flags ≤ 4294967295) (hsw : u.cont.swVersion ≤ 65535) (hfuse : u.cont.fuseVersion ≤ 255)
    (hn : u.placed ≠ [])
    (hL : headerLength v u.placed.length (sbLayout v u.cont.sb).length ≤ 65535)
    (hblob : ∀ b, u.cont.sb.blob = some b → BlobWF b u.cont.dek ∧ b.length ≠ 0)
    (hp : ∀ p ∈ u.placed, PlacedWF ch v u.base p)
    (hauth : u.cont.srkSet = 0 → u.cont.sb.srk.length = 0 ∧ u.cont.sb.sigSize v = 0) :
    verifyContainer ch v (toVContainer v u) = [] :=
  verifyContainer_nil ch v u hflags hsw hfuse hn hL hblob hp hauth

/-- the SRK set is part of the signed flag word: a container that claims SRK set 'none' but carries an SRK table or a
    signature is reported (commit 457be4d; before it, flipping bit 1 of the flags byte of an OEM-signed container switched the
    authenticity check off and the image verified clean) - so the "unsigned" hypothesis of `verify_complete` is necessary -/
theorem srk_set_none_reported (ch : Chip) (v : Ver) (c : VContainer) (sb : VSigBlock) (hsb : c.sb = some sb)
    (h0 : getFI c.flags AhabConsts.cFlagsSrkSetOffset AhabConsts.cFlagsSrkSetSize = 0)
    (hp : sb.srk.present = true ∨ sb.sig.present = true) : "Signature block" ∈ verifyContainer ch v c :=
  srkSetNone_reported ch v c sb hsb h0 hp

/-- the container flag word of a version-2 configuration: SRK set, used SRK, revoke mask, check-all-signatures (bit 15, commit
    3d34c9d: it used to be OR-ed into the glitch-detector field) and glitch-detector behaviour are disjoint fields, every getter
    position returns what was put in -/
theorem container_flags_fields (s u r g ca : Nat) (hs : s < 4) (hu : u < 4) (hr : r < 16) (hca : ca < 2) (hg : g < 4) :
    containerFlagsV2 s u r g ca < 2 ^ 32 ∧
    getF (containerFlagsV2 s u r g ca) AhabConsts.cFlagsSrkSetOffset AhabConsts.cFlagsSrkSetSize = s ∧
    getF (containerFlagsV2 s u r g ca) AhabConsts.cFlagsUsedSrkIdOffset AhabConsts.cFlagsUsedSrkIdSize = u ∧
    getF (containerFlagsV2 s u r g ca) AhabConsts.cFlagsSrkRevokeMaskOffset AhabConsts.cFlagsSrkRevokeMaskSize = r ∧
    getF (containerFlagsV2 s u r g ca) AhabConsts.cFlagsCheckAllSignaturesOffset AhabConsts.cFlagsCheckAllSignaturesSize = ca ∧
    getF (containerFlagsV2 s u r g ca) AhabConsts.cFlagsGdetEnableOffset AhabConsts.cFlagsGdetEnableSize = g ∧
    containerFlags s u r g = containerFlagsV2 s u r g 0 := by
  have A := cflags_arith s u r g ca hs hu hr hca hg
  rw [containerFlagsV2_val s u r g ca hs hu hr hca]
  simp only [getF_eq]
  refine ⟨A.1, A.2.1, A.2.2.1, A.2.2.2.1, A.2.2.2.2.1, A.2.2.2.2.2, ?_⟩
  unfold containerFlags containerFlagsV2
  simp

/-- the structural half of `PlacedWF` is what `update_fields` establishes (the other half are the range bounds) -/
theorem update_establishes (c : CryptoOps) (hc : CryptoLaws c) (img : Image) (us : List UContainer) (h : img.update c = .ok us)
    (u : UContainer) (hu : u ∈ us) (p : Placed) (hp : p ∈ u.placed) :
    p.iae = mkIae u.base p.offset p.entry p.ready ∧
    p.ready.size = validSize img.chip img.ver p.entry.flags p.entry.sizeAlign p.ready.image ∧
    p.ready.hash.length = 64 ∧ p.ready.iv.length = 32 := by
  have hent := updateContainers_entries c img.chip img.ver img.containers 0 _ us h u hu p hp
  obtain ⟨a, _, _, hhl, hivl, hsize, _⟩ := readyEntry_spec c hc img.chip img.ver _ p.entry p.ready hent.1
  exact ⟨hent.2, hsize, hhl, hivl⟩

/-! ## 8. whole-file round trip (parser model of Model/AhabParse.lean) -/

/-- where every part of an exported signature block lies: header at 0, SRK table (array), signature(s), certificate and blob
    at the offsets of `update_fields`, each one intact -/
theorem sigblock_parts (v : Ver) (sb : SigBlock) (s : Bytes) (hb : BlobLenOK sb)
    (h : encodeSigBlock v sb (sbLayout v sb) = .ok s) :
    ∃ hdr sg sg2 bl, sbHeader v (sbLayout v sb) sb.keyId = .ok hdr ∧ encodeSignature sb.signature = .ok sg ∧
      encodeSignature sb.signature2 = .ok sg2 ∧ encodeBlobOpt sb = .ok bl ∧
      s.length = (sbLayout v sb).length ∧
      Spec.AhabRom.slice s 0 16 = hdr ∧
      (sb.srk ≠ [] → Spec.AhabRom.slice s (sbLayout v sb).srkOff sb.srk.length = sb.srk) ∧
      (sg ≠ [] → Spec.AhabRom.slice s (sbLayout v sb).sigOff sg.length = sg) ∧
      (v = .v2 → sg ≠ [] → sg2 ≠ [] → Spec.AhabRom.slice s ((sbLayout v sb).sigOff + sg.length) sg2.length = sg2) ∧
      (sb.cert ≠ [] → Spec.AhabRom.slice s (sbLayout v sb).certOff sb.cert.length = sb.cert) ∧
      (∀ b, sb.blob = some b → Spec.AhabRom.slice s (sbLayout v sb).blobOff bl.length = bl) :=
  sigblock_content v sb s hb h

/-- signature block: parse(export) gives back the offsets, the decoded SRK table (v1) / raw SRK table array (v2), the signature
    data, the raw certificate and the blob -/
theorem sigblock_roundtrip_full (v : Ver) (sb : SigBlock) (s rest : Bytes) (hwf : SbParseWF v sb)
    (h : encodeSigBlock v sb (sbLayout v sb) = .ok s) : parseSigBlock v (s ++ rest) = some (expectedSb v sb) :=
  sigblock_roundtrip v sb s rest hwf h

/-- whole container: header, image array and signature block parse back (the image bytes are whatever the surrounding file
    holds at the entries' offsets - `image_roundtrip` says what that is) -/
theorem container_roundtrip_full (v : Ver) (c : Container) (iaes : List Iae) (cb rest : Bytes) (hwf : SbParseWF v c.sb)
    (hi : ∀ e ∈ iaes, e.hash.length = 64 ∧ e.iv.length = 32) (h : exportContainerWith v c iaes = .ok cb) :
    parseContainer v (cb ++ rest) =
      some ⟨expectedHeader v c iaes.length, iaes, iaes.map (imageBytes (cb ++ rest)), expectedSb v c.sb⟩ :=
  container_parse_roundtrip v c iaes cb rest hwf hi h

/-- `image_roundtrip`: `AHABImage.parse(AHABImage.export())`, in the models, returns slot by slot exactly what was exported -
    header fields, every image-array entry, the bytes of every image (zero-extended to its size), the signature block with its
    offsets, SRK table, signature, certificate and blob - for every number of containers and images, every crypto instance
    with `CryptoLaws`.  `hphantom`: the unused container slots do not happen to hold bytes that pass the container head check
    (tag 0x87, version, length); they are zero filled unless an explicit image offset or an over-long last container puts data
    there.  `SbParseWF`: blob header describes its bytes, no second (PQC) signature, certificate / v2 SRK array delimited by
    their own length field. -/
theorem image_roundtrip (c : CryptoOps) (hc : CryptoLaws c) (img : Image) (bin : Bytes) (maxC : Nat)
    (hexp : img.export c = .ok bin) (hA : 0 < img.chip.imageAlignment)
    (us : List UContainer) (hus : img.update c = .ok us) (hne : us ≠ [])
    (hwf : ∀ u ∈ us, SbParseWF img.ver u.cont.sb) (hmax : us.length ≤ maxC)
    (hphantom : ∀ m, us.length ≤ m → m < maxC → decodeHeader img.ver (bin.drop (m * img.ver.containerSize)) = none) :
    parseFile img.ver maxC bin = some (us.map (expectedP img.ver)) :=
  image_roundtrip' c hc img bin maxC hexp hA us hus hne hwf hmax hphantom

/-- the version-2 SRK table array of the model (header, table of four records holding the hashes of their SRK data blocks, SRK
    data of the used record) is delimited by its own header length: the `RawBlockOK` hypothesis of `image_roundtrip` holds -/
theorem srk_array_self_delimited (c : CryptoOps) (used : Nat) (srks : List SrkV2) (b : Bytes)
    (h : encodeSrkArray c used srks = .ok b) : RawBlockOK AhabConsts.srkTableArrayTag b :=
  srkArray_raw_ok c used srks b h

/-! ## 9. tampering is detected unless a primitive is broken (reductions, DESIGN §4) -/

/-- `verify_sound` for hash-covered bytes: if a file differs from another one inside the image of an entry while the entry's own
    128 bytes are the same, and the independent entry check accepts both, then the two image contents are a COLLISION of the
    declared hash.  (With `rom_accepts`: the exported file is accepted, so a corrupted image byte that is still accepted breaks
    SHA-2.) -/
theorem tamper_image_detected (c : CryptoOps) (hc : CryptoLaws c) (p : Spec.AhabRom.Params) (bin bin' : Bytes) (base pos : Nat)
    (dek dek' : Option Bytes) (r r' : Spec.AhabRom.ImageRep)
    (hent : Spec.AhabRom.slice bin pos Spec.AhabRom.iaeSize = Spec.AhabRom.slice bin' pos Spec.AhabRom.iaeSize)
    (hpl : pos + Spec.AhabRom.iaeSize ≤ bin.length)
    (h : Spec.AhabRom.checkEntry c p bin base pos dek = .ok r) (h' : Spec.AhabRom.checkEntry c p bin' base pos dek' = .ok r')
    (hdiff : Spec.AhabRom.slice bin r.offset r.size ≠ Spec.AhabRom.slice bin' r.offset r.size) : Break c :=
  tamper_image_reduction c hc p bin bin' base pos dek dek' r r' hent hpl h h'  hdiff

/-- `verify_sound` for signed bytes, for the check that authenticates the FILE (the independent check; SPSDK's own verify()
    authenticates a re-serialisation, see the excluded classes below): a file that differs inside the signed range
    `bin[base : base + signedLen]` but carries the honest signature and still satisfies the signature obligation is a
    signature FORGERY -/
theorem tamper_signed_detected (c : CryptoOps) (alg : Crypto.SigAlg) (sk : Crypto.PrivKey) (rnd : Crypto.Rand) (bin bin' : Bytes)
    (base : Nat) (s : Spec.AhabRom.SigRep)
    (hsig : Spec.AhabRom.slice bin' s.sigOff s.sigLen = c.sign alg sk (Spec.AhabRom.slice bin base s.signedLen) rnd)
    (hdiff : Spec.AhabRom.slice bin base s.signedLen ≠ Spec.AhabRom.slice bin' base s.signedLen)
    (hacc : Spec.AhabRom.sigObligation c alg (c.pubOf sk) bin' base s = true) : Break c :=
  tamper_signed_reduction c alg sk rnd bin bin' base s hsig hdiff hacc

/-- excluded class 1 (open finding C06-verify-reserializes), stated: the parser does not look at the reserved word of the
    container header (nor does any later stage), so two files that differ only there parse to the same object - a verifier that
    authenticates a re-export of that object cannot tell them apart.  The full `verify_sound` is therefore FALSE for SPSDK's
    verify() on exactly the bytes the parser drops. -/
theorem parser_ignores_reserved (v : Ver) (length flags sw fuse n sbo r1 r2 : Nat) (rest : Bytes) (h1 : r1 < 65536) (h2 : r2 < 65536)
    (hf : fits (v.hdrLayout).intWidths [v.containerVersion, length, AhabConsts.containerTag, flags, sw, fuse, n, sbo, 0] = true) :
    decodeHeader v (packInts (v.hdrLayout).intWidths [v.containerVersion, length, AhabConsts.containerTag, flags, sw, fuse, n, sbo, r1] ++ rest) =
    decodeHeader v (packInts (v.hdrLayout).intWidths [v.containerVersion, length, AhabConsts.containerTag, flags, sw, fuse, n, sbo, r2] ++ rest) := by
  have w := (hdrLayout_widths v).1
  rw [w] at hf ⊢
  have f1 : fits [1, 2, 1, 4, 2, 1, 1, 2, 2] [v.containerVersion, length, AhabConsts.containerTag, flags, sw, fuse, n, sbo, r1] = true := by
    simp only [fits, Bool.and_eq_true, decide_eq_true_eq] at hf ⊢
    refine ⟨hf.1, hf.2.1, hf.2.2.1, hf.2.2.2.1, hf.2.2.2.2.1, hf.2.2.2.2.2.1, hf.2.2.2.2.2.2.1, hf.2.2.2.2.2.2.2.1, by omega, trivial⟩
  have f2 : fits [1, 2, 1, 4, 2, 1, 1, 2, 2] [v.containerVersion, length, AhabConsts.containerTag, flags, sw, fuse, n, sbo, r2] = true := by
    simp only [fits, Bool.and_eq_true, decide_eq_true_eq] at hf ⊢
    refine ⟨hf.1, hf.2.1, hf.2.2.1, hf.2.2.2.1, hf.2.2.2.2.1, hf.2.2.2.2.2.1, hf.2.2.2.2.2.2.1, hf.2.2.2.2.2.2.2.1, by omega, trivial⟩
  unfold decodeHeader
  rw [w, unpack_pack _ _ rest f1, unpack_pack _ _ rest f2]
  simp only [List.length_append, packInts_length _ _ f1, packInts_length _ _ f2]

/-! ## 10. the certificate (chain of trust SRK -> certificate -> container) -/

/-- the hand split of the certificate header used by the model (integers ‖ 12-byte permission data ‖ integers ‖ 16-byte UUID)
    IS the struct format extracted from `AhabCertificate.format()`, with the pack arguments of `get_signature_data` in the
    order the model writes them; tag / version as in the source -/
theorem cert_layout_agrees :
    AhabConsts.certificateLayout.fmt = "<BHBHBB12sBBH16s" ∧
    AhabConsts.certificateLayout.intWidths = certIntsA ++ certIntsB ∧
    AhabConsts.certificateLayout.strFields = [(6, certPermDataLen), (10, certUuidLen)] ∧
    AhabConsts.certificateLayout.size = 40 ∧
    AhabConsts.certificateLayout.packArgs = ["version", "length", "tag", "signature_offset", "~_permissions&255", "_permissions",
      "extend_block(permission_data,PERMISSION_DATA_SIZE,padding=RESERVED)", "fuse_version", "RESERVED", "RESERVED",
      "extend_block(_uuidorb'',UUID_SIZE,padding=RESERVED)"] ∧
    AhabConsts.certificateTag = 0xAF ∧ AhabConsts.certificateVersion = 2 ∧
    AhabConsts.certPermissionDataSize = certPermDataLen ∧ AhabConsts.certUuidSize = certUuidLen ∧
    -- the verifier's range records of the certificate feed the attribute they name, 8 bits each
    AhabConsts.recsCertificate = [⟨"Permissions", "_permissions", 0, 255, true⟩, ⟨"Fuse version", "fuse_version", 0, 255, true⟩] := by decide

/-- WHAT the certificate signature covers: an exported certificate is `signed part ‖ signature container`; the signed part
    (`get_signature_data`) is exactly the first `signature offset` bytes - header, public key record, key data - and the header
    itself states that offset (bytes 4..5), the total length (bytes 1..2), the permissions (byte 7) and their complement -/
theorem cert_signed_range (c : CryptoOps) (ct : Cert) (b : Bytes) (h : encodeCert c ct = .ok b) :
    ∃ sd g, encodeCertSigned c ct = .ok sd ∧ encodeSignature ct.signature = .ok g ∧ b = sd ++ g ∧ b.take sd.length = sd ∧
      Spec.AhabRom.rd b 4 2 = sd.length ∧ Spec.AhabRom.rd b 1 2 = b.length ∧
      Spec.AhabRom.rd b 0 1 = AhabConsts.certificateVersion ∧ Spec.AhabRom.rd b 3 1 = AhabConsts.certificateTag ∧
      Spec.AhabRom.rd b 7 1 = ct.perms ∧ Spec.AhabRom.rd b 6 1 = 255 - ct.perms % 256 :=
  cert_signed_range' c ct b h

/-- ... and it does not depend on the signature bytes (the signer signs a well defined message) -/
theorem cert_signed_independent (c : CryptoOps) (ct : Cert) (sig' : Bytes) (hl : sig'.length = ct.signature.length) :
    encodeCertSigned c { ct with signature := sig' } = encodeCertSigned c ct :=
  certSigned_independent c ct sig' hl

/-- `parse (export cert) = cert` for every certificate with one key and one signature (every permission byte, permission data
    up to 12 and UUID up to 16 bytes - returned zero-extended; `AhabCertificate.__eq__` compares them padded since a117167 -,
    every key whose algorithm tags are in the version-2 enumerations, any trailing bytes) -/
theorem cert_roundtrip (c : CryptoOps) (hc : CryptoLaws c) (ct : Cert) (b rest : Bytes) (hwf : CertWF ct)
    (h : encodeCert c ct = .ok b) :
    ∃ rec so, srkRecordOfV2 c ct.srkId ct.key = .ok rec ∧ b.length = so + signatureLen ct.signature ∧
      so = 40 + 76 + (8 + ct.key.keyData.length) ∧
      parseCert (b ++ rest) = some (expectedCert c ct rec b.length so) :=
  cert_roundtrip' c hc ct b rest hwf h

/-- what the parser checks: a permission byte whose complement field does not match is refused (the two fields cannot be changed
    independently), and so is a declared length that is not signature offset + signature container (commit adb6379; the
    comparison used to be dead code for single-signature certificates) -/
theorem cert_perm_complement_checked (b : Bytes) (p : PCert) (h : parseCert b = some p) :
    ∃ inv perm, unpackInts certIntsA b = some [AhabConsts.certificateVersion, p.length, AhabConsts.certificateTag, p.sigOff, inv, perm] ∧
      inv = 255 - perm % 256 ∧ p.perms = perm ∧ p.length = p.sigOff + signatureLen p.signature := by
  unfold parseCert at h
  split at h
  · cases h
  split at h
  · rename_i ver len tag so inv perm fuse r1 r2 hu1 hu2
    split at h
    · cases h
    rename_i hc1
    split at h
    · cases h
    rename_i hc2
    simp only [not_or, Decidable.not_not] at hc1
    split at h
    · cases h
    rename_i rec hrec
    unfold parseCertKey at h
    split at h
    · cases h
    split at h
    · cases h
    split at h
    · cases h
    split at h
    · cases h
    rename_i hlen
    cases h
    refine ⟨inv, perm, ?_, Decidable.not_not.1 hc2, rfl, Decidable.not_not.1 hlen⟩
    rw [hu1, hc1.1, hc1.2.1]
  · cases h

/-! ## 11. Phase 3: the unused container slots are zero filled - `hph` / `hphantom` derived, not assumed -/

/-- every chip row of the database, both container generations, every target memory (NAND and non-NAND start address): the HEAD
    (first 16 bytes) of every container slot `m < containers_max` lies in front of the first image address; the whole slots do
    for version 1, and for version 2 unless the target is NAND (0xBC00 < 3 * 0x4000: `hstart` stays a hypothesis there) -/
theorem chip_slots_before_images : ∀ r ∈ AhabConsts.chips, ∀ (tm : String) (v : Ver),
      (∀ m, m < r.containersMax → m * v.containerSize + 16 ≤ (Chip.mk r tm).startAddr v) ∧
      (v = .v1 ∨ (Chip.mk r tm).isNand = false → r.containersMax * v.containerSize ≤ (Chip.mk r tm).startAddr v) := by
  have hmax3 : ∀ r ∈ AhabConsts.chips, r.containersMax ≤ 3 := by decide
  intro r hr tm v
  have hmax : r.containersMax ≤ 3 := hmax3 r hr
  have hs : ∀ (v : Ver), (Chip.mk r tm).startAddr v = if (Chip.mk r tm).isNand then v.startAddrNand else v.startAddr := fun _ => rfl
  have e1 : Ver.v1.containerSize = 1024 := rfl
  have e2 : Ver.v2.containerSize = 16384 := rfl
  have a1 : Ver.v1.startAddrNand = 7168 := rfl
  have a2 : Ver.v1.startAddr = 8192 := rfl
  have a3 : Ver.v2.startAddrNand = 48128 := rfl
  have a4 : Ver.v2.startAddr = 49152 := rfl
  cases v with
  | v1 =>
    rw [hs, e1, a1, a2]
    refine ⟨fun m hm => ?_, fun _ => ?_⟩ <;> split <;> omega
  | v2 =>
    rw [hs, e2, a3, a4]
    refine ⟨fun m hm => ?_, fun h => ?_⟩
    · split <;> omega
    · rcases h with h | h
      · cases h
      · rw [h]; simp only [Bool.false_eq_true, if_false]; omega

/-- THE ZERO FILL of the export model: every byte behind the slots of the configured containers and in front of the first image
    address is 0, whenever every container fits its slot and no image is explicitly placed in front of the start address -/
theorem unused_slots_zero (c : CryptoOps) (img : Image) (bin : Bytes)
    (hexp : img.export c = .ok bin) (hA : 0 < img.chip.imageAlignment)
    (us : List UContainer) (hus : img.update c = .ok us)
    (hfit : ∀ u ∈ us, BlobLenOK u.cont.sb ∧ ∀ cb, u.export img.ver = .ok cb → cb.length ≤ img.ver.containerSize)
    (hge : ∀ p ∈ allPlaced us, img.chip.startAddr img.ver ≤ p.offset)
    (k : Nat) (hk1 : us.length * img.ver.containerSize ≤ k) (hk2 : k < img.chip.startAddr img.ver) :
    bin[k]? = some 0 :=
  export_zero_fill c img bin hexp hA us hus hfit hge k hk1 hk2

/-- ... hence no unused slot whose head lies in front of the first image address is taken for a container: neither by the
    independent checker (`looksLikeContainer`) nor by the model of SPSDK's parser (`decodeHeader`) -/
theorem no_phantom_container (c : CryptoOps) (img : Image) (bin : Bytes) (p : Spec.AhabRom.Params)
    (hexp : img.export c = .ok bin) (hA : 0 < img.chip.imageAlignment)
    (us : List UContainer) (hus : img.update c = .ok us)
    (hfit : ∀ u ∈ us, BlobLenOK u.cont.sb ∧ ∀ cb, u.export img.ver = .ok cb → cb.length ≤ img.ver.containerSize)
    (hge : ∀ p ∈ allPlaced us, img.chip.startAddr img.ver ≤ p.offset)
    (m : Nat) (hm : us.length ≤ m) (hslot : m * img.ver.containerSize + 16 ≤ img.chip.startAddr img.ver) :
    Spec.AhabRom.looksLikeContainer p bin (m * img.ver.containerSize) = false ∧
    decodeHeader img.ver (bin.drop (m * img.ver.containerSize)) = none := by
  have hz := export_zero_fill c img bin hexp hA us hus hfit hge (m * img.ver.containerSize + 3)
    (by have := Nat.mul_le_mul_right img.ver.containerSize hm; omega) (by omega)
  exact ⟨zero_not_container p bin _ hz, zero_not_header img.ver bin _ hz⟩

/-- `rom_accepts_file` WITHOUT the phantom-head hypothesis: the only geometric assumptions left are about the configuration
    (containers fit their slots, no explicit offset behind the cursor, slot heads in front of the start address - true for every
    database row by `chip_slots_before_images` - and the containers end before the first image) -/
theorem rom_accepts_file_closed (c : CryptoOps) (hc : CryptoLaws c) (img : Image) (bin : Bytes) (maxC maxI : Nat)
    (hexp : img.export c = .ok bin) (hA : 0 < img.chip.imageAlignment)
    (us : List UContainer) (hus : img.update c = .ok us) (hne : us ≠ []) (hmax : us.length ≤ maxC)
    (hcont : ∀ u ∈ us, BlobLenOK u.cont.sb ∧ u.placed.length ≤ maxI ∧ SigKind img.ver u.cont ∧
      (∀ cb, u.export img.ver = .ok cb → cb.length ≤ img.ver.containerSize) ∧
      ∀ (i : Nat) (p : Placed), u.placed[i]? = some p → 0 < p.ready.size ∧
        ¬ (Iae.isEncrypted img.ver p.entry.flags = true ∧ u.cont.sb.blob.isSome = false) ∧
        (Iae.isEncrypted img.ver p.entry.flags = true → u.cont.sb.blob.isSome = true →
          p.ready.size = p.ready.image.length ∧ (storedImage img.chip p.entry.data).length % 16 = 0 ∧ u.cont.dek.isSome = true))
    (hslots : ∀ m, m < maxC → m * img.ver.containerSize + 16 ≤ img.chip.startAddr img.ver)
    (ha : ExplicitAhead img.chip img.ver (img.chip.startAddr img.ver) (allPlaced us))
    (hstart : us.length * img.ver.containerSize ≤ img.chip.startAddr img.ver) :
    ∃ reps, Spec.AhabRom.ahabCheck c (romParams img.ver maxC maxI) bin (us.map dekOf) = .ok reps ∧ reps.length = us.length ∧
      ∀ k u r, us[k]? = some u → reps[k]? = some r →
        r.index = k ∧ r.base = k * img.ver.containerSize ∧ r.flags = u.cont.flags ∧ r.swVersion = u.cont.swVersion ∧
        r.fuseVersion = u.cont.fuseVersion ∧ r.images = u.placed.map (repOf img.ver) ∧
        u.export img.ver = .ok (Spec.AhabRom.slice bin r.base r.length) ∧
        (r.sig = none ↔ u.cont.srkSet = 0) ∧
        ∀ s, r.sig = some s → s.signedLen = sigBlockOffset img.ver u.placed.length + (sbLayout img.ver u.cont.sb).sigOff ∧
          s.sigOff = r.base + s.signedLen + 8 ∧ s.sigLen = u.cont.sb.signature.length ∧ s.usedSrk = u.cont.usedSrkId ∧
          (img.ver = .v1 → s.srkHash = c.hash .sha256 u.cont.sb.srk) := by
  have hge := (offsets_disjoint c img us hus ha).2
  refine rom_accepts_file c hc img bin maxC maxI hexp hA us hus hne hmax hcont ?_ ha hstart
  intro m hm1 hm2
  exact (no_phantom_container c img bin _ hexp hA us hus (fun u hu => ⟨(hcont u hu).1, (hcont u hu).2.2.2.1⟩) hge m hm1
    (hslots m hm2)).1

/-- `image_roundtrip` WITHOUT the phantom-head hypothesis -/
theorem image_roundtrip_closed (c : CryptoOps) (hc : CryptoLaws c) (img : Image) (bin : Bytes) (maxC : Nat)
    (hexp : img.export c = .ok bin) (hA : 0 < img.chip.imageAlignment)
    (us : List UContainer) (hus : img.update c = .ok us) (hne : us ≠ [])
    (hwf : ∀ u ∈ us, SbParseWF img.ver u.cont.sb) (hmax : us.length ≤ maxC)
    (hfit : ∀ u ∈ us, ∀ cb, u.export img.ver = .ok cb → cb.length ≤ img.ver.containerSize)
    (hslots : ∀ m, m < maxC → m * img.ver.containerSize + 16 ≤ img.chip.startAddr img.ver)
    (ha : ExplicitAhead img.chip img.ver (img.chip.startAddr img.ver) (allPlaced us)) :
    parseFile img.ver maxC bin = some (us.map (expectedP img.ver)) := by
  have hge := (offsets_disjoint c img us hus ha).2
  refine image_roundtrip c hc img bin maxC hexp hA us hus hne hwf hmax ?_
  intro m hm1 hm2
  exact (no_phantom_container c img bin (romParams img.ver maxC 0) hexp hA us hus
    (fun u hu => ⟨(hwf u hu).blobLen, hfit u hu⟩) hge m hm1 (hslots m hm2)).2


/-! ## 12. Phase 3: offsets never collide (arbitrary lists of containers and images), re-sign flow -/

/-- NOTHING COLLIDES, for every number of containers and images: the images are in increasing order without overlap, the containers
    are in increasing order without overlap, and every container ends before every image - whenever every container fits its
    slot, no explicit offset points behind the cursor and the container slots end before the first image address -/
theorem layout_never_collides (c : CryptoOps) (img : Image) (us : List UContainer) (hus : img.update c = .ok us)
    (hfit : ∀ u ∈ us, ∀ cb, u.export img.ver = .ok cb → cb.length ≤ img.ver.containerSize)
    (ha : ExplicitAhead img.chip img.ver (img.chip.startAddr img.ver) (allPlaced us))
    (hstart : us.length * img.ver.containerSize ≤ img.chip.startAddr img.ver) :
    (allPlaced us).Pairwise (fun p q => p.offset + p.ready.size ≤ q.offset) ∧
    (∀ (j k : Nat) (u w : UContainer) (cu : Bytes), us[j]? = some u → us[k]? = some w → j < k → u.export img.ver = .ok cu → u.base + cu.length ≤ w.base) ∧
    (∀ (j : Nat) (u : UContainer) (cu : Bytes), us[j]? = some u → u.export img.ver = .ok cu → ∀ p ∈ allPlaced us, u.base + cu.length ≤ p.offset) := by
  have hd := offsets_disjoint c img us hus ha
  have hb := (updateContainers_bases c img.chip img.ver img.containers 0 _ us hus).2
  refine ⟨hd.1, ?_, ?_⟩
  · intro j k u w cu hj hk hjk hcu
    have b1 := (hb j u hj).2.1
    have b2 := (hb k w hk).2.1
    have hl := hfit u (List.mem_of_getElem? hj) cu hcu
    rw [b1, b2, Nat.zero_add, Nat.zero_add]
    have : (j + 1) * img.ver.containerSize ≤ k * img.ver.containerSize := Nat.mul_le_mul_right _ hjk
    rw [Nat.add_mul, Nat.one_mul] at this
    omega
  · intro j u cu hj hcu p hp
    have b1 := (hb j u hj).2.1
    have hl := hfit u (List.mem_of_getElem? hj) cu hcu
    have hjl : j < us.length := by
      rcases Nat.lt_or_ge j us.length with h | h
      · exact h
      · rw [List.getElem?_eq_none h] at hj; cases hj
    have := hd.2 p hp
    rw [b1, Nat.zero_add]
    have h2 : (j + 1) * img.ver.containerSize ≤ us.length * img.ver.containerSize := Nat.mul_le_mul_right _ hjl
    rw [Nat.add_mul, Nat.one_mul] at h2
    omega

/-- ... instantiated for EVERY ROW of the chip database (family x revision), every target memory and both container generations:
    with at most `containers_max` containers nothing collides (version 2 on NAND: with at most two containers; a third one
    is covered by `layout_never_collides` when `hstart` is given) -/
theorem layout_never_collides_chip (c : CryptoOps) (img : Image) (us : List UContainer) (hus : img.update c = .ok us)
    (hrow : img.chip.row ∈ AhabConsts.chips) (hn : us.length ≤ img.chip.row.containersMax)
    (hv : img.ver = .v1 ∨ img.chip.isNand = false ∨ us.length ≤ 2)
    (hfit : ∀ u ∈ us, ∀ cb, u.export img.ver = .ok cb → cb.length ≤ img.ver.containerSize)
    (ha : ExplicitAhead img.chip img.ver (img.chip.startAddr img.ver) (allPlaced us)) :
    (allPlaced us).Pairwise (fun p q => p.offset + p.ready.size ≤ q.offset) ∧
    (∀ (j k : Nat) (u w : UContainer) (cu : Bytes), us[j]? = some u → us[k]? = some w → j < k → u.export img.ver = .ok cu → u.base + cu.length ≤ w.base) ∧
    (∀ (j : Nat) (u : UContainer) (cu : Bytes), us[j]? = some u → u.export img.ver = .ok cu → ∀ p ∈ allPlaced us, u.base + cu.length ≤ p.offset) := by
  refine layout_never_collides c img us hus hfit ha ?_
  have hc := chip_slots_before_images img.chip.row hrow img.chip.targetMemory img.ver
  have heta : Chip.mk img.chip.row img.chip.targetMemory = img.chip := rfl
  rw [heta] at hc
  rcases hv with h | h | h
  · exact Nat.le_trans (Nat.mul_le_mul_right _ hn) (hc.2 (Or.inl h))
  · exact Nat.le_trans (Nat.mul_le_mul_right _ hn) (hc.2 (Or.inr h))
  · rcases Nat.eq_zero_or_pos us.length with h0 | h0
    · rw [h0]; omega
    · have hm : us.length - 1 < img.chip.row.containersMax := by omega
      have h1 := hc.1 (us.length - 1) hm
      -- two version-2 slots (0x8000) end before both start addresses; version 1 is the first case
      cases hver : img.ver with
      | v1 => rw [hver] at hc; exact Nat.le_trans (Nat.mul_le_mul_right _ hn) (hc.2 (Or.inl rfl))
      | v2 =>
        have e2 : Ver.v2.containerSize = 16384 := rfl
        have hs : img.chip.startAddr .v2 = if img.chip.isNand then Ver.v2.startAddrNand else Ver.v2.startAddr := rfl
        have a3 : Ver.v2.startAddrNand = 48128 := rfl
        have a4 : Ver.v2.startAddr = 49152 := rfl
        rw [e2, hs, a3, a4]
        split <;> omega

/-- RE-SIGN FLOW: `update_fields()` on an already updated image changes nothing - every container is locked after the first
    call (offsets kept), images are not encrypted twice, sizes / hashes / IVs are recomputed to the same values - for every
    crypto instance with laws, any number of containers and images.  Hence the exported file (and the data to sign) of the second
    call is that of the first: re-signing signs the same bytes. -/
theorem update_fields_idempotent (c : CryptoOps) (hc : CryptoLaws c) (img : Image) (us : List UContainer)
    (h : img.update c = .ok us) : img.update2 c = .ok us ∧ reupdateAll c img.chip img.ver us = .ok us := by
  have h2 := update2_eq_update c hc img us h
  refine ⟨h2, ?_⟩
  unfold Image.update2 at h2
  rw [h] at h2
  exact h2

/-- one entry: the second `ImageArrayEntry.update_fields()` is the identity on what the first one produced -/
theorem entry_update_idempotent (c : CryptoOps) (hc : CryptoLaws c) (ch : Chip) (v : Ver) (dek : Option Bytes) (e : Entry) (r : Ready)
    (h : readyEntry c ch v dek e = .ok r) : reReady c ch v e r = .ok r :=
  reReady_fix c hc ch v dek e r h

/-! ## 13. Phase 3: the record functions of `spsdk/utils/verifier.py` (GENERATED branch tables) agree with the model verifier -/

/-- does one `if` test of `Verifier.add_record_bit_range` / `add_record_range` hold (`none`: a test the generator does not know)?
    `notInBitRange` = `not check_range(value, end=(1 << bit_range) - 1)` with the generated `check_range` and its generated
    default `start`; `r.hi` of a bit-range record is `(1 << bit_range) - 1` -/
def condHolds (r : AhabConsts.RangeRec) (v : Option Int) : AhabVerifierRecs.RCond → Option Bool
  | .isNone => some v.isNone
  | .notInBitRange =>
    match v with
    | some x => (match PyFuns.check_range x AhabVerifierRecs.checkRangeDefaultStart r.hi with | .ok b => some (!b) | .error _ => none)
    | none => none
  | .ltMin => v.map (fun x => decide (x < r.lo))
  | .gtMax => v.map (fun x => decide (x > r.hi))
  | .otherwise => some true
  | .unknown _ => none

/-- the `VerifierResult` of the record a generated if-chain adds -/
def verdict (r : AhabConsts.RangeRec) (v : Option Int) : List (AhabVerifierRecs.RCond × String) → String
  | [] => "NONE"
  | (cnd, res) :: rest =>
    match condHolds r v cnd with
    | some true => res
    | some false => verdict r v rest
    | none => "UNKNOWN"

/-- AGREEMENT: for every record, every value (or `None`), the model verifier reports an ERROR exactly when the if-chain extracted
    from `spsdk/utils/verifier.py` adds an ERROR record - and otherwise the chain adds SUCCEEDED (never a warning, never nothing).
    A changed comparison, a dropped `None` test or another result constant in verifier.py regenerates another table and this
    theorem no longer holds. -/
theorem verifier_records_agree (r : AhabConsts.RangeRec) (v : Option Int) :
    (recFails r v = true ↔
      verdict r v (if r.viaCheckRange then AhabVerifierRecs.bitRangeBranches else AhabVerifierRecs.rangeBranches) = "ERROR") ∧
    (recFails r v = false ↔
      verdict r v (if r.viaCheckRange then AhabVerifierRecs.bitRangeBranches else AhabVerifierRecs.rangeBranches) = "SUCCEEDED") := by
  have hs : AhabVerifierRecs.checkRangeDefaultStart = 0 := rfl
  cases v with
  | none =>
    cases hv : r.viaCheckRange <;>
      simp [recFails, verdict, condHolds, AhabVerifierRecs.bitRangeBranches, AhabVerifierRecs.rangeBranches]
  | some x =>
    cases hv : r.viaCheckRange
    · simp only [recFails, hv, verdict, condHolds, AhabVerifierRecs.rangeBranches, Option.isNone, Option.map, Bool.false_eq_true, if_false]
      by_cases h1 : x < r.lo <;> by_cases h2 : x > r.hi <;> simp [h1, h2]
    · simp only [recFails, hv, verdict, condHolds, AhabVerifierRecs.bitRangeBranches, Option.isNone, if_true, hs, PyFuns.check_range]
      by_cases h1 : 0 ≤ x <;> by_cases h2 : x ≤ r.hi <;> simp [h1, h2]

/-- the default arguments the generator of the record tables relies on are the ones in the source: `bit_range = 32`,
    `min_val = 0`, `max_val = 2^32 - 1`; `check_range(start = 0, end = 2^32 - 1)`; every bit-range record of the AHAB verify()
    trees has `lo = 0` and `hi = 2^bits - 1` for a width in {4, 8, 16, 32, 64} -/
theorem verifier_defaults :
    AhabVerifierRecs.bitRangeDefaultBits = 32 ∧ AhabVerifierRecs.rangeDefaultMin = 0 ∧ AhabVerifierRecs.rangeDefaultMax = 4294967295 ∧
    AhabVerifierRecs.checkRangeDefaultStart = 0 ∧ AhabVerifierRecs.checkRangeDefaultEnd = 4294967295 ∧
    ∀ r ∈ AhabConsts.recsHeader ++ AhabConsts.recsContainer ++ AhabConsts.recsIae ++ AhabConsts.recsSigBlock ++ AhabConsts.recsSigBlockV2 ++
        AhabConsts.recsSrkRecord ++ AhabConsts.recsBlob ++ AhabConsts.recsCertificate, r.viaCheckRange = true →
      r.lo = 0 ∧ ∃ b ∈ [4, 8, 16, 32, 64], r.hi = 2 ^ b - 1 := by decide

/-! ## non-vacuity and sanity checks (decidable instances of the hypotheses) -/

def exChip : Chip := ⟨(findChip "mimxrt1189" "latest").getD (AhabConsts.chips.headD default), "standard"⟩ where
  default := ⟨"", "", "", 0, 0, 1, 1, [], false, [], [], []⟩

example : exChip.row.family = "mimxrt1189" ∧ exChip.imageAlignment = 512 ∧ exChip.startAddr .v1 = 0x2000 := by decide
example : sigBlockOffset .v1 2 = 272 ∧ sigBlockOffset .v2 0 = 16 := by decide
example : AhabConsts.createFlagsV1 3 1 2 true 0x7FFF = .ok 0x7FFF0A13 ∧ AhabConsts.createFlagsV2 3 1 2 true 0 = .ok 0x1213 := by decide
example : AhabConsts.createMeta 1023 1023 255 = .ok 0xFFFFFFF := by decide
example : Ver.v1.containerOffset 2 = .ok 0x800 ∧ Ver.v2.containerOffset 3 = .ok 0xC000 ∧ Ver.v1.containerOffset 4 = .error .spsdk := by decide
/-- a signature block with an SRK block of 20 bytes, a 10-byte signature (container: 18 bytes), a 12-byte certificate and a
    blob of 72 bytes: version 1 aligns every block to 8 bytes, version 2 packs them without padding -/
def exSb : SigBlock := ⟨List.replicate 20 1, List.replicate 10 2, [], List.replicate 12 3, some ⟨1, 128, 3, 0, 72, List.replicate 64 0, 7⟩⟩
example : sbLayout .v1 exSb = ⟨16, 40, 64, 80, 152⟩ ∧ sbLayout .v2 exSb = ⟨16, 36, 54, 66, 138⟩ := by decide
example : exSb.srk.length ≠ 0 ∧ exSb.sigSize .v1 ≠ 0 ∧ exSb.cert.length ≠ 0 ∧ exSb.blobLen ≠ 0 ∧ BlobLenOK exSb := by
  refine ⟨by decide, by decide, by decide, by decide, ?_⟩
  intro b hb; cases hb; decide
/-- the verifier's SW / fuse version records at their limits and one above -/
def exVC (sw fuse flags : Int) : VContainer := ⟨⟨135, 160, 0, 160⟩, flags, sw, fuse, 0, [], none⟩
example : failed AhabConsts.recsContainer (containerEnv .v1 (exVC 65535 255 0xFFFFFFFF)) = [] := by decide
example : failed AhabConsts.recsContainer (containerEnv .v1 (exVC 65536 0 0)) = ["SW version"] := by decide
example : failed AhabConsts.recsContainer (containerEnv .v1 (exVC 0 256 0)) = ["Fuse version"] := by decide
example : failed AhabConsts.recsContainer (containerEnv .v1 (exVC 0 0 0x100000000)) = ["Flags"] := by decide

example : verdict ⟨"SW version", "sw_version", 0, 65535, true⟩ (some 65536) AhabVerifierRecs.bitRangeBranches = "ERROR" ∧
    verdict ⟨"SW version", "sw_version", 0, 65535, true⟩ (some 65535) AhabVerifierRecs.bitRangeBranches = "SUCCEEDED" ∧
    verdict ⟨"x", "x", 16, 64, false⟩ (some 15) AhabVerifierRecs.rangeBranches = "ERROR" ∧
    verdict ⟨"x", "x", 16, 64, false⟩ none AhabVerifierRecs.rangeBranches = "ERROR" := by decide

/-! ### Phase 3 non-vacuity: a concrete image (NAND start address, one container, one image) satisfies every hypothesis of
    `unused_slots_zero` / `no_phantom_container` / `layout_never_collides` / `update_fields_idempotent`, and the conclusions are
    what one computes (decidable instances; the toy hash returns zeros, which is all `CryptoLaws` needs from it) -/
def toyOps : CryptoOps := ⟨fun a _ => List.replicate a.size 0, fun _ b => fitS 16 b, fun _ b => fitS 16 b, fun _ b => b, fun _ b => b,
  fun _ _ _ _ => [], fun _ _ _ _ => true, fun k => k⟩
def exNand : Chip := ⟨exChip.row, "nand_2k"⟩
def exImg : Image := ⟨.v1, exNand, [⟨0, 0, 0, [⟨[1, 2, 3, 4], 0, 0, 0, 0, 0, 0, 0⟩], ⟨[], [], [], [], none⟩, none⟩]⟩
def exHypsOK : Bool :=
  match exImg.export toyOps, exImg.update toyOps, exImg.update2 toyOps with
  | .ok bin, .ok us, .ok us2 =>
    us.length == 1 && us2.length == 1 && us.all (fun u => u.cont.sb.blob.isNone &&
      (match u.export .v1 with | .ok cb => decide (cb.length ≤ Ver.v1.containerSize) | _ => false)) &&
    (allPlaced us).all (fun p => decide (exNand.startAddr .v1 ≤ p.offset) && p.entry.offset == 0) &&
    (allPlaced us2).map (·.offset) == (allPlaced us).map (·.offset) &&
    bin.length == 7680 && bin[1024 + 3]? == some 0 && bin[3]? == some 0x87 &&
    Spec.AhabRom.looksLikeContainer (romParams .v1 3 8) bin 0 && !Spec.AhabRom.looksLikeContainer (romParams .v1 3 8) bin 1024
  | _, _, _ => false
set_option maxRecDepth 100000 in
example : exHypsOK = true := by decide
example : exChip.row ∈ AhabConsts.chips ∧ exNand.row.containersMax = 2 ∧ exNand.isNand = true ∧
    1 * Ver.v1.containerSize + 16 ≤ exNand.startAddr .v1 := by decide
theorem toyOps_laws : CryptoLaws toyOps := by
  have hfit : ∀ b : Bytes, b.length = 16 → fitS 16 b = b := fun b hb => by
    unfold fitS; rw [List.take_append_of_le_length (by omega), ← hb, List.take_length]
  have hlen : ∀ b : Bytes, (fitS 16 b).length = 16 := fun b => by simp [fitS]
  exact ⟨fun _ b hb => by show fitS 16 (fitS 16 b) = b; rw [hfit b hb, hfit b hb],
         fun _ b hb => by show fitS 16 (fitS 16 b) = b; rw [hfit b hb, hfit b hb],
         fun _ b => hlen b, fun _ b => hlen b, fun a _ => by simp [toyOps], fun _ _ _ _ => rfl⟩

end SpsdkVerif.C06
