/-
C15 — Debug authentication: credentials and responses are bound and verifiable.

Model     : Model/Dat.lean — an interpreter of the field layouts GENERATED from the current
            `get_data_format()` / `pack(...)` / `unpack_from(...)` calls of spsdk/dat/debug_credential.py,
            dac_packet.py, dar_packet.py (Generated/DatConsts.lean), hand-written parsers mirroring the three
            `parse` class methods, the database dispatch (`get_family_ambassador` / `_get_class`) over the generated
            device rows, `calculate_hash`, challenge parse / validate, response common data / signed message.
            Tied to /repo by harness/props/C15.py (export, data-to-sign, parse incl. malformed buffers, hash, dispatch,
            DAC, DAR: real objects vs the native driver).
Spec side : `specTbs*`, `specFlags` (Model/Dat.lean, written by hand from the documented layouts),
            `specDarCommon`, `specDacBytes` (Proofs/Dat.lean), `Spec.rotkh` (C03, Spec/Rotkh.lean).
Helper lemmas: Proofs/Dat.lean.

Cryptography: signatures are abstract (`CryptoOps`); the positive statement needs `CryptoLaws c`, the negative one
is a reduction to `Break c` (a concrete signature forgery) — no axioms, no idealised injectivity.
Keys are the byte strings SPSDK exports (C08 relates them to key objects); the EdgeLock SRK table is opaque and seen
through an `SrkOracle` (every theorem holds for every oracle that recognises the credential's own table).
-/
import SpsdkVerif.Model.Dat
import SpsdkVerif.Proofs.Dat
import SpsdkVerif.Model.DatV2
import SpsdkVerif.Proofs.DatV2
import SpsdkVerif.Proofs.DatOrder
import SpsdkVerif.Crypto.Break
import SpsdkVerif.Spec.Rotkh

namespace SpsdkVerif.C15
open SpsdkVerif SpsdkVerif.Misc SpsdkVerif.Dat SpsdkVerif.Generated
open SpsdkVerif.Crypto (CryptoOps CryptoLaws Break SigAlg HashAlg PrivKey Rand)

/-! ## 1. Obligations on the generated tables (a changed source line changes a table and stops one of these) -/

/-- the protocol versions are exactly RSA 1.0/1.1 and ECC 2.0/2.1/2.2 -/
theorem gen_versions : DatConsts.versions = [(1, 0), (1, 1), (2, 0), (2, 1), (2, 2)] := by decide

/-- the documented field order of the three credential classes (pack side) -/
theorem gen_export_layouts :
    DatConsts.rsaExport = [(.u16, .major), (.u16, .minor), (.u32, .socc), (.bytes (.fixed 16), .uuid),
      (.bytes (.fixed 128), .rotMeta), (.bytes .rsaKey, .dck), (.u32, .ccSocu), (.u32, .ccVu), (.u32, .beacon),
      (.bytes .rsaKey, .rotPub), (.bytes .rsaSig, .sig)] ∧
    DatConsts.eccExport = [(.u16, .major), (.u16, .minor), (.u32, .socc), (.bytes (.fixed 16), .uuid),
      (.u32, .ccSocu), (.u32, .ccVu), (.u32, .beacon), (.bytes .lenRotMeta, .rotMeta), (.bytes .rotCoord2, .rotPub),
      (.bytes .dckCoord2, .dck), (.bytes .lenSig, .sig)] ∧
    DatConsts.eleExport = [(.u16, .major), (.u16, .minor), (.u32, .socc), (.bytes (.fixed 16), .uuid),
      (.u32, .ccSocu), (.u32, .ccVu), (.u32, .beacon), (.bytes .lenRotMeta, .rotMeta), (.bytes .lenDck, .dck),
      (.bytes .lenSig, .sig)] := by decide

/-- `_get_data_to_sign()` packs exactly the fields of `export()` in the same order, minus the trailing signature -/
theorem gen_sign_is_export_without_signature (c : Cls) : exportLayout c = signLayout c ++ [sigField c] :=
  layout_split c

/-- what `parse()` reads is, position by position, what `export()` packs: same struct codes, each value ends up in the attribute
    that `export()` packs at that position (the generator runs `parse(export(x))` on distinctive credentials, follows every
    `unpack_from` by offset into the attribute of the result that receives it, and names the widths after what they vary with:
    RSA sizes by minor version, twice the coordinate size of the version for ECC, the export length / signature size of the used
    SRK key for EdgeLock; the region between head and tail is the RoT meta) -/
theorem gen_parse_matches_export :
    DatConsts.rsaParse = DatConsts.rsaExport ∧
    DatConsts.eccParse.map (·.2) = DatConsts.eccExport.map (·.2) ∧ DatConsts.eccParse.take 8 = DatConsts.eccExport.take 8 ∧
    (DatConsts.eccParse.drop 8).map (·.1) = [.bytes .hashSize2, .bytes .hashSize2, .bytes .hashSize2] ∧
    DatConsts.eleParse.map (·.2) = DatConsts.eleExport.map (·.2) ∧ DatConsts.eleParse.take 8 = DatConsts.eleExport.take 8 ∧
    (DatConsts.eleParse.drop 8).map (·.1) = [.bytes .lenRotPub, .bytes .rotSigSize] := by decide

/-- sizes: an RSA key field is modulus + 4-byte exponent, the signature has the modulus size; ECC coordinate sizes
    and the SHA-2 width that goes with each; the key-size → minor-version maps agree with them -/
theorem gen_sizes :
    DatConsts.rsaSizeIndexedByMinor = true ∧
    DatConsts.rsaSigSize = [(0, 256), (1, 512)] ∧
    (∀ p ∈ DatConsts.rsaSigSize, lookup p.1 DatConsts.rsaKeySize = some (p.2 + 4)) ∧
    (∀ p ∈ DatConsts.rsaMinorOfBits, lookup p.2 DatConsts.rsaSigSize = some (p.1 / 8)) ∧
    DatConsts.eccMinorOfBits = [(256, 0), (384, 1), (521, 2)] ∧
    (∀ p ∈ DatConsts.eccMinorOfBits, lookup p.2 DatConsts.eccCoordSize = some ((p.1 + 7) / 8)) ∧
    DatConsts.eccHashBits = [(32, 256), (48, 384), (66, 512)] ∧
    (∀ p ∈ DatConsts.eccCoordSize, (eccHashBits p.2).isSome = true ∧ (eccItemWidth p.2) = (eccHashBits p.2).map (· / 8)) ∧
    DatConsts.rotMetaRsaCount * DatConsts.rotMetaRsaItem = DatConsts.rotMetaRsaSize ∧
    DatConsts.rotMetaRsaItem = 32 ∧ DatConsts.rotMetaRsaMinLen = DatConsts.rotMetaRsaSize ∧
    DatConsts.rotMetaRsaMaxKeys = DatConsts.rotMetaRsaCount ∧ DatConsts.flagsLen = 4 := by decide

/-- `RotMetaFlags`, against the tables obtained by running the current class: the constructor accepts exactly `used < cnt ≤ 4`
    (whole 4-bit range of both fields), `export()` of every accepted pair is the word `1<<31 | used<<8 | cnt<<4`, `parse` answers
    every probe word (all pairs with and without the marker bit, stray bits, pseudo-random words) as the model does, and inverts
    `export`; only 4-byte inputs are parsed -/
theorem gen_flags :
    DatConsts.flagsLen = 4 ∧
    (∀ c : Fin 16, ∀ u : Fin 16, ((u.val, c.val) ∈ DatConsts.flagsCtorOk ↔ flagsValid u.val c.val = true)) ∧
    DatConsts.flagsExportTbl.map (·.1) = DatConsts.flagsCtorOk ∧
    (∀ e ∈ DatConsts.flagsExportTbl, flagsBytes e.1.1 e.1.2 = .ok (leEnc 4 e.2) ∧ e.2 = 2147483648 + e.1.1 * 256 + e.1.2 * 16) ∧
    (∀ p ∈ DatConsts.flagsParseProbes, flagsParse (leEnc 4 p.1) = (match p.2 with | some r => .ok r | none => .error .spsdk)) ∧
    (∀ c : Fin 5, ∀ u : Fin 5, u.val < c.val →
      flagsBytes u.val c.val = .ok (specFlags u.val c.val) ∧ flagsParse (specFlags u.val c.val) = .ok (u.val, c.val)) := by
  decide +kernel

/-- the challenge layout (read by offset / written) and the width of its RoT-hash field: the model's `dacRotHashLen` equals the
    table obtained by running `get_rot_hash_length` (EdgeLock yes/no × always-SHA-256 yes/no × versions 0..3 × 0..3), is 32 bytes for
    EdgeLock / "always SHA-256" devices and for RSA, else the digest width of the credential's hash (48 for 2.1, 64 for 2.2) — the
    same table the credential side uses (`eccHashBits`); swapped version words are exchanged after the width has been taken -/
theorem gen_dac :
    DatConsts.dacParseLayout = [(.u16, .major), (.u16, .minor), (.u32, .socc), (.bytes (.fixed 16), .uuid), (.u32, .revocation),
      (.bytes .hashLength, .rkthHash), (.u32, .socPinned), (.u32, .socDefault), (.u32, .ccVu), (.bytes (.fixed 32), .challenge)] ∧
    DatConsts.dacExport.map (·.2) = DatConsts.dacParseLayout.map (·.2) ∧
    (∀ e ∈ DatConsts.dacHashLenTbl, dacRotHashLen e.1.1 e.1.2.1 e.1.2.2.1 e.1.2.2.2 = e.2) ∧
    DatConsts.dacHashLenTbl.length = 64 ∧ DatConsts.dacSwapOk = true ∧
    (∀ v ∈ DatConsts.versions, ∀ ele sha : Bool,
      dacRotHashLen ele sha v.1 v.2 =
        (if ele || sha || v.1 != 2 then 32
         else ((lookup v.2 DatConsts.eccCoordSize).bind eccHashBits).getD 0 / 8)) := by
  decide

/-- responses (obtained by running every class of `_version_mapping` on stub objects): credential ‖ beacon (LE32) for RSA, ‖ the
    challenge's UUID (16) in addition for exactly the ECC protocol versions; signed message = common ‖ challenge, exported packet =
    common ‖ signature of that message; every version's class behaves like one of the two -/
theorem gen_dar :
    DatConsts.darCommonBase = [(.raw, .dcExport), (.u32, .authBeacon)] ∧
    DatConsts.darCommonEcc = DatConsts.darCommonBase ++ [(.bytes (.fixed 16), .dacUuid)] ∧
    DatConsts.darSignLayout = [(.raw, .skip), (.raw, .dacChallenge)] ∧
    DatConsts.darExportLayout = [(.raw, .skip), (.raw, .signature)] ∧
    DatConsts.darUniform = true ∧
    (∀ v ∈ DatConsts.versions, darUsesEcc v.1 v.2 = some (v.1 == 2)) ∧
    DatConsts.darVersionUsesEcc.length = DatConsts.versions.length := by decide

/-- Dispatch by SoC class is sound on the current database: `DebugCredentialCertificate.parse` and
    `DebugAuthenticationChallenge.parse` know only the SoC class, look up its ambassador family and use that
    family's latest revision — for every family (latest revision) the ambassador agrees on everything the
    dispatch depends on (EdgeLock or not, EdgeLock container version, SHA-256-always, swapped DAC version). -/
def rowDispatchOk (rows : List DatRow) (r : DatRow) : Bool :=
  r.revision != "latest" ||
  match ambassador rows r.socc with
  | none => false
  | some a => match latestRow rows a with
    | none => false
    | some r' => r'.basedOnEle == r.basedOnEle && r'.eleCntVersion == r.eleCntVersion &&
        r'.sha256Always == r.sha256Always && r'.dacVersionSwapped == r.dacVersionSwapped && r'.socc == r.socc

theorem gen_rows_dispatch_sound : DatConsts.rows.all (rowDispatchOk DatConsts.rows) = true := by decide +kernel

def kindOf (k bits : Nat) : KeyKind := if k = 0 then .rsa bits else .ecc bits
def clsOf (c : Nat) : Cls := if c = 0 then .rsa else if c = 1 then .ecc else .ele

/-- one row of the accept / refuse table of `create_from_yaml_config` agrees with the model -/
def createProbeOk : List Nat → Bool
  | [c, ma, mi, ul, rk, rb, dk, db, res] =>
    (match createCheck (clsOf c) ma mi ul (kindOf rk rb) (kindOf dk db) with
     | .ok () => res == 0 | .error .spsdk => res == 1 | .error .other => res == 2)
  | _ => false

/-- `create_from_yaml_config`, run by the generator on ≈1000 configurations (class × explicit / derived version × UUID length 0 / 15 /
    16 / 17 × RoT key RSA-2048/4096, P-256/384/521 × DCK likewise): created or refused exactly as `createCheck` says -/
theorem gen_create_probes : DatConsts.createProbes.all createProbeOk = true ∧ 900 ≤ DatConsts.createProbes.length := by
  decide +kernel

/-- **dc_create_consistent**: whatever gets past the creation checks has a 16-byte UUID, a DCK of the RoT key's type and size and,
    for the RSA / ECC classes, the protocol version of the RoT key — so the field widths `export` derives from the objects and the
    ones `parse` derives from the version coincide: RSA key field = modulus + 4 and signature = modulus bytes for that minor
    version, ECC coordinate size = ⌈bits / 8⌉ (nothing is padded or truncated by `struct.pack`). -/
theorem dc_create_consistent (cls : Cls) (major minor uuidLen : Nat) (rot dck : KeyKind)
    (h : createCheck cls major minor uuidLen rot dck = .ok ()) :
    uuidLen = 16 ∧ dck = rot ∧
    (cls = .rsa ∨ cls = .ecc → versionOfKey rot = some (major, minor) ∧
      (∀ bits, rot = .rsa bits → lookup minor DatConsts.rsaSigSize = some (bits / 8) ∧ lookup minor DatConsts.rsaKeySize = some (bits / 8 + 4)) ∧
      (∀ bits, rot = .ecc bits → lookup minor DatConsts.eccCoordSize = some ((bits + 7) / 8))) := by
  simp only [createCheck] at h
  by_cases hu : uuidLen = 16
  · by_cases hd : dck = rot
    · refine ⟨hu, hd, ?_⟩
      intro hc
      have hcb : (cls == Cls.rsa || cls == Cls.ecc) = true := by rcases hc with rfl | rfl <;> decide
      simp [hu, hd, hcb] at h
      cases hv : versionOfKey rot with
      | none => simp [hv] at h
      | some v =>
        simp [hv] at h
        have hv' : v = (major, minor) := by
          by_cases e : v = (major, minor)
          · exact e
          · simp [e] at h
        subst hv'
        refine ⟨rfl, ?_, ?_⟩
        · intro bits hb
          subst hb
          simp only [versionOfKey, Option.map_eq_some_iff] at hv
          obtain ⟨m, hm, he⟩ := hv
          injection he with _ he; subst he
          have : ∀ p ∈ DatConsts.rsaMinorOfBits, lookup p.2 DatConsts.rsaSigSize = some (p.1 / 8) ∧
              lookup p.2 DatConsts.rsaKeySize = some (p.1 / 8 + 4) := by decide
          have hmem : (bits, m) ∈ DatConsts.rsaMinorOfBits := lookup_mem _ _ _ hm
          exact this _ hmem
        · intro bits hb
          subst hb
          simp only [versionOfKey, Option.map_eq_some_iff] at hv
          obtain ⟨m, hm, he⟩ := hv
          injection he with _ he; subst he
          have : ∀ p ∈ DatConsts.eccMinorOfBits, lookup p.2 DatConsts.eccCoordSize = some ((p.1 + 7) / 8) := by decide
          exact this _ (lookup_mem _ _ _ hm)
    · simp [hu, hd] at h
  · simp [hu] at h

/-! ## 2. Credentials: round trip -/

/-- **dc_roundtrip**: a well-formed credential of any class and any protocol version of the generated table exports,
    and parsing the exported bytes (followed by anything) with the parser of its class gives back every field. -/
theorem dc_roundtrip (o : SrkOracle) (dc : DC) (h : WF o dc) :
    ∃ b, exportDC dc = .ok b ∧ ∀ t, parseCls o dc.cls (b ++ t) = .ok dc :=
  ⟨_, (export_spec o dc h).2, fun t => roundtrip_ext o dc h t⟩

theorem dc_roundtrip_exact (o : SrkOracle) (dc : DC) (h : WF o dc) :
    ∃ b, exportDC dc = .ok b ∧ parseCls o dc.cls b = .ok dc := by
  obtain ⟨b, hb, hp⟩ := dc_roundtrip o dc h
  exact ⟨b, hb, by simpa using hp []⟩

/-- … also through the class-agnostic entry point `DebugCredentialCertificate.parse`, whenever the database maps the
    credential's SoC class and version to its class (`gen_rows_dispatch_sound` says it does for latest revisions). -/
theorem dc_roundtrip_dispatch (rows : List DatRow) (o : SrkOracle) (dc : DC) (h : WF o dc) (fam : String) (row : DatRow)
    (ha : ambassador rows dc.socc = some fam) (hr : latestRow rows fam = some row)
    (hg : getClass row dc.major dc.minor = .ok (.cls dc.cls)) :
    ∃ b, exportDC dc = .ok b ∧ ∀ t, parseDC rows o (b ++ t) = .ok dc :=
  ⟨_, (export_spec o dc h).2, fun t => parseDC_ok rows o dc h fam row ha hr hg t⟩

/-- the exported bytes are the documented layout (written by hand in `specTbs*`), signature last -/
theorem dc_export_spec (o : SrkOracle) (dc : DC) (h : WF o dc) : exportDC dc = .ok (specTbs dc ++ dc.sig) :=
  (export_spec o dc h).2

/-- two well-formed credentials of one class with the same bytes are the same credential -/
theorem dc_export_injective (o : SrkOracle) (d₁ d₂ : DC) (h₁ : WF o d₁) (h₂ : WF o d₂) (hc : d₁.cls = d₂.cls)
    (b : Bytes) (e₁ : exportDC d₁ = .ok b) (e₂ : exportDC d₂ = .ok b) : d₁ = d₂ := by
  rw [dc_export_spec o d₁ h₁] at e₁; rw [dc_export_spec o d₂ h₂] at e₂
  injection e₁ with e₁; injection e₂ with e₂
  exact export_inj o d₁ d₂ h₁ h₂ hc (e₁.trans e₂.symm)

/-! ## 3. Credentials: what is signed -/

/-- **dc_signed_range** (no well-formedness needed): whenever `export()` succeeds, `_get_data_to_sign()` is the
    exported credential without its last field, and that field is the signature field — every preceding field
    (version, SoC class, UUID, RoT meta, keys, constraints, beacon) is inside the signed range, nothing is skipped. -/
theorem dc_signed_range (dc : DC) (b : Bytes) (h : exportDC dc = .ok b) :
    ∃ s, s = fieldBytes dc (sigField dc.cls) ∧ dataToSign dc = .ok (b.take (b.length - s.length)) ∧
      b = b.take (b.length - s.length) ++ s := by
  obtain ⟨m, hm, hb⟩ := signed_range dc b h
  refine ⟨_, rfl, ?_, ?_⟩ <;> simp [hb, hm]

/-- for a well-formed credential the signed range is the documented layout and the last field is `signature` itself -/
theorem dc_signed_range_wf (o : SrkOracle) (dc : DC) (h : WF o dc) :
    dataToSign dc = .ok (specTbs dc) ∧ exportDC dc = .ok (specTbs dc ++ dc.sig) := export_spec o dc h

/-- the data to sign does not depend on the signature (signing is well defined) -/
theorem dc_tbs_independent_of_signature (dc : DC) (s : Bytes) : dataToSign { dc with sig := s } = dataToSign dc :=
  dataToSign_sig dc s

/-- **dc_sig_verifies**: a credential signed (`sign()`) with the private key whose public part is the RoT key it
    carries verifies under that RoT key over exactly the data to sign — for every signature scheme satisfying
    `verify (pubOf sk) m (sign sk m r)`. -/
theorem dc_sig_verifies (c : CryptoOps) (hl : CryptoLaws c) (pss : Bool) (sk : PrivKey) (r : Rand) (dc0 dc : DC)
    (hpk : dc0.rotPub = c.pubOf sk) (hs : signDC c pss sk r dc0 = .ok dc) :
    ∃ m, dataToSign dc = .ok m ∧ c.verify (sigAlg pss dc) dc.rotPub m dc.sig = true ∧
      (∀ b, exportDC dc = .ok b → b.take (b.length - (fieldBytes dc (sigField dc.cls)).length) = m) := by
  unfold signDC at hs
  split at hs
  · rename_i m hm
    dsimp only at hs
    split at hs
    · cases hs
    · injection hs with hs
      subst hs
      refine ⟨m, by rw [dataToSign_sig]; exact hm, ?_, ?_⟩
      · show c.verify (sigAlg pss dc0) dc0.rotPub m (c.sign (sigAlg pss dc0) sk m r) = true
        rw [hpk]; exact hl.verify_sign _ _ _ _
      · intro b hb
        obtain ⟨s, hs1, hs2, _⟩ := dc_signed_range _ b hb
        rw [dataToSign_sig, hm] at hs2
        injection hs2 with hs2
        rw [← hs1]; exact hs2.symm
  · cases hs

/-! ## 4. RoT key hash = the image tools' value (C03 `Spec.rotkh`) -/

/-
Full statement (all documented key sets of C03's `KeysOK`):
  calculateHash c dc = .ok (Spec.rotkh c (rotType dc.cls) ks)   for the credential built from the RoT keys `ks`.
It is FALSE on the current tree for RSA keys whose public exponent does not occupy exactly 3 bytes
(`RotMetaRSA.load_from_config` hashes `modulus ‖ exponent on 3 bytes`, cert block v1 hashes `modulus ‖ minimal
exponent`): e = 3 gives different values (known finding C15-rsa-short-exponent-rotkh, reproduced by the harness).
Proved: the statement with the hypothesis `byteLen e = 3` (e = 65537, the exponent of every key SPSDK generates). -/
theorem dc_rot_hash_rsa_partial (c : CryptoOps) (hl : CryptoLaws c) (ks : List Spec.Key) (hn : ks.length ≤ 4)
    (hr : ∀ k ∈ ks, ∃ n e, k = .rsa n e ∧ byteLen e = 3) (dc : DC) (hcls : dc.cls = .rsa)
    (hm : rsaMetaOfKeys c (ks.map dcKeyBytes) = .ok dc.rotMeta) :
    calculateHash c dc = .ok (Spec.rotkh c .certBlock1 ks) :=
  rot_hash_rsa c hl ks hn hr dc hcls hm

/-- **dc_rot_hash** (ECC, all three curves, 1..4 keys, every used index): the hash of a credential whose RoT meta was
    built from the keys (`RotMetaEcc.load_from_config`) and whose RoT key is the used one equals the cert-block-v2.1
    root-of-trust value over the same raw key material. -/
theorem dc_rot_hash_ecc (c : CryptoOps) (hl : CryptoLaws c) (cv : Spec.Curve) (ks : List Spec.Key)
    (h1 : 1 ≤ ks.length) (h4 : ks.length ≤ 4) (hk : ∀ k ∈ ks, ∃ x y, k = .ecc cv x y)
    (used : Nat) (hu : used < ks.length) (dc : DC) (hcls : dc.cls = .ecc)
    (hm : eccMetaOfKeys c (ks.map dcKeyBytes) used = .ok dc.rotMeta)
    (hp : (ks.map dcKeyBytes)[used]? = some dc.rotPub) :
    calculateHash c dc = .ok (Spec.rotkh c .certBlock21 ks) :=
  rot_hash_ecc c hl cv ks h1 h4 hk used hu dc hcls hm hp

/-- The key material that enters the RoT hash has FIXED width: X and Y on `coordSize` bytes each, whatever their value — a
    coordinate with leading zero bytes is zero-extended, never shortened (`dc_rot_hash_ecc` above quantifies over all `x y`,
    short ones included; this makes the width explicit). -/
theorem dc_rot_key_fixed_width (cv : Spec.Curve) (x y : Nat) :
    (dcKeyBytes (.ecc cv x y)).length = 2 * cv.coordSize ∧ dcKeyBytes (.ecc cv x y) = (Spec.Key.ecc cv x y).material ∧
    (dcKeyBytes (.ecc cv x y)).take cv.coordSize = beEnc cv.coordSize x ∧
    (dcKeyBytes (.ecc cv x y)).drop cv.coordSize = beEnc cv.coordSize y := by
  refine ⟨by rw [dcKeyBytes_ecc_length]; omega, rfl, ?_, ?_⟩
  · simp only [dcKeyBytes]; rw [List.take_left' (beEnc_length' _ _)]
  · simp only [dcKeyBytes]; rw [List.drop_left' (beEnc_length' _ _)]

/-- a short coordinate is written with its leading zero bytes, the value is recovered from the fixed-width field -/
theorem dc_rot_key_short_coordinate (n x k : Nat) (hk : k ≤ n) (hx : x < 256 ^ (n - k)) :
    (beEnc n x).length = n ∧ beDec (beEnc n x) = x ∧ (beEnc n x).take k = zeros k := by
  have hlt : x < 256 ^ n := Nat.lt_of_lt_of_le hx (Nat.pow_le_pow_right (by decide) (Nat.sub_le n k))
  exact ⟨beEnc_length' n x, by rw [beDec_beEnc_mod, Nat.mod_eq_of_lt hlt], beEnc_leading_zeros n x k hk hx⟩

example : (dcKeyBytes (.ecc .p256 1 (2 ^ 255))).length = 64 ∧ (dcKeyBytes (.ecc .p256 1 (2 ^ 255))).take 31 = zeros 31 ∧
    ((dcKeyBytes (.ecc .p256 1 (2 ^ 255))).drop 31).take 2 = [1, 128] := by decide +kernel

/-- EdgeLock: SHA-256 of the SRK table the credential embeds — the AHAB value whenever that table is the documented
    one for the keys (the table itself is C03/C06's subject; the harness compares it with `Rot(...)`). -/
theorem dc_rot_hash_ele (c : CryptoOps) (ks : List (Spec.Key × Bool)) (dc : DC) (used cnt : Nat) (hcls : dc.cls = .ele)
    (hm : dc.rotMeta = .ele used cnt (Spec.ahabTable ks)) :
    calculateHash c dc = .ok (Spec.rotkhCa c .srkTableAhab ks) := by
  simp [calculateHash, hcls, hm, Spec.rotkhCa, Spec.rotkhAhab]

/-! ## 5. Responses -/

/-- **dar_embeds**: the exported response is credential ‖ beacon (LE32) ‖ [UUID] ‖ signature, the signature being the
    DCK signature of the signed message. -/
theorem dar_embeds (c : CryptoOps) (pss : Bool) (sk : PrivKey) (rnd : Rand) (o : SrkOracle) (r : DAR) (h : WFDar o r)
    (hs : c.sign (darSigAlg pss r) sk (specDarCommon r ++ r.challenge) rnd ≠ []) :
    darExport c pss sk rnd r =
      .ok ((specTbs r.dc ++ r.dc.sig) ++ (leEnc 4 r.authBeacon ++ (if r.usesEcc then r.uuid else [])) ++
        c.sign (darSigAlg pss r) sk (specDarCommon r ++ r.challenge) rnd) :=
  darExport_spec c pss sk rnd o r h hs

/-- **dar_msg**: the signed message is credential ‖ beacon ‖ [UUID] ‖ challenge. -/
theorem dar_msg (o : SrkOracle) (r : DAR) (h : WFDar o r) :
    darMsg r = .ok ((specTbs r.dc ++ r.dc.sig) ++ (leEnc 4 r.authBeacon ++ (if r.usesEcc then r.uuid else [])) ++ r.challenge) :=
  darMsg_spec o r h

/-- **dar_msg_injective**: for one credential class and response class the signed message determines the credential,
    the beacon, the challenge and (ECC protocol versions) the device UUID: the credential is self-delimiting and
    every field after it has a fixed width. For the RSA versions the UUID is NOT part of the message (`usesEcc = false`). -/
theorem dar_msg_injective (o : SrkOracle) (r₁ r₂ : DAR) (h₁ : WFDar o r₁) (h₂ : WFDar o r₂)
    (hc : r₁.dc.cls = r₂.dc.cls) (hu : r₁.usesEcc = r₂.usesEcc) (m : Bytes)
    (m₁ : darMsg r₁ = .ok m) (m₂ : darMsg r₂ = .ok m) :
    r₁.dc = r₂.dc ∧ r₁.authBeacon = r₂.authBeacon ∧ r₁.challenge = r₂.challenge ∧
      (r₁.usesEcc = true → r₁.uuid = r₂.uuid) := by
  rw [darMsg_spec o r₁ h₁] at m₁; rw [darMsg_spec o r₂ h₂] at m₂
  injection m₁ with m₁; injection m₂ with m₂
  exact darMsg_inj o r₁ r₂ h₁ h₂ hc hu (m₁.trans m₂.symm)

/-- **dar_bound** (reduction, no axiom): if the signature made for `(credential, beacon, uuid, challenge)` verifies under
    the DCK against the message of ANOTHER request — a different challenge, credential, beacon or (ECC) UUID — then a
    signature forgery has been exhibited. -/
theorem dar_bound (c : CryptoOps) (a : SigAlg) (sk : PrivKey) (rnd : Rand) (o : SrkOracle) (r r' : DAR)
    (h : WFDar o r) (h' : WFDar o r') (hc : r.dc.cls = r'.dc.cls) (hu : r.usesEcc = r'.usesEcc)
    (m m' : Bytes) (hm : darMsg r = .ok m) (hm' : darMsg r' = .ok m')
    (hv : c.verify a (c.pubOf sk) m' (c.sign a sk m rnd) = true) :
    (r.dc = r'.dc ∧ r.authBeacon = r'.authBeacon ∧ r.challenge = r'.challenge ∧ (r.usesEcc = true → r.uuid = r'.uuid))
      ∨ Break c := by
  by_cases e : m = m'
  · subst e
    exact .inl (dar_msg_injective o r r' h h' hc hu m hm hm')
  · exact .inr (Break.sigForgery a sk m m' rnd e hv)

/-- in particular: same credential, beacon and UUID, different 32-byte challenge ⇒ accepted only by a forgery -/
theorem dar_challenge_bound (c : CryptoOps) (a : SigAlg) (sk : PrivKey) (rnd : Rand) (o : SrkOracle) (r : DAR)
    (h : WFDar o r) (ch' : Bytes) (hl : ch'.length = 32) (hne : ch' ≠ r.challenge) (m m' : Bytes)
    (hm : darMsg r = .ok m) (hm' : darMsg { r with challenge := ch' } = .ok m')
    (hv : c.verify a (c.pubOf sk) m' (c.sign a sk m rnd) = true) : Break c := by
  have h' : WFDar o { r with challenge := ch' } := ⟨h.dc, h.beacon, h.uuid, hl⟩
  rcases dar_bound c a sk rnd o r _ h h' rfl rfl m m' hm hm' hv with ⟨_, _, e, _⟩ | hb
  · exact absurd e.symm hne
  · exact hb

/-- the response signature made by `export()` verifies under the credential's DCK over the signed message -/
theorem dar_sig_verifies (c : CryptoOps) (hl : CryptoLaws c) (pss : Bool) (sk : PrivKey) (rnd : Rand) (o : SrkOracle)
    (r : DAR) (h : WFDar o r) (hpk : r.dc.dck = c.pubOf sk) :
    ∃ m, darMsg r = .ok m ∧ c.verify (darSigAlg pss r) r.dc.dck m (c.sign (darSigAlg pss r) sk m rnd) = true :=
  ⟨_, darMsg_spec o r h, by rw [hpk]; exact hl.verify_sign _ _ _ _⟩

/-! ## 6. Challenges -/

/-- `export()` writes the documented layout … -/
theorem dac_export_spec (a : DAC) (h : WFDacInts a) : dacExport a = .ok (specDacBytes a.major a.minor a) :=
  dacExport_spec a h

/-- … and `parse()` recovers every field — in particular the 32-byte challenge vector — from it; the hash field has the
    width `get_rot_hash_length` gives for the ambassador family, the two version words are swapped where the database
    says so. -/
theorem dac_parse_spec (rows : List DatRow) (a : DAC) (h : WFDacInts a) (fam : String) (row : DatRow)
    (ha : ambassador rows a.socc = some fam) (hr : latestRow rows fam = some row)
    (hlen : a.rkthHash.length = dacRotHashLen row.basedOnEle row.sha256Always
      (if row.dacVersionSwapped then a.minor else a.major) (if row.dacVersionSwapped then a.major else a.minor)) (t : Bytes) :
    dacParse rows (specDacBytes (if row.dacVersionSwapped then a.minor else a.major)
      (if row.dacVersionSwapped then a.major else a.minor) a ++ t) = .ok a :=
  dacParse_spec rows a h fam row ha hr hlen t

/-- `validate_against_dc` passes only for a challenge of the same protocol version (EdgeLock devices excepted), the same
    SoC class, the same UUID (or a credential with the all-zero wildcard UUID) and — unless the device family is flagged
    as not sending / possibly mis-sending its RoT hash — a RoT hash that is a prefix of the credential's. -/
theorem dac_validate_sound (row : DatRow) (a : DAC) (dc : DC) (hsh : PyRes Bytes) (h : dacValidate row a dc hsh = .ok ()) :
    ((a.major = dc.major ∧ a.minor = dc.minor) ∨ row.basedOnEle = true) ∧ a.socc = dc.socc ∧
    (a.uuid = dc.uuid ∨ dc.uuid = zeros dc.uuid.length) ∧
    ∃ hv, hsh = .ok hv ∧ (hv = [] ∨ prefixEq a.rkthHash hv = some true ∨ row.rotNotPartOfDac = true ∨ row.rotCouldBeInvalid = true) := by
  unfold dacValidate at h
  split at h
  · cases h
  · rename_i h1
    split at h
    · cases h
    · rename_i h2
      split at h
      · cases h
      · rename_i h3
        refine ⟨?_, by simpa using h2, ?_, ?_⟩
        · by_cases hb : row.basedOnEle = true
          · exact .inr hb
          · simp only [hb, Bool.not_false, and_true, not_or, Decidable.not_not, Bool.false_eq_true] at h1
            exact .inl (by simpa using h1)
        · by_cases hu : a.uuid = dc.uuid
          · exact .inl hu
          · simp only [hu, not_false_eq_true, true_and, ne_eq, Decidable.not_not] at h3
            exact .inr h3
        · split at h
          · cases h
          · rename_i hv
            refine ⟨hv, rfl, ?_⟩
            split at h
            · rename_i he; exact .inl (by simpa using he)
            · split at h
              · cases h
              · rename_i hp; exact .inr (.inl hp)
              · split at h
                · rename_i hn; exact .inr (.inr (.inl hn))
                · split at h
                  · rename_i hc; exact .inr (.inr (.inr hc))
                  · cases h

/-! ## 8. EdgeLock-enclave v2 credential (AHAB certificate; Model/DatV2.lean) -/

section V2
open SpsdkVerif.DatV2

/-- the certificate as the current source packs / unpacks it: byte widths (C06's generated layout); obtained BY VALUE from a
    sandboxed `AhabCertificate` run on distinctive values: what `get_signature_data()` and `export()` write where, which attribute of
    `parse(export())` each position ends up in, that the inverted-permission byte is checked (no source text is compared any more: a
    behaviour-preserving re-spelling of the three methods regenerates the same tables);
    and — obtained by running the wrapper class on stub certificates — that the constructor keeps
    the stored SoC class, the three properties read / write words 0 / 1 / 2 of the permission data and creation asks for `socc ‖ socu ‖ 0` -/
theorem gen_cert_layout :
    AhabConsts.certificateLayout.intWidths = [1, 2, 1, 2, 1, 1, 1, 1, 2] ∧
    AhabConsts.certificateLayout.strFields = [(6, 12), (10, 16)] ∧ AhabConsts.certificateLayout.size = 40 ∧
    AhabConsts.signatureLayout.intWidths = [1, 2, 1, 4] ∧ AhabConsts.signatureLayout.size = 8 ∧
    AhabConsts.certificateTag = 175 ∧ AhabConsts.certificateVersion = 2 ∧ AhabConsts.signatureTag = 216 ∧
    AhabConsts.signatureVersion = 0 ∧ AhabConsts.srkRecordTag = 225 ∧
    DatConsts.certSignFields = [(.u8, .version), (.u16, .length), (.u8, .tag), (.u16, .sigOffset), (.u8, .invPerm), (.u8, .perm),
      (.bytes 12, .permData), (.u8, .fuse), (.u8, .reserved), (.u16, .reserved), (.bytes 16, .uuid), (.raw, .keyRecord), (.raw, .keyData)] ∧
    DatConsts.certExportFields = DatConsts.certSignFields ++ [(.raw, .sig0)] ∧
    DatConsts.certParseFields = [(.u8, .dropped), (.u16, .length), (.u8, .dropped), (.u16, .sigOffset), (.u8, .dropped), (.u8, .perm),
      (.bytes 12, .permData), (.u8, .fuse), (.u8, .dropped), (.u16, .dropped), (.bytes 16, .uuid), (.raw, .keyRecord), (.raw, .keyData),
      (.raw, .sig0)] ∧
    DatConsts.certInvChecked = true ∧
    DatConsts.certPermDataSize = 12 ∧ DatConsts.certUuidSize = 16 ∧ DatConsts.certPermDebug = 2 ∧
    DatConsts.v2CtorKeepsSocc = true ∧ DatConsts.v2CtorZeroesSocc = false ∧ DatConsts.v2PermPropsOk = true ∧
    DatConsts.v2CreatePermOk = true := by
  decide

/-- every EdgeLock v2 row of the database has a 32-bit SoC class whose low byte is not zero (so that the detour of the
    permission data through `value_to_bytes` keeps its 12 bytes) -/
theorem gen_v2_rows : DatConsts.rows.all (fun r => !(r.basedOnEle && r.eleCntVersion == 2) ||
    (decide (r.socc % 256 ≠ 0) && decide (r.socc < 4294967296))) = true := by decide +kernel

/-- **dcv2_export_spec**: a signed one-key certificate exports as documented head ‖ key block ‖ signature container -/
theorem dcv2_export_spec (ko : KeyOracle) (c : Cert) (h : WFCert ko c) :
    exportCert c = .ok ((specHead c ++ c.key0) ++ specSigContainer c.sig0) := (DatV2.export_spec ko c h).2

/-- **dcv2_roundtrip**: parsing the exported credential (followed by anything) — `AhabCertificate.parse` and the
    `DebugCredentialEdgeLockEnclaveV2` wrapper — gives back every field, the SoC class included -/
theorem dcv2_roundtrip (ko : KeyOracle) (c : Cert) (h : WFCert ko c) :
    ∃ b, exportCert c = .ok b ∧ ∀ t, parseV2 ko (b ++ t) = .ok (some c) :=
  ⟨_, dcv2_export_spec ko c h, fun t => v2_roundtrip ko c h t⟩

/-- **dcv2_signed_range**: the signed data is the export up to `signature_offset` — version, length, tag, offsets, permissions,
    SoC class ‖ CC_SOCU ‖ beacon, fuse version, UUID and the key block; only the signature container follows -/
theorem dcv2_signed_range (ko : KeyOracle) (c : Cert) (h : WFCert ko c) (b : Bytes) (hb : exportCert c = .ok b) :
    signedData c = .ok (b.take c.sigOffset) ∧ b = b.take c.sigOffset ++ specSigContainer c.sig0 ∧ b.length = c.length := by
  rw [dcv2_export_spec ko c h] at hb
  injection hb with hb
  subst hb
  have hl : (specHead c ++ c.key0).length = c.sigOffset := by
    rw [List.length_append, specHead_length c h.permData h.uuid, h.sigOffset, DatV2.consts.1]
  refine ⟨?_, ?_, ?_⟩
  · rw [List.take_left' hl]; exact (DatV2.export_spec ko c h).1
  · rw [List.take_left' hl]
  · rw [List.length_append, hl, specSig_length, h.length, h.sigOffset, DatV2.consts.2.1]

/-- **dcv2_keeps_socc**: constructing the credential object around a certificate (on creation and on parse) leaves the
    permission data — SoC class first — as it is (the initializer used to overwrite the SoC class with 0) -/
theorem dcv2_keeps_socc (c : Cert) (h : c.permData.length = 12) : wrap c = .ok c := wrap_id c h

/-- **dcv2_create_fields**: the created credential carries debug permission and `socc ‖ cc_socu ‖ 0`, which the `socc` / `socu` /
    `beacon` properties read back -/
theorem dcv2_create_fields (socc socu fuse : Nat) (uuid key0 : Bytes) (h1 : socc < 4294967296) (h2 : socu < 4294967296) :
    ∃ c, create socc socu fuse uuid key0 = .ok c ∧ c.permissions = 2 ∧ c.permData = leEnc 4 socc ++ (leEnc 4 socu ++ leEnc 4 0) ∧
      permSocc c.permData = socc ∧ permSocu c.permData = socu ∧ permBeacon c.permData = 0 := by
  obtain ⟨a, b, d⟩ := perm_fields socc socu 0 h1 h2 (by decide)
  exact ⟨_, create_spec socc socu fuse uuid key0, (by decide : DatConsts.certPermDebug = 2), rfl, a, b, d⟩

/-- `sign()` (`update_fields`) yields a well-formed certificate … -/
theorem dcv2_signed_wf (cr : CryptoOps) (a : SigAlg) (sk : PrivKey) (rnd : Rand) (sigLen : Nat) (ko : KeyOracle) (c c' : Cert)
    (hs : signCert cr a sk rnd sigLen c = .ok c') (hp : c.permissions < 256) (hf : c.fuseVersion < 256)
    (hpd : c.permData.length = 12) (hu : c.uuid.length = 16) (hk : ∀ rest, ko (c.key0 ++ rest) = some c.key0.length)
    (hsl : c'.sig0.length = sigLen) (hpos : 0 < sigLen) (hsm : headSize + c.key0.length + (sigHeadSize + sigLen) < 65536) :
    WFCert ko c' := sign_wf cr a sk rnd sigLen ko c c' hs hp hf hpd hu hk hsl hpos hsm

/-- … **dcv2_sig_verifies**: whose signature verifies under the public key of the signing key over its signed data -/
theorem dcv2_sig_verifies (cr : CryptoOps) (hl : CryptoLaws cr) (a : SigAlg) (sk : PrivKey) (rnd : Rand) (sigLen : Nat) (c c' : Cert)
    (hs : signCert cr a sk rnd sigLen c = .ok c') :
    ∃ m, signedData c' = .ok m ∧ cr.verify a (cr.pubOf sk) m c'.sig0 = true := by
  unfold signCert at hs
  dsimp only at hs
  split at hs
  · rename_i m hm
    injection hs with hs
    subst hs
    refine ⟨m, ?_, hl.verify_sign _ _ _ _⟩
    simpa [signedData, certHead] using hm
  · cases hs

/-- non-vacuity: a concrete signed certificate (SRK record ‖ SRK data recognised by the driver's walker) is well-formed and
    goes through export and parse -/
def exKey : Bytes := [0xE1, 12, 0, 0x27, 0, 1, 0, 0, 0, 0, 0, 0] ++ [0, 8, 0, 0x5D, 0, 0, 0, 0]
def exCert : Cert := ⟨40 + 20 + (8 + 64), 60, 2, permPack 0x4D58005E 0xFFF 0, 1, List.replicate 16 7, exKey, List.replicate 64 9⟩

theorem exKey_walk (rest : Bytes) : keyWalk (exKey ++ rest) = some exKey.length := by
  simp only [keyWalk, exKey, List.cons_append, List.nil_append, List.length_cons, List.drop_succ_cons, List.drop_zero,
    List.take_succ_cons, List.take_zero, List.getD_cons_zero, List.getD_cons_succ]
  simp [AhabConsts.srkRecordTag, AhabConsts.srkRecordV2Layout, AhabConsts.srkDataLayout, leDec, beDec]

example : WFCert keyWalk exCert :=
  ⟨by decide, by decide, by decide, by decide, by decide, by decide, by decide, by decide, exKey_walk⟩
example : (exportCert exCert).toOption.map List.length = some 132 := by decide +kernel
example : (exportCert exCert).toOption.map (parseV2 keyWalk ·) = some (.ok (some exCert)) := by decide +kernel

end V2

/-! ## 7. Non-vacuity: a well-formed credential exists for every protocol version of the generated table and every class -/

def exRsa (minor ks ss : Nat) : DC :=
  { cls := .rsa, major := 1, minor := minor, socc := 1, uuid := List.replicate 16 7, rotMeta := .rsa [List.replicate 32 1, List.replicate 32 2],
    dck := List.replicate ks 3, ccSocu := 4294967295, ccVu := 0, beacon := 5, rotPub := List.replicate ks 4, sig := List.replicate ss 9 }

def exEcc (minor coord hl cnt used : Nat) : DC :=
  { cls := .ecc, major := 2, minor := minor, socc := 4, uuid := List.replicate 16 0,
    rotMeta := .ecc used cnt (if cnt > 1 then List.replicate cnt (List.replicate hl 6) else []),
    dck := List.replicate (coord * 2) 3, ccSocu := 1023, ccVu := 22136, beacon := 0, rotPub := List.replicate (coord * 2) 4,
    sig := List.replicate (coord * 2) 9 }

theorem exRsa_wf (minor ks ss : Nat) (hv : versionOk 1 minor = true) (hks : lookup minor DatConsts.rsaKeySize = some ks)
    (hss : lookup minor DatConsts.rsaSigSize = some ss) (hpos : 0 < ss) : WF srkWalk (exRsa minor ks ss) := by
  refine ⟨⟨hv, by simp [exRsa], by simp [exRsa], by simp [exRsa], by simp [exRsa], by simp [exRsa], ?_⟩, rfl, ?_⟩
  · simp only [exRsa, ne_eq, List.replicate_eq_nil_iff]; omega
  · refine ⟨_, ks, ss, rfl, by decide, ?_, hks, hss, by simp [exRsa], by simp [exRsa], by simp [exRsa]⟩
    intro it hit
    simp only [List.mem_cons, List.mem_nil_iff, or_false] at hit
    rcases hit with rfl | rfl <;> decide

theorem exEcc_wf (minor coord hl cnt used : Nat) (hv : versionOk 2 minor = true)
    (hco : lookup minor DatConsts.eccCoordSize = some coord) (hhb : (eccHashBits coord).isSome = true)
    (hw : eccItemWidth coord = some hl) (hu : used < cnt) (hc : cnt ≤ 4) (hpos : 0 < coord) :
    WF srkWalk (exEcc minor coord hl cnt used) := by
  refine ⟨⟨hv, by simp [exEcc], by simp [exEcc], by simp [exEcc], by simp [exEcc], by simp [exEcc], ?_⟩, rfl, ?_⟩
  · simp only [exEcc, ne_eq, List.replicate_eq_nil_iff]; omega
  · refine ⟨used, cnt, _, coord, hl, rfl, hco, hhb, hw, hu, hc, ?_, ?_, by simp [exEcc], by simp [exEcc], by simp [exEcc]⟩
    · intro h1; simp [h1]
    · intro h1
      simp only [h1, if_true, List.length_replicate, true_and]
      intro it hit
      rw [(List.mem_replicate.mp hit).2]; simp

example : WF srkWalk (exRsa 0 260 256) := exRsa_wf 0 260 256 (by decide) (by decide) (by decide) (by decide)
example : WF srkWalk (exRsa 1 516 512) := exRsa_wf 1 516 512 (by decide) (by decide) (by decide) (by decide)
example : WF srkWalk (exEcc 0 32 32 1 0) := exEcc_wf 0 32 32 1 0 (by decide) (by decide) (by decide) (by decide) (by decide) (by decide) (by decide)
example : WF srkWalk (exEcc 1 48 48 4 3) := exEcc_wf 1 48 48 4 3 (by decide) (by decide) (by decide) (by decide) (by decide) (by decide) (by decide)
example : WF srkWalk (exEcc 2 66 64 2 1) := exEcc_wf 2 66 64 2 1 (by decide) (by decide) (by decide) (by decide) (by decide) (by decide) (by decide)

/-- every version of the generated table has a well-formed credential (so `dc_roundtrip` is not vacuous for any of them) -/
theorem versions_inhabited : ∀ v ∈ DatConsts.versions, ∃ dc, WF srkWalk dc ∧ (dc.major, dc.minor) = v := by
  intro v hv
  simp only [DatConsts.versions, List.mem_cons, List.mem_nil_iff, or_false] at hv
  rcases hv with rfl | rfl | rfl | rfl | rfl
  · exact ⟨_, exRsa_wf 0 260 256 (by decide) (by decide) (by decide) (by decide), rfl⟩
  · exact ⟨_, exRsa_wf 1 516 512 (by decide) (by decide) (by decide) (by decide), rfl⟩
  · exact ⟨_, exEcc_wf 0 32 32 1 0 (by decide) (by decide) (by decide) (by decide) (by decide) (by decide) (by decide), rfl⟩
  · exact ⟨_, exEcc_wf 1 48 48 4 3 (by decide) (by decide) (by decide) (by decide) (by decide) (by decide) (by decide), rfl⟩
  · exact ⟨_, exEcc_wf 2 66 64 2 1 (by decide) (by decide) (by decide) (by decide) (by decide) (by decide) (by decide), rfl⟩

/-- concrete sanity check of the whole chain on a P-384 credential with four RoT keys, used index 3 -/
example : (exportDC (exEcc 1 48 48 4 3)).toOption.map List.length = some 520 := by decide +kernel
example : ((exportDC (exEcc 1 48 48 4 3)).toOption.map (parseEcc ·)) = some (.ok (exEcc 1 48 48 4 3)) := by decide +kernel

/-! ## 9. Field ORDER at the three sites — data to sign, export, parse — for every credential class, challenge and response
(Phase 3).  The generator obtains one table PER SITE by running the current method on distinctive values (no two attributes
carry the same value), so a swap of two arguments at one site changes exactly one table and stops the list equalities below,
whatever values real credentials carry. -/

section Order
open SpsdkVerif.DatV2

/-- **signed_fields_are_exported_prefix**: for the RSA, ECC and EdgeLock-v1 classes the table of `export()` is the table of
    `_get_data_to_sign()` followed by exactly one field, the signature; `parse()` reads the same attributes in the same order as
    `export()` writes them, so the signed attributes are a prefix of what is parsed.  For the EdgeLock-v2 class (AHAB certificate):
    `export()` = `get_signature_data()` followed by the signature container, `parse()` reads the same struct codes and puts every
    value it keeps into the attribute `export()` packs at that position. -/
theorem signed_fields_are_exported_prefix :
    (∀ c : Cls, exportLayout c = signLayout c ++ [sigField c] ∧ (sigField c).2 = .sig ∧
      argsOf (parseLayout c) = argsOf (exportLayout c) ∧
      (argsOf (parseLayout c)).take (signLayout c).length = argsOf (signLayout c)) ∧
    (DatConsts.certExportFields = DatConsts.certSignFields ++ [(.raw, .sig0)] ∧
      DatConsts.certParseFields.map (·.1) = DatConsts.certExportFields.map (·.1) ∧
      ∀ p ∈ DatConsts.certParseFields.zip DatConsts.certExportFields, p.1.2 = .dropped ∨ p.1.2 = p.2.2) :=
  ⟨fun c => ⟨(order_v1 c).1, (order_v1 c).2.1, (order_v1 c).2.2.1, (order_v1 c).2.2.2.1⟩,
   order_v2.1, order_v2.2.1, order_v2.2.2.1⟩

/-- **signed_fields_cover_the_credential**: every attribute of the credential object other than the signature is signed, exactly
    once (no attribute is packed twice in place of another); the signature is not.  v2: every head field, the key record and the
    key data are signed (the only role that occurs twice is `reserved`), the signature container is not; `parse()` keeps length,
    signature offset, permissions, permission data, fuse version, UUID, key and signature. -/
theorem signed_fields_cover_the_credential :
    (∀ c : Cls, (argsOf (signLayout c)).Nodup ∧ (∀ a ∈ dcAttrs c, a ∈ argsOf (signLayout c)) ∧
      DatArg.sig ∉ argsOf (signLayout c) ∧ (argsOf (signLayout c)).length = (dcAttrs c).length) ∧
    ((DatConsts.certSignFields.map (·.2)).eraseDups.length + 1 = (DatConsts.certSignFields.map (·.2)).length ∧
      (∀ r ∈ [CertRole.version, .length, .tag, .sigOffset, .invPerm, .perm, .permData, .fuse, .uuid, .keyRecord, .keyData],
        r ∈ DatConsts.certSignFields.map (·.2)) ∧
      CertRole.sig0 ∉ DatConsts.certSignFields.map (·.2) ∧
      (∀ r ∈ [CertRole.length, .sigOffset, .perm, .permData, .fuse, .uuid, .keyRecord, .keyData, .sig0],
        r ∈ DatConsts.certParseFields.map (·.2))) :=
  ⟨fun c => (order_v1 c).2.2.2.2, order_v2.2.2.2⟩

/-- **dcv2_bytes_follow_tables**: whenever the v2 credential exports, the bytes are the generated export table interpreted field by
    field, the signed data is the generated signed-data table interpreted the same way, and it is a prefix of the export — the
    hand-written head of the model cannot drift from the order the source packs. -/
theorem dcv2_bytes_follow_tables (c : Cert) (b : Bytes) (h : exportCert c = .ok b) :
    b = DatConsts.certExportFields.flatMap (certFieldBytes c) ∧
    ∃ d, signedData c = .ok d ∧ d = DatConsts.certSignFields.flatMap (certFieldBytes c) ∧ d <+: b :=
  exportCert_follows_table c b h

example : (exportCert exCert).toOption.isSome = true := by decide +kernel

/-- the sequential reader of the model steps over the widths of the generated parse table and keeps what the table says is kept -/
theorem dcv2_parse_follows_table :
    (DatConsts.certParseFields.take 11).map (·.1) =
      [.u8, .u16, .u8, .u16, .u8, .u8, .bytes DatConsts.certPermDataSize, .u8, .u8, .u16, .bytes DatConsts.certUuidSize] ∧
    (DatConsts.certParseFields.take 11).map (·.2) =
      [.dropped, .length, .dropped, .sigOffset, .dropped, .perm, .permData, .fuse, .dropped, .dropped, .uuid] ∧
    (DatConsts.certParseFields.drop 11).map (·.2) = [.keyRecord, .keyData, .sig0] := readHead_widths

/-- **dar_signed_fields_are_exported_prefix**: for the response class of every protocol version, signed message = common data ‖
    challenge of the DAC and exported packet = common data ‖ signature — the same fields in the same order up to the last one;
    the common data starts with the exported credential, contains the authentication beacon and, exactly for the ECC classes
    (major version 2), the UUID *of the challenge*; nothing occurs twice, the signature is not signed. -/
theorem dar_signed_fields_are_exported_prefix :
    (∀ u : Bool, darSignedFields u = darCommonLayout u ++ [(.raw, .dacChallenge)] ∧
      darExportedFields u = darCommonLayout u ++ [(.raw, .signature)] ∧
      (darExportedFields u).dropLast = (darSignedFields u).dropLast ∧
      (darCommonLayout u).head? = some (.raw, .dcExport) ∧ (argsOf (darSignedFields u)).Nodup ∧
      ((DatArg.dacUuid ∈ argsOf (darSignedFields u)) ↔ u = true) ∧
      DatArg.authBeacon ∈ argsOf (darSignedFields u) ∧ DatArg.dacChallenge ∈ argsOf (darSignedFields u) ∧
      DatArg.signature ∉ argsOf (darSignedFields u)) ∧
    (∀ v ∈ DatConsts.versions, darUsesEcc v.1 v.2 = some (v.1 == 2)) :=
  ⟨order_dar, gen_dar.2.2.2.2.2.1⟩

/-- … and the signed message of the model is that table interpreted field by field (no well-formedness needed) -/
theorem dar_msg_follows_table (r : DAR) (m : Bytes) (h : darMsg r = .ok m) (sig : Bytes) :
    m = (darSignedFields r.usesEcc).flatMap (darFieldBytesX r sig) := darMsg_follows_table r m h sig

example : (darMsg ⟨exEcc 1 48 48 4 3, 5, List.replicate 16 1, List.replicate 32 2, true⟩).toOption.isSome = true := by
  decide +kernel

/-- **dac_fields_export_is_parse**: `DebugAuthenticationChallenge.export()` writes the attributes `parse()` reads, in the same
    order, each once; the 32-byte challenge vector is the last field -/
theorem dac_fields_export_is_parse :
    argsOf DatConsts.dacExport = argsOf DatConsts.dacParseLayout ∧ (argsOf DatConsts.dacExport).Nodup ∧
    argsOf DatConsts.dacExport = [.major, .minor, .socc, .uuid, .revocation, .rkthHash, .socPinned, .socDefault, .ccVu, .challenge] ∧
    DatConsts.dacParseLayout.getLast? = some (.bytes (.fixed 32), .challenge) := order_dac

/-- **dar_v2_payload_binds_challenge** (EdgeLock v2 response, payload of the AHAB signed message; the container around it is
    C06's subject and not modelled): `MessageDat.export_payload()` and `parse_payload()` use the same two fields in the same
    order (tables probed from the current class), the model's payload is that table interpreted field by field, parsing gives
    the 32-byte challenge and the 16-bit beacon back, and the payload determines both — a response payload made for one
    challenge is not the payload of another. -/
theorem dar_v2_payload_binds_challenge :
    (DatConsts.datMsgExport = [(.bytes (.fixed 32), .dacChallenge), (.u16, .authBeacon)] ∧
      DatConsts.datMsgParse = DatConsts.datMsgExport ∧ DatConsts.datMsgPayloadLen = 34) ∧
    (∀ ch b p, datPayload ch b = .ok p → p = DatConsts.datMsgExport.flatMap (datFieldBytes ch b)) ∧
    (∀ ch b, ch.length = 32 → b < 65536 →
      ∃ p, datPayload ch b = .ok p ∧ p.length = DatConsts.datMsgPayloadLen ∧ ∀ t, datPayloadParse (p ++ t) = (ch, b)) ∧
    (∀ c₁ c₂ b₁ b₂ p, c₁.length = 32 → c₂.length = 32 → datPayload c₁ b₁ = .ok p → datPayload c₂ b₂ = .ok p → c₁ = c₂ ∧ b₁ = b₂) :=
  ⟨order_datmsg, datPayload_follows_table, datPayload_roundtrip,
   fun c₁ c₂ b₁ b₂ p h₁ h₂ e₁ e₂ => datPayload_inj c₁ c₂ b₁ b₂ h₁ h₂ p e₁ e₂⟩

example : (datPayload (List.replicate 32 7) 513).toOption = some (List.replicate 32 7 ++ [1, 2]) := by decide +kernel

end Order

/-! ## 10. RoT hash: a function of the key list -/

/-- **dc_rot_hash_depends_only_on_keys**: two credentials whose RoT meta was built (`load_from_config`) from the same key list have
    the same RoT hash, whatever else differs — SoC class, UUID, constraints, beacon, DCK, signature and, for ECC, the index of the
    used key (with a single key the hash is that of the key itself, which is then the used one).  RSA and EdgeLock: the hash is a
    function of the RoT meta alone. -/
theorem dc_rot_hash_depends_only_on_keys (c : CryptoOps) (hl : CryptoLaws c) :
    (∀ (ks : List Bytes) (d₁ d₂ : DC), d₁.cls = .rsa → d₂.cls = .rsa →
      rsaMetaOfKeys c ks = .ok d₁.rotMeta → rsaMetaOfKeys c ks = .ok d₂.rotMeta → calculateHash c d₁ = calculateHash c d₂) ∧
    (∀ (ks : List Bytes) (u₁ u₂ : Nat) (d₁ d₂ : DC), d₁.cls = .ecc → d₂.cls = .ecc →
      eccMetaOfKeys c ks u₁ = .ok d₁.rotMeta → eccMetaOfKeys c ks u₂ = .ok d₂.rotMeta →
      ks[u₁]? = some d₁.rotPub → ks[u₂]? = some d₂.rotPub → calculateHash c d₁ = calculateHash c d₂) ∧
    (∀ (d₁ d₂ : DC) (u₁ u₂ n₁ n₂ : Nat) (srk : Bytes), d₁.cls = .ele → d₂.cls = .ele →
      d₁.rotMeta = .ele u₁ n₁ srk → d₂.rotMeta = .ele u₂ n₂ srk → calculateHash c d₁ = calculateHash c d₂) := by
  refine ⟨?_, ?_, ?_⟩
  · intro ks d₁ d₂ h₁ h₂ m₁ m₂
    have e : d₁.rotMeta = d₂.rotMeta := Except.ok.inj (m₁.symm.trans m₂)
    cases hm : d₂.rotMeta <;> simp [calculateHash, h₁, h₂, e, hm]
  · intro ks u₁ u₂ d₁ d₂ h₁ h₂ m₁ m₂ p₁ p₂
    exact rot_hash_only_keys_ecc c hl ks u₁ u₂ d₁ d₂ h₁ h₂ m₁ m₂ p₁ p₂
  · intro d₁ d₂ u₁ u₂ n₁ n₂ srk h₁ h₂ m₁ m₂
    simp [calculateHash, h₁, h₂, m₁, m₂]

/-- the hypotheses are satisfiable: two P-256 keys, used index 0 and 1 -/
example (c : CryptoOps) :
    let ks : List Bytes := [List.replicate 64 1, List.replicate 64 2]
    eccMetaOfKeys c ks 0 = .ok (.ecc 0 2 (ks.map (c.hash .sha256))) ∧ eccMetaOfKeys c ks 1 = .ok (.ecc 1 2 (ks.map (c.hash .sha256))) ∧
    ks[1]? = some (List.replicate 64 2) := by
  refine ⟨?_, ?_, rfl⟩ <;> rfl


end SpsdkVerif.C15
