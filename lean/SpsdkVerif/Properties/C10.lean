/-
C10 — bootloader protocols (work in progress: agreement theorems first).
-/
import SpsdkVerif.Model.Mboot
import SpsdkVerif.Generated.MbootConsts

namespace SpsdkVerif.C10
open SpsdkVerif SpsdkVerif.Mboot
namespace Gen
export SpsdkVerif.Generated.MbootConsts (frameStartByte fpAck)
end Gen

theorem gen_start_byte_agrees : Generated.MbootConsts.frameStartByte = Spec.startByte := by decide

end SpsdkVerif.C10
