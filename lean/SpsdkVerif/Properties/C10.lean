/-
C10 — bootloader protocols: data arrives intact, results mirror the device, faults surface.

Model  : Model/Mboot.lean — host (`MbootSerialProtocol`, `MbootBulkProtocol`, `CmdPacket`/`parse_cmd_response`,
         `McuBoot._process_cmd/_read_data/_send_data/_split_data/_get_max_packet_size` and the public operations)
         and a reference bootloader `Dev`; tied to /repo by harness/props/C10.py (per-operation differential on
         replayed transcripts, with and without faults).
Consts : Generated/MbootConsts.lean is regenerated from /repo on every run; section 1 proves that it agrees with the
         protocol constants (`Spec`) the model and the reference device are written with.
Lemmas : Proofs/Mboot.lean (codecs, CRC, splitting), Proofs/MbootFault.lean (fault side),
         Proofs/MbootRefine.lean (symbolic execution of host + live reference device).

*Observable success* (`succeeded`): nothing raised, value not `None`/`False`, `status_code == SUCCESS`.
-/
import SpsdkVerif.Model.Mboot
import SpsdkVerif.Generated.MbootConsts
import SpsdkVerif.Proofs.Mboot
import SpsdkVerif.Proofs.MbootFault
import SpsdkVerif.Proofs.MbootRefine
import SpsdkVerif.Proofs.MbootBound
import SpsdkVerif.Proofs.MbootTrunc
import SpsdkVerif.Proofs.MbootAbort
import SpsdkVerif.Model.Sdp
import SpsdkVerif.Generated.SdpConsts
import SpsdkVerif.Proofs.Sdp
import SpsdkVerif.Proofs.SdpRefine
import SpsdkVerif.Proofs.SdpFault
import SpsdkVerif.Model.MbootProps
import SpsdkVerif.Generated.MbootProps
import SpsdkVerif.Proofs.MbootProps

namespace SpsdkVerif.C10
open SpsdkVerif SpsdkVerif.Mboot SpsdkVerif.Mboot.Fault
open SpsdkVerif.Generated.MbootConsts (Fmt Endian)

/-! ## 1. constants generated from /repo agree with the protocol constants -/

theorem gen_frame_constants_agree :
    Generated.MbootConsts.frameStartByte = Spec.startByte ∧
    Generated.MbootConsts.frameNotReady = [0] ∧
    Generated.MbootConsts.maxPingDummyBytes = Spec.maxPingDummy ∧
    Generated.MbootConsts.maxUartOpenAttempts = Spec.openAttempts ∧
    Generated.MbootConsts.fpTypes =
      [("ACK", Spec.fAck), ("NACK", Spec.fNak), ("ABORT", Spec.fAbort), ("CMD", Spec.fCmd), ("DATA", Spec.fData),
       ("PING", Spec.fPing), ("PINGR", Spec.fPingR)] := by decide

theorem gen_report_ids_agree :
    Generated.MbootConsts.reportIds =
      [("CMD_OUT", Spec.ridCmdOut), ("DATA_OUT", Spec.ridDataOut), ("CMD_IN", Spec.ridCmdIn), ("DATA_IN", Spec.ridDataIn)] := by
  decide

/-- tag, flags and argument count of the command packet every modelled API method builds -/
theorem gen_api_packets_agree :
    Generated.MbootConsts.apiPackets =
      [("flash_erase_all", Spec.cFlashEraseAll, 0, 1), ("flash_erase_region", Spec.cFlashEraseRegion, 0, 3),
       ("read_memory", Spec.cReadMemory, 0, 3), ("write_memory", Spec.cWriteMemory, Spec.flagHasDataPhase, 3),
       ("fill_memory", Spec.cFillMemory, 0, 3), ("get_property", Spec.cGetProperty, 0, 2),
       ("set_property", Spec.cSetProperty, 0, 2), ("receive_sb_file", Spec.cReceiveSbFile, Spec.flagHasDataPhase, 1),
       ("execute", Spec.cExecute, 0, 3), ("call", Spec.cCall, 0, 2),
       ("flash_erase_all_unsecure", Spec.cFlashEraseAllUnsecure, 0, 0), ("configure_memory", Spec.cConfigureMemory, 0, 2),
       ("reliable_update", Spec.cReliableUpdate, 0, 1), ("reset", Spec.cReset, 0, 0),
       ("flash_read_once", Spec.cFlashReadOnce, 0, 2), ("flash_program_once", Spec.cFlashProgramOnce, 0, 2),
       ("efuse_read_once", Spec.cFlashReadOnce, 0, 2), ("efuse_program_once", Spec.cFlashProgramOnce, 0, 3),
       ("flash_read_resource", Spec.cFlashReadResource, 0, 3), ("kp_enroll", Spec.cKeyProvisioning, 0, 1),
       ("kp_set_intrinsic_key", Spec.cKeyProvisioning, 0, 3), ("kp_write_nonvolatile", Spec.cKeyProvisioning, 0, 2),
       ("kp_read_nonvolatile", Spec.cKeyProvisioning, 0, 2), ("kp_set_user_key", Spec.cKeyProvisioning, Spec.flagHasDataPhase, 3),
       ("kp_write_key_store", Spec.cKeyProvisioning, Spec.flagHasDataPhase, 3), ("kp_read_key_store", Spec.cKeyProvisioning, 0, 1),
       ("update_life_cycle", Spec.cUpdateLifeCycle, 0, 1), ("ele_message", Spec.cEleMessage, 0, 5),
       ("tp_oem_set_master_share", Spec.cTrustProvisioning, 0, 5), ("tp_hsm_enc_blk", Spec.cTrustProvisioning, 0, 9),
       ("fuse_program", Spec.cFuseProgram, Spec.flagHasDataPhase, 3), ("fuse_read", Spec.cFuseRead, 0, 3)] ∧
    Generated.MbootConsts.tpApiOperations =
      [("tp_oem_set_master_share", Spec.tpOemSetMasterShare), ("tp_hsm_enc_blk", Spec.tpHsmEncBlock)] ∧
    Generated.MbootConsts.kpApiOperations =
      [("kp_enroll", Spec.kpEnroll), ("kp_set_intrinsic_key", Spec.kpSetIntrinsicKey), ("kp_write_nonvolatile", Spec.kpWriteNonVolatile),
       ("kp_read_nonvolatile", Spec.kpReadNonVolatile), ("kp_set_user_key", Spec.kpSetUserKey),
       ("kp_write_key_store", Spec.kpWriteKeyStore), ("kp_read_key_store", Spec.kpReadKeyStore)] := by decide

def kindOfClass : Option String → RKind
  | some "GenericResponse" => .generic
  | some "GetPropertyResponse" => .getProperty
  | some "ReadMemoryResponse" => .readMemory
  | some "FlashReadResourceResponse" => .flashReadResource
  | some "FlashReadOnceResponse" => .flashReadOnce
  | some "KeyProvisioningResponse" => .keyProv
  | some "TrustProvisioningResponse" => .trustProv
  | _ => .plain

/-- the response-class table of `parse_cmd_response` (wherever it is defined: inline or hoisted; emitted sorted by tag) is the
    model's `kindOf`, for every header tag byte -/
theorem gen_response_table_agrees :
    (List.range 256).all (fun t => kindOfClass (Generated.MbootConsts.knownResponses.lookup t) == kindOf t) = true := by
  decide +kernel

theorem gen_status_codes_agree :
    Generated.MbootConsts.stSuccess = Spec.stSuccess ∧ Generated.MbootConsts.stFail = Spec.stFail ∧
    Generated.MbootConsts.stNoResponse = Spec.stNoResponse ∧
    Generated.MbootConsts.stUnknownProperty = Spec.stUnknownProperty ∧
    Generated.MbootConsts.stReadOnlyProperty = Spec.stReadOnlyProperty ∧
    Generated.MbootConsts.stMemoryRangeInvalid = Spec.stMemoryRangeInvalid ∧
    Generated.MbootConsts.stUnknownCommand = Spec.stUnknownCommand ∧
    Generated.MbootConsts.stAbortDataPhase = Spec.stAbortDataPhase ∧
    Generated.MbootConsts.stSendingOperationConditionError = Spec.stSendingOperationConditionError ∧
    Generated.MbootConsts.stOtpVerifyFail = Spec.stOtpVerifyFail ∧
    Generated.MbootConsts.propMaxPacketSize = Spec.propMaxPacketSize ∧
    Generated.MbootConsts.defaultMaxPacketSize = Spec.defaultMaxPacket ∧
    Generated.MbootConsts.cmdHeaderSize = 4 := by decide

/-- every struct format of the codec functions: byte order and field widths as the model lays the bytes out -/
theorem gen_formats_agree :
    Generated.MbootConsts.fmtSerialCreateFrame = [⟨.little, [1, 1, 2, 2], 1⟩] ∧
    Generated.MbootConsts.fmtSerialFrameCrc = [⟨.little, [1, 1, 2], 1⟩] ∧
    Generated.MbootConsts.fmtSerialAck = [⟨.native, [1, 1], 0⟩] ∧
    Generated.MbootConsts.fmtPingResponse = [⟨.little, [4, 2, 2], 0⟩] ∧
    Generated.MbootConsts.fmtSerialPing = [⟨.native, [1, 1], 0⟩, ⟨.native, [1, 1], 1⟩] ∧
    Generated.MbootConsts.fmtHidCreateFrame = [⟨.little, [1, 1, 2], 0⟩] ∧
    Generated.MbootConsts.fmtHidParseFrame = [⟨.little, [1, 1, 2], 0⟩] ∧
    Generated.MbootConsts.fmtCmdHeaderToBytes = [⟨.native, [1, 1, 1, 1], 0⟩] ∧
    Generated.MbootConsts.fmtCmdHeaderFromBytes = [⟨.native, [1, 1, 1, 1], 0⟩] ∧
    Generated.MbootConsts.fmtCmdPacketToBytes = [⟨.little, [], 4⟩] ∧
    Generated.MbootConsts.fmtCmdResponseInit = [⟨.little, [4], 0⟩] ∧
    Generated.MbootConsts.fmtGenericResponseInit = [⟨.little, [4, 4], 0⟩] ∧
    Generated.MbootConsts.fmtGetPropertyResponseInit = [⟨.little, [], 4⟩] ∧
    Generated.MbootConsts.fmtReadMemoryResponseInit = [⟨.little, [4, 4], 0⟩] ∧
    Generated.MbootConsts.fmtNoResponseInit = [⟨.little, [4], 0⟩] := by decide

/-- the serial protocol asks for CRC-16/XMODEM and `CRC_ALGORITHMS` defines it as the model computes it -/
theorem gen_crc_params_agree :
    Generated.MbootConsts.serialCrcAlg = "CRC16_XMODEM" ∧ Generated.MbootConsts.crcWidth = 16 ∧
    Generated.MbootConsts.crcPoly = Spec.crcPoly ∧ Generated.MbootConsts.crcInit = 0 ∧
    Generated.MbootConsts.crcXorOut = 0 ∧ Generated.MbootConsts.crcReverse = false := by decide

/-- `_clamp_down_memory_id`, evaluated from the source on 0..300 and some large ids, is the model's `clampMemId`
    (a semantic table: a harmless rewrite of the function keeps it, a changed boundary breaks it) -/
theorem gen_clamp_agrees :
    Generated.MbootConsts.clampDownTable.length = 306 ∧
    Generated.MbootConsts.clampDownTable.all (fun q => clampMemId q.1 == q.2) = true := by decide +kernel

/-! ## 2. codecs -/

/-- `frame_roundtrip`: what `_create_frame` builds, the device decodes — type, payload and what follows -/
theorem frame_roundtrip (t : Nat) (p rest : Bytes) (ht : t < 256) (hp : p.length < 2 ^ 16) :
    parseFrame (mkFrame t p ++ rest) = .ok (t, p, rest) :=
  frame_roundtrip' t p rest ht (by simpa using hp)

/-- the host's own reader returns the payload of a well-formed DATA frame, leaves what follows and acknowledges -/
theorem host_reads_data_frame (h : Host) (p rest : Bytes) (hp0 : p ≠ []) (hp : p.length < 2 ^ 16)
    (hrx : h.rxB = mkFrame Spec.fData p ++ rest) :
    serialRead h = (.ok (.data p), ({ h with reads := h.reads + 5, rxB := rest }).write ackFrame) := by
  have hlen : p.length < 65536 := by simpa using hp
  have e1 : (UInt8.ofNat Spec.fData).toNat = Spec.fData := by decide
  have hrx' : h.rxB = UInt8.ofNat Spec.startByte :: UInt8.ofNat Spec.fData ::
      (le 2 p.length ++ (le 2 (frameCrc Spec.fData p) ++ (p ++ rest))) := by
    rw [hrx]; simp [mkFrame]
  have hh := readFrameHeader_none h (UInt8.ofNat Spec.fData) _ hrx'
  have r1 := devRead_append { h with reads := h.reads + 1 + 1, rxB := le 2 p.length ++ (le 2 (frameCrc Spec.fData p) ++ (p ++ rest)) } (le 2 p.length) _
    (by simp [le]) rfl
  have r2 := devRead_append { h with reads := h.reads + 1 + 1 + 1, rxB := le 2 (frameCrc Spec.fData p) ++ (p ++ rest) } (le 2 (frameCrc Spec.fData p)) _
    (by simp [le]) rfl
  have r3 := devRead_append { h with reads := h.reads + 1 + 1 + 1 + 1, rxB := p ++ rest } p rest hp0 rfl
  simp only [le_length] at r1 r2
  have l1 : fromLe (le 2 p.length) = p.length := fromLe_le_of_lt 2 _ (by simpa using hlen)
  have l2 : fromLe (le 2 (frameCrc Spec.fData p)) = frameCrc Spec.fData p :=
    fromLe_le_of_lt 2 _ (by simpa [frameCrc] using crc16_lt (crcInput Spec.fData p))
  have hz : p.length ≠ 0 := fun e => hp0 (List.length_eq_zero_iff.mp e)
  have c1 : ¬ (Spec.fData = Spec.fAbort) := by decide
  have c2 : ¬ (Spec.fData = Spec.fCmd) := by decide
  unfold serialRead
  simp only [Fault.bind_run, hh, e1, c1, if_false, r1, r2, l1, l2, hz, r3, sendAck, Fault.devWrite_run,
    ne_eq, not_true_eq_false, c2, Fault.pure_run]

/-- `hid_roundtrip`: what `MbootBulkProtocol._create_frame` builds (possibly padded by the HID layer) the device decodes -/
theorem hid_roundtrip (rid : Nat) (p pad : Bytes) (hr : rid < 256) (hp : p.length < 2 ^ 16) :
    parseReport (mkReport rid p ++ pad) = some (rid, p) :=
  hid_roundtrip' rid p pad hr (by simpa using hp)

/-- the host's `_parse_frame` returns exactly the payload of a data report, whatever padding follows -/
theorem hid_host_roundtrip (p pad : Bytes) (hp0 : p ≠ []) (hp : p.length < 2 ^ 16) :
    hidParseFrame (mkReport Spec.ridDataIn p ++ pad) = .ok (.data p) := by
  have hlen : p.length < 65536 := by simpa using hp
  have h1 : fromLe (le 2 p.length) = p.length := fromLe_le_of_lt 2 _ (by simpa using hlen)
  rw [le2_cases] at h1
  have hz : p.length ≠ 0 := fun e => hp0 (List.length_eq_zero_iff.mp e)
  simp only [mkReport, le2_cases, List.cons_append, List.nil_append, hidParseFrame, h1, hz, if_false]
  have c : ¬ (Spec.ridDataIn % 256 = Spec.ridCmdIn) := by decide
  have c2 : ¬ (p.length + pad.length < p.length) := by omega
  simp [c, c2]

/-- a report shorter than its length field is refused (fix C10-1), it never yields data -/
theorem hid_truncated_report_refused (rid : Nat) (p : Bytes) (k : Nat) (hp : p.length < 2 ^ 16) (hk : k < 4 + p.length)
    (hp0 : p ≠ []) :
    hidParseFrame ((mkReport rid p).take k) = .error .conn := by
  have hlen : p.length < 65536 := by simpa using hp
  have h1 : fromLe (le 2 p.length) = p.length := fromLe_le_of_lt 2 _ (by simpa using hlen)
  rw [le2_cases] at h1
  have hz : p.length ≠ 0 := fun e => hp0 (List.length_eq_zero_iff.mp e)
  simp only [mkReport, le2_cases, List.cons_append, List.nil_append]
  match k, hk with
  | 0, _ => rfl
  | 1, _ => rfl
  | 2, _ => rfl
  | 3, _ => rfl
  | k + 4, hk =>
    simp only [List.take_succ_cons, hidParseFrame, h1, hz, if_false]
    have : (p.take k).length < p.length := by simp; omega
    simp [this]
    intro hcontra
    omega

/-- `cmd_roundtrip`: `CmdPacket.to_bytes(padding=False)` succeeds on a well-formed packet and the device decodes it back -/
theorem cmd_roundtrip (p : CmdPkt) (h : p.WF) : p.toBytes = .ok p.encode ∧ parseCmd p.encode = some p :=
  ⟨toBytes_ok p h, cmd_roundtrip' p h⟩

/-- `response_roundtrip`: the responses the device builds are parsed by `parse_cmd_response` to the same fields -/
theorem response_roundtrip (st x : Nat) (vals : List Nat) (h1 : st < 2 ^ 32) (h2 : x < 2 ^ 32)
    (hv : ∀ v ∈ vals, v < 2 ^ 32) (hn : vals.length < 255) :
    parseCmdResponse (genericResp st x) = .ok { kind := .generic, tag := Spec.rGeneric, pc := 2, status := st, cmdTag := x } ∧
    parseCmdResponse (readMemResp st x) = .ok { kind := .readMemory, tag := Spec.rReadMemory, pc := 2, status := st, length := x } ∧
    parseCmdResponse (getPropResp st vals) =
      .ok { kind := .getProperty, tag := Spec.rGetProperty, pc := 1 + vals.length, status := st, values := vals } :=
  ⟨genericResp_parse st x (by simpa using h1) (by simpa using h2),
   readMemResp_parse st x (by simpa using h1) (by simpa using h2),
   getPropResp_parse st vals (by simpa using h1) (fun v hv' => by simpa using hv v hv') hn⟩

/-! ## 3. `_split_data`: the chunks are the data, in order, each non-empty and no larger than the packet size -/

theorem split_data_concat (n : Nat) (hn : 0 < n) (data : Bytes) : (split n data).flatten = data :=
  split_flatten' n hn data

theorem split_data_bounds (n : Nat) (hn : 0 < n) (data : Bytes) :
    ∀ c ∈ split n data, c.length ≤ n ∧ c ≠ [] :=
  split_chunks' n hn data

/-! ## 4. CRC-16/XMODEM detects every single corrupted byte -/

/-- two inputs that differ in exactly one byte have different CRC-16 (injectivity of the register update,
    no 2^16 enumeration needed) -/
theorem crc16_single_byte (pre suf : Bytes) (x y : UInt8) (h : x ≠ y) :
    crc16 (pre ++ x :: suf) ≠ crc16 (pre ++ y :: suf) :=
  crc16_single_byte_ne pre suf x y h

/-- one byte of the type / CRC / payload region of a frame changed ⇒ the decoder reports a CRC error,
    never a frame (of the same or of another type or payload) -/
theorem corrupt_frame_rejected (t : Nat) (p rest : Bytes) (t' c' : Nat) (p' : Bytes) (ht : t < 256)
    (hp : p.length < 2 ^ 16) (hc : Corrupted t p t' c' p') :
    parseFrame (rawFrame t' p.length c' p' ++ rest) = .error .badCrc := by
  obtain ⟨h1, h2, h3, h4⟩ := corrupted_facts ht hc
  have := parseFrame_raw t' c' p' rest h3 (by rw [h2]; simpa using hp) h4
  rw [h2] at this
  rw [this, if_neg h1]

/-- … and `MbootSerialProtocol.read()` raises (connection error; abort if the type became ABORT) -/
theorem corrupt_frame_raises (h : Host) (t : Nat) (p rest : Bytes) (t' c' : Nat) (p' : Bytes) (ht : t < 256)
    (hp : p.length < 2 ^ 16) (hc : Corrupted t p t' c' p') (hrx : h.rxB = rawFrame t' p.length c' p' ++ rest) :
    (serialRead h).1 = .error .conn ∨ (serialRead h).1 = .error .abort := by
  obtain ⟨h1, h2, h3, h4⟩ := corrupted_facts ht hc
  exact serialRead_rejects h t' c' p' rest h3 (by rw [h2]; simpa using hp) h4 (by rw [h2]; exact hrx) h1

/-! ## 5. faults surface -/

/-- **missing response / stream cut off**: on a link that stays silent no operation that talks to the device
    reports success (it returns `None`/`False`/a non-SUCCESS status or raises) -/
theorem no_response_never_succeeds (h : Host) (op : Op) (hs : Starved h) (ht : talks h.cfg op) :
    ¬ succeeded (runOp op h).1 (runOp op h).2 :=
  silent_link_never_succeeds h op hs ht

/-- **truncated response, at EVERY position**: the device→host byte stream of the CRC-framed serial link (whatever it
    contains: well-formed or garbage) is cut after `k` bytes, for every `k`, in the middle of a frame, between frames,
    in the middle of a data phase: the operation is observably identical to the run on the full stream (result, status
    code, bytes written), or it does not report success.  (`talks` excludes exactly: `open` over HID, a zero-length
    chunked read, `load_image` over HID or of nothing, and `reset`, whose missing response is ignored by design.) -/
theorem truncation_safe_serial (h : Host) (op : Op) (k : Nat) (cs : List (List Bytes))
    (htr : h.cfg.tr = .serial) (hstrict : h.cfg.partialReads = false) (hpeer : h.peer = .script cs)
    (ht : talks h.cfg op) :
    observable (runOp op (h.truncate k)) = observable (runOp op h) ∨
      ¬ succeeded (runOp op (h.truncate k)).1 (runOp op (h.truncate k)).2 :=
  Trunc.truncation_safe_serial h op k cs htr hstrict hpeer ht

/-- … and over USB-HID: the stream is cut after any number of whole reports (a report cut short is refused by
    `hid_truncated_report_refused`) -/
theorem truncation_safe_hid (h : Host) (op : Op) (k : Nat) (cs : List (List Bytes))
    (htr : h.cfg.tr = .hid) (hpeer : h.peer = .script cs) (ht : talks h.cfg op) :
    observable (runOp op (h.truncateReports k)) = observable (runOp op h) ∨
      ¬ succeeded (runOp op (h.truncateReports k)).1 (runOp op (h.truncateReports k)).2 :=
  Trunc.truncation_safe_hid h op k cs htr hpeer ht

/-- **the link goes silent before or during the data phase of a write**: `_send_data` raises -/
theorem write_data_phase_silent_link_raises (h : Host) (cs : List Bytes) (hs : Starved h) :
    ∃ e, (sendData cs h).1 = .error e :=
  sendData_starved h cs hs

/-- **… of a read**: `_read_data` ends with status NO_RESPONSE (or raises with `cmd_exception`), never success -/
theorem read_data_phase_silent_link_fails (h : Host) (tag n : Nat) (hs : Starved h) :
    ¬ succeeded ((readData tag n h).1.map Val.bytes) (readData tag n h).2 :=
  readData_starved h tag n hs

/-- **status codes are reported as the device sent them** -/
theorem status_mirrors_response (h h' : Host) (p : CmdPkt) (r : Resp) (hr : processCmd p h = (.ok r, h')) :
    h'.status = r.status ∧ (h'.cfg.cmdExc = true → r.status = Spec.stSuccess) :=
  processCmd_ok h h' p r hr

/-- **device error status**: a command whose response carries a non-SUCCESS status returns `False` and shows that status -/
theorem error_status_surfaces (h h' : Host) (tag : Nat) (ps : List Nat) (r : Resp)
    (hp : processCmd ⟨tag, 0, ps⟩ h = (.ok r, h')) (hst : r.status ≠ Spec.stSuccess) :
    simpleCmd tag ps h = (.ok (.bool false), h') ∧ h'.status = r.status :=
  simpleCmd_error_status h h' tag ps r hp hst

/-- … and success is reported only when a response with status SUCCESS was received -/
theorem success_needs_success_response (h : Host) (tag : Nat) (ps : List Nat)
    (hs : succeeded (simpleCmd tag ps h).1 (simpleCmd tag ps h).2) :
    ∃ r h', processCmd ⟨tag, 0, ps⟩ h = (.ok r, h') ∧ r.status = Spec.stSuccess ∧ h'.status = Spec.stSuccess :=
  simpleCmd_success h tag ps hs

/-- **partial data never comes with SUCCESS** (`_read_data`, fix C10-2): on ANY device→host stream, data returned
    while `status_code == SUCCESS` has exactly the announced length -/
theorem read_data_success_complete (h h' : Host) (tag n : Nat) (d : Bytes)
    (hr : readData tag n h = (.ok d, h')) (hst : h'.status = Spec.stSuccess) : d.length = n :=
  readData_success_complete h h' tag n d hr hst

/-- **NAK / ABORT / timeout / damaged ACK in the data phase**: `_send_data` returns `True` only if every packet was
    written without any error and the final response carried SUCCESS — on ANY device→host stream -/
theorem send_data_true_only_if_all_acked (h h' : Host) (cs : List Bytes) (hne : ∀ c ∈ cs, c ≠ [])
    (hr : sendData cs h = (.ok true, h')) :
    (∃ h1, sendChunks h.eda cs 0 h = (.ok ((cs.map List.length).sum, none), h1)) ∧ h'.status = Spec.stSuccess :=
  sendData_true h h' cs hne hr

/-- … the same for `load_image` (`_send_data(NO_COMMAND, …)`, no final response): `True` only if every packet was written
    without error — a NAK/ABORT/timeout on the LAST packet's acknowledgement yields `False`, on ANY stream -/
theorem load_image_true_only_if_all_acked (h h' : Host) (cs : List Bytes) (hne : ∀ c ∈ cs, c ≠ [])
    (hr : sendDataNoResp cs h = (.ok true, h')) :
    ∃ h1, sendChunks h.eda cs 0 h = (.ok ((cs.map List.length).sum, none), h1) :=
  sendDataNoResp_true h h' cs hne hr

/-- **NAK / ABORT instead of the ACK of a command**: McuBootConnectionError / McuBootDataAbortError is raised -/
theorem nak_abort_raise (h : Host) (p : CmdPkt) (x : Bytes) (hwf : p.WF) (ho : h.opened = true)
    (htr : h.cfg.tr = .serial) :
    ((h.write (mkFrame Spec.fCmd p.encode)).rxB = nakFrame ++ x → (processCmd p h).1 = .error .conn) ∧
    ((h.write (mkFrame Spec.fCmd p.encode)).rxB = abortFrame ++ x → (processCmd p h).1 = .error .abort) :=
  processCmd_nak_abort h p x hwf ho htr

/-! ## 6. without faults: host + reference bootloader = the specification

`specOp` (Model/Mboot.lean) is the abstract effect of an operation: written bytes are in the device memory once, in
order (`splice`), nothing else is touched; read bytes are exactly `mem[a, a+n)`; properties and status codes are the
device's; an operation the device refuses returns `False`/`None` (or raises `McuBootCommandError(status)` with
`cmd_exception`) and shows the device's status.  The device refuses data packets larger than its max packet size, so the
refinement also says that every packet the host sends is no larger than the negotiated size.
Covered: get/set property, fill, erase region/all, read_memory (un-chunked and the UsbDevice chunk loop), write_memory,
receive_sb_file, execute/call/erase-all-unsecure/configure-memory/reliable-update, key provisioning (enroll, intrinsic key,
(non)volatile, set user key, write/read key store), flash_read_resource, flash/efuse read once, flash_program_once,
efuse_program_once with and without verification (locked word ⇒ OTP_VERIFY_FAIL), load_image; phase 3: update_life_cycle,
ele_message, tp_oem_set_master_share, tp_hsm_enc_blk (`Op.logCmd`), fuse_program (data phase), fuse_read (data phase). -/

/-- one operation on the CRC-framed serial link (all data lengths, all packet sizes `0 < mp < 2^16`) -/
theorem op_refines_serial (h : Host) (d d' : Dev) (op : Op) (res : Except HErr Val) (st : Nat)
    (htr : h.cfg.tr = .serial)
    (hs : Synced h d) (hd : d.OK) (hmps : h.mps = some d.maxPacket) (heda : h.eda = false)
    (hargs : op.argsOK) (hspec : specOp h.cfg.cmdExc h.cfg.usb d op = some (d', res, st)) :
    ∃ h', runOp op h = (res, h') ∧ Synced h' d' ∧ h'.status = st ∧ h'.cfg = h.cfg ∧ h'.mps = h.mps ∧ h'.eda = false :=
  Mboot.op_refines_serial h d d' op res st htr hs hd hmps heda hargs hspec

/-- one operation over USB-HID reports (`cfg.usb`: the device object is a `UsbDevice`, then `read_memory` takes the chunked path) -/
theorem op_refines_hid (h : Host) (d d' : Dev) (op : Op) (res : Except HErr Val) (st : Nat)
    (htr : h.cfg.tr = .hid)
    (hs : Synced h d) (hd : d.OK) (hmps : h.mps = some d.maxPacket) (heda : h.eda = false)
    (hargs : op.argsOK) (hspec : specOp h.cfg.cmdExc h.cfg.usb d op = some (d', res, st)) :
    ∃ h', runOp op h = (res, h') ∧ Synced h' d' ∧ h'.status = st ∧ h'.cfg = h.cfg ∧ h'.mps = h.mps ∧ h'.eda = false :=
  Mboot.op_refines_hid h d d' op res st htr hs hd hmps heda hargs hspec

/-- run a list of operations; result and `status_code` after each one -/
def runOps : List Op → Host → List (Except HErr Val × Nat) × Host
  | [], h => ([], h)
  | op :: ops, h =>
    let x := runOp op h
    let y := runOps ops x.2
    ((x.1, x.2.status) :: y.1, y.2)

/-- the abstract specification of a list of operations on the device -/
def specOps (ce usb : Bool) : List Op → Dev → Option (List (Except HErr Val × Nat) × Dev)
  | [], d => some ([], d)
  | op :: ops, d =>
    match specOp ce usb d op with
    | none => none
    | some (d1, r, st) =>
      match specOps ce usb ops d1 with
      | none => none
      | some (rs, d2) => some ((r, st) :: rs, d2)

/-- `no_fault_refines`: any sequence of (covered) operations, both transports, by induction over the history -/
theorem no_fault_refines (ops : List Op) (h : Host) (d d' : Dev) (rs : List (Except HErr Val × Nat))
    (hs : Synced h d) (hd : d.OK) (hmps : h.mps = some d.maxPacket) (heda : h.eda = false)
    (hargs : ∀ op ∈ ops, op.argsOK) (hspec : specOps h.cfg.cmdExc h.cfg.usb ops d = some (rs, d')) :
    ∃ h', runOps ops h = (rs, h') ∧ Synced h' d' := by
  induction ops generalizing h d rs with
  | nil =>
    simp only [specOps, Option.some.injEq, Prod.mk.injEq] at hspec
    obtain ⟨rfl, rfl⟩ := hspec
    exact ⟨h, rfl, hs⟩
  | cons op ops ih =>
    simp only [specOps] at hspec
    cases h1 : specOp h.cfg.cmdExc h.cfg.usb d op with
    | none => simp [h1] at hspec
    | some t =>
      obtain ⟨d1, r, st⟩ := t
      simp only [h1] at hspec
      cases h2 : specOps h.cfg.cmdExc h.cfg.usb ops d1 with
      | none => simp [h2] at hspec
      | some u =>
        obtain ⟨rs2, d2⟩ := u
        simp only [h2, Option.some.injEq, Prod.mk.injEq] at hspec
        obtain ⟨rfl, rfl⟩ := hspec
        have hop : op.argsOK := hargs op (by simp)
        obtain ⟨ok1, mp1, _⟩ := specOp_OK h.cfg.cmdExc h.cfg.usb d d1 op r st hd hs.idle hop h1
        have step : ∃ h', runOp op h = (r, h') ∧ Synced h' d1 ∧ h'.status = st ∧ h'.cfg = h.cfg ∧ h'.mps = h.mps ∧
            h'.eda = false := by
          cases htr : h.cfg.tr with
          | serial => exact Mboot.op_refines_serial h d d1 op r st htr hs hd hmps heda hop h1
          | hid => exact Mboot.op_refines_hid h d d1 op r st htr hs hd hmps heda hop h1
        obtain ⟨h', e1, s1, st1, c1, m1, ed1⟩ := step
        have := ih h' d1 rs2 s1 ok1 (by rw [m1, hmps, mp1]) ed1
          (fun o ho => hargs o (by simp [ho])) (by rw [c1]; exact h2)
        obtain ⟨h'', e2, s2⟩ := this
        refine ⟨h'', ?_, s2⟩
        simp only [runOps, e1, e2, st1]

/-! ### phase 3: the commands added to the table (`Op.logCmd`, `Op.fuseProgram`, `Op.fuseRead`)

All theorems of sections 5, 6 and 6b quantify over `Op`, hence over these operations too (silent link, truncation at every
position, bounded reads, refinement); the statements below spell out what the refinement says for them. -/

/-- the API abbreviations run exactly the packet of the generated `apiPackets` table: tag, no flag, the parameter words in
    the order of the method's `CmdPacket(...)` call -/
theorem log_cmds_packets (lc a b c d k n e f : Nat) :
    runOp (Op.updateLifeCycle lc) = simpleCmd Spec.cUpdateLifeCycle [lc] ∧
    runOp (Op.eleMessage a b c d) = simpleCmd Spec.cEleMessage [0, a, b, c, d] ∧
    runOp (Op.tpOemSetMasterShare a b c d) = simpleCmd Spec.cTrustProvisioning [Spec.tpOemSetMasterShare, a, b, c, d] ∧
    runOp (Op.tpHsmEncBlk a b k c d n e f) = simpleCmd Spec.cTrustProvisioning [Spec.tpHsmEncBlock, a, b, k, c, d, n, e, f] :=
  ⟨rfl, rfl, rfl, rfl⟩

/-- `update_life_cycle` / `ele_message` / `tp_oem_set_master_share` / `tp_hsm_enc_blk` without faults, both transports: the
    device received exactly one command with exactly the caller's words (it is appended to the device's command log), the
    call returns `True` with status SUCCESS -/
theorem log_cmd_refines (h : Host) (d : Dev) (t : Nat) (ps : List Nat)
    (hs : Synced h d) (hd : d.OK) (hmps : h.mps = some d.maxPacket) (heda : h.eda = false)
    (hargs : (Op.logCmd t ps).argsOK)
    (ht : t = Spec.cUpdateLifeCycle ∨ t = Spec.cEleMessage ∨
      (t = Spec.cTrustProvisioning ∧ (ps.head? = some Spec.tpOemSetMasterShare ∨ ps.head? = some Spec.tpHsmEncBlock))) :
    ∃ h', runOp (.logCmd t ps) h = (.ok (.bool true), h') ∧ Synced h' (d.logged t ps) ∧ h'.status = Spec.stSuccess := by
  have hspec : specOp h.cfg.cmdExc h.cfg.usb d (.logCmd t ps) = some (d.logged t ps, .ok (.bool true), Spec.stSuccess) := by
    simp only [specOp, if_pos ht]
  obtain ⟨h', e, s, st, _⟩ := Mboot.op_refines h d _ _ _ _ hs hd hmps heda hargs hspec
  exact ⟨h', e, s, st⟩

/-- `fuse_program(address, data, mem_id)` without faults, both transports, every length and packet size: the device
    received the command (address, length, clamped id — recorded) and then exactly `data`, once and in order, in
    `⌈len/maxPacket⌉` accepted packets; the call returns `True` -/
theorem fuse_program_refines (h : Host) (d : Dev) (a : Nat) (data : Bytes) (m : Nat)
    (hs : Synced h d) (hd : d.OK) (hmps : h.mps = some d.maxPacket) (heda : h.eda = false)
    (hargs : (Op.fuseProgram a data m).argsOK) :
    ∃ h' d', runOp (.fuseProgram a data m) h = (.ok (.bool true), h') ∧ Synced h' d' ∧ h'.status = Spec.stSuccess ∧
      d'.sb = data ∧ d'.pktCount = (split d.maxPacket data).length ∧
      d'.log = d.log ++ [(Spec.cFuseProgram, [a, data.length, clampMemId m])] ∧ d'.mem = d.mem := by
  obtain ⟨h', e, s, st, _⟩ := Mboot.op_refines h d _ (.fuseProgram a data m) _ _ hs hd hmps heda hargs rfl
  exact ⟨h', _, e, s, st, rfl, rfl, rfl, rfl⟩

/-- `fuse_read(address, length, mem_id)` without faults: the bytes returned are exactly the device's bytes of the requested
    range, completely; a range the device refuses gives `None` (or raises `McuBootCommandError`) with the device's status -/
theorem fuse_read_refines (h : Host) (d : Dev) (a n m : Nat)
    (hs : Synced h d) (hd : d.OK) (hmps : h.mps = some d.maxPacket) (heda : h.eda = false)
    (hargs : (Op.fuseRead a n m).argsOK) :
    ∃ h', Synced h' { d with ncmd := d.ncmd + 1, pktCount := 0 } ∧
      (a + n ≤ d.resource.length →
        runOp (.fuseRead a n m) h = (.ok (.bytes ((d.resource.drop a).take n)), h') ∧ h'.status = Spec.stSuccess) ∧
      (¬ a + n ≤ d.resource.length →
        runOp (.fuseRead a n m) h = (specFail h.cfg.cmdExc Spec.stMemoryRangeInvalid .none, h') ∧
          h'.status = Spec.stMemoryRangeInvalid) := by
  by_cases hc : a + n ≤ d.resource.length
  · have hspec : specOp h.cfg.cmdExc h.cfg.usb d (.fuseRead a n m) =
        some ({ d with ncmd := d.ncmd + 1, pktCount := 0 }, .ok (.bytes ((d.resource.drop a).take n)), Spec.stSuccess) := by
      simp only [specOp, if_pos hc]
    obtain ⟨h', e, s, st, _⟩ := Mboot.op_refines h d _ _ _ _ hs hd hmps heda hargs hspec
    exact ⟨h', s, fun _ => ⟨e, st⟩, fun x => absurd hc x⟩
  · have hspec : specOp h.cfg.cmdExc h.cfg.usb d (.fuseRead a n m) =
        some ({ d with ncmd := d.ncmd + 1, pktCount := 0 }, specFail h.cfg.cmdExc Spec.stMemoryRangeInvalid .none,
              Spec.stMemoryRangeInvalid) := by
      simp only [specOp, if_neg hc]
    obtain ⟨h', e, s, st, _⟩ := Mboot.op_refines h d _ _ _ _ hs hd hmps heda hargs hspec
    exact ⟨h', s, fun x => absurd x hc, fun _ => ⟨e, st⟩⟩

/-- `enable_data_abort` after an aborted operation: `receive_sb_file(check_errors=c)` resets it only on normal return -/
def abortEda (ce : Bool) : Op → Bool
  | .receiveSbFile _ c => ce && c
  | _ => false

/-- **the device aborts a host→device data phase** (the `receive_sb_file` abort path; also write_memory and
    kp_write_key_store): serial link — ABORT frame instead of the ACK of packet `k+1`; USB-HID — a zero-length report,
    noticed before the next packet (`check_errors=True`) or at the final read.  Exactly the `k` packets before the abort took
    effect on the device, the operation returns `False` (raises `McuBootCommandError(AbortDataPhase)` with
    `cmd_exception`), `status_code` is the device's AbortDataPhase, and host and device are in step again. -/
theorem abort_refines (h : Host) (d d' : Dev) (op : Op) (res : Except HErr Val) (st k : Nat)
    (hs : Synced h d) (hmp : 0 < d.maxPacket ∧ d.maxPacket < 65536) (hmem : d.mem.length < 4294967296)
    (hnf : d.faults = []) (hab : d.abortAfter = some k) (himg : d.imageMode = false)
    (hmps : h.mps = some d.maxPacket) (heda : h.eda = false) (hargs : op.argsOK)
    (hspec : specAbort h.cfg.cmdExc d k op = some (d', res, st)) :
    ∃ h', runOp op h = (res, h') ∧ Synced h' d' ∧ h'.status = st ∧ h'.cfg = h.cfg ∧ h'.mps = h.mps ∧
      h'.eda = abortEda h.cfg.cmdExc op := by
  obtain ⟨h', a, b, c, e, f, g⟩ := Mboot.abort_refines h d d' op res st k hs hmp hmem hnf hab himg hmps heda hargs hspec
  refine ⟨h', a, b, c, e, f, ?_⟩
  cases op <;> exact g

/-! ## 6b. bounded time -/

/-- `bounded`: on ANY replayed stream (well-formed or garbage, both transports, strict or partial reads) an operation
    makes at most `pending + dataLen + 16` calls of `device.read`, where `pending` is what the stream can deliver and
    `dataLen` the number of bytes of the host→device data phase: there is no unbounded retry loop (the 0x00 "not ready"
    skipping consumes the stream; the number of failed reads is at most the number of data packets plus a constant). -/
theorem reads_bounded (h : Host) (op : Op) (hpeer : (∃ cs, h.peer = .script cs) ∨ h.peer = .none) :
    (runOp op h).2.reads ≤ h.reads + h.pending + op.dataLen + 16 :=
  Bound.reads_bounded h op hpeer

/-! ## 7. SDP over the serial protocol (thin layer; Model/Sdp.lean) -/

theorem gen_sdp_constants_agree :
    Generated.SdpConsts.commandTags =
      [("READ_REGISTER", Sdp.Spec.cReadRegister), ("WRITE_REGISTER", Sdp.Spec.cWriteRegister), ("WRITE_FILE", Sdp.Spec.cWriteFile),
       ("ERROR_STATUS", Sdp.Spec.cErrorStatus), ("WRITE_CSF", Sdp.Spec.cWriteCsf), ("WRITE_DCD", Sdp.Spec.cWriteDcd),
       ("JUMP_ADDRESS", Sdp.Spec.cJumpAddress), ("SKIP_DCD_HEADER", Sdp.Spec.cSkipDcdHeader), ("SET_BAUDRATE", 0x0D0D), ("PING", 0x5AA6)] ∧
    Generated.SdpConsts.responseValues =
      [("BAUDRATE_SET", 0x09D00D90), ("LOCKED", Sdp.Spec.rLocked), ("WRITE_DATA_OK", Sdp.Spec.rWriteDataOk),
       ("UNLOCKED", Sdp.Spec.rUnlocked), ("WRITE_FILE_OK", Sdp.Spec.rWriteFileOk),
       ("SKIP_DCD_HEADER_OK", Sdp.Spec.rSkipDcdHeaderOk), ("HAB_SUCCESS", 0xF0F0F0F0)] ∧
    Generated.SdpConsts.statusCodes =
      [("SUCCESS", Sdp.Spec.stSuccess), ("CMD_FAILURE", 1), ("HAB_IS_LOCKED", Sdp.Spec.stHabIsLocked), ("READ_DATA_FAILURE", 10),
       ("WRITE_REGISTER_FAILURE", Sdp.Spec.stWriteRegisterFailure), ("WRITE_IMAGE_FAILURE", Sdp.Spec.stWriteImageFailure),
       ("WRITE_DCD_FAILURE", Sdp.Spec.stWriteDcdFailure), ("WRITE_CSF_FAILURE", Sdp.Spec.stWriteCsfFailure),
       ("SKIP_DCD_HEADER_FAILURE", Sdp.Spec.stSkipDcdHeaderFailure)] ∧
    Generated.SdpConsts.cmdPacketEndian = "big" ∧ Generated.SdpConsts.cmdPacketWidths = [2, 4, 1, 4, 4, 1] ∧
    Generated.SdpConsts.readBlock = Sdp.Spec.maxRead ∧
    Generated.SdpConsts.hidReports =
      [("CMD", Sdp.Spec.ridCmd, Sdp.Spec.defaultPackSize), ("DATA", Sdp.Spec.ridData, Sdp.Spec.defaultPackSize),
       ("HAB", Sdp.Spec.ridHab, 4), ("RET", Sdp.Spec.ridRet, Sdp.Spec.retSize)] ∧
    Generated.SdpConsts.sdpsSignatures.lookup "CBW_BLTC_SIGNATURE" = some Sdp.Spec.cbwSignature ∧
    Generated.SdpConsts.sdpsCommandTags = [("FW_DOWNLOAD", Sdp.Spec.cbwFwDownload)] ∧
    Generated.SdpConsts.sdpsCommandFlags.lookup "HOST_TO_DEVICE_DIR" = some 0 ∧
    Generated.SdpConsts.sdpsCmdFormat = "<IIIBxxbIxxxxxxxxxxx" := by decide

/-- the 16-byte SDP command packet (`">HIB2IB"`) is decoded by the ROM to the same fields -/
theorem sdp_cmd_roundtrip (c : Sdp.Cmd) (h : c.fits) : Sdp.parseCmd c.encode = some c ∧ c.encode.length = 16 :=
  ⟨Sdp.cmd_roundtrip' c h, Sdp.encode_length c⟩

/-- missing response / stream cut off: on a silent link every SDP operation (serial protocol and USB-HID) raises SdpConnectionError -/
theorem sdp_silent_link_raises (h : Sdp.Host) (op : Sdp.Op) (hs : Sdp.Silent h)
    (hop : ∀ nc ps d, op ≠ .sdpsWriteFile nc ps d) : (Sdp.runOp op h).1 = .error .conn :=
  Sdp.runOp_silent h op hs hop

/-- device error status: `write` / `skip_dcd` report `True` only if the status word read is the OK value -/
theorem sdp_true_needs_ok_status (st okv failSt : Nat) (h h' : Sdp.Host)
    (hr : Sdp.statusTail st okv failSt h = (.ok (.bool true), h')) : st = okv :=
  Sdp.statusTail_true st okv failSt h h' hr

/-- bytes read are returned completely: whatever the stream, `_read_data` returns exactly `length` bytes or raises -/
theorem sdp_read_data_complete (length : Nat) (d : Bytes) (h h' : Sdp.Host)
    (hr : Sdp.readData length h = (.ok d, h')) : d.length = length :=
  Sdp.readDataLoop_length length (length + h.rxR.length + h.fuelHint + 1) [] d h h' hr

/-- `sdp_op_refines`: one SDP operation (read / write register, write file / dcd / csf, skip dcd, jump, read status) in closed
    loop with the reference i.MX ROM — over `SDPSerialProtocol` and over `SDPBulkProtocol` (USB-HID reports) — has exactly
    the effect `Sdp.specOp` defines: read bytes are the ROM's memory for every length (64-byte blocks), written bytes are in
    ROM memory once and in order, a refused write / file reports `False` (or raises) with the failure status, `status_code`
    and `hab_status` mirror the HAB word, and host and ROM are in step again -/
theorem sdp_op_refines (h : Sdp.Host) (r r' : Sdp.Rom) (op : Sdp.Op) (res : Except Sdp.SErr Sdp.Val) (st hab : Nat)
    (hs : Sdp.Synced h r) (hr : r.OK) (hargs : op.argsOK) (hspec : Sdp.specOp h.ce r op = some (r', res, st, hab)) :
    ∃ h', Sdp.runOp op h = (res, h') ∧ Sdp.Synced h' r' ∧ h'.status = st ∧ h'.hab = hab ∧ h'.ce = h.ce ∧ h'.tr = h.tr ∧
      h'.packSize = h.packSize :=
  Sdp.sdp_op_refines h r r' op res st hab hs hr hargs hspec

/-- `sdp_no_fault_refines`: any sequence of SDP operations, by induction over the history -/
theorem sdp_no_fault_refines (ops : List Sdp.Op) (h : Sdp.Host) (r r' : Sdp.Rom)
    (rs : List (Except Sdp.SErr Sdp.Val × Nat × Nat))
    (hs : Sdp.Synced h r) (hr : r.OK) (hargs : ∀ op ∈ ops, op.argsOK) (hspec : Sdp.specOps h.ce ops r = some (rs, r')) :
    ∃ h', Sdp.runOps ops h = (rs, h') ∧ Sdp.Synced h' r' :=
  Sdp.sdp_no_fault_refines ops h r r' rs hs hr hargs hspec

/-- SDPS / SDP-over-HID framing: the reports carry exactly the image once and in order, each `1 + size` bytes with the
    report id first, `⌈len/size⌉` of them -/
theorem sdps_reports_deliver (rid size : Nat) (b : Bytes) (hs : 0 < size) :
    (((Sdp.hidFrames rid size b).map (List.drop 1)).flatten.take b.length = b) ∧
    (∀ f ∈ Sdp.hidFrames rid size b, f.length = 1 + size ∧ f.head? = some (UInt8.ofNat rid)) ∧
    ((Sdp.hidFrames rid size b).length = (b.length + size - 1) / size) :=
  Sdp.hidFrames_deliver rid size b hs

/-! ### 7b. SDP fault side and SDPS end-to-end (phase 3; Proofs/SdpFault.lean)

`Sdp.succeeded r`: nothing raised and the value is not `False` (SDP's `status_code` may legitimately be HAB_IS_LOCKED on a
successful call, so it is not part of SDP's observable success); `Sdp.observable` = (result, status_code, hab_status, every
byte written). -/

/-- **wrong status word** (write_file / write_dcd / write_csf): `_send_data` returns `True` only if the status word read
    from the ROM is the OK value of that command — on ANY device→host stream, both transports -/
theorem sdp_send_data_true_needs_ok (c : Sdp.Cmd) (data : Sdp.Bytes) (h h' : Sdp.Host)
    (hr : Sdp.sendData c data h = (.ok true, h')) :
    (c.tag = Sdp.Spec.cWriteFile → h'.cmdStatus = Sdp.Spec.rWriteFileOk) ∧
    (c.tag = Sdp.Spec.cWriteDcd → h'.cmdStatus = Sdp.Spec.rWriteDataOk) ∧
    (c.tag = Sdp.Spec.cWriteCsf → h'.cmdStatus = Sdp.Spec.rWriteDataOk) :=
  Sdp.sendData_true_ok c data h h' hr

/-- **truncated / dropped answer, at EVERY byte position** (`SDPSerialProtocol`): the ROM→host byte stream — whatever it
    contains — is cut after `k` bytes, for every `k` and every SDP operation: the call is observably the run on the full
    stream, or it does not report success (it raises `SdpConnectionError`) -/
theorem sdp_truncation_safe_serial (h : Sdp.Host) (op : Sdp.Op) (k : Nat) (cs : List (List Sdp.Bytes))
    (htr : h.tr = .serial) (hpeer : h.peer = .script cs) :
    Sdp.observable (Sdp.runOp op (h.truncate k)) = Sdp.observable (Sdp.runOp op h) ∨
      ¬ Sdp.succeeded (Sdp.runOp op (h.truncate k)).1 :=
  Sdp.truncation_safe_serial h op k cs htr hpeer

/-- … and over USB-HID (`SDPBulkProtocol` report framing): the stream is cut after any number of whole reports (dropped
    reports; a report shorter than a status word makes `CmdResponse.value` raise, see `Sdp.respValue`) -/
theorem sdp_truncation_safe_hid (h : Sdp.Host) (op : Sdp.Op) (k : Nat) (cs : List (List Sdp.Bytes))
    (htr : h.tr = .hid) (hpeer : h.peer = .script cs) :
    Sdp.observable (Sdp.runOp op (h.truncateHid k)) = Sdp.observable (Sdp.runOp op h) ∨
      ¬ Sdp.succeeded (Sdp.runOp op (h.truncateHid k)).1 :=
  Sdp.truncation_safe_hid h op k cs htr hpeer

/-- **SDPS.write_file / SDP-over-HID chunking, end to end**: over USB-HID the call writes exactly the command-block reports
    (unless the family's ROM takes none) followed by the data reports of the family's pack size, nothing else, reads
    nothing and returns; with `sdps_reports_deliver` the data reports carry the image once and in order -/
theorem sdps_write_file_delivers (noCmd : Bool) (ps : Nat) (data : Sdp.Bytes) (h : Sdp.Host) (htr : h.tr = .hid)
    (hps : 0 < ps) (hlen : data.length < 2 ^ 32) :
    ∃ h', Sdp.runOp (.sdpsWriteFile noCmd ps data) h = (.ok .none, h') ∧ h'.packSize = ps ∧
      h'.txRev = (Sdp.hidFrames Sdp.Spec.ridData ps data).reverse ++
                 (if noCmd then [] else (Sdp.hidFrames Sdp.Spec.ridCmd ps (Sdp.cbw data.length)).reverse) ++ h.txRev ∧
      ((Sdp.hidFrames Sdp.Spec.ridData ps data).map (List.drop 1)).flatten.take data.length = data := by
  obtain ⟨h', e, p, t⟩ := Sdp.sdpsWriteFile_delivers noCmd ps data h htr hps (by simpa using hlen)
  exact ⟨h', e, p, t, (Sdp.hidFrames_deliver Sdp.Spec.ridData ps data hps).1⟩

/-! ## 8. property values are decoded as the device sent them (`parse_property_value`, Model/MbootProps.lean) -/

def className : MbootProps.PClass → String × List Nat
  | .version => ("VersionValue", [1])
  | .peripherals => ("AvailablePeripheralsValue", [1])
  | .int => ("IntValue", [1])
  | .commands => ("AvailableCommandsValue", [1])
  | .enum => ("EnumValue", [1])
  | .bool tv => ("BoolValue", tv)
  | .regions => ("ReservedRegionsValue", [1])
  | .uid => ("DeviceUidValue", [1])
  | .extMem => ("ExternalMemoryAttributesValue", [1])
  | .irq => ("IrqNotifierPinValue", [1])
  | .fuseLock => ("FuseLockedStatus", [1])
  | .intList => ("IntListValue", [1])

/-- the `PROPERTIES` dict regenerated from the source is the model's `classOf`, for every tag byte
    (a tag without an entry is decoded as `PropertyTag.UNKNOWN`), and the enum lists the decoders iterate over agree -/
theorem gen_property_table_agrees :
    (List.range 256).all (fun t =>
      ((Generated.MbootProps.propertyClasses.lookup t).getD
        ((Generated.MbootProps.propertyClasses.lookup 255).getD ("?", []))) == className (MbootProps.classOf t)) = true ∧
    Generated.MbootConsts.commandTags.map (·.2) = MbootProps.allCommandTags ∧
    Generated.MbootProps.peripheryTags.map (·.2) = MbootProps.allPeripheryTags ∧
    Generated.MbootProps.extMemPropTags.map (·.2) = [0, 1, 2, 4, 8, 16] := by decide +kernel

/-- a version word whose mark byte is an upper-case letter or zero is reported exactly (`VersionValue.to_int()`);
    any other mark byte is dropped by `Version.from_int` — e.g. `0x20010203` is reported as `0x00010203` -/
theorem version_reported_as_sent (v : Nat) (hv : v < 2 ^ 32)
    (hm : (64 < v / 2 ^ 24 ∧ v / 2 ^ 24 < 91) ∨ v / 2 ^ 24 = 0) :
    (MbootProps.Version.fromInt v).toInt = v :=
  MbootProps.toInt_fromInt v (by simpa using hv) (by simpa using hm)

/-- version comparison is the lexicographic order of (major, minor, fixation), the mark is ignored -/
theorem version_order (a b : Nat) :
    (MbootProps.Version.fromInt a).le (MbootProps.Version.fromInt b) =
      decide (a % 2 ^ 24 ≤ b % 2 ^ 24) := by
  obtain ⟨_, a2, a3, _⟩ := MbootProps.fromInt_fields a
  obtain ⟨_, b2, b3, _⟩ := MbootProps.fromInt_fields b
  simp only [MbootProps.Version.le, MbootProps.toInt_noMark _ a2 a3, MbootProps.toInt_noMark _ b2 b3]
  simp only [MbootProps.Version.fromInt, MbootProps.shr_mod]
  congr 1
  apply propext
  constructor <;> intro h <;> omega

/-- reserved regions: exactly the device's `(start, end)` pairs with a non-zero end, in order; an odd word count is refused -/
theorem reserved_regions_as_sent (ps : List (Nat × Nat)) (x : Nat) :
    MbootProps.regionsOf (ps.flatMap (fun q => [q.1, q.2])) = .ok (ps.filter (fun q => q.2 ≠ 0)) ∧
    MbootProps.regionsOf (ps.flatMap (fun q => [q.1, q.2]) ++ [x]) = .error .other :=
  ⟨MbootProps.regionsOf_pairs ps, MbootProps.regionsOf_odd ps x⟩

/-- available commands: a command tag is listed iff it is a known tag and its bit `tag − 1` is set in the device's word -/
theorem available_commands_as_sent (v t : Nat) :
    t ∈ MbootProps.commandTagsOf MbootProps.allCommandTags v ↔
      t ∈ MbootProps.allCommandTags ∧ 0 < t ∧ v.testBit (t - 1) = true :=
  MbootProps.mem_commandTagsOf _ v t

/-- the unique device id bytes decode back to exactly the device's words -/
theorem device_uid_as_sent (raw : List Nat) (h : ∀ w ∈ raw, w < 2 ^ 32) :
    MbootProps.fromLe4 (MbootProps.uidBytes raw) = raw :=
  MbootProps.fromLe4_uidBytes raw (fun w hw => by simpa using h w hw)

/-! ## non-vacuity and sanity examples -/

example : (MbootProps.Version.fromInt 0x20010203).toInt = 0x00010203 := by decide
example : MbootProps.parseProperty 0x0C [1, 2, 3, 0, 5, 6] = .ok (.regions [(1, 2), (5, 6)]) := by decide

/-- a concrete device / host pair satisfying every hypothesis of the refinement theorems, and a history on it -/
def exDev : Dev := { mem := [1, 2, 3, 4, 5, 6, 7, 8, 9, 10], maxPacket := 4, props := [(1, 77)], rwProps := [10] }
def exHost : Host := { mps := some 4, peer := .live exDev }
example : Synced exHost exDev := ⟨rfl, rfl, rfl, rfl, rfl⟩
example : exDev.OK := ⟨by decide, by decide, by decide, rfl, by decide, by decide, rfl, by decide⟩
example : specOps false false [.writeMemory 2 [9, 9, 9, 9, 9] 0, .readMemory 0 10 0 false, .readMemory 8 3 0 false] exDev =
    some ([(.ok (.bool true), 0), (.ok (.bytes [1, 2, 9, 9, 9, 9, 9, 8, 9, 10]), 0), (.ok .none, 10200)],
          { exDev with mem := [1, 2, 9, 9, 9, 9, 9, 8, 9, 10], ncmd := 3 }) := by decide +kernel

example : specAbort false { mem := [1, 2, 3, 4, 5, 6], maxPacket := 2, abortAfter := some 1 } 1 (.writeMemory 1 [9, 9, 9, 9] 0) =
    some ({ mem := [1, 9, 9, 4, 5, 6], maxPacket := 2, abortAfter := some 1, ncmd := 1, pktCount := 1 }, .ok (.bool false),
          Spec.stAbortDataPhase) := by decide +kernel
-- phase 3: the new operations on the example device (hypotheses of `log_cmd_refines` / `fuse_*_refines` are satisfiable)
example : (Op.tpHsmEncBlk 1 2 0x10 3 4 1 5 6).argsOK := ⟨by decide, by decide, by decide⟩
example : (Op.fuseProgram 4 [1, 2, 3, 4, 5] 9).argsOK ∧ (Op.fuseRead 0 4 0).argsOK :=
  ⟨⟨by decide, by decide, by decide⟩, ⟨by decide, by decide, by decide⟩⟩
example : specOps false false [Op.updateLifeCycle 0x5A, .fuseProgram 4 [1, 2, 3, 4, 5] 9, .fuseRead 1 2 0, .fuseRead 3 9 0]
      { exDev with resource := [7, 8, 9, 10] } =
    some ([(.ok (.bool true), 0), (.ok (.bool true), 0), (.ok (.bytes [8, 9]), 0), (.ok .none, 10200)],
          { exDev with resource := [7, 8, 9, 10], sb := [1, 2, 3, 4, 5], ncmd := 4, pktCount := 0,
                       log := [(0x18, [0x5A]), (0x14, [4, 5, 0])] }) := by decide +kernel
example : crc16 [0x31, 0x32, 0x33, 0x34, 0x35, 0x36, 0x37, 0x38, 0x39] = 0x31C3 := by decide +kernel
-- the ping response of the bootloader reference manual
example : pingResponse 0x50010300 0 = [0x5A, 0xA7, 0x00, 0x03, 0x01, 0x50, 0x00, 0x00, 0xFB, 0x40] := by decide +kernel
example : Corrupted Spec.fData [1, 2, 3] Spec.fData (frameCrc Spec.fData [1, 2, 3]) [1, 7, 3] :=
  .payload [1] [3] 2 7 rfl (by decide)
example : Starved { peer := .script [[[]], []] } := ⟨rfl, by simp, by simp [Peer.silent]⟩
example : (⟨Spec.cWriteMemory, 1, [0x20000000, 512, 0]⟩ : CmdPkt).WF := ⟨by decide, by decide, by decide, by decide⟩
example : split 4 [1, 2, 3, 4, 5, 6, 7, 8, 9] = [[1, 2, 3, 4], [5, 6, 7, 8], [9]] := by decide
example : (⟨Sdp.Spec.cReadRegister, 0x20000000, 32, 4, 0⟩ : Sdp.Cmd).fits := by decide
example : (⟨Sdp.Spec.cReadRegister, 0x20000000, 32, 4, 0⟩ : Sdp.Cmd).encode =
    [0x01, 0x01, 0x20, 0, 0, 0, 0x20, 0, 0, 0, 4, 0, 0, 0, 0, 0] := by decide
example : Sdp.Synced { peer := .live { mem := [1, 2, 3] } } { mem := [1, 2, 3] } :=
  ⟨Or.inl ⟨rfl, rfl⟩, rfl, rfl, rfl, rfl, by decide⟩
example : Sdp.specOps false [.writeFile 1 [9, 9], .read 0 3 32] { mem := [1, 2, 3] } =
    some ([(.ok (.bool true), 0, Sdp.Spec.rUnlocked), (.ok (.bytes [1, 9, 9]), 0, Sdp.Spec.rUnlocked)],
          { mem := [1, 9, 9], ncmd := 2 }) := by decide
example : Sdp.Silent {} := ⟨rfl, by simp, [], rfl, by simp⟩
-- phase 3: hypotheses of the SDP fault theorems are satisfiable; a cut stream raises, the full one succeeds
example : ({ peer := .script [[Sdp.be 4 Sdp.Spec.rUnlocked, Sdp.be 4 Sdp.Spec.rWriteDataOk]] } : Sdp.Host).tr = .serial ∧
    (Sdp.runOp (.write 0 1 4 32) { peer := .script [[Sdp.be 4 Sdp.Spec.rUnlocked, Sdp.be 4 Sdp.Spec.rWriteDataOk]] }).1 = .ok (.bool true) ∧
    (Sdp.runOp (.write 0 1 4 32)
      (({ peer := .script [[Sdp.be 4 Sdp.Spec.rUnlocked, Sdp.be 4 Sdp.Spec.rWriteDataOk]] } : Sdp.Host).truncate 6)).1 = .error .conn := by
  decide
example : (Sdp.sendData ⟨Sdp.Spec.cWriteFile, 0, 0, 2, 0⟩ [1, 2]
    { peer := .script [[], [Sdp.be 4 Sdp.Spec.rUnlocked, Sdp.be 4 Sdp.Spec.rWriteFileOk]] }).1 = .ok true := by decide
example : ({ tr := .hid } : Sdp.Host).tr = .hid ∧ (0 : Nat) < 4 ∧ ([1, 2, 3, 4, 5] : Sdp.Bytes).length < 2 ^ 32 := by decide

end SpsdkVerif.C10
