/-
C07 — HAB image: layout round trip, CSF authenticates its blocks, encryption inverts.

Model: `Model/Hab.lean` (hand-written, executable; tied to /repo by the image / parse correspondence of
harness/props/C07.py), its integer arithmetic is the AST translation `Generated/HabFuns.lean`, constants and tables
`Generated/HabConsts.lean` (both regenerated from the current source on every run).  Hypotheses: `Model/HabWF.lean`.
Helper lemmas: `Proofs/HabBase.lean`, `Proofs/HabCsf.lean`, `Proofs/HabLayout.lean`, `Proofs/HabSign.lean`,
`Proofs/HabRoundtrip.lean`.

CMS / X.509 / RSA / ECDSA are abstract here (`Signer`); what the theorems establish about signatures is WHICH bytes
are handed to the signer and where the result is referenced.  The signatures themselves are verified on the real
images by the harness.
-/
import SpsdkVerif.Model.Hab
import SpsdkVerif.Model.HabWF
import SpsdkVerif.Proofs.HabBase
import SpsdkVerif.Proofs.HabCsf
import SpsdkVerif.Proofs.HabLayout
import SpsdkVerif.Proofs.HabSign
import SpsdkVerif.Proofs.HabRoundtrip
import SpsdkVerif.Proofs.HabVisible
import SpsdkVerif.Proofs.HabRomAccept
import SpsdkVerif.Proofs.HabRomGen
import SpsdkVerif.Proofs.HabEdge
import SpsdkVerif.Model.HabDcd
import SpsdkVerif.Proofs.HabDcd
import SpsdkVerif.Spec.HabRom
import SpsdkVerif.Crypto.Exec
import SpsdkVerif.Proofs.Crypto

namespace SpsdkVerif.C07
open SpsdkVerif SpsdkVerif.Hab SpsdkVerif.Misc SpsdkVerif.Generated
open SpsdkVerif.Crypto (CryptoOps CryptoLaws ccmEnc ccmDec ccm_inv ccmEnc_length)

/-! ## 1. the current source agrees with the HAB4 format constants the model is written against -/

theorem tags_agree :
    HabConsts.segTags.lookup "IVT2" = some Spec.tagIVT ∧ HabConsts.segTags.lookup "DCD" = some Spec.tagDCD ∧
    HabConsts.segTags.lookup "CSF" = some Spec.tagCSF ∧ HabConsts.segTags.lookup "CRT" = some Spec.tagCRT ∧
    HabConsts.segTags.lookup "SIG" = some Spec.tagSIG ∧ HabConsts.segTags.lookup "MAC" = some Spec.tagMAC ∧
    HabConsts.cmdTags.lookup "SET" = some Spec.cmdSET ∧ HabConsts.cmdTags.lookup "INS_KEY" = some Spec.cmdINS_KEY ∧
    HabConsts.cmdTags.lookup "AUT_DAT" = some Spec.cmdAUT_DAT ∧ HabConsts.cmdTags.lookup "UNLK" = some Spec.cmdUNLK ∧
    HabConsts.cmdTags.lookup "NOP" = some Spec.cmdNOP ∧
    HabConsts.certFormats.lookup "AEAD" = some Spec.fmtAEAD ∧ HabConsts.certFormats.lookup "CMS" = some Spec.fmtCMS ∧
    HabConsts.insKeyFlags.lookup "ABS" = some Spec.insKeyABS ∧ HabConsts.engines.lookup "OCOTP" = some Spec.engOCOTP ∧
    HabConsts.needUidEngine = "OCOTP" := by decide

/-- struct formats are generated as their normalised field list (`"<7L"`, `"<LLLLLLL"`, `"<IIIIIII"` all read `<IIIIIII`):
    the fields, their widths and the byte order are what the model is written against, not the spelling -/
theorem formats_agree :
    HabConsts.headerFormat = ">BHB" ∧ HabConsts.ivt2Format = "<IIIIIII" ∧ HabConsts.bdtFormat = "<III" ∧
    HabConsts.xmcdHeaderFormat = "<BBBB" ∧ HabConsts.insKeyPack.map Prod.fst = [">BBBBI"] ∧
    HabConsts.autDatPack.map Prod.fst = [">BBBBI", ">II"] ∧ HabConsts.setPack.map Prod.fst = ["BBBB"] ∧
    HabConsts.unlockPack.map Prod.fst = [">I", ">Q"] ∧ HabConsts.macPack.map Prod.fst = [">BBBB"] := by decide

theorem sizes_agree :
    HabConsts.ivt2Size = Spec.ivtSize ∧ HabConsts.bdtSize = Spec.bdtSize ∧ HabConsts.csfSize = Spec.csfSize ∧
    HabConsts.keyblobSize = Spec.keyblobSize ∧ HabConsts.xmcdSegOffset = Spec.xmcdOffset ∧ dcdSegOffN = Spec.dcdOffset ∧
    bdtSegOffN = Spec.ivtSize ∧ HabConsts.ivtVersion = 0x40 ∧ HabConsts.ivtSegOffset = 0 ∧ HabConsts.headerSize = 4 ∧
    HabConsts.bdtStructSize = 12 ∧ HabConsts.xmcdHeaderSize = 4 ∧ HabConsts.xmcdHeaderTag = 0xC ∧
    HabConsts.authCmdIndex = [0, 1, 2] ∧ HabConsts.parseFlags = [0, 8, 12] ∧
    HabConsts.segmentsMappingOrder = ["IVT", "BDT", "DCD", "XMCD", "CSF", "APP"] ∧
    HabConsts.signedBlockGroups = [["IVT", "BDT"], ["DCD"], ["XMCD"]] := by
  refine ⟨by decide, by decide, by decide, by decide, by decide, dcdSegOffN_eq, bdtSegOffN_eq, by decide, by decide,
    by decide, by decide, by decide, by decide, by decide, by decide, by decide, by decide⟩

/-- every (family, boot device) row of the database gives a layout the model covers: the IVT offset is not behind the
    initial load size, the application offset is one `HabContainer.parse` probes, and both are 16-byte aligned -/
theorem devices_wf :
    ∀ r ∈ HabConsts.devices, r.2.2.1 ≤ r.2.2.2 ∧ (r.2.2.2 - r.2.2.1) ∈ HabConsts.knownAppOffsets ∧ r.2.2.2 % 16 = 0 := by
  decide

/-! ## 2. nonce length -/

/-- the nonce length as a function of the data size is a legal CCM nonce length (7..13) and leaves a length field
    (`15 - nonce length` bytes) that can hold the size — for every size a 32-bit image can have -/
theorem nonce_len_spec (n : Nat) :
    7 ≤ nonceLenN n ∧ nonceLenN n ≤ 13 ∧ (n < 2 ^ 32 → n < 256 ^ (15 - nonceLenN n)) := by
  rw [nonceLenN_cases]
  have e2 : (256 : Nat) ^ (15 - 13) = 65536 := by decide
  have e3 : (256 : Nat) ^ (15 - 12) = 16777216 := by decide
  have e4 : (256 : Nat) ^ (15 - 11) = 4294967296 := by decide
  have e32 : (2 : Nat) ^ 32 = 4294967296 := by decide
  by_cases h1 : n < 65536
  · rw [if_pos h1]
    refine ⟨by omega, by omega, ?_⟩
    intro _; rw [e2]; exact h1
  · rw [if_neg h1]
    by_cases h2 : n < 16777216
    · rw [if_pos h2]
      refine ⟨by omega, by omega, ?_⟩
      intro _; rw [e3]; exact h2
    · rw [if_neg h2]
      refine ⟨by omega, by omega, ?_⟩
      intro h; rw [e4]; omega

/-- the builder draws the nonce for the length of the whole image prefix, which is never shorter than what is encrypted -/
theorem nonce_len_covers_data (imgLen dataLen : Nat) (h : dataLen ≤ imgLen) (h32 : imgLen < 2 ^ 32) :
    dataLen < 256 ^ (15 - nonceLenN imgLen) :=
  Nat.lt_of_le_of_lt h ((nonce_len_spec imgLen).2.2 h32)

/-! ## 3. AES-CCM inverts -/

/-- MAC lengths the CSF segment accepts: 4, 6, …, 16 -/
theorem mac_len_accepted (n : Nat) : macLenOk n = true ↔ 4 ≤ n ∧ n ≤ 16 ∧ n % 2 = 0 := macLenOk_iff n

/-- ciphertext ‖ MAC as `CsfHabSegment.encrypt` splits it decrypts (and authenticates) to the plaintext — every DEK
    (128/192/256 bit or anything else), nonce, accepted MAC length and plaintext -/
theorem ccm_restores (cr : CryptoOps) (h : CryptoLaws cr) (dek nonce plain : Misc.Bytes) (macLen : Nat)
    (hm : macLenOk macLen = true) :
    let e := ccmEnc cr dek nonce [] macLen plain
    (e.take plain.length).length = plain.length ∧ (e.drop plain.length).length = macLen ∧
    ccmDec cr dek nonce [] macLen (e.take plain.length ++ e.drop plain.length) = some plain := by
  have ht : macLen ≤ 16 := ((macLenOk_iff macLen).1 hm).2.1
  have hl := ccmEnc_length h dek nonce [] macLen plain ht
  intro e
  refine ⟨by simp [e, hl], by simp [e, hl], ?_⟩
  rw [List.take_append_drop]
  exact ccm_inv h dek nonce [] macLen plain ht

/-! ## 4. CSF commands -/

/-- every command the builder can emit decodes to itself, whatever follows it -/
theorem csf_cmd_roundtrip (c : Cmd) (rest : Misc.Bytes) (h : c.WF) :
    Cmd.decode (c.encode ++ rest) = some c ∧ c.encode.length = c.size :=
  ⟨decode_encode c rest h, encode_length c⟩

/-- a whole CSF segment parses back into its commands (data references refreshed) and their data blocks, and
    re-exports to the same bytes -/
theorem csf_segment_roundtrip (version : Nat) (cmds : List CsfCmd) (h : CsfWF version cmds) :
    parseCsf (csfBytes version cmds) = .ok (version, assignLocs (csfHdrLen cmds) cmds) ∧
    csfBytes version (assignLocs (csfHdrLen cmds) cmds) = csfBytes version cmds ∧
    (csfBytes version cmds).length = HabConsts.csfSize :=
  ⟨parseCsf_csfBytes version cmds h, csfBytes_assignLocs version cmds, csfBytes_length version cmds h⟩

/-- XMCD header: export then parse gives the fields back and re-exports to the same four bytes
    (with `interface << 4 + instance` in `XMCDHeader.export` this is false for every instance ≠ 0) -/
theorem xmcd_header_roundtrip (x : Misc.Bytes) (h : XmcdWF x) :
    xmcdLoad x = .ok x ∧ ∀ pre rest, pre.length = HabConsts.xmcdSegOffset → parseXmcd (pre ++ x ++ rest) = .ok (some x) :=
  ⟨xmcdLoad_id x h, fun pre rest hp => parseXmcd_at x pre rest h hp⟩

/-! ## 5. layout: the IVT points at what is there -/

/-- positions and sizes: every pointer of the IVT designates the place where the structure really is in the exported
    image, and the boot-data length is the real size (from the image start address; plus the key blob for encrypted images) -/
theorem ivt_points (c : Cfg) (b : Built) (h : c.WF) (happ : b.app.length = c.appBin.length)
    (hcsf : c.hasCsf = true → (csfBytes c.version b.cmds).length = HabConsts.csfSize) :
    let img := exportImage c b
    img.take 32 = c.ivt.encode ∧ c.ivt.self = c.start + c.ivtOff ∧ c.ivt.entry = c.entry ∧
    c.ivt.bdt = c.ivt.self + 32 ∧ slice img (c.ivt.bdt - c.ivt.self) 12 = c.bdt.encode ∧
    (∀ d, c.dcd = some d → c.ivt.dcd = c.ivt.self + 64 ∧ slice img (c.ivt.dcd - c.ivt.self) d.length = d) ∧
    (c.dcd = none → c.ivt.dcd = 0) ∧
    (∀ x, c.xmcd = some x → slice img HabConsts.xmcdSegOffset x.length = x) ∧
    c.appOff = c.ils - c.ivtOff ∧ slice img c.appOff b.app.length = b.app ∧
    (c.hasCsf = true → c.ivt.csf = c.ivt.self + c.csfOff ∧ c.appOff + b.app.length ≤ c.csfOff ∧
        slice img (c.ivt.csf - c.ivt.self) HabConsts.csfSize = csfBytes c.version b.cmds ∧
        img.length = c.csfOff + HabConsts.csfSize) ∧
    (c.hasCsf = false → c.ivt.csf = 0 ∧ img.length = c.appOff + b.app.length) ∧
    c.bdt.start = c.start ∧ c.bdt.plugin = 0 ∧
    c.bdt.length = c.ivtOff + img.length + (if isEnc c.flags then HabConsts.keyblobSize else 0) :=
  ivt_points_lemma c b h happ hcsf

/-- the DEK blob the Install Secret Key command points at lies directly behind the CSF (= behind the image) -/
theorem secret_key_behind_csf (c : Cfg) (h : c.WF) :
    secretKeyLocN c.ils c.app.length c.start = c.start + c.ivtOff + c.csfOff + HabConsts.csfSize :=
  secret_key_loc_lemma c h

/-! ## 6. the block lists cover everything that is loaded -/

/-- signed ∪ encrypted blocks: each inside the image before the CSF with address = start address + offset, ascending and
    pairwise disjoint, and they contain IVT + boot data, the DCD, the XMCD block and the whole (16-byte padded) application -/
theorem blocks_cover (c : Cfg) (h : c.WF) (ha : c.flags ≠ 0) :
    let bl := c.allBlocks
    (∀ b ∈ bl, b.base = c.start + b.start ∧ c.ivtOff ≤ b.start ∧ b.start + b.size ≤ c.ivtOff + c.csfOff) ∧
    bl.Pairwise (fun a b => a.start + a.size ≤ b.start) ∧
    (∃ b ∈ bl, b.covers c.ivtOff 64) ∧
    (∀ d, c.dcd = some d → ∃ b ∈ bl, b.covers (c.ivtOff + 64) d.length) ∧
    (∀ x, c.xmcd = some x → ∃ b ∈ bl, b.covers (c.ivtOff + 64) x.length) ∧
    (∃ b ∈ bl, b.covers (c.ivtOff + c.appOff) c.appBin.length) :=
  blocks_cover_lemma c h ha

/-! ## 7. what is signed -/

/-- the re-sign loop, modelled with fuel, terminates whenever two consecutive signature blocks have the same 4-aligned
    size (`k`-th and `k+1`-th state of the unrolled loop, `k` below the fuel).
    Full strength ("terminates for every signer") is false: a signer whose aligned signature size alternates makes the
    Python `while updated:` loop spin forever; see `sign_loop_can_diverge`. -/
theorem sign_loop_terminates_partial (s : Signer) (version fuel i : Nat) (cmds : List CsfCmd)
    (h0 : (getAut 0 cmds).isSome) (k : Nat) (hk : k < fuel)
    (hst : autSize (signIter s version (k + 1) i cmds) = autSize (signIter s version k i cmds)) :
    (signLoop s version fuel i cmds).isSome :=
  signLoop_terminates s version fuel i cmds h0 k hk hst

/-- when the loop stops, the installed CSF signature is over exactly the header + commands that are exported -/
theorem sign_loop_result (s : Signer) (version fuel i : Nat) (cmds cmds' : List CsfCmd) (n : Nat)
    (h : signLoop s version fuel i cmds = some (cmds', n)) :
    0 < n ∧ ∃ cmd, getAut 0 cmds' = some cmd ∧
      cmd.data = some (sigBlob version (s.csf (n - 1) (csfBase version cmds'))) :=
  signLoop_result s version fuel i cmds cmds' n h

/-- Authenticate CSF: the signed message is exactly the first `header.length` bytes of the exported CSF
    (header + commands, nothing else), and the command's data block is the signature over it -/
theorem auth_csf_msg (cr : CryptoOps) (s : Signer) (fuel : Nat) (c : Cfg) (b : Built)
    (hb : build cr s fuel c = some b) (hc : c.hasCsf = true) (ha : isAuth c.flags = true) :
    b.msgCsf = csfBase c.version b.cmds ∧
    (csfBytes c.version b.cmds).take (csfHdrLen b.cmds) = b.msgCsf ∧
    0 < b.attempts ∧
    ∃ cmd, getAut 0 b.cmds = some cmd ∧ cmd.data = some (sigBlob c.version (s.csf (b.attempts - 1) b.msgCsf)) :=
  auth_csf_lemma cr s fuel c b hb hc ha

/-- Authenticate Data: the signed message is exactly the concatenation of the listed blocks cut out of the FINAL padded
    image (encryption and signing that happen after the bytes were collected do not touch them), the command lists
    exactly these blocks, and its data block is the signature over that message -/
theorem auth_data_msg (cr : CryptoOps) (s : Signer) (fuel : Nat) (c : Cfg) (b : Built) (h : c.WF)
    (hb : build cr s fuel c = some b) (ha : c.flags ≠ 0) :
    b.msgData = blocksData (imagePadded c b.app (some (csfBytes c.version b.cmds))) c.signedBlocks ∧
    ∃ c0, getAut 1 c.cmds = some c0 ∧
      getAut 1 b.cmds = some { cmd := c0.cmd.addBlocks (blockPairs c.signedBlocks),
                               data := some (sigBlob c.version (s.data b.msgData)) } :=
  auth_data_lemma cr s fuel c b h hb ha

/-- encrypted container: the Decrypt Data command lists exactly the encrypted blocks, its MAC block carries the nonce
    and the MAC, and AES-CCM decryption of the listed blocks of the FINAL image restores the (padded) application -/
theorem enc_restores (cr : CryptoOps) (s : Signer) (fuel : Nat) (c : Cfg) (b : Built) (h : c.WF)
    (hb : build cr s fuel c = some b) (he : c.flags = 12) (hl : CryptoLaws cr) (hm : macLenOk c.macLen = true) :
    ∃ mac c0, mac.length = c.macLen ∧ getAut 2 c.cmds = some c0 ∧
      getAut 2 b.cmds = some { cmd := c0.cmd.addBlocks (blockPairs c.encryptedBlocks),
                               data := some (macBlob c.version c.nonce mac) } ∧
      ccmDec cr c.dek c.nonce [] c.macLen
        (blocksData (imagePadded c b.app (some (csfBytes c.version b.cmds))) c.encryptedBlocks ++ mac) = some c.appBin :=
  enc_restores_lemma cr s fuel c b h hb he hl hm

/-! ## 8. round trip -/

/-- layout-level round trip: `parse (export) = ok (segments)` for every well-formed configuration, given for a container
    with a CSF that the CSF lists the application block (`build` guarantees it: `hab_roundtrip_signed`), and for an
    unsigned container that the reset-vector heuristic finds the application (`hvis`; `hab_roundtrip_unsigned`).

    Full strength for UNSIGNED images (without `hvis`) is FALSE on the current code — `HabContainer.parse` has nothing but
    a reset-vector heuristic to locate the application of an image without CSF (known finding
    C07-parse-app-offset-guess, refuted by `roundtrip_needs_visible_app`):

    theorem hab_roundtrip : c.WF → … → parse (exportImage c b) = .ok (expectedParse c b) -/
theorem hab_roundtrip_partial (c : Cfg) (b : Built) (h : c.WF)
    (hd : ∀ d, c.dcd = some d → DcdWF d) (hx : ∀ x, c.xmcd = some x → XmcdWF x)
    (happ : b.app.length = c.appBin.length)
    (hc : c.hasCsf = true → CsfWF c.version b.cmds ∧ (getAut 2 b.cmds).isSome = isEnc c.flags ∧
      csfAppBlock b.cmds = some (c.start + c.ivtOff + c.appOff, c.appBin.length))
    (hvis : c.hasCsf = false → findAppOffset (exportImage c b) c.entry HabConsts.knownAppOffsets = some c.appOff) :
    parse (exportImage c b) = .ok (expectedParse c b) :=
  hab_roundtrip_lemma c b h hd hx happ hc hvis

/-- **signed and encrypted containers round-trip unconditionally** (full strength): whatever `build` produces from a
    well-formed authenticated / encrypted configuration parses back into exactly its segments — IVT, boot data, DCD /
    XMCD, the CSF with all commands and data blocks, and the application (ciphertext when encrypted) taken from the block
    the CSF lists.  No hypothesis about the application contents. -/
theorem hab_roundtrip_signed (cr : CryptoOps) (hl : CryptoLaws cr) (s : Signer) (fuel : Nat) (c : Cfg) (b : Built)
    (h : c.WF) (ha : c.flags ≠ 0) (hb : build cr s fuel c = some b)
    (hd : ∀ d, c.dcd = some d → DcdWF d) (hx : ∀ x, c.xmcd = some x → XmcdWF x)
    (hm : macLenOk c.macLen = true) (hw : CsfWF c.version b.cmds)
    (h2 : (getAut 2 b.cmds).isSome = isEnc c.flags) :
    parse (exportImage c b) = .ok (expectedParse c b) := by
  have hcsf : c.hasCsf = true := by rw [h.csf]; simpa using ha
  exact hab_roundtrip_partial c b h hd hx (build_app_length cr hl s fuel c b h hb ha hm)
    (fun _ => ⟨hw, h2, build_app_block cr s fuel c b h hb ha hl hm h2⟩)
    (fun hh => by rw [hcsf] at hh; cases hh)

/-- the hypothesis of `hab_roundtrip_partial` follows from the DECIDABLE predicate `AppVisible` on the configuration (and the
    final application bytes): the second application word passes the reset-vector test, no earlier probed offset does -/
theorem app_visible (c : Cfg) (b : Built) (h : c.WF) (happ : b.app.length = c.appBin.length)
    (hcsf : c.hasCsf = true → (csfBytes c.version b.cmds).length = HabConsts.csfSize) (hv : AppVisible c b.app) :
    findAppOffset (exportImage c b) c.entry HabConsts.knownAppOffsets = some c.appOff :=
  app_visible_lemma c b h happ hcsf hv

/-- `AppVisible` covers every image whose reset vector lies in the heuristic window: DCD / XMCD short enough to end
    before the first probed word (`FrontQuiet`: ≤ 0xC4 bytes), an application of at least 8 bytes whose second word is odd,
    non-zero and in `[entry - 0x400, entry + image length)` -/
theorem app_visible_of_vector (c : Cfg) (app : Misc.Bytes) (h : c.WF) (hq : c.FrontQuiet) (h8 : 8 ≤ app.length)
    (hodd : leDec (slice app 4 4) % 2 = 1)
    (hlo : (c.entry : Int) - HabConsts.resetVectorWindow ≤ leDec (slice app 4 4))
    (hhi : leDec (slice app 4 4) < c.entry + c.imgLen) : AppVisible c app := by
  refine ⟨by rw [appOff_eq]; exact h.appOffKnown, h8, ?_, fun o ho hlt => front_quiet_lemma c h hq o ho hlt⟩
  have hne : leDec (slice app 4 4) ≠ 0 := by omega
  simp [vectorOk, hne, hlo, hhi, hodd]

/-- **unsigned containers round-trip under a decidable hypothesis on the configuration**: every well-formed plain
    container whose application is visible in the sense of `AppVisible` parses back into its segments -/
theorem hab_roundtrip_unsigned (c : Cfg) (b : Built) (h : c.WF) (h0 : c.flags = 0)
    (hd : ∀ d, c.dcd = some d → DcdWF d) (hx : ∀ x, c.xmcd = some x → XmcdWF x)
    (happ : b.app.length = c.appBin.length) (hv : AppVisible c b.app) :
    parse (exportImage c b) = .ok (expectedParse c b) := by
  have hcsf : c.hasCsf = false := by rw [h.csf, h0]; rfl
  exact hab_roundtrip_partial c b h hd hx happ (fun hh => by rw [hcsf] at hh; cases hh)
    (fun _ => app_visible c b h happ (fun hh => by rw [hcsf] at hh; cases hh) hv)

/-! ## 8b. the ROM accepts what the builder exports -/

/-- **`rom_accepts`**: for every well-formed authenticated / encrypted configuration with the standard command list
    (`StdCfg`: Install SRK, Install CSFK, Authenticate CSF, [Set / Unlock / NOP]*, Install Key, Authenticate Data,
    [Install Secret Key, Decrypt Data]) the INDEPENDENT ROM-side reader `Spec.HabRom.habCheck` accepts the exported image
    — every pointer, size, data reference, key slot, block list, coverage of every non-zero byte in front of the CSF, the
    DEK blob location, the MAC block — and what it derives is what the builder signed and encrypted: the message of the
    CSF signature is `b.msgCsf`, the message of the data signature is `b.msgData`, and (encrypted, every `c` with
    `CryptoLaws c`) AES-CCM decryption of the listed blocks with DEK, nonce and MAC out of the CSF gives the padded
    application.  CMS is the abstract `Signer`; `hentry`: the entry point lies inside the application. -/
theorem rom_accepts (cr : CryptoOps) (hl : CryptoLaws cr) (sg : Signer) (fuel : Nat) (c : Cfg) (b : Built) (s : StdCsf)
    (h : c.WF) (hs : StdCfg c s) (ha : c.flags ≠ 0) (hb : build cr sg fuel c = some b)
    (hfit : CsfWF c.version b.cmds)
    (hd : ∀ d, c.dcd = some d → DcdWF d) (hx : ∀ x, c.xmcd = some x → XmcdWF x)
    (hm : macLenOk c.macLen = true) (hn : 7 ≤ c.nonce.length ∧ c.nonce.length ≤ 13) (hver : c.version / 16 = 4)
    (hentry : c.start + c.ils ≤ c.entry ∧ c.entry < c.start + c.ils + c.appBin.length) :
    ∃ r, Spec.HabRom.habCheck cr (exportImage c b) (if isEnc c.flags then some c.dek else none) = .ok r ∧
      r.msgCsf = b.msgCsf ∧ r.msgData = b.msgData ∧ r.plain = (if isEnc c.flags then some c.appBin else none) ∧
      r.csfOff = c.csfOff ∧ r.hdrLen = csfHdrLen b.cmds ∧ r.authBlocks = offs c.ivtOff c.signedBlocks ∧
      r.decBlocks = (if isEnc c.flags then offs c.ivtOff c.encryptedBlocks else []) :=
  rom_accepts_lemma cr hl sg fuel c b s h hs ha hb hfit hd hx hm hn hver hentry

/-- **`rom_accepts_general`** (phase 3): the same for HAB4 FAST AUTHENTICATION (`fast = true`: `Install NOCAK` in the
    configuration — no CSF / image certificate is installed, the CSF is authenticated with key index 1 and the data with
    index 0, the SRK itself; also with Install Secret Key / Decrypt Data) and for NON-STANDARD but legal command orders:
    any number of Set / Unlock / NOP commands in EVERY gap of the mandatory chain, any data references as loaded (`L0`) (`weave gaps …`: in front of Install
    SRK, between any two mandatory commands, behind the last one), `GenCfg` (`Model/HabGen.lean`).  The reader accepts, derives exactly
    the two signed messages, the block lists and the AES-CCM plaintext, and reports the installed keys: the SRK source
    index of the configuration, a CSF and an image certificate iff the chain is the standard one. -/
theorem rom_accepts_general (cr : CryptoOps) (hl : CryptoLaws cr) (sg : Signer) (fuel : Nat) (c : Cfg) (b : Built)
    (s : StdCsf) (fast : Bool) (gaps : List (List Cmd)) (L0 : Nat → Nat)
    (h : c.WF) (hs : GenCfg c s fast gaps L0) (ha : c.flags ≠ 0) (hb : build cr sg fuel c = some b)
    (hfit : CsfWF c.version b.cmds)
    (hd : ∀ d, c.dcd = some d → DcdWF d) (hx : ∀ x, c.xmcd = some x → XmcdWF x)
    (hm : macLenOk c.macLen = true) (hn : 7 ≤ c.nonce.length ∧ c.nonce.length ≤ 13) (hver : c.version / 16 = 4)
    (hentry : c.start + c.ils ≤ c.entry ∧ c.entry < c.start + c.ils + c.appBin.length) :
    ∃ r, Spec.HabRom.habCheck cr (exportImage c b) (if isEnc c.flags then some c.dek else none) = .ok r ∧
      r.msgCsf = b.msgCsf ∧ r.msgData = b.msgData ∧ r.plain = (if isEnc c.flags then some c.appBin else none) ∧
      r.csfOff = c.csfOff ∧ r.hdrLen = csfHdrLen b.cmds ∧ r.authBlocks = offs c.ivtOff c.signedBlocks ∧
      r.decBlocks = (if isEnc c.flags then offs c.ivtOff c.encryptedBlocks else []) ∧
      r.srk.map (·.2.2) = some s.srkSrc ∧ r.csfCert.isSome = !fast ∧ r.imgCert.isSome = !fast :=
  rom_accepts_general_lemma cr hl sg fuel c b s fast gaps L0 h hs ha hb hfit hd hx hm hn hver hentry

/-- the executable recogniser the model driver runs on EVERY signed configuration the harness generates (stream
    `images`, answer `shape=std|fast`): when it answers, the hypothesis `GenCfg` of `rom_accepts_general` holds for that
    configuration — the theorem speaks about the command lists `CsfHabSegment.load_from_config` really produces -/
theorem gen_shape_sound (c : Cfg) (s : StdCsf) (fast : Bool) (gaps : List (List Cmd)) (L0 : Nat → Nat)
    (h : genShape c = some (s, fast, gaps, L0)) : GenCfg c s fast gaps L0 :=
  genShape_sound_lemma c s fast gaps L0 h

/-- the standard shape of `rom_accepts` is the instance "standard chain, extras only between Authenticate CSF and
    Install Key" of the general one -/
theorem std_cfg_general (c : Cfg) (s : StdCsf) (hs : StdCfg c s) : GenCfg c s false [[], [], [], s.extras] (fun _ => 0) :=
  { cmds := by rw [hs.cmds]; simp [weave, mainList, mainStd, StdCsf.core, StdCsf.list],
    gaps := by
      intro g hg e he
      simp only [List.mem_cons, List.not_mem_nil, or_false] at hg
      rcases hg with rfl | rfl | rfl | rfl
      · cases he
      · cases he
      · cases he
      · exact hs.extras e he,
    srkSrc := hs.srkSrc, imgSlot := hs.imgSlot, kek := hs.kek, keySlot := hs.keySlot, srkBlob := hs.srkBlob,
    csfCert := hs.csfCert, imgCert := hs.imgCert }

/-- … and an unsigned container passes the layout checks of the reader (pointers, boot-data length, entry point) -/
theorem rom_accepts_plain (cr : CryptoOps) (c : Cfg) (b : Built) (h : c.WF) (h0 : c.flags = 0)
    (happ : b.app.length = c.appBin.length)
    (hd : ∀ d, c.dcd = some d → DcdWF d) (hx : ∀ x, c.xmcd = some x → XmcdWF x)
    (hentry : c.start + c.ivtOff ≤ c.entry ∧ c.entry < c.start + c.ils + c.appBin.length) :
    ∃ r, Spec.HabRom.habCheck cr (exportImage c b) none = .ok r ∧ r.csfOff = 0 ∧ r.ivtSelf = c.start + c.ivtOff ∧
      r.start = c.start :=
  ⟨_, rom_accepts_plain_lemma cr c b h h0 happ hd hx hentry, rfl, rfl, rfl⟩

/-! ## 8c. (phase 3) outside the hypotheses: oversize CSF, unaligned initial load size, plugin flag -/

/-- **CSF larger than CSF_SIZE (0x2000)** — precise statement of what the builder does (the hypothesis `CsfWF … ≤ csfSize`
    of `rom_accepts` / `ivt_points` is NECESSARY): `CsfHabSegment.export()` pads to a multiple of CSF_SIZE while
    `CsfHabSegment.size` stays CSF_SIZE, so the exported CSF is ≥ 2·CSF_SIZE, the image is that much longer, and the
    boot-data length is SHORT by exactly the overflow — the clause "boot-data length equal to the real size" fails
    (and the ROM-side reader refuses: `csfOff + 0x2000 ≠ image length`). -/
theorem csf_oversize_bootdata_short (c : Cfg) (b : Built) (h : c.WF) (ha : c.flags ≠ 0)
    (happ : b.app.length = c.appBin.length)
    (hbig : HabConsts.csfSize < (csfBase c.version b.cmds ++ encData b.cmds).length) :
    (exportImage c b).length = c.csfOff + (csfBytes c.version b.cmds).length ∧
    2 * HabConsts.csfSize ≤ (csfBytes c.version b.cmds).length ∧
    c.bdt.length + ((csfBytes c.version b.cmds).length - HabConsts.csfSize) =
      c.ivtOff + (exportImage c b).length + (if isEnc c.flags then HabConsts.keyblobSize else 0) :=
  csf_oversize_lemma c b h ha happ hbig

/-- **initial load size not 16-byte aligned** — `Cfg.WF.ils16` is necessary for "application in front of the CSF":
    the CSF offset aligns `ils + len(app)` while the application is padded from `ils`; with `ils = 0xFFE` and a one-byte
    application the padded application (ends at 0x100E) overruns the CSF offset 0x1000.  For aligned `ils` it never
    does (`Proofs/HabLayout.lean: app_before_csf`, part of `ivt_points`). -/
theorem ils_alignment_needed : ∃ ils n : Nat, ils % 16 ≠ 0 ∧ csfAbs (ils + n) < ils + alignUp n 16 :=
  ⟨0xFFE, 1, by decide, by decide⟩

/-- **plugin images**: the builder has no plugin option — the boot data of every built container has plugin flag 0
    (also in `ivt_points`); the parser keeps a plugin flag 0..2 it reads (`bdt_roundtrip` below) -/
theorem no_plugin_images (c : Cfg) : c.bdt.plugin = 0 := rfl

end SpsdkVerif.C07

/-! ## 9. non-vacuity, sanity checks and refutations of the full-strength statements -/
namespace SpsdkVerif.C07
open SpsdkVerif SpsdkVerif.Hab SpsdkVerif.Misc SpsdkVerif.Generated

/-- 16-byte application: stack pointer, reset vector `rv`, two more words -/
def exApp (rv : Nat) : Misc.Bytes := le32 0x20001000 ++ le32 rv ++ le32 0xDEADBEEF ++ le32 0x12345678

/-- a plain container (serial-downloader like layout: IVT offset 0, application at 0x100) -/
def exPlain (rv : Nat) : Cfg :=
  { flags := 0, start := 0x20200000, ivtOff := 0, ils := 0x100, entry := 0x20200109, dcd := none, xmcd := none,
    app := exApp rv, version := 0x40, cmds := [], dek := [], nonce := [], macLen := 16 }

def exBuilt (c : Cfg) : Built := { app := c.appBin, cmds := [], msgData := [], msgCsf := [], attempts := 0 }

theorem exPlain_wf (rv : Nat) : (exPlain rv).WF :=
  { flags := Or.inl rfl, csf := rfl, ivtLe := by show 0 ≤ 0x100; decide, ils16 := by show 0x100 % 16 = 0; decide,
    appOffKnown := by show 0x100 - 0 ∈ HabConsts.knownAppOffsets; decide,
    notBoth := Or.inl rfl, dcdFits := fun d h => (by cases h), xmcdFits := fun x h => (by cases h),
    addr := by
      have : (exPlain rv).app.length = 16 := by simp [exPlain, exApp]
      rw [this]
      show 0x20200000 + csfAbs (0x100 + 16) + 0x2000 + 0x200 < 2 ^ 32
      decide,
    entry := by show 0x20200109 < 2 ^ 32; decide, nonzero := by show 0 < 0x20200000 + 0; decide }

/-- the builder model really produces this container -/
example (cr : Crypto.CryptoOps) :
    build cr ⟨fun _ => [], fun _ _ => []⟩ 4 (exPlain 0x20200109) = some (exBuilt (exPlain 0x20200109)) := rfl

/-- the round trip theorem applies (its hypotheses are satisfiable) and its conclusion is checked by evaluation -/
example : parse (exportImage (exPlain 0x20200109) (exBuilt (exPlain 0x20200109)))
    = .ok (expectedParse (exPlain 0x20200109) (exBuilt (exPlain 0x20200109))) :=
  hab_roundtrip_partial _ _ (exPlain_wf _) (fun d h => by cases h) (fun x h => by cases h) rfl
    (fun h => by cases h) (fun _ => by decide +kernel)

/-- **Refutation of the unconditional round trip for unsigned images** (known finding C07-parse-app-offset-guess): a well-formed plain
    container whose second application word is even — `parse` does not find the application and raises -/
theorem roundtrip_needs_visible_app :
    ∃ c : Cfg, c.WF ∧ parse (exportImage c (exBuilt c)) ≠ .ok (expectedParse c (exBuilt c)) :=
  ⟨exPlain 0x20200108, exPlain_wf _, by decide +kernel⟩

/-- a signer whose signature size alternates between two 4-aligned sizes -/
def altSigner : Signer := ⟨fun _ => [], fun i _ => List.replicate (4 + 4 * (i % 2)) 0⟩

/-- **Refutation of unconditional termination**: with `altSigner` the re-sign loop exhausts every fuel
    (the Python `while updated:` loop would not return) -/
theorem sign_loop_can_diverge (fuel i : Nat) (d : Misc.Bytes) (hd : d.length % 4 = 0)
    (hne : d.length ≠ 8 + 4 * (i % 2)) :
    signLoop altSigner 0x40 fuel i [⟨.autDat 0 1 0xC5 0 0 0 [], some d⟩] = none := by
  induction fuel generalizing i d with
  | zero => rfl
  | succ fuel ih =>
    have hnew : (sigBlob 0x40 (altSigner.csf i (csfBase 0x40 [⟨.autDat 0 1 0xC5 0 0 0 [], some d⟩]))).length
        = 8 + 4 * (i % 2) := by
      simp [sigBlob, altSigner]; omega
    have h1 : autSize [⟨.autDat 0 1 0xC5 0 0 0 [], some d⟩] = d.length := by
      simp [autSize, getAut, isAut]; exact alignUp_of_mod _ _ (by decide) hd
    have h2 : autSize (resign altSigner 0x40 i [⟨.autDat 0 1 0xC5 0 0 0 [], some d⟩]) = 8 + 4 * (i % 2) := by
      simp only [autSize, resign, mapAut, getAut, isAut, ↓reduceIte, Option.getD_some]
      rw [hnew]; exact alignUp_of_mod _ _ (by decide) (by omega)
    unfold signLoop
    have h0 : (getAut 0 [(⟨.autDat 0 1 0xC5 0 0 0 [], some d⟩ : CsfCmd)]).isNone = false := by
      simp [getAut, isAut]
    rw [h0, h1, h2]
    simp only [Bool.false_eq_true, ↓reduceIte]
    rw [if_neg (by omega)]
    simp only [resign, mapAut, isAut, ↓reduceIte]
    apply ih
    · rw [hnew]; omega
    · rw [hnew]; omega

/-- … while for a signer with a stable size two passes are enough (the RSA case) -/
example : (signLoop ⟨fun _ => [], fun _ _ => List.replicate 256 7⟩ 0x40 2 0
    [⟨.autDat 0 1 0xC5 0 0 0 [], some (sigBlob 0x40 [])⟩]).map (·.2) = some 2 := by decide +kernel

/-- sanity: the CSF offset for the RT10xx flexspi_nor layout and a 4 KiB − 1 / 4 KiB application -/
example : csfOffsetN 0x2000 4095 0x1000 = 0x2000 ∧ csfOffsetN 0x2000 4096 0x1000 = 0x3000 := by
  constructor <;> rw [csfOffsetN_eq] <;> decide

/-- sanity: an Install Key / Authenticate Data / Unlock command round trip by evaluation -/
example : Cmd.decode ((Cmd.autDat 0 2 0xC5 0 0 0x7EC [(0x30001000, 64), (0x30002000, 4096)]).encode ++ [1, 2, 3])
    = some (.autDat 0 2 0xC5 0 0 0x7EC [(0x30001000, 64), (0x30002000, 4096)]) := by decide
example : Cmd.decode (Cmd.unlock 0x21 0b1001 0x0123456789ABCDEF).encode = some (.unlock 0x21 0b1001 0x0123456789ABCDEF) := by
  decide

/-! ### a concrete standard authenticated container: the hypotheses of `rom_accepts` are satisfiable, its conclusion by evaluation -/

def exS : StdCsf :=
  { srkAlg := 0x17, srkSrc := 1, srkBlob := hdr 0xD7 8 0x40 ++ [1, 2, 3, 4], csfkAlg := 0, csfCert := hdr 0xD7 8 0x42 ++ [5, 6, 7, 8],
    engCsf := 0, cfgCsf := 0, extras := [.unlock 0x1E 2 0], imgAlg := 0, imgSlot := 2, imgCert := hdr 0xD7 6 0x42 ++ [9, 10],
    engDat := 0, cfgDat := 0, skAlg := 0, kek := 0, keySlot := 0, engDec := 0, cfgDec := 0 }

def exAuth : Cfg :=
  { flags := 8, start := 0x20200000, ivtOff := 0, ils := 0x100, entry := 0x20200109, dcd := none, xmcd := none,
    app := exApp 0x20200109, version := 0x42,
    cmds := exS.list (fun _ => 0) (sigBlob 0x42 []) [] (sigBlob 0x42 []) none, dek := [], nonce := [], macLen := 16 }

def exSigner : Signer := ⟨fun _ => [0xAA, 0xBB, 0xCC], fun _ _ => [0xDD, 0xEE, 0xFF, 0x11, 0x22]⟩

theorem exAuth_builds : (build Crypto.execOps exSigner 4 exAuth).isSome = true := by decide +kernel

def exB : Built := (build Crypto.execOps exSigner 4 exAuth).get exAuth_builds

theorem exAuth_wf : exAuth.WF :=
  { flags := Or.inr (Or.inl rfl), csf := rfl, ivtLe := by show 0 ≤ 0x100; decide, ils16 := by show 0x100 % 16 = 0; decide,
    appOffKnown := by show 0x100 - 0 ∈ HabConsts.knownAppOffsets; decide,
    notBoth := Or.inl rfl, dcdFits := fun d h => (by cases h), xmcdFits := fun x h => (by cases h),
    addr := by
      have : exAuth.app.length = 16 := by simp [exAuth, exApp]
      rw [this]
      show 0x20200000 + csfAbs (0x100 + 16) + 0x2000 + 0x200 < 2 ^ 32
      decide,
    entry := by show 0x20200109 < 2 ^ 32; decide, nonzero := by show 0 < 0x20200000 + 0; decide }

theorem exAuth_std : StdCfg exAuth exS :=
  { cmds := rfl, extras := by decide, srkSrc := by decide, imgSlot := by decide, kek := by decide, keySlot := by decide,
    srkBlob := ⟨0x40, [1, 2, 3, 4], by decide, by decide⟩, csfCert := ⟨0x42, [5, 6, 7, 8], by decide, by decide⟩,
    imgCert := ⟨0x42, [9, 10], by decide, by decide⟩ }

/-- the conclusion of `rom_accepts` on this container, by evaluation: the reader accepts and reports the two messages -/
example : (match Spec.HabRom.habCheck Crypto.execOps (exportImage exAuth exB) none with
    | .ok r => r.msgCsf == exB.msgCsf && r.msgData == exB.msgData && r.csfOff == exAuth.csfOff
    | .error _ => false) = true := by decide +kernel

/-! ### a concrete FAST-AUTHENTICATION container with extras in every gap: the hypotheses of `rom_accepts_general` are
    satisfiable, its conclusion by evaluation -/

/-- NOP in front of Install SRK, Unlock between Install SRK and Authenticate CSF, nothing between Authenticate CSF and
    Authenticate Data, Set + NOP behind Authenticate Data -/
def exGaps : List (List Cmd) := [[.nop 0], [.unlock 0x1E 2 0], [], [.set 1 0x17 0xFF 0, .nop 7]]

def exFast : Cfg :=
  { exAuth with cmds := weave exGaps (mainList true exS (fun _ => 0) (sigBlob 0x42 []) [] (sigBlob 0x42 []) none) }

theorem exFast_gen : GenCfg exFast exS true exGaps (fun _ => 0) :=
  { cmds := rfl, gaps := by decide, srkSrc := by decide, imgSlot := by decide, kek := by decide, keySlot := by decide,
    srkBlob := ⟨0x40, [1, 2, 3, 4], by decide, by decide⟩, csfCert := ⟨0x42, [5, 6, 7, 8], by decide, by decide⟩,
    imgCert := ⟨0x42, [9, 10], by decide, by decide⟩ }

theorem exFast_wf : exFast.WF :=
  { flags := Or.inr (Or.inl rfl), csf := by decide, ivtLe := by show 0 ≤ 0x100; decide, ils16 := by show 0x100 % 16 = 0; decide,
    appOffKnown := by show 0x100 - 0 ∈ HabConsts.knownAppOffsets; decide,
    notBoth := Or.inl rfl, dcdFits := fun d h => (by cases h), xmcdFits := fun x h => (by cases h),
    addr := by
      have : exFast.app.length = 16 := by simp [exFast, exAuth, exApp]
      rw [this]
      show 0x20200000 + csfAbs (0x100 + 16) + 0x2000 + 0x200 < 2 ^ 32
      decide,
    entry := by show 0x20200109 < 2 ^ 32; decide, nonzero := by show 0 < 0x20200000 + 0; decide }

theorem exFast_builds : (build Crypto.execOps exSigner 4 exFast).isSome = true := by decide +kernel

def exFB : Built := (build Crypto.execOps exSigner 4 exFast).get exFast_builds

/-- the conclusion of `rom_accepts_general` on this container, by evaluation: the reader accepts, reports the two
    messages, SRK source index 1 and NO installed certificate (fast authentication) -/
example : (match Spec.HabRom.habCheck Crypto.execOps (exportImage exFast exFB) none with
    | .ok r => r.msgCsf == exFB.msgCsf && r.msgData == exFB.msgData && r.csfOff == exFast.csfOff &&
               r.csfCert.isNone && r.imgCert.isNone && r.srk.map (·.2.2) == some 1
    | .error _ => false) = true := by decide +kernel

/-- the hypotheses of `csf_oversize_bootdata_short` are satisfiable: the standard container with a 9000-byte SRK table -/
example : HabConsts.csfSize < (csfBase exAuth.version [⟨.insKey 0 3 0 0 0 0, some (List.replicate 9000 0)⟩] ++
    encData [⟨.insKey 0 3 0 0 0 0, some (List.replicate 9000 0)⟩]).length := by decide +kernel

/-- the recogniser answers on the two concrete containers (hypothesis of `gen_shape_sound` satisfiable) -/
example : (genShape exFast).map (fun r => (r.2.1, r.2.2.1)) = some (true, exGaps) ∧
    (genShape exAuth).map (fun r => (r.2.1, r.2.2.1)) = some (false, [[], [], [], [.unlock 0x1E 2 0], [], []]) ∧
    genShape (exPlain 1) = none := by decide +kernel

/-- `GenCfg` with `fast = false` is inhabited too: the standard container above -/
example : GenCfg exAuth exS false [[], [], [], exS.extras] (fun _ => 0) := std_cfg_general _ _ exAuth_std

end SpsdkVerif.C07

namespace SpsdkVerif.C07
open SpsdkVerif SpsdkVerif.Hab SpsdkVerif.Generated
open SpsdkVerif.HabDcd (DCmd dcdEncode dcdParse dcdLen bdtEncode bdtParse)

/-! ## 10. (phase 3) Write Data / Check Data / Initialize, `parse_command` over all command classes, DCD segment, boot data -/

/-- the command tags, the tag set `parse_command` dispatches on, `SegDCD._COMMANDS`, the engine tags, the accepted
    byte widths, the constants of the parameter byte and the Initialize limit of the current source are the ones
    `Model/HabDcd.lean` is written against -/
theorem dcd_tags_agree :
    HabConsts.cmdTags.lookup "WRT_DAT" = some HabDcd.Spec.cmdWRT_DAT ∧
    HabConsts.cmdTags.lookup "CHK_DAT" = some HabDcd.Spec.cmdCHK_DAT ∧
    HabConsts.cmdTags.lookup "INIT" = some HabDcd.Spec.cmdINIT ∧
    (∀ t, t ∈ HabConsts.cmdTags.map Prod.snd ↔ t ∈ HabDcd.Spec.cmdTags) ∧
    (∀ t, t ∈ HabConsts.cmdDispatch.map Prod.fst ↔ t ∈ HabDcd.Spec.cmdTags) ∧
    (∀ t, t ∈ HabConsts.dcdCommands ↔ t ∈ HabDcd.Spec.dcdCommands) ∧
    (∀ t, t ∈ HabConsts.engines.map Prod.snd ↔ t ∈ HabDcd.Spec.engineTags) ∧
    HabConsts.wrtDatWidths = HabDcd.Spec.widths ∧ HabConsts.chkDatWidths = HabDcd.Spec.widths ∧
    HabConsts.initLimit = HabDcd.Spec.initLimit ∧
    HabConsts.writeOps.map Prod.snd = [2, 3, 1, 0] ∧ HabConsts.checkOps.map Prod.snd = [0, 1, 2, 3] := by
  refine ⟨by decide, by decide, by decide, ?_, ?_, ?_, ?_, by decide, by decide, by decide, by decide, by decide⟩ <;>
    (intro t; simp only [HabConsts.cmdTags, HabConsts.cmdDispatch, HabConsts.dcdCommands, HabConsts.engines,
      HabDcd.Spec.cmdTags, HabDcd.Spec.dcdCommands, HabDcd.Spec.engineTags, List.map, List.mem_cons,
      List.not_mem_nil, or_false] <;> omega)

/-- struct formats (normalised field lists) of the pack / unpack_from calls and the parameter byte
    `((ops & 3) << 3) | (width & 7)` -/
theorem dcd_formats_agree :
    HabConsts.wrtDatPack.map Prod.fst = [">II"] ∧ HabConsts.wrtDatUnpack.map (·.1) = [">II"] ∧
    HabConsts.chkDatPack.map Prod.fst = [">II", ">I"] ∧ HabConsts.chkDatUnpack.map (·.1) = [">II", ">I"] ∧
    HabConsts.initPack.map Prod.fst = [">I"] ∧ HabConsts.initUnpack.map (·.1) = [">I"] ∧
    HabConsts.headerFormat = ">BHB" ∧ HabConsts.bdtFormat = "<III" ∧
    HabConsts.wrtDatParamConsts = [3, 3, 7] ∧ HabConsts.chkDatParamConsts = [3, 3, 7] ∧
    (∀ w o, HabDcd.parByte w o = ((o &&& 3) <<< 3) ||| (w &&& 7)) := by
  refine ⟨by decide, by decide, by decide, by decide, by decide, by decide, by decide, by decide, by decide,
    by decide, ?_⟩
  intro w o
  have h1 : o &&& 3 = o % 4 := Nat.and_two_pow_sub_one_eq_mod o 2
  have h2 : w &&& 7 = w % 8 := Nat.and_two_pow_sub_one_eq_mod w 3
  have h3 : (o % 4) <<< 3 = 2 ^ 3 * (o % 4) := by rw [Nat.shiftLeft_eq, Nat.mul_comm]
  have h4 : w % 8 < 2 ^ 3 := Nat.mod_lt _ (by decide)
  rw [h1, h2, h3, ← Nat.two_pow_add_eq_or_of_lt h4]
  unfold HabDcd.parByte
  omega

/-- every command class `parse_command` knows: `parse_command(cmd.export() ‖ anything) = cmd` and
    `cmd.size = len(cmd.export())`, for every value the constructors accept (all lengths of Write Data / Initialize /
    Authenticate Data lists up to the 16-bit header length) -/
theorem dcd_cmd_roundtrip (c : DCmd) (rest : Bytes) (h : c.WF) :
    DCmd.decode (c.encode ++ rest) = some c ∧ c.encode.length = c.size :=
  HabDcd.dcmd_roundtrip c rest h

/-- `SegDCD.parse(SegDCD.export() ‖ anything)` returns the parameter byte and the command list, for every list of
    well-formed Write Data / Check Data / NOP / Unlock commands whose total length fits the 16-bit header field -/
theorem dcd_segment_roundtrip (p : Nat) (cmds : List DCmd) (rest : Bytes) (hp : p < 256)
    (hw : ∀ c ∈ cmds, c.WF) (hd : ∀ c ∈ cmds, c.inDcd = true) (hl : dcdLen cmds < 65536) :
    dcdParse (dcdEncode p cmds ++ rest) = .ok (p, cmds) :=
  HabDcd.dcd_segment_roundtrip p cmds rest hp hw hd hl

/-- an exported DCD segment is a DCD block in the sense of the container theorems (`Cfg.dcd`, `DcdWF`) -/
theorem dcd_export_wf (p : Nat) (cmds : List DCmd) (hp : p < 256) (hx : p ≠ 0xC0)
    (hw : ∀ c ∈ cmds, c.WF) (hl : dcdLen cmds < 65536) : DcdWF (dcdEncode p cmds) :=
  HabDcd.dcd_export_wf p cmds hp hx hw hl

/-- `SegBDT.parse(SegBDT.export()) = (start, length, plugin)` -/
theorem bdt_roundtrip (s l p : Nat) (rest : Bytes) (hs : s < 2 ^ 32) (hl : l < 2 ^ 32) (hp : p ≤ 2) :
    bdtParse (bdtEncode s l p ++ rest) = .ok (s, l, p) :=
  HabDcd.bdt_roundtrip_aux s l p rest hs hl hp

/-- Check Data with poll count 0 round-trips (defect C07-checkdata-zero-count, fixed by 8656d83: before, 16 bytes were
    exported under a header length of 12 and the count was lost; reverting the fix breaks `dcd_cmd_roundtrip` for
    `count = some 0` in the correspondence and the oracle).  `DCmd.WF` now admits every count `< 2 ^ 32`, so this is an
    instance of `dcd_cmd_roundtrip`, kept as the explicit statement of the repaired case.  Likewise (6f0b9cd)
    `CmdInitialize(engine, data)` builds the same object as `append` does: `DCmd.init e data` for every word list. -/
theorem checkdata_zero_count_roundtrip (w o a m : Nat) (hw : w ∈ HabDcd.Spec.widths) (ho : o < 4) (ha : a < 2 ^ 32)
    (hm : m < 2 ^ 32) (rest : Bytes) :
    (DCmd.checkData w o a m (some 0)).size = 16 ∧ (DCmd.checkData w o a m (some 0)).encode.length = 16 ∧
    DCmd.decode ((DCmd.checkData w o a m (some 0)).encode ++ rest) = some (.checkData w o a m (some 0)) :=
  HabDcd.checkData_zero_count_roundtrip w o a m hw ho ha hm rest

/-! non-vacuity and sanity -/
def exDcdCmds : List DCmd :=
  [.writeData 4 0 [(0x400FC068, 0xFFFFFFFF), (0x400FC06C, 0)], .writeData 1 3 [], .checkData 2 1 0x401F8000 0x0101 none,
   .checkData 4 3 0xFFFFFFFF 1 (some 0), .other (.nop 0), .other (.unlock 0x1E 1 0)]

example : ∀ c ∈ exDcdCmds, c.WF := by
  intro c hc
  simp only [exDcdCmds, List.mem_cons, List.not_mem_nil, or_false] at hc
  rcases hc with rfl | rfl | rfl | rfl | rfl | rfl
  · exact ⟨by decide, by decide, by decide, by intro p hp; simp at hp; rcases hp with rfl | rfl <;> decide⟩
  · exact ⟨by decide, by decide, by decide, by intro p hp; cases hp⟩
  · exact ⟨by decide, by decide, by decide, by decide, by intro c hc; cases hc⟩
  · exact ⟨by decide, by decide, by decide, by decide, by intro c hc; cases hc; decide⟩
  · exact ⟨show (0 : Nat) < 256 by decide, by decide⟩
  · exact ⟨⟨by decide, by decide, by decide, by intro _; rfl⟩, by decide⟩
example : (∀ c ∈ exDcdCmds, c.inDcd = true) ∧ dcdLen exDcdCmds < 65536 := by decide
example : (DCmd.init 0x1D [1, 0xFFFFFFFE]).WF := ⟨by decide, by decide, by decide⟩
example : dcdParse (dcdEncode 0x41 exDcdCmds) = .ok (0x41, exDcdCmds) := by decide
example : (dcdEncode 0x41 exDcdCmds).length = 68 ∧ (dcdEncode 0x41 exDcdCmds).take 8 = [0xD2, 0, 68, 0x41, 0xCC, 0, 20, 4] := by decide
example : DCmd.decode [0xB4, 0, 12, 0x1D, 0, 0, 0, 1, 0xFF, 0xFF, 0xFF, 0xFE] = some (.init 0x1D [1, 0xFFFFFFFE]) := by decide
example : DCmd.decodeR [0xB4, 0, 8, 0x1D, 0xFF, 0xFF, 0xFF, 0xFF] = .error .spsdk := by decide   -- Initialize refuses 0xFFFFFFFF
example : DCmd.decodeR [0xCC, 0, 4, 3] = .error .spsdk := by decide                                -- width 3
example : DCmd.decodeR [0xCC, 0, 12, 4, 0, 0, 0, 1] = .error .other := by decide                   -- truncated pair
example : dcdParse (dcdEncode 0x41 [.init 0 []]) = .error .spsdk := by decide                      -- Initialize is not a DCD command
example : bdtParse (bdtEncode 0x60000000 0x5000 0) = .ok (0x60000000, 0x5000, 0) := by decide
example : bdtParse (bdtEncode 0 0 3) = .error .spsdk := by decide

end SpsdkVerif.C07
