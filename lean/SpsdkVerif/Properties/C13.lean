/-
C13 — Flash encryption (OTFAD, IEE, BEE): the hardware decrypts what SPSDK encrypts.

Model: Model/FlashEnc.lean — SOFTWARE side as coded in spsdk/utils/crypto/otfad.py, iee.py, spsdk/image/bee.py
(with proposed_fixes/C13-1..4), HARDWARE side written independently from the engine descriptions; everything over
an abstract `c : CryptoOps`.  Tied to /repo by harness/props/C13.py (correspondence on generated images / blobs /
regions, and the compiled hardware model applied to SPSDK's own ciphertext and exported key blobs).
Specification vocabulary: Proofs/FlashEncDefs.lean.  Helper lemmas: Proofs/FlashEnc{Common,Otfad,KeyBlob,Iee,Bee}.lean.

Every theorem holds for EVERY `c` with `CryptoLaws c` (all keys, counters, images, lengths, addresses): no AES needed.
-/
import SpsdkVerif.Proofs.FlashEncOtfad
import SpsdkVerif.Proofs.FlashEncKeyBlob
import SpsdkVerif.Proofs.FlashEncIee
import SpsdkVerif.Proofs.FlashEncIeeX
import SpsdkVerif.Proofs.FlashEncBee
import SpsdkVerif.Proofs.FlashEncBeeHdr
import SpsdkVerif.Proofs.FlashEncSb21

namespace SpsdkVerif.C13
open SpsdkVerif SpsdkVerif.Crypto SpsdkVerif.FlashEnc
open SpsdkVerif.Misc (beEnc beDec leEnc leDec)
open SpsdkVerif.Generated.FlashEncConsts

variable {c : CryptoOps}

/-! ## The source constants equal the engine-side values the hardware model is written with -/

theorem consts_agree :
    otfadStartAddrMask = 0x3FF ∧ otfadEndAddrMask = 0x3F8 ∧ otfadKeyFlagMask = 7 ∧ otfadFlagRO = 4 ∧ otfadFlagADE = 2
    ∧ otfadFlagVLD = 1 ∧ otfadKeySize = 16 ∧ otfadCtrSize = 8 ∧ otfadExportIvSize = 8 ∧ otfadExportNBlocks = 5
    ∧ otfadExportBlobSize = 64 ∧ otfadEncBlockSize = 16 ∧ otfadDataUnit = 1024 ∧ otfadWrappedLen = 40
    ∧ otfadTableAlign = 256
    ∧ otfadCtrIncrement = 16
    ∧ ieeLock = 0x95 ∧ ieeUnlock = 0x59 ∧ ieeKey128 = 0x5A ∧ ieeKey256 = 0xA5 ∧ ieeModeBypass = 0x6A ∧ ieeModeXts = 0xA6
    ∧ ieeModeCtrAddr = 0x66 ∧ ieeModeCtrNoAddr = 0xAA ∧ ieeModeCtrKeystream = 0x19
    ∧ ieeHeaderTag = 0x49454542 ∧ ieeKeyblobVersion = 0x56010000 ∧ ieeXtsBlockSize = 4096 ∧ ieeEncBlockSize = 16
    ∧ ieeDataUnit = 4096 ∧ ieeKeyBlobsSize = 384 ∧ ieeKeyFieldSize = 32
    ∧ beeEncrBlockSize = 1024 ∧ beeFacRegions = 4
    ∧ beeTagL = 0x5F474154 ∧ beeTagH = 0x52444845 ∧ beeVersion = 0x56010000 ∧ beePrdbSize = 0x100
    ∧ beeHdrPrdbOffset = 0x80 ∧ beeHdrSize = 0x200 ∧ beeModeCtr = 1
    ∧ crcMpegParams = Crc.crc32Mpeg2 := by
  decide

/-! ## OTFAD -/

/-- The context registers the ROM gets from a well-formed key blob describe exactly the blob's address window
    (`start … (end-1) | 0x3FF`, for the inclusive `0x…3FF` and the exclusive `0x…400` way of writing the end alike)
    and its VLD / ADE flags, key and counter. -/
theorem otfad_ctx_range (kb : KeyBlob) (h : kb.WF) (a : Nat) :
    kb.ctx.hit a = (kb.vld && kb.containsAddr a) ∧ kb.ctx.ade = kb.adeFlag ∧ kb.ctx.key = kb.key ∧ kb.ctx.ctr = kb.ctr :=
  FlashEnc.otfad_ctx_range kb h a

/-- `Otfad.encrypt_image` computes, for ANY 16-byte aligned base address, the block-wise specification: every
    16-byte block is a function of (key material, absolute address, plaintext block) only. -/
theorem otfad_refines_spec (h : CryptoLaws c) (bs : List KeyBlob) (hwf : ∀ kb ∈ bs, kb.WF) (hd : BlobsDisjoint bs)
    (base : Nat) (hb : base % 16 = 0) (img : Bytes) (swap : Bool) :
    Otfad.encryptImage c bs img base swap = .ok (otfadSpecImage c bs swap base img) :=
  FlashEnc.otfad_refines_spec h bs hwf hd base hb img swap

/-- The hardware decrypts what SPSDK encrypts: the engine, programmed with the contexts of the same key blobs,
    reads the plaintext back from the encrypted image (the image may have grown by the zero padding of a short
    last block that lies inside a region). -/
theorem otfad_hw_inverts (h : CryptoLaws c) (bs : List KeyBlob) (hwf : ∀ kb ∈ bs, kb.WF) (hd : BlobsDisjoint bs)
    (base : Nat) (hb : base % 16 = 0) (img : Bytes) (swap : Bool) :
    ∃ ct, Otfad.encryptImage c bs img base swap = .ok ct ∧
      (otfadHwReadAll c (bs.map KeyBlob.ctx) swap base ct).take img.length = img ∧
      img.length ≤ ct.length ∧ ct.length ≤ (img.length + 15) / 16 * 16 := by
  refine ⟨_, FlashEnc.otfad_refines_spec h bs hwf hd base hb img swap, ?_, ?_⟩
  · exact FlashEnc.otfad_spec_hw h bs hwf hd base hb img swap
  · exact FlashEnc.otfad_spec_length h bs base img swap

/-- … and leaves every byte outside the windows of the encrypting (ADE∧VLD) blobs untouched. -/
theorem otfad_untouched_outside (h : CryptoLaws c) (bs : List KeyBlob) (hwf : ∀ kb ∈ bs, kb.WF) (hd : BlobsDisjoint bs)
    (base : Nat) (hb : base % 16 = 0) (img : Bytes) (swap : Bool) :
    ∃ ct, Otfad.encryptImage c bs img base swap = .ok ct ∧
      ∀ i, i < img.length → (∀ kb ∈ bs, kb.isEncrypted = true → kb.containsAddr (base + i) = false) → ct[i]? = img[i]? :=
  ⟨_, FlashEnc.otfad_refines_spec h bs hwf hd base hb img swap,
    fun i hi hout => FlashEnc.otfad_spec_outside h bs hwf base hb img swap i hi hout⟩

/-- Position independence: encrypting a large image at once equals encrypting its pieces at their addresses
    (any split point that is a multiple of 16 bytes — in particular of 1 KiB). -/
theorem otfad_position_indep (h : CryptoLaws c) (bs : List KeyBlob) (hwf : ∀ kb ∈ bs, kb.WF) (hd : BlobsDisjoint bs)
    (base : Nat) (hb : base % 16 = 0) (p q : Bytes) (hp : p.length % 16 = 0) (swap : Bool) :
    ∃ a b, Otfad.encryptImage c bs p base swap = .ok a ∧ Otfad.encryptImage c bs q (base + p.length) swap = .ok b ∧
      Otfad.encryptImage c bs (p ++ q) base swap = .ok (a ++ b) := by
  refine ⟨_, _, FlashEnc.otfad_refines_spec h bs hwf hd base hb p swap,
    FlashEnc.otfad_refines_spec h bs hwf hd (base + p.length) (by omega) q swap, ?_⟩
  rw [FlashEnc.otfad_refines_spec h bs hwf hd base hb (p ++ q) swap, FlashEnc.otfad_spec_append bs swap base p q hp]

/-- One exported 64-byte key-blob entry unwraps on the ROM side (undo the byte reversal, RFC 3394 unwrap with the
    KEK) to the configured key, counter, start address, end address with flags — with a valid CRC. -/
theorem keyblob_unwraps (h : CryptoLaws c) (kb : KeyBlob) (hwf : kb.WF) (hz : kb.zeroFill.length = 4) (hc : kb.crcFill = [])
    (kek : Bytes) (hk : kek.length = 16) (n : Nat) (hn : n ∈ [0, 2, 4, 8, 16]) (rnd : Bytes) :
    ∃ e, kb.export c kek n rnd = .ok e ∧ e.length = 64 ∧ otfadUnwrapEntry c kek n e = some (kb.ctx, true) :=
  FlashEnc.keyblob_unwraps h kb hwf hz hc kek hk n hn rnd

/-- KEK scrambling is an involution (the engine unscrambles with the same mask / alignment selector). -/
theorem scramble_inv (kek : Bytes) (hk : kek.length = 16) (mask align : Nat) (rev : Bool) (i : Nat) :
    scrambleKek (scrambleKek kek mask align rev i) mask align rev i = kek :=
  FlashEnc.scramble_inv kek hk mask align rev i

/-- The whole exported key-blob table unwraps, entry `i` with the KEK scrambled for index `i`. -/
theorem otfad_table_unwraps (h : CryptoLaws c) (bs : List KeyBlob)
    (hwf : ∀ kb ∈ bs, kb.WF ∧ kb.zeroFill.length = 4 ∧ kb.crcFill = [])
    (kek : Bytes) (hk : kek.length = 16) (scr : Option (Nat × Nat))
    (hscr : ∀ m a, scr = some (m, a) → m < 2 ^ 32 ∧ a < 2 ^ 8) (rev : Bool) (n : Nat) (hn : n ∈ [0, 2, 4, 8, 16]) (rnd : Bytes) :
    ∃ t, Otfad.encryptKeyBlobs c bs kek scr rev n rnd = .ok t ∧ t.length % 256 = 0 ∧
      otfadUnwrapTable c kek scr rev n bs.length 0 t = bs.map (fun kb => some (kb.ctx, true)) :=
  FlashEnc.otfad_table_unwraps h bs hwf kek hk scr hscr rev n hn rnd

/-! ## IEE -/

theorem iee_refines_spec (h : CryptoLaws c) (bs : List IeeBlob) (hwf : ∀ b ∈ bs, b.WF) (hd : IeeDisjoint bs)
    (base : Nat) (hb : base % 4096 = 0) (img : Bytes) :
    Iee.encryptImage c bs img base = .ok (ieeSpecImage c bs base img) :=
  FlashEnc.iee_refines_spec h bs hwf hd base hb img

/-- AES-XTS 256/512: the engine (tweak = page number, little endian) returns the plaintext of a page. -/
theorem iee_xts_inverts (h : CryptoLaws c) (b : IeeBlob) (hwf : b.WF) (hm : b.mode = .xts) (a : Nat) (ha : a % 4096 = 0)
    (hin : b.start ≤ a ∧ a < b.end_) (d : Bytes) (hd : d.length ≤ 4096) :
    (ieeHwPage c [b.ctx] a (b.encPage c a d)).take d.length = d :=
  FlashEnc.iee_xts_page h b hwf hm a ha hin d hd

/-- AES-CTR 128/256 with address binding. -/
theorem iee_ctr_inverts (h : CryptoLaws c) (b : IeeBlob) (hwf : b.WF) (hm : b.mode = .ctrAddr) (a : Nat) (ha : a % 4096 = 0)
    (hin : b.start ≤ a ∧ a < b.end_) (d : Bytes) (hd : d.length ≤ 4096) :
    (ieeHwPage c [b.ctx] a (b.encPage c a d)).take d.length = d :=
  FlashEnc.iee_ctr_page h b hwf hm a ha hin d hd

/-- Whole image, 1..n pairwise disjoint regions in the claimed modes (XTS, CTR with address binding, bypass). -/
theorem iee_hw_inverts (h : CryptoLaws c) (bs : List IeeBlob) (hwf : ∀ b ∈ bs, b.WF ∧ b.claimed) (hd : IeeDisjoint bs)
    (base : Nat) (hb : base % 4096 = 0) (img : Bytes) :
    ∃ ct, Iee.encryptImage c bs img base = .ok ct ∧
      (ieeHwReadAll c (bs.map IeeBlob.ctx) base ct).take img.length = img ∧
      img.length ≤ ct.length ∧ ct.length ≤ (img.length + 15) / 16 * 16 := by
  refine ⟨_, FlashEnc.iee_refines_spec h bs (fun b hb' => (hwf b hb').1) hd base hb img, ?_, ?_⟩
  · exact FlashEnc.iee_spec_hw h bs hwf hd base hb img
  · exact FlashEnc.iee_spec_length h bs base img

/-- Bytes in no region — or in a bypass region — are left as they are. -/
theorem iee_untouched_outside (h : CryptoLaws c) (bs : List IeeBlob) (hwf : ∀ b ∈ bs, b.WF) (hd : IeeDisjoint bs)
    (base : Nat) (hb : base % 4096 = 0) (img : Bytes) :
    ∃ ct, Iee.encryptImage c bs img base = .ok ct ∧
      ∀ i, i < img.length → (∀ b ∈ bs, b.mode ≠ .bypass → ¬ (b.start ≤ base + i ∧ base + i < b.end_)) → ct[i]? = img[i]? :=
  ⟨_, FlashEnc.iee_refines_spec h bs hwf hd base hb img,
    fun i hi hout => FlashEnc.iee_spec_outside h bs hwf base hb img i hi hout⟩

theorem iee_position_indep (h : CryptoLaws c) (bs : List IeeBlob) (hwf : ∀ b ∈ bs, b.WF) (hd : IeeDisjoint bs)
    (base : Nat) (hb : base % 4096 = 0) (p q : Bytes) (hp : p.length % 4096 = 0) :
    ∃ a b, Iee.encryptImage c bs p base = .ok a ∧ Iee.encryptImage c bs q (base + p.length) = .ok b ∧
      Iee.encryptImage c bs (p ++ q) base = .ok (a ++ b) := by
  refine ⟨_, _, FlashEnc.iee_refines_spec h bs hwf hd base hb p,
    FlashEnc.iee_refines_spec h bs hwf hd (base + p.length) (by omega) q, ?_⟩
  rw [FlashEnc.iee_refines_spec h bs hwf hd base hb (p ++ q), FlashEnc.iee_spec_append bs base p q hp]

/-- The encrypted key-blob area decrypts with the IBKEKs and parses back (header tag, version, CRC checked) to the
    configured key size, mode, page offset, keys and address range. -/
theorem iee_keyblobs_unwrap (h : CryptoLaws c) (bs : List IeeBlob) (hne : bs ≠ []) (hwf : ∀ b ∈ bs, b.WF)
    (k1 k2 : Bytes) (hk1 : k1.length = 32) (hk2 : k2.length = 32) (hk : k1 ≠ k2) (addr : Nat) :
    ∃ t, Iee.encryptKeyBlobs c bs k1 k2 addr = .ok t ∧
      ieeUnwrapTable c k1 k2 addr bs.length t = bs.map (fun b => some b.ctx) :=
  FlashEnc.iee_keyblobs_unwrap h bs hne hwf k1 k2 hk1 hk2 hk addr

/-- A data blob made of several segments (S-record / HEX / ELF input, nested image): for EVERY list of segments at 4 KiB
    aligned addresses, `export_image` succeeds, keeps every address, and the engine reads every segment back at ITS own
    absolute address ("pieces at their addresses"). -/
theorem iee_segments_invert (h : CryptoLaws c) (bs : List IeeBlob) (hwf : ∀ b ∈ bs, b.WF ∧ b.claimed) (hd : IeeDisjoint bs) :
    ∀ (segs : List (Nat × Bytes)), (∀ sg ∈ segs, sg.1 % 4096 = 0) →
      ∃ out, Iee.exportSegments c bs segs = .ok out ∧ out.map (·.1) = segs.map (·.1) ∧
        ∀ p ∈ out.zip segs, (ieeHwReadAll c (bs.map IeeBlob.ctx) p.2.1 p.1.2).take p.2.2.length = p.2.2
  | [], _ => ⟨[], rfl, rfl, by simp⟩
  | (a, d) :: rest, hal => by
    obtain ⟨ct, h1, h2, _⟩ := iee_hw_inverts h bs hwf hd a (hal (a, d) List.mem_cons_self) d
    obtain ⟨out, o1, o2, o3⟩ := iee_segments_invert h bs hwf hd rest (fun sg hs => hal sg (List.mem_cons_of_mem _ hs))
    refine ⟨(a, ct) :: out, ?_, ?_, ?_⟩
    · simp only [Iee.exportSegments, h1, o1]
    · simp [o2]
    · intro p hp
      rw [List.zip_cons_cons] at hp
      rcases List.mem_cons.mp hp with hp | hp
      · subst hp; exact h2
      · exact o3 p hp

/-! ## BEE -/

theorem bee_refines_spec (h : CryptoLaws c) (hs : List (Option BeeEngine)) (hwf : ∀ e ∈ beeEngines hs, e.WF)
    (hd : BeeDisjoint (beeEngines hs)) (base : Nat) (hb : base % 16 = 0) (img : Bytes) :
    Bee.exportImage c hs img base = .ok (beeSpecImage c (beeEngines hs) base img) :=
  FlashEnc.bee_refines_spec h hs hwf hd base hb img

theorem bee_inverts (h : CryptoLaws c) (hs : List (Option BeeEngine)) (hwf : ∀ e ∈ beeEngines hs, e.WF)
    (hd : BeeDisjoint (beeEngines hs)) (base : Nat) (hb : base % 16 = 0) (img : Bytes) :
    ∃ ct, Bee.exportImage c hs img base = .ok ct ∧
      (beeHwReadAll c (beeEngines hs) base ct).take img.length = img ∧
      img.length ≤ ct.length ∧ ct.length ≤ (img.length + 15) / 16 * 16 := by
  refine ⟨_, FlashEnc.bee_refines_spec h hs hwf hd base hb img, ?_, ?_⟩
  · exact FlashEnc.bee_spec_hw h _ base img
  · exact FlashEnc.bee_spec_length h _ base img

theorem bee_untouched_outside (h : CryptoLaws c) (hs : List (Option BeeEngine)) (hwf : ∀ e ∈ beeEngines hs, e.WF)
    (hd : BeeDisjoint (beeEngines hs)) (base : Nat) (hb : base % 16 = 0) (img : Bytes) :
    ∃ ct, Bee.exportImage c hs img base = .ok ct ∧
      ∀ i, i < img.length → (∀ e ∈ beeEngines hs, ∀ f ∈ e.facs, f.hit (base + i) = false) → ct[i]? = img[i]? :=
  ⟨_, FlashEnc.bee_refines_spec h hs hwf hd base hb img,
    fun i hi hout => FlashEnc.bee_spec_outside h _ hwf base hb img i hi hout⟩

theorem bee_position_indep (h : CryptoLaws c) (hs : List (Option BeeEngine)) (hwf : ∀ e ∈ beeEngines hs, e.WF)
    (hd : BeeDisjoint (beeEngines hs)) (base : Nat) (hb : base % 16 = 0) (p q : Bytes) (hp : p.length % 16 = 0) :
    ∃ a b, Bee.exportImage c hs p base = .ok a ∧ Bee.exportImage c hs q (base + p.length) = .ok b ∧
      Bee.exportImage c hs (p ++ q) base = .ok (a ++ b) := by
  refine ⟨_, _, FlashEnc.bee_refines_spec h hs hwf hd base hb p,
    FlashEnc.bee_refines_spec h hs hwf hd (base + p.length) (by omega) q, ?_⟩
  rw [FlashEnc.bee_refines_spec h hs hwf hd base hb (p ++ q), FlashEnc.bee_spec_append _ base p q hp]

/-! ## Counters -/

/-- The 128-bit big-endian increment `cryptography`'s CTR mode applies to `nonce ‖ BE32(v)` never carries into the
    nonce while `v + j < 2^32` … -/
theorem counter_carry (nonce : Bytes) (hn : nonce.length = 12) (v j : Nat) (hv : v + j < 2 ^ 32) :
    ctrBlock (nonce ++ beEnc 4 v) j = nonce ++ beEnc 4 (v + j) :=
  FlashEnc.counter_carry nonce hn v j hv

/-- … which is the case for every 16-byte block of a 1 KiB BEE unit at a 32-bit address (counter word = address >> 4). -/
theorem counter_carry_bee (a j : Nat) (ha : a < 2 ^ 32) (hj : j < 64) : a / 16 + j < 2 ^ 32 := by omega

/-- OTFAD: the counter block of the 16-byte block at a 32-bit address `a` is `CTR ‖ CTR_W0^CTR_W1 ‖ BE32(a)` — the
    address occupies the low word, nothing is added to the nonce part; hardware and software agree on it. -/
theorem counter_otfad (kb : KeyBlob) (h : kb.WF) (a : Nat) (ha : a % 16 = 0) :
    counterValue kb.ctrNonce a = kb.ctx.counter a := by
  have hc := h.ctr_len
  have h1 : (kb.ctr.drop 4).take 4 = kb.ctr.drop 4 := List.take_of_length_le (by simp; omega)
  have h12 : (kb.ctr.take 4 ++ kb.ctr.drop 4 ++ xorBytes (kb.ctr.take 4) (kb.ctr.drop 4)).length = 12 := by
    simp [List.length_take, List.length_drop]; omega
  have ha' : a / 16 * 16 = a := by omega
  simp only [counterValue, KeyBlob.ctrNonce, OtfadCtx.counter, KeyBlob.ctx, h1, ha']
  rw [List.take_left' h12, List.drop_left' h12]
  simp [zeros, beDec]

/-! ## Phase 2: end-to-end statements (engine programmed from what SPSDK EXPORTS), BEE region header, SB2.1, constructor -/

theorem ctxs_of_table (l : List KeyBlob) :
    (l.map (fun kb => some (kb.ctx, true))).filterMap (fun o => o.map (·.1)) = l.map KeyBlob.ctx := by
  induction l with
  | nil => rfl
  | cons x t ih => simp [ih]

/-- OTFAD end to end: the engine whose contexts the ROM unwraps from the EXPORTED key-blob table (KEK, scrambling, byte
    reversal) reads the plaintext back from the encrypted image. -/
theorem otfad_end_to_end (h : CryptoLaws c) (bs : List KeyBlob)
    (hwf : ∀ kb ∈ bs, kb.WF ∧ kb.zeroFill.length = 4 ∧ kb.crcFill = []) (hd : BlobsDisjoint bs)
    (kek : Bytes) (hk : kek.length = 16) (scr : Option (Nat × Nat))
    (hscr : ∀ m a, scr = some (m, a) → m < 2 ^ 32 ∧ a < 2 ^ 8) (rev : Bool) (n : Nat) (hn : n ∈ [0, 2, 4, 8, 16]) (rnd : Bytes)
    (base : Nat) (hb : base % 16 = 0) (img : Bytes) (swap : Bool) :
    ∃ t ct, Otfad.encryptKeyBlobs c bs kek scr rev n rnd = .ok t ∧ Otfad.encryptImage c bs img base swap = .ok ct ∧
      (otfadHwReadAll c ((otfadUnwrapTable c kek scr rev n bs.length 0 t).filterMap (fun o => o.map (·.1))) swap base ct).take
        img.length = img := by
  obtain ⟨t, ht, _, hu⟩ := otfad_table_unwraps h bs hwf kek hk scr hscr rev n hn rnd
  obtain ⟨ct, hct, hr, _⟩ := otfad_hw_inverts h bs (fun kb hkb => (hwf kb hkb).1) hd base hb img swap
  refine ⟨t, ct, ht, hct, ?_⟩
  rw [hu, ctxs_of_table]
  exact hr

theorem filterMap_id_map_some {α β : Type} (f : α → β) (l : List α) :
    (l.map (fun x => some (f x))).filterMap id = l.map f := by
  induction l with
  | nil => rfl
  | cons x t ih => simp [ih]

/-- IEE end to end: the engine whose regions the ROM parses from the EXPORTED (XTS-encrypted) key-blob area reads the
    plaintext back from the encrypted image. -/
theorem iee_end_to_end (h : CryptoLaws c) (bs : List IeeBlob) (hne : bs ≠ []) (hwf : ∀ b ∈ bs, b.WF ∧ b.claimed)
    (hd : IeeDisjoint bs) (k1 k2 : Bytes) (hk1 : k1.length = 32) (hk2 : k2.length = 32) (hk : k1 ≠ k2) (addr : Nat)
    (base : Nat) (hb : base % 4096 = 0) (img : Bytes) :
    ∃ t ct, Iee.encryptKeyBlobs c bs k1 k2 addr = .ok t ∧ Iee.encryptImage c bs img base = .ok ct ∧
      (ieeHwReadAll c ((ieeUnwrapTable c k1 k2 addr bs.length t).filterMap id) base ct).take img.length = img := by
  obtain ⟨t, ht, hu⟩ := iee_keyblobs_unwrap h bs hne (fun b hb' => (hwf b hb').1) k1 k2 hk1 hk2 hk addr
  obtain ⟨ct, hct, hr, _⟩ := iee_hw_inverts h bs hwf hd base hb img
  refine ⟨t, ct, ht, hct, ?_⟩
  rw [hu, filterMap_id_map_some]
  exact hr

/-- The exported 0x200-byte BEE region header (EKIB = AES-ECB(SW key, KIB), EPRDB = AES-CBC(KIB key, KIB IV, PRDB))
    decrypts and parses on the ROM side to the configured SW key, counter and FAC regions. -/
theorem bee_header_unwraps (hl : CryptoLaws c) (h : BeeHdr) (hw : h.WF) :
    ∃ b, h.export c = .ok b ∧ b.length = 512 ∧ beeHeaderUnwrap c h.engine.key b = some h.engine :=
  FlashEnc.bee_header_unwraps hl h hw

/-- BEE end to end: every exported region header parses back to its engine, and these engines read the plaintext
    back from the encrypted image. -/
theorem bee_end_to_end (h : CryptoLaws c) (hdrs : List BeeHdr) (hwf : ∀ x ∈ hdrs, x.WF)
    (hd : BeeDisjoint (hdrs.map (·.engine))) (base : Nat) (hb : base % 16 = 0) (img : Bytes) :
    (∀ x ∈ hdrs, ∃ b, x.export c = .ok b ∧ beeHeaderUnwrap c x.engine.key b = some x.engine) ∧
    ∃ ct, Bee.exportImage c (hdrs.map (fun x => some x.engine)) img base = .ok ct ∧
      (beeHwReadAll c (hdrs.map (·.engine)) base ct).take img.length = img := by
  have he : beeEngines (hdrs.map (fun x => some x.engine)) = hdrs.map (·.engine) := by
    unfold beeEngines; exact filterMap_id_map_some _ hdrs
  constructor
  · intro x hx
    obtain ⟨b, h1, _, h3⟩ := FlashEnc.bee_header_unwraps h x (hwf x hx)
    exact ⟨b, h1, h3⟩
  · have hwf' : ∀ e ∈ beeEngines (hdrs.map (fun x => some x.engine)), e.WF := by
      rw [he]; intro e hm
      obtain ⟨x, hx, rfl⟩ := List.mem_map.mp hm
      exact (hwf x hx).eng
    obtain ⟨ct, h1, h2, _⟩ := bee_inverts h (hdrs.map (fun x => some x.engine)) hwf' (by rw [he]; exact hd) base hb img
    exact ⟨ct, h1, by rw [he] at h2; exact h2⟩

/-- The `KeyBlob` constructor accepts exactly the well-formed blobs (key 16 bytes, counter 8 bytes, aligned start,
    `start ≤ end < 2^32`, flags within the mask) — for blobs that can be exported (`end = 0` only without flags). -/
theorem keyblob_ctor_wf (kb : KeyBlob) (he : kb.end_ = 0 → kb.flags = 0) : kb.ctorOk = true ↔ kb.WF :=
  ⟨fun h => FlashEnc.sb21_wf_of_ctorOk kb h he, FlashEnc.sb21_ctorOk_of_wf kb⟩

/-- the padding unit of the SB2.1 `encrypt` command (512 in the source) only has to be a positive multiple of 16 -/
theorem sb21_align_ok : sb21EncryptAlign % 16 = 0 ∧ 0 < sb21EncryptAlign := FlashEnc.sb21_align_ok

/-- SB2.1 `encrypt (id) { load data > address; }` + `keywrap (id)`: the engine programmed with the context of the WRAPPED
    key blob (flags = low bits of the BD `end` value) reads the data back at the LOAD address — for every 16-byte aligned
    load address whose (512-byte padded) data fit the blob's window, whether `end` enables decryption (`…011b`) or not. -/
theorem sb21_encrypt_inverts (h : CryptoLaws c) (start end_ : Nat) (key ctr : Bytes) (swap : Bool)
    (address : Nat) (data : Bytes) (hwf : (Sb21.blob start end_ key ctr (end_ &&& otfadKeyFlagMask)).WF)
    (ha16 : address % 16 = 0) (hne : 0 < data.length)
    (hfit : Sb21.fits (Sb21.blob start end_ key ctr (end_ &&& otfadKeyFlagMask)) address
      (zeroPad sb21EncryptAlign data).length) :
    ∃ ct, Sb21.encrypt c start end_ key ctr swap address data = .ok ct ∧
      (otfadHwReadAll c [(Sb21.blob start end_ key ctr (end_ &&& otfadKeyFlagMask)).ctx] swap address ct).take data.length
        = data :=
  FlashEnc.sb21_encrypt_inverts h start end_ key ctr swap address data hwf ha16 hne hfit

/-- SB2.1 `keywrap (id)`: the wrapped blob unwraps to the blob's key, counter, range and the RO/ADE/VLD flags given in
    the low bits of the BD `end` value, with a valid CRC. -/
theorem sb21_keywrap_unwraps (h : CryptoLaws c) (start end_ : Nat) (key ctr kek rnd : Bytes)
    (hwf : (Sb21.blob start end_ key ctr (end_ &&& otfadKeyFlagMask)).WF) (hk : kek.length = 16) (hr : rnd.length = 4) :
    ∃ e, Sb21.keywrap c start end_ key ctr kek rnd = .ok e ∧ e.length = 64 ∧
      otfadUnwrapEntry c kek 0 e = some ((Sb21.blob start end_ key ctr (end_ &&& otfadKeyFlagMask)).ctx, true) :=
  FlashEnc.sb21_keywrap_unwraps h start end_ key ctr kek rnd hwf hk hr

/-! ## Phase 3: IEE — the remaining CTR modes, the page-offset register, unaligned (16-byte granular) CTR starts.
    Engine: `ieeHwPageX` / `ieeCtrReadX` of Spec/FlashEncHw.lean under the assumptions A-PO and A-CTR stated there. -/

/-- AES-CTR 128/256 in ALL THREE CTR modes (with / without address binding, keystream only), for EVERY 16-byte aligned
    system address `p` (not only page aligned), every length, every initial counter (the 32-bit wrap of the counter word
    included: both sides reduce `word + (L >> 4)` mod 2^32) and every page offset: the engine, reading block by block
    from `p`, returns what SPSDK encrypted for the logical address `L = p + 4 KiB · pageOffset`. -/
theorem iee_ctr_modes_invert (h : CryptoLaws c) (b : IeeBlob) (hwf : b.WF) (hc : b.mode.isCtr = true) (p : Nat)
    (hp : p % 16 = 0) (d : Bytes) :
    ∃ ct, b.encryptImage c (b.ctx.logical p) d = .ok ct ∧ ct.length = (d.length + 15) / 16 * 16 ∧
      b.ctx.isCtrMode = true ∧ (ieeCtrReadX c b.ctx (blocksFor ct.length) p ct).take d.length = d := by
  obtain ⟨ct, h1, h2, h3⟩ := FlashEnc.ieex_ctr_any h b hwf hc p hp d
  exact ⟨ct, h1, h2, (FlashEnc.ieex_ctx_isCtrMode b hc).1, h3⟩

/-- The assumption A-CTR cannot be weakened: if ANY CTR-type engine (keystream block = AES_key1(`ctr`)) turns the block
    SPSDK wrote for address `a` back into the plaintext block, then `ctr = KEY2[127:32] ‖ BE32(KEY2[31:0] + (a >> 4))` —
    in every CTR mode, since SPSDK has one code path for the three of them. -/
theorem iee_ctr_engine_only (h : CryptoLaws c) (b : IeeBlob) (hwf : b.WF) (hc : b.mode.isCtr = true) (a : Nat)
    (ha : a % 16 = 0) (blk ctr ct : Bytes) (hblk : blk.length = 16) (hctr : ctr.length = 16)
    (henc : b.encryptImage c a blk = .ok ct) (hdec : xorBytes ct (c.encBlk (IeeCtx.word b.key1) ctr) = blk) :
    ctr = (IeeCtx.word b.key2).take 12 ++ beEnc 4 (beDec ((IeeCtx.word b.key2).drop 12) + a / 16) :=
  FlashEnc.ieex_ctr_engine_only h b hwf hc a ha blk ctr ct hblk hctr henc hdec

/-- Whole image, 1..n pairwise disjoint regions in ANY of the five modes mixed freely (page offset 0): the extended
    engine reads the plaintext back. -/
theorem iee_hw_inverts_all_modes (h : CryptoLaws c) (bs : List IeeBlob) (hwf : ∀ b ∈ bs, b.WF ∧ b.pageOffset = 0)
    (hd : IeeDisjoint bs) (base : Nat) (hb : base % 4096 = 0) (img : Bytes) :
    ∃ ct, Iee.encryptImage c bs img base = .ok ct ∧
      (ieeHwReadAllX c (bs.map IeeBlob.ctx) base ct).take img.length = img ∧
      img.length ≤ ct.length ∧ ct.length ≤ (img.length + 15) / 16 * 16 := by
  refine ⟨_, FlashEnc.iee_refines_spec h bs (fun b hb' => (hwf b hb').1) hd base hb img, ?_, ?_⟩
  · exact FlashEnc.ieex_spec_hw h bs hwf base img
  · exact FlashEnc.iee_spec_length h bs base img

/-- … end to end: the extended engine programmed from the EXPORTED key-blob area. -/
theorem iee_end_to_end_all_modes (h : CryptoLaws c) (bs : List IeeBlob) (hne : bs ≠ [])
    (hwf : ∀ b ∈ bs, b.WF ∧ b.pageOffset = 0) (hd : IeeDisjoint bs) (k1 k2 : Bytes) (hk1 : k1.length = 32)
    (hk2 : k2.length = 32) (hk : k1 ≠ k2) (addr : Nat) (base : Nat) (hb : base % 4096 = 0) (img : Bytes) :
    ∃ t ct, Iee.encryptKeyBlobs c bs k1 k2 addr = .ok t ∧ Iee.encryptImage c bs img base = .ok ct ∧
      (ieeHwReadAllX c ((ieeUnwrapTable c k1 k2 addr bs.length t).filterMap id) base ct).take img.length = img := by
  obtain ⟨t, ht, hu⟩ := iee_keyblobs_unwrap h bs hne (fun b hb' => (hwf b hb').1) k1 k2 hk1 hk2 hk addr
  obtain ⟨ct, hct, hr, _⟩ := iee_hw_inverts_all_modes h bs hwf hd base hb img
  refine ⟨t, ct, ht, hct, ?_⟩
  rw [hu, filterMap_id_map_some]
  exact hr

/-- Page offset with AES-XTS: the engine reading the system page `p` of the region decrypts what SPSDK encrypted for
    the logical page `p + 4 KiB · pageOffset` (A-PO: SPSDK's data address is the LOGICAL address). -/
theorem iee_xts_page_offset (h : CryptoLaws c) (b : IeeBlob) (hwf : b.WF) (hm : b.mode = .xts) (p : Nat) (hp : p % 4096 = 0)
    (hin : b.start ≤ p ∧ p < b.end_) (d : Bytes) (h0 : 0 < d.length) (hd : d.length ≤ 4096) :
    ∃ ct, b.encryptImage c (b.ctx.logical p) d = .ok ct ∧ (ieeHwPageX c [b.ctx] p ct).take d.length = d :=
  FlashEnc.ieex_xts_page_offset h b hwf hm p hp hin d h0 hd

/-- The layout `IeeKeyBlob.plain_data` writes (offsets and sizes GENERATED from the pack formats / align_block sizes of the
    source) is the layout the ROM-side parser `ieeParseBlob` (hand-written literals) reads: every field of a parsed blob
    is the slice at the generated offset, the CRC covers exactly the bytes before the generated CRC offset. -/
theorem iee_layout_agree :
    ieeBlobOffVersion = 4 ∧ ieeBlobOffAttr = 8 ∧ ieeAttrSize = 4 ∧ ieeBlobOffPageOffset = 12 ∧ ieeBlobOffKey1 = 16 ∧
    ieeBlobOffKey2 = 48 ∧ ieeBlobOffStart = 80 ∧ ieeBlobOffEnd = 84 ∧ ieeBlobOffCrc = 92 ∧ ieeBlobSize = 96 ∧
    ieeBlobOffAttr + ieeAttrSize = ieeBlobOffPageOffset ∧ ieeBlobOffKey1 + ieeKeyFieldSize = ieeBlobOffKey2 ∧
    ieeBlobOffKey2 + ieeKeyFieldSize = ieeBlobOffStart ∧ ieeBlobSize * 4 = ieeKeyBlobsSize := by
  decide

theorem iee_parse_reads_layout (p : Bytes) (x : IeeCtx) (hx : ieeParseBlob p = some x) :
    ieeBlobSize ≤ p.length ∧
    leDec (p.take 4) = ieeHeaderTag ∧ leDec ((p.drop ieeBlobOffVersion).take 4) = ieeKeyblobVersion ∧
    x.keySizeTag = (p.getD (ieeBlobOffAttr + 1) 0).toNat ∧ x.modeTag = (p.getD (ieeBlobOffAttr + 2) 0).toNat ∧
    x.pageOffset = leDec ((p.drop ieeBlobOffPageOffset).take 4) ∧
    x.key1 = (p.drop ieeBlobOffKey1).take ieeKeyFieldSize ∧ x.key2 = (p.drop ieeBlobOffKey2).take ieeKeyFieldSize ∧
    x.start = leDec ((p.drop ieeBlobOffStart).take 4) ∧ x.end_ = leDec ((p.drop ieeBlobOffEnd).take 4) ∧
    leDec ((p.drop ieeBlobOffCrc).take 4) = crc32MpegHw (p.take ieeBlobOffCrc) := by
  unfold ieeParseBlob at hx
  split at hx
  · exact absurd hx (by simp)
  · split at hx
    · exact absurd hx (by simp)
    · split at hx
      · exact absurd hx (by simp)
      · rename_i h1 h2 h3
        simp only [Option.some.injEq] at hx
        subst hx
        simp only [ieeBlobSize, ieeBlobOffVersion, ieeBlobOffAttr, ieeBlobOffPageOffset, ieeBlobOffKey1, ieeBlobOffKey2,
          ieeBlobOffStart, ieeBlobOffEnd, ieeBlobOffCrc, ieeKeyFieldSize, ieeHeaderTag, ieeKeyblobVersion]
        refine ⟨by omega, ?_, ?_, trivial, trivial, trivial, trivial, trivial, trivial, trivial, ?_⟩
        · exact Classical.byContradiction (fun hh => h2 (Or.inl hh))
        · exact Classical.byContradiction (fun hh => h2 (Or.inr hh))
        · exact Classical.byContradiction (fun hh => h3 hh)

/-! ## Non-vacuity and the defect the fix removes -/

section Examples

private def pad16 (b : Bytes) : Bytes := (b ++ zeros 16).take 16

/-- a toy block permutation (not AES) — only to evaluate examples -/
private def toy : CryptoOps where
  hash := fun _ m => m
  encBlk := fun k b => (xorBytes (pad16 b) (pad16 k)).map (· + 1)
  decBlk := fun k b => xorBytes ((pad16 b).map (· - 1)) (pad16 k)
  sm4Enc := fun _ b => b
  sm4Dec := fun _ b => b
  sign := fun _ _ m _ => m
  verify := fun _ _ _ _ => true
  pubOf := fun sk => sk

private def exKb : KeyBlob :=
  { start := 0x1000, end_ := 0x1FFF, key := List.replicate 16 0x11, ctr := [1, 2, 3, 4, 5, 6, 7, 8], flags := 3 }
private def exKb2 : KeyBlob :=
  { start := 0x2400, end_ := 0x2C00, key := List.replicate 16 0x22, ctr := [8, 7, 6, 5, 4, 3, 2, 1], flags := 7 }
private def exImg : Bytes := (List.range 32).map (fun i => UInt8.ofNat (3 * i + 1))

example : exKb.WF ∧ exKb2.WF ∧ BlobsDisjoint [exKb, exKb2] := by decide

/-- DESIGN §7 #20: with the pre-fix walk (1 KiB steps counted from the image start) a 16-byte aligned base that is
    not 1 KiB aligned leaves the chunk straddling the blob boundary unencrypted, and the engine — which decrypts the
    in-range part — does NOT return the plaintext … -/
example : ∃ ct, Otfad.encryptImageOld toy [exKb] exImg 0x0FF0 false = .ok ct ∧
    otfadHwReadAll toy [exKb.ctx] false 0x0FF0 ct ≠ exImg := by
  refine ⟨exImg, by decide +kernel, by decide +kernel⟩

/-- … while the fixed walk does. -/
example : ∃ ct, Otfad.encryptImage toy [exKb] exImg 0x0FF0 false = .ok ct ∧
    otfadHwReadAll toy [exKb.ctx] false 0x0FF0 ct = exImg := by
  refine ⟨otfadSpecImage toy [exKb] false 0x0FF0 exImg, by decide +kernel, by decide +kernel⟩

private def exIee : IeeBlob :=
  { lock := false, keySize := .k128, mode := .xts, start := 0x1000, end_ := 0x3000,
    key1 := List.replicate 16 1, key2 := List.replicate 16 2 }

example : exIee.WF ∧ exIee.claimed ∧ IeeDisjoint [exIee] := by
  refine ⟨⟨by decide, by decide, by decide, by decide, by decide, by decide, by decide, by decide⟩, by simp [IeeBlob.claimed, exIee],
    by simp [IeeDisjoint]⟩

private def exIeeNA : IeeBlob :=
  { lock := false, keySize := .k256, mode := .ctrNoAddr, start := 0x3000, end_ := 0x5000,
    key1 := List.replicate 32 5, key2 := List.replicate 12 6 ++ [0xF0, 0xFF, 0xFF, 0xFF], pageOffset := 3 }
private def exIeeKS : IeeBlob :=
  { lock := true, keySize := .k128, mode := .ctrKeystream, start := 0x6000, end_ := 0x7000,
    key1 := List.replicate 16 7, key2 := List.replicate 16 0xFF }

/-- non-vacuity of the Phase 3 IEE theorems: the two remaining CTR modes (counter word next to the 32-bit wrap, a
    non-zero page offset), all five modes side by side -/
example : exIeeNA.WF ∧ exIeeNA.mode.isCtr = true ∧ exIeeKS.WF ∧ exIeeKS.mode.isCtr = true ∧ exIeeKS.pageOffset = 0 ∧
    IeeDisjoint [exIee, exIeeNA, exIeeKS] := by
  refine ⟨⟨by decide, by decide, by decide, by decide, by decide, by decide, by decide, by decide⟩, rfl,
    ⟨by decide, by decide, by decide, by decide, by decide, by decide, by decide, by decide⟩, rfl, rfl,
    by simp [IeeDisjoint, exIee, exIeeNA, exIeeKS]⟩

/-- … and the engine really depends on the assumptions: at an unaligned-in-page address with a wrapping counter the toy
    engine reads SPSDK's CTRWOAddress ciphertext back, and does NOT when read one block further on -/
example : (match exIeeNA.encryptImage toy (exIeeNA.ctx.logical 0x3010) exImg with
    | .ok ct => decide (ct ≠ exImg ∧ ieeCtrReadX toy exIeeNA.ctx 2 0x3010 ct = exImg ∧ ieeCtrReadX toy exIeeNA.ctx 2 0x3020 ct ≠ exImg)
    | .error _ => false) = true := by
  decide +kernel

/-- non-vacuity of `iee_parse_reads_layout`: the plain key blob of `exIeeNA` parses -/
example : (exIeeNA.plainData.toOption.bind ieeParseBlob).isSome = true := by decide +kernel

private def exBee : BeeEngine := ⟨List.replicate 16 7, List.replicate 12 9 ++ [0, 0, 0, 0], [⟨0x1000, 0x800⟩]⟩

example : exBee.WF ∧ BeeDisjoint [exBee] := by
  refine ⟨⟨by decide, by decide, by decide, by decide⟩, by simp [BeeDisjoint, beeAllFacs, exBee]⟩

/-- non-vacuity of `sb21_encrypt_inverts` at a load address other than the key blob start, and for an `end` with ADE = 0 -/
example : (Sb21.blob 0x1000 0x1FFF (List.replicate 16 0x11) [1, 2, 3, 4, 5, 6, 7, 8] (0x1FFF &&& otfadKeyFlagMask)).WF ∧
    (Sb21.blob 0x2000 0x23FD (List.replicate 16 0x11) [1, 2, 3, 4, 5, 6, 7, 8] (0x23FD &&& otfadKeyFlagMask)).WF := by
  decide

example : (match Sb21.encrypt toy 0x1000 0x1FFF (List.replicate 16 0x11) [1, 2, 3, 4, 5, 6, 7, 8] false 0x1400 exImg with
    | .ok ct => decide (ct.take 32 ≠ exImg ∧
        (otfadHwReadAll toy [(Sb21.blob 0x1000 0x1FFF (List.replicate 16 0x11) [1, 2, 3, 4, 5, 6, 7, 8] 7).ctx] false 0x1400 ct).take 32
          = exImg)
    | .error _ => false) = true := by
  decide +kernel

private def exHdr : BeeHdr := ⟨exBee, [1], 0, List.replicate 16 3, List.replicate 16 4⟩

example : exHdr.WF :=
  ⟨⟨by decide, by decide, by decide, by decide⟩, by decide, by decide, by decide, by decide, by decide, by decide⟩

end Examples

end SpsdkVerif.C13
