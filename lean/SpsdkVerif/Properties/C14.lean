/-
C14 — Bootable image: segments land at the device offsets and come back on parse.

Model: Model/Bimg.lean (hand-written, tied to spsdk/image/bootable_image/{bimg,segments}.py by harness/props/C14.py),
       Model/BinImage.lean (BinaryImage, C16), Generated/BimgTables.lean (every (family, revision, memory type) row of the
       bootable_image feature of the device database + the class constants of the Segment* classes; regenerated on every run).
Helper lemmas: Proofs/Bimg.lean.
-/
import SpsdkVerif.Model.Bimg
import SpsdkVerif.Model.BimgSpec
import SpsdkVerif.Proofs.Bimg
import SpsdkVerif.Proofs.BimgAny
import SpsdkVerif.Proofs.BimgSeq
import SpsdkVerif.Proofs.BimgDelimit

namespace SpsdkVerif.C14
open SpsdkVerif SpsdkVerif.Misc SpsdkVerif.BinImg SpsdkVerif.Bimg SpsdkVerif.Generated

/-! ## 1. Every generated table row is well formed (`descOK`, defined in Proofs/Bimg.lean next to the lemmas that use it)

`descOK d` says: the first segment is static; alignments are positive; static offsets strictly increase; a dynamic
segment is the last entry and directly follows a static application segment; dynamic segments are never INIT segments;
the fill pattern is zeros or ones and belongs to every segment's IMAGE_PATTERNS; the fixed-size window of every static
segment ends before the next static offset; "take the whole rest" parsers (MBI, HAB, SB2.1, SB3.1) are last; boot
headers precede application segments and there is a static application segment; every static offset is a multiple of
every dynamic alignment; no segment class is unknown to the model; the FCB tag is 4 bytes and is not padding. -/

theorem table_wf : ∀ l ∈ BimgTables.layouts, (resolve l).any descOK = true := by
  decide +kernel

/-- every (family, revision, memory type) row points to one of those layouts -/
theorem rows_covered : ∀ r ∈ BimgTables.rows, r.layout < BimgTables.layouts.length := by
  decide +kernel

/-- … hence every (family, revision, memory type) row of the bootable_image feature has a well-formed description -/
theorem rows_wf : ∀ r ∈ BimgTables.rows, ∃ l d, BimgTables.layouts[r.layout]? = some l ∧ resolve l = some d ∧ descOK d = true := by
  intro r hr
  have h1 := rows_covered r hr
  have hl : BimgTables.layouts[r.layout]? = some (BimgTables.layouts[r.layout]'h1) := List.getElem?_eq_getElem h1
  have h2 := table_wf _ (List.getElem_mem h1)
  cases hd : resolve (BimgTables.layouts[r.layout]'h1) with
  | none => simp [hd] at h2
  | some d => exact ⟨_, d, hl, hd, by simpa [hd] using h2⟩

/-- the class constants the fixed-size parsers of the model rely on -/
theorem kinds_fixed_sizes :
    ∀ k ∈ BimgTables.kinds, (parserOf k.parser = .imageVersionAp → k.size = 4) ∧
      (parserOf k.parser = .fcb → 4 ≤ k.size) ∧ (parserOf k.parser = .xmcd → 0 < k.size) ∧
      ((parserOf k.parser = .raw ∧ k.bootHeader = true) → 0 < k.size) ∧
      ((parserOf k.parser = .greedy ∨ parserOf k.parser = .ahab ∨ parserOf k.parser = .sb) → k.size < 0 ∧ k.bootHeader = false) := by
  decide +kernel

/-- the documented segment kinds are there with their documented constants
    (label, SIZE, OFFSET_ALIGNMENT, INIT_SEGMENT, BOOT_HEADER): key blob 256, FCB 512 / 768 (XSPI), image version words 4,
    key store 2048, BEE headers 512, XMCD 512; containers of variable size; the secondary container set floats on a
    1 KiB grid; an image may start at the FCB or at the application container -/
def specKinds : List (String × Int × Int × Bool × Bool) := [
  ("keyblob", 256, 1, false, true), ("fcb", 512, 1, true, true), ("fcb_xspi", 768, 1, true, true),
  ("image_version", 4, 1, false, true), ("image_version_ap", 4, 1, false, true), ("keystore", 2048, 1, false, true),
  ("bee_header_0", 512, 1, false, true), ("bee_header_1", 512, 1, false, true), ("xmcd", 512, 1, false, true),
  ("mbi", -1, 1, true, false), ("hab_container", -1, 1, true, false), ("ahab_container", -1, 1, true, false),
  ("primary_image_container_set", -1, 1, true, false), ("secondary_image_container_set", -1, 1024, false, false),
  ("sb21", -1, 1, true, false), ("sb31", -1, 1, true, false)]

theorem kinds_spec : ∀ k ∈ specKinds,
    k ∈ BimgTables.kinds.map (fun g => (g.label, g.size, g.align, g.initSegment, g.bootHeader)) := by
  decide +kernel

/-! ## 2. Init offset selection and exclusion -/

/-- the setter answers 0 for 0 and otherwise the closest static segment offset at or above the request -/
theorem setInit_spec (segs : List Seg) (req : Int) (m : Nat) (h : setInit segs req = .ok m) :
    (req = 0 ∧ m = 0) ∨
    (0 < req ∧ m ∈ statics segs ∧ req ≤ (m : Int) ∧ ∀ o ∈ statics segs, req ≤ (o : Int) → m ≤ o) := by
  exact Bimg.setInit_spec' segs req m h

/-- … and refuses exactly the negative requests and those above every static offset -/
theorem setInit_error (segs : List Seg) (req : Int) :
    (∃ e, setInit segs req = .error e) ↔ (req < 0 ∨ (0 < req ∧ ∀ o ∈ statics segs, (o : Int) < req)) := by
  exact Bimg.setInit_error' segs req

/-- a segment is excluded exactly when it is static and lies before the init offset (dynamic segments never are) -/
theorem excluded_iff (init : Nat) (s : Seg) : excluded init s = true ↔ ∃ p, s.pos = some p ∧ p < init := by
  exact Bimg.excluded_iff' init s

/-! ## 3. Offsets -/

/-- static segment: table offset − init offset -/
theorem offset_static (init : Nat) (slots : List Slot) (i : Nat) (s : Slot) (p : Nat)
    (hs : slots[i]? = some s) (hp : s.seg.pos = some p) (hex : excluded init s.seg = false) :
    segOffset init slots i = .ok ((p : Int) - init) := by
  exact Bimg.offset_static' init slots i s p hs hp hex

/-- dynamic segment: the aligned end of its predecessor in the table (offset of the predecessor inside the full image
    `a`, its length `t.len`), minus the init offset -/
theorem offset_dynamic (init : Nat) (slots : List Slot) (i : Nat) (t s : Slot) (a : Nat)
    (ht : slots[i]? = some t) (hs : slots[i + 1]? = some s) (hp : s.seg.pos = none)
    (ha : (absOffsets none slots)[i]? = some (some a)) :
    segOffset init slots (i + 1) = .ok ((alignNat (a + t.len) s.seg.align : Nat) - (init : Int)) := by
  exact Bimg.offset_dynamic' init slots i t s a ht hs hp ha

/-! ## 4. Export: placement, gaps, no overwrite

`Ctx d init raws` (Proofs/Bimg.lean): `descOK d`, one (optional) raw block per table entry, `init` is 0 or a static offset
of the table (what the setter can answer), every supplied static segment ends at or before the next static offset of
the table (`Fits`: "payload sizes up to the next segment's offset"), and at least one segment is present. -/

/-- the export succeeds and has exactly the reported length -/
theorem export_ok (d : Desc) (init : Nat) (raws : List (Option Bytes)) (h : Ctx d init raws) :
    ∃ b, exportImg d init raws = .ok b ∧ imageLen init (mkSlots d.segs raws) = .ok b.length := by
  exact Bimg.export_ok' d init raws h

/-- each supplied segment's bytes appear unchanged at its offset -/
theorem placed (d : Desc) (init : Nat) (raws : List (Option Bytes)) (h : Ctx d init raws) (b : Bytes)
    (hb : exportImg d init raws = .ok b) (i : Nat) (s : Slot) (o : Int)
    (hs : (mkSlots d.segs raws)[i]? = some s) (hp : s.present init = true)
    (ho : segOffset init (mkSlots d.segs raws) i = .ok o) :
    0 ≤ o ∧ (b.drop o.toNat).take s.len = s.bytes := by
  exact Bimg.placed' d init raws h b hb i s o hs hp ho

/-- supplied segments do not overwrite one another: in table order each ends at or before the start of the next -/
theorem no_overwrite (d : Desc) (init : Nat) (raws : List (Option Bytes)) (h : Ctx d init raws)
    (i j : Nat) (s t : Slot) (oi oj : Int) (hij : i < j)
    (hs : (mkSlots d.segs raws)[i]? = some s) (ht : (mkSlots d.segs raws)[j]? = some t)
    (hps : s.present init = true) (hpt : t.present init = true)
    (hoi : segOffset init (mkSlots d.segs raws) i = .ok oi) (hoj : segOffset init (mkSlots d.segs raws) j = .ok oj) :
    oi + s.len ≤ oj := by
  exact Bimg.no_overwrite' d init raws h i j s t oi oj hij hs ht hps hpt hoi hoj

/-- every byte outside the supplied segments holds the device's fill pattern -/
theorem gaps_pattern (d : Desc) (init : Nat) (raws : List (Option Bytes)) (h : Ctx d init raws) (b : Bytes)
    (hb : exportImg d init raws = .ok b) (k : Nat) (hk : k < b.length)
    (hfree : ∀ i s o, (mkSlots d.segs raws)[i]? = some s → s.present init = true →
      segOffset init (mkSlots d.segs raws) i = .ok o → ¬ (o ≤ (k : Int) ∧ (k : Int) < o + s.len)) :
    b[k]? = some (if d.pattern = .ones then 0xFF else 0x00) := by
  exact Bimg.gaps_pattern' d init raws h b hb k hk hfree

/-- the image that starts at a later init offset is the full image without its first `init` bytes (the excluded
    segments simply are not there) -/
theorem export_init_drop (d : Desc) (init : Nat) (raws : List (Option Bytes)) (h : Ctx d init raws) (b0 : Bytes)
    (h0 : exportImg d 0 raws = .ok b0) :
    exportImg d init raws = .ok (b0.drop init) := by
  exact Bimg.export_init_drop' d init raws h b0 h0

/-! ## 5. Parse

`Delimit ext fcbSup init slots`: every supplied, non-excluded segment's bytes are accepted by the segment's parser and
delimit themselves - `parseSeg … (bytes ++ rest) = .present bytes` for every `rest` (for the "whole rest" parsers only
`rest = []`; they are last by `descOK`) - and `find_segment_offset` finds a supplied container at offset 0.
For the segment kinds whose parser is part of the model this is proved below (`*_delimits`); for the container
parsers it is the assumption on `Ext`. -/

/-- raw fixed-size segments (key blob, key store, BEE headers): `SIZE` bytes that are not padding delimit themselves -/
theorem raw_delimits (ext : Ext) (fcbSup : Bool) (s : Seg) (c rest : Bytes) (hp : s.parser = .raw)
    (hsz : 0 < s.size) (hlen : (c.length : Int) = s.size) (hnp : isPadding s c = false) :
    parseSeg ext fcbSup s (c ++ rest) = .present c := by
  exact Bimg.raw_delimits' ext fcbSup s c rest hp hsz hlen hnp

/-- image version words -/
theorem imageVersion_delimits (ext : Ext) (fcbSup : Bool) (s : Seg) (c rest : Bytes)
    (hp : s.parser = .imageVersion ∨ s.parser = .imageVersionAp) (hsz : s.size = 4) (hlen : c.length = 4) :
    parseSeg ext fcbSup s (c ++ rest) = .present c := by
  exact Bimg.imageVersion_delimits' ext fcbSup s c rest hp hsz hlen

/-- FCB: `SIZE` bytes carrying the tag (plain or byte-swapped) that `FCB.parse` accepts - or, for a family without FCB
    support, any tagged block that is not padding -/
theorem fcb_delimits (ext : Ext) (fcbSup : Bool) (s : Seg) (c rest : Bytes) (hp : s.parser = .fcb)
    (hsz : 4 ≤ s.size) (hlen : (c.length : Int) = s.size)
    (htag : c.take 4 = BimgTables.fcbTag ∨ c.take 4 = BimgTables.fcbTagSwapped)
    (hok : fcbSup = true → ext.fcbOk c = true) (hnp : fcbSup = false → isPadding s c = false) :
    parseSeg ext fcbSup s (c ++ rest) = .present c := by
  exact Bimg.fcb_delimits' ext fcbSup s c rest hp hsz hlen htag hok hnp

/-- application containers: whatever the external parser accepts with the container's own length -/
theorem app_delimits (ext : Ext) (fcbSup : Bool) (s : Seg) (c rest : Bytes)
    (hp : s.parser = .ahab ∨ ((s.parser = .greedy ∨ s.parser = .sb) ∧ rest = [])) (hsz : s.size < 0) (hne : c ≠ [])
    (hacc : ext.app s.kind (c ++ rest) = some c.length) :
    parseSeg ext fcbSup s (c ++ rest) = .present c := by
  exact Bimg.app_delimits' ext fcbSup s c rest hp hsz hne hacc

/-- Parsing the exported image with the init offset it was exported with recovers, for every table entry, exactly the
    supplied bytes at the offset where they were placed (`expectedFound`: `some (offset, bytes)` for a present segment,
    `none` for an excluded or absent one) - for the full image (`init = 0`) and for every later init offset.
    `Supplied`: the application segments and the image-version words are supplied (an absent image-version word is
    read back as four padding bytes - `load_from_config` always supplies it). -/
theorem parse_export (ext : Ext) (fcbSup : Bool) (d : Desc) (init : Nat) (raws : List (Option Bytes))
    (h : Ctx d init raws) (hsup : Supplied init (mkSlots d.segs raws)) (hdel : Delimit ext fcbSup init (mkSlots d.segs raws))
    (b : Bytes) (hb : exportImg d init raws = .ok b) :
    walk ext fcbSup init d.segs b = .ok (expectedFound init (mkSlots d.segs raws)) := by
  exact Bimg.parse_export' ext fcbSup d init raws h hsup hdel b hb

/-- `BootableImage.parse` of a full image answers init offset 0 and the supplied segments -/
theorem parseAll_full (ext : Ext) (fcbSup : Bool) (d : Desc) (raws : List (Option Bytes))
    (h : Ctx d 0 raws) (hsup : Supplied 0 (mkSlots d.segs raws)) (hdel : Delimit ext fcbSup 0 (mkSlots d.segs raws))
    (b : Bytes) (hb : exportImg d 0 raws = .ok b) :
    parseAll ext fcbSup d.segs b = .ok (0, expectedFound 0 (mkSlots d.segs raws)) := by
  exact Bimg.parseAll_full' ext fcbSup d raws h hsup hdel b hb

/-- … and of an image that starts at a later INIT segment answers that init offset, provided the trials that come
    first (the full image, the INIT segments before it) do not accept the shifted bytes.  Without that hypothesis the
    statement is false on the current code: raw header segments take any bytes and the MBI parser accepts almost
    anything, see the known finding `C14-later-start-misdetected`. -/
theorem parseAll_later (ext : Ext) (fcbSup : Bool) (d : Desc) (init : Nat) (raws : List (Option Bytes))
    (h : Ctx d init raws) (hsup : Supplied init (mkSlots d.segs raws)) (hdel : Delimit ext fcbSup init (mkSlots d.segs raws))
    (b : Bytes) (hb : exportImg d init raws = .ok b)
    (pre post : List Int) (hc : initCandidates d.segs = pre ++ (init : Int) :: post)
    (h0 : trial ext fcbSup d.segs b 0 = none) (hpre : ∀ c ∈ pre, trial ext fcbSup d.segs b c = none) :
    parseAll ext fcbSup d.segs b = .ok (init, expectedFound init (mkSlots d.segs raws)) := by
  exact Bimg.parseAll_later' ext fcbSup d init raws h hsup hdel b hb pre post hc h0 hpre

/-- `parse` answers the first trial that accepts, in the order: full image, then the INIT-segment offsets in table order -/
theorem parseAll_first (ext : Ext) (fcbSup : Bool) (segs : List Seg) (bin : Bytes) :
    parseAll ext fcbSup segs bin =
      (match firstSome (trial ext fcbSup segs bin) (0 :: initCandidates segs) with
       | some r => .ok r
       | none => .error .spsdk) :=
  Bimg.parseAll_first' ext fcbSup segs bin

/-- the precise condition of the open finding `C14-later-start-misdetected`: an image that starts at the INIT segment
    `init` is NOT answered with (`init`, the supplied segments) exactly when one of the trials that come first - the full
    image, the INIT candidates before `init` - accepts the shifted bytes with another answer (decidable for a given `Ext`) -/
theorem parseAll_misdetects_iff (ext : Ext) (fcbSup : Bool) (d : Desc) (init : Nat) (raws : List (Option Bytes))
    (h : Ctx d init raws) (hsup : Supplied init (mkSlots d.segs raws)) (hdel : Delimit ext fcbSup init (mkSlots d.segs raws))
    (b : Bytes) (hb : exportImg d init raws = .ok b)
    (pre post : List Int) (hc : initCandidates d.segs = pre ++ (init : Int) :: post) :
    parseAll ext fcbSup d.segs b ≠ .ok (init, expectedFound init (mkSlots d.segs raws)) ↔
      ∃ r, firstSome (trial ext fcbSup d.segs b) (0 :: pre) = some r ∧ r ≠ (init, expectedFound init (mkSlots d.segs raws)) :=
  Bimg.parseAll_misdetects_iff' ext fcbSup d init raws h hsup hdel b hb pre post hc

/-! ## 5a. The padding predicate (`Segment._is_padding`) - tied to the source by behaviour

`BimgTables.paddingProbes` is the method's own source evaluated (in isolation, on every run) on a fixed probe set: uniform blocks,
every kind of 00/FF mix, a third byte value, short / long inputs, SIZE ≤ 0, the three IMAGE_PATTERNS lists. -/

/-- a segment description for a probe -/
def probeSeg (size : Int) (pats : List String) : Seg :=
  { kind := 0, size := size, align := 1, initSeg := false, bootHeader := true, parser := .raw, extFind := false, ownLen := false,
    patterns := pats.filterMap patOf, pos := some 0 }

/-- the model's `isPadding` answers every probe like the source's `_is_padding` - a predicate that takes a MIX of fill bytes (or
    anything else than one uniform block of SIZE bytes) for padding changes a probe's answer and breaks this -/
theorem padding_predicate_probes :
    BimgTables.paddingProbesOk = true ∧
    ∀ p ∈ BimgTables.paddingProbes, isPadding (probeSeg p.1 p.2.1) p.2.2.1 = p.2.2.2 := by
  decide +kernel

/-- `isPadding` says: the first SIZE bytes are EXACTLY the block of one of the segment's IMAGE_PATTERNS -/
theorem isPadding_iff (s : Seg) (data : Bytes) :
    isPadding s data = true ↔ 0 < s.size ∧ ∃ p ∈ s.patterns, data.take s.size.toNat = p.block s.size.toNat := by
  unfold isPadding
  simp only [Bool.and_eq_true, decide_eq_true_eq, List.any_eq_true, beq_iff_eq]

/-- … for the zeros / ones patterns of the segment classes: uniformly 0x00 or uniformly 0xFF -/
theorem isPadding_iff_uniform (s : Seg) (data : Bytes) (hp : ∀ p ∈ s.patterns, p = .zeros ∨ p = .ones) :
    isPadding s data = true ↔ 0 < s.size ∧ ∃ p ∈ s.patterns,
      data.take s.size.toNat = List.replicate s.size.toNat (if p = .ones then 0xFF else 0x00) := by
  rw [isPadding_iff]
  constructor
  · rintro ⟨h0, p, hm, he⟩
    exact ⟨h0, p, hm, by rw [he, Bimg.bimg_block p _ (hp p hm)]⟩
  · rintro ⟨h0, p, hm, he⟩
    exact ⟨h0, p, hm, by rw [he, Bimg.bimg_block p _ (hp p hm)]⟩

/-- hence the parse round trip for raw fixed-size segments (key blob, key store, BEE headers): SIZE bytes that are neither
    uniformly 0x00 nor uniformly 0xFF - in particular every MIX of 0x00 and 0xFF bytes - come back unchanged -/
theorem raw_delimits_nonuniform (ext : Ext) (fcbSup : Bool) (s : Seg) (c rest : Bytes) (hpar : s.parser = .raw)
    (hsz : 0 < s.size) (hlen : (c.length : Int) = s.size) (hp : ∀ p ∈ s.patterns, p = .zeros ∨ p = .ones)
    (h0 : c ≠ List.replicate c.length 0x00) (h1 : c ≠ List.replicate c.length 0xFF) :
    parseSeg ext fcbSup s (c ++ rest) = .present c := by
  apply raw_delimits ext fcbSup s c rest hpar hsz hlen
  cases hpad : isPadding s c with
  | false => rfl
  | true =>
    obtain ⟨_, p, hm, he⟩ := (isPadding_iff_uniform s c hp).1 hpad
    have hn : s.size.toNat = c.length := by omega
    rw [hn, List.take_length] at he
    rcases hp p hm with rfl | rfl
    · exact absurd he h0
    · exact absurd he h1

/-! ## 5b. Flash dumps: trailing bytes behind the last segment

`TrailOK init slots n tail` (Model/BimgSpec.lean): the last table entry is not a whole-rest parser, and if it is an absent
floating entry the trailing bytes end at or before the aligned offset where `_parse` would look for it. -/

/-- parsing the exported image FOLLOWED BY trailing bytes recovers exactly the same segments at the same offsets -/
theorem parse_export_trailing (ext : Ext) (fcbSup : Bool) (d : Desc) (init : Nat) (raws : List (Option Bytes))
    (h : Ctx d init raws) (hsup : Supplied init (mkSlots d.segs raws)) (hdel : Delimit ext fcbSup init (mkSlots d.segs raws))
    (b : Bytes) (hb : exportImg d init raws = .ok b) (tail : Bytes)
    (ht : TrailOK init (mkSlots d.segs raws) b.length tail) :
    walk ext fcbSup init d.segs (b ++ tail) = .ok (expectedFound init (mkSlots d.segs raws)) :=
  Bimg.parse_export_tail' ext fcbSup d init raws h hsup hdel b hb tail ht

/-- … and so does `BootableImage.parse` for a full image … -/
theorem parseAll_full_trailing (ext : Ext) (fcbSup : Bool) (d : Desc) (raws : List (Option Bytes))
    (h : Ctx d 0 raws) (hsup : Supplied 0 (mkSlots d.segs raws)) (hdel : Delimit ext fcbSup 0 (mkSlots d.segs raws))
    (b : Bytes) (hb : exportImg d 0 raws = .ok b) (tail : Bytes)
    (ht : TrailOK 0 (mkSlots d.segs raws) b.length tail) :
    parseAll ext fcbSup d.segs (b ++ tail) = .ok (0, expectedFound 0 (mkSlots d.segs raws)) :=
  Bimg.parseAll_full_tail' ext fcbSup d raws h hsup hdel b hb tail ht

/-- … and for an image that starts at a later INIT segment (same proviso on the earlier trials as `parseAll_later`) -/
theorem parseAll_later_trailing (ext : Ext) (fcbSup : Bool) (d : Desc) (init : Nat) (raws : List (Option Bytes))
    (h : Ctx d init raws) (hsup : Supplied init (mkSlots d.segs raws)) (hdel : Delimit ext fcbSup init (mkSlots d.segs raws))
    (b : Bytes) (hb : exportImg d init raws = .ok b) (tail : Bytes)
    (ht : TrailOK init (mkSlots d.segs raws) b.length tail)
    (pre post : List Int) (hc : initCandidates d.segs = pre ++ (init : Int) :: post)
    (h0 : trial ext fcbSup d.segs (b ++ tail) 0 = none) (hpre : ∀ c ∈ pre, trial ext fcbSup d.segs (b ++ tail) c = none) :
    parseAll ext fcbSup d.segs (b ++ tail) = .ok (init, expectedFound init (mkSlots d.segs raws)) :=
  Bimg.parseAll_later_tail' ext fcbSup d init raws h hsup hdel b hb tail ht pre post hc h0 hpre

/-- why `TrailOK` excludes the whole-rest parsers (MBI, HAB, SB2.1, SB3.1 rows): the container parser is handed
    container ++ trailing bytes and, when it accepts, ALL of it becomes the segment's raw block (the supplied bytes come back
    as a prefix only) -/
theorem greedy_takes_tail (ext : Ext) (fcbSup : Bool) (s : Seg) (c tail : Bytes)
    (hp : s.parser = .greedy ∨ s.parser = .sb) (hsz : s.size < 0) (hne : c ≠ []) :
    parseSeg ext fcbSup s (c ++ tail) = (match ext.app s.kind (c ++ tail) with
      | some _ => .present (c ++ tail)
      | none => .err) :=
  Bimg.greedy_takes_tail' ext fcbSup s c tail hp hsz hne

/-! ## 5c. Every byte of the exported image is accounted for -/

/-- every byte of the exported image lies inside EXACTLY ONE supplied segment and equals that segment's byte there, or lies
    in no segment and holds the device's fill pattern -/
theorem export_bytes_classified (d : Desc) (init : Nat) (raws : List (Option Bytes)) (h : Ctx d init raws) (b : Bytes)
    (hb : exportImg d init raws = .ok b) (k : Nat) (hk : k < b.length) :
    (∃ i s o, (mkSlots d.segs raws)[i]? = some s ∧ s.present init = true ∧
        segOffset init (mkSlots d.segs raws) i = .ok o ∧ o ≤ (k : Int) ∧ (k : Int) < o + s.len ∧
        b[k]? = s.bytes[k - o.toNat]? ∧
        ∀ j t oj, (mkSlots d.segs raws)[j]? = some t → t.present init = true →
          segOffset init (mkSlots d.segs raws) j = .ok oj → oj ≤ (k : Int) → (k : Int) < oj + t.len → j = i) ∨
    ((∀ i s o, (mkSlots d.segs raws)[i]? = some s → s.present init = true →
        segOffset init (mkSlots d.segs raws) i = .ok o → ¬ (o ≤ (k : Int) ∧ (k : Int) < o + s.len)) ∧
      b[k]? = some (if d.pattern = .ones then 0xFF else 0x00)) := by
  by_cases hex : ∃ i s o, (mkSlots d.segs raws)[i]? = some s ∧ s.present init = true ∧
      segOffset init (mkSlots d.segs raws) i = .ok o ∧ o ≤ (k : Int) ∧ (k : Int) < o + s.len
  · obtain ⟨i, s, o, hs, hp, ho, h1, h2⟩ := hex
    left
    obtain ⟨ho0, hbytes⟩ := placed d init raws h b hb i s o hs hp ho
    refine ⟨i, s, o, hs, hp, ho, h1, h2, ?_, ?_⟩
    · have hm : k - o.toNat < s.len := by omega
      have e : k = o.toNat + (k - o.toNat) := by omega
      have := congrArg (fun l => l[k - o.toNat]?) hbytes
      simp only [List.getElem?_take, if_pos hm, List.getElem?_drop] at this
      rw [← this, ← e]
    · intro j t oj ht hpt hoj h3 h4
      rcases Nat.lt_trichotomy j i with hji | hji | hji
      · have := no_overwrite d init raws h j i t s oj o hji ht hs hpt hp hoj ho
        omega
      · exact hji
      · have := no_overwrite d init raws h i j s t o oj hji hs ht hp hpt ho hoj
        omega
  · right
    have hfree : ∀ i s o, (mkSlots d.segs raws)[i]? = some s → s.present init = true →
        segOffset init (mkSlots d.segs raws) i = .ok o → ¬ (o ≤ (k : Int) ∧ (k : Int) < o + s.len) := by
      intro i s o hs hp ho hin
      exact hex ⟨i, s, o, hs, hp, ho, hin.1, hin.2⟩
    exact ⟨hfree, gaps_pattern d init raws h b hb k hk hfree⟩

/-- … for every (family, revision, memory type) row of the database: the row's generated segment table and fill pattern,
    every init offset the setter can answer, every set of supplied segments that fit -/
theorem export_bytes_classified_rows : ∀ r ∈ BimgTables.rows, ∃ l d, BimgTables.layouts[r.layout]? = some l ∧ resolve l = some d ∧
    ∀ (init : Nat) (raws : List (Option Bytes)), raws.length = d.segs.length → (init = 0 ∨ init ∈ statics d.segs) →
      fits (mkSlots d.segs raws) = true → (∃ s ∈ mkSlots d.segs raws, s.present init = true) →
      ∃ b, exportImg d init raws = .ok b ∧ ∀ k, k < b.length →
        (∃ i s o, (mkSlots d.segs raws)[i]? = some s ∧ s.present init = true ∧
          segOffset init (mkSlots d.segs raws) i = .ok o ∧ o ≤ (k : Int) ∧ (k : Int) < o + s.len ∧
          b[k]? = s.bytes[k - o.toNat]?) ∨
        b[k]? = some (if l.pattern = "ones" then 0xFF else 0x00) := by
  intro r hr
  obtain ⟨l, d, hl, hd, hok⟩ := rows_wf r hr
  refine ⟨l, d, hl, hd, ?_⟩
  intro init raws hlen hadm hfits hne
  have h : Ctx d init raws := ⟨hok, hlen, hadm, hfits, hne⟩
  obtain ⟨b, hb, _⟩ := export_ok d init raws h
  refine ⟨b, hb, ?_⟩
  intro k hk
  have hpat : (if d.pattern = .ones then (0xFF : UInt8) else 0x00) = (if l.pattern = "ones" then 0xFF else 0x00) := by
    have hz := (Bimg.bimg_descOK_parts d hok).2.2.1
    unfold resolve at hd
    cases hrs : resolveSegs l.segs with
    | none => simp [hrs] at hd
    | some ss =>
      cases hpo : patOf l.pattern with
      | none => simp [hrs, hpo] at hd
      | some pt =>
        simp only [hrs, hpo, Option.some.injEq] at hd
        subst hd
        simp only at hz ⊢
        unfold patOf at hpo
        by_cases e1 : l.pattern = "zeros"
        · simp [e1] at hpo ⊢
          subst hpo
          simp
        · by_cases e2 : l.pattern = "ones"
          · simp [e2] at hpo ⊢
            subst hpo
            simp
          · by_cases e3 : l.pattern = "inc"
            · simp [e3] at hpo
              subst hpo
              rcases hz with hz | hz <;> cases hz
            · simp [e1, e2, e3] at hpo
  rcases export_bytes_classified d init raws h b hb k hk with ⟨i, s, o, h1, h2, h3, h4, h5, h6, _⟩ | ⟨_, h2⟩
  · exact Or.inl ⟨i, s, o, h1, h2, h3, h4, h5, h6⟩
  · right
    rw [h2, hpat]

/-! ## 6. Parse without memory type (`BootableImage.parse(binary, family)`: the family's memory types in database order) -/

/-- the first memory type whose full-image trial accepts wins (the later-start trials run only when none does) -/
theorem parseAny_first_loop (ext : Ext) (fcbSup : Bool) (descs : List (List Seg)) (bin : Bytes) (i : Nat) (r : Nat × List Found)
    (h : firstSomeIdx (fun segs => trial ext fcbSup segs bin 0) descs 0 = some (i, r)) :
    parseAny ext fcbSup descs bin = .ok (i, r.1, r.2) :=
  Bimg.parseAny_first_loop' ext fcbSup descs bin i r h

/-- a full image made for the `i`-th memory type: if every earlier memory type has the same segment table or rejects the
    image, the answer is a memory type with that segment table (the `i`-th or an earlier twin - e.g. flexspi_nand / semc_nand /
    sd / mmc share one table), init offset 0 and exactly the supplied segments.  The hypothesis on the earlier memory types is
    needed: see the open finding `C14-untyped-parse-mbi-lenient`. -/
theorem parse_any_memtype (ext : Ext) (fcbSup : Bool) (descs : List (List Seg)) (i : Nat) (d : Desc) (raws : List (Option Bytes))
    (hi : descs[i]? = some d.segs)
    (h : Ctx d 0 raws) (hsup : Supplied 0 (mkSlots d.segs raws)) (hdel : Delimit ext fcbSup 0 (mkSlots d.segs raws))
    (b : Bytes) (hb : exportImg d 0 raws = .ok b)
    (hearlier : ∀ j, j < i → ∀ s, descs[j]? = some s → s = d.segs ∨ trial ext fcbSup s b 0 = none) :
    ∃ j, j ≤ i ∧ descs[j]? = some d.segs ∧
      parseAny ext fcbSup descs b = .ok (j, 0, expectedFound 0 (mkSlots d.segs raws)) :=
  Bimg.parseAny_full' ext fcbSup descs i d raws hi h hsup hdel b hb hearlier

/-- the selection loop, exactly, for a full image made for the `i`-th memory type - NO assumption on the other memory types:
    the answer is the first memory type in database order whose full-image trial accepts the image; it is the own one or an
    earlier one; when it has the own segment table (own memory type or a twin) the answer is init offset 0 and exactly the
    supplied segments -/
theorem parse_any_selects (ext : Ext) (fcbSup : Bool) (descs : List (List Seg)) (i : Nat) (d : Desc) (raws : List (Option Bytes))
    (hi : descs[i]? = some d.segs)
    (h : Ctx d 0 raws) (hsup : Supplied 0 (mkSlots d.segs raws)) (hdel : Delimit ext fcbSup 0 (mkSlots d.segs raws))
    (b : Bytes) (hb : exportImg d 0 raws = .ok b) :
    ∃ j sj r, j ≤ i ∧ descs[j]? = some sj ∧
      (∀ k, k < j → ∀ s, descs[k]? = some s → trial ext fcbSup s b 0 = none) ∧
      trial ext fcbSup sj b 0 = some r ∧ parseAny ext fcbSup descs b = .ok (j, r.1, r.2) ∧
      (sj = d.segs → r = (0, expectedFound 0 (mkSlots d.segs raws))) :=
  Bimg.parseAny_selects' ext fcbSup descs i d raws hi h hsup hdel b hb

/-- when it is ambiguous, precisely: the answer is NOT (a memory type with the own segment table, init offset 0, the supplied
    segments) if and only if the first memory type whose full-image trial accepts the image comes BEFORE the own one and has
    ANOTHER segment table (decidable for a given `Ext`; on the real parsers this happens for the lenient MBI parser only:
    open finding `C14-untyped-parse-mbi-lenient`, and for images that legitimately are images of both memory types) -/
theorem parse_any_ambiguous_iff (ext : Ext) (fcbSup : Bool) (descs : List (List Seg)) (i : Nat) (d : Desc) (raws : List (Option Bytes))
    (hi : descs[i]? = some d.segs)
    (h : Ctx d 0 raws) (hsup : Supplied 0 (mkSlots d.segs raws)) (hdel : Delimit ext fcbSup 0 (mkSlots d.segs raws))
    (b : Bytes) (hb : exportImg d 0 raws = .ok b) :
    (¬ ∃ j, descs[j]? = some d.segs ∧
        parseAny ext fcbSup descs b = .ok (j, 0, expectedFound 0 (mkSlots d.segs raws))) ↔
    ∃ k s, k < i ∧ descs[k]? = some s ∧ s ≠ d.segs ∧ (trial ext fcbSup s b 0).isSome = true ∧
      ∀ k', k' < k → ∀ s', descs[k']? = some s' → trial ext fcbSup s' b 0 = none :=
  Bimg.parseAny_ambiguous_iff' ext fcbSup descs i d raws hi h hsup hdel b hb

/-! ## 7. `Delimit` discharged for application containers from the container models (C01 MBI, C07 HAB, C05 SB3.1 header)

With `Ext.app` given by the container model, the hypothesis `Delimit.good` of `parse_export` holds for an exported
container - it is a theorem of the container's own round trip, not an assumption.  Not available for AHAB and SB2.1 (no
model of `AHABImage.parse` / `ImageHeaderV2.parse` in C06 / C04, see Proofs/BimgDelimit.lean). -/

/-- MBI: `MasterBootImage.parse` (+ `validate()`) accepts every image `exportImage` emits, for every well-formed class and
    option set (C01 `parse_export`, `reexport`); the class selection on the exported bytes is the hypothesis `hsel` -/
theorem mbi_delimits {co : Crypto.CryptoOps} {env : Mbi.Env} {c : Mbi.Cls} {cfg : Mbi.Cfg} {signer : Mbi.Signer}
    (h : Mbi.Hyp co env c cfg signer) (fixedType : Int) (family : List Mbi.Cls) (dek : Option Bytes)
    (hdek : c.has .Mbi_MixinHmac = true → dek = cfg.hmacKey) (hdek' : c.family = some .encrypted → dek = cfg.hmacKey)
    (e : Bytes) (he : Mbi.exportImage co c cfg signer = .ok e) (hne : e ≠ [])
    (hsel : Mbi.selectClass fixedType family e = some c)
    (ext : Ext) (fcbSup : Bool) (s : Seg) (hp : s.parser = .greedy) (hsz : s.size < 0)
    (hext : ∀ data, ext.app s.kind data = mbiApp co env fixedType family dek data) :
    parseSeg ext fcbSup s (e ++ []) = .present e :=
  Bimg.mbi_delimits' h fixedType family dek hdek hdek' e he hne hsel ext fcbSup s hp hsz hext

/-- HAB, signed and encrypted containers - full strength (C07 `hab_roundtrip_signed`): whatever `build` produces from a
    well-formed authenticated / encrypted configuration is accepted by `HabContainer.parse`; no hypothesis about the application -/
theorem hab_delimits_signed (cr : Crypto.CryptoOps) (hl : Crypto.CryptoLaws cr) (sg : Hab.Signer) (fuel : Nat) (c : Hab.Cfg) (b : Hab.Built)
    (h : c.WF) (ha : c.flags ≠ 0) (hb : Hab.build cr sg fuel c = some b)
    (hd : ∀ d, c.dcd = some d → Hab.DcdWF d) (hx : ∀ x, c.xmcd = some x → Hab.XmcdWF x)
    (hm : Hab.macLenOk c.macLen = true) (hw : Hab.CsfWF c.version b.cmds)
    (h2 : (Hab.getAut 2 b.cmds).isSome = Hab.isEnc c.flags)
    (hne : Hab.exportImage c b ≠ [])
    (ext : Ext) (fcbSup : Bool) (s : Seg) (hp : s.parser = .greedy) (hsz : s.size < 0)
    (hext : ∀ data, ext.app s.kind data = habApp data) :
    parseSeg ext fcbSup s (Hab.exportImage c b ++ []) = .present (Hab.exportImage c b) :=
  Bimg.hab_delimits_of_roundtrip' c b _ (SpsdkVerif.C07.hab_roundtrip_signed cr hl sg fuel c b h ha hb hd hx hm hw h2)
    hne ext fcbSup s hp hsz hext

/-- HAB, unsigned containers - under the decidable `AppVisible` (C07 `hab_roundtrip_unsigned`): the application-offset
    heuristic of `HabContainer.parse` finds the application.  Full strength is false there (finding C07-parse-app-offset-guess),
    hence `_partial`. -/
theorem hab_delimits_unsigned_partial (c : Hab.Cfg) (b : Hab.Built) (h : c.WF) (h0 : c.flags = 0)
    (hd : ∀ d, c.dcd = some d → Hab.DcdWF d) (hx : ∀ x, c.xmcd = some x → Hab.XmcdWF x)
    (happ : b.app.length = c.appBin.length) (hv : Hab.AppVisible c b.app)
    (hne : Hab.exportImage c b ≠ [])
    (ext : Ext) (fcbSup : Bool) (s : Seg) (hp : s.parser = .greedy) (hsz : s.size < 0)
    (hext : ∀ data, ext.app s.kind data = habApp data) :
    parseSeg ext fcbSup s (Hab.exportImage c b ++ []) = .present (Hab.exportImage c b) :=
  Bimg.hab_delimits_of_roundtrip' c b _ (SpsdkVerif.C07.hab_roundtrip_unsigned c b h h0 hd hx happ hv) hne ext fcbSup s hp hsz hext

/-- MBI rows end to end: with the container parser given by the C01 model, parsing the exported image recovers every supplied
    segment for every init offset; the hypotheses speak about the supplied bytes only (see Proofs/BimgDelimit.lean) -/
theorem parse_export_mbi_row {co : Crypto.CryptoOps} {env : Mbi.Env} {c : Mbi.Cls} {cfg : Mbi.Cfg} {signer : Mbi.Signer}
    (hm : Mbi.Hyp co env c cfg signer) (fixedType : Int) (family : List Mbi.Cls) (dek : Option Bytes)
    (hdek : c.has .Mbi_MixinHmac = true → dek = cfg.hmacKey) (hdek' : c.family = some .encrypted → dek = cfg.hmacKey)
    (e : Bytes) (he : Mbi.exportImage co c cfg signer = .ok e)
    (hsel : Mbi.selectClass fixedType family e = some c)
    (ext : Ext) (fcbSup : Bool) (d : Desc) (init : Nat) (raws : List (Option Bytes))
    (h : Ctx d init raws) (hsup : Supplied init (mkSlots d.segs raws))
    (hkinds : ∀ s ∈ mkSlots d.segs raws, s.seg.parser = .raw ∨ s.seg.parser = .imageVersion ∨ s.seg.parser = .imageVersionAp ∨
      s.seg.parser = .fcb ∨ s.seg.parser = .greedy)
    (hext : ∀ s ∈ mkSlots d.segs raws, s.seg.parser = .greedy → ∀ data, ext.app s.seg.kind data = mbiApp co env fixedType family dek data)
    (hraw : ∀ s ∈ mkSlots d.segs raws, s.present init = true → s.seg.parser = .raw →
      (s.bytes.length : Int) = s.seg.size ∧ isPadding s.seg s.bytes = false)
    (hiv : ∀ s ∈ mkSlots d.segs raws, s.present init = true →
      (s.seg.parser = .imageVersion ∨ s.seg.parser = .imageVersionAp) → s.bytes.length = 4)
    (hfcb : ∀ s ∈ mkSlots d.segs raws, s.present init = true → s.seg.parser = .fcb →
      (s.bytes.length : Int) = s.seg.size ∧
      (s.bytes.take 4 = BimgTables.fcbTag ∨ s.bytes.take 4 = BimgTables.fcbTagSwapped) ∧
      (fcbSup = true → ext.fcbOk s.bytes = true) ∧ (fcbSup = false → isPadding s.seg s.bytes = false))
    (hmbi : ∀ s ∈ mkSlots d.segs raws, s.present init = true → s.seg.parser = .greedy → s.bytes = e)
    (b : Bytes) (hb : exportImg d init raws = .ok b) :
    walk ext fcbSup init d.segs b = .ok (expectedFound init (mkSlots d.segs raws)) :=
  Bimg.parse_export_mbi_row' hm fixedType family dek hdek hdek' e he hsel ext fcbSup d init raws h hsup hkinds hext hraw hiv hfcb hmbi b hb

/-- SB3.1: a file that begins with an encoded header (fields in range) passes the header validation, whatever follows
    (header reader of the C05 ROM model) -/
theorem sb31_delimits (h : Sb31.Header) (wf : Sb31.Spec.HeaderWF h) (body : Bytes)
    (ext : Ext) (fcbSup : Bool) (s : Seg) (hp : s.parser = .sb) (hsz : s.size < 0)
    (hext : ∀ data, ext.app s.kind data = sb31App data) :
    parseSeg ext fcbSup s ((Sb31.encHeader h ++ body) ++ []) = .present (Sb31.encHeader h ++ body) :=
  Bimg.sb31_delimits' h wf body ext fcbSup s hp hsz hext

/-! ## 7b. One object, many init-offset assignments: history independence -/

/-- the setter recomputes the segments' `excluded` flags on BOTH of its paths (`offset == 0` and non-zero) - read from the
    setter's source on every run; a path that skips `_update_segments()` makes this (and the theorems below) fail -/
theorem setter_updates_on_every_path :
    BimgTables.setterUpdatesOnZero = true ∧ BimgTables.setterUpdatesOnNonZero = true := by decide

/-- after ANY sequence of init-offset assignments (by integer, by segment, refused ones included) on a fresh object the
    `excluded` flags are exactly those of the current init offset: a function of (segment table, init offset) only -/
theorem excluded_history_independent (segs : List Seg) (ops : List InitOp) :
    (runOps segs (freshObj segs) ops).excl = segs.map (excluded (runOps segs (freshObj segs) ops).init) :=
  Bimg.bimgS_run setter_updates_on_every_path.1 setter_updates_on_every_path.2 segs ops _ (Bimg.bimgS_fresh segs)

/-- two histories that end at the same init offset leave the object in the same state - in particular X → 0 equals fresh -/
theorem same_init_same_object (segs : List Seg) (ops₁ ops₂ : List InitOp)
    (h : (runOps segs (freshObj segs) ops₁).init = (runOps segs (freshObj segs) ops₂).init) :
    runOps segs (freshObj segs) ops₁ = runOps segs (freshObj segs) ops₂ := by
  have h1 := excluded_history_independent segs ops₁
  have h2 := excluded_history_independent segs ops₂
  cases hs1 : runOps segs (freshObj segs) ops₁ with
  | mk i1 e1 =>
    cases hs2 : runOps segs (freshObj segs) ops₂ with
    | mk i2 e2 =>
      rw [hs1] at h h1; rw [hs2] at h h2
      simp only at h h1 h2
      subst h
      rw [h1, h2]

/-! ## 8. Non-vacuity: a concrete row, concrete payloads, a concrete `Ext` -/

/-- toy container format for the examples: `A5 n …` is a container of `n` bytes -/
def exExt : Ext where
  app _ data := match data with
    | 0xA5 :: n :: _ => if n.toNat ≤ data.length ∧ 2 ≤ n.toNat then some n.toNat else none
    | _ => none
  find _ data := match data with
    | 0xA5 :: _ => some 0
    | _ => none
  fcbOk _ := true
  xmcd _ := none

/-- a miniature of the i.MX 9x flexspi_nor row (keyblob 0x0 / fcb 0x400 / primary container set 0x1000 / secondary
    container set dynamic, 1024-aligned) with small numbers: raw header of 4 bytes at 0, FCB of 8 bytes at 8, primary
    container at 32, secondary container dynamic with alignment 8 -/
def exDesc : Desc where
  pattern := .zeros
  segs := [
    { kind := 0, size := 4, align := 1, initSeg := false, bootHeader := true, parser := .raw, extFind := false,
      ownLen := false, patterns := [.zeros, .ones], pos := some 0 },
    { kind := 1, size := 8, align := 1, initSeg := true, bootHeader := true, parser := .fcb, extFind := false,
      ownLen := false, patterns := [.zeros, .ones], pos := some 8 },
    { kind := 12, size := -1, align := 1, initSeg := true, bootHeader := false, parser := .ahab, extFind := true,
      ownLen := true, patterns := [.zeros, .ones], pos := some 32 },
    { kind := 13, size := -1, align := 8, initSeg := false, bootHeader := false, parser := .ahab, extFind := true,
      ownLen := true, patterns := [.zeros, .ones], pos := none }]

def exKeyblob : Bytes := [7, 7, 7, 7]
def exFcb : Bytes := BimgTables.fcbTag ++ [9, 9, 9, 9]
def exRaws : List (Option Bytes) := [some exKeyblob, some exFcb, some [0xA5, 5, 1, 2, 3], some [0xA5, 3, 8]]
def exRaws2 : List (Option Bytes) := [none, some exFcb, some [0xA5, 5, 1, 2, 3], none]

example : descOK exDesc = true := by decide
/-- the real rows resolve to descriptions of the same shape, e.g. the i.MX 9x flexspi_nor layout -/
example : (resolve ⟨[(0, 0), (1, 1024), (12, 4096), (13, -1)], "zeros"⟩).any
    (fun d => d.segs.map (·.pos) == [some 0, some 1024, some 4096, none] && descOK d) = true := by decide +kernel
example : (List.range 4).map (segOffset 0 (mkSlots exDesc.segs exRaws)) = [.ok 0, .ok 8, .ok 32, .ok 40] := by decide
example : (List.range 4).map (segOffset 8 (mkSlots exDesc.segs exRaws)) = [.error .spsdk, .ok 0, .ok 24, .ok 32] := by
  decide
example : setInit exDesc.segs 1 = .ok 8 ∧ setInit exDesc.segs 9 = .ok 32 ∧ setInit exDesc.segs 33 = .error .spsdk ∧
    setInit exDesc.segs (-1) = .error .spsdk := by decide
example : exportImg exDesc 0 exRaws2 =
    .ok ([0, 0, 0, 0, 0, 0, 0, 0] ++ exFcb ++ List.replicate 16 0 ++ [0xA5, 5, 1, 2, 3]) := by decide +kernel
example : (exportImg exDesc 0 exRaws).toOption.map List.length = some 43 := by decide +kernel
example : Ctx exDesc 8 exRaws :=
  ⟨by decide, by decide, by decide, by decide, ⟨⟨exDesc.segs[1], some exFcb⟩, by decide, by decide⟩⟩

/-- export, then `_parse` with the same init offset gives back what was supplied -/
def exWalkTrip (init : Nat) (raws : List (Option Bytes)) : Bool :=
  match exportImg exDesc init raws with
  | .ok b => decide (walk exExt false init exDesc.segs b = .ok (expectedFound init (mkSlots exDesc.segs raws)))
  | .error _ => false
/-- … and so does `parse` (all trials) -/
def exParseTrip (init : Nat) (raws : List (Option Bytes)) : Bool :=
  match exportImg exDesc init raws with
  | .ok b => decide (parseAll exExt false exDesc.segs b = .ok (init, expectedFound init (mkSlots exDesc.segs raws)))
  | .error _ => false
example : ∀ init ∈ [0, 8, 32], ∀ raws ∈ [exRaws, exRaws2], exWalkTrip init raws = true := by decide +kernel
example : ∀ p ∈ [(0, exRaws), (0, exRaws2), (8, exRaws2), (32, exRaws), (32, exRaws2)],
    exParseTrip p.1 p.2 = true := by decide +kernel
/-- the hypothesis of `parseAll_later` is needed: the image that starts at the FCB, read as a full image, shows the FCB
    bytes where the (unvalidated) raw header is expected and the secondary container where the primary one is expected -
    the full-image trial comes first and wins (cf. known finding `C14-later-start-misdetected`) -/
example : (match exportImg exDesc 8 exRaws with
    | .ok b => decide (parseAll exExt false exDesc.segs b =
        .ok (0, [some (0, exFcb.take 4), none, some (32, [0xA5, 3, 8]), none]))
    | .error _ => false) = true := by decide +kernel
example : expectedFound 8 (mkSlots exDesc.segs exRaws) =
    [none, some (0, exFcb), some (24, [0xA5, 5, 1, 2, 3]), some (32, [0xA5, 3, 8])] := by decide +kernel

/-- flash dumps: `TrailOK` holds for any trailing bytes when the floating last entry is supplied, and for trailing bytes inside
    the alignment gap (37 → 40) when it is not -/
example : TrailOK 0 (mkSlots exDesc.segs exRaws) 43 (List.replicate 100 7) := by
  intro s hs
  have e : (mkSlots exDesc.segs exRaws).getLast? = some ⟨exDesc.segs[3], some [0xA5, 3, 8]⟩ := by decide
  rw [e] at hs; cases hs
  exact ⟨by decide, by decide, fun h => absurd h (by decide)⟩
example : TrailOK 0 (mkSlots exDesc.segs exRaws2) 37 [7, 7, 7] := by
  intro s hs
  have e : (mkSlots exDesc.segs exRaws2).getLast? = some ⟨exDesc.segs[3], none⟩ := by decide
  rw [e] at hs; cases hs
  exact ⟨by decide, by decide, fun _ => by decide⟩
/-- export, append trailing bytes, `parse` (all trials): the same answer as without them -/
def exTrailTrip (init : Nat) (raws : List (Option Bytes)) (tail : Bytes) : Bool :=
  match exportImg exDesc init raws with
  | .ok b => decide (parseAll exExt false exDesc.segs (b ++ tail) = .ok (init, expectedFound init (mkSlots exDesc.segs raws)))
  | .error _ => false
example : ∀ p ∈ [(0, exRaws, List.replicate 100 7), (32, exRaws, [0xA5, 9, 9]), (0, exRaws2, [7, 7, 7]), (8, exRaws2, [1, 2, 3])],
    exTrailTrip p.1 p.2.1 p.2.2 = true := by decide +kernel
/-- the gap condition of `TrailOK` is needed: with the floating entry absent and trailing bytes that reach beyond the aligned
    offset (40) where it would be looked for, `find_segment_offset` runs over the trailing bytes, finds no container and the
    whole parse fails (every trial) -/
example : (match exportImg exDesc 0 exRaws2 with
    | .ok b => decide (b.length = 37 ∧ parseAll exExt false exDesc.segs (b ++ [7, 7, 7, 7]) = .error .spsdk)
    | .error _ => false) = true := by decide +kernel
/-- every byte of an export is a segment byte or the fill byte (`export_bytes_classified` on the example) -/
example : exportImg exDesc 8 exRaws =
    .ok (exFcb ++ List.replicate 16 0 ++ [0xA5, 5, 1, 2, 3] ++ [0, 0, 0] ++ [0xA5, 3, 8]) := by decide +kernel

/-- a key-store-like block that is a MIX of 0x00 and 0xFF bytes is not padding: it delimits itself (`raw_delimits_nonuniform`) -/
example : (∀ p ∈ (exDesc.segs[0]).patterns, p = .zeros ∨ p = .ones) ∧
    ([0, 0xFF, 0xFF, 0xFF] : Bytes) ≠ List.replicate 4 0x00 ∧ ([0, 0xFF, 0xFF, 0xFF] : Bytes) ≠ List.replicate 4 0xFF ∧
    parseSeg exExt false exDesc.segs[0] ([0, 0xFF, 0xFF, 0xFF] ++ [1, 2]) = .present [0, 0xFF, 0xFF, 0xFF] ∧
    parseSeg exExt false exDesc.segs[0] ([0xFF, 0xFF, 0xFF, 0xFF] ++ [1, 2]) = .absent := by decide

/-- parse without memory type: a family with two memory types - a container-only table (like serial_downloader) first, then
    `exDesc`; the full image made for the second is answered with index 1 (the first one's trial rejects the padding), and the
    image that holds just the container is answered with index 0 although it was made for `exDesc` starting at 32: it IS a
    valid image of the first memory type as well (same segments found) -/
def exDescs : List (List Seg) := [(exDesc.segs.drop 2).map (fun s => { s with pos := s.pos.map (fun _ => 0) }), exDesc.segs]
example : (match exportImg exDesc 0 exRaws2 with
    | .ok b => (match parseAny exExt false exDescs b with
        | .ok (i, ini, f) => decide (i = 1 ∧ ini = 0 ∧ f = expectedFound 0 (mkSlots exDesc.segs exRaws2))
        | .error _ => false)
    | .error _ => false) = true := by decide +kernel
example : (match exportImg exDesc 32 exRaws with
    | .ok b => (match parseAny exExt false exDescs b with
        | .ok (i, ini, f) => decide (i = 0 ∧ ini = 0 ∧ f = [some (0, [0xA5, 5, 1, 2, 3]), some (8, [0xA5, 3, 8])])
        | .error _ => false)
    | .error _ => false) = true := by decide +kernel

/-- one object: to the primary container and back to 0 is the fresh object again; a refused request changes nothing -/
example : runOps exDesc.segs (freshObj exDesc.segs) [.byKind 12, .byInt 0] = ⟨0, [false, false, false, false]⟩ ∧
    runOps exDesc.segs (freshObj exDesc.segs) [.byInt 9, .byInt 1, .byInt 99, .byKind 13] = ⟨8, [true, false, false, false]⟩ := by decide

end SpsdkVerif.C14
