import SpsdkVerif.Model.Bimg
namespace SpsdkVerif.C14
open SpsdkVerif SpsdkVerif.Bimg SpsdkVerif.Generated

theorem layouts_resolve : ∀ l ∈ BimgTables.layouts, (resolve l).isSome = true := by decide

end SpsdkVerif.C14
