/-
C17 — Secrets SPSDK invents are fresh for every artifact.

Model: Model/Fresh.lean (evaluation-time semantics).  Site table: Generated/SecretSites.lean, regenerated
from the AST of /repo/spsdk on every run (every call of a `secrets.*` / rng.py primitive with the time its
expression is evaluated; early-evaluated constructor calls are followed to the draws they reach).

* `fresh_iff`            freshness over ALL histories (any number of builds, each using any sites)
                         ⇔ every site is evaluated per call.                         (induction, unbounded)
* `fresh_all_distinct`   per-call programs never hand out one value twice at all (DEK ≠ MAC key too).
* `sites_per_call`       the obligation the current tree must meet (fails on a default-argument /
                         class-attribute draw such as `advanced_params=SBV2xAdvancedParams()` or
                         `NEEDED_MEMBERS = {"_ctr_init_vector": random_bytes(16)}`).
* `sites_use_os_entropy`, `rng_wrappers_fresh`   the draws come from OS entropy through pass-through
                         wrappers (restart clause: nothing seedable / cached inside rng.py).
* `current_tree_fresh`   the two combined: no history over the current site table shares a value.
* `reuse_fresh_iff`      (phase 2) histories with object identity (`new`/`respec`/`emit`): no left-over user value and no
                         self-chosen value shared by two different builds ⇔ every re-specification path resets;
  `respec_paths_reset`   (`decide`) the obligation over Generated/SecretState.lean (setters, load_from_config, parse paths
                         of every class that stores a self-chosen secret); `current_tree_reuse_safe` combines them.
* `file_fresh_iff`       (phase 2) rebuilds into ONE directory (the secret file written by build k is there for build k+1, also
                         after an interpreter restart): non-reuse builds carry pairwise different self-chosen values ⇔
                         the explicit reuse flag — not a file-system probe — selects the source;
  `secret_sources_explicit` (`decide`) over Generated.secretSources (every draw that is one of several alternative sources
                         of a variable, with the kind of its guard); `current_tree_file_fresh`.
* `artifacts_fresh_iff`  (phase 2) one call serving several artifacts: the artifacts of all calls of a history get pairwise
                         different values ⇔ the draw / drawing constructor call is inside the artifact loop;
  `sites_per_artifact`   (`decide`) over Generated.loopUses; `current_tree_artifacts_fresh`.
* `kept_value_shares`    the boundary of the model: a value kept from another artifact (re-used builder object, cache)
                         always violates the property; detected at run time (trace flag), not by the site table.
* `ctr_pair_unique`      corollary: no two artifacts of any history feed the same (key, nonce) to AES-CTR
                         as soon as SPSDK chose the key in both (SB2: DEK) or the nonce in both
                         (SB2 nonce, MBI counter IV with a user key).
-/
import SpsdkVerif.Model.Fresh
import SpsdkVerif.Proofs.Fresh
import SpsdkVerif.Generated.SecretSites
import SpsdkVerif.Proofs.FreshObj
import SpsdkVerif.Generated.SecretState
import SpsdkVerif.Proofs.FreshFile
import SpsdkVerif.Proofs.FreshLoop

namespace SpsdkVerif.C17
open SpsdkVerif.Fresh

/-- Per-call programs hand out pairwise distinct values, whatever the history. -/
theorem fresh_all_distinct (P : List Site) (hp : ∀ s ∈ P, s.evalTime = .perCall) (h : History) :
    AllDistinct (run P h) := by
  have hb := boot_perCall P hp 0
  have hr := (runFrom_fresh (boot P 0).1 hb.2 0 h (boot P 0).2).2
  exact hr.imp (fun hlt => Nat.ne_of_lt hlt)

/-- **Freshness ⇔ every site is per-call.**  Quantified over all histories: any number of constructions,
    each using any list of sites, in any interleaving. -/
theorem fresh_iff (P : List Site) :
    (∀ h : History, NoSharing (run P h)) ↔ ∀ s ∈ P, s.evalTime = .perCall := by
  constructor
  · intro hall s hs
    apply Classical.byContradiction
    intro he
    obtain ⟨i, hi⟩ := List.getElem?_of_mem hs
    obtain ⟨t, ht⟩ := run_early_shares P i s hi he
    have := hall [[i], [i]]
    rw [ht] at this
    exact this ⟨0, i, t⟩ (by simp) ⟨1, i, t⟩ (by simp) (by simp) rfl
  · intro hp h
    exact noSharing_of_allDistinct _ (fresh_all_distinct P hp h)

/-- The obligation on the current tree: no drawing expression sits in a default argument, a class body or
    at module level. -/
theorem sites_per_call : ∀ s ∈ Generated.secretSites, s.evalTime = .perCall := by decide

/-- Every site draws from OS entropy: `secrets.*` / `os.urandom` directly or through an rng.py wrapper. -/
theorem sites_use_os_entropy :
    ∀ s ∈ Generated.secretSites, s.source = .rngWrapper ∨ s.source = .secrets ∨ s.source = .osUrandom := by decide

/-- The rng.py wrappers wrap OS entropy and every `return` returns a draw made right there (no cache, no constant). -/
theorem rng_wrappers_fresh :
    ∀ w ∈ Generated.rngWrappers, w.everyReturnDraws = true ∧ (w.source = .secrets ∨ w.source = .osUrandom) := by decide

/-- On the current tree no history shares a self-chosen value between two artifacts. -/
theorem current_tree_fresh (h : History) : NoSharing (run Generated.secretSites h) :=
  (fresh_iff Generated.secretSites).mpr sites_per_call h

/-- **(key, nonce) pairs are never repeated** between two artifacts of a history over the current site table,
    as soon as one component is self-chosen in both (SB2: DEK and nonce; MBI: counter IV under a user key). -/
theorem ctr_pair_unique (h : History) (u v : CtrUse)
    (hu : u.FromRun (run Generated.secretSites h)) (hv : v.FromRun (run Generated.secretSites h))
    (hne : u.art ≠ v.art)
    (hself : (u.key.isChosen = true ∧ v.key.isChosen = true) ∨ (u.nonce.isChosen = true ∧ v.nonce.isChosen = true)) :
    (u.key, u.nonce) ≠ (v.key, v.nonce) := by
  have hfresh := current_tree_fresh h
  intro heq
  have hk : u.key = v.key := congrArg Prod.fst heq
  have hn : u.nonce = v.nonce := congrArg Prod.snd heq
  rcases hself with ⟨hku, _⟩ | ⟨hnu, _⟩
  · cases hkv : u.key with
    | user b => simp [hkv, Val.isChosen] at hku
    | chosen t =>
      obtain ⟨x, hx, hxa, hxt⟩ := hu.1 t hkv
      obtain ⟨y, hy, hya, hyt⟩ := hv.1 t (hk ▸ hkv)
      exact hfresh x hx y hy (by rw [hxa, hya]; exact hne) (by rw [hxt, hyt])
  · cases hnv : u.nonce with
    | user b => simp [hnv, Val.isChosen] at hnu
    | chosen t =>
      obtain ⟨x, hx, hxa, hxt⟩ := hu.2 t hnv
      obtain ⟨y, hy, hya, hyt⟩ := hv.2 t (hn ▸ hnv)
      exact hfresh x hx y hy (by rw [hxa, hya]; exact hne) (by rw [hxt, hyt])

/-- **What `run` does not cover: values kept in a re-used builder object.**  `run` lets an artifact obtain a value only by
    evaluating a site during its own build (or by reading an early site).  An artifact `b` that instead keeps the value
    another artifact `x.art` obtained (a builder object used for a second artifact whose stored IV is not drawn again,
    a cache, …) is outside `run`, and always breaks the property — whatever the site table says.  The harness therefore
    checks for every value found in an artifact that it was drawn during that artifact's own build (trace flag `x`
    otherwise, which no output of `run` ever carries) and builds second artifacts with re-used builder objects. -/
theorem kept_value_shares (o : List Obs) (x : Obs) (hx : x ∈ o) (b : Nat) (hb : b ≠ x.art) :
    ¬ NoSharing (o ++ [⟨b, x.site, x.tok⟩]) := by
  intro h
  exact h x (by simp [hx]) ⟨b, x.site, x.tok⟩ (by simp) (fun e => hb e.symm) rfl

/-! ### Re-used builder objects (phase 2): Model/FreshObj.lean, Generated/SecretState.lean -/

/-- a path that keeps the old value leaks a value the user supplied for an earlier build into a build that supplied nothing -/
theorem keep_path_leaks_user_value (T : List Bool) (p : Nat) (hp : T[p]? = some false) :
    runObj T [.new 0, .respec 0 p (some 7), .emit 0, .respec 0 p none, .emit 0] =
      [⟨0, 3, false, .user 7⟩, ⟨0, 2, true, .user 7⟩] := by
  have h : T[p]? = [false][0]? := by simpa using hp
  have e : runObj T [.new 0, .respec 0 p (some 7), .emit 0, .respec 0 p none, .emit 0] =
      runObj [false] [.new 0, .respec 0 0 (some 7), .emit 0, .respec 0 0 none, .emit 0] := by
    simp only [runObj, orun, List.foldl, ostep_respec_congr T [false] p 0 h, ostep_new_congr T [false], ostep_emit_congr T [false]]
  rw [e]; decide

/-- … and makes two different builds share a self-chosen value (the seeded change C17a: artifact B encrypted with A's IV) -/
theorem keep_path_shares_chosen_value (T : List Bool) (p : Nat) (hp : T[p]? = some false) :
    runObj T [.new 0, .emit 0, .respec 0 p none, .emit 0] = [⟨0, 2, false, .chosen 0⟩, ⟨0, 1, false, .chosen 0⟩] := by
  have h : T[p]? = [false][0]? := by simpa using hp
  have e : runObj T [.new 0, .emit 0, .respec 0 p none, .emit 0] = runObj [false] [.new 0, .emit 0, .respec 0 0 none, .emit 0] := by
    simp only [runObj, orun, List.foldl, ostep_respec_congr T [false] p 0 h, ostep_new_congr T [false], ostep_emit_congr T [false]]
  rw [e]; decide

/-- **Freshness across re-use histories ⇔ every re-specification path resets.**  For all histories of `new` / `respec` /
    `emit` steps over any number of objects: (1) a build for which nothing was supplied never carries a left-over user
    value and (2) a self-chosen value is shared only by artifacts of the same build of the same object — if and only if
    every path of the table (re)sets the secret on every path.  Generalises `kept_value_shares`. -/
theorem reuse_fresh_iff (T : List Bool) : (∀ h : List Step, Safe (runObj T h)) ↔ ∀ r ∈ T, r = true := by
  constructor
  · intro hall r hr
    cases r with
    | true => rfl
    | false =>
      exfalso
      obtain ⟨p, hp⟩ := List.getElem?_of_mem hr
      have h1 := (hall [.new 0, .respec 0 p (some 7), .emit 0, .respec 0 p none, .emit 0]).1
      rw [keep_path_leaks_user_value T p hp] at h1
      obtain ⟨t, ht⟩ := h1 ⟨0, 3, false, .user 7⟩ (by simp) rfl
      cases ht
  · intro hT h
    exact (oinv_foldl T (fun p r hp => hT r (List.mem_of_getElem? hp)) h {} oinv_init).safe

/-- the re-specification paths of the current tree that the obligation is about: public entry points (setters,
    `*load*config*`, `*parse*`) writing an attribute that receives a draw made in the class itself -/
def respecPaths : List SlotPath := Generated.secretSlots.filter (fun r => r.role = .respec && r.direct)

/-- **The obligation on the current tree**: every such path (re)sets the secret on every normal path — also when the user
    supplied nothing (fails for `if cfg_value: self.x = …` without an else, the seeded change C17a). -/
theorem respec_paths_reset : ∀ r ∈ Generated.secretSlots, r.role = .respec → r.direct = true → r.resets = true := by decide

/-- On the current tree no history that re-uses builder objects through these paths leaks or shares a secret. -/
theorem current_tree_reuse_safe (h : List Step) : Safe (runObj (respecPaths.map (·.resets)) h) := by
  refine (reuse_fresh_iff _).mpr ?_ h
  intro r hr
  obtain ⟨x, hx, rfl⟩ := List.mem_map.mp hr
  have hx' := List.mem_filter.mp hx
  have h2 : x.role = .respec ∧ x.direct = true := by simpa using hx'.2
  exact respec_paths_reset x hx'.1 h2.1 h2.2

/-! ### Same-directory rebuilds (phase 2): Model/FreshFile.lean, Generated.secretSources -/

/-- **Freshness across rebuilds into one directory ⇔ the explicit flag decides.**  For every initial content of the
    directory and every history of builds (with / without the reuse flag), user-placed key files and clean-ups — the file
    system state is what survives an interpreter restart, so this covers restarts too —: every build that did not ask for
    reuse carries a value SPSDK chose, all of them pairwise different, if and only if the choice between "draw" and "read
    the file" is made by the user's flag and not by what is found in the file system. -/
theorem file_fresh_iff (g : Guard) : (∀ init h, SafeF (runF g init h)) ↔ g = .flag := by
  constructor
  · intro hall
    cases g with
    | flag => rfl
    | fileExists =>
      exfalso
      have h := (hall none [.build false, .build false]).2
      revert h
      decide
  · rintro rfl init h
    have hI : FInv (h.foldl (fstep .flag) { file := init.map .user }) :=
      finv_foldl h _ ⟨by simp, by simp⟩
    exact ⟨fun a ha hr => (hI.1 a ha hr).imp (fun t ht => ht.1), hI.2⟩

/-- with the reuse flag the build uses exactly what is in the file (whoever put it there) -/
theorem reuse_reads_file (g : Guard) (s : FSt) (v : OVal) (hf : s.file = some v) :
    (fstep g s (.build true)).arts = ⟨true, v⟩ :: s.arts := by
  cases g <;> simp [fstep, hf]

/-- **The obligation on the current tree**: no draw that is one of several alternative sources of a secret is selected by
    a guard that probes the file system (fails for `find_file(.., raise_exc=False)` + `if path:` in `get_dek_from_config`,
    the seeded change C17c). -/
theorem secret_sources_explicit : ∀ r ∈ Generated.secretSources, r.guard = .flag := by decide

/-- On the current tree rebuilding into the same directory never re-uses a self-chosen secret unasked, for every site. -/
theorem current_tree_file_fresh (r : SourceChoice) (hr : r ∈ Generated.secretSources) (init : Option Nat) (h : List FStep) :
    SafeF (runF r.guard init h) :=
  (file_fresh_iff r.guard).mpr (secret_sources_explicit r hr) init h

/-! ### Several artifacts from one call (phase 2): Model/FreshLoop.lean, Generated.loopUses -/

/-- **The artifacts of one call — and of all calls of a history — get pairwise different values ⇔ the draw is inside the
    artifact loop.**  For all histories of calls and all numbers of artifacts per call. -/
theorem artifacts_fresh_iff (inside : Bool) :
    (∀ h : List Nat, (runCalls inside h 0).Pairwise (· ≠ ·)) ↔ inside = true := by
  constructor
  · intro hall
    cases inside with
    | true => rfl
    | false =>
      exfalso
      have h := hall [2]
      revert h
      decide
  · rintro rfl h
    exact (runCalls_inside_sorted h 0).2.imp (fun hlt => Nat.ne_of_lt hlt)

/-- **The obligation on the current tree**: wherever a value that was drawn (or an object whose constructor draws) is handed
    to something inside a `for` loop over a collection, it is defined inside that loop (fails when `kib = BeeKIB()` is
    hoisted out of the per-engine loop of `BeeNxp.load_from_config`, the seeded change C17d). -/
theorem sites_per_artifact : ∀ r ∈ Generated.loopUses, r.inside = true := by decide

theorem current_tree_artifacts_fresh (r : LoopUse) (hr : r ∈ Generated.loopUses) (h : List Nat) :
    (runCalls r.inside h 0).Pairwise (· ≠ ·) :=
  (artifacts_fresh_iff r.inside).mpr (sites_per_artifact r hr) h

/-! ### Sanity checks / non-vacuity -/

-- the loop table covers the multi-artifact builders BEE (engines) and IEE (key blobs) …
example : ∀ k ∈ [Kind.bee, .iee], ∃ r ∈ Generated.loopUses, r.kind = k := by decide
-- … C17d in the model: both engines of one call get the same KIB, the next call another one
example : runCalls false [2, 1] 0 = [0, 0, 1] := by decide
example : runCalls true [2, 0, 1, 3] 0 = [0, 1, 2, 3, 4, 5] := by decide

-- the table of alternative sources contains the one site whose alternative is a file (HAB DEK) …
example : ∃ r ∈ Generated.secretSources, r.kind = .hab ∧ r.altFile = true := by decide
-- … C17c in the model: the second build into the directory silently gets the first build's DEK
example : runF .fileExists none [.build false, .build false] = [⟨false, .chosen 0⟩, ⟨false, .chosen 0⟩] := by decide
example : runF .flag none [.build false, .build false, .build true, .place 5, .build true, .build false] =
    [⟨false, .chosen 2⟩, ⟨true, .user 5⟩, ⟨true, .chosen 1⟩, ⟨false, .chosen 1⟩, ⟨false, .chosen 0⟩] := by decide

-- the object-state table covers the MBI counter IV (getter + at least three public re-specification paths) …
example : 3 ≤ (respecPaths.filter (fun r => r.kind = .mbi)).length := by decide
example : ∃ r ∈ Generated.secretSlots, r.kind = .mbi ∧ r.role = .getter := by decide
-- … an object exported twice in one build shares its value by design (`BootImageV2x` re-export, same epoch = same build)
example : runObj [] [.new 0, .emit 0, .emit 0] = [⟨0, 1, false, .chosen 0⟩, ⟨0, 1, false, .chosen 0⟩] := by decide
example : Safe (runObj [] [.new 0, .emit 0, .emit 0]) := (reuse_fresh_iff []).mpr (by simp) _
-- … two objects, a reload with a resetting path: three different values
example : runObj [true] [.new 0, .emit 0, .new 1, .emit 1, .respec 0 0 none, .emit 0] =
    [⟨0, 2, false, .chosen 2⟩, ⟨1, 1, false, .chosen 1⟩, ⟨0, 1, false, .chosen 0⟩] := by decide


-- the table is not empty and covers the artifact families of the property
example : 20 ≤ Generated.secretSites.length := by decide
example : ∀ k ∈ [Kind.sb2, .mbi, .otfad, .iee, .bee, .hab, .filler], ∃ s ∈ Generated.secretSites, s.kind = k := by decide
example : Generated.rngWrappers.length ≠ 0 := by decide

private def pinnedSb2 : List Site := [
  { kind := .sb2, field := "dek", evalTime := .perCall, loc := "images.py:85" },
  { kind := .sb2, field := "nonce", evalTime := .perCall, loc := "images.py:61" },
  { kind := .sb2, field := "dek", evalTime := .atDefinition, loc := "images.py:85", via := "images.py:160" },
  { kind := .mbi, field := "ctr_init_vector", evalTime := .atImport, loc := "mbi_mixin.py:1854" }]

-- the pinned tree's defect in the model: two images built with the default argument share the DEK ...
example : run pinnedSb2 [[2], [2]] = [⟨0, 2, 0⟩, ⟨1, 2, 0⟩] := by decide
example : ¬ NoSharing (run pinnedSb2 [[2], [2]]) := by
  intro h; exact h ⟨0, 2, 0⟩ (by decide) ⟨1, 2, 0⟩ (by decide) (by decide) rfl
-- ... while explicit per-call construction gives every image its own DEK and nonce
example : run pinnedSb2 [[0, 1], [0, 1]] = [⟨0, 0, 2⟩, ⟨0, 1, 3⟩, ⟨1, 0, 4⟩, ⟨1, 1, 5⟩] := by decide
-- the hypotheses of `ctr_pair_unique` are satisfiable on the current table (two builds using its first two sites)
example : (run Generated.secretSites [[0, 1], [0, 1]]).length = 4 := by decide
example : CtrUse.FromRun (run Generated.secretSites [[0, 1], [0, 1]]) ⟨1, .chosen 2, .user [1, 2]⟩ := by
  refine ⟨fun t ht => ?_, fun t ht => by cases ht⟩
  cases ht
  exact ⟨⟨1, 0, 2⟩, by decide, rfl, rfl⟩

end SpsdkVerif.C17
