/-
C19 — BD command files mean what they say.

Layers (see design_notes/C19.md):
  Generated.BdGrammar  re-extracted from /repo on every run: `precedence`, operator texts, productions, and the
                       bodies of the `expr` / `bool_expr` / `unary_expr` / `LNOT` / `DEFINED` / range / erase rules
  Spec (BdSem, BdStmtSem)  the language semantics written independently
  Model (Bd, BdStmt)   lexer, reference parser, evaluator over the generated actions, statement elaboration
Theorems: generated = Spec (re-proved against the current rule bodies), reference parser ∘ printer = id for every
abstract expression, evaluation of the parsed text = Spec evaluation, one command per supported statement with the
operands the Spec states, unsupported constructs refused.  Helper lemmas: Proofs/Bd.lean.
-/
import SpsdkVerif.Proofs.Bd
import SpsdkVerif.Proofs.BdLex
import SpsdkVerif.Proofs.BdLexFull
namespace SpsdkVerif.C19
open SpsdkVerif SpsdkVerif.Bd SpsdkVerif.Generated

/-! ### The generated grammar facts are the documented ones -/

/-- The parser's precedence declaration orders the operators as C does: within the arithmetic/bitwise level (with unary ±
    at the additive level) and within the comparison/logical level (with `!`) every pair of operators is ordered alike,
    and every binary operator is declared left-associative.  (Rows of different grammar levels never meet, so their
    relative position in the tuple is immaterial.) -/
theorem precedence_agrees :
    genLevels.sameOrder Spec.levels = true ∧
    (∀ o : BinOp, assocIn BdGrammar.precedence o.tokName = "left") ∧
    (∀ o : CmpOp, assocIn BdGrammar.precedence o.tokName = "left") := by
  refine ⟨by decide, ?_, ?_⟩ <;> intro o <;> cases o <;> decide

/-- the lexer gives every operator its documented spelling -/
theorem operator_text_agrees : (∀ o : BinOp, o.text = Spec.binText o) ∧ (∀ o : CmpOp, o.text = Spec.cmpText o) := by
  constructor <;> intro o <;> cases o <;> decide

/-- `!` binds tighter than every comparison / logical operator (the reference parser treats its operand as a primary) -/
theorem lnot_binds_tightest : ∀ o : CmpOp, genLevels.cmp o < genLevels.lnot := by
  intro o; cases o <;> decide

/-- every binary operator of the Spec has its production in the `expr` / `bool_expr` rule that was translated -/
theorem productions_cover :
    (∀ o : BinOp, (BdGrammar.productions.lookup "expr").any (·.contains s!"expr {o.tokName} expr")) ∧
    (∀ o : CmpOp, (BdGrammar.productions.lookup "bool_expr").any (·.contains s!"bool_expr {o.tokName} bool_expr")) ∧
    (BdGrammar.productions.lookup "unary_expr") = some ["PLUS expr", "MINUS expr"] := by
  refine ⟨?_, ?_, by decide⟩ <;> intro o <;> cases o <;> decide

/-- string and character literals end at the next quote (several definitions may share a line) -/
theorem quoted_literals_non_greedy : nonGreedyQuotes = true ∧ nonGreedyChars = true := by decide

/-! ### Rule actions = operator semantics (re-proved against the rule bodies extracted from the current source) -/

theorem actions_agree (o : BinOp) (a b : Int) : opAction o a b = Spec.opSem o a b := by
  cases o <;> simp [opAction, BdGrammar.exprRule, BinOp.text, tokText, BinOp.tokName, BdGrammar.tokenText,
    Spec.opSem, pyDivE, pyModE, pyShlE, pyShrE, shr_eq_fdiv]

theorem size_actions_agree (s : IntSz) (a : Int) : sizeAction s a = Spec.sizeSem s a := by
  cases s <;> simp [sizeAction, BdGrammar.exprRule, tokText, BdGrammar.tokenText, IntSz.letter, Spec.sizeSem, Spec.sizeBits]
  · exact size_goal_b a
  · exact size_goal_h a
  · exact size_goal_w a

theorem cmp_actions_agree (o : CmpOp) (a b : Int) : cmpAction o a b = Spec.cmpSem o a b := by
  cases o <;> simp [cmpAction, BdGrammar.boolRule, CmpOp.text, tokText, CmpOp.tokName, BdGrammar.tokenText,
    Spec.cmpSem, pyBoolInt, Spec.ofBool, pyAndI, pyOrI, pyTruthy]

theorem unary_actions_agree (a : Int) : negAction a = Spec.negSem a ∧ posAction a = Spec.posSem a := by
  constructor <;> simp [negAction, posAction, BdGrammar.unaryRule, tokText, BdGrammar.tokenText, Spec.negSem, Spec.posSem]

theorem lnot_action_agrees (a : Int) : lnotAction a = Spec.lnotSem a := by
  simp [lnotAction, BdGrammar.lnotRule, Spec.lnotSem, pyNotI, pyBoolInt, Spec.ofBool, pyTruthy, Spec.truth]

theorem defined_agrees (names : List String) (x : String) : BdGrammar.definedRule names x = Spec.definedSem names x := by
  simp [BdGrammar.definedRule, Spec.definedSem]

/-- the identifier rule is a plain search of the defined names (first or last definition, whichever the source says) -/
theorem lookup_agrees (vars : Vars) (x : String) :
    BdGrammar.lookupRecognised = true ∧ lookupVar vars x = Spec.lookup vars x := by
  refine ⟨by decide, ?_⟩
  unfold lookupVar Spec.lookup
  cases BdGrammar.lookupFirstWins <;> rfl

/-- `a..b` denotes the address `a` and the length `b - a` -/
theorem range_length_agrees (a b : Int) : BdGrammar.rangeLength a b = .ok (b - a) := by
  simp [BdGrammar.rangeLength]

theorem erase_constants_agree :
    BdGrammar.eraseAllAddress = 0 ∧ BdGrammar.eraseAllFlags = 1 ∧
    BdGrammar.eraseUnsecureAllAddress = 0 ∧ BdGrammar.eraseUnsecureAllFlags = 2 := by decide


/-! ### The operator semantics is ordinary integer arithmetic (sanity of the Spec itself) -/

/-- `/` and `%` are quotient and remainder of the division algorithm (remainder with the sign of the divisor) -/
theorem div_mod_spec (a b q r : Int) (hq : Spec.opSem .div a b = .ok q) (hr : Spec.opSem .mod a b = .ok r) :
    a = b * q + r ∧ ((0 ≤ r ∧ r < b) ∨ (b < r ∧ r ≤ 0)) := by
  simp only [Spec.opSem] at hq hr
  by_cases hb : b = 0
  · simp [hb] at hq
  · simp only [hb, if_false, Except.ok.injEq] at hq hr
    subst hq; subst hr
    constructor
    · have := Int.mul_fdiv_add_fmod a b
      omega
    · rcases Int.lt_or_gt_of_ne hb with h | h
      · right; exact fmod_neg_divisor a b h
      · left; exact ⟨Int.fmod_nonneg_of_pos a h, Int.fmod_lt_of_pos a h⟩

/-- `&`, `|`, `^` are the bitwise operations of two's complement with infinite sign extension -/
theorem bitwise_spec (a b : Int) (i : Nat) :
    (intAnd a b).testBit i = (a.testBit i && b.testBit i) ∧
    (intOr a b).testBit i = (a.testBit i || b.testBit i) ∧
    (intXor a b).testBit i = (a.testBit i ^^ b.testBit i) := by
  rw [intAnd_eq_land, intOr_eq_lor, intXor_eq_xor]
  exact ⟨Int.testBit_land a b i, Int.testBit_lor a b i, Int.testBit_lxor a b i⟩

/-- `<<` and `>>` by a non-negative count are multiplication and floor division by a power of two
    (left shifts by more than 2^24 bits are outside the evaluated domain) -/
theorem shift_spec (a : Int) (n : Nat) :
    ((n : Int) ≤ maxShift → Spec.opSem .shl a n = .ok (a * 2 ^ n)) ∧ Spec.opSem .shr a n = .ok (a / 2 ^ n) := by
  have h : ¬ ((n : Int) < 0) := by omega
  constructor
  · intro hn
    have h2 : ¬ ((n : Int) > maxShift) := by omega
    simp only [Spec.opSem, h, h2, if_false, Int.toNat_natCast]
  · simp only [Spec.opSem, h, if_false, Int.toNat_natCast]
    congr 1
    apply Int.fdiv_eq_ediv_of_nonneg
    exact Int.le_of_lt (Int.pow_pos (by decide))

/-- `&&`, `||`, `!`: the truth value of the result is the logical and / or / not of the operands' truth values -/
theorem logical_truth (a b : Int) :
    (∃ v, Spec.cmpSem .land a b = .ok v ∧ Spec.truth v = (Spec.truth a && Spec.truth b)) ∧
    (∃ v, Spec.cmpSem .lor a b = .ok v ∧ Spec.truth v = (Spec.truth a || Spec.truth b)) ∧
    (∃ v, Spec.lnotSem a = .ok v ∧ Spec.truth v = !Spec.truth a) := by
  refine ⟨⟨_, rfl, ?_⟩, ⟨_, rfl, ?_⟩, ⟨_, rfl, ?_⟩⟩
  · by_cases ha : a = 0 <;> simp [Spec.truth, ha]
  · by_cases ha : a = 0 <;> simp [Spec.truth, ha]
  · by_cases ha : a = 0 <;> simp [Spec.truth, Spec.ofBool, ha]

/-- `.b/.h/.w` keep the low 8 / 16 / 32 bits: the result is in range and congruent to the operand -/
theorem size_spec (s : IntSz) (a : Int) :
    ∃ v, Spec.sizeSem s a = .ok v ∧ 0 ≤ v ∧ v < 2 ^ Spec.sizeBits s ∧ (a - v) % 2 ^ Spec.sizeBits s = 0 := by
  have hpos : (0 : Int) < 2 ^ Spec.sizeBits s := Int.pow_pos (by decide)
  refine ⟨_, rfl, Int.emod_nonneg _ (by omega), Int.emod_lt_of_pos _ hpos, ?_⟩
  rw [Int.sub_emod, Int.emod_emod_of_dvd _ (Int.dvd_refl _), Int.sub_self, Int.zero_emod]

/-! ### Reference parser and printer -/

/-- printing an abstract `expr` with minimal parentheses and parsing it back gives the same tree, for every
    assignment of precedence levels (in particular the generated = documented one) -/
theorem parse_print (L : Levels) (e : Expr) : refParse L (pr L 0 e) = .ok e := by
  exact parse_print_expr L e

theorem parse_print_bool (L : Levels) (b : BExpr) : refParseB L (prB L 0 b) = .ok b := by
  exact parse_print_bexpr L b

/-! ### Evaluation -/

/- full-strength statements (false on the current tree, known finding C19-undefined-ident):
   theorem eval_agrees  : eval vars e = Spec.eval vars e
   theorem evalB_agrees : evalB vars b = Spec.evalB vars b
   Refuting example (below, `undefined_ident_not_refused`): with `foo` undefined, `foo && 4096` is an error for the Spec
   (an undefined identifier denotes no value) but evaluates to 4096 in the implementation, because an undefined identifier
   evaluates to its own name as a Python str and `and`/`or`/`not`/`==`/`<`/`+`/`*` accept strs. -/

/-- Whenever the Spec gives a value, evaluation with the generated rule actions gives the same value
    (the supported subset: every identifier that takes part in an operation is defined as a number). -/
theorem eval_refines (vars : Vars) (e : Expr) (v : Val) (h : Spec.eval vars e = .ok v) : eval vars e = .ok v := by
  induction e generalizing v with
  | lit n => exact h
  | var x => simpa [eval, Spec.eval, (lookup_agrees _ _).2] using h
  | bin o l r ihl ihr =>
    simp only [Spec.eval, bind, Except.bind] at h
    cases hl : Spec.eval vars l with
    | error e => simp [hl] at h
    | ok a =>
      cases hr : Spec.eval vars r with
      | error e => simp [hl, hr] at h
      | ok b =>
        cases a with
        | sym _ => simp [hl, hr, Spec.needInt] at h
        | int x =>
          cases b with
          | sym _ => simp [hl, hr, Spec.needInt] at h
          | int y =>
            simp only [hl, hr, Spec.needInt] at h
            simp only [eval, ihl _ hl, ihr _ hr, binVal, actions_agree]
            cases hz : Spec.opSem o x y with
            | error e => simp [hz] at h
            | ok z => simpa [hz, pure, Except.pure] using h
  | neg e ih =>
    simp only [Spec.eval, bind, Except.bind] at h
    cases he : Spec.eval vars e with
    | error e => simp [he] at h
    | ok a =>
      cases a with
      | sym _ => simp [he, Spec.needInt] at h
      | int x =>
        simp only [he, Spec.needInt] at h
        simp only [eval, ih _ he, unaryVal, if_true, (unary_actions_agree _).1]
        simpa [Spec.negSem, pure, Except.pure] using h
  | pos e ih =>
    simp only [Spec.eval, bind, Except.bind] at h
    cases he : Spec.eval vars e with
    | error e => simp [he] at h
    | ok a =>
      cases a with
      | sym _ => simp [he, Spec.needInt] at h
      | int x =>
        simp only [he, Spec.needInt] at h
        simp only [eval, ih _ he, unaryVal, (unary_actions_agree _).2]
        simpa [Spec.posSem, pure, Except.pure] using h
  | size s e ih =>
    simp only [Spec.eval, bind, Except.bind] at h
    cases he : Spec.eval vars e with
    | error e => simp [he] at h
    | ok a =>
      cases a with
      | sym _ => simp [he, Spec.needInt] at h
      | int x =>
        simp only [he, Spec.needInt] at h
        simp only [eval, ih _ he, sizeVal, size_actions_agree]
        simpa [Spec.sizeSem, pure, Except.pure] using h

theorem evalB_refines (vars : Vars) (b : BExpr) (v : Val) (h : Spec.evalB vars b = .ok v) : evalB vars b = .ok v := by
  induction b generalizing v with
  | atom e => exact eval_refines vars e v h
  | bin o l r ihl ihr =>
    simp only [Spec.evalB, bind, Except.bind] at h
    cases hl : Spec.evalB vars l with
    | error e => simp [hl] at h
    | ok a =>
      cases hr : Spec.evalB vars r with
      | error e => simp [hl, hr] at h
      | ok b =>
        cases a with
        | sym _ => simp [hl, hr, Spec.needInt] at h
        | int x =>
          cases b with
          | sym _ => simp [hl, hr, Spec.needInt] at h
          | int y =>
            simp only [hl, hr, Spec.needInt] at h
            simp only [evalB, ihl _ hl, ihr _ hr, cmpVal, cmp_actions_agree]
            cases hz : Spec.cmpSem o x y with
            | error e => simp [hz] at h
            | ok z => simpa [hz, pure, Except.pure] using h
  | lnot b ih =>
    simp only [Spec.evalB, bind, Except.bind] at h
    cases he : Spec.evalB vars b with
    | error e => simp [he] at h
    | ok a =>
      cases a with
      | sym _ => simp [he, Spec.needInt] at h
      | int x =>
        simp only [he, Spec.needInt] at h
        simp only [evalB, ih _ he, lnotVal, lnot_action_agrees]
        simpa [Spec.lnotSem, pure, Except.pure] using h
  | defined x => simpa [evalB, Spec.evalB, defined_agrees, pyBoolInt_eq] using h

/-- the refuting example of the full-strength `evalB_agrees` (known finding C19-undefined-ident) -/
theorem undefined_ident_not_refused :
    Spec.evalB [] (.bin .land (.atom (.var "foo")) (.atom (.lit 4096))) = .error .other ∧
    evalB [] (.bin .land (.atom (.var "foo")) (.atom (.lit 4096))) = .ok (.int 4096) := by decide

/-- the text printed for an abstract expression evaluates (reference parser with the implementation's levels, then the
    implementation's rule actions) to what the Spec says about that expression, whenever the Spec gives a value -/
theorem eval_parse_print (vars : Vars) (b : BExpr) (v : Val) (h : Spec.evalB vars b = .ok v) :
    (match refParseB genLevels (prB genLevels 0 b) with
     | .ok b' => some (evalB vars b')
     | .error _ => none) = some (.ok v) := by
  rw [parse_print_bool]
  simp only [evalB_refines vars b v h]

/-! ### Text level: lexer model ∘ rendering, and the composition with the parser -/

/-- the lexer model reads every token list that has a concrete syntax back from its canonical text (numbers in decimal,
    identifiers that are neither keywords nor source names, operators with the spelling of the lexer source, an int-size
    suffix attached directly to a token ending in a hexadecimal digit — the look-behind of the INT_SIZE rule) -/
theorem lex_print (srcs : List String) (ts : List Tok) (h : Lexable srcs ts = true) :
    lex srcs (String.ofList (render ts)) = .ok ts := lex_print' srcs ts h

/-- text-level round trip: printing a syntax tree as TEXT and reading it back (lexer model, then reference parser with the
    implementation's levels) gives the same tree, whenever its token list has a concrete syntax -/
theorem parse_print_text (srcs : List String) (b : BExpr) (h : Lexable srcs (prB genLevels 0 b) = true) :
    parseTextB srcs (printTextB b) = some b := by
  unfold parseTextB printTextB
  rw [lex_print srcs _ h]
  simp only [parse_print_bool]

theorem parse_print_text_expr (srcs : List String) (e : Expr) (h : Lexable srcs (pr genLevels 0 e) = true) :
    parseTextE srcs (printTextE e) = some e := by
  unfold parseTextE printTextE
  rw [lex_print srcs _ h]
  simp only [parse_print]

/-- the printed text of an expression evaluates — through lexer model, reference parser and the generated rule actions — to
    the value the Spec gives to the expression -/
theorem eval_text (srcs : List String) (vars : Vars) (b : BExpr) (v : Val) (h : Lexable srcs (prB genLevels 0 b) = true)
    (hv : Spec.evalB vars b = .ok v) : evalBoolText srcs vars (printTextB b) = .ok v := by
  unfold evalBoolText printTextB
  rw [lex_print srcs _ h]
  simp only [parse_print_bool, evalB_refines vars b v hv, liftPy]

example : Lexable [] (prB genLevels 0 (.bin .lt (.atom (.size .b (.bin .add (.lit 1) (.bin .mul (.var "c0de") (.lit 31)))))
    (.lnot (.defined "x")))) = true := by decide
example : printTextB (.bin .lt (.atom (.size .b (.bin .add (.lit 1) (.bin .mul (.var "c0de") (.lit 31))))) (.lnot (.defined "x")))
    = "1 + c0de * 31.b < ! defined ( x ) " := by decide
/-- no concrete syntax: the suffix would follow a parenthesis -/
example : Lexable [] (prB genLevels 0 (.atom (.size .b (.bin .mul (.lit 2) (.bin .add (.lit 1) (.lit 2)))))) = false := by decide

/-! ### The whole lexer: every token class, every spelling -/

/-- Lexing the rendering of ANY list of pieces of concrete syntax gives exactly the tokens the pieces denote.  Pieces (`CTok`):
    canonical tokens, a token with an int-size suffix, identifier-shaped words (identifier / keyword / source name / `true false yes
    no`), decimal, `K` and hexadecimal (`0x`/`0X`, digits in either case) literals, character and string literals, `$section`
    names, every fixed-spelling operator or delimiter of the lexer's table and the literal `@`, `#` and `//` comments (which denote
    no token).  Separator rule (`renderC`): every piece is followed by exactly one blank; a line comment ends with its newline. -/
theorem lex_print_all (srcs : List String) (cts : List CTok) (h : allOkC srcs cts = true) :
    lex srcs (String.ofList (renderC cts)) = .ok (tokensC srcs cts) := by
  unfold lex
  have := lex_renderC srcs cts ((String.ofList (renderC cts)).length + 1) none none [] h (Or.inl rfl) (by simp)
  simpa using this

/-- what an identifier-shaped word is: the keyword table of the lexer decides (`true`/`yes` are the number 1, `false`/`no` the
    number 0, `defined` and the other reserved words their own token), then the `sources` block, else an identifier -/
theorem word_meaning (srcs : List String) :
    (BdGrammar.reserved.all fun p => wordTok srcs p.1 ==
      (if p.2 == "TRUE" || p.2 == "YES" then .num 1 else if p.2 == "FALSE" || p.2 == "NO" then .num 0
       else if p.2 == "DEFINED" then .defined else .kw p.2)) = true ∧
    (∀ w, BdGrammar.reserved.find? (fun p => p.1 == w) = none →
      wordTok srcs w = if srcs.contains w then .source w else .ident w) := by
  refine ⟨by rfl, ?_⟩
  intro w hw
  simp [wordTok, hw]

/-- integer literals denote the number their digits spell: positional value in base 10 / base 16 (digit values 0-9, a-f = A-F =
    10-15), `K` multiplies by 1024, the canonical decimal spelling of `n` denotes `n`, a character literal is the big-endian
    number of its bytes (`'dude'` = 0x64756465, the example of the lexer's own comment) -/
theorem int_literal_values :
    (∀ ds d, decVal (ds ++ [d]) = decVal ds * 10 + (d.toNat - 48)) ∧
    (∀ ds d, hexVal (ds ++ [d]) = hexVal ds * 16 + hexDigitVal d) ∧
    ("0123456789abcdefABCDEF".toList.map hexDigitVal = [0, 1, 2, 3, 4, 5, 6, 7, 8, 9, 10, 11, 12, 13, 14, 15, 10, 11, 12, 13, 14, 15]) ∧
    (∀ n, decVal (decDigits n) = n) ∧
    (∀ srcs ds, decOk ds = true → (CTok.kilo ds).toks srcs = [.num (decVal ds * 1024)]) ∧
    (∀ body c, c.toNat < 128 → charLitVal (body ++ [c]) = charLitVal body * 256 + c.toNat) ∧
    charLitVal "dude".toList = 0x64756465 := by
  refine ⟨decVal_append, ?_, by decide, fun n => (decDigits_spec n).2.2.1, fun _ _ _ => rfl, ?_, by decide⟩
  · intro ds d
    simp [hexVal, List.foldl_append]
  · intro body c hc
    simp [charLitVal, List.flatMap_append, List.foldl_append, utf8Bytes, hc]

/-- the model's reading of each lexer rule agrees with the CURRENT regexes and rule actions of sly_bd_lexer.py on the generated
    probe texts (Python's `re` and the rule's own action computed the expected column): comments, identifiers, section names,
    newline, INT_LITERAL (match length and value, incl. `K`, both hex prefixes, leading zeros, character literals; `0b11`, `1M`,
    `1G` are not literals of this language), BINARY_BLOB, the INT_SIZE look-behind; the literal and ignored characters -/
theorem lexer_rules_agree :
    (BdGrammar.ruleProbes.all fun p => ruleLen p.1 p.2.1.toList == p.2.2) = true ∧
    (BdGrammar.intLiteralProbes.all fun p => intLiteralAt p.1.toList == p.2) = true ∧
    (BdGrammar.blobProbes.all fun p => blobAt p.1.toList == p.2) = true ∧
    (BdGrammar.intSizeProbes.all fun p => intSizeAt p.1.toList == p.2) = true ∧
    BdGrammar.literals = ["@"] ∧ BdGrammar.ignoreChars = ["\t", " "] := by
  refine ⟨by decide, by decide, by decide, by decide, by decide, by decide⟩

example : allOkC ["img"] [.word "load", .word "img", .punct "GT", .hex true "1fFF".toList, .punct "RANGE", .kilo "64".toList,
    .punct "SEMI", .lineComment false " c".toList, .chr "ab".toList, .str "x;y".toList, .secname ".text*".toList,
    .sized (.num 18) .b, .word "yes", .punct "@"] = true := by decide
example : String.ofList (renderC [.word "load", .word "img", .punct "GT", .hex true "1fFF".toList, .punct "RANGE", .kilo "64".toList,
    .punct "SEMI", .lineComment false " c".toList, .sized (.num 18) .b]) = "load img > 0X1fFF .. 64K ; // c\n 18.b " := by decide
example : tokensC ["img"] [.word "load", .word "img", .punct "GT", .hex true "1fFF".toList, .punct "RANGE", .kilo "64".toList,
    .punct "SEMI", .lineComment false " c".toList, .word "yes"] =
    [.kw "LOAD", .source "img", .cmp .gt, .num 8191, .other "RANGE", .num 65536, .other "SEMI", .num 1] := by decide

/-! ### Statements -/

/- full-strength statement (false on the current tree):
   theorem elab_one_cmd : Spec.cmdOf env kbs s = some c → elabStmt env kbs s = .ok c
   The hypotheses of the proved theorem are exactly the forms of the two open findings, each with a refuting example below:
   C19-blob-load (plain blob load), C19-prog-blob-zeros (8-byte fuse blob whose first word is zero).
   (`call`/`reset` and the key blob's `byteSwap` are covered since commits f13ece3 and 0aa60e6.) -/

/-- every supported statement (load of file / source / pattern / fuse value / 4- or 8-byte fuse blob, erase, enable, call, jump,
    jump_sp, reset, version_check, keystore_to_nv / keystore_from_nv, keywrap, encrypt incl. byteSwap) becomes exactly the one
    command the Spec states — except the two recorded blob forms -/
theorem elab_one_cmd_partial (env : Env) (kbs : List KeyBlobDef) (s : Stmt) (c : Cmd)
    (h1 : Spec.isPlainBlobLoad env s = false) (h2 : Spec.isProgBlobLeadingZeros env s = false)
    (h : Spec.cmdOf env kbs s = some c) : elabStmt env kbs s = .ok c :=
  elab_one_cmd_except env kbs (fun e v => eval_refines env.vars e v) s c h1 h2 h

/-- refuting examples of the full-strength statement, one per excluded form -/
theorem elab_one_cmd_counterexamples :
    (Spec.cmdOf {} [] (.load .none (.blob "aabbccdd") (.addr (.lit 16))) = some (.load 16 0 [0xaa, 0xbb, 0xcc, 0xdd]) ∧
      elabStmt {} [] (.load .none (.blob "aabbccdd") (.addr (.lit 16))) = .ok (.load 16 0 [0xdd, 0xcc, 0xbb, 0xaa])) ∧
    (Spec.cmdOf {} [] (.load (.at (.lit 4)) (.blob "0000000011223344") (.addr (.lit 8))) = some (.prog 8 4 0 0x44332211) ∧
      elabStmt {} [] (.load (.at (.lit 4)) (.blob "0000000011223344") (.addr (.lit 8))) = .ok (.prog 8 4 0x44332211 0)) := by decide

/-- the boot sections carry the ids written in the file -/
theorem section_ids (cfg : Config) (ids : List Int) (h : Spec.sectionUids cfg = some ids) : sectionUids cfg = .ok ids := by
  unfold Spec.sectionUids at h
  unfold sectionUids
  generalize cfg.sections = secs at h
  induction secs generalizing ids with
  | nil => simp at h; subst h; rfl
  | cons s t ih =>
    simp only [List.mapM_cons, Option.bind_eq_bind, Option.bind_eq_some_iff] at h
    obtain ⟨v, hv, r, hr, hc⟩ := h
    simp at hc; subst hc
    cases hs : s.1 with
    | s t' => simp [hs] at hv
    | i w =>
      simp [hs] at hv; subst hv
      have hr' := ih r hr
      rw [List.mapM_cons, hr']
      simp [hs, valueToInt, bind, Except.bind, pure, Except.pure]

example : Spec.sectionUids { sections := [(.i 5, []), (.i 7, [])] } = some [5, 7] ∧
    sectionUids { sections := [(.i 5, []), (.i 7, [])] } = .ok [5, 7] := by decide
example : Spec.cmdOf {} [] (.call (.lit 16) (.arg (.lit 3))) = some (.call 16 (.i 3)) ∧
    elabStmt {} [] (.call (.lit 16) (.arg (.lit 3))) = .ok (.call 16 (.i 3)) ∧ elabStmt {} [] .reset = .ok .reset := by decide

/-- a section's statements become one command each, in order -/
theorem section_one_cmd_each (env : Env) (ss : List Stmt) (ds : List (String × Dict))
    (h : runStmts env ss = .ok ds) : ds.length = ss.length :=
  runStmts_length env ss ds h

/-- an unsupported construct anywhere in a program makes the whole program an error -/
theorem unsupported_refused (env : Env) (blocks : List Block) (secs : List Section) (sec : Section) (k : String)
    (hs : sec ∈ secs) (hk : Stmt.unsupported k ∈ sec.stmts) :
    ∃ e, runProgram env blocks secs = .error e :=
  runProgram_unsupported env blocks secs sec k hs hk

/-! ### Non-vacuity -/

example : refParseB genLevels (prB genLevels 0 (.bin .lt (.atom (.bin .add (.lit 1) (.bin .mul (.lit 2) (.lit 3)))) (.atom (.lit 8))))
    = .ok (.bin .lt (.atom (.bin .add (.lit 1) (.bin .mul (.lit 2) (.lit 3)))) (.atom (.lit 8))) := by decide
example : Spec.evalB [("a", .int 10)] (.atom (.bin .mul (.var "a") (.lit 4))) = .ok (.int 40) := by decide
example : evalB [] (.atom (.size .b (.lit 0x1234))) = .ok (.int 0x34) := by decide
example : Spec.cmdOf {} [] (.load .none (.pattern (.lit 0x55)) (.range (.lit 0x100) (.lit 0x200)))
    = some (.fill 0x100 [0x55, 0x55, 0x55, 0x55] 0x100) := by decide
example : elabStmt {} [] (.load .none (.pattern (.lit 0x55)) (.range (.lit 0x100) (.lit 0x200)))
    = .ok (.fill 0x100 [0x55, 0x55, 0x55, 0x55] 0x100) := by decide

end SpsdkVerif.C19
