/-
C11 — registers and bit-fields behave as independent bit-vectors.

Model: Model/Registers.lean (hand-written; tied to spsdk/utils/registers.py by the op-sequence
correspondence of harness/props/C11.py).  Helper lemmas: Proofs/Registers.lean.
-/
import SpsdkVerif.Model.Registers
import SpsdkVerif.Proofs.Registers
import SpsdkVerif.Proofs.RegistersCfg
import SpsdkVerif.Proofs.RegistersGen
import SpsdkVerif.Generated.RegArith
import SpsdkVerif.Generated.RegProc
import SpsdkVerif.Model.RegistersP3
import SpsdkVerif.Proofs.RegistersP3

namespace SpsdkVerif.C11
open SpsdkVerif SpsdkVerif.Regs SpsdkVerif.Misc SpsdkVerif.Generated

/-! ## well-formedness of a layout (explicit, decidable on concrete layouts) -/

def FieldsDisjoint (f g : Field) : Prop :=
  f.offset + f.width ≤ g.offset ∨ g.offset + g.width ≤ f.offset

instance (f g : Field) : Decidable (FieldsDisjoint f g) := by unfold FieldsDisjoint; infer_instance

/-- a plain (non-grouped, as loaded from a specification: never reversed) register -/
structure RegWF (r : Reg) : Prop where
  plain : r.subW = 0
  norev : r.reverse = false
  bound : r.value < 2 ^ r.width
  fieldsIn : ∀ f ∈ r.fields, f.offset + f.width ≤ r.width
  disjoint : r.fields.Pairwise FieldsDisjoint

def FileWF (rf : RegFile) : Prop := ∀ r ∈ rf, RegWF r

/-- the value a field holds after `v` was written through a SHIFT_RIGHT processor (identity for shift 0) -/
def stored (f : Field) (v : Nat) : Nat := (v >>> f.shift) <<< f.shift

/-! ## single bit-field writes -/

/-- bit-level meaning of a field write: exactly the field's bits change, to the bits of the value -/
theorem fieldSet_bits (r : Reg) (f : Field) (v : Nat) (raw : Bool) (h : RegWF r)
    (hin : f.offset + f.width ≤ r.width) (hv : v >>> f.shift < 2 ^ f.width) :
    ∃ r', fieldSet r f v raw false = .ok r' ∧ r'.width = r.width ∧ r'.fields = r.fields ∧
      ∀ k, r'.value.testBit k =
        if f.offset ≤ k ∧ k < f.offset + f.width then (v >>> f.shift).testBit (k - f.offset)
        else r.value.testBit k := by
  refine ⟨_, fieldSet_plain_ok r f v raw h.plain h.norev h.bound hin hv, rfl, rfl, ?_⟩
  intro k
  exact testBit_insertBits _ _ _ _ _

/-- a field reads the value just written to it -/
theorem field_get_set (r : Reg) (f : Field) (v : Nat) (raw : Bool) (h : RegWF r)
    (hin : f.offset + f.width ≤ r.width) (hv : v >>> f.shift < 2 ^ f.width) :
    ∃ r', fieldSet r f v raw false = .ok r' ∧ fieldGet r' f = .ok (stored f v) := by
  refine ⟨_, fieldSet_plain_ok r f v raw h.plain h.norev h.bound hin hv, ?_⟩
  rw [fieldGet_plain_upd r f _ h.plain h.norev]
  simp only [stored]
  rw [slice_insertBits_same _ _ _ _ hv]

/-- … and never disturbs a disjoint neighbour -/
theorem field_frame (r : Reg) (f g : Field) (v : Nat) (raw : Bool) (h : RegWF r)
    (hin : f.offset + f.width ≤ r.width) (hd : FieldsDisjoint f g) (r' : Reg)
    (hs : fieldSet r f v raw false = .ok r') :
    fieldGet r' g = fieldGet r g := by
  obtain ⟨_, _, rfl⟩ := fieldSet_plain_inv r r' f v raw h.plain h.norev hs
  rw [fieldGet_plain_upd r g _ h.plain h.norev, fieldGet_plain r g h.plain h.norev]
  rw [slice_insertBits_disjoint _ _ _ _ _ _ hd]

/-- a value that does not fit is rejected with an SPSDK error (no silent truncation), whatever the register -/
theorem field_reject (r : Reg) (f : Field) (v : Nat) (raw : Bool) (hv : 2 ^ f.width ≤ v >>> f.shift) :
    fieldSet r f v raw false = .error .spsdk := by
  exact fieldSet_reject r f v raw hv

/-- well-formedness is preserved by field writes -/
theorem fieldSet_wf (r : Reg) (f : Field) (v : Nat) (raw : Bool) (h : RegWF r)
    (hin : f.offset + f.width ≤ r.width) (r' : Reg) (hs : fieldSet r f v raw false = .ok r') : RegWF r' := by
  obtain ⟨_, hb, rfl⟩ := fieldSet_plain_inv r r' f v raw h.plain h.norev hs
  exact ⟨h.plain, h.norev, hb, h.fieldsIn, h.disjoint⟩

/-! ## whole-register writes, reversed byte order, grouped registers -/

theorem reg_reject (r : Reg) (v : Nat) (raw : Bool) (hv : 2 ^ r.width ≤ v) : r.set v raw = .error .spsdk := by
  exact set_reject r v raw hv

/-- byte reversal is an involution on values that fit -/
theorem brev_invol (w v : Nat) (h8 : w % 8 = 0) (hv : v < 2 ^ w) :
    ∃ x, brev w v = some x ∧ x < 2 ^ w ∧ brev w x = some v := by
  exact brev_invol' w v h8 hv

/-- a plain register (reversed byte order or not) reads back the value written, in the view it was written in -/
theorem reg_set_get (r : Reg) (v : Nat) (raw : Bool) (hp : r.subW = 0) (h8 : r.width % 8 = 0) (hv : v < 2 ^ r.width) :
    ∃ r', r.set v raw = .ok r' ∧ r'.get raw = .ok v := by
  have hg := isGroup_false r hp
  have hnv : ¬ (v ≥ 2 ^ r.width) := by omega
  obtain ⟨x, hx1, hx2, hx3⟩ := brev_invol' r.width v h8 hv
  by_cases hc : (!raw && r.reverse) = true
  · refine ⟨{ r with value := x }, ?_, ?_⟩
    · simp [Reg.set, hg, hnv, hc, hx1]
    · have hc' : (!raw && r.reverse) = true := hc
      simp [Reg.get, Reg.isGroup, hp, hc', hx3]
  · have hc' : (!raw && r.reverse) = false := by simpa using hc
    refine ⟨{ r with value := v }, ?_, ?_⟩
    · simp [Reg.set, hg, hnv, hc']
    · simp [Reg.get, Reg.isGroup, hp, hc']

/-- the processed and the raw view of a reversed register are byte reversals of each other -/
theorem reg_views_consistent (r : Reg) (hp : r.subW = 0) (hr : r.reverse = true) (h8 : r.width % 8 = 0)
    (hb : r.value < 2 ^ r.width) :
    ∃ x y, r.get true = .ok x ∧ r.get false = .ok y ∧ brev r.width x = some y := by
  obtain ⟨y, hy1, _, _⟩ := brev_invol' r.width r.value h8 hb
  refine ⟨r.value, y, ?_, ?_, hy1⟩
  · simp [Reg.get, isGroup_false r hp]
  · simp [Reg.get, isGroup_false r hp, hr, hy1]

/-- a grouped register of `n` sub-registers of `subW` bits -/
structure GroupWF (r : Reg) : Prop where
  sub : 0 < r.subW
  width : r.width = r.subW * r.subs.length
  bound : ∀ s ∈ r.subs, s < 2 ^ r.subW
  bytes : r.width % 8 = 0

/-- the group view is, by definition, the assembly of the sub-register views (normal or reversed order) -/
theorem group_consistent (r : Reg) (h : GroupWF r) : r.get true = .ok (assemble r) := by
  simp [Reg.get, isGroup_true r h.sub]

/-- writing the group distributes the value so that the group reads it back, and every sub-register holds its slice -/
theorem group_set_get (r : Reg) (v : Nat) (raw : Bool) (h : GroupWF r) (hv : v < 2 ^ r.width) :
    ∃ r', r.set v raw = .ok r' ∧ r'.get raw = .ok v ∧ GroupWF r' := by
  have wf' : ∀ x, GroupWF { r with subs := distribute r x } := fun x =>
    ⟨h.sub, by simp only [distribute_length]; exact h.width, distribute_bound r x h.width h.sub, h.bytes⟩
  cases hc : (!raw && r.reverse) with
  | true =>
    obtain ⟨x, hx1, hx2, hx3⟩ := brev_invol' r.width v h.bytes hv
    refine ⟨_, set_group_rev r v x raw h.sub hv hc hx1, ?_, wf' x⟩
    have hc' : (!raw && r.reverse) = true := hc
    simp [Reg.get, Reg.isGroup, Nat.ne_of_gt h.sub, hc', assemble_distribute r x h.width h.sub hx2, hx3]
  | false =>
    refine ⟨_, set_group_norev r v raw h.sub hv hc, ?_, wf' v⟩
    have hc' : (!raw && r.reverse) = false := hc
    simp [Reg.get, Reg.isGroup, Nat.ne_of_gt h.sub, hc', assemble_distribute r v h.width h.sub hv]

/-- non-reversed order: sub-register `i` holds bits `[i*subW, (i+1)*subW)` of the raw group value -/
theorem group_sub_slice (r : Reg) (v : Nat) (h : GroupWF r) (hn : r.revSubs = false) (hv : v < 2 ^ r.width)
    (i : Nat) (hi : i < r.subs.length) :
    ∃ r', r.set v true = .ok r' ∧ r'.subs[i]? = some ((v >>> (i * r.subW)) % 2 ^ r.subW) := by
  refine ⟨_, set_group r v h.sub hv, ?_⟩
  simp only []
  rw [distribute_getElem? r v i h.width h.sub hi]
  simp [subPos, hn, mask]

/-! ## histories: any op sequence keeps the file well-formed, and a field keeps the last value
    written to it as long as no later op writes its bits -/

/-- run a history; a rejected op leaves the file unchanged (as the implementation does) -/
def run (rf : RegFile) (ops : List Op) : RegFile :=
  ops.foldl (fun s op => match step s op with | .ok s' => s' | .error _ => s) rf

/-- layout (everything but the values) -/
def layoutOf (rf : RegFile) : List (Nat × List Field) := rf.map (fun r => (r.width, r.fields))

theorem step_wf (rf rf' : RegFile) (op : Op) (h : FileWF rf) (hs : step rf op = .ok rf') :
    FileWF rf' ∧ layoutOf rf' = layoutOf rf := by
  have hf := step_forall2 rf rf' op hs
  refine forall2_preserve (P := RegWF) (key := fun r => (r.width, r.fields)) hf h ?_
  intro r r' hw hst
  obtain ⟨x, hx, rfl⟩ := regStep_plain r r' hst hw.plain hw.norev hw.bound
  exact ⟨⟨hw.plain, hw.norev, hx, hw.fieldsIn, hw.disjoint⟩, rfl⟩

theorem run_wf (rf : RegFile) (ops : List Op) (h : FileWF rf) :
    FileWF (run rf ops) ∧ layoutOf (run rf ops) = layoutOf rf := by
  induction ops generalizing rf with
  | nil => exact ⟨h, rfl⟩
  | cons op ops ih =>
    have e : run rf (op :: ops) = run (match step rf op with | .ok s' => s' | .error _ => rf) ops := by
      simp [run]
    rw [e]
    cases hst : step rf op with
    | error e => exact ih rf h
    | ok s' =>
      obtain ⟨h1, h2⟩ := step_wf rf s' op h hst
      obtain ⟨h3, h4⟩ := ih s' h1
      exact ⟨h3, h4.trans h2⟩

/-- `op` cannot change the bits of field `j` of register `i` (given the layout `rf`) -/
def Untouched (rf : RegFile) (i j : Nat) : Op → Prop
  | .setReg i' _ _ => i' ≠ i
  | .setField i' j' _ _ => i' ≠ i ∨ (∃ r f g, rf[i]? = some r ∧ r.fields[j]? = some f ∧ r.fields[j']? = some g ∧ FieldsDisjoint g f)
  | .setEnum i' j' _ => i' ≠ i ∨ (∃ r f g, rf[i]? = some r ∧ r.fields[j]? = some f ∧ r.fields[j']? = some g ∧ FieldsDisjoint g f)
  | .resetReg i' => i' ≠ i
  | .resetAll => False
  | .parse _ _ => False

/-- **History theorem.** After *any* history `pre`, a successful write of `v` to field `(i,j)`, and any later
    ops none of which writes that field's bits, the field reads the value written. -/
theorem history_last_write (rf : RegFile) (pre post : List Op) (i j v : Nat) (raw : Bool)
    (r : Reg) (f : Field) (h : FileWF rf) (hr : rf[i]? = some r) (hf : r.fields[j]? = some f)
    (hv : v >>> f.shift < 2 ^ f.width) (hpost : ∀ op ∈ post, Untouched rf i j op) :
    ∃ r', (run rf (pre ++ [Op.setField i j v raw] ++ post))[i]? = some r' ∧ fieldGet r' f = .ok (stored f v) := by
  obtain ⟨hwf1, hl1⟩ := run_wf rf pre h
  obtain ⟨r1, hr1, hk1⟩ := getElem?_of_map_eq (key := fun r : Reg => (r.width, r.fields)) hl1 hr
  have hf1 : r1.fields = r.fields := (Prod.mk.inj hk1).2
  have wf1 : RegWF r1 := hwf1 r1 (List.mem_of_getElem? hr1)
  have hin : f.offset + f.width ≤ r1.width :=
    wf1.fieldsIn f (hf1 ▸ List.mem_of_getElem? hf)
  obtain ⟨r2, hs2, hg2⟩ := field_get_set r1 f v raw wf1 hin hv
  have hi : i < (run rf pre).length := by
    rcases Nat.lt_or_ge i (run rf pre).length with h | h
    · exact h
    · rw [List.getElem?_eq_none h] at hr1; cases hr1
  have hstep : step (run rf pre) (.setField i j v raw) = .ok ((run rf pre).set i r2) := by
    simp [step, updAt, hr1, hf1, hf, hs2]
  obtain ⟨hwf2, hl2⟩ := step_wf _ _ _ hwf1 hstep
  have hx2 : ∃ r', ((run rf pre).set i r2)[i]? = some r' ∧ fieldGet r' f = .ok (stored f v) :=
    ⟨r2, by simp [List.getElem?_set, hi], hg2⟩
  have key : ∀ (post : List Op) (s : RegFile), (∀ op ∈ post, Untouched rf i j op) → FileWF s →
      layoutOf s = layoutOf rf → (∃ r', s[i]? = some r' ∧ fieldGet r' f = .ok (stored f v)) →
      ∃ r', (run s post)[i]? = some r' ∧ fieldGet r' f = .ok (stored f v) := by
    intro post
    induction post with
    | nil => intro s _ _ _ hx; simpa [run] using hx
    | cons op post ih =>
      intro s hu hwf hl hx
      have e : run s (op :: post) = run (match step s op with | .ok s' => s' | .error _ => s) post := by
        simp [run]
      rw [e]
      have hu' : ∀ o ∈ post, Untouched rf i j o := fun o ho => hu o (by simp [ho])
      cases hst : step s op with
      | error e => exact ih s hu' hwf hl hx
      | ok s' =>
        obtain ⟨hwf', hl'⟩ := step_wf s s' op hwf hst
        refine ih s' hu' hwf' (hl'.trans hl) ?_
        obtain ⟨rk, hrk, hgk⟩ := hx
        have hu0 := hu op (by simp)
        obtain ⟨rk', hrk', hkk⟩ := getElem?_of_map_eq (key := fun r : Reg => (r.width, r.fields)) hl hr
        rw [hrk] at hrk'; cases hrk'
        have hfk : rk.fields = r.fields := (Prod.mk.inj hkk).2
        have wfk : RegWF rk := hwf rk (List.mem_of_getElem? hrk)
        cases op with
        | setReg i' v' raw' =>
          simp only [Untouched] at hu0
          simp only [step] at hst
          rw [updAt_getElem?_ne s s' i' i _ hst hu0]; exact ⟨rk, hrk, hgk⟩
        | resetReg i' =>
          simp only [Untouched] at hu0
          simp only [step] at hst
          rw [updAt_getElem?_ne s s' i' i _ hst hu0]; exact ⟨rk, hrk, hgk⟩
        | resetAll => exact absurd hu0 (by simp [Untouched])
        | parse b l => exact absurd hu0 (by simp [Untouched])
        | setField i' j' v' raw' =>
          obtain ⟨ra, g, rb, hra, hgj, hfs, hrb, hne⟩ := step_setField_inv s s' i' j' v' raw' hst
          by_cases hii : i' = i
          · subst hii
            rcases hu0 with hne' | ⟨r0, f0, g0, h0, hf0, hg0, hd⟩
            · exact absurd rfl hne'
            · rw [hr] at h0; cases h0
              rw [hf] at hf0; cases hf0
              rw [hrk] at hra; cases hra
              rw [hfk, hg0] at hgj; cases hgj
              have hing : g.offset + g.width ≤ rk.width :=
                wfk.fieldsIn g (hfk ▸ List.mem_of_getElem? hg0)
              exact ⟨rb, hrb, (field_frame rk g f v' raw' wfk hing hd rb hfs).trans hgk⟩
          · rw [hne i hii]; exact ⟨rk, hrk, hgk⟩
        | setEnum i' j' e' =>
          obtain ⟨ra, g, ev, rb, hra, hgj, hev, hfs, hrb, hne⟩ := step_setEnum_inv s s' i' j' e' hst
          by_cases hii : i' = i
          · subst hii
            rcases hu0 with hne' | ⟨r0, f0, g0, h0, hf0, hg0, hd⟩
            · exact absurd rfl hne'
            · rw [hr] at h0; cases h0
              rw [hf] at hf0; cases hf0
              rw [hrk] at hra; cases hra
              rw [hfk, hg0] at hgj; cases hgj
              have hing : g.offset + g.width ≤ rk.width :=
                wfk.fieldsIn g (hfk ▸ List.mem_of_getElem? hg0)
              exact ⟨rb, hrb, (field_frame rk g f ev false wfk hing hd rb hfs).trans hgk⟩
          · rw [hne i hii]; exact ⟨rk, hrk, hgk⟩
  have e : run rf (pre ++ [Op.setField i j v raw] ++ post) = run ((run rf pre).set i r2) post := by
    simp only [run, List.foldl_append, List.foldl_cons, List.foldl_nil]
    have := hstep
    simp only [run] at this
    rw [this]
  rw [e]
  exact key post _ hpost hwf2 (hl2.trans hl1) hx2

/-- a later whole-register write determines every field: the field reads the corresponding bits of the value -/
theorem history_reg_write (rf : RegFile) (pre : List Op) (i j v : Nat)
    (r : Reg) (f : Field) (h : FileWF rf) (hr : rf[i]? = some r) (hf : r.fields[j]? = some f)
    (hv : v < 2 ^ r.width) :
    ∃ r', (run rf (pre ++ [Op.setReg i v true]))[i]? = some r' ∧
      fieldGet r' f = .ok (((v >>> f.offset) % 2 ^ f.width) <<< f.shift) := by
  obtain ⟨hwf1, hl1⟩ := run_wf rf pre h
  obtain ⟨r1, hr1, hk1⟩ := getElem?_of_map_eq (key := fun r : Reg => (r.width, r.fields)) hl1 hr
  have hw1 : r1.width = r.width := (Prod.mk.inj hk1).1
  have wf1 : RegWF r1 := hwf1 r1 (List.mem_of_getElem? hr1)
  have hi : i < (run rf pre).length := by
    rcases Nat.lt_or_ge i (run rf pre).length with h | h
    · exact h
    · rw [List.getElem?_eq_none h] at hr1; cases hr1
  have hset := set_plain r1 v true wf1.plain wf1.norev (hw1 ▸ hv)
  have hstep : step (run rf pre) (.setReg i v true) = .ok ((run rf pre).set i { r1 with value := v }) := by
    simp [step, updAt, hr1, hset]
  have e : run rf (pre ++ [Op.setReg i v true]) = (run rf pre).set i { r1 with value := v } := by
    simp only [run, List.foldl_append, List.foldl_cons, List.foldl_nil]
    have := hstep
    simp only [run] at this
    rw [this]
  rw [e]
  refine ⟨{ r1 with value := v }, by simp [List.getElem?_set, hi], ?_⟩
  rw [fieldGet_plain_upd r1 f v wf1.plain wf1.norev]
  simp [mask]

/-! ## export / parse -/

/-- exporting a well-formed file and parsing the bytes into any file of the same layout restores every value -/
theorem parse_export (rf rf' : RegFile) (little : Bool) (b : Bytes) (h : FileWF rf) (h' : FileWF rf')
    (h8 : ∀ r ∈ rf, r.width % 8 = 0)
    (hl : rf'.map (fun r => { r with value := 0 }) = rf.map (fun r => { r with value := 0 }))
    (he : exportRegs rf little = .ok b) :
    parseAll rf' 0 b little = .ok rf := by
  have := parseAll_export rf rf' little [] b []
    (fun r hr => ⟨(h r hr).plain, (h r hr).norev, (h r hr).bound⟩) hl he
  simpa using this

theorem export_length (rf : RegFile) (little : Bool) (b : Bytes) (h : FileWF rf)
    (he : exportRegs rf little = .ok b) :
    b.length = (rf.map (fun r => r.width / 8)).sum := by
  exact exportRegs_length rf little b he

/-! ## non-vacuity -/

def exReg : Reg :=
  { width := 32, value := 0xA5A50000,
    fields := [{ offset := 0, width := 8 }, { offset := 8, width := 4, shift := 4 }, { offset := 16, width := 16 }] }

example : RegWF exReg := by
  refine ⟨rfl, rfl, by decide, by decide, by decide⟩

example : (fieldSet exReg { offset := 8, width := 4, shift := 4 } 0xF0 false false).toOption.map (·.value) = some 0xA5A50F00 := by
  decide

example : fieldSet exReg { offset := 0, width := 8 } 256 false false = .error .spsdk := by decide

example : GroupWF { width := 64, subW := 32, subs := [1, 2] } := ⟨by decide, by decide, by decide, by decide⟩

example : (({ width := 64, subW := 32, subs := [0, 0], revSubs := true } : Reg).set 0x1111111122222222 true).toOption.map (·.subs)
    = some [0x11111111, 0x22222222] := by decide

/-! # Extension: alternative widths, writes by enum name, the configuration path

Model: the second half of Model/Registers.lean (`setAlt/getAlt`, `getConfig`, `loadConfig`), tied to
`Register.get_alt_width/set_value/get_value`, `RegsBitField.get_enum_value/set_enum_value`,
`_RegistersBase.get_config/_load_yml_config` by the `config_model` stream of harness/props/C11.py.
Helper lemmas: Proofs/RegistersCfg.lean. -/

/-! ## alternative widths -/

/-- a register without alternative widths behaves exactly as before (all theorems above stay valid for it) -/
theorem alt_widths_none (r : Reg) (v : Nat) (raw : Bool) :
    r.setAlt [] v raw = r.set v raw ∧ r.getAlt [] raw = r.get raw :=
  ⟨setAlt_nil r v raw, getAlt_nil r raw⟩

/-- alternative widths as the database uses them: byte multiples, multiples of the sub-register width, not wider than
    the group, and normal sub-register order -/
structure AltOK (alts : List Nat) (r : Reg) : Prop where
  mult : ∀ a ∈ alts, a % 8 = 0 ∧ 8 ≤ a ∧ a ≤ r.width ∧ a % r.subW = 0
  order : r.revSubs = false ∨ alts = []

/-
Full-strength statement (`reg_set_get` for alt-width groups), FALSE on the current code:

  theorem alt_width_set_get_full (r) (alts) (v) (raw) (h : GroupWF r) (ha : AltOK alts r) (hv : v < 2 ^ r.width) :
      ∃ r', r.setAlt alts v raw = .ok r' ∧ r'.getAlt alts raw = .ok v

It fails in two ways, both reproduced on the real code (known findings C11-alt-width-stale-sub-registers and
C11-alt-width-reversed-trailing-zero-bytes), see the two refuting examples below.  The theorem that holds needs
`hup` (the sub-registers beyond the alternative width are zero) and `hst` (a byte-reversed value does not end in enough
zero bytes to fit a smaller alternative width).
-/
theorem alt_width_set_get_partial (r : Reg) (alts : List Nat) (v : Nat) (raw : Bool) (h : GroupWF r)
    (ha : AltOK alts r) (hv : v < 2 ^ r.width)
    (hup : ∀ i, altWidth alts r.width v / r.subW ≤ i → r.subs.getD i 0 = 0)
    (hst : (!raw && r.reverse) = true →
      ∀ a ∈ alts, a < altWidth alts r.width v → v % 2 ^ (altWidth alts r.width v - a) ≠ 0) :
    ∃ r', r.setAlt alts v raw = .ok r' ∧ r'.getAlt alts raw = .ok v ∧ GroupWF r' := by
  rcases ha.order with hn | hnil
  · obtain ⟨l, h1, h2, h3, h4⟩ := setAlt_getAlt_group r alts v raw h.sub h.width h.bound h.bytes hn ha.mult hv hup hst
    exact ⟨_, h1, h2, ⟨h.sub, by simp only [h3]; exact h.width, h4, h.bytes⟩⟩
  · subst hnil
    obtain ⟨r', h1, h2, h3⟩ := group_set_get r v raw h hv
    exact ⟨r', by rw [setAlt_nil]; exact h1, by rw [getAlt_nil]; exact h2, h3⟩

/-- a value below `2^alt` (one alternative width, as in every database configuration) round-trips through a group with
    normal sub-register order, reversed byte order or not, processed or raw view, provided the sub-registers beyond the
    alternative width hold zero -/
theorem alt_width_set_get (r : Reg) (a v : Nat) (raw : Bool) (h : GroupWF r)
    (ha : a % 8 = 0 ∧ 8 ≤ a ∧ a ≤ r.width ∧ a % r.subW = 0) (hn : r.revSubs = false) (hv : v < 2 ^ a)
    (hup : ∀ i, a / r.subW ≤ i → r.subs.getD i 0 = 0) :
    ∃ r', r.setAlt [a] v raw = .ok r' ∧ r'.getAlt [a] raw = .ok v ∧ GroupWF r' := by
  have haw : altWidth [a] r.width v = a := by
    rcases altWidth_cases [a] r.width v with ⟨_, hno⟩ | ⟨hm, _, _⟩
    · exfalso
      apply hno a (by simp)
      rw [byteCnt_le_iff v _ (by omega), ← two_pow_eq_256_pow a ha.1]; exact hv
    · simpa using hm
  have hvw : v < 2 ^ r.width := Nat.lt_of_lt_of_le hv (Nat.pow_le_pow_right (by decide) ha.2.2.1)
  apply alt_width_set_get_partial r [a] v raw h ⟨by intro b hb; simp at hb; subst hb; exact ha, Or.inl hn⟩ hvw
  · rw [haw]; exact hup
  · intro _ b hb hlt
    simp at hb; subst hb
    rw [haw] at hlt; omega

/-- ROTKH / RKTH of the database: 12 sub-registers of 32 bits, alternative width 256, reversed -/
def rotkh : Reg := { width := 384, reverse := true, subW := 32, subs := List.replicate 12 0 }

example : GroupWF rotkh ∧ AltOK [256] rotkh :=
  ⟨⟨by decide, by decide, by decide, by decide⟩, ⟨by decide, by decide⟩⟩

section
set_option exponentiation.threshold 400

/-- REFUTATION 1 (`hst` is needed): the 384-bit value `2^383` has 16 trailing zero bytes; it is stored byte-swapped as
    `0x80`, for which the alternative width is recomputed as 256, and reads back as `2^255`.
    Replayed on the real code: `Register(width=384, reverse=True, alt_widths=[256])` + 12 sub-registers,
    `set_value(2**383); get_value() == 2**255`. -/
example : (rotkh.setAlt [256] (2 ^ 383) false).toOption.bind (fun r => (r.getAlt [256] false).toOption)
    = some (2 ^ 255) := by decide

/-- REFUTATION 2 (`hup` is needed): a full-width value followed by a short one; the upper four sub-registers keep the
    old content.  Real code: `set_value(2**383 | 0x55, raw=True); set_value(5, raw=True); get_value(raw=True) == 2**383 | 5`. -/
example : ((rotkh.setAlt [256] (2 ^ 383 + 0x55) true).toOption.bind (fun r => (r.setAlt [256] 5 true).toOption)).bind
    (fun r => (r.getAlt [256] true).toOption) = some (2 ^ 383 + 5) := by decide

/-- non-vacuity of `alt_width_set_get`: a SHA-256 sized value on the fresh ROTKH register -/
example : (rotkh.setAlt [256] (2 ^ 255 + 1) false).toOption.bind (fun r => (r.getAlt [256] false).toOption)
    = some (2 ^ 255 + 1) := by decide

end

/-! ## writes by enum name -/

/-- what a configuration value means for a bit-field: the number the bit-field reads afterwards -/
def cfgDecode (f : Field) (fm : FieldMeta) : CfgVal → Option Nat
  | .enumName n => enumConst f fm n
  | .num v => some v
  | .rawNum v => some (v <<< f.shift)

/-- `get_enum_value` always decodes back to the value the bit-field holds (this is what 85623b6 repaired: a name
    shared by several values is only used for the value it decodes to) -/
theorem enum_value_decodes (r : Reg) (f : Field) (fm : FieldMeta) (v : Nat) (h : fieldGet r f = .ok v) :
    ∃ c, enumValueOf r f fm = .ok c ∧ cfgDecode f fm c = some v := by
  rcases enumValueOf_cases r f fm v h with h1 | ⟨n, h1, h2⟩
  · exact ⟨_, h1, rfl⟩
  · exact ⟨_, h1, h2⟩

/-- a bit-field written by enum name (configuration path) reads the value of that name, and the name read back from it
    decodes to the same value -/
theorem enum_write_reads_back (r : Reg) (f : Field) (fm : FieldMeta) (n v : Nat) (h : RegWF r)
    (hin : f.offset + f.width ≤ r.width) (hn : enumConst f fm n = some v) (hv : v >>> f.shift < 2 ^ f.width) :
    ∃ r', loadField r f fm (.enumName n) = .ok r' ∧ fieldGet r' f = .ok (stored f v) ∧ RegWF r' ∧
      ∃ c, enumValueOf r' f fm = .ok c ∧ cfgDecode f fm c = some (stored f v) := by
  obtain ⟨r', h1, h2⟩ := field_get_set r f v true h hin hv
  have hl : loadField r f fm (.enumName n) = .ok r' := by simp [loadField, hn, h1]
  exact ⟨r', hl, h2, fieldSet_wf r f v true h hin r' h1, enum_value_decodes r' f fm _ h2⟩

/-- an enum constant that does not fit the bit-field is refused -/
theorem enum_write_reject (r : Reg) (f : Field) (fm : FieldMeta) (n v : Nat) (hn : enumConst f fm n = some v)
    (hv : 2 ^ f.width ≤ v >>> f.shift) : loadField r f fm (.enumName n) = .error .spsdk := by
  simp [loadField, hn, field_reject r f v true hv]

/-- **History theorem for writes by enum name** (`set_enum_value` outside the configuration path): after any history,
    a write of enum entry `k` (value `v`) and any later ops that do not write the field's bits, the field reads `v`. -/
theorem history_last_enum_write (rf : RegFile) (pre post : List Op) (i j k v : Nat)
    (r : Reg) (f : Field) (h : FileWF rf) (hr : rf[i]? = some r) (hf : r.fields[j]? = some f)
    (hk : f.enums[k]? = some v) (hv : v >>> f.shift < 2 ^ f.width) (hpost : ∀ op ∈ post, Untouched rf i j op) :
    ∃ r', (run rf (pre ++ [Op.setEnum i j k] ++ post))[i]? = some r' ∧ fieldGet r' f = .ok (stored f v) := by
  obtain ⟨_, hl1⟩ := run_wf rf pre h
  obtain ⟨r1, hr1, hk1⟩ := getElem?_of_map_eq (key := fun r : Reg => (r.width, r.fields)) hl1 hr
  have hf1 : r1.fields = r.fields := (Prod.mk.inj hk1).2
  have hstep : step (run rf pre) (.setEnum i j k) = step (run rf pre) (.setField i j v false) := by
    simp [step, updAt, hr1, hf1, hf, hk]
  have e : run rf (pre ++ [Op.setEnum i j k] ++ post) = run rf (pre ++ [Op.setField i j v false] ++ post) := by
    simp only [run, List.foldl_append, List.foldl_cons, List.foldl_nil]
    have := hstep
    simp only [run] at this
    rw [this]
  rw [e]
  exact history_last_write rf pre post i j v false r f h hr hf hv hpost

/-! ## configuration round trip: `load_yml_config(get_config())` -/

/-- a register as `Registers._load_from_spec` builds it: a plain register, or a group without bit-fields whose
    alternative widths (if any) are database-like -/
inductive RegWF' (rm : RegMeta) (r : Reg) : Prop
  | plain : RegWF r → RegWF' rm r
  | group : GroupWF r → r.fields = [] → AltOK rm.alts r → RegWF' rm r

def FileWF' (m : Meta) (rf : RegFile) : Prop := ∀ i r, rf[i]? = some r → RegWF' (m.reg i) r

/-- same layout (everything but the stored values) -/
structure SameLayout (r0 r : Reg) : Prop where
  width : r0.width = r.width
  reverse : r0.reverse = r.reverse
  resetRaw : r0.resetRaw = r.resetRaw
  fields : r0.fields = r.fields
  subW : r0.subW = r.subW
  subsLen : r0.subs.length = r.subs.length
  revSubs : r0.revSubs = r.revSubs

/-- what a group with alternative widths needs so that its configuration value loads back into `r0`
    (both conditions are vacuous without alternative widths; they are exactly the two open findings) -/
structure AltRT (alts : List Nat) (r r0 : Reg) : Prop where
  upper : ∀ i, altWidth alts r.width (assemble r) / r.subW ≤ i → r0.subs.getD i 0 = 0
  stable : r.reverse = true → ∀ a ∈ alts, a < altWidth alts r.width (assemble r) →
    assemble r % 2 ^ (altWidth alts r.width (assemble r) - a) ≠ 0

theorem altRT_nil (r r0 : Reg) (h : GroupWF r) (hl : r0.subs.length = r.subs.length) : AltRT [] r r0 := by
  refine ⟨?_, ?_⟩
  · intro i hi
    rw [altWidth_nil, h.width, Nat.mul_div_cancel_left _ h.sub] at hi
    rw [List.getD_eq_getElem?_getD, List.getElem?_eq_none (by omega)]; rfl
  · intro _ a ha; cases ha

/-- source register `r`, target register `r0` (e.g. of a fresh object) -/
structure RegOK (rm : RegMeta) (r r0 : Reg) : Prop where
  layout : SameLayout r0 r
  wf : RegWF' rm r
  wf0 : RegWF' rm r0
  alt : r.subW ≠ 0 → AltRT rm.alts r r0

/-- the effect of the round trip on one register: what the configuration carries is taken from `r`, the rest stays as it
    is in `r0`.  NOT carried: bits of a register with bit-fields that no bit-field covers, and hidden bit-fields that
    hold their reset value in `r`. -/
inductive RegRT (rm : RegMeta) (r r0 : Reg) : Reg → Prop
  | whole : r.fields = [] → r.subW = 0 → RegRT rm r r0 { r0 with value := r.value }
  | group : r.subW ≠ 0 → RegRT rm r r0 { r0 with subs := r.subs }
  | fields (x : Nat) : r.fields ≠ [] → r.subW = 0 → x < 2 ^ r.width →
      (∀ k, (Carried rm r k → x.testBit k = r.value.testBit k) ∧
            (¬ Carried rm r k → x.testBit k = r0.value.testBit k)) →
      RegRT rm r r0 { r0 with value := x }

theorem regOK_roundtrip (rm : RegMeta) (r r0 : Reg) (h : RegOK rm r r0) :
    ∃ c r', regConfig r rm = .ok c ∧ loadReg r0 rm c = .ok r' ∧ RegRT rm r r0 r' := by
  obtain ⟨hl, hw, hw0, halt⟩ := h
  cases hw with
  | plain hp =>
    have hp0 : RegWF r0 := by
      cases hw0 with
      | plain h0 => exact h0
      | group g0 _ _ => have := g0.sub; have := hl.subW; have := hp.plain; omega
    by_cases he : r.fields = []
    · obtain ⟨c, h1, h2⟩ := regcfg_rt_plain r r0 rm hp.plain hp.norev he hp.bound hp0.plain hp0.norev hl.width
      exact ⟨c, _, h1, h2, .whole he hp.plain⟩
    · obtain ⟨c, x, h1, h2, h3, h4⟩ := regcfg_rt_fields r r0 rm hp.plain hp.norev he hp.fieldsIn hp0.plain hp0.norev
        hl.width hl.fields hp0.bound
      exact ⟨c, _, h1, h2, .fields x he hp.plain h3 h4⟩
  | group hg he ha =>
    have hne : r.subW ≠ 0 := Nat.ne_of_gt hg.sub
    obtain ⟨hup, hst⟩ := halt hne
    obtain ⟨c, h1, h2⟩ := regcfg_rt_group' r r0 rm hg.sub hg.width hg.bound hg.bytes he ha.mult ha.order
      hl.width hl.subW hl.revSubs hl.reverse hl.subsLen hup hst
    exact ⟨c, _, h1, h2, .group hne⟩

/-- **Configuration round trip.**  The configuration obtained from `rf` loads into any register file `rf0` of the same
    layout (e.g. a freshly created object), and afterwards every register holds what the configuration carries from `rf`
    (`RegRT`): the whole value of registers without bit-fields and of groups, and every bit of every written-out bit-field. -/
theorem config_roundtrip (m : Meta) (rf rf0 : RegFile) (hlen : rf0.length = rf.length)
    (hok : ∀ i r r0, rf[i]? = some r → rf0[i]? = some r0 → RegOK (m.reg i) r r0) :
    ∃ cfg rf', getConfig m rf = .ok cfg ∧ loadConfig m rf0 cfg = .ok rf' ∧ rf'.length = rf.length ∧
      ∀ i r r0, rf[i]? = some r → rf0[i]? = some r0 → ∃ r', rf'[i]? = some r' ∧ RegRT (m.reg i) r r0 r' := by
  have := roundtrip_lift m RegOK RegRT regOK_roundtrip rf rf0 [] hlen (by simpa using hok)
  simpa [getConfig] using this

/-- every bit-field that the configuration carries reads, after the round trip, the value it has in the source -/
theorem config_roundtrip_field (rm : RegMeta) (r r0 r' : Reg) (j : Nat) (f : Field) (hrt : RegRT rm r r0 r')
    (hw0 : RegWF r0) (hw : RegWF r) (hf : r.fields[j]? = some f)
    (hc : ¬ ((rm.field j).hidden = true ∧ fieldGet r f = .ok f.reset)) :
    fieldGet r' f = fieldGet r f := by
  cases hrt with
  | whole he _ => rw [he] at hf; simp at hf
  | group hne => exact absurd hw.plain hne
  | fields x _ _ _ hbits =>
    rw [fieldGet_plain_upd r0 f x hw0.plain hw0.norev, fieldGet_plain r f hw.plain hw.norev]
    congr 2
    apply slice_congr
    intro k h1 h2
    exact (hbits k).1 ((carried_iff rm r k).2 ⟨j, f, hf, h1, h2, hc⟩)

/-- … and a hidden bit-field at its reset value in the source keeps the value it has in the target (in a fresh object: its
    reset value, so it agrees as well) -/
theorem config_roundtrip_hidden (rm : RegMeta) (r r0 r' : Reg) (f : Field) (hrt : RegRT rm r r0 r')
    (hw0 : RegWF r0) (hne : r.fields ≠ [])
    (hnc : ∀ k, f.offset ≤ k → k < f.offset + f.width → ¬ Carried rm r k) :
    fieldGet r' f = fieldGet r0 f := by
  cases hrt with
  | whole he _ => exact absurd he hne
  | group hne' =>
    rw [fieldGet, fieldGet]
    have e : ({ r0 with subs := r.subs } : Reg).get false = r0.get false := by
      simp [Reg.get, isGroup_false _ hw0.plain, Reg.isGroup, hw0.plain]
    rw [e]
  | fields x _ _ _ hbits =>
    rw [fieldGet_plain_upd r0 f x hw0.plain hw0.norev, fieldGet_plain r0 f hw0.plain hw0.norev]
    congr 2
    apply slice_congr
    intro k h1 h2
    exact (hbits k).2 (hnc k h1 h2)

/-- if the target agrees with the source on every bit the configuration does not carry (e.g. all bits are covered by
    bit-fields and the hidden ones at reset are at reset in the fresh object too), the round trip restores the register
    completely: both views and every bit-field read as in the source -/
theorem config_roundtrip_same_state (rm : RegMeta) (r r0 r' : Reg) (hrt : RegRT rm r r0 r') (hok : RegOK rm r r0)
    (hrest : ∀ k, ¬ Carried rm r k → r0.value.testBit k = r.value.testBit k) :
    (∀ raw, r'.getAlt rm.alts raw = r.getAlt rm.alts raw) ∧ ∀ f, fieldGet r' f = fieldGet r f := by
  obtain ⟨hl, hw, hw0, _⟩ := hok
  -- a plain target whose value becomes the source value reads like the source
  have plainCase : r.subW = 0 → (∀ raw, ({ r0 with value := r.value } : Reg).getAlt rm.alts raw = r.getAlt rm.alts raw) ∧
      ∀ f, fieldGet { r0 with value := r.value } f = fieldGet r f := by
    intro hp
    have hpw : RegWF r := by
      cases hw with
      | plain h => exact h
      | group g _ _ => have := g.sub; omega
    have hp0 : r0.subW = 0 := by rw [hl.subW]; exact hp
    have hn0 : r0.reverse = false := by rw [hl.reverse]; exact hpw.norev
    refine ⟨fun raw => ?_, fun f => ?_⟩
    · rw [getAlt_plain { r0 with value := r.value } rm.alts raw hp0 hn0, getAlt_plain r rm.alts raw hp hpw.norev]
    · rw [fieldGet_plain_upd r0 f r.value hp0 hn0, fieldGet_plain r f hp hpw.norev]
  cases hrt with
  | whole _ hp => exact plainCase hp
  | group hne =>
    have hc := fun raw => group_views_congr { r0 with subs := r.subs } r rm.alts raw hl.width hl.reverse hl.subW hne rfl hl.revSubs
    refine ⟨fun raw => (hc raw).1, fun f => ?_⟩
    simp only [fieldGet, (hc false).2]
  | fields x _ hp hx hbits =>
    have hpw : RegWF r := by
      cases hw with
      | plain h => exact h
      | group g _ _ => have := g.sub; omega
    have : x = r.value := by
      apply Nat.eq_of_testBit_eq; intro k
      by_cases hc : Carried rm r k
      · exact (hbits k).1 hc
      · rw [(hbits k).2 hc]; exact hrest k hc
    subst this
    exact plainCase hp

/-! ## loading the same configuration twice -/

theorem regInv_of_wf (rm : RegMeta) (r : Reg) (h : RegWF' rm r) : RegInv rm r := by
  cases h with
  | plain hp => exact .plain ⟨hp.plain, hp.norev, hp.bound, hp.fieldsIn, hp.disjoint⟩
  | group hg he ha => exact .group ⟨hg.sub, hg.width, hg.bound, hg.bytes⟩ he ha.mult ha.order

/-- **Idempotence of `load_yml_config`.**  `get_config` being free of side effects is trivial in a functional model
    (`getConfig` returns no state); the statement with content is that loading any configuration a second time changes
    nothing.  Hypotheses: the keys of the dictionaries are unique (`hk`: every register is addressed once, a group not
    together with one of its own sub-registers; `EntryOK`: bit-field keys unique) and no byte-reversed register is given
    as a bit-field dictionary (`EntryOK`; see the refuting example below). -/
theorem loadConfig_idempotent (m : Meta) (rf rf1 : RegFile) (cfg : Cfg) (hwf : FileWF' m rf)
    (hk : (cfg.map (·.1.idx)).Nodup) (he : ∀ e ∈ cfg, EntryOK rf e)
    (hl : loadConfig m rf cfg = .ok rf1) : loadConfig m rf1 cfg = .ok rf1 :=
  loadConfig_idem m rf rf1 cfg (fun i r hr => regInv_of_wf _ r (hwf i r hr)) hk he hl

/-- why `EntryOK` excludes bit-field dictionaries for reversed registers: an EMPTY dictionary for a reversed group runs
    the "processing" step `set_value(get_value(raw=True), raw=False)`, which byte-swaps the group on every load.
    Replayed on the real code: reversed group of 3 bytes 0x11 0x22 0x33, `load_yml_config({"GRP": {}})` → 0x33 0x22 0x11. -/
example : loadConfig [] [({ width := 16, reverse := true, subW := 8, subs := [0x11, 0x22] } : Reg)] [(.top 0, .fields [])]
    = .ok [{ width := 16, reverse := true, subW := 8, subs := [0x22, 0x11] }] := by decide

/-! ## non-vacuity of the configuration theorems -/

/-- bit-field 0: enum values 2, 4, 4 named N0, N0, N1 (a name shared by two values); bit-field 1 hidden;
    bit-field 2 with a SHIFT_RIGHT:4 processor -/
def exCfgReg : Reg :=
  { width := 16, value := 0x1234,
    fields := [{ offset := 0, width := 4, enums := [2, 4, 4] }, { offset := 4, width := 4 },
               { offset := 8, width := 8, shift := 4, enums := [0x120] }] }

def exMeta : Meta := [{ fields := [{ names := [0, 0, 1] }, { hidden := true }, {}] }]

example : RegWF exCfgReg := ⟨rfl, rfl, by decide, by decide, by decide⟩

example : RegOK (exMeta.reg 0) exCfgReg { exCfgReg with value := 0 } :=
  ⟨⟨rfl, rfl, rfl, rfl, rfl, rfl, rfl⟩, .plain ⟨rfl, rfl, by decide, by decide, by decide⟩,
   .plain ⟨rfl, rfl, by decide, by decide, by decide⟩, fun h => absurd rfl h⟩

/-- value 4 of bit-field 0 is first listed under the name N0, which decodes to 2: the number is written out (85623b6);
    the hidden bit-field is not at its reset value 0 and is written out as well -/
example : getConfig exMeta [exCfgReg] =
    .ok [(.top 0, .fields [(0, .num 4), (1, .num 3), (2, .enumName 0)])] := by decide

example : loadConfig exMeta [{ exCfgReg with value := 0 }] [(.top 0, .fields [(0, .num 4), (1, .num 3), (2, .enumName 0)])]
    = .ok [exCfgReg] := by decide

/-- by enum name: N0 is the first entry of that name (value 2); an unknown name is an error -/
example : (loadConfig exMeta [exCfgReg] [(.top 0, .fields [(0, .enumName 0)])]).toOption.map (·.map (·.value))
    = some [0x1232] := by decide

example : loadConfig exMeta [exCfgReg] [(.top 0, .fields [(0, .enumName 7)])] = .error .spsdk := by decide

example : EntryOK [exCfgReg] (.top 0, .fields [(0, .num 4), (1, .num 3), (2, .enumName 0)]) := by
  refine ⟨?_, ?_⟩
  · intro l hl; cases hl; decide
  · intro i l r hi _ hr
    cases hi
    simp at hr
    subst hr; rfl

/-! # Generated part: the integer arithmetic of spsdk/utils/registers.py as the source has it NOW

`Generated/RegArith.lean` is re-translated from the AST on every run (tools/extract/gen_C11.py): `self.width`, `self.offset`, the
value read from the parent, the config processor … are explicit parameters, Python-int semantics (`& | ^ ~` two's complement).
The theorems below hold for ALL natural-number arguments and say that the hand model computes exactly this arithmetic, so every
theorem above speaks about the mask / shift / comparison / bit-position formulas of the current source.  A changed formula breaks
one of them directly.  (Proofs: Proofs/RegistersGen.lean; they normalise both sides to bits, not to a particular shape.) -/

/-- `ShiftRightConfigProcessor.pre_process / post_process / width_update`, and the base class (identity) -/
theorem gen_processors (s v : Nat) :
    RegArith.srPre s v = ((v >>> s : Nat) : Int) ∧ RegArith.srPost s v = ((v <<< s : Nat) : Int) ∧
    RegArith.srWidth s v = ((v + s : Nat) : Int) ∧
    RegArith.nopPre v = v ∧ RegArith.nopPost v = v ∧ RegArith.nopWidth v = v ∧
    RegArith.bfConfigWidth v (RegArith.srWidth s) = ((v + s : Nat) : Int) :=
  ⟨srPre_eq s v, srPost_eq s v, srWidth_eq s v, (nop_eq v).1, (nop_eq v).2.1, (nop_eq v).2.2, bfConfigWidth_eq v s⟩

/-- `RegsBitField.get_value`: shift by the offset, mask `(1 << width) - 1`, post-process -/
theorem gen_bitfield_get (rv off w s : Nat) :
    RegArith.bfGet rv off w (RegArith.srPost s) = ((((rv >>> off) &&& mask w) <<< s : Nat) : Int) ∧
    RegArith.bfGet rv off w RegArith.nopPost = (((rv >>> off) &&& mask w : Nat) : Int) :=
  ⟨bfGet_eq rv off w s, bfGet_nop_eq rv off w⟩

/-- `RegsBitField.set_value`: pre-process unless `no_preprocess`, refuse unless `0 <= v < 1 << width`, clear-and-insert -/
theorem gen_bitfield_set (v rv off w s : Nat) (noPre : Bool) :
    RegArith.bfSet v noPre rv off w (RegArith.srPre s) =
      (if (if noPre then v else v >>> s) ≥ 2 ^ w then .error .spsdk
       else .ok ((insertBits rv off w (if noPre then v else v >>> s) : Nat) : Int)) :=
  bfSet_eq v rv off w s noPre

/-- the hand model's `fieldGet` / `fieldSet` ARE the generated arithmetic around `Reg.get` / `Reg.set` (any register) -/
theorem gen_fieldGet (r : Reg) (f : Field) :
    fieldGet r f = (match r.get false with
      | .error e => .error e
      | .ok rv => .ok (RegArith.bfGet rv f.offset f.width (RegArith.srPost f.shift)).toNat) :=
  fieldGet_gen r f

theorem gen_fieldSet (r : Reg) (f : Field) (v : Nat) (raw noPre : Bool) :
    fieldSet r f v raw noPre = (match r.get raw with
      | .ok rv => (match RegArith.bfSet v noPre rv f.offset f.width (RegArith.srPre f.shift) with
        | .error e => .error e
        | .ok x => r.set x.toNat raw)
      | .error e => (match RegArith.bfSet v noPre 0 f.offset f.width (RegArith.srPre f.shift) with
        | .error e' => .error e'
        | .ok _ => .error e)) :=
  fieldSet_gen r f v raw noPre

/-- `Register.set_value`: the range guard (`0 <= value < 1 << width`, negative values included) is the model's rejection -/
theorem gen_register_guard (r : Reg) (alts : List Nat) (v n : Nat) (raw : Bool) :
    RegArith.regSetGuard v r.width = (if v < 2 ^ r.width then .ok true else .error .spsdk) ∧
    RegArith.regSetGuard (Int.negSucc n) r.width = .error .spsdk ∧
    (RegArith.regSetGuard v r.width = .error .spsdk →
      r.set v raw = .error .spsdk ∧ r.setAlt alts v raw = .error .spsdk) := by
  refine ⟨regSetGuard_eq v r.width, regSetGuard_neg n r.width, ?_⟩
  intro h
  rw [regSetGuard_eq] at h
  have hv : 2 ^ r.width ≤ v := by
    rcases Nat.lt_or_ge v (2 ^ r.width) with h' | h'
    · rw [if_pos h'] at h; cases h
    · exact h'
  exact ⟨set_reject r v raw hv, setAlt_reject r alts v raw hv⟩

/-- the byte reversal: condition `not raw and reverse`, on `alt_width // 8` bytes, with opposite byte orders (set and get) -/
theorem gen_reverse (raw rev : Bool) (aw w : Nat) :
    RegArith.regSetSwapCond raw rev = (!raw && rev) ∧ RegArith.regGetSwapCond raw rev = (!raw && rev) ∧
    RegArith.regSetSwapBytes aw w = ((aw / 8 : Nat) : Int) ∧ RegArith.regGetSwapBytes aw w = ((aw / 8 : Nat) : Int) ∧
    RegArith.regSetSwaps = true ∧ RegArith.regGetSwapsBig = true ∧ RegArith.regGetSwapsLittle = true :=
  ⟨(swapCond_eq raw rev).1, (swapCond_eq raw rev).2, (swapBytes_eq aw w).1, (swapBytes_eq aw w).2, swaps_eq.1, swaps_eq.2.1, swaps_eq.2.2⟩

/-- grouped registers, write: `alt_width // sub_width` sub-registers, the one at 0-based position `k` gets
    `(value >> bit_pos) & ((1 << sub_width) - 1)` with the bit position of the model (`subPosW`, normal / reversed order) -/
theorem gen_group_write (r : Reg) (v aw k : Nat) :
    RegArith.subCount aw r.subW = ((aw / r.subW : Nat) : Int) ∧
    RegArith.subValue v aw r.subW k r.revSubs = (((v >>> subPosW r aw k) &&& mask r.subW : Nat) : Int) ∧
    distributeW r aw v = (List.range r.subs.length).map (fun (i : Nat) =>
      if ((i : Nat) : Int) < RegArith.subCount aw r.subW then (RegArith.subValue v aw r.subW i r.revSubs).toNat
      else r.subs.getD i 0) :=
  ⟨subCount_eq aw r.subW, subValue_eq r v aw k, distributeW_gen r aw v⟩

/-- grouped registers, read: the model's `assemble` is the generated loop (`value |= sub << bit_pos` from 0) -/
theorem gen_group_read (r : Reg) (acc sv k : Nat) :
    RegArith.asmInit = 0 ∧
    RegArith.asmStep acc sv r.width r.subW k r.revSubs = ((acc ||| (sv <<< subPos r k) : Nat) : Int) ∧
    ((assemble r : Nat) : Int) = (List.range r.subs.length).foldl
      (fun acc (i : Nat) => RegArith.asmStep acc (r.subs.getD i 0 : Nat) r.width r.subW i r.revSubs) RegArith.asmInit :=
  ⟨asmInit_eq, asmStep_eq r acc sv k, assemble_gen r⟩

/-- `Register.get_alt_width`: the list is sorted ascending first, the byte count is `get_bytes_cnt_of_int(value, align_to_2n=False)`
    without `byte_cnt`, the first fitting (`cnt <= alt // 8`) element wins, else the width; the model's `altWidth` is that for
    EVERY list (it does not depend on the order) -/
theorem gen_alt_width (w v : Nat) (alts sorted : List Nat) (hp : alts.Perm sorted) (hs : sorted.Pairwise (· ≤ ·)) :
    RegArith.altSorted = true ∧ RegArith.altCntAlign = false ∧ RegArith.altCntByteCnt = false ∧
    RegArith.getAltWidth w (byteCnt v) (sorted.map (fun (a : Nat) => (a : Int))) = ((altWidth alts w v : Nat) : Int) := by
  refine ⟨altFlags_eq.1, altFlags_eq.2.1, altFlags_eq.2.2, ?_⟩
  rw [getAltWidth_eq w v sorted hs, altWidth_perm alts sorted w v hp]

/-- `Register.get_reset_value`: the model's `resetValue` is the generated fold -/
theorem gen_reset_value (r : Reg) :
    ((r.resetValue : Nat) : Int) = r.fields.foldl
      (fun acc f => RegArith.resetOr acc f.reset f.offset f.width) (r.resetRaw : Int) :=
  resetValue_gen r

/-- non-vacuity / sanity of the generated part on concrete numbers (evaluated from the generated definitions) -/
example : RegArith.bfSet 0xF0 false 0xA5A50000 8 4 (RegArith.srPre 4) = .ok 0xA5A50F00 := by decide
example : RegArith.bfSet 16 true 0 0 4 RegArith.nopPre = .error .spsdk := by decide
example : RegArith.bfSet (-1) true 0 0 4 RegArith.nopPre = .error .spsdk := by decide
example : RegArith.subValue 0x1111111122222222 64 32 0 true = 0x11111111 := by decide
example : RegArith.getAltWidth 384 33 [256] = 384 ∧ RegArith.getAltWidth 384 32 [256] = 256 ∧ RegArith.getAltWidth 384 1 [] = 384 := by decide

/-! # Phase 3: every config processor of the source, `get_config(diff)`, look-up, export with gaps

`Generated/RegProc.lean` lists EVERY class of registers.py that derives from `ConfigProcessor` (AST, by value), with its
`pre_process / post_process / width_update` translated; a new subclass, a changed formula or NAME regenerates the table and the
theorems below have to be re-proved for it. -/

theorem getD_cast (ps : List Nat) : (ps.map (fun (x : Nat) => (x : Int))).getD 0 0 = ((ps.getD 0 0 : Nat) : Int) := by
  cases ps <;> simp

/-- **Every processor that exists is one the model represents** by `Field.shift` (`shift = 0` for the base class): its
    pre-processing is `>>> shift`, its post-processing `<<< shift`, its width update `+ shift`, for all parameter values. -/
theorem processors_covered (p : RegProc.Proc) (hp : p ∈ RegProc.procs) :
    ∃ sh : List Nat → Nat, ∀ (ps : List Nat) (v : Nat),
      p.pre (ps.map (fun (x : Nat) => (x : Int))) v = ((v >>> sh ps : Nat) : Int) ∧
      p.post (ps.map (fun (x : Nat) => (x : Int))) v = ((v <<< sh ps : Nat) : Int) ∧
      p.width (ps.map (fun (x : Nat) => (x : Int))) v = ((v + sh ps : Nat) : Int) := by
  simp only [RegProc.procs, List.mem_cons, List.not_mem_nil, or_false] at hp
  rcases hp with rfl | rfl
  · exact ⟨fun _ => 0, fun ps v => by simp⟩
  · refine ⟨fun ps => ps.getD 0 0, fun ps v => ?_⟩
    simp only [getD_cast, shrI_cast, shlI_cast, Int.toNat_natCast]
    refine ⟨trivial, trivial, ?_⟩
    push_cast; rfl

/-- **`pre(post(v)) = v`** for every processor and all parameters (what `get_config` writes loads back to the stored bits), and
    **`post(pre(v)) = v` on the accepted domain** (the values `post` produces — for SHIFT_RIGHT the multiples of `2^count`) -/
theorem processors_roundtrip (p : RegProc.Proc) (hp : p ∈ RegProc.procs) (ps : List Nat) (v : Nat) :
    p.pre (ps.map (fun (x : Nat) => (x : Int))) (p.post (ps.map (fun (x : Nat) => (x : Int))) v) = v ∧
    ((∃ s : Nat, (v : Int) = p.post (ps.map (fun (x : Nat) => (x : Int))) s) →
      p.post (ps.map (fun (x : Nat) => (x : Int))) (p.pre (ps.map (fun (x : Nat) => (x : Int))) v) = v) := by
  obtain ⟨sh, h⟩ := processors_covered p hp
  have e1 : ∀ s : Nat, p.pre (ps.map (fun (x : Nat) => (x : Int))) (p.post (ps.map (fun (x : Nat) => (x : Int))) s) = s := by
    intro s
    rw [(h ps s).2.1, (h ps (s <<< sh ps)).1, Nat.shiftLeft_shiftRight]
  refine ⟨e1 v, ?_⟩
  rintro ⟨s, hs⟩
  rw [hs, e1 s]

/-- the dispatch list of `from_spec` is exactly the subclasses of the table, NAMEs are unique, and the configuration-string
    syntax constants are the ones `procFromSpec` (Model/RegistersP3.lean) is written with -/
theorem processors_dispatch :
    RegProc.dispatch = (RegProc.procs.filter (fun p => p.cls != "ConfigProcessor")).map (·.name) ∧
    (RegProc.procs.map (·.name)).Nodup ∧
    (∀ p ∈ RegProc.procs, p.keys = p.params) ∧
    RegProc.syntaxConsts = [("get_method_name", ["split::"]), ("get_params", ["split:=", "split::", "split:;", "split:,"]),
      ("get_description", ["partition:;", "replace:", "replace:DESC="])] := by
  refine ⟨by decide, by decide, ?_, by decide⟩
  intro p hp
  simp only [RegProc.procs, List.mem_cons, List.not_mem_nil, or_false] at hp
  rcases hp with rfl | rfl <;> rfl

/-- on the accepted domain the value a processed bit-field stores is the value itself -/
theorem stored_of_accepted (f : Field) (v : Nat) (h : v % 2 ^ f.shift = 0) : stored f v = v :=
  shl_shr_of_mod v f.shift h

/-- **set via the configuration, read the value back** — bit-fields with a processor included: a number of the accepted domain
    loaded through `load_yml_config` reads back as exactly that number, and what `get_config` then writes decodes to it -/
theorem config_value_roundtrip_processed (r : Reg) (f : Field) (fm : FieldMeta) (v : Nat) (h : RegWF r)
    (hin : f.offset + f.width ≤ r.width) (hv : v >>> f.shift < 2 ^ f.width) (hd : v % 2 ^ f.shift = 0) :
    ∃ r', loadField r f fm (.num v) = .ok r' ∧ fieldGet r' f = .ok v ∧ RegWF r' ∧
      ∃ c, enumValueOf r' f fm = .ok c ∧ cfgDecode f fm c = some v := by
  obtain ⟨r', h1, h2⟩ := field_get_set r f v true h hin hv
  rw [stored_of_accepted f v hd] at h2
  exact ⟨r', h1, h2, fieldSet_wf r f v true h hin r' h1, enum_value_decodes r' f fm v h2⟩

/-- **independence with processors**: after any history, a write of an accepted value `v` to a processed bit-field and any later
    operations that do not write its bits, the bit-field reads exactly `v` (neighbours with or without processors included) -/
theorem history_last_write_processed (rf : RegFile) (pre post : List Op) (i j v : Nat) (raw : Bool)
    (r : Reg) (f : Field) (h : FileWF rf) (hr : rf[i]? = some r) (hf : r.fields[j]? = some f)
    (hv : v >>> f.shift < 2 ^ f.width) (hd : v % 2 ^ f.shift = 0) (hpost : ∀ op ∈ post, Untouched rf i j op) :
    ∃ r', (run rf (pre ++ [Op.setField i j v raw] ++ post))[i]? = some r' ∧ fieldGet r' f = .ok v := by
  have := history_last_write rf pre post i j v raw r f h hr hf hv hpost
  rwa [stored_of_accepted f v hd] at this

example : (0x120 : Nat) >>> 4 < 2 ^ 8 ∧ (0x120 : Nat) % 2 ^ 4 = 0 := by decide

example : ∃ p ∈ RegProc.procs, p.name = "SHIFT_RIGHT" ∧ p.pre [4] 0x123 = 0x12 ∧ p.post [4] 0x12 = 0x120 ∧ p.width [4] 8 = 12 :=
  ⟨_, List.mem_cons_of_mem _ (List.mem_cons_self ..), by decide⟩

/-! ## `get_config(diff=True)` -/

/-- `diff=False` is the configuration all older theorems speak about -/
theorem getConfig_diff_false (m : Meta) (rf : RegFile) : getConfigD false m rf = getConfig m rf :=
  getConfigDFrom_false m rf 0

/-- the bits a diff configuration carries: those of the bit-fields that do not read their reset value -/
def CarriedD (r : Reg) (k : Nat) : Prop :=
  ∃ (j : Nat) (f : Field), r.fields[j]? = some f ∧ f.offset ≤ k ∧ k < f.offset + f.width ∧ fieldGet r f ≠ .ok f.reset

theorem carriedD_iff (rm : RegMeta) (r : Reg) (k : Nat) : Carried (hideAll rm r.fields.length) r k ↔ CarriedD r k := by
  rw [carried_iff]
  constructor
  · rintro ⟨j, f, h1, h2, h3, h4⟩
    have hj : j < r.fields.length := by
      rcases Nat.lt_or_ge j r.fields.length with h | h
      · exact h
      · rw [List.getElem?_eq_none h] at h1; cases h1
    exact ⟨j, f, h1, h2, h3, fun hh => h4 ⟨hideAll_hidden rm _ j hj, hh⟩⟩
  · rintro ⟨j, f, h1, h2, h3, h4⟩
    exact ⟨j, f, h1, h2, h3, fun hh => h4 hh.2⟩

/-- **A diff configuration names exactly what differs from reset**: a register has an entry iff its raw value is not its
    reset value, and the bit-field dictionary of such a register names exactly the bit-fields that do not read their reset value. -/
theorem config_diff_exact (m : Meta) (rf : RegFile) (cfg : Cfg) (h : getConfigD true m rf = .ok cfg) :
    (∀ ref, (∃ c, (ref, c) ∈ cfg) ↔ ∃ i r, ref = .top i ∧ rf[i]? = some r ∧ regAtReset r (m.reg i) = false) ∧
    (∀ ref l, (ref, RegCfg.fields l) ∈ cfg → ∃ i r, ref = .top i ∧ rf[i]? = some r ∧ r.fields ≠ [] ∧
      ∀ j, (∃ c, (j, c) ∈ l) ↔ ∃ f, r.fields[j]? = some f ∧ fieldGet r f ≠ .ok f.reset) := by
  refine ⟨fun ref => ?_, fun ref l hm => ?_⟩
  · have := getConfigDFrom_keys m rf 0 cfg h ref
    simpa using this
  · obtain ⟨t, r, h1, h2, h3⟩ := getConfigDFrom_entry m rf 0 cfg h ref _ hm
    simp only [Nat.zero_add] at h1 h3
    refine ⟨t, r, h1, h2, ?_⟩
    unfold regConfigD at h3
    cases he : r.fields.isEmpty with
    | true =>
      rw [he] at h3
      simp only [if_true] at h3
      cases hg : r.getAlt (m.reg t).alts false <;> rw [hg] at h3 <;> cases h3
    | false =>
      rw [he] at h3
      simp only [Bool.false_eq_true, if_false] at h3
      cases hf : fieldsConfigD true r (m.reg t) r.fields 0 with
      | error e => rw [hf] at h3; cases h3
      | ok l' =>
        rw [hf] at h3
        cases h3
        refine ⟨(by intro hn; rw [hn] at he; cases he), fun j => ?_⟩
        rw [fieldsConfigD_keys r (m.reg t) r.fields 0 l hf j]
        constructor
        · rintro ⟨t', f, h4, h5, h6⟩
          exact ⟨f, by rw [h4, Nat.zero_add]; exact h5, h6⟩
        · rintro ⟨f, h5, h6⟩
          exact ⟨j, f, by omega, h5, h6⟩

theorem regOK_hideAll (rm : RegMeta) (n : Nat) (r r0 : Reg) (h : RegOK rm r r0) : RegOK (hideAll rm n) r r0 := by
  obtain ⟨hl, hw, hw0, halt⟩ := h
  refine ⟨hl, ?_, ?_, halt⟩
  · cases hw with
    | plain a => exact .plain a
    | group a b c => exact .group a b c
  · cases hw0 with
    | plain a => exact .plain a
    | group a b c => exact .group a b c

/-- **Loading a diff configuration.**  The diff configuration of `rf` loads into any register file `rf0` of the same layout;
    a register of `rf` at its reset value is not named and keeps what it holds in `rf0`; every other register receives what the
    configuration carries (`RegRT`, with "carried" = the bit-fields that differ from reset). -/
theorem config_diff_roundtrip (m : Meta) (rf rf0 : RegFile) (hlen : rf0.length = rf.length)
    (hok : ∀ i r r0, rf[i]? = some r → rf0[i]? = some r0 → RegOK (m.reg i) r r0) :
    ∃ cfg rf', getConfigD true m rf = .ok cfg ∧ loadConfig m rf0 cfg = .ok rf' ∧ rf'.length = rf.length ∧
      ∀ i r r0, rf[i]? = some r → rf0[i]? = some r0 → ∃ r', rf'[i]? = some r' ∧
        ((regAtReset r (m.reg i) = true ∧ r' = r0) ∨
         (regAtReset r (m.reg i) = false ∧ RegRT (hideAll (m.reg i) r.fields.length) r r0 r')) := by
  have := roundtrip_lift_diff m RegOK (fun rm r r0 r' => RegRT (hideAll rm r.fields.length) r r0 r') (by
    intro rm r r0 hp
    obtain ⟨c, r', h1, h2, h3⟩ := regOK_roundtrip (hideAll rm r.fields.length) r r0 (regOK_hideAll rm _ r r0 hp)
    exact ⟨c, r', by rw [regConfigD_true]; exact h1, by rw [← loadReg_hideAll rm r.fields.length]; exact h2, h3⟩)
    rf rf0 [] hlen (by simpa using hok)
  simpa [getConfigD] using this

/-- **… reproduces the state** in every target that agrees with the source on what the configuration does not carry (a freshly
    created object: bit-fields at reset are at reset there too): a named register reads like the source in both views and in
    every bit-field; a register left out reads its reset value in both objects. -/
theorem config_diff_same_state (rm : RegMeta) (r r0 r' : Reg) (hok : RegOK rm r r0) :
    (regAtReset r rm = false → RegRT (hideAll rm r.fields.length) r r0 r' →
      (∀ k, ¬ CarriedD r k → r0.value.testBit k = r.value.testBit k) →
      (∀ raw, r'.getAlt rm.alts raw = r.getAlt rm.alts raw) ∧ ∀ f, fieldGet r' f = fieldGet r f) ∧
    (regAtReset r rm = true → regAtReset r0 rm = true → r0.getAlt rm.alts true = r.getAlt rm.alts true) := by
  refine ⟨fun _ hrt hrest => ?_, fun h h0 => ?_⟩
  · exact config_roundtrip_same_state (hideAll rm r.fields.length) r r0 r' hrt (regOK_hideAll rm _ r r0 hok)
      (fun k hk => hrest k (fun hc => hk ((carriedD_iff rm r k).2 hc)))
  · have hr : r0.resetValue = r.resetValue := by
      simp only [Reg.resetValue, hok.layout.fields, hok.layout.resetRaw]
    unfold regAtReset at h h0
    cases hg : r.getAlt rm.alts true with
    | error e => rw [hg] at h; cases h
    | ok v =>
      cases hg0 : r0.getAlt rm.alts true with
      | error e => rw [hg0] at h0; cases h0
      | ok v0 =>
        rw [hg] at h; rw [hg0] at h0
        simp only [beq_iff_eq] at h h0
        rw [h, h0, hr]

/-- non-vacuity: bit-field 0 differs from its reset value 0, bit-fields 1 and 2 of `exCfgReg` are moved to their reset values;
    the diff configuration names bit-field 0 only, and a register at reset is left out altogether -/
example : getConfigD true exMeta [{ exCfgReg with value := 0x0004 }] = .ok [(.top 0, .fields [(0, .num 4)])] := by decide
example : getConfigD true exMeta [{ exCfgReg with value := 0 }] = .ok [] := by decide
example : loadConfig exMeta [{ exCfgReg with value := 0 }] [(.top 0, .fields [(0, .num 4)])] = .ok [{ exCfgReg with value := 0x0004 }] := by
  decide

/-! ## reset restores every bit-field, hidden or not (seeded change C11f) -/

/-- `Register.get_reset_value` iterates `_bitfields` itself (every bit-field, hidden ones included), not a filtered view;
    the model's `Reg.resetValue` folds over all `r.fields` with exactly the generated step (`gen_reset_value`) -/
theorem gen_reset_iterates_all : RegArith.resetIterAll = true := by decide

/-- **Reset restores every bit-field.**  In a well-formed register whose register-level reset value has no bits inside bit-field
    `j`, `reset_value()` succeeds and bit-field `j` — named or hidden, the model does not distinguish — afterwards reads its own
    reset value (through its processor: `(reset & mask) << shift`). -/
theorem reset_restores_field (r : Reg) (j : Nat) (f : Field) (h : RegWF r) (hf : r.fields[j]? = some f)
    (hb : r.resetValue < 2 ^ r.width)
    (hraw : ∀ k, f.offset ≤ k → k < f.offset + f.width → r.resetRaw.testBit k = false) :
    ∃ r', r.reset = .ok r' ∧ RegWF r' ∧ fieldGet r' f = .ok ((f.reset &&& mask f.width) <<< f.shift) := by
  refine ⟨{ r with value := r.resetValue }, set_plain r r.resetValue true h.plain h.norev hb,
    ⟨h.plain, h.norev, hb, h.fieldsIn, h.disjoint⟩, ?_⟩
  rw [fieldGet_plain_upd r f r.resetValue h.plain h.norev, resetValue_slice r j f hf h.disjoint hraw]

theorem step_layout_reset (rf rf' : RegFile) (op : Op) (h : FileWF rf) (hs : step rf op = .ok rf') :
    FileWF rf' ∧ rf'.map (fun r => (r.width, r.fields, r.resetRaw)) = rf.map (fun r => (r.width, r.fields, r.resetRaw)) := by
  have hf := step_forall2 rf rf' op hs
  refine forall2_preserve (P := RegWF) (key := fun r => (r.width, r.fields, r.resetRaw)) hf h ?_
  intro r r' hw hst
  obtain ⟨x, hx, rfl⟩ := regStep_plain r r' hst hw.plain hw.norev hw.bound
  exact ⟨⟨hw.plain, hw.norev, hx, hw.fieldsIn, hw.disjoint⟩, rfl⟩

/-- no operation changes widths, bit-field layouts or reset values -/
theorem run_layout_reset (rf : RegFile) (ops : List Op) (h : FileWF rf) :
    (run rf ops).map (fun r => (r.width, r.fields, r.resetRaw)) = rf.map (fun r => (r.width, r.fields, r.resetRaw)) := by
  induction ops generalizing rf with
  | nil => rfl
  | cons op ops ih =>
    have e : run rf (op :: ops) = run (match step rf op with | .ok s' => s' | .error _ => rf) ops := by
      simp [run]
    rw [e]
    cases hst : step rf op with
    | error e => exact ih rf h
    | ok s' =>
      obtain ⟨h1, h2⟩ := step_layout_reset rf s' op h hst
      exact (ih s' h1).trans h2

/-- … in any register of the file, after any history -/
theorem history_reset_restores (rf : RegFile) (pre : List Op) (i j : Nat) (r : Reg) (f : Field) (h : FileWF rf)
    (hr : rf[i]? = some r) (hf : r.fields[j]? = some f) (hb : r.resetValue < 2 ^ r.width)
    (hraw : ∀ k, f.offset ≤ k → k < f.offset + f.width → r.resetRaw.testBit k = false) :
    ∃ r', (run rf (pre ++ [Op.resetReg i]))[i]? = some r' ∧ fieldGet r' f = .ok ((f.reset &&& mask f.width) <<< f.shift) := by
  obtain ⟨hwf1, hl1⟩ := run_wf rf pre h
  have hl2 : (run rf pre).map (fun r => (r.width, r.fields, r.resetRaw)) = rf.map (fun r => (r.width, r.fields, r.resetRaw)) := by
    exact run_layout_reset rf pre h
  obtain ⟨r1, hr1, hk1⟩ := getElem?_of_map_eq (key := fun r : Reg => (r.width, r.fields, r.resetRaw)) hl2 hr
  have hw1 : r1.width = r.width := (Prod.mk.inj hk1).1
  have hf1 : r1.fields = r.fields := (Prod.mk.inj (Prod.mk.inj hk1).2).1
  have hx1 : r1.resetRaw = r.resetRaw := (Prod.mk.inj (Prod.mk.inj hk1).2).2
  have wf1 : RegWF r1 := hwf1 r1 (List.mem_of_getElem? hr1)
  have hrv : r1.resetValue = r.resetValue := by simp only [Reg.resetValue, hf1, hx1]
  obtain ⟨r2, h1, _, h3⟩ := reset_restores_field r1 j f wf1 (hf1 ▸ hf) (by rw [hrv, hw1]; exact hb) (by rw [hx1]; exact hraw)
  have hi : i < (run rf pre).length := by
    rcases Nat.lt_or_ge i (run rf pre).length with h | h
    · exact h
    · rw [List.getElem?_eq_none h] at hr1; cases hr1
  have hstep : step (run rf pre) (.resetReg i) = .ok ((run rf pre).set i r2) := by
    simp [step, updAt, hr1, h1]
  have e : run rf (pre ++ [Op.resetReg i]) = (run rf pre).set i r2 := by
    simp only [run, List.foldl_append, List.foldl_cons, List.foldl_nil]
    have := hstep
    simp only [run] at this
    rw [this]
  rw [e]
  exact ⟨r2, by simp [hi], h3⟩

/-- non-vacuity: bit-field 1 (hidden in `exMeta`) has reset value 5; after a whole-register write and a reset it reads 5 -/
example : (({ exCfgReg with fields := [{ offset := 0, width := 4 }, { offset := 4, width := 4, reset := 5 }, { offset := 8, width := 8 }] } : Reg).reset).toOption.map
    (fun r => fieldGet r { offset := 4, width := 4, reset := 5 }) = some (.ok 5) := by decide


/-! ## look-up by name, alias and uid -/

/-- `find_reg` answers only with a register that carries the name (as name, alias or uid), members of groups only on request;
    and it finds a top-level register whenever one carries the name -/
theorem findReg_sound (names : List RegName) (x : Nat) (incl : Bool) (ref : RegRef) (h : findReg names x incl = some ref) :
    (∀ i, ref = .top i → ∃ r, names[i]? = some r ∧ nameHit x r.name r.aliases r.uid = true) ∧
    (∀ i k, ref = .sub i k → incl = true ∧
      ∃ r n a u, names[i]? = some r ∧ r.subs[k]? = some (n, a, u) ∧ nameHit x n a u = true) := by
  have key : ∀ (l : List RegName) (i0 : Nat), findRegFrom x incl l i0 = some ref →
      (∀ i, ref = .top i → ∃ t r, i = i0 + t ∧ l[t]? = some r ∧ nameHit x r.name r.aliases r.uid = true) ∧
      (∀ i k, ref = .sub i k → incl = true ∧
        ∃ t r n a u, i = i0 + t ∧ l[t]? = some r ∧ r.subs[k]? = some (n, a, u) ∧ nameHit x n a u = true) := by
    intro l
    induction l with
    | nil => intro i0 h; simp [findRegFrom] at h
    | cons r rs ih =>
      intro i0 h
      have lift : findRegFrom x incl rs (i0 + 1) = some ref →
          (∀ i, ref = .top i → ∃ t a, i = i0 + t ∧ (r :: rs)[t]? = some a ∧ nameHit x a.name a.aliases a.uid = true) ∧
          (∀ i k, ref = .sub i k → incl = true ∧
            ∃ t a n al u, i = i0 + t ∧ (r :: rs)[t]? = some a ∧ a.subs[k]? = some (n, al, u) ∧ nameHit x n al u = true) := by
        intro h'
        obtain ⟨p1, p2⟩ := ih (i0 + 1) h'
        refine ⟨fun i hi => ?_, fun i k hi => ?_⟩
        · obtain ⟨t, a, h1, h2, h3⟩ := p1 i hi
          exact ⟨t + 1, a, by omega, by simpa using h2, h3⟩
        · obtain ⟨hc, t, a, n, al, u, h1, h2, h3, h4⟩ := p2 i k hi
          exact ⟨hc, t + 1, a, n, al, u, by omega, by simpa using h2, h3, h4⟩
      simp only [findRegFrom] at h
      by_cases hh : nameHit x r.name r.aliases r.uid = true
      · rw [if_pos hh] at h
        cases h
        refine ⟨fun i hi => ?_, fun i k hi => by cases hi⟩
        cases hi
        exact ⟨0, r, rfl, by simp, hh⟩
      · rw [if_neg hh] at h
        cases hi : incl with
        | false =>
          rw [hi] at h
          simp only [Bool.false_eq_true, if_false] at h
          rw [hi] at lift
          exact lift h
        | true =>
          rw [hi] at h
          simp only [if_true] at h
          cases hf : (List.range r.subs.length).find? (subHit x r.subs) with
          | some k =>
            rw [hf] at h
            cases h
            have hk := List.find?_some hf
            unfold subHit at hk
            refine ⟨fun i hi => (by cases hi), fun i k' hi => ?_⟩
            cases hi
            cases hs : r.subs[k]? with
            | none => rw [hs] at hk; cases hk
            | some e =>
              obtain ⟨n, a, u⟩ := e
              rw [hs] at hk
              exact ⟨rfl, 0, r, n, a, u, rfl, by simp, hs, hk⟩
          | none =>
            rw [hf] at h
            rw [hi] at lift
            exact lift h
  obtain ⟨p1, p2⟩ := key names 0 h
  refine ⟨fun i hi => ?_, fun i k hi => ?_⟩
  · obtain ⟨t, r, h1, h2, h3⟩ := p1 i hi
    exact ⟨r, by rw [h1, Nat.zero_add]; exact h2, h3⟩
  · obtain ⟨hc, t, r, n, a, u, h1, h2, h3, h4⟩ := p2 i k hi
    exact ⟨hc, r, n, a, u, by rw [h1, Nat.zero_add]; exact h2, h3, h4⟩

theorem findReg_complete (names : List RegName) (x : Nat) (incl : Bool) (i : Nat) (r : RegName)
    (hr : names[i]? = some r) (hx : nameHit x r.name r.aliases r.uid = true) :
    ∃ ref, findReg names x incl = some ref := by
  have key : ∀ (l : List RegName) (i0 t : Nat), l[t]? = some r → ∃ ref, findRegFrom x incl l i0 = some ref := by
    intro l
    induction l with
    | nil => intro i0 t h; simp at h
    | cons a rs ih =>
      intro i0 t h
      simp only [findRegFrom]
      by_cases hh : nameHit x a.name a.aliases a.uid = true
      · rw [if_pos hh]; exact ⟨_, rfl⟩
      · rw [if_neg hh]
        cases t with
        | zero => simp at h; subst h; exact absurd hx hh
        | succ t =>
          split
          · exact ⟨_, rfl⟩
          · exact ih (i0 + 1) t (by simpa using h)
  exact key names 0 i hr

example : findReg [{ name := 1, uid := 101 }, { name := 2, uid := 102, aliases := [7], subs := [(20, [], 120), (21, [], 121)] }] 21 true
    = some (.sub 1 1) := by decide
example : findReg [{ name := 1, uid := 101 }, { name := 2, uid := 102, aliases := [7], subs := [(20, [], 120), (21, [], 121)] }] 21 false
    = none := by decide
example : findReg [{ name := 1, uid := 101 }, { name := 2, uid := 102, aliases := [7] }] 7 false = some (.top 1) := by decide

end SpsdkVerif.C11
