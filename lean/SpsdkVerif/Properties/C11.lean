/-
C11 — registers and bit-fields behave as independent bit-vectors.

Model: Model/Registers.lean (hand-written; tied to spsdk/utils/registers.py by the op-sequence
correspondence of harness/props/C11.py).  Helper lemmas: Proofs/Registers.lean.
-/
import SpsdkVerif.Model.Registers
import SpsdkVerif.Proofs.Registers

namespace SpsdkVerif.C11
open SpsdkVerif SpsdkVerif.Regs SpsdkVerif.Misc

/-! ## well-formedness of a layout (explicit, decidable on concrete layouts) -/

def FieldsDisjoint (f g : Field) : Prop :=
  f.offset + f.width ≤ g.offset ∨ g.offset + g.width ≤ f.offset

instance (f g : Field) : Decidable (FieldsDisjoint f g) := by unfold FieldsDisjoint; infer_instance

/-- a plain (non-grouped, as loaded from a specification: never reversed) register -/
structure RegWF (r : Reg) : Prop where
  plain : r.subW = 0
  norev : r.reverse = false
  bound : r.value < 2 ^ r.width
  fieldsIn : ∀ f ∈ r.fields, f.offset + f.width ≤ r.width
  disjoint : r.fields.Pairwise FieldsDisjoint

def FileWF (rf : RegFile) : Prop := ∀ r ∈ rf, RegWF r

/-- the value a field holds after `v` was written through a SHIFT_RIGHT processor (identity for shift 0) -/
def stored (f : Field) (v : Nat) : Nat := (v >>> f.shift) <<< f.shift

/-! ## single bit-field writes -/

/-- bit-level meaning of a field write: exactly the field's bits change, to the bits of the value -/
theorem fieldSet_bits (r : Reg) (f : Field) (v : Nat) (raw : Bool) (h : RegWF r)
    (hin : f.offset + f.width ≤ r.width) (hv : v >>> f.shift < 2 ^ f.width) :
    ∃ r', fieldSet r f v raw false = .ok r' ∧ r'.width = r.width ∧ r'.fields = r.fields ∧
      ∀ k, r'.value.testBit k =
        if f.offset ≤ k ∧ k < f.offset + f.width then (v >>> f.shift).testBit (k - f.offset)
        else r.value.testBit k := by
  refine ⟨_, fieldSet_plain_ok r f v raw h.plain h.norev h.bound hin hv, rfl, rfl, ?_⟩
  intro k
  exact testBit_insertBits _ _ _ _ _

/-- a field reads the value just written to it -/
theorem field_get_set (r : Reg) (f : Field) (v : Nat) (raw : Bool) (h : RegWF r)
    (hin : f.offset + f.width ≤ r.width) (hv : v >>> f.shift < 2 ^ f.width) :
    ∃ r', fieldSet r f v raw false = .ok r' ∧ fieldGet r' f = .ok (stored f v) := by
  refine ⟨_, fieldSet_plain_ok r f v raw h.plain h.norev h.bound hin hv, ?_⟩
  rw [fieldGet_plain_upd r f _ h.plain h.norev]
  simp only [stored]
  rw [slice_insertBits_same _ _ _ _ hv]

/-- … and never disturbs a disjoint neighbour -/
theorem field_frame (r : Reg) (f g : Field) (v : Nat) (raw : Bool) (h : RegWF r)
    (hin : f.offset + f.width ≤ r.width) (hd : FieldsDisjoint f g) (r' : Reg)
    (hs : fieldSet r f v raw false = .ok r') :
    fieldGet r' g = fieldGet r g := by
  obtain ⟨_, _, rfl⟩ := fieldSet_plain_inv r r' f v raw h.plain h.norev hs
  rw [fieldGet_plain_upd r g _ h.plain h.norev, fieldGet_plain r g h.plain h.norev]
  rw [slice_insertBits_disjoint _ _ _ _ _ _ hd]

/-- a value that does not fit is rejected with an SPSDK error (no silent truncation), whatever the register -/
theorem field_reject (r : Reg) (f : Field) (v : Nat) (raw : Bool) (hv : 2 ^ f.width ≤ v >>> f.shift) :
    fieldSet r f v raw false = .error .spsdk := by
  exact fieldSet_reject r f v raw hv

/-- well-formedness is preserved by field writes -/
theorem fieldSet_wf (r : Reg) (f : Field) (v : Nat) (raw : Bool) (h : RegWF r)
    (hin : f.offset + f.width ≤ r.width) (r' : Reg) (hs : fieldSet r f v raw false = .ok r') : RegWF r' := by
  obtain ⟨_, hb, rfl⟩ := fieldSet_plain_inv r r' f v raw h.plain h.norev hs
  exact ⟨h.plain, h.norev, hb, h.fieldsIn, h.disjoint⟩

/-! ## whole-register writes, reversed byte order, grouped registers -/

theorem reg_reject (r : Reg) (v : Nat) (raw : Bool) (hv : 2 ^ r.width ≤ v) : r.set v raw = .error .spsdk := by
  exact set_reject r v raw hv

/-- byte reversal is an involution on values that fit -/
theorem brev_invol (w v : Nat) (h8 : w % 8 = 0) (hv : v < 2 ^ w) :
    ∃ x, brev w v = some x ∧ x < 2 ^ w ∧ brev w x = some v := by
  exact brev_invol' w v h8 hv

/-- a plain register (reversed byte order or not) reads back the value written, in the view it was written in -/
theorem reg_set_get (r : Reg) (v : Nat) (raw : Bool) (hp : r.subW = 0) (h8 : r.width % 8 = 0) (hv : v < 2 ^ r.width) :
    ∃ r', r.set v raw = .ok r' ∧ r'.get raw = .ok v := by
  have hg := isGroup_false r hp
  have hnv : ¬ (v ≥ 2 ^ r.width) := by omega
  obtain ⟨x, hx1, hx2, hx3⟩ := brev_invol' r.width v h8 hv
  by_cases hc : (!raw && r.reverse) = true
  · refine ⟨{ r with value := x }, ?_, ?_⟩
    · simp [Reg.set, hg, hnv, hc, hx1]
    · have hc' : (!raw && r.reverse) = true := hc
      simp [Reg.get, Reg.isGroup, hp, hc', hx3]
  · have hc' : (!raw && r.reverse) = false := by simpa using hc
    refine ⟨{ r with value := v }, ?_, ?_⟩
    · simp [Reg.set, hg, hnv, hc']
    · simp [Reg.get, Reg.isGroup, hp, hc']

/-- the processed and the raw view of a reversed register are byte reversals of each other -/
theorem reg_views_consistent (r : Reg) (hp : r.subW = 0) (hr : r.reverse = true) (h8 : r.width % 8 = 0)
    (hb : r.value < 2 ^ r.width) :
    ∃ x y, r.get true = .ok x ∧ r.get false = .ok y ∧ brev r.width x = some y := by
  obtain ⟨y, hy1, _, _⟩ := brev_invol' r.width r.value h8 hb
  refine ⟨r.value, y, ?_, ?_, hy1⟩
  · simp [Reg.get, isGroup_false r hp]
  · simp [Reg.get, isGroup_false r hp, hr, hy1]

/-- a grouped register of `n` sub-registers of `subW` bits -/
structure GroupWF (r : Reg) : Prop where
  sub : 0 < r.subW
  width : r.width = r.subW * r.subs.length
  bound : ∀ s ∈ r.subs, s < 2 ^ r.subW
  bytes : r.width % 8 = 0

/-- the group view is, by definition, the assembly of the sub-register views (normal or reversed order) -/
theorem group_consistent (r : Reg) (h : GroupWF r) : r.get true = .ok (assemble r) := by
  simp [Reg.get, isGroup_true r h.sub]

/-- writing the group distributes the value so that the group reads it back, and every sub-register holds its slice -/
theorem group_set_get (r : Reg) (v : Nat) (raw : Bool) (h : GroupWF r) (hv : v < 2 ^ r.width) :
    ∃ r', r.set v raw = .ok r' ∧ r'.get raw = .ok v ∧ GroupWF r' := by
  have wf' : ∀ x, GroupWF { r with subs := distribute r x } := fun x =>
    ⟨h.sub, by simp only [distribute_length]; exact h.width, distribute_bound r x h.width h.sub, h.bytes⟩
  cases hc : (!raw && r.reverse) with
  | true =>
    obtain ⟨x, hx1, hx2, hx3⟩ := brev_invol' r.width v h.bytes hv
    refine ⟨_, set_group_rev r v x raw h.sub hv hc hx1, ?_, wf' x⟩
    have hc' : (!raw && r.reverse) = true := hc
    simp [Reg.get, Reg.isGroup, Nat.ne_of_gt h.sub, hc', assemble_distribute r x h.width h.sub hx2, hx3]
  | false =>
    refine ⟨_, set_group_norev r v raw h.sub hv hc, ?_, wf' v⟩
    have hc' : (!raw && r.reverse) = false := hc
    simp [Reg.get, Reg.isGroup, Nat.ne_of_gt h.sub, hc', assemble_distribute r v h.width h.sub hv]

/-- non-reversed order: sub-register `i` holds bits `[i*subW, (i+1)*subW)` of the raw group value -/
theorem group_sub_slice (r : Reg) (v : Nat) (h : GroupWF r) (hn : r.revSubs = false) (hv : v < 2 ^ r.width)
    (i : Nat) (hi : i < r.subs.length) :
    ∃ r', r.set v true = .ok r' ∧ r'.subs[i]? = some ((v >>> (i * r.subW)) % 2 ^ r.subW) := by
  refine ⟨_, set_group r v h.sub hv, ?_⟩
  simp only []
  rw [distribute_getElem? r v i h.width h.sub hi]
  simp [subPos, hn, mask]

/-! ## histories: any op sequence keeps the file well-formed, and a field keeps the last value
    written to it as long as no later op writes its bits -/

/-- run a history; a rejected op leaves the file unchanged (as the implementation does) -/
def run (rf : RegFile) (ops : List Op) : RegFile :=
  ops.foldl (fun s op => match step s op with | .ok s' => s' | .error _ => s) rf

/-- layout (everything but the values) -/
def layoutOf (rf : RegFile) : List (Nat × List Field) := rf.map (fun r => (r.width, r.fields))

theorem step_wf (rf rf' : RegFile) (op : Op) (h : FileWF rf) (hs : step rf op = .ok rf') :
    FileWF rf' ∧ layoutOf rf' = layoutOf rf := by
  have hf := step_forall2 rf rf' op hs
  refine forall2_preserve (P := RegWF) (key := fun r => (r.width, r.fields)) hf h ?_
  intro r r' hw hst
  obtain ⟨x, hx, rfl⟩ := regStep_plain r r' hst hw.plain hw.norev hw.bound
  exact ⟨⟨hw.plain, hw.norev, hx, hw.fieldsIn, hw.disjoint⟩, rfl⟩

theorem run_wf (rf : RegFile) (ops : List Op) (h : FileWF rf) :
    FileWF (run rf ops) ∧ layoutOf (run rf ops) = layoutOf rf := by
  induction ops generalizing rf with
  | nil => exact ⟨h, rfl⟩
  | cons op ops ih =>
    have e : run rf (op :: ops) = run (match step rf op with | .ok s' => s' | .error _ => rf) ops := by
      simp [run]
    rw [e]
    cases hst : step rf op with
    | error e => exact ih rf h
    | ok s' =>
      obtain ⟨h1, h2⟩ := step_wf rf s' op h hst
      obtain ⟨h3, h4⟩ := ih s' h1
      exact ⟨h3, h4.trans h2⟩

/-- `op` cannot change the bits of field `j` of register `i` (given the layout `rf`) -/
def Untouched (rf : RegFile) (i j : Nat) : Op → Prop
  | .setReg i' _ _ => i' ≠ i
  | .setField i' j' _ _ => i' ≠ i ∨ (∃ r f g, rf[i]? = some r ∧ r.fields[j]? = some f ∧ r.fields[j']? = some g ∧ FieldsDisjoint g f)
  | .setEnum i' j' _ => i' ≠ i ∨ (∃ r f g, rf[i]? = some r ∧ r.fields[j]? = some f ∧ r.fields[j']? = some g ∧ FieldsDisjoint g f)
  | .resetReg i' => i' ≠ i
  | .resetAll => False
  | .parse _ _ => False

/-- **History theorem.** After *any* history `pre`, a successful write of `v` to field `(i,j)`, and any later
    ops none of which writes that field's bits, the field reads the value written. -/
theorem history_last_write (rf : RegFile) (pre post : List Op) (i j v : Nat) (raw : Bool)
    (r : Reg) (f : Field) (h : FileWF rf) (hr : rf[i]? = some r) (hf : r.fields[j]? = some f)
    (hv : v >>> f.shift < 2 ^ f.width) (hpost : ∀ op ∈ post, Untouched rf i j op) :
    ∃ r', (run rf (pre ++ [Op.setField i j v raw] ++ post))[i]? = some r' ∧ fieldGet r' f = .ok (stored f v) := by
  obtain ⟨hwf1, hl1⟩ := run_wf rf pre h
  obtain ⟨r1, hr1, hk1⟩ := getElem?_of_map_eq (key := fun r : Reg => (r.width, r.fields)) hl1 hr
  have hf1 : r1.fields = r.fields := (Prod.mk.inj hk1).2
  have wf1 : RegWF r1 := hwf1 r1 (List.mem_of_getElem? hr1)
  have hin : f.offset + f.width ≤ r1.width :=
    wf1.fieldsIn f (hf1 ▸ List.mem_of_getElem? hf)
  obtain ⟨r2, hs2, hg2⟩ := field_get_set r1 f v raw wf1 hin hv
  have hi : i < (run rf pre).length := by
    rcases Nat.lt_or_ge i (run rf pre).length with h | h
    · exact h
    · rw [List.getElem?_eq_none h] at hr1; cases hr1
  have hstep : step (run rf pre) (.setField i j v raw) = .ok ((run rf pre).set i r2) := by
    simp [step, updAt, hr1, hf1, hf, hs2]
  obtain ⟨hwf2, hl2⟩ := step_wf _ _ _ hwf1 hstep
  have hx2 : ∃ r', ((run rf pre).set i r2)[i]? = some r' ∧ fieldGet r' f = .ok (stored f v) :=
    ⟨r2, by simp [List.getElem?_set, hi], hg2⟩
  have key : ∀ (post : List Op) (s : RegFile), (∀ op ∈ post, Untouched rf i j op) → FileWF s →
      layoutOf s = layoutOf rf → (∃ r', s[i]? = some r' ∧ fieldGet r' f = .ok (stored f v)) →
      ∃ r', (run s post)[i]? = some r' ∧ fieldGet r' f = .ok (stored f v) := by
    intro post
    induction post with
    | nil => intro s _ _ _ hx; simpa [run] using hx
    | cons op post ih =>
      intro s hu hwf hl hx
      have e : run s (op :: post) = run (match step s op with | .ok s' => s' | .error _ => s) post := by
        simp [run]
      rw [e]
      have hu' : ∀ o ∈ post, Untouched rf i j o := fun o ho => hu o (by simp [ho])
      cases hst : step s op with
      | error e => exact ih s hu' hwf hl hx
      | ok s' =>
        obtain ⟨hwf', hl'⟩ := step_wf s s' op hwf hst
        refine ih s' hu' hwf' (hl'.trans hl) ?_
        obtain ⟨rk, hrk, hgk⟩ := hx
        have hu0 := hu op (by simp)
        obtain ⟨rk', hrk', hkk⟩ := getElem?_of_map_eq (key := fun r : Reg => (r.width, r.fields)) hl hr
        rw [hrk] at hrk'; cases hrk'
        have hfk : rk.fields = r.fields := (Prod.mk.inj hkk).2
        have wfk : RegWF rk := hwf rk (List.mem_of_getElem? hrk)
        cases op with
        | setReg i' v' raw' =>
          simp only [Untouched] at hu0
          simp only [step] at hst
          rw [updAt_getElem?_ne s s' i' i _ hst hu0]; exact ⟨rk, hrk, hgk⟩
        | resetReg i' =>
          simp only [Untouched] at hu0
          simp only [step] at hst
          rw [updAt_getElem?_ne s s' i' i _ hst hu0]; exact ⟨rk, hrk, hgk⟩
        | resetAll => exact absurd hu0 (by simp [Untouched])
        | parse b l => exact absurd hu0 (by simp [Untouched])
        | setField i' j' v' raw' =>
          obtain ⟨ra, g, rb, hra, hgj, hfs, hrb, hne⟩ := step_setField_inv s s' i' j' v' raw' hst
          by_cases hii : i' = i
          · subst hii
            rcases hu0 with hne' | ⟨r0, f0, g0, h0, hf0, hg0, hd⟩
            · exact absurd rfl hne'
            · rw [hr] at h0; cases h0
              rw [hf] at hf0; cases hf0
              rw [hrk] at hra; cases hra
              rw [hfk, hg0] at hgj; cases hgj
              have hing : g.offset + g.width ≤ rk.width :=
                wfk.fieldsIn g (hfk ▸ List.mem_of_getElem? hg0)
              exact ⟨rb, hrb, (field_frame rk g f v' raw' wfk hing hd rb hfs).trans hgk⟩
          · rw [hne i hii]; exact ⟨rk, hrk, hgk⟩
        | setEnum i' j' e' =>
          obtain ⟨ra, g, ev, rb, hra, hgj, hev, hfs, hrb, hne⟩ := step_setEnum_inv s s' i' j' e' hst
          by_cases hii : i' = i
          · subst hii
            rcases hu0 with hne' | ⟨r0, f0, g0, h0, hf0, hg0, hd⟩
            · exact absurd rfl hne'
            · rw [hr] at h0; cases h0
              rw [hf] at hf0; cases hf0
              rw [hrk] at hra; cases hra
              rw [hfk, hg0] at hgj; cases hgj
              have hing : g.offset + g.width ≤ rk.width :=
                wfk.fieldsIn g (hfk ▸ List.mem_of_getElem? hg0)
              exact ⟨rb, hrb, (field_frame rk g f ev false wfk hing hd rb hfs).trans hgk⟩
          · rw [hne i hii]; exact ⟨rk, hrk, hgk⟩
  have e : run rf (pre ++ [Op.setField i j v raw] ++ post) = run ((run rf pre).set i r2) post := by
    simp only [run, List.foldl_append, List.foldl_cons, List.foldl_nil]
    have := hstep
    simp only [run] at this
    rw [this]
  rw [e]
  exact key post _ hpost hwf2 (hl2.trans hl1) hx2

/-- a later whole-register write determines every field: the field reads the corresponding bits of the value -/
theorem history_reg_write (rf : RegFile) (pre : List Op) (i j v : Nat)
    (r : Reg) (f : Field) (h : FileWF rf) (hr : rf[i]? = some r) (hf : r.fields[j]? = some f)
    (hv : v < 2 ^ r.width) :
    ∃ r', (run rf (pre ++ [Op.setReg i v true]))[i]? = some r' ∧
      fieldGet r' f = .ok (((v >>> f.offset) % 2 ^ f.width) <<< f.shift) := by
  obtain ⟨hwf1, hl1⟩ := run_wf rf pre h
  obtain ⟨r1, hr1, hk1⟩ := getElem?_of_map_eq (key := fun r : Reg => (r.width, r.fields)) hl1 hr
  have hw1 : r1.width = r.width := (Prod.mk.inj hk1).1
  have wf1 : RegWF r1 := hwf1 r1 (List.mem_of_getElem? hr1)
  have hi : i < (run rf pre).length := by
    rcases Nat.lt_or_ge i (run rf pre).length with h | h
    · exact h
    · rw [List.getElem?_eq_none h] at hr1; cases hr1
  have hset := set_plain r1 v true wf1.plain wf1.norev (hw1 ▸ hv)
  have hstep : step (run rf pre) (.setReg i v true) = .ok ((run rf pre).set i { r1 with value := v }) := by
    simp [step, updAt, hr1, hset]
  have e : run rf (pre ++ [Op.setReg i v true]) = (run rf pre).set i { r1 with value := v } := by
    simp only [run, List.foldl_append, List.foldl_cons, List.foldl_nil]
    have := hstep
    simp only [run] at this
    rw [this]
  rw [e]
  refine ⟨{ r1 with value := v }, by simp [List.getElem?_set, hi], ?_⟩
  rw [fieldGet_plain_upd r1 f v wf1.plain wf1.norev]
  simp [mask]

/-! ## export / parse -/

/-- exporting a well-formed file and parsing the bytes into any file of the same layout restores every value -/
theorem parse_export (rf rf' : RegFile) (little : Bool) (b : Bytes) (h : FileWF rf) (h' : FileWF rf')
    (h8 : ∀ r ∈ rf, r.width % 8 = 0)
    (hl : rf'.map (fun r => { r with value := 0 }) = rf.map (fun r => { r with value := 0 }))
    (he : exportRegs rf little = .ok b) :
    parseAll rf' 0 b little = .ok rf := by
  have := parseAll_export rf rf' little [] b []
    (fun r hr => ⟨(h r hr).plain, (h r hr).norev, (h r hr).bound⟩) hl he
  simpa using this

theorem export_length (rf : RegFile) (little : Bool) (b : Bytes) (h : FileWF rf)
    (he : exportRegs rf little = .ok b) :
    b.length = (rf.map (fun r => r.width / 8)).sum := by
  exact exportRegs_length rf little b he

/-! ## non-vacuity -/

def exReg : Reg :=
  { width := 32, value := 0xA5A50000,
    fields := [{ offset := 0, width := 8 }, { offset := 8, width := 4, shift := 4 }, { offset := 16, width := 16 }] }

example : RegWF exReg := by
  refine ⟨rfl, rfl, by decide, by decide, by decide⟩

example : (fieldSet exReg { offset := 8, width := 4, shift := 4 } 0xF0 false false).toOption.map (·.value) = some 0xA5A50F00 := by
  decide

example : fieldSet exReg { offset := 0, width := 8 } 256 false false = .error .spsdk := by decide

example : GroupWF { width := 64, subW := 32, subs := [1, 2] } := ⟨by decide, by decide, by decide, by decide⟩

example : (({ width := 64, subW := 32, subs := [0, 0], revSubs := true } : Reg).set 0x1111111122222222 true).toOption.map (·.subs)
    = some [0x11111111, 0x22222222] := by decide

end SpsdkVerif.C11
