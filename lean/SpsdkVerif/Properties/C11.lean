/-
C11 — registers and bit-fields behave as independent bit-vectors.

Model: Model/Registers.lean (hand-written; tied to spsdk/utils/registers.py by the op-sequence
correspondence of harness/props/C11.py).  Helper lemmas: Proofs/Registers.lean.
-/
import SpsdkVerif.Model.Registers
import SpsdkVerif.Proofs.Registers

namespace SpsdkVerif.C11
open SpsdkVerif SpsdkVerif.Regs SpsdkVerif.Misc

/-! ## well-formedness of a layout (explicit, decidable on concrete layouts) -/

def FieldsDisjoint (f g : Field) : Prop :=
  f.offset + f.width ≤ g.offset ∨ g.offset + g.width ≤ f.offset

instance (f g : Field) : Decidable (FieldsDisjoint f g) := by unfold FieldsDisjoint; infer_instance

/-- a plain (non-grouped, as loaded from a specification: never reversed) register -/
structure RegWF (r : Reg) : Prop where
  plain : r.subW = 0
  norev : r.reverse = false
  bound : r.value < 2 ^ r.width
  fieldsIn : ∀ f ∈ r.fields, f.offset + f.width ≤ r.width
  disjoint : r.fields.Pairwise FieldsDisjoint

def FileWF (rf : RegFile) : Prop := ∀ r ∈ rf, RegWF r

/-- the value a field holds after `v` was written through a SHIFT_RIGHT processor (identity for shift 0) -/
def stored (f : Field) (v : Nat) : Nat := (v >>> f.shift) <<< f.shift

/-! ## single bit-field writes -/

/-- bit-level meaning of a field write: exactly the field's bits change, to the bits of the value -/
theorem fieldSet_bits (r : Reg) (f : Field) (v : Nat) (raw : Bool) (h : RegWF r)
    (hin : f.offset + f.width ≤ r.width) (hv : v >>> f.shift < 2 ^ f.width) :
    ∃ r', fieldSet r f v raw false = .ok r' ∧ r'.width = r.width ∧ r'.fields = r.fields ∧
      ∀ k, r'.value.testBit k =
        if f.offset ≤ k ∧ k < f.offset + f.width then (v >>> f.shift).testBit (k - f.offset)
        else r.value.testBit k := by
  sorry

/-- a field reads the value just written to it -/
theorem field_get_set (r : Reg) (f : Field) (v : Nat) (raw : Bool) (h : RegWF r)
    (hin : f.offset + f.width ≤ r.width) (hv : v >>> f.shift < 2 ^ f.width) :
    ∃ r', fieldSet r f v raw false = .ok r' ∧ fieldGet r' f = .ok (stored f v) := by
  sorry

/-- … and never disturbs a disjoint neighbour -/
theorem field_frame (r : Reg) (f g : Field) (v : Nat) (raw : Bool) (h : RegWF r)
    (hin : f.offset + f.width ≤ r.width) (hd : FieldsDisjoint f g) (r' : Reg)
    (hs : fieldSet r f v raw false = .ok r') :
    fieldGet r' g = fieldGet r g := by
  sorry

/-- a value that does not fit is rejected with an SPSDK error (no silent truncation), whatever the register -/
theorem field_reject (r : Reg) (f : Field) (v : Nat) (raw : Bool) (hv : 2 ^ f.width ≤ v >>> f.shift) :
    fieldSet r f v raw false = .error .spsdk := by
  sorry

/-- well-formedness is preserved by field writes -/
theorem fieldSet_wf (r : Reg) (f : Field) (v : Nat) (raw : Bool) (h : RegWF r)
    (hin : f.offset + f.width ≤ r.width) (r' : Reg) (hs : fieldSet r f v raw false = .ok r') : RegWF r' := by
  sorry

/-! ## whole-register writes, reversed byte order, grouped registers -/

theorem reg_reject (r : Reg) (v : Nat) (raw : Bool) (hv : 2 ^ r.width ≤ v) : r.set v raw = .error .spsdk := by
  sorry

/-- byte reversal is an involution on values that fit -/
theorem brev_invol (w v : Nat) (h8 : w % 8 = 0) (hv : v < 2 ^ w) :
    ∃ x, brev w v = some x ∧ x < 2 ^ w ∧ brev w x = some v := by
  sorry

/-- a plain register (reversed byte order or not) reads back the value written, in the view it was written in -/
theorem reg_set_get (r : Reg) (v : Nat) (raw : Bool) (hp : r.subW = 0) (h8 : r.width % 8 = 0) (hv : v < 2 ^ r.width) :
    ∃ r', r.set v raw = .ok r' ∧ r'.get raw = .ok v := by
  sorry

/-- the processed and the raw view of a reversed register are byte reversals of each other -/
theorem reg_views_consistent (r : Reg) (hp : r.subW = 0) (hr : r.reverse = true) (h8 : r.width % 8 = 0)
    (hb : r.value < 2 ^ r.width) :
    ∃ x y, r.get true = .ok x ∧ r.get false = .ok y ∧ brev r.width x = some y := by
  sorry

/-- a grouped register of `n` sub-registers of `subW` bits -/
structure GroupWF (r : Reg) : Prop where
  sub : 0 < r.subW
  width : r.width = r.subW * r.subs.length
  bound : ∀ s ∈ r.subs, s < 2 ^ r.subW
  bytes : r.width % 8 = 0

/-- the group view is, by definition, the assembly of the sub-register views (normal or reversed order) -/
theorem group_consistent (r : Reg) (h : GroupWF r) : r.get true = .ok (assemble r) := by
  sorry

/-- writing the group distributes the value so that the group reads it back, and every sub-register holds its slice -/
theorem group_set_get (r : Reg) (v : Nat) (raw : Bool) (h : GroupWF r) (hv : v < 2 ^ r.width) :
    ∃ r', r.set v raw = .ok r' ∧ r'.get raw = .ok v ∧ GroupWF r' := by
  sorry

/-- non-reversed order: sub-register `i` holds bits `[i*subW, (i+1)*subW)` of the raw group value -/
theorem group_sub_slice (r : Reg) (v : Nat) (h : GroupWF r) (hn : r.revSubs = false) (hv : v < 2 ^ r.width)
    (i : Nat) (hi : i < r.subs.length) :
    ∃ r', r.set v true = .ok r' ∧ r'.subs[i]? = some ((v >>> (i * r.subW)) % 2 ^ r.subW) := by
  sorry

/-! ## histories: any op sequence keeps the file well-formed, and a field keeps the last value
    written to it as long as no later op writes its bits -/

/-- run a history; a rejected op leaves the file unchanged (as the implementation does) -/
def run (rf : RegFile) (ops : List Op) : RegFile :=
  ops.foldl (fun s op => match step s op with | .ok s' => s' | .error _ => s) rf

/-- layout (everything but the values) -/
def layoutOf (rf : RegFile) : List (Nat × List Field) := rf.map (fun r => (r.width, r.fields))

theorem step_wf (rf rf' : RegFile) (op : Op) (h : FileWF rf) (hs : step rf op = .ok rf') :
    FileWF rf' ∧ layoutOf rf' = layoutOf rf := by
  sorry

theorem run_wf (rf : RegFile) (ops : List Op) (h : FileWF rf) :
    FileWF (run rf ops) ∧ layoutOf (run rf ops) = layoutOf rf := by
  sorry

/-- `op` cannot change the bits of field `j` of register `i` (given the layout `rf`) -/
def Untouched (rf : RegFile) (i j : Nat) : Op → Prop
  | .setReg i' _ _ => i' ≠ i
  | .setField i' j' _ _ => i' ≠ i ∨ (∃ r f g, rf[i]? = some r ∧ r.fields[j]? = some f ∧ r.fields[j']? = some g ∧ FieldsDisjoint g f)
  | .setEnum i' j' _ => i' ≠ i ∨ (∃ r f g, rf[i]? = some r ∧ r.fields[j]? = some f ∧ r.fields[j']? = some g ∧ FieldsDisjoint g f)
  | .resetReg i' => i' ≠ i
  | .resetAll => False
  | .parse _ _ => False

/-- **History theorem.** After *any* history `pre`, a successful write of `v` to field `(i,j)`, and any later
    ops none of which writes that field's bits, the field reads the value written. -/
theorem history_last_write (rf : RegFile) (pre post : List Op) (i j v : Nat) (raw : Bool)
    (r : Reg) (f : Field) (h : FileWF rf) (hr : rf[i]? = some r) (hf : r.fields[j]? = some f)
    (hv : v >>> f.shift < 2 ^ f.width) (hpost : ∀ op ∈ post, Untouched rf i j op) :
    ∃ r', (run rf (pre ++ [Op.setField i j v raw] ++ post))[i]? = some r' ∧ fieldGet r' f = .ok (stored f v) := by
  sorry

/-- a later whole-register write determines every field: the field reads the corresponding bits of the value -/
theorem history_reg_write (rf : RegFile) (pre : List Op) (i j v : Nat)
    (r : Reg) (f : Field) (h : FileWF rf) (hr : rf[i]? = some r) (hf : r.fields[j]? = some f)
    (hv : v < 2 ^ r.width) :
    ∃ r', (run rf (pre ++ [Op.setReg i v true]))[i]? = some r' ∧
      fieldGet r' f = .ok (((v >>> f.offset) % 2 ^ f.width) <<< f.shift) := by
  sorry

/-! ## export / parse -/

/-- exporting a well-formed file and parsing the bytes into any file of the same layout restores every value -/
theorem parse_export (rf rf' : RegFile) (little : Bool) (b : Bytes) (h : FileWF rf) (h' : FileWF rf')
    (h8 : ∀ r ∈ rf, r.width % 8 = 0)
    (hl : rf'.map (fun r => { r with value := 0 }) = rf.map (fun r => { r with value := 0 }))
    (he : exportRegs rf little = .ok b) :
    parseAll rf' 0 b little = .ok rf := by
  sorry

theorem export_length (rf : RegFile) (little : Bool) (b : Bytes) (h : FileWF rf)
    (he : exportRegs rf little = .ok b) :
    b.length = (rf.map (fun r => r.width / 8)).sum := by
  sorry

/-! ## non-vacuity -/

def exReg : Reg :=
  { width := 32, value := 0xA5A50000,
    fields := [{ offset := 0, width := 8 }, { offset := 8, width := 4, shift := 4 }, { offset := 16, width := 16 }] }

example : RegWF exReg := by
  refine ⟨rfl, rfl, by decide, by decide, by decide⟩

example : (fieldSet exReg { offset := 8, width := 4, shift := 4 } 0xF0 false false).toOption.map (·.value) = some 0xA5A50F00 := by
  decide

example : fieldSet exReg { offset := 0, width := 8 } 256 false false = .error .spsdk := by decide

example : GroupWF { width := 64, subW := 32, subs := [1, 2] } := ⟨by decide, by decide, by decide, by decide⟩

example : (({ width := 64, subW := 32, subs := [0, 0], revSubs := true } : Reg).set 0x1111111122222222 true).toOption.map (·.subs)
    = some [0x11111111, 0x22222222] := by decide

end SpsdkVerif.C11
