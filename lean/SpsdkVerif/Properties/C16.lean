/-
C16 — BinaryImage: composition, validation (and, via the harness, file formats) preserve bytes and addresses.

Model: Model/BinImage.lean (hand-written; tied to spsdk/utils/images.py by the tree correspondence of
harness/props/C16.py).  Helper lemmas: Proofs/BinImage.lean.
-/
import SpsdkVerif.Model.BinImage
import SpsdkVerif.Proofs.BinImage
import SpsdkVerif.Model.HexFmt
import SpsdkVerif.Proofs.HexFmt
import SpsdkVerif.Generated.BinImageGeo
import SpsdkVerif.Proofs.BinImageGen

namespace SpsdkVerif.C16
open SpsdkVerif SpsdkVerif.BinImg SpsdkVerif.Misc

/-! ## geometry, stated independently of `validate` -/

/-- two siblings overlap (plain interval intersection; an empty image counts when strictly inside the other) -/
def OverlapPair (c s : Img) : Prop :=
  c.offset < s.offset + s.len ∧ s.offset < c.offset + c.len

/-- somewhere in the tree: own binary larger than the image, a child sticking out of its parent, or two
    siblings overlapping -/
inductive GeoErr : Img → Prop
  | bin (i : Img) : binLen i.binary > i.len → GeoErr i
  | child (i c : Img) : c ∈ i.children → GeoErr c → GeoErr i
  | sticks (i c : Img) : c ∈ i.children → c.offset + c.len > i.len → GeoErr i
  | overlap (i : Img) (a b : Nat) (ca cb : Img) : a ≠ b → i.children[a]? = some ca →
      i.children[b]? = some cb → OverlapPair ca cb → GeoErr i

/-- validation reports an error exactly when the geometry is wrong -/
theorem validate_iff (i : Img) : i.validate = .ok () ↔ ¬ GeoErr i := by
  induction i using Img.induct' with
  | h s o a b p ch ih =>
    rw [validate_ok_iff]
    constructor
    · rintro ⟨h1, h2, h3⟩ hg
      cases hg with
      | bin _ hb => simp only [Img.binary] at hb; omega
      | child _ c hc hgc => exact (ih c hc).1 (h2 c hc).1 hgc
      | sticks _ c hc hs => have := (h2 c hc).2; omega
      | overlap _ x y ca cb hxy hx hy hov => exact h3 x y ca cb hxy hx hy hov
    · intro hn
      refine ⟨?_, ?_, ?_⟩
      · apply Nat.le_of_not_lt; intro hlt; exact hn (.bin _ hlt)
      · intro c hc
        refine ⟨(ih c hc).2 (fun hg => hn (.child _ c hc hg)), ?_⟩
        apply Nat.le_of_not_lt; intro hlt; exact hn (.sticks _ c hc hlt)
      · intro x y ca cb hxy hx hy hov
        exact hn (.overlap _ x y ca cb hxy hx hy hov)

/-! ## alignment well-formedness: what the constructor establishes (`_size = align(size, alignment)`) -/

inductive AlignWF : Img → Prop
  | mk (i : Img) : 0 < i.alignment → i.size % i.alignment = 0 → (∀ c ∈ i.children, AlignWF c) → AlignWF i

/-- the reported length is a multiple of the alignment -/
theorem len_aligned (i : Img) (h : AlignWF i) : i.len % i.alignment = 0 := by
  cases h with
  | mk _ h1 h2 _ =>
    cases i with
    | mk s o a b p ch =>
      simp only [Img.alignment, Img.size] at *
      rw [Img.len]
      split
      · exact h2
      · exact (alignNat_spec _ _ h1).1

/-! ## export -/

/-- a valid tree exports, and the buffer has exactly the reported length -/
theorem export_length (i : Img) (hv : i.validate = .ok ()) (ha : AlignWF i) :
    ∃ b, i.export = .ok b ∧ b.length = i.len := by
  induction i using Img.induct' with
  | h s o a bin p ch ih =>
    cases ha with
    | mk _ h1 h2 h3 =>
      obtain ⟨b, hb, hl, _⟩ := export_spec s o a bin p ch h1 h2 hv
        (fun c hc => ih c hc (validate_child _ c hv hc).1 (h3 c hc))
      exact ⟨b, hb, hl⟩

/-- every sub-image's bytes appear at its offset -/
theorem export_child_at (i c : Img) (b bc : Bytes) (hv : i.validate = .ok ()) (ha : AlignWF i)
    (hc : c ∈ i.children) (hb : i.export = .ok b) (hbc : c.export = .ok bc) :
    (b.drop c.offset).take bc.length = bc := by
  cases i with
  | mk s o a bin p ch =>
    cases ha with
    | mk _ h1 h2 h3 =>
      obtain ⟨b', hb', _, _, hat⟩ := export_spec s o a bin p ch h1 h2 hv
        (fun c hc => export_length c (validate_child _ c hv hc).1 (h3 c hc))
      rw [hb] at hb'; cases hb'
      exact take_drop_of_get b bc c.offset (hat c hc bc hbc)

/-- … at every depth: a descendant reached through offsets `o₁, o₂, …` appears at the absolute offset `Σ oₖ` -/
inductive DescAt : Img → Nat → Img → Prop
  | self (i : Img) : DescAt i 0 i
  | step (i c d : Img) (o : Nat) : c ∈ i.children → DescAt c o d → DescAt i (c.offset + o) d

theorem export_desc_at (i d : Img) (o : Nat) (b bd : Bytes) (hv : i.validate = .ok ()) (ha : AlignWF i)
    (hd : DescAt i o d) (hb : i.export = .ok b) (hbd : d.export = .ok bd) :
    (b.drop o).take bd.length = bd := by
  induction hd generalizing b with
  | self i =>
    rw [hb] at hbd; cases hbd
    simp
  | step i c d o hc _ ih =>
    have hvc := (validate_child i c hv hc).1
    have hac : AlignWF c := by cases ha with | mk _ _ _ h3 => exact h3 c hc
    obtain ⟨bc, hbc, _⟩ := export_length c hvc hac
    exact take_drop_trans b bc bd c.offset o (export_child_at i c b bc hv ha hc hb hbc)
      (ih bc hvc hac hbc hbd)

/-- the own binary sits at offset 0 wherever no sub-image covers it -/
theorem export_own_binary (i : Img) (b bin : Bytes) (k : Nat) (hv : i.validate = .ok ()) (ha : AlignWF i)
    (hb : i.export = .ok b) (hbin : i.binary = some bin) (hk : k < bin.length)
    (hfree : ∀ c ∈ i.children, k < c.offset ∨ c.offset + c.len ≤ k) :
    b[k]? = bin[k]? := by
  cases i with
  | mk s o a bin' p ch =>
    simp only [Img.binary, Img.children] at hbin hfree
    subst hbin
    cases ha with
    | mk _ h1 h2 h3 =>
      obtain ⟨b', hb', _, hfr, _⟩ := export_spec s o a (some bin) p ch h1 h2 hv
        (fun c hc => export_length c (validate_child _ c hv hc).1 (h3 c hc))
      rw [hb] at hb'; cases hb'
      rw [hfr k hfree, ownBuf_get_bin _ _ _ _ hk]

/-- everything else holds the fill pattern -/
theorem export_fill (i : Img) (b : Bytes) (k : Nat) (hv : i.validate = .ok ()) (ha : AlignWF i)
    (hb : i.export = .ok b) (hk : k < i.len) (hbin : binLen i.binary ≤ k)
    (hfree : ∀ c ∈ i.children, k < c.offset ∨ c.offset + c.len ≤ k) :
    b[k]? = (patBlock i.pattern i.len)[k]? := by
  cases i with
  | mk s o a bin p ch =>
    simp only [Img.binary, Img.children, Img.pattern] at hbin hfree ⊢
    cases ha with
    | mk _ h1 h2 h3 =>
      obtain ⟨b', hb', _, hfr, _⟩ := export_spec s o a bin p ch h1 h2 hv
        (fun c hc => export_length c (validate_child _ c hv hc).1 (h3 c hc))
      rw [hb] at hb'; cases hb'
      rw [hfr k hfree, ownBuf_get_fill _ _ _ _ hbin]

/-- alignment padding only ever extends the end: with a derived size, exporting with alignment `a` is exporting
    with alignment 1 plus appended padding -/
theorem align_extends (off a : Nat) (bin : Option Bytes) (pat : Option Pattern) (ch : List Img) (b1 : Bytes)
    (ha : 0 < a) (h1 : (Img.mk 0 off 1 bin pat ch).export = .ok b1) (hne : b1 ≠ []) :
    ∃ pad, (Img.mk 0 off a bin pat ch).export = .ok (b1 ++ pad) ∧
      (b1 ++ pad).length = alignNat b1.length a := by
  exact align_extends' off a bin pat ch b1 ha h1

/-! ## add_image / append_image -/

def SortedByOffset (l : List Img) : Prop := l.Pairwise (fun x y => x.offset ≤ y.offset)

/-- `add_image` keeps the children sorted by offset and neither loses nor duplicates any -/
theorem insertSorted_sorted (c : Img) (l : List Img) (h : SortedByOffset l) :
    SortedByOffset (insertSorted c l) ∧ (insertSorted c l).length = l.length + 1 ∧
      (∀ x, x ∈ insertSorted c l ↔ x = c ∨ x ∈ l) := by
  exact ⟨sorted_insertSorted c l h, length_insertSorted c l, mem_insertSorted c l⟩

/-- `append_image` puts the new image at the previous end of the parent -/
theorem appendImage_offset (p c : Img) :
    ∃ c', c' ∈ (p.appendImage c).children ∧ c'.offset = p.len ∧ c'.len = c.len := by
  refine ⟨c.withOffset p.len, ?_, offset_withOffset _ _, len_withOffset _ _⟩
  rw [Img.appendImage, children_addImage, mem_insertSorted]
  exact Or.inl rfl

/-! ## non-vacuity -/

def exTree : Img :=
  .mk 0 0 4 (some [1, 2, 3]) (some .ones)
    [.mk 0 4 1 (some [9, 9]) none [], .mk 3 8 1 none (some .inc) [.mk 0 1 1 (some [7]) none []]]

example : exTree.validate = .ok () ∧ exTree.len = 12 ∧
    exTree.export = .ok [1, 2, 3, 0xFF, 9, 9, 0xFF, 0xFF, 0, 7, 2, 0xFF] := by decide
example : AlignWF exTree := by
  refine .mk _ (by decide) (by decide) ?_
  intro c hc
  simp [exTree, Img.children] at hc
  rcases hc with rfl | rfl
  · exact .mk _ (by decide) (by decide) (by intro c hc; simp [Img.children] at hc)
  · refine .mk _ (by decide) (by decide) ?_
    intro c hc
    simp [Img.children] at hc
    subst hc
    exact .mk _ (by decide) (by decide) (by intro c hc; simp [Img.children] at hc)
example : (Img.mk 8 0 1 none none [.mk 0 0 1 (some [1, 2, 3, 4]) none [], .mk 0 3 1 (some [5]) none []]).validate
    = .error .overlap := by decide
example : (Img.mk 4 0 1 none none [.mk 0 2 1 (some [1, 2, 3]) none []]).validate = .error .sticksOut := by decide

end SpsdkVerif.C16

/-!
# File formats: Intel-HEX and S-record text (Model/HexFmt.lean, helper lemmas Proofs/HexFmt.lean)

"Saving an image as HEX or S19 and loading it again gives the same bytes at the same addresses", for the
writer / reader pair SPSDK uses (`bincopy.BinFile.as_ihex` / `as_srec`, `add_ihex` / `add_srec` behind the
format sniffing of `BinFile.add`).  The model is tied to the real code by the `hexfmt_model` stream
(emitted text byte for byte, decoded segments, accept / refuse of malformed text).
-/
namespace SpsdkVerif.C16
open SpsdkVerif.HexFmt

/-- what `save_binary_image` hands to bincopy for an image whose data-carrying nodes do not overlap: segments
    in ascending order, non-overlapping (touching allowed), non-empty, inside the 32-bit address space -/
def SegsOK (segs : List Seg) : Prop :=
  (∀ s ∈ segs, s.data ≠ [] ∧ s.addr + s.data.length ≤ 2 ^ 32) ∧
  segs.Pairwise (fun a b => a.addr + a.data.length ≤ b.addr)

theorem segsOK_from (segs : List Seg) (h : SegsOK segs) : SegsFrom 0 segs :=
  segsFrom_of_pairwise segs 0 (fun s hs => ⟨Nat.zero_le _, (h.1 s hs).1, (h.1 s hs).2⟩) h.2

/-! ## single records -/

/-- an emitted Intel-HEX record parses back to its type, address and data (the checksum verifies) -/
theorem ihex_record_roundtrip (type addr : Nat) (data : HexFmt.Bytes) (ht : type < 256) (ha : addr < 65536)
    (hd : data.length < 256) : unpackIhex (packIhex type addr data) = .ok (type, addr, data) :=
  unpackIhex_packIhex type addr data ht ha hd

/-- an emitted S-record of any type (address width 2, 3 or 4 bytes) parses back to its type, address and data -/
theorem srec_record_roundtrip (t : UInt8) (w addr : Nat) (data : HexFmt.Bytes) (hw : srecWidth t = some w)
    (ha : addr < 256 ^ w) (hd : data.length + w + 1 < 256) : unpackSrec (packSrec t w addr data) = .ok (t, addr, data) :=
  unpackSrec_packSrec t w addr data hw ha hd

/-- changing any single byte of an emitted Intel-HEX record (length, address, type, data or checksum byte; in
    particular any single hex digit) makes the reader refuse the record -/
theorem ihex_checksum_detects_single_byte (type addr : Nat) (data pre post : HexFmt.Bytes) (x y : UInt8) (hxy : x ≠ y)
    (hrec : packIhex type addr data = 58 :: hexBytes (pre ++ x :: post)) (r : Nat × Nat × HexFmt.Bytes) :
    unpackIhex (58 :: hexBytes (pre ++ y :: post)) ≠ .ok r := by
  intro h
  have h1 := unpackIhex_ok_sum _ r h
  have h0 : sumBytes (pre ++ x :: post) % 256 = 0 := by
    simp only [packIhex, List.cons.injEq, true_and] at hrec
    rw [← hexBytes_inj _ _ hrec]
    exact sum_of_crcIhex _ (by rw [List.getLast?_concat, List.dropLast_concat])
  exact hxy (sum_single_byte pre post x y (by rw [h0, h1]))

/-- … and so for an emitted S-record -/
theorem srec_checksum_detects_single_byte (t : UInt8) (w addr : Nat) (data pre post : HexFmt.Bytes) (x y : UInt8) (hxy : x ≠ y)
    (hrec : packSrec t w addr data = 83 :: t :: hexBytes (pre ++ x :: post)) (r : UInt8 × Nat × HexFmt.Bytes) :
    unpackSrec (83 :: t :: hexBytes (pre ++ y :: post)) ≠ .ok r := by
  intro h
  have h1 := unpackSrec_ok_sum t _ r h
  have h0 : sumBytes (pre ++ x :: post) % 256 = 255 := by
    simp only [packSrec, List.cons.injEq, true_and] at hrec
    rw [← hexBytes_inj _ _ hrec]
    exact sum_of_crcSrec _ (by rw [List.getLast?_concat, List.dropLast_concat])
  exact hxy (sum_single_byte pre post x y (by rw [h0, h1]))

/-! ## whole files -/

/-- merging touching segments (what bincopy does on `add_binary`, and again when reading) changes no byte at
    any address -/
theorem normalize_same_bytes (segs : List Seg) (a : Nat) : memAt (normalize segs) a = memAt segs a :=
  memAt_normalize segs a

/-- the reader's general `Segments.add` (fast path, linear insert, merge loop), on an ascending list whose
    current segment is the last one and for data at or behind its end, is "merge when touching, else append" -/
theorem reader_add_ascending (l : List Seg) (s : Seg) (hb : ∀ x ∈ l, x.max ≤ lastMax l) (hs : lastMax l ≤ s.addr) :
    SegList.add ⟨l, l.length - 1⟩ s = .ok ⟨addSorted l s, (addSorted l s).length - 1⟩ :=
  add_sorted l s hb hs

/-- Intel-HEX: for every ascending, non-overlapping list of non-empty segments in the 32-bit address space
    (any number, any lengths, touching or crossing 64 KiB boundaries) and every optional 32-bit execution start
    address, the writer succeeds and the reader gives back the same segments (touching ones merged) and the
    same start address -/
theorem ihex_roundtrip (exec : Option Nat) (segs : List Seg) (h : SegsOK segs) (he : ∀ e, exec = some e → e < 2 ^ 32) :
    ∃ text, ihexEncode exec segs = .ok text ∧ ihexDecode text = .ok ⟨normalize segs, exec⟩ := by
  obtain ⟨text, h1, h2, _⟩ := ihex_roundtrip_from exec segs (segsOK_from segs h) he
  exact ⟨text, h1, h2⟩

/-- … hence the same bytes at the same addresses -/
theorem ihex_roundtrip_bytes (exec : Option Nat) (segs : List Seg) (h : SegsOK segs) (he : ∀ e, exec = some e → e < 2 ^ 32) :
    ∃ text img, ihexEncode exec segs = .ok text ∧ ihexDecode text = .ok img ∧ img.exec = exec ∧
      ∀ a, memAt img.segs a = memAt segs a := by
  obtain ⟨text, h1, h2⟩ := ihex_roundtrip exec segs h he
  exact ⟨text, _, h1, h2, rfl, fun a => memAt_normalize segs a⟩

/-- S-record: the same, as long as bincopy can count the records (it refuses more than 0xffffff of them) -/
theorem srec_roundtrip (exec : Option Nat) (segs : List Seg) (h : SegsOK segs) (he : ∀ e, exec = some e → e < 2 ^ 32)
    (hn : ((normalize segs).flatMap Seg.chunks).length ≤ 0xffffff) :
    ∃ text, srecEncode exec segs = .ok text ∧ srecDecode text = .ok ⟨normalize segs, exec⟩ := by
  obtain ⟨text, _, h1, h2, _⟩ := srec_roundtrip_from exec segs (segsOK_from segs h) he hn
  exact ⟨text, h1, h2⟩

theorem srec_roundtrip_bytes (exec : Option Nat) (segs : List Seg) (h : SegsOK segs) (he : ∀ e, exec = some e → e < 2 ^ 32)
    (hn : ((normalize segs).flatMap Seg.chunks).length ≤ 0xffffff) :
    ∃ text img, srecEncode exec segs = .ok text ∧ srecDecode text = .ok img ∧ img.exec = exec ∧
      ∀ a, memAt img.segs a = memAt segs a := by
  obtain ⟨text, h1, h2⟩ := srec_roundtrip exec segs h he hn
  exact ⟨text, _, h1, h2, rfl, fun a => memAt_normalize segs a⟩

/-- the record-count hypothesis is exactly bincopy's limit: beyond it `as_srec` raises -/
theorem srec_too_many_records (exec : Option Nat) (segs : List Seg)
    (hn : ¬ ((normalize segs).flatMap Seg.chunks).length ≤ 0xffffff) : srecEncode exec segs = .error .fmt := by
  unfold srecEncode srecFooter
  have h1 : ¬ ((normalize segs).flatMap Seg.chunks).length ≤ 0xffff := by omega
  simp only [h1, hn, if_false]

/-- through `load_binary_image`'s path for text files (format sniffing on the first line: S-record first, then
    Intel-HEX; refusal of a file without segments): a non-empty image written as HEX is recognised as HEX and
    loaded back -/
theorem ihex_load_roundtrip (exec : Option Nat) (segs : List Seg) (h : SegsOK segs) (hne : segs ≠ [])
    (he : ∀ e, exec = some e → e < 2 ^ 32) :
    ∃ text, ihexEncode exec segs = .ok text ∧ loadText text = .ok ⟨normalize segs, exec⟩ :=
  load_ihex_roundtrip_from exec segs (segsOK_from segs h) hne he

/-- … and one written as S19 is recognised as S-record and loaded back -/
theorem srec_load_roundtrip (exec : Option Nat) (segs : List Seg) (h : SegsOK segs) (hne : segs ≠ [])
    (he : ∀ e, exec = some e → e < 2 ^ 32) (hn : ((normalize segs).flatMap Seg.chunks).length ≤ 0xffffff) :
    ∃ text, srecEncode exec segs = .ok text ∧ loadText text = .ok ⟨normalize segs, exec⟩ :=
  load_srec_roundtrip_from exec segs (segsOK_from segs h) hne he hn

/-! ## non-vacuity and sanity (texts as bincopy 20.1.1 writes them) -/

/-- two touching segments whose union crosses a 64 KiB boundary, one at the very top of the address space -/
def exSegs : List Seg := [⟨0xFFFF, [0xAA, 0xBB]⟩, ⟨0x10001, [0xCC]⟩, ⟨0xFFFFFFFE, [1, 2]⟩]

example : SegsOK exSegs := by
  refine ⟨by decide, ?_⟩
  simp [exSegs, List.pairwise_cons]

example : normalize exSegs = [⟨0xFFFF, [0xAA, 0xBB, 0xCC]⟩, ⟨0xFFFFFFFE, [1, 2]⟩] := by decide

-- ":03FFFF00AABBCCCE\n:02000004FFFFFC\n:02FFFE000102FE\n:0400000520000401D2\n:00000001FF\n"
def exIhex : HexFmt.Bytes :=
  [58, 48, 51, 70, 70, 70, 70, 48, 48, 65, 65, 66, 66, 67, 67, 67, 69, 10, 58, 48, 50, 48, 48, 48, 48, 48, 52, 70, 70, 70, 70,
   70, 67, 10, 58, 48, 50, 70, 70, 70, 69, 48, 48, 48, 49, 48, 50, 70, 69, 10, 58, 48, 52, 48, 48, 48, 48, 48, 53, 50, 48, 48,
   48, 48, 52, 48, 49, 68, 50, 10, 58, 48, 48, 48, 48, 48, 48, 48, 49, 70, 70, 10]

-- "S3080000FFFFAABBCCC8\nS307FFFFFFFE0102FA\nS5030002FA\nS70520000401D5\n"
def exSrec : HexFmt.Bytes :=
  [83, 51, 48, 56, 48, 48, 48, 48, 70, 70, 70, 70, 65, 65, 66, 66, 67, 67, 67, 56, 10, 83, 51, 48, 55, 70, 70, 70, 70, 70, 70,
   70, 69, 48, 49, 48, 50, 70, 65, 10, 83, 53, 48, 51, 48, 48, 48, 50, 70, 65, 10, 83, 55, 48, 53, 50, 48, 48, 48, 48, 52, 48,
   49, 68, 53, 10]

example : ihexEncode (some 0x20000401) exSegs = .ok exIhex := by decide
example : srecEncode (some 0x20000401) exSegs = .ok exSrec := by decide
example : loadText exIhex = .ok ⟨normalize exSegs, some 0x20000401⟩ := by decide
example : loadText exSrec = .ok ⟨normalize exSegs, some 0x20000401⟩ := by decide
-- a flipped digit, an unknown record type, an odd number of digits, an empty file body
example : ihexDecode [58, 48, 48, 48, 48, 48, 48, 48, 49, 70, 69, 10] = .error .fmt := by decide     -- ":00000001FE"
example : ihexDecode [58, 48, 48, 48, 48, 48, 48, 48, 54, 70, 65, 10] = .error .fmt := by decide     -- ":00000006FA"
example : ihexDecode [58, 48, 48, 48, 48, 48, 48, 48, 49, 70, 70, 70, 10] = .error .value := by decide -- ":00000001FFF"
example : loadText [58, 48, 48, 48, 48, 48, 48, 48, 49, 70, 70, 10] = .error .fmt := by decide       -- only an EOF record
-- out-of-order and overlapping data records go through the general `Segments.add`
example : (SegList.add ⟨[⟨0, [1, 2]⟩, ⟨8, [3]⟩], 1⟩ ⟨2, [9]⟩) = .ok ⟨[⟨0, [1, 2, 9]⟩, ⟨8, [3]⟩], 0⟩ := by decide
example : (SegList.add ⟨[⟨0, [1, 2]⟩, ⟨8, [3]⟩], 1⟩ ⟨1, [9]⟩) = .error .fmt := by decide

end SpsdkVerif.C16

/-!
# The geometry code as it is written NOW (Generated/BinImageGeo.lean) is what the hand model computes

`tools/extract/gen_C16.py` re-reads `spsdk/utils/images.py` on every run and emits the integer / boolean code of
`__len__`, `aligned_start/length`, the three checks of `validate()`, the insertion rule of `add_image`, `append_image`,
`min_offset` / `update_offsets`, the `offset` default of `load_from_config`, the fast path of `export()`, what
`save_binary_image` hands to bincopy, the format list and the ELF magic, with `self.x` as explicit parameters.
Every theorem below is for ALL arguments; a changed comparison, a dropped alignment, an `or`-default, a reordered
write makes one of them unprovable.  Together with the theorems of the first part (which are about the hand model)
they say that those theorems speak about the present source.
-/
namespace SpsdkVerif.C16
open SpsdkVerif SpsdkVerif.BinImg SpsdkVerif.Misc SpsdkVerif.GeoComb SpsdkVerif.Generated.BinImageGeo

/-- `len(image)` of the source = `Img.len` of the model, for every tree (explicit size wins; else the maximum of the own
    binary's length and every child's end, aligned) -/
theorem len_generated (i : Img) (ha : 0 < i.alignment) :
    genLen i.size (binTruthy i.binary) (rawLen i.binary) i.alignment (kidsOf i.children) = .ok (i.len : Int) :=
  genLen_eq i ha

/-- `aligned_start` rounds the absolute address down, `aligned_length` spans from there to the end rounded up
    (exact integer reading of `math.floor(a / b)` / `math.ceil(a / b)`: operands below 2^53) -/
theorem aligned_generated (abs len al : Nat) (ha : 0 < al) :
    genAlignedStart abs al = ((abs / al * al : Nat) : Int) ∧
    genAlignedLength abs len al = (alignNat (abs + len) al : Int) - ((abs / al * al : Nat) : Int) :=
  ⟨genAlignedStart_eq abs al, genAlignedLength_eq abs len al ha⟩

/-- the three decisions of `validate()` are the model's: own binary larger than the image (offsets and lengths are
    naturals in the model), child not inside its parent, two different children sharing a byte - with the source's
    inclusive-end arithmetic, whichever way the comparisons are spelled -/
theorem validate_checks_generated (off len b l pl sb sl : Nat) (bin : Option Bytes) :
    vSelfErr off len (binTruthy bin) (rawLen bin) = decide (binLen bin > len) ∧
    vChildErr b l pl = decide ((b : Int) + l - 1 ≥ pl) ∧
    vSiblingErr b l sb sl = !(decide (((b : Int) + l - 1 < sb) ∨ ((b : Int) > sb + sl - 1))) :=
  ⟨vSelfErr_eq off len bin, vChildErr_eq b l pl, vSiblingErr_eq b l sb sl⟩

/-- the model's sibling scan is the generated sibling check over all other children -/
theorem overlap_scan_generated (b l : Nat) (sibs : List (Nat × Nat)) :
    overlapsAny b l sibs = sibs.any (fun s => vSiblingErr b l s.1 s.2) :=
  overlapsAny_eq_gen b l sibs

/-- a tree on which none of the generated checks fires, anywhere -/
inductive GenValid : Img → Prop
  | mk (i : Img) :
      vSelfErr i.offset i.len (binTruthy i.binary) (rawLen i.binary) = false →
      (∀ c ∈ i.children, GenValid c) →
      (∀ c ∈ i.children, vChildErr c.offset c.len i.len = false) →
      (∀ (a b : Nat) (ca cb : Img), a ≠ b → i.children[a]? = some ca → i.children[b]? = some cb →
        vSiblingErr ca.offset ca.len cb.offset cb.len = false) →
      GenValid i

/-- `validate()` of the model succeeds exactly on the trees the source's checks (as generated) let through; with
    `validate_iff` above: the source's checks fire exactly on wrong geometry -/
theorem validate_iff_generated (i : Img) : i.validate = .ok () ↔ GenValid i := by
  induction i using Img.induct' with
  | h s o a b p ch ih =>
    rw [validate_ok_iff]
    constructor
    · rintro ⟨h1, h2, h3⟩
      refine .mk _ ?_ (fun c hc => (ih c hc).1 (h2 c hc).1) ?_ ?_
      · simp only [Img.binary, Img.offset]
        rw [vSelfErr_eq]; simp only [decide_eq_false_iff_not]; omega
      · intro c hc
        have := (h2 c hc).2
        rw [vChildErr_eq]; simp only [decide_eq_false_iff_not]; omega
      · intro x y ca cb hxy hx hy
        have := h3 x y ca cb hxy hx hy
        unfold Ov at this
        rw [vSiblingErr_eq]; simp only [Bool.not_eq_false', decide_eq_true_eq]; omega
    · intro hg
      cases hg with
      | mk _ g1 g2 g3 g4 =>
        simp only [Img.binary, Img.offset] at g1
        simp only [Img.children] at g2 g3 g4
        refine ⟨?_, ?_, ?_⟩
        · rw [vSelfErr_eq] at g1; simp only [decide_eq_false_iff_not] at g1; omega
        · intro c hc
          refine ⟨(ih c hc).2 (g2 c hc), ?_⟩
          have := g3 c hc
          rw [vChildErr_eq] at this; simp only [decide_eq_false_iff_not] at this; omega
        · intro x y ca cb hxy hx hy
          have := g4 x y ca cb hxy hx hy
          rw [vSiblingErr_eq] at this; simp only [Bool.not_eq_false', decide_eq_true_eq] at this
          unfold Ov; omega

/-- `validate()` visits what the model visits: itself, every child recursively and against its parent, every ordered
    pair of different children; all refusals are SPSDK errors -/
theorem validate_shape_generated :
    validateShape = ["child:raises-spsdk", "child:validate-recursively", "self:raises-spsdk", "sibling:raises-spsdk"] := rfl

/-- `add_image`: the model's sorted insert is "before the first child the generated condition holds for, else at the end" -/
theorem add_image_generated (c : Img) (l : List Img) :
    insertSorted c l = insertAt l (firstIdx (fun x => genInsertBefore c.offset x.offset) l) c :=
  insertSorted_eq_gen c l

/-- `append_image`: the offset given is the parent's current length -/
theorem append_image_generated (p c : Img) :
    p.appendImage c = p.addImage (c.withOffset (genAppendOffset p.len).toNat) := by
  simp [Img.appendImage, genAppendOffset]

/-- `min_offset` is the least child offset; `update_offsets` moves it into the image's own offset: every absolute address
    stays, no child offset becomes negative, one becomes 0 -/
theorem update_offsets_generated (off : Int) (kids : List (Int × Int)) (h : kids ≠ []) :
    ∃ m, genMinOffset kids = .ok m ∧
      (∀ k ∈ kids, genUpdSelfOffset off m + genUpdChildOffset k.1 m = off + k.1 ∧ 0 ≤ genUpdChildOffset k.1 m) ∧
      ∃ k ∈ kids, genUpdChildOffset k.1 m = 0 := by
  obtain ⟨m, hm, ⟨k0, hk0, he⟩, hle⟩ := genMinOffset_spec kids h
  refine ⟨m, hm, ?_, ⟨k0, hk0, ?_⟩⟩
  · intro k hk
    have := hle k hk
    simp only [genUpdSelfOffset, genUpdChildOffset]
    omega
  · simp only [genUpdChildOffset]; omega

/-- `load_from_config`: an explicit `offset` of a region - 0 included - is used as it is, for both region kinds … -/
theorem config_offset_explicit_generated (v abs len al : Int) :
    genCfgOffsetFile (some v) abs len al = v ∧ genCfgOffsetBlock (some v) abs len al = v := by
  constructor <;> simp [genCfgOffsetFile, genCfgOffsetBlock]

/-- … and a region without one goes to the current length of the (root) image rounded up to its alignment -/
theorem config_offset_default_generated (len al : Nat) (ha : 0 < al) :
    genCfgOffsetFile none 0 len al = (alignNat len al : Int) ∧ genCfgOffsetBlock none 0 len al = (alignNat len al : Int) := by
  have h := genAlignedLength_eq 0 len al ha
  simp only [Nat.zero_add, Nat.zero_div, Nat.zero_mul, Int.natCast_zero, Int.sub_zero] at h
  constructor
  · rw [← h]; simp [genCfgOffsetFile, genAlignedLength]
  · rw [← h]; simp [genCfgOffsetBlock, genAlignedLength]

/-- `export()`: the model takes the fast path (own binary returned untouched) exactly under the source's condition -/
theorem export_fast_generated (i : Img) :
    i.export = if genExportFast (binTruthy i.binary) (rawLen i.binary) i.len i.size i.children.length = true
      then .ok (i.binary.getD []) else finishExport i.alignment i.pattern (placeChildren i.children (ownBuf i.len i.binary i.pattern)) :=
  export_fast_gen i

/-- HEX / S19: a node hands bincopy first its whole pattern block (whenever it has a pattern and a non-zero length -
    also when it has a binary), then its binary, both at its absolute address with overwrite, then its children -/
theorem save_plan_generated (pat bin : Bool) (binLen len : Int) :
    savePatternWritten pat bin binLen len = (pat && decide (len ≠ 0)) ∧ savePatternSize len = len ∧
    saveBinaryWritten pat bin binLen len = bin ∧
    saveOrder = ["pattern@absolute-address+overwrite", "binary@absolute-address+overwrite", "children"] := by
  refine ⟨?_, ?_, ?_, rfl⟩
  · rw [Bool.eq_iff_iff]; simp [savePatternWritten] <;> omega
  · simp [savePatternSize]
  · rw [Bool.eq_iff_iff]; simp [saveBinaryWritten] <;> omega

/-- the formats of the property and where each goes; what makes a file an ELF file -/
theorem formats_generated :
    formatWriters = [("BIN", "export"), ("HEX", "as_ihex"), ("S19", "as_srec")] ∧
    elfMagic = [0x7f, 0x45, 0x4c, 0x46] ∧ elfSniffLen = elfMagic.length := ⟨rfl, rfl, rfl⟩

example : GenValid exTree := (validate_iff_generated exTree).mp (by decide)
example : genLen 0 true 3 4 [(4, 2), (8, 3)] = .ok 12 := by decide

end SpsdkVerif.C16
