/-
C16 — BinaryImage: composition, validation (and, via the harness, file formats) preserve bytes and addresses.

Model: Model/BinImage.lean (hand-written; tied to spsdk/utils/images.py by the tree correspondence of
harness/props/C16.py).  Helper lemmas: Proofs/BinImage.lean.
-/
import SpsdkVerif.Model.BinImage
import SpsdkVerif.Proofs.BinImage

namespace SpsdkVerif.C16
open SpsdkVerif SpsdkVerif.BinImg SpsdkVerif.Misc

/-! ## geometry, stated independently of `validate` -/

/-- two siblings overlap (plain interval intersection; an empty image counts when strictly inside the other) -/
def OverlapPair (c s : Img) : Prop :=
  c.offset < s.offset + s.len ∧ s.offset < c.offset + c.len

/-- somewhere in the tree: own binary larger than the image, a child sticking out of its parent, or two
    siblings overlapping -/
inductive GeoErr : Img → Prop
  | bin (i : Img) : binLen i.binary > i.len → GeoErr i
  | child (i c : Img) : c ∈ i.children → GeoErr c → GeoErr i
  | sticks (i c : Img) : c ∈ i.children → c.offset + c.len > i.len → GeoErr i
  | overlap (i : Img) (a b : Nat) (ca cb : Img) : a ≠ b → i.children[a]? = some ca →
      i.children[b]? = some cb → OverlapPair ca cb → GeoErr i

/-- validation reports an error exactly when the geometry is wrong -/
theorem validate_iff (i : Img) : i.validate = .ok () ↔ ¬ GeoErr i := by
  sorry

/-! ## alignment well-formedness: what the constructor establishes (`_size = align(size, alignment)`) -/

inductive AlignWF : Img → Prop
  | mk (i : Img) : 0 < i.alignment → i.size % i.alignment = 0 → (∀ c ∈ i.children, AlignWF c) → AlignWF i

/-- the reported length is a multiple of the alignment -/
theorem len_aligned (i : Img) (h : AlignWF i) : i.len % i.alignment = 0 := by
  sorry

/-! ## export -/

/-- a valid tree exports, and the buffer has exactly the reported length -/
theorem export_length (i : Img) (hv : i.validate = .ok ()) (ha : AlignWF i) :
    ∃ b, i.export = .ok b ∧ b.length = i.len := by
  sorry

/-- every sub-image's bytes appear at its offset -/
theorem export_child_at (i c : Img) (b bc : Bytes) (hv : i.validate = .ok ()) (ha : AlignWF i)
    (hc : c ∈ i.children) (hb : i.export = .ok b) (hbc : c.export = .ok bc) :
    (b.drop c.offset).take bc.length = bc := by
  sorry

/-- … at every depth: a descendant reached through offsets `o₁, o₂, …` appears at the absolute offset `Σ oₖ` -/
inductive DescAt : Img → Nat → Img → Prop
  | self (i : Img) : DescAt i 0 i
  | step (i c d : Img) (o : Nat) : c ∈ i.children → DescAt c o d → DescAt i (c.offset + o) d

theorem export_desc_at (i d : Img) (o : Nat) (b bd : Bytes) (hv : i.validate = .ok ()) (ha : AlignWF i)
    (hd : DescAt i o d) (hb : i.export = .ok b) (hbd : d.export = .ok bd) :
    (b.drop o).take bd.length = bd := by
  sorry

/-- the own binary sits at offset 0 wherever no sub-image covers it -/
theorem export_own_binary (i : Img) (b bin : Bytes) (k : Nat) (hv : i.validate = .ok ()) (ha : AlignWF i)
    (hb : i.export = .ok b) (hbin : i.binary = some bin) (hk : k < bin.length)
    (hfree : ∀ c ∈ i.children, k < c.offset ∨ c.offset + c.len ≤ k) :
    b[k]? = bin[k]? := by
  sorry

/-- everything else holds the fill pattern -/
theorem export_fill (i : Img) (b : Bytes) (k : Nat) (hv : i.validate = .ok ()) (ha : AlignWF i)
    (hb : i.export = .ok b) (hk : k < i.len) (hbin : binLen i.binary ≤ k)
    (hfree : ∀ c ∈ i.children, k < c.offset ∨ c.offset + c.len ≤ k) :
    b[k]? = (patBlock i.pattern i.len)[k]? := by
  sorry

/-- alignment padding only ever extends the end: with a derived size, exporting with alignment `a` is exporting
    with alignment 1 plus appended padding -/
theorem align_extends (off a : Nat) (bin : Option Bytes) (pat : Option Pattern) (ch : List Img) (b1 : Bytes)
    (ha : 0 < a) (h1 : (Img.mk 0 off 1 bin pat ch).export = .ok b1) (hne : b1 ≠ []) :
    ∃ pad, (Img.mk 0 off a bin pat ch).export = .ok (b1 ++ pad) ∧
      (b1 ++ pad).length = alignNat b1.length a := by
  sorry

/-! ## add_image / append_image -/

def SortedByOffset (l : List Img) : Prop := l.Pairwise (fun x y => x.offset ≤ y.offset)

/-- `add_image` keeps the children sorted by offset and neither loses nor duplicates any -/
theorem insertSorted_sorted (c : Img) (l : List Img) (h : SortedByOffset l) :
    SortedByOffset (insertSorted c l) ∧ (insertSorted c l).length = l.length + 1 ∧
      (∀ x, x ∈ insertSorted c l ↔ x = c ∨ x ∈ l) := by
  sorry

/-- `append_image` puts the new image at the previous end of the parent -/
theorem appendImage_offset (p c : Img) :
    ∃ c', c' ∈ (p.appendImage c).children ∧ c'.offset = p.len ∧ c'.len = c.len := by
  sorry

/-! ## non-vacuity -/

def exTree : Img :=
  .mk 0 0 4 (some [1, 2, 3]) (some .ones)
    [.mk 0 4 1 (some [9, 9]) none [], .mk 3 8 1 none (some .inc) [.mk 0 1 1 (some [7]) none []]]

example : exTree.validate = .ok () ∧ exTree.len = 12 ∧
    exTree.export = .ok [1, 2, 3, 0xFF, 9, 9, 0xFF, 0xFF, 0, 7, 2, 0xFF] := by decide
example : AlignWF exTree := by
  refine .mk _ (by decide) (by decide) ?_
  intro c hc
  simp [exTree, Img.children] at hc
  rcases hc with rfl | rfl
  · exact .mk _ (by decide) (by decide) (by intro c hc; simp [Img.children] at hc)
  · refine .mk _ (by decide) (by decide) ?_
    intro c hc
    simp [Img.children] at hc
    subst hc
    exact .mk _ (by decide) (by decide) (by intro c hc; simp [Img.children] at hc)
example : (Img.mk 8 0 1 none none [.mk 0 0 1 (some [1, 2, 3, 4]) none [], .mk 0 3 1 (some [5]) none []]).validate
    = .error .overlap := by decide
example : (Img.mk 4 0 1 none none [.mk 0 2 1 (some [1, 2, 3]) none []]).validate = .error .sticksOut := by decide

end SpsdkVerif.C16
