/-
C16 — BinaryImage: composition, validation (and, via the harness, file formats) preserve bytes and addresses.

Model: Model/BinImage.lean (hand-written; tied to spsdk/utils/images.py by the tree correspondence of
harness/props/C16.py).  Helper lemmas: Proofs/BinImage.lean.
-/
import SpsdkVerif.Model.BinImage
import SpsdkVerif.Proofs.BinImage

namespace SpsdkVerif.C16
open SpsdkVerif SpsdkVerif.BinImg SpsdkVerif.Misc

/-! ## geometry, stated independently of `validate` -/

/-- two siblings overlap (plain interval intersection; an empty image counts when strictly inside the other) -/
def OverlapPair (c s : Img) : Prop :=
  c.offset < s.offset + s.len ∧ s.offset < c.offset + c.len

/-- somewhere in the tree: own binary larger than the image, a child sticking out of its parent, or two
    siblings overlapping -/
inductive GeoErr : Img → Prop
  | bin (i : Img) : binLen i.binary > i.len → GeoErr i
  | child (i c : Img) : c ∈ i.children → GeoErr c → GeoErr i
  | sticks (i c : Img) : c ∈ i.children → c.offset + c.len > i.len → GeoErr i
  | overlap (i : Img) (a b : Nat) (ca cb : Img) : a ≠ b → i.children[a]? = some ca →
      i.children[b]? = some cb → OverlapPair ca cb → GeoErr i

/-- validation reports an error exactly when the geometry is wrong -/
theorem validate_iff (i : Img) : i.validate = .ok () ↔ ¬ GeoErr i := by
  induction i using Img.induct' with
  | h s o a b p ch ih =>
    rw [validate_ok_iff]
    constructor
    · rintro ⟨h1, h2, h3⟩ hg
      cases hg with
      | bin _ hb => simp only [Img.binary] at hb; omega
      | child _ c hc hgc => exact (ih c hc).1 (h2 c hc).1 hgc
      | sticks _ c hc hs => have := (h2 c hc).2; omega
      | overlap _ x y ca cb hxy hx hy hov => exact h3 x y ca cb hxy hx hy hov
    · intro hn
      refine ⟨?_, ?_, ?_⟩
      · apply Nat.le_of_not_lt; intro hlt; exact hn (.bin _ hlt)
      · intro c hc
        refine ⟨(ih c hc).2 (fun hg => hn (.child _ c hc hg)), ?_⟩
        apply Nat.le_of_not_lt; intro hlt; exact hn (.sticks _ c hc hlt)
      · intro x y ca cb hxy hx hy hov
        exact hn (.overlap _ x y ca cb hxy hx hy hov)

/-! ## alignment well-formedness: what the constructor establishes (`_size = align(size, alignment)`) -/

inductive AlignWF : Img → Prop
  | mk (i : Img) : 0 < i.alignment → i.size % i.alignment = 0 → (∀ c ∈ i.children, AlignWF c) → AlignWF i

/-- the reported length is a multiple of the alignment -/
theorem len_aligned (i : Img) (h : AlignWF i) : i.len % i.alignment = 0 := by
  cases h with
  | mk _ h1 h2 _ =>
    cases i with
    | mk s o a b p ch =>
      simp only [Img.alignment, Img.size] at *
      rw [Img.len]
      split
      · exact h2
      · exact (alignNat_spec _ _ h1).1

/-! ## export -/

/-- a valid tree exports, and the buffer has exactly the reported length -/
theorem export_length (i : Img) (hv : i.validate = .ok ()) (ha : AlignWF i) :
    ∃ b, i.export = .ok b ∧ b.length = i.len := by
  induction i using Img.induct' with
  | h s o a bin p ch ih =>
    cases ha with
    | mk _ h1 h2 h3 =>
      obtain ⟨b, hb, hl, _⟩ := export_spec s o a bin p ch h1 h2 hv
        (fun c hc => ih c hc (validate_child _ c hv hc).1 (h3 c hc))
      exact ⟨b, hb, hl⟩

/-- every sub-image's bytes appear at its offset -/
theorem export_child_at (i c : Img) (b bc : Bytes) (hv : i.validate = .ok ()) (ha : AlignWF i)
    (hc : c ∈ i.children) (hb : i.export = .ok b) (hbc : c.export = .ok bc) :
    (b.drop c.offset).take bc.length = bc := by
  cases i with
  | mk s o a bin p ch =>
    cases ha with
    | mk _ h1 h2 h3 =>
      obtain ⟨b', hb', _, _, hat⟩ := export_spec s o a bin p ch h1 h2 hv
        (fun c hc => export_length c (validate_child _ c hv hc).1 (h3 c hc))
      rw [hb] at hb'; cases hb'
      exact take_drop_of_get b bc c.offset (hat c hc bc hbc)

/-- … at every depth: a descendant reached through offsets `o₁, o₂, …` appears at the absolute offset `Σ oₖ` -/
inductive DescAt : Img → Nat → Img → Prop
  | self (i : Img) : DescAt i 0 i
  | step (i c d : Img) (o : Nat) : c ∈ i.children → DescAt c o d → DescAt i (c.offset + o) d

theorem export_desc_at (i d : Img) (o : Nat) (b bd : Bytes) (hv : i.validate = .ok ()) (ha : AlignWF i)
    (hd : DescAt i o d) (hb : i.export = .ok b) (hbd : d.export = .ok bd) :
    (b.drop o).take bd.length = bd := by
  induction hd generalizing b with
  | self i =>
    rw [hb] at hbd; cases hbd
    simp
  | step i c d o hc _ ih =>
    have hvc := (validate_child i c hv hc).1
    have hac : AlignWF c := by cases ha with | mk _ _ _ h3 => exact h3 c hc
    obtain ⟨bc, hbc, _⟩ := export_length c hvc hac
    exact take_drop_trans b bc bd c.offset o (export_child_at i c b bc hv ha hc hb hbc)
      (ih bc hvc hac hbc hbd)

/-- the own binary sits at offset 0 wherever no sub-image covers it -/
theorem export_own_binary (i : Img) (b bin : Bytes) (k : Nat) (hv : i.validate = .ok ()) (ha : AlignWF i)
    (hb : i.export = .ok b) (hbin : i.binary = some bin) (hk : k < bin.length)
    (hfree : ∀ c ∈ i.children, k < c.offset ∨ c.offset + c.len ≤ k) :
    b[k]? = bin[k]? := by
  cases i with
  | mk s o a bin' p ch =>
    simp only [Img.binary, Img.children] at hbin hfree
    subst hbin
    cases ha with
    | mk _ h1 h2 h3 =>
      obtain ⟨b', hb', _, hfr, _⟩ := export_spec s o a (some bin) p ch h1 h2 hv
        (fun c hc => export_length c (validate_child _ c hv hc).1 (h3 c hc))
      rw [hb] at hb'; cases hb'
      rw [hfr k hfree, ownBuf_get_bin _ _ _ _ hk]

/-- everything else holds the fill pattern -/
theorem export_fill (i : Img) (b : Bytes) (k : Nat) (hv : i.validate = .ok ()) (ha : AlignWF i)
    (hb : i.export = .ok b) (hk : k < i.len) (hbin : binLen i.binary ≤ k)
    (hfree : ∀ c ∈ i.children, k < c.offset ∨ c.offset + c.len ≤ k) :
    b[k]? = (patBlock i.pattern i.len)[k]? := by
  cases i with
  | mk s o a bin p ch =>
    simp only [Img.binary, Img.children, Img.pattern] at hbin hfree ⊢
    cases ha with
    | mk _ h1 h2 h3 =>
      obtain ⟨b', hb', _, hfr, _⟩ := export_spec s o a bin p ch h1 h2 hv
        (fun c hc => export_length c (validate_child _ c hv hc).1 (h3 c hc))
      rw [hb] at hb'; cases hb'
      rw [hfr k hfree, ownBuf_get_fill _ _ _ _ hbin]

/-- alignment padding only ever extends the end: with a derived size, exporting with alignment `a` is exporting
    with alignment 1 plus appended padding -/
theorem align_extends (off a : Nat) (bin : Option Bytes) (pat : Option Pattern) (ch : List Img) (b1 : Bytes)
    (ha : 0 < a) (h1 : (Img.mk 0 off 1 bin pat ch).export = .ok b1) (hne : b1 ≠ []) :
    ∃ pad, (Img.mk 0 off a bin pat ch).export = .ok (b1 ++ pad) ∧
      (b1 ++ pad).length = alignNat b1.length a := by
  exact align_extends' off a bin pat ch b1 ha h1

/-! ## add_image / append_image -/

def SortedByOffset (l : List Img) : Prop := l.Pairwise (fun x y => x.offset ≤ y.offset)

/-- `add_image` keeps the children sorted by offset and neither loses nor duplicates any -/
theorem insertSorted_sorted (c : Img) (l : List Img) (h : SortedByOffset l) :
    SortedByOffset (insertSorted c l) ∧ (insertSorted c l).length = l.length + 1 ∧
      (∀ x, x ∈ insertSorted c l ↔ x = c ∨ x ∈ l) := by
  exact ⟨sorted_insertSorted c l h, length_insertSorted c l, mem_insertSorted c l⟩

/-- `append_image` puts the new image at the previous end of the parent -/
theorem appendImage_offset (p c : Img) :
    ∃ c', c' ∈ (p.appendImage c).children ∧ c'.offset = p.len ∧ c'.len = c.len := by
  refine ⟨c.withOffset p.len, ?_, offset_withOffset _ _, len_withOffset _ _⟩
  rw [Img.appendImage, children_addImage, mem_insertSorted]
  exact Or.inl rfl

/-! ## non-vacuity -/

def exTree : Img :=
  .mk 0 0 4 (some [1, 2, 3]) (some .ones)
    [.mk 0 4 1 (some [9, 9]) none [], .mk 3 8 1 none (some .inc) [.mk 0 1 1 (some [7]) none []]]

example : exTree.validate = .ok () ∧ exTree.len = 12 ∧
    exTree.export = .ok [1, 2, 3, 0xFF, 9, 9, 0xFF, 0xFF, 0, 7, 2, 0xFF] := by decide
example : AlignWF exTree := by
  refine .mk _ (by decide) (by decide) ?_
  intro c hc
  simp [exTree, Img.children] at hc
  rcases hc with rfl | rfl
  · exact .mk _ (by decide) (by decide) (by intro c hc; simp [Img.children] at hc)
  · refine .mk _ (by decide) (by decide) ?_
    intro c hc
    simp [Img.children] at hc
    subst hc
    exact .mk _ (by decide) (by decide) (by intro c hc; simp [Img.children] at hc)
example : (Img.mk 8 0 1 none none [.mk 0 0 1 (some [1, 2, 3, 4]) none [], .mk 0 3 1 (some [5]) none []]).validate
    = .error .overlap := by decide
example : (Img.mk 4 0 1 none none [.mk 0 2 1 (some [1, 2, 3]) none []]).validate = .error .sticksOut := by decide

end SpsdkVerif.C16
