/-
C16 — BinaryImage: composition, validation (and, via the harness, file formats) preserve bytes and addresses.

Model: Model/BinImage.lean (hand-written; tied to spsdk/utils/images.py by the tree correspondence of
harness/props/C16.py).  Helper lemmas: Proofs/BinImage.lean.
-/
import SpsdkVerif.Model.BinImage
import SpsdkVerif.Proofs.BinImage
import SpsdkVerif.Model.HexFmt
import SpsdkVerif.Proofs.HexFmt
import SpsdkVerif.Generated.BinImageGeo
import SpsdkVerif.Proofs.BinImageGen
import SpsdkVerif.Model.HexFmtOw
import SpsdkVerif.Proofs.HexFmtOw
import SpsdkVerif.Model.BinImageOps
import SpsdkVerif.Proofs.BinImageOps

namespace SpsdkVerif.C16
open SpsdkVerif SpsdkVerif.BinImg SpsdkVerif.Misc

/-! ## geometry, stated independently of `validate` -/

/-- two siblings overlap (plain interval intersection; an empty image counts when strictly inside the other) -/
def OverlapPair (c s : Img) : Prop :=
  c.offset < s.offset + s.len ∧ s.offset < c.offset + c.len

/-- somewhere in the tree: own binary larger than the image, a child sticking out of its parent, or two
    siblings overlapping -/
inductive GeoErr : Img → Prop
  | bin (i : Img) : binLen i.binary > i.len → GeoErr i
  | child (i c : Img) : c ∈ i.children → GeoErr c → GeoErr i
  | sticks (i c : Img) : c ∈ i.children → c.offset + c.len > i.len → GeoErr i
  | overlap (i : Img) (a b : Nat) (ca cb : Img) : a ≠ b → i.children[a]? = some ca →
      i.children[b]? = some cb → OverlapPair ca cb → GeoErr i

/-- validation reports an error exactly when the geometry is wrong -/
theorem validate_iff (i : Img) : i.validate = .ok () ↔ ¬ GeoErr i := by
  induction i using Img.induct' with
  | h s o a b p ch ih =>
    rw [validate_ok_iff]
    constructor
    · rintro ⟨h1, h2, h3⟩ hg
      cases hg with
      | bin _ hb => simp only [Img.binary] at hb; omega
      | child _ c hc hgc => exact (ih c hc).1 (h2 c hc).1 hgc
      | sticks _ c hc hs => have := (h2 c hc).2; omega
      | overlap _ x y ca cb hxy hx hy hov => exact h3 x y ca cb hxy hx hy hov
    · intro hn
      refine ⟨?_, ?_, ?_⟩
      · apply Nat.le_of_not_lt; intro hlt; exact hn (.bin _ hlt)
      · intro c hc
        refine ⟨(ih c hc).2 (fun hg => hn (.child _ c hc hg)), ?_⟩
        apply Nat.le_of_not_lt; intro hlt; exact hn (.sticks _ c hc hlt)
      · intro x y ca cb hxy hx hy hov
        exact hn (.overlap _ x y ca cb hxy hx hy hov)

/-! ## alignment well-formedness: what the constructor establishes (`_size = align(size, alignment)`) -/

inductive AlignWF : Img → Prop
  | mk (i : Img) : 0 < i.alignment → i.size % i.alignment = 0 → (∀ c ∈ i.children, AlignWF c) → AlignWF i

/-- the reported length is a multiple of the alignment -/
theorem len_aligned (i : Img) (h : AlignWF i) : i.len % i.alignment = 0 := by
  cases h with
  | mk _ h1 h2 _ =>
    cases i with
    | mk s o a b p ch =>
      simp only [Img.alignment, Img.size] at *
      rw [Img.len]
      split
      · exact h2
      · exact (alignNat_spec _ _ h1).1

/-! ## export -/

/-- a valid tree exports, and the buffer has exactly the reported length -/
theorem export_length (i : Img) (hv : i.validate = .ok ()) (ha : AlignWF i) :
    ∃ b, i.export = .ok b ∧ b.length = i.len := by
  induction i using Img.induct' with
  | h s o a bin p ch ih =>
    cases ha with
    | mk _ h1 h2 h3 =>
      obtain ⟨b, hb, hl, _⟩ := export_spec s o a bin p ch h1 h2 hv
        (fun c hc => ih c hc (validate_child _ c hv hc).1 (h3 c hc))
      exact ⟨b, hb, hl⟩

/-- every sub-image's bytes appear at its offset -/
theorem export_child_at (i c : Img) (b bc : Bytes) (hv : i.validate = .ok ()) (ha : AlignWF i)
    (hc : c ∈ i.children) (hb : i.export = .ok b) (hbc : c.export = .ok bc) :
    (b.drop c.offset).take bc.length = bc := by
  cases i with
  | mk s o a bin p ch =>
    cases ha with
    | mk _ h1 h2 h3 =>
      obtain ⟨b', hb', _, _, hat⟩ := export_spec s o a bin p ch h1 h2 hv
        (fun c hc => export_length c (validate_child _ c hv hc).1 (h3 c hc))
      rw [hb] at hb'; cases hb'
      exact take_drop_of_get b bc c.offset (hat c hc bc hbc)

/-- … at every depth: a descendant reached through offsets `o₁, o₂, …` appears at the absolute offset `Σ oₖ` -/
inductive DescAt : Img → Nat → Img → Prop
  | self (i : Img) : DescAt i 0 i
  | step (i c d : Img) (o : Nat) : c ∈ i.children → DescAt c o d → DescAt i (c.offset + o) d

theorem export_desc_at (i d : Img) (o : Nat) (b bd : Bytes) (hv : i.validate = .ok ()) (ha : AlignWF i)
    (hd : DescAt i o d) (hb : i.export = .ok b) (hbd : d.export = .ok bd) :
    (b.drop o).take bd.length = bd := by
  induction hd generalizing b with
  | self i =>
    rw [hb] at hbd; cases hbd
    simp
  | step i c d o hc _ ih =>
    have hvc := (validate_child i c hv hc).1
    have hac : AlignWF c := by cases ha with | mk _ _ _ h3 => exact h3 c hc
    obtain ⟨bc, hbc, _⟩ := export_length c hvc hac
    exact take_drop_trans b bc bd c.offset o (export_child_at i c b bc hv ha hc hb hbc)
      (ih bc hvc hac hbc hbd)

/-- the own binary sits at offset 0 wherever no sub-image covers it -/
theorem export_own_binary (i : Img) (b bin : Bytes) (k : Nat) (hv : i.validate = .ok ()) (ha : AlignWF i)
    (hb : i.export = .ok b) (hbin : i.binary = some bin) (hk : k < bin.length)
    (hfree : ∀ c ∈ i.children, k < c.offset ∨ c.offset + c.len ≤ k) :
    b[k]? = bin[k]? := by
  cases i with
  | mk s o a bin' p ch =>
    simp only [Img.binary, Img.children] at hbin hfree
    subst hbin
    cases ha with
    | mk _ h1 h2 h3 =>
      obtain ⟨b', hb', _, hfr, _⟩ := export_spec s o a (some bin) p ch h1 h2 hv
        (fun c hc => export_length c (validate_child _ c hv hc).1 (h3 c hc))
      rw [hb] at hb'; cases hb'
      rw [hfr k hfree, ownBuf_get_bin _ _ _ _ hk]

/-- everything else holds the fill pattern -/
theorem export_fill (i : Img) (b : Bytes) (k : Nat) (hv : i.validate = .ok ()) (ha : AlignWF i)
    (hb : i.export = .ok b) (hk : k < i.len) (hbin : binLen i.binary ≤ k)
    (hfree : ∀ c ∈ i.children, k < c.offset ∨ c.offset + c.len ≤ k) :
    b[k]? = (patBlock i.pattern i.len)[k]? := by
  cases i with
  | mk s o a bin p ch =>
    simp only [Img.binary, Img.children, Img.pattern] at hbin hfree ⊢
    cases ha with
    | mk _ h1 h2 h3 =>
      obtain ⟨b', hb', _, hfr, _⟩ := export_spec s o a bin p ch h1 h2 hv
        (fun c hc => export_length c (validate_child _ c hv hc).1 (h3 c hc))
      rw [hb] at hb'; cases hb'
      rw [hfr k hfree, ownBuf_get_fill _ _ _ _ hbin]

/-- alignment padding only ever extends the end: with a derived size, exporting with alignment `a` is exporting
    with alignment 1 plus appended padding -/
theorem align_extends (off a : Nat) (bin : Option Bytes) (pat : Option Pattern) (ch : List Img) (b1 : Bytes)
    (ha : 0 < a) (h1 : (Img.mk 0 off 1 bin pat ch).export = .ok b1) (hne : b1 ≠ []) :
    ∃ pad, (Img.mk 0 off a bin pat ch).export = .ok (b1 ++ pad) ∧
      (b1 ++ pad).length = alignNat b1.length a := by
  exact align_extends' off a bin pat ch b1 ha h1

/-! ## add_image / append_image -/

def SortedByOffset (l : List Img) : Prop := l.Pairwise (fun x y => x.offset ≤ y.offset)

/-- `add_image` keeps the children sorted by offset and neither loses nor duplicates any -/
theorem insertSorted_sorted (c : Img) (l : List Img) (h : SortedByOffset l) :
    SortedByOffset (insertSorted c l) ∧ (insertSorted c l).length = l.length + 1 ∧
      (∀ x, x ∈ insertSorted c l ↔ x = c ∨ x ∈ l) := by
  exact ⟨sorted_insertSorted c l h, length_insertSorted c l, mem_insertSorted c l⟩

/-- `append_image` puts the new image at the previous end of the parent -/
theorem appendImage_offset (p c : Img) :
    ∃ c', c' ∈ (p.appendImage c).children ∧ c'.offset = p.len ∧ c'.len = c.len := by
  refine ⟨c.withOffset p.len, ?_, offset_withOffset _ _, len_withOffset _ _⟩
  rw [Img.appendImage, children_addImage, mem_insertSorted]
  exact Or.inl rfl

/-! ## non-vacuity -/

def exTree : Img :=
  .mk 0 0 4 (some [1, 2, 3]) (some .ones)
    [.mk 0 4 1 (some [9, 9]) none [], .mk 3 8 1 none (some .inc) [.mk 0 1 1 (some [7]) none []]]

example : exTree.validate = .ok () ∧ exTree.len = 12 ∧
    exTree.export = .ok [1, 2, 3, 0xFF, 9, 9, 0xFF, 0xFF, 0, 7, 2, 0xFF] := by decide
example : AlignWF exTree := by
  refine .mk _ (by decide) (by decide) ?_
  intro c hc
  simp [exTree, Img.children] at hc
  rcases hc with rfl | rfl
  · exact .mk _ (by decide) (by decide) (by intro c hc; simp [Img.children] at hc)
  · refine .mk _ (by decide) (by decide) ?_
    intro c hc
    simp [Img.children] at hc
    subst hc
    exact .mk _ (by decide) (by decide) (by intro c hc; simp [Img.children] at hc)
example : (Img.mk 8 0 1 none none [.mk 0 0 1 (some [1, 2, 3, 4]) none [], .mk 0 3 1 (some [5]) none []]).validate
    = .error .overlap := by decide
example : (Img.mk 4 0 1 none none [.mk 0 2 1 (some [1, 2, 3]) none []]).validate = .error .sticksOut := by decide

end SpsdkVerif.C16

/-!
# File formats: Intel-HEX and S-record text (Model/HexFmt.lean, helper lemmas Proofs/HexFmt.lean)

"Saving an image as HEX or S19 and loading it again gives the same bytes at the same addresses", for the
writer / reader pair SPSDK uses (`bincopy.BinFile.as_ihex` / `as_srec`, `add_ihex` / `add_srec` behind the
format sniffing of `BinFile.add`).  The model is tied to the real code by the `hexfmt_model` stream
(emitted text byte for byte, decoded segments, accept / refuse of malformed text).
-/
namespace SpsdkVerif.C16
open SpsdkVerif.HexFmt

/-- what `save_binary_image` hands to bincopy for an image whose data-carrying nodes do not overlap: segments
    in ascending order, non-overlapping (touching allowed), non-empty, inside the 32-bit address space -/
def SegsOK (segs : List Seg) : Prop :=
  (∀ s ∈ segs, s.data ≠ [] ∧ s.addr + s.data.length ≤ 2 ^ 32) ∧
  segs.Pairwise (fun a b => a.addr + a.data.length ≤ b.addr)

theorem segsOK_from (segs : List Seg) (h : SegsOK segs) : SegsFrom 0 segs :=
  segsFrom_of_pairwise segs 0 (fun s hs => ⟨Nat.zero_le _, (h.1 s hs).1, (h.1 s hs).2⟩) h.2

/-! ## single records -/

/-- an emitted Intel-HEX record parses back to its type, address and data (the checksum verifies) -/
theorem ihex_record_roundtrip (type addr : Nat) (data : HexFmt.Bytes) (ht : type < 256) (ha : addr < 65536)
    (hd : data.length < 256) : unpackIhex (packIhex type addr data) = .ok (type, addr, data) :=
  unpackIhex_packIhex type addr data ht ha hd

/-- an emitted S-record of any type (address width 2, 3 or 4 bytes) parses back to its type, address and data -/
theorem srec_record_roundtrip (t : UInt8) (w addr : Nat) (data : HexFmt.Bytes) (hw : srecWidth t = some w)
    (ha : addr < 256 ^ w) (hd : data.length + w + 1 < 256) : unpackSrec (packSrec t w addr data) = .ok (t, addr, data) :=
  unpackSrec_packSrec t w addr data hw ha hd

/-- changing any single byte of an emitted Intel-HEX record (length, address, type, data or checksum byte; in
    particular any single hex digit) makes the reader refuse the record -/
theorem ihex_checksum_detects_single_byte (type addr : Nat) (data pre post : HexFmt.Bytes) (x y : UInt8) (hxy : x ≠ y)
    (hrec : packIhex type addr data = 58 :: hexBytes (pre ++ x :: post)) (r : Nat × Nat × HexFmt.Bytes) :
    unpackIhex (58 :: hexBytes (pre ++ y :: post)) ≠ .ok r := by
  intro h
  have h1 := unpackIhex_ok_sum _ r h
  have h0 : sumBytes (pre ++ x :: post) % 256 = 0 := by
    simp only [packIhex, List.cons.injEq, true_and] at hrec
    rw [← hexBytes_inj _ _ hrec]
    exact sum_of_crcIhex _ (by rw [List.getLast?_concat, List.dropLast_concat])
  exact hxy (sum_single_byte pre post x y (by rw [h0, h1]))

/-- … and so for an emitted S-record -/
theorem srec_checksum_detects_single_byte (t : UInt8) (w addr : Nat) (data pre post : HexFmt.Bytes) (x y : UInt8) (hxy : x ≠ y)
    (hrec : packSrec t w addr data = 83 :: t :: hexBytes (pre ++ x :: post)) (r : UInt8 × Nat × HexFmt.Bytes) :
    unpackSrec (83 :: t :: hexBytes (pre ++ y :: post)) ≠ .ok r := by
  intro h
  have h1 := unpackSrec_ok_sum t _ r h
  have h0 : sumBytes (pre ++ x :: post) % 256 = 255 := by
    simp only [packSrec, List.cons.injEq, true_and] at hrec
    rw [← hexBytes_inj _ _ hrec]
    exact sum_of_crcSrec _ (by rw [List.getLast?_concat, List.dropLast_concat])
  exact hxy (sum_single_byte pre post x y (by rw [h0, h1]))

/-! ## whole files -/

/-- merging touching segments (what bincopy does on `add_binary`, and again when reading) changes no byte at
    any address -/
theorem normalize_same_bytes (segs : List Seg) (a : Nat) : memAt (normalize segs) a = memAt segs a :=
  memAt_normalize segs a

/-- the reader's general `Segments.add` (fast path, linear insert, merge loop), on an ascending list whose
    current segment is the last one and for data at or behind its end, is "merge when touching, else append" -/
theorem reader_add_ascending (l : List Seg) (s : Seg) (hb : ∀ x ∈ l, x.max ≤ lastMax l) (hs : lastMax l ≤ s.addr) :
    SegList.add ⟨l, l.length - 1⟩ s = .ok ⟨addSorted l s, (addSorted l s).length - 1⟩ :=
  add_sorted l s hb hs

/-- Intel-HEX: for every ascending, non-overlapping list of non-empty segments in the 32-bit address space
    (any number, any lengths, touching or crossing 64 KiB boundaries) and every optional 32-bit execution start
    address, the writer succeeds and the reader gives back the same segments (touching ones merged) and the
    same start address -/
theorem ihex_roundtrip (exec : Option Nat) (segs : List Seg) (h : SegsOK segs) (he : ∀ e, exec = some e → e < 2 ^ 32) :
    ∃ text, ihexEncode exec segs = .ok text ∧ ihexDecode text = .ok ⟨normalize segs, exec⟩ := by
  obtain ⟨text, h1, h2, _⟩ := ihex_roundtrip_from exec segs (segsOK_from segs h) he
  exact ⟨text, h1, h2⟩

/-- … hence the same bytes at the same addresses -/
theorem ihex_roundtrip_bytes (exec : Option Nat) (segs : List Seg) (h : SegsOK segs) (he : ∀ e, exec = some e → e < 2 ^ 32) :
    ∃ text img, ihexEncode exec segs = .ok text ∧ ihexDecode text = .ok img ∧ img.exec = exec ∧
      ∀ a, memAt img.segs a = memAt segs a := by
  obtain ⟨text, h1, h2⟩ := ihex_roundtrip exec segs h he
  exact ⟨text, _, h1, h2, rfl, fun a => memAt_normalize segs a⟩

/-- S-record: the same, as long as bincopy can count the records (it refuses more than 0xffffff of them) -/
theorem srec_roundtrip (exec : Option Nat) (segs : List Seg) (h : SegsOK segs) (he : ∀ e, exec = some e → e < 2 ^ 32)
    (hn : ((normalize segs).flatMap Seg.chunks).length ≤ 0xffffff) :
    ∃ text, srecEncode exec segs = .ok text ∧ srecDecode text = .ok ⟨normalize segs, exec⟩ := by
  obtain ⟨text, _, h1, h2, _⟩ := srec_roundtrip_from exec segs (segsOK_from segs h) he hn
  exact ⟨text, h1, h2⟩

theorem srec_roundtrip_bytes (exec : Option Nat) (segs : List Seg) (h : SegsOK segs) (he : ∀ e, exec = some e → e < 2 ^ 32)
    (hn : ((normalize segs).flatMap Seg.chunks).length ≤ 0xffffff) :
    ∃ text img, srecEncode exec segs = .ok text ∧ srecDecode text = .ok img ∧ img.exec = exec ∧
      ∀ a, memAt img.segs a = memAt segs a := by
  obtain ⟨text, h1, h2⟩ := srec_roundtrip exec segs h he hn
  exact ⟨text, _, h1, h2, rfl, fun a => memAt_normalize segs a⟩

/-- the record-count hypothesis is exactly bincopy's limit: beyond it `as_srec` raises -/
theorem srec_too_many_records (exec : Option Nat) (segs : List Seg)
    (hn : ¬ ((normalize segs).flatMap Seg.chunks).length ≤ 0xffffff) : srecEncode exec segs = .error .fmt := by
  unfold srecEncode srecFooter
  have h1 : ¬ ((normalize segs).flatMap Seg.chunks).length ≤ 0xffff := by omega
  simp only [h1, hn, if_false]

/-- through `load_binary_image`'s path for text files (format sniffing on the first line: S-record first, then
    Intel-HEX; refusal of a file without segments): a non-empty image written as HEX is recognised as HEX and
    loaded back -/
theorem ihex_load_roundtrip (exec : Option Nat) (segs : List Seg) (h : SegsOK segs) (hne : segs ≠ [])
    (he : ∀ e, exec = some e → e < 2 ^ 32) :
    ∃ text, ihexEncode exec segs = .ok text ∧ loadText text = .ok ⟨normalize segs, exec⟩ :=
  load_ihex_roundtrip_from exec segs (segsOK_from segs h) hne he

/-- … and one written as S19 is recognised as S-record and loaded back -/
theorem srec_load_roundtrip (exec : Option Nat) (segs : List Seg) (h : SegsOK segs) (hne : segs ≠ [])
    (he : ∀ e, exec = some e → e < 2 ^ 32) (hn : ((normalize segs).flatMap Seg.chunks).length ≤ 0xffffff) :
    ∃ text, srecEncode exec segs = .ok text ∧ loadText text = .ok ⟨normalize segs, exec⟩ :=
  load_srec_roundtrip_from exec segs (segsOK_from segs h) hne he hn

/-! ## non-vacuity and sanity (texts as bincopy 20.1.1 writes them) -/

/-- two touching segments whose union crosses a 64 KiB boundary, one at the very top of the address space -/
def exSegs : List Seg := [⟨0xFFFF, [0xAA, 0xBB]⟩, ⟨0x10001, [0xCC]⟩, ⟨0xFFFFFFFE, [1, 2]⟩]

example : SegsOK exSegs := by
  refine ⟨by decide, ?_⟩
  simp [exSegs, List.pairwise_cons]

example : normalize exSegs = [⟨0xFFFF, [0xAA, 0xBB, 0xCC]⟩, ⟨0xFFFFFFFE, [1, 2]⟩] := by decide

-- ":03FFFF00AABBCCCE\n:02000004FFFFFC\n:02FFFE000102FE\n:0400000520000401D2\n:00000001FF\n"
def exIhex : HexFmt.Bytes :=
  [58, 48, 51, 70, 70, 70, 70, 48, 48, 65, 65, 66, 66, 67, 67, 67, 69, 10, 58, 48, 50, 48, 48, 48, 48, 48, 52, 70, 70, 70, 70,
   70, 67, 10, 58, 48, 50, 70, 70, 70, 69, 48, 48, 48, 49, 48, 50, 70, 69, 10, 58, 48, 52, 48, 48, 48, 48, 48, 53, 50, 48, 48,
   48, 48, 52, 48, 49, 68, 50, 10, 58, 48, 48, 48, 48, 48, 48, 48, 49, 70, 70, 10]

-- "S3080000FFFFAABBCCC8\nS307FFFFFFFE0102FA\nS5030002FA\nS70520000401D5\n"
def exSrec : HexFmt.Bytes :=
  [83, 51, 48, 56, 48, 48, 48, 48, 70, 70, 70, 70, 65, 65, 66, 66, 67, 67, 67, 56, 10, 83, 51, 48, 55, 70, 70, 70, 70, 70, 70,
   70, 69, 48, 49, 48, 50, 70, 65, 10, 83, 53, 48, 51, 48, 48, 48, 50, 70, 65, 10, 83, 55, 48, 53, 50, 48, 48, 48, 48, 52, 48,
   49, 68, 53, 10]

example : ihexEncode (some 0x20000401) exSegs = .ok exIhex := by decide
example : srecEncode (some 0x20000401) exSegs = .ok exSrec := by decide
example : loadText exIhex = .ok ⟨normalize exSegs, some 0x20000401⟩ := by decide
example : loadText exSrec = .ok ⟨normalize exSegs, some 0x20000401⟩ := by decide
-- a flipped digit, an unknown record type, an odd number of digits, an empty file body
example : ihexDecode [58, 48, 48, 48, 48, 48, 48, 48, 49, 70, 69, 10] = .error .fmt := by decide     -- ":00000001FE"
example : ihexDecode [58, 48, 48, 48, 48, 48, 48, 48, 54, 70, 65, 10] = .error .fmt := by decide     -- ":00000006FA"
example : ihexDecode [58, 48, 48, 48, 48, 48, 48, 48, 49, 70, 70, 70, 10] = .error .value := by decide -- ":00000001FFF"
example : loadText [58, 48, 48, 48, 48, 48, 48, 48, 49, 70, 70, 10] = .error .fmt := by decide       -- only an EOF record
-- out-of-order and overlapping data records go through the general `Segments.add`
example : (SegList.add ⟨[⟨0, [1, 2]⟩, ⟨8, [3]⟩], 1⟩ ⟨2, [9]⟩) = .ok ⟨[⟨0, [1, 2, 9]⟩, ⟨8, [3]⟩], 0⟩ := by decide
example : (SegList.add ⟨[⟨0, [1, 2]⟩, ⟨8, [3]⟩], 1⟩ ⟨1, [9]⟩) = .error .fmt := by decide

end SpsdkVerif.C16

/-!
# The geometry code as it is written NOW (Generated/BinImageGeo.lean) is what the hand model computes

`tools/extract/gen_C16.py` re-reads `spsdk/utils/images.py` on every run and emits the integer / boolean code of
`__len__`, `aligned_start/length`, the three checks of `validate()`, the insertion rule of `add_image`, `append_image`,
`min_offset` / `update_offsets`, the `offset` default of `load_from_config`, the fast path of `export()`, what
`save_binary_image` hands to bincopy, the format list and the ELF magic, with `self.x` as explicit parameters.
Every theorem below is for ALL arguments; a changed comparison, a dropped alignment, an `or`-default, a reordered
write makes one of them unprovable.  Together with the theorems of the first part (which are about the hand model)
they say that those theorems speak about the present source.
-/
namespace SpsdkVerif.C16
open SpsdkVerif SpsdkVerif.BinImg SpsdkVerif.Misc SpsdkVerif.GeoComb SpsdkVerif.Generated.BinImageGeo

/-- `len(image)` of the source = `Img.len` of the model, for every tree (explicit size wins; else the maximum of the own
    binary's length and every child's end, aligned) -/
theorem len_generated (i : Img) (ha : 0 < i.alignment) :
    genLen i.size (binTruthy i.binary) (rawLen i.binary) i.alignment (kidsOf i.children) = .ok (i.len : Int) :=
  genLen_eq i ha

/-- `aligned_start` rounds the absolute address down, `aligned_length` spans from there to the end rounded up
    (exact integer reading of `math.floor(a / b)` / `math.ceil(a / b)`: operands below 2^53) -/
theorem aligned_generated (abs len al : Nat) (ha : 0 < al) :
    genAlignedStart abs al = ((abs / al * al : Nat) : Int) ∧
    genAlignedLength abs len al = (alignNat (abs + len) al : Int) - ((abs / al * al : Nat) : Int) :=
  ⟨genAlignedStart_eq abs al, genAlignedLength_eq abs len al ha⟩

/-- the three decisions of `validate()` are the model's: own binary larger than the image (offsets and lengths are
    naturals in the model), child not inside its parent, two different children sharing a byte - with the source's
    inclusive-end arithmetic, whichever way the comparisons are spelled -/
theorem validate_checks_generated (off len b l pl sb sl : Nat) (bin : Option Bytes) :
    vSelfErr off len (binTruthy bin) (rawLen bin) = decide (binLen bin > len) ∧
    vChildErr b l pl = decide ((b : Int) + l - 1 ≥ pl) ∧
    vSiblingErr b l sb sl = !(decide (((b : Int) + l - 1 < sb) ∨ ((b : Int) > sb + sl - 1))) :=
  ⟨vSelfErr_eq off len bin, vChildErr_eq b l pl, vSiblingErr_eq b l sb sl⟩

/-- the model's sibling scan is the generated sibling check over all other children -/
theorem overlap_scan_generated (b l : Nat) (sibs : List (Nat × Nat)) :
    overlapsAny b l sibs = sibs.any (fun s => vSiblingErr b l s.1 s.2) :=
  overlapsAny_eq_gen b l sibs

/-- a tree on which none of the generated checks fires, anywhere -/
inductive GenValid : Img → Prop
  | mk (i : Img) :
      vSelfErr i.offset i.len (binTruthy i.binary) (rawLen i.binary) = false →
      (∀ c ∈ i.children, GenValid c) →
      (∀ c ∈ i.children, vChildErr c.offset c.len i.len = false) →
      (∀ (a b : Nat) (ca cb : Img), a ≠ b → i.children[a]? = some ca → i.children[b]? = some cb →
        vSiblingErr ca.offset ca.len cb.offset cb.len = false) →
      GenValid i

/-- `validate()` of the model succeeds exactly on the trees the source's checks (as generated) let through; with
    `validate_iff` above: the source's checks fire exactly on wrong geometry -/
theorem validate_iff_generated (i : Img) : i.validate = .ok () ↔ GenValid i := by
  induction i using Img.induct' with
  | h s o a b p ch ih =>
    rw [validate_ok_iff]
    constructor
    · rintro ⟨h1, h2, h3⟩
      refine .mk _ ?_ (fun c hc => (ih c hc).1 (h2 c hc).1) ?_ ?_
      · simp only [Img.binary, Img.offset]
        rw [vSelfErr_eq]; simp only [decide_eq_false_iff_not]; omega
      · intro c hc
        have := (h2 c hc).2
        rw [vChildErr_eq]; simp only [decide_eq_false_iff_not]; omega
      · intro x y ca cb hxy hx hy
        have := h3 x y ca cb hxy hx hy
        unfold Ov at this
        rw [vSiblingErr_eq]; simp only [Bool.not_eq_false', decide_eq_true_eq]; omega
    · intro hg
      cases hg with
      | mk _ g1 g2 g3 g4 =>
        simp only [Img.binary, Img.offset] at g1
        simp only [Img.children] at g2 g3 g4
        refine ⟨?_, ?_, ?_⟩
        · rw [vSelfErr_eq] at g1; simp only [decide_eq_false_iff_not] at g1; omega
        · intro c hc
          refine ⟨(ih c hc).2 (g2 c hc), ?_⟩
          have := g3 c hc
          rw [vChildErr_eq] at this; simp only [decide_eq_false_iff_not] at this; omega
        · intro x y ca cb hxy hx hy
          have := g4 x y ca cb hxy hx hy
          rw [vSiblingErr_eq] at this; simp only [Bool.not_eq_false', decide_eq_true_eq] at this
          unfold Ov; omega

/-- `validate()` visits what the model visits: itself, every child recursively and against its parent, every ordered
    pair of different children; all refusals are SPSDK errors -/
theorem validate_shape_generated :
    validateShape = ["child:raises-spsdk", "child:validate-recursively", "self:raises-spsdk", "sibling:raises-spsdk"] := rfl

/-- `add_image`: the model's sorted insert is "before the first child the generated condition holds for, else at the end" -/
theorem add_image_generated (c : Img) (l : List Img) :
    insertSorted c l = insertAt l (firstIdx (fun x => genInsertBefore c.offset x.offset) l) c :=
  insertSorted_eq_gen c l

/-- `append_image`: the offset given is the parent's current length -/
theorem append_image_generated (p c : Img) :
    p.appendImage c = p.addImage (c.withOffset (genAppendOffset p.len).toNat) := by
  simp [Img.appendImage, genAppendOffset]

/-- `min_offset` is the least child offset; `update_offsets` moves it into the image's own offset: every absolute address
    stays, no child offset becomes negative, one becomes 0 -/
theorem update_offsets_generated (off : Int) (kids : List (Int × Int)) (h : kids ≠ []) :
    ∃ m, genMinOffset kids = .ok m ∧
      (∀ k ∈ kids, genUpdSelfOffset off m + genUpdChildOffset k.1 m = off + k.1 ∧ 0 ≤ genUpdChildOffset k.1 m) ∧
      ∃ k ∈ kids, genUpdChildOffset k.1 m = 0 := by
  obtain ⟨m, hm, ⟨k0, hk0, he⟩, hle⟩ := genMinOffset_spec kids h
  refine ⟨m, hm, ?_, ⟨k0, hk0, ?_⟩⟩
  · intro k hk
    have := hle k hk
    simp only [genUpdSelfOffset, genUpdChildOffset]
    omega
  · simp only [genUpdChildOffset]; omega

/-- `load_from_config`: an explicit `offset` of a region - 0 included - is used as it is, for both region kinds … -/
theorem config_offset_explicit_generated (v abs len al : Int) :
    genCfgOffsetFile (some v) abs len al = v ∧ genCfgOffsetBlock (some v) abs len al = v := by
  constructor <;> simp [genCfgOffsetFile, genCfgOffsetBlock]

/-- … and a region without one goes to the current length of the (root) image rounded up to its alignment -/
theorem config_offset_default_generated (len al : Nat) (ha : 0 < al) :
    genCfgOffsetFile none 0 len al = (alignNat len al : Int) ∧ genCfgOffsetBlock none 0 len al = (alignNat len al : Int) := by
  have h := genAlignedLength_eq 0 len al ha
  simp only [Nat.zero_add, Nat.zero_div, Nat.zero_mul, Int.natCast_zero, Int.sub_zero] at h
  constructor
  · rw [← h]; simp [genCfgOffsetFile, genAlignedLength]
  · rw [← h]; simp [genCfgOffsetBlock, genAlignedLength]

/-- `export()`: the model takes the fast path (own binary returned untouched) exactly under the source's condition -/
theorem export_fast_generated (i : Img) :
    i.export = if genExportFast (binTruthy i.binary) (rawLen i.binary) i.len i.size i.children.length = true
      then .ok (i.binary.getD []) else finishExport i.alignment i.pattern (placeChildren i.children (ownBuf i.len i.binary i.pattern)) :=
  export_fast_gen i

/-- HEX / S19: a node hands bincopy first its whole pattern block (whenever it has a pattern and a non-zero length -
    also when it has a binary), then its binary, both at its absolute address with overwrite, then its children -/
theorem save_plan_generated (pat bin : Bool) (binLen len : Int) :
    savePatternWritten pat bin binLen len = (pat && decide (len ≠ 0)) ∧ savePatternSize len = len ∧
    saveBinaryWritten pat bin binLen len = bin ∧
    saveOrder = ["pattern@absolute-address+overwrite", "binary@absolute-address+overwrite", "children"] := by
  refine ⟨?_, ?_, ?_, rfl⟩
  · rw [Bool.eq_iff_iff]; simp [savePatternWritten] <;> omega
  · simp [savePatternSize]
  · rw [Bool.eq_iff_iff]; simp [saveBinaryWritten] <;> omega

/-- the formats of the property and where each goes; what makes a file an ELF file -/
theorem formats_generated :
    formatWriters = [("BIN", "export"), ("HEX", "as_ihex"), ("S19", "as_srec")] ∧
    elfMagic = [0x7f, 0x45, 0x4c, 0x46] ∧ elfSniffLen = elfMagic.length := ⟨rfl, rfl, rfl⟩

example : GenValid exTree := (validate_iff_generated exTree).mp (by decide)
example : genLen 0 true 3 4 [(4, 2), (8, 3)] = .ok 12 := by decide

end SpsdkVerif.C16

/-!
# HEX / S19 of ARBITRARY image trees: bincopy's overwrite path (Model/HexFmtOw.lean, lemmas Proofs/HexFmtOw.lean)

`save_binary_image(.., 'HEX' | 'S19')` hands bincopy, node by node, the pattern block, then the own binary, then the
sub-images, each with `add_binary(.., overwrite=True)`; these writes touch and overlap.  The theorems below are about
the general `_Segments.add(segment, overwrite=True)` / `_Segment.add_data` as written (fast path, linear insert, prepend /
overwrite / append, deletion and merging of following segments), for ALL write sequences, and connect it to the text
round trips above: whatever the tree, what is read back from the written file is, at every address, the last write that
covers it.  Tied to the real code by the `hexfmt_trees` stream.
-/
namespace SpsdkVerif.C16
open SpsdkVerif.HexFmt SpsdkVerif.BinImg

/-- one `add_binary(data, address, overwrite=True)`: for every normal segment list (ascending, strictly separated,
    non-empty - what a `BinFile` holds), every position of bincopy's "current segment" and every non-empty data it
    succeeds, the list stays normal, and every address holds the new data where that lies, the old content elsewhere -/
theorem overwrite_add_spec (st : SegList) (seg : Seg) (hn : Norm st.list) (hcur : st.list = [] ∨ st.cur < st.list.length)
    (hd : seg.data ≠ []) :
    ∃ st', st.addOw seg = .ok st' ∧ Norm st'.list ∧ st'.cur < st'.list.length ∧
      ∀ a, memAt st'.list a = owAt seg (memAt st.list a) a :=
  addOw_spec st seg hn hcur hd

/-- any sequence of overwriting writes into a fresh `BinFile`: never an `AddDataError`, and the memory is "last write wins" -/
theorem overwrite_writes_spec (ws : List Seg) (hw : ∀ w ∈ ws, w.data ≠ []) :
    ∃ st, addAllOw ⟨[], 0⟩ ws = .ok st ∧ Norm st.list ∧ ∀ a, memAt st.list a = memW ws a := by
  obtain ⟨st, h1, h2, _, h4⟩ := addAllOw_spec ws hw ⟨[], 0⟩ norm_nil (Or.inl rfl)
  exact ⟨st, h1, h2, h4⟩

/-- … and when all writes lie in the 32-bit address space the result is a writer input of the round-trip theorems
    above, already merged -/
theorem overwrite_writes_segsOK (ws : List Seg) (hw : ∀ w ∈ ws, w.data ≠ []) (hb : ∀ w ∈ ws, w.addr + w.data.length ≤ 2 ^ 32) :
    ∃ st, addAllOw ⟨[], 0⟩ ws = .ok st ∧ SegsOK st.list ∧ normalize st.list = st.list ∧ (ws ≠ [] → st.list ≠ []) ∧
      ∀ a, memAt st.list a = memW ws a := by
  obtain ⟨st, h1, h2, h4⟩ := overwrite_writes_spec ws hw
  have hbnd := segs_bound ws st.list (2 ^ 32) h2.2 hb h4
  refine ⟨st, h1, ⟨fun s hs => ⟨h2.2 s hs, hbnd s hs⟩, ?_⟩, normalize_of_noAdj _ (norm_noAdj _ h2), ?_, h4⟩
  · exact h2.1.imp (fun h => Nat.le_of_lt h)
  · intro hne hnil
    rcases nil_or_snoc ws with rfl | ⟨pre, w, rfl⟩
    · exact hne rfl
    · have hwl : 0 < w.data.length := List.length_pos_iff.mpr (hw w (by simp))
      have := h4 w.addr
      rw [hnil] at this
      simp only [memW, memWFrom, List.foldl_append, List.foldl_cons, List.foldl_nil] at this
      rw [owAt_eq, if_pos (by omega), List.getElem?_eq_getElem (by omega)] at this
      cases this

/-- Intel-HEX for ANY write plan (touching, overlapping, in any order): the file is written, read back it gives exactly the
    `BinFile`'s segments and start address (also through `load_binary_image`'s sniffing path), and at every address the
    last write that covers it -/
theorem writes_ihex_roundtrip (exec : Option Nat) (ws : List Seg) (hw : ∀ w ∈ ws, w.data ≠ [])
    (hb : ∀ w ∈ ws, w.addr + w.data.length ≤ 2 ^ 32) (he : ∀ e, exec = some e → e < 2 ^ 32) :
    ∃ st text, addAllOw ⟨[], 0⟩ ws = .ok st ∧ ihexEncode exec st.list = .ok text ∧
      ihexDecode text = .ok ⟨st.list, exec⟩ ∧ (ws ≠ [] → loadText text = .ok ⟨st.list, exec⟩) ∧
      ∀ a, memAt st.list a = memW ws a := by
  obtain ⟨st, h1, h2, h3, h4, h5⟩ := overwrite_writes_segsOK ws hw hb
  obtain ⟨text, t1, t2⟩ := ihex_roundtrip exec st.list h2 he
  rw [h3] at t2
  refine ⟨st, text, h1, t1, t2, ?_, h5⟩
  intro hne
  obtain ⟨text', u1, u2⟩ := ihex_load_roundtrip exec st.list h2 (h4 hne) he
  rw [t1] at u1; cases u1
  rw [h3] at u2; exact u2

/-- S-record: the same, under bincopy's record-count limit -/
theorem writes_srec_roundtrip (exec : Option Nat) (ws : List Seg) (hw : ∀ w ∈ ws, w.data ≠ [])
    (hb : ∀ w ∈ ws, w.addr + w.data.length ≤ 2 ^ 32) (he : ∀ e, exec = some e → e < 2 ^ 32)
    (hn : ∀ st, addAllOw ⟨[], 0⟩ ws = .ok st → (st.list.flatMap Seg.chunks).length ≤ 0xffffff) :
    ∃ st text, addAllOw ⟨[], 0⟩ ws = .ok st ∧ srecEncode exec st.list = .ok text ∧
      srecDecode text = .ok ⟨st.list, exec⟩ ∧ (ws ≠ [] → loadText text = .ok ⟨st.list, exec⟩) ∧
      ∀ a, memAt st.list a = memW ws a := by
  obtain ⟨st, h1, h2, h3, h4, h5⟩ := overwrite_writes_segsOK ws hw hb
  have hn' : ((normalize st.list).flatMap Seg.chunks).length ≤ 0xffffff := by rw [h3]; exact hn st h1
  obtain ⟨text, t1, t2⟩ := srec_roundtrip exec st.list h2 he hn'
  rw [h3] at t2
  refine ⟨st, text, h1, t1, t2, ?_, h5⟩
  intro hne
  obtain ⟨text', u1, u2⟩ := srec_load_roundtrip exec st.list h2 (h4 hne) he hn'
  rw [t1] at u1; cases u1
  rw [h3] at u2; exact u2

/-- `save_binary_image(path, 'HEX')` of ANY image tree lying in the 32-bit address space (valid or not, nodes touching or
    overlapping, any patterns / sizes / alignments / nesting): the file is written, and reading it back gives at every
    address the last of the tree's writes (pattern block, own binary, sub-images in order) that covers it -/
theorem save_ihex_roundtrip (exec : Option Nat) (i : Img) (hb : ∀ w ∈ i.savePlan 0, w.addr + w.data.length ≤ 2 ^ 32)
    (he : ∀ e, exec = some e → e < 2 ^ 32) :
    ∃ segs text, i.saveSegs = .ok segs ∧ i.saveIhex exec = .ok text ∧ ihexDecode text = .ok ⟨segs, exec⟩ ∧
      ∀ a, memAt segs a = memW (i.savePlan 0) a := by
  obtain ⟨st, text, h1, h2, h3, _, h5⟩ := writes_ihex_roundtrip exec (i.savePlan 0) (savePlan_nonempty i 0) hb he
  refine ⟨st.list, text, ?_, ?_, h3, h5⟩
  · simp only [Img.saveSegs, h1]
  · simp only [Img.saveIhex, Img.saveSegs, h1, h2]

theorem save_srec_roundtrip (exec : Option Nat) (i : Img) (hb : ∀ w ∈ i.savePlan 0, w.addr + w.data.length ≤ 2 ^ 32)
    (he : ∀ e, exec = some e → e < 2 ^ 32)
    (hn : ∀ segs, i.saveSegs = .ok segs → (segs.flatMap Seg.chunks).length ≤ 0xffffff) :
    ∃ segs text, i.saveSegs = .ok segs ∧ i.saveSrec exec = .ok text ∧ srecDecode text = .ok ⟨segs, exec⟩ ∧
      ∀ a, memAt segs a = memW (i.savePlan 0) a := by
  obtain ⟨st, text, h1, h2, h3, _, h5⟩ := writes_srec_roundtrip exec (i.savePlan 0) (savePlan_nonempty i 0) hb he
    (fun st hst => hn st.list (by simp only [Img.saveSegs, hst]))
  refine ⟨st.list, text, ?_, ?_, h3, h5⟩
  · simp only [Img.saveSegs, h1]
  · simp only [Img.saveSrec, Img.saveSegs, h1, h2]

/-! non-vacuity: a parent with pattern and binary, a child overwriting the middle, a second child touching the first -/
def exOwTree : Img :=
  .mk 12 0x1000 1 (some [1, 2, 3]) (some .ones)
    [.mk 0 2 1 (some [9, 9]) none [], .mk 3 4 1 none (some .inc) []]

example : exOwTree.savePlan 0 = [⟨0x1000, List.replicate 12 0xFF⟩, ⟨0x1000, [1, 2, 3]⟩, ⟨0x1002, [9, 9]⟩, ⟨0x1004, [0, 1, 2]⟩] := by decide
example : exOwTree.saveSegs = .ok [⟨0x1000, [1, 2, 9, 9, 0, 1, 2, 0xFF, 0xFF, 0xFF, 0xFF, 0xFF]⟩] := by decide
example : ∀ w ∈ exOwTree.savePlan 0, w.addr + w.data.length ≤ 2 ^ 32 := by decide
example : Norm [⟨0, [1]⟩, ⟨5, [2, 3]⟩] := ⟨by simp [List.pairwise_cons, Seg.max], by decide⟩
-- prepend + overwrite + append across two segments, one deleted, one merged
example : addAllOw ⟨[], 0⟩ [⟨10, [1, 2]⟩, ⟨20, [3]⟩, ⟨30, [4, 5, 6]⟩, ⟨8, List.replicate 23 7⟩] =
    .ok ⟨[⟨8, List.replicate 23 7 ++ [5, 6]⟩], 0⟩ := by decide
example : exOwTree.export = .ok [1, 2, 9, 9, 0, 1, 2, 0xFF, 0xFF, 0xFF, 0xFF, 0xFF] := by decide

end SpsdkVerif.C16

/-!
# The remaining tree operations (Model/BinImageOps.lean, lemmas Proofs/BinImageOps.lean)

`join_images`, `get_image_by_absolute_address`, `update_offsets` / `min_offset`, `find_sub_image`, and what can be said
about fill patterns that have no deterministic model (`rand`): lengths and validation never look at a pattern.
Tied to the real objects by the `tree_ops` stream.
-/
namespace SpsdkVerif.C16
open SpsdkVerif SpsdkVerif.BinImg SpsdkVerif.Misc SpsdkVerif.Generated.BinImageGeo

/-- `join_images` preserves the export: a valid tree becomes one leaf with the same length whose export is, byte for byte,
    the export of the tree, and which still validates -/
theorem join_images_preserves_export (i : Img) (hv : i.validate = .ok ()) (ha : AlignWF i) :
    ∃ b j, i.export = .ok b ∧ i.joinImages = .ok j ∧ j.children = [] ∧ j.len = i.len ∧ j.offset = i.offset ∧
      j.export = .ok b ∧ j.validate = .ok () := by
  obtain ⟨b, hb, hl⟩ := export_length i hv ha
  have h0 : 0 < i.alignment := by cases ha with | mk _ h1 _ _ => exact h1
  obtain ⟨j1, j2, j3, j4⟩ := joinImages_spec i b h0 hb hl
  exact ⟨b, _, hb, j1, rfl, j2, rfl, j3, j4⟩

/-- … and it fails exactly when `export()` fails (the object is then left as it was) -/
theorem join_images_error (i : Img) (e : PyErr) : i.joinImages = .error e ↔ i.export = .error e :=
  joinImages_error i e

/-- `get_image_by_absolute_address` (as repaired by e6ec992, `>=`): the image returned is a descendant reached through the
    returned path, at the returned offset, and it CONTAINS the address - full strength -/
theorem get_by_address_sound (i : Img) (addr : Nat) (path : List Nat) (o : Nat) (d : Img)
    (h : i.getByAddr addr = .ok (path, o, d)) :
    SubAt i o d ∧ atPath path i = some d ∧ pathOffset path i = o ∧ i.offset + o ≤ addr ∧ addr < i.offset + o + d.len :=
  getByAddr_sound i addr path o d h

/-- the image found contains the address (formerly `_partial`, with the hypothesis "not the end address of the image found";
    the hypothesis is gone with the repair) -/
theorem get_by_address_contains (i : Img) (addr : Nat) (path : List Nat) (o : Nat) (d : Img)
    (h : i.getByAddr addr = .ok (path, o, d)) : i.offset + o ≤ addr ∧ addr < i.offset + o + d.len :=
  (getByAddr_sound i addr path o d h).2.2.2

/-- what the repair changed, exactly: the pre-fix search (`getByAddrLax`, `>`) and the present one agree on an address unless
    it is the END address of the image the pre-fix search stopped at -/
theorem get_by_address_strict_iff (i : Img) (addr : Nat) (path : List Nat) (off : Nat) (d : Img)
    (h : i.getByAddrLax addr = .ok (path, off, d)) :
    i.getByAddr addr = .ok (path, off, d) ↔ addr ≠ i.offset + off + d.len :=
  getByAddrLax_strict_iff i addr path off d h

/-- it refuses only addresses outside the root (`[offset, offset + len)`), only with an SPSDK error, and answers every
    address inside the root -/
theorem get_by_address_error (i : Img) (addr : Nat) (e : PyErr) (h : i.getByAddr addr = .error e) :
    e = .spsdk ∧ (addr < i.offset ∨ i.offset + i.len ≤ addr) :=
  getByAddr_error i addr e h

theorem get_by_address_total (i : Img) (addr : Nat) (h1 : i.offset ≤ addr) (h2 : addr < i.offset + i.len) :
    ∃ r, i.getByAddr addr = .ok r :=
  getByAddr_ok_of_range i addr h1 h2

/-- the reachability relation of `get_image_by_absolute_address` is the one of `export_desc_at`: the bytes of the image
    found sit at the returned offset of the root's export -/
theorem subAt_descAt (i d : Img) (o : Nat) (h : SubAt i o d) : DescAt i o d := by
  induction h with
  | self i => exact .self i
  | step i c d o hc _ ih => exact .step i c d o hc ih

theorem get_by_address_export (i d : Img) (addr : Nat) (path : List Nat) (o : Nat) (b bd : Bytes)
    (hv : i.validate = .ok ()) (ha : AlignWF i) (h : i.getByAddr addr = .ok (path, o, d))
    (hb : i.export = .ok b) (hbd : d.export = .ok bd) : (b.drop o).take bd.length = bd :=
  export_desc_at i d o b bd hv ha (subAt_descAt i d o (getByAddr_sound i addr path o d h).1) hb hbd

/-- `update_offsets`: with at least one sub-image it succeeds, the least child offset moves into the image's own offset,
    every sub-image keeps its absolute address, length, content, export and validation verdict, the least child offset
    becomes 0 and the order is kept; without sub-images `min([])` raises -/
theorem update_offsets_spec (i : Img) (hne : i.children ≠ []) :
    ∃ m j, minOffset i.children = some m ∧ i.updateOffsets = .ok j ∧ j.offset = i.offset + m ∧
      j.children.length = i.children.length ∧
      (∀ (k : Nat) (c : Img), i.children[k]? = some c → ∃ c' : Img, j.children[k]? = some c' ∧ c'.offset + m = c.offset ∧
        j.offset + c'.offset = i.offset + c.offset ∧ c'.len = c.len ∧ c'.export = c.export ∧ c'.validate = c.validate) ∧
      minOffset j.children = some 0 := by
  obtain ⟨m, j, h1, h2, h3, _, _, _, _, h4, h5, h6, _⟩ := updateOffsets_spec i hne
  refine ⟨m, j, h1, h2, h3, h4, ?_, h6⟩
  intro k c hk
  obtain ⟨c', a1, a2, a3, a4, _, a6, a7⟩ := h5 k c hk
  exact ⟨c', a1, a2, a3, a4, a6, a7⟩

theorem update_offsets_error (i : Img) : (∃ e, i.updateOffsets = .error e) ↔ i.children = [] :=
  updateOffsets_error i

/-- the `size` setter and the constructor agree, as the source has them NOW (both generated from images.py): each stores
    the value rounded up to the alignment, which is what the model's `setSize` stores (false for seeded change C16g) -/
theorem set_size_agrees_with_constructor (i : Img) (n : Nat) (ha : 0 < i.alignment) :
    genSetSize n i.alignment = genCtorSize n i.alignment ∧ genSetSize n i.alignment = .ok ((i.setSize n).size : Int) ∧
      (i.setSize n).size % i.alignment = 0 := by
  cases i with
  | mk s o a b p ch =>
    simp only [Img.alignment, Img.setSize, Img.size] at ha ⊢
    exact ⟨by rw [genSetSize_eq n a ha, genCtorSize_eq n a ha], genSetSize_eq n a ha, (alignNat_spec n a ha).1⟩

/-- after `image.size = n` (any `n`, multiple of the alignment or not) the image is as well-formed as a constructed one:
    its reported length is a multiple of the alignment, and when it validates it exports exactly `len()` bytes -/
theorem set_size_export_length (i : Img) (n : Nat) (ha : 0 < i.alignment) (hc : ∀ c ∈ i.children, AlignWF c)
    (hv : (i.setSize n).validate = .ok ()) :
    AlignWF (i.setSize n) ∧ (i.setSize n).len % i.alignment = 0 ∧
      ∃ b, (i.setSize n).export = .ok b ∧ b.length = (i.setSize n).len := by
  have hw : AlignWF (i.setSize n) := by
    cases i with
    | mk s o a b p ch =>
      simp only [Img.alignment, Img.children] at ha hc
      exact .mk _ ha (alignNat_spec n a ha).1 hc
  have hal : (i.setSize n).alignment = i.alignment := by cases i; rfl
  refine ⟨hw, ?_, export_length _ hv hw⟩
  rw [← hal]; exact len_aligned _ hw

/-- a non-zero assigned size is the reported length -/
theorem set_size_len (i : Img) (n : Nat) (ha : 0 < i.alignment) (hn : 0 < n) : (i.setSize n).len = alignNat n i.alignment := by
  cases i with
  | mk s o a b p ch =>
    simp only [Img.alignment] at ha
    have := (alignNat_spec n a ha).2.1
    simp only [Img.setSize, Img.len, Img.alignment]
    rw [if_pos (by omega)]

example : ((Img.mk 0 0 4 (some [1, 2, 3, 4, 5]) (some .ones) []).setSize 7).export = .ok [1, 2, 3, 4, 5, 0xFF, 0xFF, 0xFF] ∧
    ((Img.mk 0 0 4 (some [1, 2, 3, 4, 5]) (some .ones) []).setSize 7).validate = .ok () := by decide

/-- `find_sub_image`: the first sub-image with that name, an error exactly when there is none -/
theorem find_sub_image_spec (names : List String) (name : String) :
    (∀ k, findSub names name = some k → names[k]? = some name ∧ ∀ j, j < k → names[j]? ≠ some name) ∧
    (findSub names name = none ↔ name ∉ names) :=
  ⟨fun k h => findSub_some names name k h, findSub_none names name⟩

/-- fill patterns (incl. `rand`, which has no deterministic model): two trees that differ only in their patterns have the
    same length, the same validation verdict, and exports of the same length -/
theorem pattern_independence (i j : Img) (h : i.erasePat = j.erasePat) :
    i.len = j.len ∧ i.validate = j.validate ∧
      ∀ bi bj, i.export = .ok bi → j.export = .ok bj → bi.length = bj.length :=
  ⟨len_pattern_indep i j h, validate_pattern_indep i j h, fun bi bj hi hj => export_length_pattern_indep i j bi bj h hi hj⟩

example : exTree.children ≠ [] := by decide
example : ∃ r, exTree.getByAddr 9 = .ok r := getByAddr_ok_of_range exTree 9 (by decide) (by decide)
example : (Img.mk 0 0 4 (some [1]) (some .ones) []).erasePat = (Img.mk 0 0 4 (some [1]) (some .inc) []).erasePat := by
  simp [Img.erasePat, erasePatList]

end SpsdkVerif.C16
