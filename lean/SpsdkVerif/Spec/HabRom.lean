/-
C07 — independent, ROM-side reading of a HAB4 container (i.MX RT10xx/11xx), written from the format description
(HAB4 API / CST user guide as summarised in the SPSDK doc-strings), NOT from the builder model: it shares no
definition with `Model/Hab.lean` except `Bytes` and the integer codecs of `Model/Misc.lean`.

`habCheck img dek` takes the exported container (first byte = IVT) and answers either a reason for refusal or a
report with
  * the message the Authenticate-CSF signature has to cover (CSF header + commands, exactly),
  * the message the Authenticate-Data signature has to cover (the listed blocks, concatenated, exactly),
  * the plaintext obtained by AES-CCM decryption of the Decrypt-Data blocks (DEK given from outside; nonce and MAC
    from the CSF),
and it refuses unless
  * every IVT pointer designates the position where the structure really is, the boot-data length equals the real
    size (plus the key blob behind the CSF for encrypted images), the DEK blob is located directly behind the CSF,
  * every block of the Authenticate/Decrypt commands lies inside the image before the CSF, the blocks are pairwise
    disjoint, and together they contain the IVT, the boot data, the DCD (length from its header), the XMCD block
    (length from its header) and EVERY non-zero byte of the image before the CSF (so: the whole application),
  * every command-data reference (SRK table, certificates, signatures, MAC) lies inside the CSF behind the commands,
    is 4-aligned, carries the right tag and the referenced blocks do not overlap,
  * the key slots are used consistently (SRK -> slot 0, CSFK verified by slot 0 into slot 1, CSF authenticated with
    slot 1, image key verified by slot 0, data authenticated with an installed image key, decrypt key = installed secret key).
Signature verification itself (CMS / X.509 / RSA / ECDSA) is done by the harness with `cryptography` / `asn1crypto`.
-/
import SpsdkVerif.Model.Misc
import SpsdkVerif.Crypto.Modes

namespace SpsdkVerif.Spec.HabRom
open SpsdkVerif SpsdkVerif.Misc

abbrev Bytes := SpsdkVerif.Misc.Bytes

def sub (b : Bytes) (off len : Nat) : Bytes := (b.drop off).take len

def u32le (b : Bytes) (off : Nat) : Except String Nat :=
  let s := sub b off 4
  if s.length = 4 then .ok (leDec s) else .error s!"short read (le32 at {off})"
def u32be (b : Bytes) (off : Nat) : Except String Nat :=
  let s := sub b off 4
  if s.length = 4 then .ok (beDec s) else .error s!"short read (be32 at {off})"
def u8at (b : Bytes) (off : Nat) : Except String Nat :=
  match b[off]? with
  | some x => .ok x.toNat
  | none => .error s!"short read (byte at {off})"
def u16be (b : Bytes) (off : Nat) : Except String Nat := do
  let a ← u8at b off
  let c ← u8at b (off + 1)
  pure (a * 256 + c)

/-- one CSF command as the ROM sees it -/
inductive RCmd where
  | insKey (flags proto alg src tgt loc : Nat)
  | autDat (flags key proto eng cfg loc : Nat) (blocks : List (Nat × Nat))
  | other (tag len : Nat)
  deriving Repr

def readBlocks (csf : Bytes) : Nat → Nat → Except String (List (Nat × Nat))
  | 0, _ => .ok []
  | n + 1, off => do
    let a ← u32be csf off
    let s ← u32be csf (off + 4)
    let r ← readBlocks csf n (off + 8)
    pure ((a, s) :: r)

/-- commands from `off` up to `stop` (fuel = number of bytes left) -/
def readCmds (csf : Bytes) : Nat → Nat → Nat → Except String (List RCmd)
  | 0, _, _ => .ok []
  | fuel + 1, off, stop =>
    if off ≥ stop then .ok [] else do
      let tag ← u8at csf off
      let len ← u16be csf (off + 1)
      let par ← u8at csf (off + 3)
      if len < 4 ∨ len % 4 ≠ 0 ∨ off + len > stop then throw s!"command at {off}: bad length {len}"
      let c ← (if tag = 0xBE then do
                  if len ≠ 12 then throw s!"Install Key at {off}: length {len}"
                  let proto ← u8at csf (off + 4)
                  let alg ← u8at csf (off + 5)
                  let src ← u8at csf (off + 6)
                  let tgt ← u8at csf (off + 7)
                  let loc ← u32be csf (off + 8)
                  pure (RCmd.insKey par proto alg src tgt loc)
                else if tag = 0xCA then do
                  if len < 12 ∨ (len - 12) % 8 ≠ 0 then throw s!"Authenticate Data at {off}: length {len}"
                  let key ← u8at csf (off + 4)
                  let proto ← u8at csf (off + 5)
                  let eng ← u8at csf (off + 6)
                  let cfg ← u8at csf (off + 7)
                  let loc ← u32be csf (off + 8)
                  let bl ← readBlocks csf ((len - 12) / 8) (off + 12)
                  pure (RCmd.autDat par key proto eng cfg loc bl)
                else if tag = 0xB1 ∨ tag = 0xB2 ∨ tag = 0xB4 ∨ tag = 0xC0 ∨ tag = 0xCC ∨ tag = 0xCF then
                  pure (RCmd.other tag len)
                else throw s!"unknown command tag {tag} at {off}")
      let r ← readCmds csf fuel (off + len) stop
      pure (c :: r)

/-- a command-data block inside the CSF: `(offset, length)`; checks tag, alignment, position -/
def dataRef (csf : Bytes) (hdrLen : Nat) (loc : Nat) (tag : Nat) (what : String) : Except String (Nat × Nat) := do
  if loc < hdrLen then throw s!"{what}: data reference {loc} points into the commands"
  if loc % 4 ≠ 0 then throw s!"{what}: data reference {loc} not 4-aligned"
  let t ← u8at csf loc
  let len ← u16be csf (loc + 1)
  if t ≠ tag then throw s!"{what}: tag {t} at {loc}, expected {tag}"
  if len < 4 ∨ loc + len > csf.length then throw s!"{what}: block at {loc} length {len} outside the CSF"
  pure (loc, len)

def disjoint (rs : List (Nat × Nat)) : Bool :=
  match rs with
  | [] => true
  | (a, l) :: r => r.all (fun (b, m) => a + l ≤ b || b + m ≤ a || l = 0 || m = 0) && disjoint r

def covered (blocks : List (Nat × Nat)) (off len : Nat) : Bool :=
  -- [off, off+len) inside ONE block (segments are never split by the builder; splitting would still be sound but is refused)
  len = 0 || blocks.any (fun (a, l) => a ≤ off && off + len ≤ a + l)

/-- every non-zero byte of `img[0:stop]` lies in a block -/
def nonzeroCovered (img : Bytes) (blocks : List (Nat × Nat)) (stop : Nat) : Bool :=
  let rec go (i : Nat) : Bytes → Bool
    | [] => true
    | x :: r => if i ≥ stop then true
                else (x == 0 || blocks.any (fun (a, l) => a ≤ i && i < a + l)) && go (i + 1) r
  go 0 img

def gather (img : Bytes) : List (Nat × Nat) → Bytes
  | [] => []
  | (a, l) :: r => sub img a l ++ gather img r

structure Report where
  ivtSelf : Nat
  start : Nat
  csfOff : Nat                          -- 0: no CSF
  hdrLen : Nat
  srk : Option (Nat × Nat × Nat)        -- offset, length of the SRK table in the CSF, source index
  csfCert : Option (Nat × Nat)
  csfSig : Option (Nat × Nat)
  imgCert : Option (Nat × Nat)
  dataSig : Option (Nat × Nat)
  msgCsf : Bytes
  msgData : Bytes
  authBlocks : List (Nat × Nat)         -- image offsets
  decBlocks : List (Nat × Nat)
  nonce : Bytes
  mac : Bytes
  plain : Option Bytes
  deriving Repr

def habCheck (c : Crypto.CryptoOps) (img : Bytes) (dek : Option Bytes) : Except String Report := do
  -- IVT
  let tag ← u8at img 0
  let ilen ← u16be img 1
  let ver ← u8at img 3
  if tag ≠ 0xD1 ∨ ilen ≠ 32 ∨ ver / 16 ≠ 4 then throw s!"IVT header {tag} {ilen} {ver}"
  let entry ← u32le img 4
  let dcd ← u32le img 12
  let bdp ← u32le img 16
  let self ← u32le img 20
  let csf ← u32le img 24
  if bdp ≠ self + 32 then throw s!"boot data pointer {bdp} is not IVT+32"
  let start ← u32le img 32
  let blen ← u32le img 36
  let plugin ← u32le img 40
  if plugin ≠ 0 then throw "plugin flag set"
  if start > self then throw "image start behind the IVT"
  let ivtOff := self - start
  -- DCD / XMCD extents from their own headers
  let dcdLen ← (if dcd = 0 then pure 0 else do
      if dcd ≠ self + 64 then throw s!"DCD pointer {dcd} is not IVT+64"
      let t ← u8at img 64
      if t ≠ 0xD2 then throw s!"no DCD header where the IVT points (tag {t})"
      u16be img 65)
  let xb ← (if img.length ≥ 68 then u8at img 67 else pure 0)
  let xmcdLen ← (if dcd = 0 ∧ xb = 0xC0 then do
      let lo ← u8at img 64
      let hi ← u8at img 65
      pure ((hi % 16) * 256 + lo) else pure 0)
  if csf = 0 then
    if blen ≠ ivtOff + img.length then throw s!"boot data length {blen}, real size {ivtOff + img.length}"
    if entry < self ∨ entry ≥ self + img.length then throw "entry point outside the image"
    return { ivtSelf := self, start := start, csfOff := 0, hdrLen := 0, srk := none, csfCert := none, csfSig := none,
             imgCert := none, dataSig := none, msgCsf := [], msgData := [], authBlocks := [], decBlocks := [],
             nonce := [], mac := [], plain := none }
  -- CSF
  if csf < self + 64 then throw "CSF pointer inside IVT/boot data"
  let csfOff := csf - self
  let region := sub img csfOff 0x2000
  if csfOff + 0x2000 ≠ img.length then throw s!"CSF at {csfOff} does not end the image ({img.length})"
  let ct ← u8at region 0
  let hdrLen ← u16be region 1
  let cver ← u8at region 3
  if ct ≠ 0xD4 ∨ cver / 16 ≠ 4 ∨ hdrLen < 4 then throw s!"CSF header {ct} {hdrLen} {cver}"
  let cmds ← readCmds region hdrLen 4 hdrLen
  -- walk the commands with a key store: slot -> 0 SRK, 1 CSFK, 2 image key, 3 secret key
  let mut slots : List (Nat × Nat) := []
  let mut srk : Option (Nat × Nat × Nat) := none
  let mut csfCert : Option (Nat × Nat) := none
  let mut imgCert : Option (Nat × Nat) := none
  let mut csfSig : Option (Nat × Nat) := none
  let mut dataSig : Option (Nat × Nat) := none
  let mut macRef : Option (Nat × Nat) := none
  let mut auth : List (Nat × Nat) := []
  let mut dec : List (Nat × Nat) := []
  let mut refs : List (Nat × Nat) := []
  let mut secretLoc : Option Nat := none
  for cmd in cmds do
    match cmd with
    | .insKey flags proto _alg src tgt loc =>
      if proto = 0x03 then            -- SRK table
        if flags ≠ 0 ∨ tgt ≠ 0 ∨ src > 3 then throw s!"Install SRK: flags {flags} source {src} target {tgt}"
        if srk.isSome then throw "two Install SRK commands"
        let r ← dataRef region hdrLen loc 0xD7 "SRK table"
        srk := some (r.1, r.2, src); refs := r :: refs; slots := (0, 0) :: slots
      else if proto = 0x09 then       -- X.509 certificate
        let r ← dataRef region hdrLen loc 0xD7 "certificate"
        if !(slots.any (· == (src, 0))) then throw s!"Install Key: verification key slot {src} holds no SRK"
        if flags = 2 then
          if tgt ≠ 1 then throw s!"Install CSFK into slot {tgt}"
          csfCert := some r; slots := (1, 1) :: slots
        else if flags = 0 then
          if tgt < 2 ∨ tgt > 5 then throw s!"Install Key into slot {tgt}"
          if csfSig.isNone then throw "Install Key before Authenticate CSF"
          imgCert := some r; slots := (tgt, 2) :: slots
        else throw s!"Install Key flags {flags}"
        refs := r :: refs
      else if proto = 0xBB then       -- wrapped secret key (DEK blob), absolute address
        if flags ≠ 1 then throw s!"Install Secret Key flags {flags}"
        if src > 3 ∨ tgt > 3 then throw s!"Install Secret Key: KEK {src} target {tgt}"
        secretLoc := some loc; slots := (tgt, 3) :: slots
      else throw s!"Install Key protocol {proto}"
    | .autDat flags key proto _eng _cfg loc blocks =>
      if flags ≠ 0 then throw s!"Authenticate Data flags {flags}"
      -- blocks as image offsets
      let mut offs : List (Nat × Nat) := []
      for (a, l) in blocks do
        if a < self ∨ a + l > csf then throw s!"block {a}+{l} outside the image before the CSF"
        offs := offs ++ [(a - self, l)]
      if proto = 0xC5 then
        let r ← dataRef region hdrLen loc 0xD8 "signature"
        refs := r :: refs
        if blocks.isEmpty then
          if key ≠ 1 ∨ !(slots.any (· == (1, 1))) then throw s!"Authenticate CSF with key slot {key}"
          if csfSig.isSome then throw "two Authenticate CSF commands"
          csfSig := some r
        else
          if csfSig.isNone then throw "Authenticate Data before Authenticate CSF"
          if !(slots.any (· == (key, 2))) then throw s!"Authenticate Data: key slot {key} holds no image key"
          if dataSig.isSome then throw "two Authenticate Data commands"
          dataSig := some r; auth := offs
      else if proto = 0xA3 then
        let r ← dataRef region hdrLen loc 0xAC "MAC"
        refs := r :: refs
        if !(slots.any (· == (key, 3))) then throw s!"Decrypt Data: key slot {key} holds no secret key"
        if blocks.isEmpty then throw "Decrypt Data without blocks"
        if macRef.isSome then throw "two Decrypt Data commands"
        macRef := some r; dec := offs
      else throw s!"Authenticate Data protocol {proto}"
    | .other _ _ => pure ()
  if csfSig.isNone then throw "no Authenticate CSF command"
  if dataSig.isNone then throw "no Authenticate Data command"
  if !disjoint refs then throw "command data blocks overlap"
  let all := auth ++ dec
  if !disjoint all then throw s!"authenticated / decrypted blocks overlap: {all}"
  if !covered all 0 64 then throw s!"IVT + boot data not covered by {all}"
  if !covered all 64 dcdLen then throw s!"DCD (64+{dcdLen}) not covered by {all}"
  if !covered all 64 xmcdLen then throw s!"XMCD (64+{xmcdLen}) not covered by {all}"
  if !nonzeroCovered img all csfOff then throw s!"a non-zero byte before the CSF is in no authenticated / decrypted block {all}"
  if entry < self ∨ !(all.any (fun (a, l) => a ≤ entry - self && entry - self < a + l)) then
    throw "entry point not inside an authenticated / decrypted block"
  -- sizes
  let blob := if macRef.isSome then 0x200 else 0
  if blen ≠ ivtOff + img.length + blob then throw s!"boot data length {blen}, real size {ivtOff + img.length} + key blob {blob}"
  match secretLoc, macRef with
  | some l, some _ => if l ≠ csf + 0x2000 then throw s!"DEK blob location {l} is not directly behind the CSF ({csf + 0x2000})"
  | none, some _ => throw "Decrypt Data without Install Secret Key"
  | _, none => pure ()
  -- MAC / decryption
  let (nonce, mac) ← (match macRef with
    | none => pure (([] : Bytes), ([] : Bytes))
    | some (o, l) => do
      let nl ← u8at region (o + 5)
      let ml ← u8at region (o + 7)
      if l ≠ 8 + nl + ml then throw s!"MAC block length {l} vs nonce {nl} + mac {ml}"
      if ml < 4 ∨ ml > 16 ∨ ml % 2 ≠ 0 ∨ nl < 7 ∨ nl > 13 then throw s!"MAC parameters nonce {nl} mac {ml}"
      pure (sub region (o + 8) nl, sub region (o + 8 + nl) ml))
  let plain ← (match macRef, dek with
    | some _, some k =>
      match Crypto.ccmDec c k nonce [] mac.length (gather img dec ++ mac) with
      | some p => pure (some p)
      | none => throw "AES-CCM tag mismatch: the listed blocks do not decrypt under DEK / nonce / MAC"
    | _, _ => pure none)
  return { ivtSelf := self, start := start, csfOff := csfOff, hdrLen := hdrLen, srk := srk, csfCert := csfCert,
           csfSig := csfSig, imgCert := imgCert, dataSig := dataSig, msgCsf := region.take hdrLen,
           msgData := gather img auth, authBlocks := auth, decBlocks := dec, nonce := nonce, mac := mac, plain := plain }

end SpsdkVerif.Spec.HabRom
