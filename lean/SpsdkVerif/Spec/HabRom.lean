/-
C07 — independent, ROM-side reading of a HAB4 container (i.MX RT10xx/11xx), written from the format description
(HAB4 API / CST user guide as summarised in the SPSDK doc-strings), NOT from the builder model: it shares no
definition with `Model/Hab.lean` except `Bytes` and the integer codecs of `Model/Misc.lean`.

`habCheck c img dek` takes the exported container (first byte = IVT) and answers either a reason for refusal or a
report with
  * the message the Authenticate-CSF signature has to cover (CSF header + commands, exactly),
  * the message the Authenticate-Data signature has to cover (the listed blocks, concatenated, exactly),
  * the plaintext obtained by AES-CCM decryption of the Decrypt-Data blocks (DEK given from outside; nonce and MAC
    from the CSF),
and it refuses unless
  * every IVT pointer designates the position where the structure really is, the boot-data length equals the real
    size (plus the key blob behind the CSF for encrypted images), the DEK blob is located directly behind the CSF,
  * every block of the Authenticate/Decrypt commands lies inside the image before the CSF, the blocks are pairwise
    disjoint, and together they contain the IVT, the boot data, the DCD (length from its header), the XMCD block
    (length from its header) and EVERY non-zero byte of the image before the CSF (so: the whole application),
  * every command-data reference (SRK table, certificates, signatures, MAC) lies inside the CSF behind the commands,
    is 4-aligned, carries the right tag and the referenced blocks do not overlap,
  * the key slots are used consistently (SRK -> slot 0, CSFK verified by slot 0 into slot 1, CSF authenticated with
    slot 1, image key verified by slot 0, data authenticated with an installed image key, decrypt key = installed secret key;
    or HAB4 fast authentication: no certificate installed, CSF authenticated with index 1 and data with index 0 = the SRK).
Signature verification itself (CMS / X.509 / RSA / ECDSA) is done by the harness with `cryptography` / `asn1crypto`.

Written without loops / mutable variables (explicit `bindE` / `chk` combinators, structural recursion) so that
`Properties/C07.lean: rom_accepts` can be proved about it.
-/
import SpsdkVerif.Model.Misc
import SpsdkVerif.Crypto.Modes

namespace SpsdkVerif.Spec.HabRom
open SpsdkVerif SpsdkVerif.Misc

abbrev Bytes := SpsdkVerif.Misc.Bytes
abbrev R (α : Type) := Except String α

/-- sequencing -/
def bindE {α β : Type} (x : R α) (f : α → R β) : R β :=
  match x with
  | .ok a => f a
  | .error e => .error e
/-- continue with `k` when `c` holds, else refuse with `msg` -/
def chk {α : Type} (c : Bool) (msg : String) (k : R α) : R α := if c then k else .error msg

def sub (b : Bytes) (off len : Nat) : Bytes := (b.drop off).take len

def rdN (dec : Bytes → Nat) (b : Bytes) (off n : Nat) : R Nat :=
  if (sub b off n).length = n then .ok (dec (sub b off n)) else .error s!"short read ({n} bytes at {off})"
def u8at (b : Bytes) (off : Nat) : R Nat := rdN beDec b off 1
def u16be (b : Bytes) (off : Nat) : R Nat := rdN beDec b off 2
def u32be (b : Bytes) (off : Nat) : R Nat := rdN beDec b off 4
def u32le (b : Bytes) (off : Nat) : R Nat := rdN leDec b off 4

/-- one CSF command as the ROM sees it -/
inductive RCmd where
  | insKey (flags proto alg src tgt loc : Nat)
  | autDat (flags key proto eng cfg loc : Nat) (blocks : List (Nat × Nat))
  | other (tag len : Nat)
  deriving Repr, DecidableEq

def readBlocks (csf : Bytes) : Nat → Nat → R (List (Nat × Nat))
  | 0, _ => .ok []
  | n + 1, off =>
    bindE (u32be csf off) fun a =>
    bindE (u32be csf (off + 4)) fun s =>
    bindE (readBlocks csf n (off + 8)) fun r =>
    .ok ((a, s) :: r)

def isOtherTag (tag : Nat) : Bool :=
  tag == 0xB1 || tag == 0xB2 || tag == 0xB4 || tag == 0xC0 || tag == 0xCC || tag == 0xCF

/-- the command at `off` (header already read) -/
def readCmd (csf : Bytes) (off tag len par : Nat) : R RCmd :=
  if tag = 0xBE then
    chk (len == 12) s!"Install Key at {off}: length {len}" <|
    bindE (u8at csf (off + 4)) fun proto =>
    bindE (u8at csf (off + 5)) fun alg =>
    bindE (u8at csf (off + 6)) fun src =>
    bindE (u8at csf (off + 7)) fun tgt =>
    bindE (u32be csf (off + 8)) fun loc =>
    .ok (.insKey par proto alg src tgt loc)
  else if tag = 0xCA then
    chk (decide (12 ≤ len) && (len - 12) % 8 == 0) s!"Authenticate Data at {off}: length {len}" <|
    bindE (u8at csf (off + 4)) fun key =>
    bindE (u8at csf (off + 5)) fun proto =>
    bindE (u8at csf (off + 6)) fun eng =>
    bindE (u8at csf (off + 7)) fun cfg =>
    bindE (u32be csf (off + 8)) fun loc =>
    bindE (readBlocks csf ((len - 12) / 8) (off + 12)) fun bl =>
    .ok (.autDat par key proto eng cfg loc bl)
  else chk (isOtherTag tag) s!"unknown command tag {tag} at {off}" (.ok (.other tag len))

/-- commands from `off` up to `stop` (fuel = upper bound on their number) -/
def readCmds (csf : Bytes) : Nat → Nat → Nat → R (List RCmd)
  | 0, _, _ => .ok []
  | fuel + 1, off, stop =>
    if off ≥ stop then .ok [] else
    bindE (u8at csf off) fun tag =>
    bindE (u16be csf (off + 1)) fun len =>
    bindE (u8at csf (off + 3)) fun par =>
    chk (decide (4 ≤ len) && len % 4 == 0 && decide (off + len ≤ stop)) s!"command at {off}: bad length {len}" <|
    bindE (readCmd csf off tag len par) fun c =>
    bindE (readCmds csf fuel (off + len) stop) fun r =>
    .ok (c :: r)

/-- a command-data block inside the CSF: `(offset, length)`; checks tag, alignment, position -/
def dataRef (csf : Bytes) (hdrLen : Nat) (loc : Nat) (tag : Nat) (what : String) : R (Nat × Nat) :=
  chk (decide (hdrLen ≤ loc)) s!"{what}: data reference {loc} points into the commands" <|
  chk (loc % 4 == 0) s!"{what}: data reference {loc} not 4-aligned" <|
  bindE (u8at csf loc) fun t =>
  bindE (u16be csf (loc + 1)) fun len =>
  chk (t == tag) s!"{what}: tag {t} at {loc}, expected {tag}" <|
  chk (decide (4 ≤ len) && decide (loc + len ≤ csf.length)) s!"{what}: block at {loc} length {len} outside the CSF" <|
  .ok (loc, len)

def disjoint : List (Nat × Nat) → Bool
  | [] => true
  | (a, l) :: r => r.all (fun (b, m) => a + l ≤ b || b + m ≤ a || l == 0 || m == 0) && disjoint r

/-- `[off, off+len)` inside ONE block (segments are never split by the builder; splitting would still be sound but is refused) -/
def covered (blocks : List (Nat × Nat)) (off len : Nat) : Bool :=
  len == 0 || blocks.any (fun (a, l) => a ≤ off && off + len ≤ a + l)

def inBlocks (blocks : List (Nat × Nat)) (i : Nat) : Bool := blocks.any (fun (a, l) => a ≤ i && i < a + l)

/-- every non-zero byte of the list (whose first byte has index `i`) below `stop` lies in a block -/
def nzCov (blocks : List (Nat × Nat)) (stop : Nat) : Nat → Bytes → Bool
  | _, [] => true
  | i, x :: r => (decide (stop ≤ i) || x == 0 || inBlocks blocks i) && nzCov blocks stop (i + 1) r

def gather (img : Bytes) : List (Nat × Nat) → Bytes
  | [] => []
  | (a, l) :: r => sub img a l ++ gather img r

/-- blocks given as addresses -> image offsets; each must lie in `[self, csf)` -/
def toOffsets (self csf : Nat) : List (Nat × Nat) → R (List (Nat × Nat))
  | [] => .ok []
  | (a, l) :: r =>
    chk (decide (self ≤ a) && decide (a + l ≤ csf)) s!"block {a}+{l} outside the image before the CSF" <|
    bindE (toOffsets self csf r) fun t => .ok ((a - self, l) :: t)

/-- state of the walk over the commands: key store (slot, kind: 0 SRK, 1 CSFK, 2 image key, 3 secret key) and what was found -/
structure Walk where
  slots : List (Nat × Nat) := []
  srk : Option (Nat × Nat × Nat) := none       -- offset, length of the SRK table in the CSF, source index
  csfCert : Option (Nat × Nat) := none
  imgCert : Option (Nat × Nat) := none
  csfSig : Option (Nat × Nat) := none
  dataSig : Option (Nat × Nat) := none
  macRef : Option (Nat × Nat) := none
  auth : List (Nat × Nat) := []
  dec : List (Nat × Nat) := []
  refs : List (Nat × Nat) := []
  secretLoc : Option Nat := none
  deriving Repr

def hasSlot (w : Walk) (slot kind : Nat) : Bool := w.slots.any (· == (slot, kind))

/-- HAB4 fast authentication: the SRK is installed and no CSF / image key certificate is (the SRK itself signs) -/
def fastAuth (w : Walk) : Bool := hasSlot w 0 0 && w.csfCert.isNone && w.imgCert.isNone

def stepCmd (region : Bytes) (hdrLen self csf : Nat) (w : Walk) : RCmd → R Walk
  | .insKey flags proto _alg src tgt loc =>
    if proto = 0x03 then            -- SRK table
      chk (flags == 0 && tgt == 0 && decide (src ≤ 3)) s!"Install SRK: flags {flags} source {src} target {tgt}" <|
      chk w.srk.isNone "two Install SRK commands" <|
      bindE (dataRef region hdrLen loc 0xD7 "SRK table") fun r =>
      .ok { w with srk := some (r.1, r.2, src), refs := r :: w.refs, slots := (0, 0) :: w.slots }
    else if proto = 0x09 then       -- X.509 certificate
      bindE (dataRef region hdrLen loc 0xD7 "certificate") fun r =>
      chk (hasSlot w src 0) s!"Install Key: verification key slot {src} holds no SRK" <|
      if flags = 2 then
        chk (tgt == 1) s!"Install CSFK into slot {tgt}" <|
        .ok { w with csfCert := some r, slots := (1, 1) :: w.slots, refs := r :: w.refs }
      else if flags = 0 then
        chk (decide (2 ≤ tgt) && decide (tgt ≤ 5)) s!"Install Key into slot {tgt}" <|
        chk w.csfSig.isSome "Install Key before Authenticate CSF" <|
        .ok { w with imgCert := some r, slots := (tgt, 2) :: w.slots, refs := r :: w.refs }
      else .error s!"Install Key flags {flags}"
    else if proto = 0xBB then       -- wrapped secret key (DEK blob), absolute address
      chk (flags == 1) s!"Install Secret Key flags {flags}" <|
      chk (decide (src ≤ 3) && decide (tgt ≤ 3)) s!"Install Secret Key: KEK {src} target {tgt}" <|
      .ok { w with secretLoc := some loc, slots := (tgt, 3) :: w.slots }
    else .error s!"Install Key protocol {proto}"
  | .autDat flags key proto _eng _cfg loc blocks =>
    chk (flags == 0) s!"Authenticate Data flags {flags}" <|
    bindE (toOffsets self csf blocks) fun offs =>
    if proto = 0xC5 then
      bindE (dataRef region hdrLen loc 0xD8 "signature") fun r =>
      if blocks.isEmpty then
        chk (key == 1 && (hasSlot w 1 1 || fastAuth w)) s!"Authenticate CSF with key slot {key}" <|
        chk w.csfSig.isNone "two Authenticate CSF commands" <|
        .ok { w with csfSig := some r, refs := r :: w.refs }
      else
        chk w.csfSig.isSome "Authenticate Data before Authenticate CSF" <|
        chk (hasSlot w key 2 || (key == 0 && fastAuth w)) s!"Authenticate Data: key slot {key} holds no image key" <|
        chk w.dataSig.isNone "two Authenticate Data commands" <|
        .ok { w with dataSig := some r, auth := offs, refs := r :: w.refs }
    else if proto = 0xA3 then
      bindE (dataRef region hdrLen loc 0xAC "MAC") fun r =>
      chk (hasSlot w key 3) s!"Decrypt Data: key slot {key} holds no secret key" <|
      chk (!blocks.isEmpty) "Decrypt Data without blocks" <|
      chk w.macRef.isNone "two Decrypt Data commands" <|
      .ok { w with macRef := some r, dec := offs, refs := r :: w.refs }
    else .error s!"Authenticate Data protocol {proto}"
  | .other _ _ => .ok w

def walk (region : Bytes) (hdrLen self csf : Nat) : Walk → List RCmd → R Walk
  | w, [] => .ok w
  | w, c :: r => bindE (stepCmd region hdrLen self csf w c) fun w' => walk region hdrLen self csf w' r

structure Report where
  ivtSelf : Nat
  start : Nat
  csfOff : Nat                          -- 0: no CSF
  hdrLen : Nat
  srk : Option (Nat × Nat × Nat)        -- offset, length of the SRK table in the CSF, source index
  csfCert : Option (Nat × Nat)
  csfSig : Option (Nat × Nat)
  imgCert : Option (Nat × Nat)
  dataSig : Option (Nat × Nat)
  msgCsf : Bytes
  msgData : Bytes
  authBlocks : List (Nat × Nat)         -- image offsets
  decBlocks : List (Nat × Nat)
  nonce : Bytes
  mac : Bytes
  plain : Option Bytes
  deriving Repr

/-- the IVT and the boot data it points at -/
structure View where
  entry : Nat
  dcd : Nat
  self : Nat
  csf : Nat
  start : Nat
  blen : Nat
  deriving Repr, DecidableEq

def readView (img : Bytes) : R View :=
  bindE (u8at img 0) fun tag =>
  bindE (u16be img 1) fun ilen =>
  bindE (u8at img 3) fun ver =>
  chk (tag == 0xD1 && ilen == 32 && ver / 16 == 4) s!"IVT header {tag} {ilen} {ver}" <|
  bindE (u32le img 4) fun entry =>
  bindE (u32le img 12) fun dcd =>
  bindE (u32le img 16) fun bdp =>
  bindE (u32le img 20) fun self =>
  bindE (u32le img 24) fun csf =>
  chk (bdp == self + 32) s!"boot data pointer {bdp} is not IVT+32" <|
  bindE (u32le img 32) fun start =>
  bindE (u32le img 36) fun blen =>
  bindE (u32le img 40) fun plugin =>
  chk (plugin == 0) "plugin flag set" <|
  chk (decide (start ≤ self)) "image start behind the IVT" <|
  .ok { entry := entry, dcd := dcd, self := self, csf := csf, start := start, blen := blen }

/-- DCD / XMCD extents from their own headers: `(dcdLen, xmcdLen)` -/
def frontLens (img : Bytes) (v : View) : R (Nat × Nat) :=
  bindE (if v.dcd = 0 then .ok 0 else
      chk (v.dcd == v.self + 64) s!"DCD pointer {v.dcd} is not IVT+64" <|
      bindE (u8at img 64) fun t =>
      chk (t == 0xD2) s!"no DCD header where the IVT points (tag {t})" <|
      u16be img 65) fun dcdLen =>
  bindE (if img.length ≥ 68 then u8at img 67 else .ok 0) fun xb =>
  bindE (if v.dcd = 0 ∧ xb = 0xC0 then
      bindE (u8at img 64) fun lo =>
      bindE (u8at img 65) fun hi =>
      .ok ((hi % 16) * 256 + lo) else .ok 0) fun xmcdLen =>
  .ok (dcdLen, xmcdLen)

def plainReport (v : View) : Report :=
  { ivtSelf := v.self, start := v.start, csfOff := 0, hdrLen := 0, srk := none, csfCert := none, csfSig := none,
    imgCert := none, dataSig := none, msgCsf := [], msgData := [], authBlocks := [], decBlocks := [],
    nonce := [], mac := [], plain := none }

/-- nonce and MAC of the MAC block at `(o, l)` -/
def readMac (region : Bytes) : Option (Nat × Nat) → R (Bytes × Bytes)
  | none => .ok ([], [])
  | some (o, l) =>
    bindE (u8at region (o + 5)) fun nl =>
    bindE (u8at region (o + 7)) fun ml =>
    chk (l == 8 + nl + ml) s!"MAC block length {l} vs nonce {nl} + mac {ml}" <|
    chk (decide (4 ≤ ml) && decide (ml ≤ 16) && ml % 2 == 0 && decide (7 ≤ nl) && decide (nl ≤ 13)) s!"MAC parameters nonce {nl} mac {ml}" <|
    .ok (sub region (o + 8) nl, sub region (o + 8 + nl) ml)

def decryptBlocks (c : Crypto.CryptoOps) (img : Bytes) (w : Walk) (nonce mac : Bytes) : Option Bytes → R (Option Bytes)
  | none => .ok none
  | some k =>
    if w.macRef.isSome then
      match Crypto.ccmDec c k nonce [] mac.length (gather img w.dec ++ mac) with
      | some p => .ok (some p)
      | none => .error "AES-CCM tag mismatch: the listed blocks do not decrypt under DEK / nonce / MAC"
    else .ok none

/-- the DEK blob is located directly behind the CSF; a Decrypt Data command needs an Install Secret Key command -/
def secretOk (secretLoc : Option Nat) (macRef : Option (Nat × Nat)) (csf : Nat) : Bool :=
  match secretLoc, macRef with
  | some l, some _ => l == csf + 0x2000
  | none, some _ => false
  | _, none => true

/-- the checks after the walk -/
def finish (c : Crypto.CryptoOps) (img region : Bytes) (v : View) (csfOff hdrLen dcdLen xmcdLen : Nat) (w : Walk)
    (dek : Option Bytes) : R Report :=
  let all := w.auth ++ w.dec
  let ivtOff := v.self - v.start
  let blob := if w.macRef.isSome then 0x200 else 0
  chk w.csfSig.isSome "no Authenticate CSF command" <|
  chk w.dataSig.isSome "no Authenticate Data command" <|
  chk (disjoint w.refs) "command data blocks overlap" <|
  chk (disjoint all) s!"authenticated / decrypted blocks overlap: {all}" <|
  chk (covered all 0 64) s!"IVT + boot data not covered by {all}" <|
  chk (covered all 64 dcdLen) s!"DCD (64+{dcdLen}) not covered by {all}" <|
  chk (covered all 64 xmcdLen) s!"XMCD (64+{xmcdLen}) not covered by {all}" <|
  chk (nzCov all csfOff 0 img) s!"a non-zero byte before the CSF is in no authenticated / decrypted block {all}" <|
  chk (decide (v.self ≤ v.entry) && inBlocks all (v.entry - v.self)) "entry point not inside an authenticated / decrypted block" <|
  chk (v.blen == ivtOff + img.length + blob) s!"boot data length {v.blen}, real size {ivtOff + img.length} + key blob {blob}" <|
  chk (secretOk w.secretLoc w.macRef v.csf) "DEK blob is not located directly behind the CSF / Decrypt Data without Install Secret Key" <|
  bindE (readMac region w.macRef) fun nm =>
  bindE (decryptBlocks c img w nm.1 nm.2 dek) fun plain =>
  .ok { ivtSelf := v.self, start := v.start, csfOff := csfOff, hdrLen := hdrLen, srk := w.srk, csfCert := w.csfCert,
        csfSig := w.csfSig, imgCert := w.imgCert, dataSig := w.dataSig, msgCsf := region.take hdrLen,
        msgData := gather img w.auth, authBlocks := w.auth, decBlocks := w.dec, nonce := nm.1, mac := nm.2, plain := plain }

def habCheck (c : Crypto.CryptoOps) (img : Bytes) (dek : Option Bytes) : R Report :=
  bindE (readView img) fun v =>
  bindE (frontLens img v) fun lens =>
  if v.csf = 0 then
    chk (v.blen == v.self - v.start + img.length) s!"boot data length {v.blen}, real size {v.self - v.start + img.length}" <|
    chk (decide (v.self ≤ v.entry) && decide (v.entry < v.self + img.length)) "entry point outside the image" <|
    .ok (plainReport v)
  else
    chk (decide (v.self + 64 ≤ v.csf)) "CSF pointer inside IVT/boot data" <|
    let csfOff := v.csf - v.self
    let region := sub img csfOff 0x2000
    chk (csfOff + 0x2000 == img.length) s!"CSF at {csfOff} does not end the image ({img.length})" <|
    bindE (u8at region 0) fun ct =>
    bindE (u16be region 1) fun hdrLen =>
    bindE (u8at region 3) fun cver =>
    chk (ct == 0xD4 && cver / 16 == 4 && decide (4 ≤ hdrLen)) s!"CSF header {ct} {hdrLen} {cver}" <|
    bindE (readCmds region hdrLen 4 hdrLen) fun cmds =>
    bindE (walk region hdrLen v.self v.csf {} cmds) fun w =>
    finish c img region v csfOff hdrLen lens.1 lens.2 w dek

end SpsdkVerif.Spec.HabRom
