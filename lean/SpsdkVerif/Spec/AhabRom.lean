/-
Independent check of an AHAB binary — the "ROM side" of property C06.

Written from the format description (the container / image-array / signature-block diagrams in the doc strings of
spsdk/image/ahab/*.py), NOT from the exporter model: every constant below is transcribed by hand and only *compared*
with the generated ones (`Properties/C06.lean: spec_consts_agree`).  Nothing here imports `Model/Ahab.lean`.

What `ahabCheck` establishes about a binary:
  * containers sit at the fixed offsets `k * containerSize`, each completely inside the file and not overlapping the previous one;
  * every image-array entry points at bytes inside the file, and the stored 64-byte hash field equals
    H(those bytes) (H chosen by the entry's flags) left-aligned and zero padded;
  * for an entry flagged encrypted (DEK given): SHA-256(AES-CBC-decrypt(DEK, IV field[16:32], bytes)) = IV field;
  * the signature block is well formed: 0 < SRK table < signature (< certificate < blob) ≤ length, everything inside the
    container; the signed range is `container[0 : sigBlockOffset + signatureOffset]`; the selected SRK is not revoked;
  * no two images overlap and no image overlaps a container.
The signature itself is NOT verified here (no asymmetric crypto in Lean): the report carries, per signed container, the
byte ranges of the signed data, of the selected SRK record and of the signature, and the SHA-256 of the SRK table; the harness
discharges `verify(pub(SRK record), signature, signed bytes)` with `cryptography` directly.
-/
import SpsdkVerif.Model.Misc
import SpsdkVerif.Crypto.Iface
import SpsdkVerif.Crypto.Modes

namespace SpsdkVerif.Spec.AhabRom
open SpsdkVerif SpsdkVerif.Misc
open SpsdkVerif.Crypto (HashAlg CryptoOps cbcDec)

/-! ### constants of the format (hand transcribed) -/
def containerTag : Nat := 0x87
def sigBlockTag : Nat := 0x90
def srkTableTag : Nat := 0xD7
def srkTableVersion : Nat := 0x42
def srkRecordTag : Nat := 0xE1
def signatureTag : Nat := 0xD8
def headerSize : Nat := 16
def iaeSize : Nat := 128
def sigBlockHeaderSize : Nat := 16
def hashFieldOff : Nat := 0x20
def hashFieldLen : Nat := 64
def ivFieldOff : Nat := 0x60
def ivFieldLen : Nat := 32
def blockAlign : Nat := 8

/-- what differs between the two container generations and between chips -/
structure Params where
  containerSize : Nat      -- 0x400 (v1) / 0x4000 (v2)
  version : Nat            -- container header version byte: 0 / 2
  sbVersion : Nat          -- signature block version byte: 0 / 1
  maxContainers : Nat
  maxImages : Nat
  hashBits : Nat           -- width of the hash field in the entry flags: 3 / 4
  encBit : Nat             -- position of the "encrypted" flag: 11 / 12
  srkTableV1 : Bool        -- SRK table (true) or SRK table array (false, opaque here)
  deriving Repr, DecidableEq

def paramsV1 (maxC maxI : Nat) : Params := ⟨0x400, 0, 0, maxC, maxI, 3, 11, true⟩
def paramsV2 (maxC maxI : Nat) : Params := ⟨0x4000, 2, 1, maxC, maxI, 4, 12, false⟩

def slice (b : Bytes) (off n : Nat) : Bytes := (b.drop off).take n
/-- little-endian integer of `n` bytes at `off` -/
def rd (b : Bytes) (off n : Nat) : Nat := leDec (slice b off n)

def hashOfTag (t : Nat) : Option HashAlg :=
  if t = 0 then some .sha256 else if t = 1 then some .sha384 else if t = 2 then some .sha512 else none

/-- left-aligned digest, zero padded to the 64-byte field -/
def padHash (d : Bytes) : Bytes := d ++ List.replicate (hashFieldLen - d.length) 0

structure ImageRep where
  offset : Nat             -- absolute
  size : Nat
  flags : Nat
  encrypted : Bool
  deriving Repr, DecidableEq

/-- the remaining documented fields of entry at `pos`: load address (0x08), entry point (0x10), meta data (0x1C) -/
def entryExtra (bin : Bytes) (pos : Nat) : Nat × Nat × Nat := (rd bin (pos + 8) 8, rd bin (pos + 0x10) 8, rd bin (pos + 0x1C) 4)

/-- one image-array entry at absolute position `pos`; `base` = start of its container -/
def checkEntry (c : CryptoOps) (p : Params) (bin : Bytes) (base pos : Nat) (dek : Option Bytes) : Except String ImageRep :=
  let off := rd bin pos 4
  let size := rd bin (pos + 4) 4
  let flags := rd bin (pos + 0x18) 4
  let hashF := slice bin (pos + hashFieldOff) hashFieldLen
  let ivF := slice bin (pos + ivFieldOff) ivFieldLen
  let abs := base + off
  let enc := (flags >>> p.encBit) % 2 = 1
  if abs + size > bin.length then .error "image outside the file" else
  let data := slice bin abs size
  match hashOfTag ((flags >>> 8) % 2 ^ p.hashBits) with
  | none => .error "hash algorithm not checkable"
  | some a =>
    if hashF ≠ padHash (c.hash a data) then .error "image hash mismatch" else
    if enc then
      match dek with
      | none => .error "encrypted image but no DEK given"
      | some k =>
        if size % 16 ≠ 0 then .error "encrypted image is not a multiple of the AES block" else
        if c.hash .sha256 (cbcDec c k (ivF.drop 16) data) ≠ ivF then .error "decrypted image does not hash to the IV field"
        else .ok ⟨abs, size, flags, true⟩
    else .ok ⟨abs, size, flags, false⟩

def checkEntries (c : CryptoOps) (p : Params) (bin : Bytes) (base : Nat) (dek : Option Bytes) :
    Nat → Nat → Except String (List ImageRep)
  | 0, _ => .ok []
  | n + 1, pos =>
    match checkEntry c p bin base pos dek with
    | .error e => .error e
    | .ok r =>
      match checkEntries c p bin base dek n (pos + iaeSize) with
      | .error e => .error e
      | .ok rs => .ok (r :: rs)

structure SigRep where
  signedLen : Nat          -- signed bytes are `bin[base : base + signedLen]`
  srkTableOff : Nat        -- absolute
  srkTableLen : Nat
  srkRecOff : Nat          -- absolute offset of the selected SRK record (0 for an SRK table array)
  srkRecLen : Nat
  usedSrk : Nat
  sigOff : Nat             -- absolute offset of the signature *data*
  sigLen : Nat
  srkHash : Bytes          -- SHA-256 of the SRK table
  deriving Repr, DecidableEq

structure ContainerRep where
  index : Nat
  base : Nat
  length : Nat
  flags : Nat
  swVersion : Nat
  fuseVersion : Nat
  sbOffset : Nat
  srkOff : Nat
  sigOff : Nat
  certOff : Nat
  blobOff : Nat
  sbLength : Nat
  images : List ImageRep
  sig : Option SigRep
  deriving Repr, DecidableEq

/-- signature block at absolute `sb` of a container `[base, base+len)`; `flags` = container flags -/
def checkSigBlock (c : CryptoOps) (p : Params) (bin : Bytes) (base len sbo flags : Nat) :
    Except String (Nat × Nat × Nat × Nat × Nat × Option SigRep) :=
  let sb := base + sbo
  if sbo + sigBlockHeaderSize > len then .error "signature block header outside the container" else
  if rd bin (sb + 3) 1 ≠ sigBlockTag then .error "signature block tag" else
  if rd bin sb 1 ≠ p.sbVersion then .error "signature block version" else
  let sbLen := rd bin (sb + 1) 2
  let certOff := rd bin (sb + 4) 2
  let srkOff := rd bin (sb + 6) 2
  let sigOff := rd bin (sb + 8) 2
  let blobOff := rd bin (sb + 10) 2
  if sbo + sbLen ≠ len then .error "container length is not header + image array + signature block" else
  let srkSet := flags % 4
  let usedSrk := (flags >>> 4) % 4
  let revoke := (flags >>> 8) % 16
  if srkSet = 0 then
    if srkOff ≠ 0 ∨ sigOff ≠ 0 then .error "unsigned container with SRK table or signature" else
    .ok (srkOff, sigOff, certOff, blobOff, sbLen, none)
  else
    if srkOff < sigBlockHeaderSize then .error "SRK table offset" else
    if sigOff ≤ srkOff then .error "signature does not follow the SRK table" else
    if (revoke >>> usedSrk) % 2 = 1 then .error "selected SRK is revoked" else
    let sg := sb + sigOff
    if sigOff + 8 > sbLen then .error "signature header outside the signature block" else
    if rd bin (sg + 3) 1 ≠ signatureTag then .error "signature tag" else
    let sgLen := rd bin (sg + 1) 2
    if sgLen ≤ 8 ∨ sigOff + sgLen > sbLen then .error "signature length" else
    let endSig := sigOff + sgLen
    if certOff ≠ 0 ∧ certOff < endSig then .error "certificate overlaps the signature" else
    if blobOff ≠ 0 ∧ blobOff < (if certOff ≠ 0 then certOff else endSig) then .error "blob offset" else
    if blobOff ≠ 0 ∧ blobOff + 8 > sbLen then .error "blob outside the signature block" else
    let st := sb + srkOff
    if p.srkTableV1 then
      if srkOff % blockAlign ≠ 0 ∨ sigOff % blockAlign ≠ 0 then .error "block alignment" else
      if rd bin st 1 ≠ srkTableTag then .error "SRK table tag" else
      if rd bin (st + 3) 1 ≠ srkTableVersion then .error "SRK table version" else
      let tLen := rd bin (st + 1) 2
      if tLen < 4 ∨ srkOff + tLen > sigOff then .error "SRK table length" else
      if (tLen - 4) % 4 ≠ 0 then .error "SRK table is not four equal records" else
      let rLen := (tLen - 4) / 4
      let rOff := st + 4 + usedSrk * rLen
      if rd bin rOff 1 ≠ srkRecordTag then .error "SRK record tag" else
      if rd bin (rOff + 1) 2 ≠ rLen then .error "SRK record length" else
      .ok (srkOff, sigOff, certOff, blobOff, sbLen,
           some ⟨sbo + sigOff, st, tLen, rOff, rLen, usedSrk, sg + 8, sgLen - 8, c.hash .sha256 (slice bin st tLen)⟩)
    else
      .ok (srkOff, sigOff, certOff, blobOff, sbLen,
           some ⟨sbo + sigOff, st, sigOff - srkOff, 0, 0, usedSrk, sg + 8, sgLen - 8, []⟩)

/-- does a container header (tag, version) start at `base`? -/
def looksLikeContainer (p : Params) (bin : Bytes) (base : Nat) : Bool :=
  decide (base + headerSize ≤ bin.length) && rd bin (base + 3) 1 == containerTag && rd bin base 1 == p.version

def checkContainer (c : CryptoOps) (p : Params) (bin : Bytes) (k : Nat) (dek : Option Bytes) : Except String ContainerRep :=
  let base := k * p.containerSize
  let len := rd bin (base + 1) 2
  let flags := rd bin (base + 4) 4
  let sw := rd bin (base + 8) 2
  let fuse := rd bin (base + 10) 1
  let n := rd bin (base + 11) 1
  let sbo := rd bin (base + 12) 2
  if base + len > bin.length then .error "container outside the file" else
  if n > p.maxImages then .error "too many images" else
  if sbo < headerSize + n * iaeSize ∨ sbo % blockAlign ≠ 0 then .error "signature block offset" else
  match checkEntries c p bin base dek n (base + headerSize) with
  | .error e => .error e
  | .ok imgs =>
    match checkSigBlock c p bin base len sbo flags with
    | .error e => .error e
    | .ok (srkOff, sigOff, certOff, blobOff, sbLen, sg) =>
      .ok ⟨k, base, len, flags, sw, fuse, sbo, srkOff, sigOff, certOff, blobOff, sbLen, imgs, sg⟩

/-- containers `k = from..max-1` that are present (header recognised and starting after the previous container) -/
def checkContainers (c : CryptoOps) (p : Params) (bin : Bytes) (deks : List (Option Bytes)) :
    Nat → Nat → Nat → Except String (List ContainerRep)
  | 0, _, _ => .ok []
  | fuel + 1, k, prevEnd =>
    let base := k * p.containerSize
    if base ≥ prevEnd ∧ looksLikeContainer p bin base then
      match checkContainer c p bin k ((deks.getD k none)) with
      | .error e => .error s!"container {k}: {e}"
      | .ok r =>
        match checkContainers c p bin deks fuel (k + 1) (base + r.length) with
        | .error e => .error e
        | .ok rs => .ok (r :: rs)
    else checkContainers c p bin deks fuel (k + 1) prevEnd

def disjoint (a al b bl : Nat) : Bool := al = 0 || bl = 0 || a + al ≤ b || b + bl ≤ a

def pairwiseDisjoint : List (Nat × Nat) → Bool
  | [] => true
  | (a, al) :: rest => rest.all (fun (b, bl) => disjoint a al b bl) && pairwiseDisjoint rest

/-- the whole binary -/
def ahabCheck (c : CryptoOps) (p : Params) (bin : Bytes) (deks : List (Option Bytes)) : Except String (List ContainerRep) :=
  match checkContainers c p bin deks p.maxContainers 0 0 with
  | .error e => .error e
  | .ok [] => .error "no container at offset 0"
  | .ok rs =>
    if (rs.head?.map (·.index)) ≠ some 0 then .error "no container at offset 0" else
    let regions := rs.map (fun r => (r.base, r.length)) ++ rs.flatMap (fun r => r.images.map (fun i => (i.offset, i.size)))
    if pairwiseDisjoint regions then .ok rs else .error "images / containers overlap"

/-- the signature obligation `ahabCheck` leaves to the discharger for a signed container: the signature bytes verify under
    the public key of the selected SRK over exactly the signed range `bin[base : base + signedLen]` -/
def sigObligation (c : CryptoOps) (alg : Crypto.SigAlg) (pk : Crypto.PubKey) (bin : Bytes) (base : Nat) (s : SigRep) : Bool :=
  c.verify alg pk (slice bin base s.signedLen) (slice bin s.sigOff s.sigLen)

end SpsdkVerif.Spec.AhabRom
