/-
Spec.MbiRomVx - an INDEPENDENT acceptance function for the header-less Master Boot Images of the mc56f81xxx / mwct20x2
families ("Vx" images), written from the layout description of these images (fixed places inside the application's first
0xC00 bytes), NOT from the builder's code and with its own constants (nothing here is generated from /repo;
`Properties/C02.lean` proves `vx_spec_consts_agree` against the constants generated from the current source).

  0x000 .. 0x360   vector table / start of the application              signed
  0x360 .. 0x380   image digest  = SHA-256(signed data)                  checked
  0x380 .. 0x3C0   image signature = ECDSA P-256 (r ‖ s) by the ISK key  obligation
  0x3C0 .. 0x400   boot configuration area (BCA)                         signed
        +0x04 CRC start address, +0x08 CRC byte count, +0x0C CRC-32/MPEG-2 value      (CRC images)
        +0x20 image length = length of the signed data, +0x24 firmware version        (signed images)
  0x400 .. 0x410   flash configuration field (life cycle at 0x40C)       NOT signed (the format ends the signed header here)
  0x410 .. 0x498   ISK certificate: magic 0x4D43, version 1 (u16 each), constraints (u32), ISK public key X ‖ Y (64),
                   signature r ‖ s (64) by the root key over the first 72 bytes
  0x4A0 .. 0x4B0   first 16 bytes of SHA-256(ISK certificate)            (devices that store it)
  0xC00 ..         application data                                      signed / CRC-protected

signed data = image[0:0x360] ‖ image[0x3C0:0x400] ‖ image[0xC00:].  The asymmetric checks are returned as `Obligation`s
exactly as in Spec/MbiRom.lean.  No Mathlib (the native driver links this file).
-/
import SpsdkVerif.Spec.MbiRom

namespace SpsdkVerif.Spec.MbiRomVx
open SpsdkVerif SpsdkVerif.Misc SpsdkVerif.Crypto
open SpsdkVerif.Spec.MbiRom (Rom need rd32 rd16 sub Obligation Accepted crcParams)

abbrev Bytes := SpsdkVerif.Misc.Bytes

def digestOff : Nat := 0x360
def digestSize : Nat := 32
def sigOff : Nat := 0x380
def sigSize : Nat := 64
def bcaOff : Nat := 0x3C0
def bcaCrcStart : Nat := 0x4
def bcaCrcCount : Nat := 0x8
def bcaCrcValue : Nat := 0xC
def bcaImageLength : Nat := 0x20
def bcaFwVersion : Nat := 0x24
def fcfOff : Nat := 0x400
def iskOff : Nat := 0x410
def iskCertSize : Nat := 136
def iskMagic : Nat := 0x4D43
def iskVersion : Nat := 1
def iskPubOff : Nat := 8
def iskTbsSize : Nat := 72
def iskHashOff : Nat := 0x4A0
def iskHashSize : Nat := 16
def dataStart : Nat := 0xC00

inductive Kind where | plain | crc | signed
  deriving Repr, DecidableEq

structure VxEnv where
  /-- the device's root-of-trust public key (raw X ‖ Y, P-256) -/
  rootPub : Bytes := []
  /-- the device compares the stored ISK certificate hash -/
  iskHash : Bool := true

/-- exactly the bytes digest and signature cover -/
def signedData (img : Bytes) : Bytes := img.take digestOff ++ sub img bcaOff fcfOff ++ img.drop dataStart

/-- CRC image: the three BCA words must describe the WHOLE data part and its CRC-32/MPEG-2 -/
def romVxCrc (img : Bytes) : Rom Accepted := do
  need (img.length ≥ dataStart) "image shorter than the header area"
  let start := rd32 img (bcaOff + bcaCrcStart)
  let count := rd32 img (bcaOff + bcaCrcCount)
  need (start == dataStart ∧ start + count == img.length) "CRC range is not the data part of the image"
  need (rd32 img (bcaOff + bcaCrcValue) == Crc.crc crcParams (sub img start (start + count))) "crc mismatch"
  pure { authenticated := [(bcaOff + bcaCrcStart, bcaOff + bcaCrcValue + 4), (dataStart, img.length)] }

/-- signed image: BCA image length, digest, ISK certificate (+ stored hash); root → ISK and ISK → image as obligations -/
def romVxSigned (co : CryptoOps) (env : VxEnv) (img : Bytes) : Rom Accepted := do
  need (img.length ≥ dataStart) "image shorter than the header area"
  let data := signedData img
  need (rd32 img (bcaOff + bcaImageLength) == data.length) "BCA image length is not the length of the signed data"
  need (sub img digestOff sigOff == co.hash .sha256 data) "image digest"
  need (rd16 img iskOff == iskMagic ∧ rd16 img (iskOff + 2) == iskVersion) "ISK certificate magic / version"
  let cert := sub img iskOff (iskOff + iskCertSize)
  need (!env.iskHash ∨ sub img iskHashOff (iskHashOff + iskHashSize) == (co.hash .sha256 cert).take iskHashSize)
    "ISK certificate hash"
  let iskPub := sub img (iskOff + iskPubOff) (iskOff + iskTbsSize)
  pure { obligations := [.ecdsa env.rootPub (sub img iskOff (iskOff + iskTbsSize)) (sub img (iskOff + iskTbsSize) (iskOff + iskCertSize)),
                         .ecdsa iskPub data (sub img sigOff bcaOff)]
         authenticated := [(0, fcfOff), (iskOff, iskOff + iskCertSize), (iskHashOff, iskHashOff + iskHashSize), (dataStart, img.length)] }

def romVx (co : CryptoOps) (env : VxEnv) (k : Kind) (img : Bytes) : Rom Accepted :=
  match k with
  | .plain => do
    need (img.length ≥ dataStart) "image shorter than the header area"
    pure {}
  | .crc => romVxCrc img
  | .signed => romVxSigned co env img

end SpsdkVerif.Spec.MbiRomVx
