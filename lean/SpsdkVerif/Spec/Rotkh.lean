/-
Spec.Rotkh — the DOCUMENTED construction of the root-of-trust value over raw key material (property C03).

Owner: builder C03.  Import read-only.  No Mathlib, everything total and computable (native drivers link it).
Nothing here is generated from /repo: the byte layouts are transcribed by hand from the format descriptions
(cert block v1 / v2.1: SPSDK user guide + class docstrings; AHAB SRK record / SRK data / SRK table:
the layout tables in `spsdk/image/ahab/ahab_srk.py` docstrings; HAB SRK table: HAB4 API reference, items as in
`spsdk/image/secret.py`).  The tool paths are modelled separately (Model/Rkht.lean, generated constants) and
proved equal to this file (Properties/C03.lean).

## API (stable; namespace `SpsdkVerif.Spec`)

```lean
inductive Curve | p256 | p384 | p521          -- .bits = 256/384/521, .coordSize = 32/48/66, .hashAlg = sha256/384/512
inductive Key | rsa (n e : Nat) | ecc (curve : Curve) (x y : Nat)       -- keys are NUMBERS
inductive RotType | certBlock1 | certBlock21 | srkTableAhab | srkTableAhabV2 | srkTableHab
RotType.ofName? : String → Option RotType     -- database `cert_block.rot_type` strings ("cert_block_1", …)
RotType.name    : RotType → String

beMin v            : Bytes      -- minimal big-endian bytes of v ([] for 0)
Key.material k     : Bytes      -- rsa: BE n ‖ BE e (both minimal);  ecc: X ‖ Y, each `coordSize` bytes
Key.hashAlg k      : HashAlg    -- rsa: sha256 (any modulus size);  ecc: curve.hashAlg
keyHash c k        : Bytes      -- c.hash k.hashAlg k.material                       (the "RKH"/"CTRK hash" of one key)

rkhTableV1 c ks    : Bytes      -- cert block v1 RKH table: 4 slots × 32 B, missing slots zero
rotkhV1 c ks       : Bytes      -- RKTH = SHA-256(rkhTableV1)
ctrkTable c ks     : Bytes      -- cert block v2.1 CTRK hash table: concatenation of the key hashes
rotkhV21 c ks      : Bytes      -- one key: its hash;  ≥ 2 keys: H(ctrkTable), H by key size;  no key: empty
ahabRecord k ca / ahabTable ks / rotkhAhab c ks                    -- AHAB SRK table (version 0x42), SHA-256 of the table
ahabSrkData k id / ahabRecordV2 c k ca id / ahabTableV2 c ks / rotkhAhabV2 c ks   -- AHAB v2 (version 0x43), SHA-512
habItem k ca / habTable ks / rotkhHab c ks                         -- HAB: SHA-256(‖ SHA-256(item_i))

rotkhCa c t (ks : List (Key × Bool)) : Bytes   -- the value per RoT type; the Bool is the record's CA flag
                                               -- (part of the AHAB / HAB record; ignored by the cert-block types)
rotkh   c t (ks : List Key) : Bytes            -- = rotkhCa with every CA flag false
KeyOK k / KeysOK t ks : Prop (decidable)       -- the documented domain (see below); theorems assume it
```
`c : CryptoOps` supplies the hash; theorems quantify over every `c`, drivers use `Crypto.execOps`.

Domain (`KeysOK`): RSA keys have a modulus of exactly 2048/3072/4096 bits (top bit set — so the minimal
encoding has 256/384/512 bytes and no leading zero byte can occur) and `0 < e < 2^32`; EC coordinates are
`< 256^coordSize`.  cert_block_1: 1..4 RSA keys.  cert_block_21: 1..4 EC keys on one curve, P-256 or P-384
(the root key record has no code for P-521).  srk_table_ahab / _v2: exactly 4 keys of one kind (same RSA
size or same curve, P-521 allowed).  srk_table_hab: 1..4 keys (RSA or EC).
-/
import SpsdkVerif.Crypto.Iface

namespace SpsdkVerif.Spec
open SpsdkVerif
open SpsdkVerif.Misc (beEnc beDec leEnc leDec byteLen)
open SpsdkVerif.Crypto (HashAlg CryptoOps Bytes)

inductive Curve where
  | p256 | p384 | p521
  deriving DecidableEq, Repr, Inhabited

def Curve.bits : Curve → Nat
  | .p256 => 256 | .p384 => 384 | .p521 => 521

/-- bytes per coordinate: ⌈bits / 8⌉ -/
def Curve.coordSize : Curve → Nat
  | .p256 => 32 | .p384 => 48 | .p521 => 66

def Curve.hashAlg : Curve → HashAlg
  | .p256 => .sha256 | .p384 => .sha384 | .p521 => .sha512

/-- A root public key as numbers. -/
inductive Key where
  | rsa (n e : Nat)
  | ecc (curve : Curve) (x y : Nat)
  deriving DecidableEq, Repr, Inhabited

inductive RotType where
  | certBlock1 | certBlock21 | srkTableAhab | srkTableAhabV2 | srkTableHab
  deriving DecidableEq, Repr, Inhabited

def RotType.name : RotType → String
  | .certBlock1 => "cert_block_1" | .certBlock21 => "cert_block_21" | .srkTableAhab => "srk_table_ahab"
  | .srkTableAhabV2 => "srk_table_ahab_v2" | .srkTableHab => "srk_table_hab"

def RotType.ofName? (s : String) : Option RotType :=
  if s == "cert_block_1" then some .certBlock1 else if s == "cert_block_21" then some .certBlock21
  else if s == "srk_table_ahab" then some .srkTableAhab else if s == "srk_table_ahab_v2" then some .srkTableAhabV2
  else if s == "srk_table_hab" then some .srkTableHab else none

/-! ### per-key hash -/

/-- minimal big-endian encoding (`[]` for 0) -/
def beMin (v : Nat) : Bytes := beEnc (byteLen v) v

/-- the bytes that are hashed for one key -/
def Key.material : Key → Bytes
  | .rsa n e => beMin n ++ beMin e
  | .ecc c x y => beEnc c.coordSize x ++ beEnc c.coordSize y

def Key.hashAlg : Key → HashAlg
  | .rsa _ _ => .sha256
  | .ecc c _ _ => c.hashAlg

def keyHash (c : CryptoOps) (k : Key) : Bytes := c.hash k.hashAlg k.material

/-! ### certificate block v1: table of 4 × 32 bytes, zero padded; RKTH = SHA-256(table) -/

def rkhTableV1 (c : CryptoOps) (ks : List Key) : Bytes :=
  (ks.map (keyHash c) ++ List.replicate (4 - ks.length) (List.replicate 32 (0 : UInt8))).flatten

def rotkhV1 (c : CryptoOps) (ks : List Key) : Bytes := c.hash .sha256 (rkhTableV1 c ks)

/-! ### certificate block v2.1: one key → its hash; more → hash of the concatenated key hashes -/

def ctrkTable (c : CryptoOps) (ks : List Key) : Bytes := (ks.map (keyHash c)).flatten

def rotkhV21 (c : CryptoOps) : List Key → Bytes
  | [] => []
  | [k] => keyHash c k
  | k :: ks => c.hash k.hashAlg (ctrkTable c (k :: ks))

/-! ### AHAB SRK table

```
 SRK table : | tag 0xD7 | length (LE16) | version 0x42 / 0x43 | record 1 .. record 4 |
 SRK record: | tag 0xE1 | length (LE16) | sign alg | hash alg | key size/curve | 0 | flags | len1 LE16 | len2 LE16 | params |
   v1 params = modulus ‖ exponent (256/384/512 + 4 bytes)  or  X ‖ Y (coordSize each), big endian
   v2 params = H(SRK data) zero-extended to 64 bytes, H = the record's hash algorithm
 SRK data  : | version 0 | length (LE16) | tag 0x5D | record # | 0 0 0 | modulus ‖ exponent  or  X ‖ Y |
 fuse value: SHA-256(table) for version 0x42, SHA-512(table) for version 0x43
```
sign alg: RSA-PSS 0x22, ECDSA 0x27.  hash alg: SHA-256 0, SHA-384 1, SHA-512 2 (RSA: always SHA-256).
key size / curve: P-256 1, P-384 2, P-521 3, RSA-2048 5, RSA-3072 6, RSA-4096 7.  flags: 0x80 = CA. -/

def hashTagAhab : HashAlg → Nat
  | .sha256 => 0 | .sha384 => 1 | .sha512 => 2 | .sha1 => 255

def Key.ahabSignAlg : Key → Nat
  | .rsa _ _ => 0x22 | .ecc _ _ _ => 0x27

/-- key size / curve code; 0 = not representable -/
def Key.ahabSizeCode : Key → Nat
  | .rsa n _ => if byteLen n = 256 then 5 else if byteLen n = 384 then 6 else if byteLen n = 512 then 7 else 0
  | .ecc .p256 _ _ => 1 | .ecc .p384 _ _ => 2 | .ecc .p521 _ _ => 3

/-- declared lengths of the two crypto parameters -/
def Key.ahabLens : Key → Nat × Nat
  | .rsa n _ => (byteLen n, 4)
  | .ecc c _ _ => (c.coordSize, c.coordSize)

/-- modulus ‖ exponent / X ‖ Y at the declared widths -/
def Key.ahabParams : Key → Bytes
  | .rsa n e => beEnc (byteLen n) n ++ beEnc 4 e
  | .ecc c x y => beEnc c.coordSize x ++ beEnc c.coordSize y

def caFlag (ca : Bool) : Nat := if ca then 0x80 else 0

def byte (n : Nat) : UInt8 := UInt8.ofNat n

def ahabRecordHead (k : Key) (ca : Bool) (paramsLen : Nat) : Bytes :=
  [0xE1] ++ leEnc 2 (12 + paramsLen) ++
  [byte k.ahabSignAlg, byte (hashTagAhab k.hashAlg), byte k.ahabSizeCode, 0, byte (caFlag ca)] ++
  leEnc 2 k.ahabLens.1 ++ leEnc 2 k.ahabLens.2

def ahabRecord (k : Key) (ca : Bool) : Bytes :=
  ahabRecordHead k ca k.ahabParams.length ++ k.ahabParams

def ahabTableOf (version : UInt8) (records : List Bytes) : Bytes :=
  [0xD7] ++ leEnc 2 (4 + records.flatten.length) ++ [version] ++ records.flatten

def ahabTable (ks : List (Key × Bool)) : Bytes := ahabTableOf 0x42 (ks.map fun kc => ahabRecord kc.1 kc.2)

def rotkhAhab (c : CryptoOps) (ks : List (Key × Bool)) : Bytes := c.hash .sha256 (ahabTable ks)

def ahabSrkData (k : Key) (id : Nat) : Bytes :=
  [0x00] ++ leEnc 2 (8 + k.ahabParams.length) ++ [0x5D] ++ [byte id, 0, 0, 0] ++ k.ahabParams

def padTo (n : Nat) (b : Bytes) : Bytes := b ++ List.replicate (n - b.length) 0

def ahabRecordV2 (c : CryptoOps) (k : Key) (ca : Bool) (id : Nat) : Bytes :=
  ahabRecordHead k ca 64 ++ padTo 64 (c.hash k.hashAlg (ahabSrkData k id))

def zipIdx {α} : List α → Nat → List (α × Nat)
  | [], _ => []
  | a :: l, i => (a, i) :: zipIdx l (i + 1)

def ahabTableV2 (c : CryptoOps) (ks : List (Key × Bool)) : Bytes :=
  ahabTableOf 0x43 ((zipIdx ks 0).map fun kci => ahabRecordV2 c kci.1.1 kci.1.2 kci.2)

def rotkhAhabV2 (c : CryptoOps) (ks : List (Key × Bool)) : Bytes := c.hash .sha512 (ahabTableV2 c ks)

/-! ### HAB SRK table

```
 item (RSA): | 0xE1 | length (BE16) | 0x21 | 0 0 0 flags | modulus len BE16 | exponent len BE16 | modulus | exponent |
 item (EC) : | 0xE1 | length (BE16) | 0x27 | 0 0 0 flags | curve id | 0 | key bits BE16 | X | Y |
 fuse value: SHA-256( SHA-256(item 1) ‖ … ‖ SHA-256(item n) )
```
modulus / exponent minimal big endian; X, Y on `coordSize` bytes; curve id P-256 0x4B, P-384 0x4D, P-521 0x4E;
flags 0x80 = CA. -/

def Curve.habId : Curve → Nat
  | .p256 => 0x4B | .p384 => 0x4D | .p521 => 0x4E

def habItem (k : Key) (ca : Bool) : Bytes :=
  match k with
  | .rsa n e =>
    [0xE1] ++ beEnc 2 (12 + byteLen n + byteLen e) ++ [0x21] ++ [0, 0, 0, byte (caFlag ca)] ++
    beEnc 2 (byteLen n) ++ beEnc 2 (byteLen e) ++ beMin n ++ beMin e
  | .ecc cv x y =>
    [0xE1] ++ beEnc 2 (12 + 2 * cv.coordSize) ++ [0x27] ++ [0, 0, 0, byte (caFlag ca), byte cv.habId, 0] ++
    beEnc 2 cv.bits ++ beEnc cv.coordSize x ++ beEnc cv.coordSize y

def habTable (ks : List (Key × Bool)) : Bytes :=
  let items := (ks.map fun kc => habItem kc.1 kc.2).flatten
  [0xD7] ++ beEnc 2 (4 + items.length) ++ [0x40] ++ items

def rotkhHab (c : CryptoOps) (ks : List (Key × Bool)) : Bytes :=
  c.hash .sha256 ((ks.map fun kc => c.hash .sha256 (habItem kc.1 kc.2)).flatten)

/-! ### the value per RoT type -/

def rotkhCa (c : CryptoOps) (t : RotType) (ks : List (Key × Bool)) : Bytes :=
  match t with
  | .certBlock1 => rotkhV1 c (ks.map (·.1))
  | .certBlock21 => rotkhV21 c (ks.map (·.1))
  | .srkTableAhab => rotkhAhab c ks
  | .srkTableAhabV2 => rotkhAhabV2 c ks
  | .srkTableHab => rotkhHab c ks

def rotkh (c : CryptoOps) (t : RotType) (ks : List Key) : Bytes := rotkhCa c t (ks.map fun k => (k, false))

/-! ### documented domain -/

def rsaBitsOK (n bits : Nat) : Bool := decide (2 ^ (bits - 1) ≤ n) && decide (n < 2 ^ bits)

/-- modulus of exactly 2048 / 3072 / 4096 bits, 32-bit non-zero exponent; coordinates fit the field width -/
def keyOK : Key → Bool
  | .rsa n e => (rsaBitsOK n 2048 || rsaBitsOK n 3072 || rsaBitsOK n 4096) && decide (0 < e) && decide (e < 2 ^ 32)
  | .ecc c x y => decide (x < 256 ^ c.coordSize) && decide (y < 256 ^ c.coordSize)

def Key.isRsa : Key → Bool
  | .rsa _ _ => true | .ecc _ _ _ => false

def Key.curve? : Key → Option Curve
  | .rsa _ _ => none | .ecc c _ _ => some c

/-- same kind: both RSA with the same modulus size, or both on the same curve -/
def Key.sameKind : Key → Key → Bool
  | .rsa n _, .rsa m _ => byteLen n == byteLen m
  | .ecc c _ _, .ecc d _ _ => c == d
  | _, _ => false

def keysOK (t : RotType) (ks : List Key) : Bool :=
  ks.all keyOK &&
  match t with
  | .certBlock1 => decide (1 ≤ ks.length) && decide (ks.length ≤ 4) && ks.all Key.isRsa
  | .certBlock21 =>
    decide (1 ≤ ks.length) && decide (ks.length ≤ 4) &&
    (ks.all (fun k => k.curve? == some .p256) || ks.all (fun k => k.curve? == some .p384))
  | .srkTableAhab | .srkTableAhabV2 =>
    decide (ks.length = 4) && (match ks with | [] => false | k :: _ => ks.all (Key.sameKind k))
  | .srkTableHab => decide (1 ≤ ks.length) && decide (ks.length ≤ 4)

abbrev KeyOK (k : Key) : Prop := keyOK k = true
abbrev KeysOK (t : RotType) (ks : List Key) : Prop := keysOK t ks = true

end SpsdkVerif.Spec
