/-
C19 — semantics of the BD command-file expression language, written independently of the implementation
(`docs/usage/elf2sb.md` gives the grammar; the meaning of the operators is ordinary integer arithmetic).

What the repository's documents settle, and what they do not (see design_notes/C19.md):
  * two-level grammar `bool_expr ::= … | int_const_expr`, `expr ::= expr op expr | …` (elf2sb.md): every arithmetic /
    bitwise operator binds tighter than every comparison / logical operator and than `!`.
  * within a level: C precedence and left associativity (this is also what `BDParser.precedence` declares).
  * `.b/.h/.w` = byte / half-word / word = 8 / 16 / 32 bits (lexer docstring "Byte, Halfword, Word";
    `SB21Helper._fill_memory` docstring: `load 0x55.b > …` pattern byte, `load 0x1122.h > 0xf00` "load two bytes").
  * NOT settled, the Spec adopts the implementation's reading and the note records the question:
    `/` and `%` on negative operands (floor, as Python; elftosb/C truncates), the numeric value of `a && b` / `a || b`
    (the deciding operand; C gives 0/1 — the truth value is the same), unary ± at the additive level and the
    int-size suffix binding loosest (yacc: a rule has the precedence of its last terminal with a declared precedence).
-/
import SpsdkVerif.Model.Bd
namespace SpsdkVerif.Bd.Spec
open SpsdkVerif SpsdkVerif.Bd

/-- C operator precedence of the BD operators, lowest first (token names of the lexer). -/
def precedence : List (String × List String) :=
  [("left", ["LOR"]),                       -- ||
   ("left", ["LAND"]),                      -- &&
   ("left", ["OR"]),                        -- |
   ("left", ["XOR"]),                       -- ^
   ("left", ["AND"]),                       -- &
   ("left", ["EQ", "NE"]),                  -- == !=
   ("left", ["GT", "GE", "LT", "LE"]),      -- > >= < <=
   ("left", ["LSHIFT", "RSHIFT"]),          -- << >>
   ("left", ["PLUS", "MINUS"]),             -- + -
   ("left", ["TIMES", "DIVIDE", "MOD"]),    -- * / %
   ("right", ["SIZEOF"]),
   ("right", ["LNOT", "NOT"])]              -- ! ~

def levels : Levels := levelsOf precedence

/-- documented text of each operator -/
def binText : BinOp → String
  | .add => "+" | .sub => "-" | .mul => "*" | .div => "/" | .mod => "%"
  | .shl => "<<" | .shr => ">>" | .band => "&" | .bor => "|" | .bxor => "^"

def cmpText : CmpOp → String
  | .lt => "<" | .le => "<=" | .gt => ">" | .ge => ">=" | .eq => "==" | .ne => "!=" | .land => "&&" | .lor => "||"

/-- number of bits of an int-size suffix -/
def sizeBits : IntSz → Nat
  | .b => 8 | .h => 16 | .w => 32

/-- meaning of a binary arithmetic / bitwise operator on integers -/
def opSem : BinOp → Int → Int → PyRes Int
  | .add, a, b => .ok (a + b)
  | .sub, a, b => .ok (a - b)
  | .mul, a, b => .ok (a * b)
  | .div, a, b => if b = 0 then .error .other else .ok (Int.fdiv a b)
  | .mod, a, b => if b = 0 then .error .other else .ok (Int.fmod a b)
  | .shl, a, b => if b < 0 then .error .other else if b > maxShift then .error .other else .ok (a * 2 ^ b.toNat)
  | .shr, a, b => if b < 0 then .error .other else .ok (Int.fdiv a (2 ^ b.toNat))
  | .band, a, b => .ok (intAnd a b)
  | .bor, a, b => .ok (intOr a b)
  | .bxor, a, b => .ok (intXor a b)

/-- `e.b / e.h / e.w`: truncation to 8 / 16 / 32 bits -/
def sizeSem (s : IntSz) (a : Int) : PyRes Int := .ok (a % 2 ^ sizeBits s)

def truth (a : Int) : Bool := decide (a ≠ 0)
def ofBool (b : Bool) : Int := if b then 1 else 0

/-- comparisons give 1/0; `&&`/`||` give the deciding operand (its truth value is the logical and/or: `land_truth`) -/
def cmpSem : CmpOp → Int → Int → PyRes Int
  | .lt, a, b => .ok (ofBool (decide (a < b)))
  | .le, a, b => .ok (ofBool (decide (a ≤ b)))
  | .gt, a, b => .ok (ofBool (decide (a > b)))
  | .ge, a, b => .ok (ofBool (decide (a ≥ b)))
  | .eq, a, b => .ok (ofBool (decide (a = b)))
  | .ne, a, b => .ok (ofBool (decide (a ≠ b)))
  | .land, a, b => .ok (if a ≠ 0 then b else a)
  | .lor, a, b => .ok (if a ≠ 0 then a else b)

def negSem (a : Int) : PyRes Int := .ok (-a)
def posSem (a : Int) : PyRes Int := .ok a
def lnotSem (a : Int) : PyRes Int := .ok (ofBool (!truth a))
def definedSem (names : List String) (x : String) : Bool := decide (x ∈ names)

/-- A constant denotes its definition; an undefined identifier denotes no integer.  Which of SEVERAL definitions of one
    name counts is not said by any document: the Spec takes the implementation's choice (first or last, read from the source
    as `Generated.BdGrammar.lookupFirstWins`), so that only programs with duplicate definitions depend on it. -/
def lookup (vars : Vars) (x : String) : Val :=
  let vs := if SpsdkVerif.Generated.BdGrammar.lookupFirstWins then vars else vars.reverse
  match vs.find? (fun p => p.1 == x) with
  | some p => p.2
  | none => .sym x

def needInt : Val → PyRes Int
  | .int i => .ok i
  | .sym _ => .error .other

def eval (vars : Vars) : Expr → PyRes Val
  | .lit n => .ok (.int n)
  | .var x => .ok (lookup vars x)
  | .bin o l r => do
    let a ← eval vars l
    let b ← eval vars r
    let x ← needInt a
    let y ← needInt b
    let z ← opSem o x y
    pure (.int z)
  | .neg e => do let a ← eval vars e; let x ← needInt a; let z ← negSem x; pure (.int z)
  | .pos e => do let a ← eval vars e; let x ← needInt a; let z ← posSem x; pure (.int z)
  | .size s e => do let a ← eval vars e; let x ← needInt a; let z ← sizeSem s x; pure (.int z)

def evalB (vars : Vars) : BExpr → PyRes Val
  | .atom e => eval vars e
  | .bin o l r => do
    let a ← evalB vars l
    let b ← evalB vars r
    let x ← needInt a
    let y ← needInt b
    let z ← cmpSem o x y
    pure (.int z)
  | .lnot b => do let a ← evalB vars b; let x ← needInt a; let z ← lnotSem x; pure (.int z)
  | .defined x => .ok (.int (ofBool (definedSem (vars.map (·.1)) x)))

end SpsdkVerif.Bd.Spec
