/-
C05 — Secure Binary 3.1, ROM side (SPEC ONLY).

A loader written from the FORMAT DESCRIPTION with hand-written constants: header parse, certificate block v2.1 walk,
forward hash-chain walk, per-block KDF + AES-CBC decryption, section header, strict command parser.  It is the property's
oracle on the bytes SPSDK produces (driver ops `rom`, `parse`, `romkdf`) and the acceptance side of the theorems of
Properties/C05.lean.

This file imports ONLY the shared crypto library (which sits on Model/Misc's integer codecs): nothing from `Generated/`,
nothing from the model of SPSDK's export path.  No change to /repo can alter what these definitions compute.
The data types shared with the export model (`Cmd`, `Header`) live here for that reason.
-/
import SpsdkVerif.Crypto.Modes

namespace SpsdkVerif.Sb31
open SpsdkVerif SpsdkVerif.Misc SpsdkVerif.Crypto

abbrev Bytes := SpsdkVerif.Misc.Bytes

/-! ## Commands -/

inductive Cmd where
  | erase (addr len memId : Nat)
  | load (addr : Nat) (data : Bytes) (memId : Nat)
  | execute (addr : Nat)
  | call (addr : Nat)
  | progFuses (addr : Nat) (data : Bytes)
  | progIfr (addr : Nat) (data : Bytes)
  | loadCmac (addr : Nat) (data : Bytes) (memId : Nat)
  | copy (addr len dst memFrom memTo : Nat)
  | loadHashLocking (addr : Nat) (data : Bytes) (memId : Nat)
  | loadKeyBlob (offset : Nat) (data : Bytes) (keyWrapId : Nat)
  | configureMemory (addr memId : Nat)
  | fillMemory (addr len pattern : Nat)
  | fwVersionCheck (value counterId : Nat)
  | reset
  deriving DecidableEq, Repr, Inhabited

structure Header where
  flags : Nat
  blockCount : Nat
  blockSize : Nat
  timestamp : Nat
  fwVersion : Nat
  totalLength : Nat
  imageType : Nat
  certOffset : Nat
  description : Bytes
  deriving DecidableEq, Repr

/-! # The loader -/

namespace Rom

inductive RomErr where
  | truncated | magic | version | blockSize | certOffset | imageType | blockCount | totalLength
  | certMagic | certVersion | certSize | certCurve | certRootCount | certRootHash | certRotkh | certIsk | certTrailing
  | iskSignature | curveMismatch | signature | fileLength
  | blockHash (i : Nat) | blockNumber (i : Nat) | lastHashNotZero
  | sectionHeader | sectionLength | padding | cmdMagic | cmdTag | cmdReserved | cmdPadding | fuel
  deriving DecidableEq, Repr

def RomErr.name : RomErr → String
  | .truncated => "truncated" | .magic => "magic" | .version => "version" | .blockSize => "blockSize"
  | .certOffset => "certOffset" | .imageType => "imageType" | .blockCount => "blockCount" | .totalLength => "totalLength"
  | .certMagic => "certMagic" | .certVersion => "certVersion" | .certSize => "certSize" | .certCurve => "certCurve"
  | .certRootCount => "certRootCount" | .certRootHash => "certRootHash" | .certRotkh => "certRotkh" | .certIsk => "certIsk"
  | .certTrailing => "certTrailing" | .iskSignature => "iskSignature" | .curveMismatch => "curveMismatch"
  | .signature => "signature" | .fileLength => "fileLength" | .blockHash i => s!"blockHash{i}"
  | .blockNumber i => s!"blockNumber{i}" | .lastHashNotZero => "lastHashNotZero" | .sectionHeader => "sectionHeader"
  | .sectionLength => "sectionLength" | .padding => "padding" | .cmdMagic => "cmdMagic" | .cmdTag => "cmdTag"
  | .cmdReserved => "cmdReserved" | .cmdPadding => "cmdPadding" | .fuel => "fuel"

abbrev R := Except RomErr

def check (b : Bool) (e : RomErr) : R Unit := if b then .ok () else .error e

/-- take `n` raw bytes -/
def takeB (n : Nat) (b : Bytes) : R (Bytes × Bytes) :=
  if n ≤ b.length then .ok (b.take n, b.drop n) else .error .truncated

/-- take an `n`-byte little-endian unsigned integer -/
def takeU (n : Nat) (b : Bytes) : R (Nat × Bytes) :=
  if n ≤ b.length then .ok (leDec (b.take n), b.drop n) else .error .truncated

def allZero (b : Bytes) : Bool := b.all (· == 0)

/-- number of zero bytes that pad `n` bytes to a multiple of 16 -/
def pad16 (n : Nat) : Nat := (16 - n % 16) % 16

/-! ### commands: 16-byte header `55AAAA55 | word1 | word2 | tag`, then a tag-specific tail -/

/-- `len` data bytes followed by zero padding to a 16-byte boundary -/
def takeData (len : Nat) (b : Bytes) : R (Bytes × Bytes) := do
  let (d, b) ← takeB len b
  let (p, b) ← takeB (pad16 len) b
  check (allZero p) .cmdPadding
  pure (d, b)

/-- one word followed by three reserved zero words -/
def takeWordRes3 (b : Bytes) : R (Nat × Bytes) := do
  let (w, b) ← takeU 4 b
  let (r, b) ← takeB 12 b
  check (allZero r) .cmdReserved
  pure (w, b)

/-- the tag-specific part of a command, after its 16-byte header `55AAAA55 | word1 | word2 | tag`.
    An unknown tag is REFUSED (`cmdTag`): the decoder never skips bytes it does not understand. -/
def parseTail (tag w1 w2 : Nat) (b : Bytes) : R (Cmd × Bytes) := do
  if tag == 1 then
    let (m, b) ← takeWordRes3 b
    pure (.erase w1 w2 m, b)
  else if tag == 2 then
    let (m, b) ← takeWordRes3 b
    let (d, b) ← takeData w2 b
    pure (.load w1 d m, b)
  else if tag == 3 then
    check (w2 == 0) .cmdReserved
    pure (.execute w1, b)
  else if tag == 4 then
    check (w2 == 0) .cmdReserved
    pure (.call w1, b)
  else if tag == 5 then
    -- PROGRAM_FUSES: the length counts 32-bit words
    let (d, b) ← takeData (4 * w2) b
    pure (.progFuses w1 d, b)
  else if tag == 6 then
    let (d, b) ← takeData w2 b
    pure (.progIfr w1 d, b)
  else if tag == 7 then
    let (m, b) ← takeWordRes3 b
    let (d, b) ← takeData w2 b
    pure (.loadCmac w1 d m, b)
  else if tag == 8 then
    let (dst, b) ← takeU 4 b
    let (mf, b) ← takeU 4 b
    let (mt, b) ← takeU 4 b
    let (r, b) ← takeU 4 b
    check (r == 0) .cmdReserved
    pure (.copy w1 w2 dst mf mt, b)
  else if tag == 9 then
    -- LOAD_HASH_LOCKING: a load followed by 64 reserved bytes (the device fills in the hash)
    let (m, b) ← takeWordRes3 b
    let (d, b) ← takeData w2 b
    let (r, b) ← takeB 64 b
    check (allZero r) .cmdReserved
    pure (.loadHashLocking w1 d m, b)
  else if tag == 10 then
    -- LOAD_KEY_BLOB: word1 = 16-bit offset | 16-bit key wrap id << 16, word2 = length
    let (d, b) ← takeData w2 b
    pure (.loadKeyBlob (w1 % 65536) d (w1 / 65536), b)
  else if tag == 11 then
    -- CONFIGURE_MEMORY: word1 = memory id, word2 = address of the configuration
    pure (.configureMemory w2 w1, b)
  else if tag == 12 then
    let (p, b) ← takeWordRes3 b
    pure (.fillMemory w1 w2 p, b)
  else if tag == 13 then
    pure (.fwVersionCheck w1 w2, b)
  else if tag == 14 then
    check (w1 == 0 && w2 == 0) .cmdReserved
    pure (.reset, b)
  else throw .cmdTag

def parseCmd (b : Bytes) : R (Cmd × Bytes) := do
  let (magic, b) ← takeU 4 b
  check (magic == 0x55AAAA55) .cmdMagic
  let (w1, b) ← takeU 4 b
  let (w2, b) ← takeU 4 b
  let (tag, b) ← takeU 4 b
  parseTail tag w1 w2 b

/-- a command sequence: `parseCmds fuel bytes`.  Every accepted command consumes at least 16 bytes (`parseCmd_progress`), so fuel =
    number of remaining bytes is never exhausted (`parseCmds_fuel_suffices`); the only loop of the decoder is this structural recursion. -/
def parseCmds : Nat → Bytes → R (List Cmd)
  | 0, b => if b.isEmpty then pure [] else throw .fuel
  | f + 1, b =>
    if b.isEmpty then pure [] else do
      let (cmd, rest) ← parseCmd b
      let more ← parseCmds f rest
      pure (cmd :: more)

/-! ### key derivation: NIST SP 800-108 counter mode with CMAC, fixed input
    `label(12, LE derivation constant) | context(12) | length(4, BE bits) | counter(4, BE)` where
    context = 8 zero bytes | access rights << 6 | 0x01 (KDK) / 0x10 (block key) | 0 | 0x20 (128 bit) / 0x21 (256 bit) -/

def kdfInput (const rights : Nat) (blockKey : Bool) (keyBits counter : Nat) : Bytes :=
  leEnc 12 const ++ zeros 8 ++ [UInt8.ofNat (rights * 64), (if blockKey then 0x10 else 0x01), 0,
    (if keyBits = 256 then 0x21 else 0x20)] ++ beEnc 4 keyBits ++ beEnc 4 counter

def kdf (c : CryptoOps) (key : Bytes) (const rights : Nat) (blockKey : Bool) (keyBits : Nat) : Bytes :=
  cmac c key (kdfInput const rights blockKey keyBits 1) ++
  (if keyBits = 256 then cmac c key (kdfInput const rights blockKey keyBits 2) else [])

/-! ### certificate block v2.1 -/

structure CertInfo where
  signPub : Bytes     -- public key (x ‖ y) that signs the container: the ISK if present, else the root key
  coord : Nat         -- its coordinate length (32: P-256, 48: P-384)
  deriving DecidableEq, Repr

/-- a signature check the loader performs: `verify alg pub msg sig` -/
structure SigOb where
  coord : Nat
  pub : Bytes
  msg : Bytes
  sig : Bytes
  deriving DecidableEq, Repr

def coordOfCurve (nibble : Nat) : R Nat :=
  if nibble = 1 then pure 32 else if nibble = 2 then pure 48 else throw .certCurve

def algOfCoord (coord : Nat) : HashAlg := if coord = 48 then .sha384 else .sha256

/-- walk `chdr | minor | major | size | root key record | [ISK certificate]`; check the root key against the
    root-of-trust hash `rotkh` fused in the device and the ISK certificate against the root key -/
def romCert (c : CryptoOps) (rotkh : Bytes) (cert : Bytes) : R (CertInfo × List SigOb) := do
  let (magic, b) ← takeB 4 cert
  check (magic == [0x63, 0x68, 0x64, 0x72]) .certMagic
  let (minor, b) ← takeU 2 b
  let (major, b) ← takeU 2 b
  check (major == 2 && minor == 1) .certVersion
  let (size, b) ← takeU 4 b
  check (size == cert.length) .certSize
  -- root key record
  let (flags, b) ← takeU 4 b
  let coordR ← coordOfCurve (flags % 16)
  let n := flags / 16 % 16
  let used := flags / 256 % 16
  let ca := flags / 2147483648 % 2 == 1
  check (1 ≤ n && n ≤ 4 && used < n) .certRootCount
  let algR := algOfCoord coordR
  let (table, b) ← takeB (if n > 1 then n * coordR else 0) b
  let (rootPub, b) ← takeB (2 * coordR) b
  let keyHash := c.hash algR rootPub
  if n > 1 then
    check ((table.drop (used * coordR)).take coordR == keyHash) .certRootHash
    check (c.hash algR table == rotkh) .certRotkh
  else
    check (keyHash == rotkh) .certRotkh
  if ca then
    check b.isEmpty .certTrailing
    pure (⟨rootPub, coordR⟩, [])
  else
    let record := (cert.drop 12).take (4 + table.length + 2 * coordR)
    let (sigOff, b1) ← takeU 4 b
    let (_, b1) ← takeU 4 b1           -- constraints
    let (iflags, b1) ← takeU 4 b1
    let coordI ← coordOfCurve (iflags % 16)
    check (12 + 2 * coordI ≤ sigOff) .certIsk
    let (iskPub, b1) ← takeB (2 * coordI) b1
    let (userData, b1) ← takeB (sigOff - 12 - 2 * coordI) b1
    check ((iflags / 2147483648 % 2 == 1) == !userData.isEmpty) .certIsk
    let (iskSig, b1) ← takeB (2 * coordR) b1
    check b1.isEmpty .certTrailing
    let msg := record ++ b.take sigOff
    check (c.verify (.ecdsa algR) rootPub msg iskSig) .iskSignature
    pure (⟨iskPub, coordI⟩, [⟨coordR, rootPub, msg, iskSig⟩])

/-! ### the container -/

/-- device-side configuration: part common key, KDK access rights, whether the command blocks are
    encrypted (plain containers are a test mode), root-of-trust key hash -/
structure Dev where
  pck : Bytes
  rights : Nat
  encrypted : Bool
  rotkh : Bytes
  deriving Repr

def parseHeader (b : Bytes) : R (Header × Bytes) := do
  let (magic, b) ← takeB 4 b
  check (magic == [0x73, 0x62, 0x76, 0x33]) .magic
  let (minor, b) ← takeU 2 b
  let (major, b) ← takeU 2 b
  check (major == 3 && minor == 1) .version
  let (flags, b) ← takeU 4 b
  let (blockCount, b) ← takeU 4 b
  let (blockSize, b) ← takeU 4 b
  let (timestamp, b) ← takeU 8 b
  let (fwVersion, b) ← takeU 4 b
  let (totalLength, b) ← takeU 4 b
  let (imageType, b) ← takeU 4 b
  let (certOffset, b) ← takeU 4 b
  let (description, b) ← takeB 16 b
  pure (⟨flags, blockCount, blockSize, timestamp, fwVersion, totalLength, imageType, certOffset, description⟩, b)

/-- follow the hash chain: block `i` must hash to `expected`, carries its number, the hash of block `i+1`
    and 256 payload bytes; after the last block the carried hash must be all zero and nothing may follow -/
def walk (c : CryptoOps) (alg : HashAlg) (hl : Nat) (dec : Nat → Bytes → Bytes) :
    Nat → Nat → Bytes → Bytes → R Bytes
  | 0, _, expected, rest => do
    check (expected == zeros hl) .lastHashNotZero
    check rest.isEmpty .fileLength
    pure []
  | k + 1, i, expected, rest => do
    let (blk, rest) ← takeB (4 + hl + 256) rest
    check (c.hash alg blk == expected) (.blockHash i)
    let (num, b) ← takeU 4 blk
    check (num == i) (.blockNumber i)
    let (next, payload) ← takeB hl b
    let more ← walk c alg hl dec k (i + 1) next rest
    pure (dec i payload ++ more)

structure RomOk where
  hdr : Header
  cmds : List Cmd
  obligations : List SigOb
  deriving DecidableEq, Repr

/-- what block 0 (header | hash of block 1 | certificate block | signature) yields -/
structure Block0 where
  hdr : Header
  hl : Nat            -- hash length = coordinate length of the signing key
  h1 : Bytes          -- expected hash of data block 1
  obs : List SigOb
  rest : Bytes        -- the data blocks
  deriving DecidableEq, Repr

/-- block size = 4 (number) + hash length + 256 (payload); SHA-256 or SHA-384 -/
def hashLenOfBlockSize (bs : Nat) : R Nat :=
  if bs = 292 then pure 32 else if bs = 308 then pure 48 else throw .blockSize

def parseBlock0 (c : CryptoOps) (rotkh : Bytes) (file : Bytes) : R Block0 := do
  let (hdr, b) ← parseHeader file
  let hl ← hashLenOfBlockSize hdr.blockSize
  check (hdr.certOffset == 60 + hl) .certOffset
  check (hdr.imageType == 6 || hdr.imageType == 7) .imageType
  check (1 ≤ hdr.blockCount) .blockCount
  -- block 0 = header | hash of block 1 | certificate block | signature ; its length is `totalLength`
  let (h1, b) ← takeB hl b
  check (60 + hl + 2 * hl ≤ hdr.totalLength) .totalLength
  let signedLen := hdr.totalLength - 2 * hl
  let (cert, b) ← takeB (signedLen - (60 + hl)) b
  let (sig, b) ← takeB (2 * hl) b
  let (ci, obs) ← romCert c rotkh cert
  check (ci.coord == hl) .curveMismatch
  let signed := file.take signedLen
  check (c.verify (.ecdsa (algOfCoord hl)) ci.signPub signed sig) .signature
  check (b.length == hdr.blockCount * hdr.blockSize) .fileLength
  pure ⟨hdr, hl, h1, obs ++ [⟨hl, ci.signPub, signed, sig⟩], b⟩

def keyBitsOf (hl : Nat) : Nat := if hl = 48 then 256 else 128

/-- payload decryption of block `i`: AES-CBC, zero IV, key derived from the KDK and the block number -/
def decFn (c : CryptoOps) (dev : Dev) (timestamp hl : Nat) : Nat → Bytes → Bytes :=
  let kdk := kdf c dev.pck timestamp dev.rights false (keyBitsOf hl)
  fun i p => if dev.encrypted then cbcDec c (kdf c kdk i dev.rights true (keyBitsOf hl)) (zeros 16) p else p

/-- section header | commands | zero padding (less than one block) -/
def parseStream (stream : Bytes) : R (List Cmd) := do
  let (uid, s) ← takeU 4 stream
  let (typ, s) ← takeU 4 s
  let (len, s) ← takeU 4 s
  let (res, s) ← takeU 4 s
  check (uid == 1 && typ == 1 && res == 0) .sectionHeader
  let (body, pad) ← takeB len s
  check (allZero pad && pad.length < 256) .padding
  parseCmds body.length body

def romLoad (c : CryptoOps) (dev : Dev) (file : Bytes) : R RomOk := do
  let b0 ← parseBlock0 c dev.rotkh file
  let stream ← walk c (algOfCoord b0.hl) b0.hl (decFn c dev b0.hdr.timestamp b0.hl) b0.hdr.blockCount 1 b0.h1 b0.rest
  let cmds ← parseStream stream
  pure ⟨b0.hdr, cmds, b0.obs⟩

/-- byte ranges `(start, length)` of the file that `romLoad` authenticates, in file order: the signed range,
    the signature itself, then every data block (block 1 by the hash in the signed range, block i+1 by the
    hash carried in block i) -/
def coverage (hdr : Header) (hl : Nat) : List (Nat × Nat) :=
  (0, hdr.totalLength - 2 * hl) :: (hdr.totalLength - 2 * hl, 2 * hl) ::
  (List.range hdr.blockCount).map (fun i => (hdr.totalLength + i * hdr.blockSize, hdr.blockSize))

/-- length of `n` bytes padded to a 16-byte boundary -/
def a16 (n : Nat) : Nat := n + pad16 n

/-- size of a command in the stream, from the format description -/
def cmdSize : Cmd → Nat
  | .erase .. => 32
  | .load _ d _ => 32 + a16 d.length
  | .execute _ => 16
  | .call _ => 16
  | .progFuses _ d => 16 + a16 d.length
  | .progIfr _ d => 16 + a16 d.length
  | .loadCmac _ d _ => 32 + a16 d.length
  | .copy .. => 32
  | .loadHashLocking _ d _ => 32 + a16 d.length + 64
  | .loadKeyBlob _ d _ => 16 + a16 d.length
  | .configureMemory .. => 16
  | .fillMemory .. => 32
  | .fwVersionCheck .. => 16
  | .reset => 16

/-- length of the plaintext stream: 16-byte section header + commands -/
def streamLen (cmds : List Cmd) : Nat := 16 + (cmds.map cmdSize).sum

end Rom

end SpsdkVerif.Sb31
