/-
C04 — the boot ROM side of Secure Binary 2.0 / 2.1, SPEC ONLY.

Moved out of Model/Sb2.lean (same namespace and names, `SpsdkVerif.Sb2.Rom.*`) so that nothing on the path of the
driver ops `rom_cmd`, `rom21`, `rom20` imports `Generated/` or the hand model of the code: this file imports only the byte
codecs (`Model/Misc.lean`, hand-written, no generated import) and `Crypto/*`.  No change to /repo can alter what these
functions compute; the harness' oracle ("the ROM model accepts SPSDK's file and reports the given content") may therefore
rely on them (`ck.spec_ops`, see tools/FAULT_SELFTEST_BRIEF.md).

Written independently of the builder model, from the file format, with its own constants (`Rom.Spec`): reads the file the
way a loader does — header fields locate key blob / certificate block / first boot tag, the block counter of a ciphertext
block is `nonce counter + file offset / 16`, every MAC / checksum / CRC / SHA-256 is checked before the content is
returned.  Signature *verification* is not done here: the ROM returns the obligation `(signedLen, signature, certBlock)`
and the harness discharges it with `cryptography` directly.  No Mathlib.
-/
import SpsdkVerif.Model.Misc
import SpsdkVerif.Crypto.Modes
import SpsdkVerif.Crypto.Crc

namespace SpsdkVerif.Sb2
open SpsdkVerif
open SpsdkVerif.Misc (Bytes beEnc beDec leEnc leDec)
open SpsdkVerif.Crypto (CryptoOps HashAlg xorBytes hmac kwUnwrap)

/-- a BCD version triple of the image header -/
structure Version3 where
  major : Nat
  minor : Nat
  service : Nat
  deriving DecidableEq, Repr, Inhabited

/-! # Part 2 — the boot ROM (independent of Part 1; own constants) -/

namespace Rom

/-! The file format as the loader knows it (hand-written; `Properties/C04.lean` proves that the
    constants generated from SPSDK's sources agree). -/
namespace Spec
def tagNop : Nat := 0
def tagTag : Nat := 1
def tagLoad : Nat := 2
def tagFill : Nat := 3
def tagJump : Nat := 4
def tagCall : Nat := 5
def tagErase : Nat := 7
def tagReset : Nat := 8
def tagMemEnable : Nat := 9
def tagProg : Nat := 10
def tagFwVersionCheck : Nat := 11
def tagWrKeystoreToNv : Nat := 12
def tagWrKeystoreFromNv : Nat := 13
def checksumSeed : Nat := 0x5A
def cmdHeaderSize : Nat := 16
/-- command header: checksum, tag, flags(2), address(4), count(4), data(4), little endian -/
def cmdHeaderWidths : List Nat := [1, 1, 2, 4, 4, 4]
def sectBootable : Nat := 0x0001
def sectCleartext : Nat := 0x0002
def sectLast : Nat := 0x8000
def jumpSpFlag : Nat := 0x0002
def imageHeaderSize : Nat := 96
/-- image header field widths: nonce, pad, 'STMP', major, minor, flags, imageBlocks, firstBootTagBlock,
    firstBootSectionId, offsetToCertBlock, headerBlocks, keyBlobBlock, keyBlobBlockCount, maxSectionMacCount,
    'sgtl', timestamp, 3 x (version, pad) product, 3 x (version, pad) component, buildNumber, pad -/
def imageHeaderWidths : List Nat :=
  [16, 4, 4, 1, 1, 2, 4, 4, 4, 4, 2, 2, 2, 2, 4, 8, 2, 2, 2, 2, 2, 2, 2, 2, 2, 2, 2, 2, 4, 4]
def signature1 : Bytes := [0x53, 0x54, 0x4D, 0x50]   -- "STMP"
def signature2 : Bytes := [0x73, 0x67, 0x74, 0x6C]   -- "sgtl"
def macSize : Nat := 32
def wrappedKeysSize : Nat := 72     -- RFC 3394 of 64 bytes
def flagSha : Nat := 0x8000
def flagSigned : Nat := 0x0008
def flagUnsignedV20 : Nat := 0x0004
def shaSize : Nat := 32
def certSectionMark : Nat := 0x6E676973   -- "sign" read as little-endian u32
/-- certificate block header: 'cert', major(2), minor(2), headerLength(4), flags(4), buildNumber(4),
    totalImageLength(4), certificateCount(4), certificateTableLength(4) -/
def certHeaderWidths : List Nat := [4, 2, 2, 4, 4, 4, 4, 4, 4]
def certHeaderSize : Nat := 32
def certSignature : Bytes := [0x63, 0x65, 0x72, 0x74]  -- "cert"
def rkhTableSize : Nat := 128       -- 4 root key hashes of 32 bytes
end Spec

inductive RomErr where
  | truncated        -- the file ends before a structure the header announces
  | badSignature     -- 'STMP' / 'sgtl' / 'cert' marker
  | badVersion
  | badLayout        -- header fields contradict each other or the file size
  | badKeyBlob       -- RFC 3394 integrity check (wrong KEK or corrupted blob)
  | badHeaderMac
  | badSectionMac
  | badChecksum      -- command / section header checksum
  | badCrc           -- LOAD payload CRC
  | badTag           -- unknown command tag, or a section that does not start with a boot tag
  | badSha
  deriving DecidableEq, Repr, Inhabited

def RomErr.name : RomErr → String
  | .truncated => "truncated" | .badSignature => "badSignature" | .badVersion => "badVersion"
  | .badLayout => "badLayout" | .badKeyBlob => "badKeyBlob" | .badHeaderMac => "badHeaderMac"
  | .badSectionMac => "badSectionMac" | .badChecksum => "badChecksum" | .badCrc => "badCrc"
  | .badTag => "badTag" | .badSha => "badSha"

/-- what the loader does with one command -/
inductive RomCmd where
  | nop
  | tag (flags address count data : Nat)
  | load (address flags : Nat) (data : Bytes)   -- memory = flags bits 8..15 (device), 4..7 (group)
  | fill (address pattern count : Nat)
  | jump (address argument : Nat) (sp : Option Nat)
  | call (address argument : Nat)
  | erase (address count flags : Nat)
  | reset
  | memEnable (address size flags : Nat)
  | prog (address word1 word2 flags : Nat)
  | fwVersionCheck (kind version : Nat)
  | keystoreToNv (address flags : Nat)
  | keystoreFromNv (address flags : Nat)
  deriving DecidableEq, Repr, Inhabited

/-- cut `d` into consecutive fields of the given widths (`none`: too short) -/
def splitW : List Nat → Bytes → Option (List Bytes)
  | [], _ => some []
  | w :: ws, d =>
    if d.length < w then none
    else match splitW ws (d.drop w) with
      | none => none
      | some r => some (d.take w :: r)

def sumBytes (d : Bytes) : Nat := (d.map UInt8.toNat).sum

structure RawHdr where
  tag : Nat
  flags : Nat
  address : Nat
  count : Nat
  data : Nat
  deriving DecidableEq, Repr, Inhabited

/-- 16-byte command / section header: fields and checksum (`0x5A + Σ bytes 1..15` mod 256) -/
def readHdr (d : Bytes) : Except RomErr RawHdr :=
  match splitW Spec.cmdHeaderWidths d with
  | some [ck, tg, fl, ad, ct, dt] =>
    if (Spec.checksumSeed + sumBytes ((d.take Spec.cmdHeaderSize).drop 1)) % 256 ≠ leDec ck then .error .badChecksum
    else .ok ⟨leDec tg, leDec fl, leDec ad, leDec ct, leDec dt⟩
  | _ => .error .truncated

/-- CRC-32/MPEG-2 as a 32-bit value (`% 2^32` is the identity on the 32-bit register) -/
def crc32Mpeg (d : Bytes) : Nat := Crypto.Crc.crc Crypto.Crc.crc32Mpeg2 d % 2 ^ 32

/-- one command at the head of the (decrypted) stream: the action and the number of bytes consumed -/
def readCmd (d : Bytes) : Except RomErr (RomCmd × Nat) :=
  match readHdr d with
  | .error e => .error e
  | .ok h =>
    if h.tag = Spec.tagNop then .ok (.nop, 16)
    else if h.tag = Spec.tagTag then .ok (.tag h.flags h.address h.count h.data, 16)
    else if h.tag = Spec.tagLoad then
      let n := (h.count + 15) / 16 * 16
      if d.length < 16 + n then .error .truncated
      else if crc32Mpeg ((d.drop 16).take n) ≠ h.data then .error .badCrc
      else .ok (.load h.address h.flags ((d.drop 16).take h.count), 16 + n)
    else if h.tag = Spec.tagFill then .ok (.fill h.address h.data h.count, 16)
    else if h.tag = Spec.tagJump then
      .ok (.jump h.address h.data (if h.flags &&& Spec.jumpSpFlag ≠ 0 then some h.count else none), 16)
    else if h.tag = Spec.tagCall then .ok (.call h.address h.data, 16)
    else if h.tag = Spec.tagErase then .ok (.erase h.address h.count h.flags, 16)
    else if h.tag = Spec.tagReset then .ok (.reset, 16)
    else if h.tag = Spec.tagMemEnable then .ok (.memEnable h.address h.count h.flags, 16)
    else if h.tag = Spec.tagProg then .ok (.prog h.address h.count h.data h.flags, 16)
    else if h.tag = Spec.tagFwVersionCheck then .ok (.fwVersionCheck h.address h.count, 16)
    else if h.tag = Spec.tagWrKeystoreToNv then .ok (.keystoreToNv h.address h.flags, 16)
    else if h.tag = Spec.tagWrKeystoreFromNv then .ok (.keystoreFromNv h.address h.flags, 16)
    else .error .badTag

/-- the whole command stream of a section (`fuel` ≥ number of commands; `d.length` always suffices) -/
def readCmds : Nat → Bytes → Except RomErr (List RomCmd)
  | 0, d => if d.isEmpty then .ok [] else .error .truncated
  | fuel + 1, d =>
    if d.isEmpty then .ok []
    else match readCmd d with
      | .error e => .error e
      | .ok (x, n) =>
        match readCmds fuel (d.drop n) with
        | .error e => .error e
        | .ok xs => .ok (x :: xs)

/-- key stream block for the ciphertext block at file offset `off` (a multiple of 16):
    AES-256(dek, nonce[0..12] ‖ LE32(nonce counter + off / 16)) -/
def ksAt (c : CryptoOps) (dek nonce : Bytes) (off : Nat) : Bytes :=
  c.encBlk dek (nonce.take 12 ++ leEnc 4 (leDec (nonce.drop 12) + off / 16))

/-- decrypt `n` blocks of the file starting at offset `off` -/
def decryptAt (c : CryptoOps) (dek nonce : Bytes) (file : Bytes) : Nat → Nat → Bytes
  | 0, _ => []
  | n + 1, off => xorBytes ((file.drop off).take 16) (ksAt c dek nonce off) ++ decryptAt c dek nonce file n (off + 16)

def slice (d : Bytes) (off len : Nat) : Bytes := (d.drop off).take len

/-- check `hc` table entries (`tbl`) against the ciphertext `ct`: the first `hc - 1` cover `bs` bytes
    each, the last one the rest -/
def checkMacs (c : CryptoOps) (mac : Bytes) : Nat → Nat → Bytes → Bytes → Bool
  | 0, _, _, _ => true
  | 1, _, tbl, ct => tbl.take 32 == hmac c .sha256 mac ct
  | n + 2, bs, tbl, ct =>
    (tbl.take 32 == hmac c .sha256 mac (ct.take bs)) && checkMacs c mac (n + 1) bs (tbl.drop 32) (ct.drop bs)

structure RomSection where
  uid : Nat
  flags : Nat
  hmacCount : Nat
  cmds : List RomCmd
  deriving DecidableEq, Repr, Inhabited

/-- one boot section at file offset `pos`: the section and the offset just behind it -/
def readSection (c : CryptoOps) (dek mac nonce file : Bytes) (pos : Nat) : Except RomErr (RomSection × Nat) :=
  if file.length < pos + 48 then .error .truncated
  else
    let eh := slice file pos 16
    if slice file (pos + 16) 32 ≠ hmac c .sha256 mac eh then .error .badSectionMac
    else match readHdr (xorBytes eh (ksAt c dek nonce pos)) with
      | .error e => .error e
      | .ok h =>
        if h.tag ≠ Spec.tagTag then .error .badTag
        else if h.data = 0 ∨ h.count < h.data then .error .badLayout
        else
          let body := pos + 48 + 32 * h.data
          let len := 16 * h.count
          if file.length < body + len then .error .truncated
          else if !checkMacs c mac h.data (h.count / h.data * 16) (slice file (pos + 48) (32 * h.data)) (slice file body len) then
            .error .badSectionMac
          else match readCmds h.count (decryptAt c dek nonce file h.count body) with
            | .error e => .error e
            | .ok cmds => .ok (⟨h.address, h.flags, h.data, cmds⟩, body + len)

/-- boot sections from `pos` up to `stop` (`fuel` ≥ number of sections) -/
def readSections (c : CryptoOps) (dek mac nonce file : Bytes) (stop : Nat) : Nat → Nat → Except RomErr (List RomSection)
  | 0, pos => if pos = stop then .ok [] else .error .badLayout
  | fuel + 1, pos =>
    if pos = stop then .ok []
    else if pos > stop then .error .badLayout
    else match readSection c dek mac nonce file pos with
      | .error e => .error e
      | .ok (s, next) =>
        match readSections c dek mac nonce file stop fuel next with
        | .error e => .error e
        | .ok ss => .ok (s :: ss)

structure Content where
  major : Nat
  minor : Nat
  flags : Nat
  imageBlocks : Nat
  firstBootTagBlock : Nat
  firstBootSectionId : Nat
  offsetToCert : Nat
  headerBlocks : Nat
  keyBlobBlock : Nat
  keyBlobBlockCount : Nat
  maxSectionMacCount : Nat
  timestamp : Nat
  productVersion : Version3
  componentVersion : Version3
  buildNumber : Nat
  nonce : Bytes
  dek : Bytes
  mac : Bytes
  sections : List RomSection
  /-- signature obligation: `signature` must verify over `file[0 : signedLen]` with the key of the last
      certificate of `certBlock` (empty = unsigned SB 2.0) -/
  signedLen : Nat
  signature : Bytes
  certBlock : Bytes
  deriving DecidableEq, Repr, Inhabited

structure Hdr where
  nonce : Bytes
  major : Nat
  minor : Nat
  flags : Nat
  imageBlocks : Nat
  firstBootTagBlock : Nat
  firstBootSectionId : Nat
  offsetToCert : Nat
  headerBlocks : Nat
  keyBlobBlock : Nat
  keyBlobBlockCount : Nat
  maxSectionMacCount : Nat
  timestamp : Nat
  productVersion : Version3
  componentVersion : Version3
  buildNumber : Nat
  deriving DecidableEq, Repr, Inhabited

/-- the 96-byte image header (BCD version numbers are stored big-endian in 16-bit fields) -/
def readImageHdr (file : Bytes) : Except RomErr Hdr :=
  match splitW Spec.imageHeaderWidths file with
  | some [nonce, _, s1, mj, mn, fl, ib, fbt, fbs, oc, hb, kbb, kbc, mmc, s2, ts, p0, _, p1, _, p2, _, c0, _, c1, _, c2, _, bn, _] =>
    if s1 ≠ Spec.signature1 ∨ s2 ≠ Spec.signature2 then .error .badSignature
    else .ok { nonce := nonce, major := leDec mj, minor := leDec mn, flags := leDec fl, imageBlocks := leDec ib,
               firstBootTagBlock := leDec fbt, firstBootSectionId := leDec fbs, offsetToCert := leDec oc,
               headerBlocks := leDec hb, keyBlobBlock := leDec kbb, keyBlobBlockCount := leDec kbc,
               maxSectionMacCount := leDec mmc, timestamp := leDec ts,
               productVersion := ⟨beDec p0, beDec p1, beDec p2⟩, componentVersion := ⟨beDec c0, beDec c1, beDec c2⟩,
               buildNumber := leDec bn }
  | _ => .error .truncated

/-- DEK and MAC key from the key blob the header points to -/
def readKeys (c : CryptoOps) (kek file : Bytes) (h : Hdr) : Except RomErr (Bytes × Bytes) :=
  if h.keyBlobBlockCount * 16 < Spec.wrappedKeysSize ∨ file.length < (h.keyBlobBlock + h.keyBlobBlockCount) * 16 then .error .truncated
  else match kwUnwrap c kek (slice file (h.keyBlobBlock * 16) Spec.wrappedKeysSize) with
    | none => .error .badKeyBlob
    | some k => if k.length ≠ 64 then .error .badKeyBlob else .ok (k.take 32, k.drop 32)

/-- length of the certificate block that starts at `off` (header + certificate table + RKH table, 16-aligned) -/
def certBlockLen (file : Bytes) (off : Nat) : Except RomErr Nat :=
  match splitW Spec.certHeaderWidths (file.drop off) with
  | some [sg, _, _, hl, _, _, _, _, ctl] =>
    if sg ≠ Spec.certSignature then .error .badSignature
    else if leDec hl ≠ Spec.certHeaderSize then .error .badLayout
    else .ok ((Spec.certHeaderSize + leDec ctl + Spec.rkhTableSize + 15) / 16 * 16)
  | _ => .error .truncated

def mkContent (h : Hdr) (dek mac : Bytes) (ss : List RomSection) (signedLen : Nat) (sig cert : Bytes) : Content :=
  { major := h.major, minor := h.minor, flags := h.flags, imageBlocks := h.imageBlocks,
    firstBootTagBlock := h.firstBootTagBlock, firstBootSectionId := h.firstBootSectionId,
    offsetToCert := h.offsetToCert, headerBlocks := h.headerBlocks, keyBlobBlock := h.keyBlobBlock,
    keyBlobBlockCount := h.keyBlobBlockCount, maxSectionMacCount := h.maxSectionMacCount, timestamp := h.timestamp,
    productVersion := h.productVersion, componentVersion := h.componentVersion, buildNumber := h.buildNumber,
    nonce := h.nonce, dek := dek, mac := mac, sections := ss, signedLen := signedLen, signature := sig, certBlock := cert }

/-- SB 2.1: header ‖ HMAC ‖ key blob ‖ certificate block ‖ [SHA-256 of the sections] ‖ signature ‖ sections.
    The header HMAC authenticates the first section's MAC table; the signature covers everything before it. -/
def romV21 (c : CryptoOps) (kek file : Bytes) : Except RomErr Content :=
  match readImageHdr file with
  | .error e => .error e
  | .ok h =>
    if h.major ≠ 2 ∨ h.minor ≠ 1 then .error .badVersion
    else if h.flags &&& Spec.flagSigned = 0 then .error .badLayout
    else if h.headerBlocks * 16 ≠ Spec.imageHeaderSize then .error .badLayout
    else match readKeys c kek file h with
      | .error e => .error e
      | .ok (dek, mac) =>
        match certBlockLen file h.offsetToCert with
        | .error e => .error e
        | .ok certLen =>
          let sha := h.flags &&& Spec.flagSha ≠ 0
          let signedLen := h.offsetToCert + certLen + (if sha then Spec.shaSize else 0)
          let start := h.firstBootTagBlock * 16
          let stop := h.imageBlocks * 16
          if h.offsetToCert < (h.keyBlobBlock + h.keyBlobBlockCount) * 16 ∨ start < signedLen ∨ stop < start ∨ file.length ≠ stop then
            .error .badLayout
          else if sha && (slice file (signedLen - Spec.shaSize) Spec.shaSize != c.hash .sha256 (slice file start (stop - start))) then
            .error .badSha
          else match readSections c dek mac h.nonce file stop (file.length / 16 + 1) start with
            | .error e => .error e
            | .ok ss =>
              match ss with
              | [] => .error .badLayout
              | s0 :: _ =>
                if slice file Spec.imageHeaderSize Spec.macSize ≠ hmac c .sha256 mac (slice file (start + 16) (32 * (s0.hmacCount + 1))) then
                  .error .badHeaderMac
                else if s0.uid ≠ h.firstBootSectionId then .error .badLayout
                else .ok (mkContent h dek mac ss signedLen (slice file signedLen (start - signedLen)) (slice file h.offsetToCert certLen))

/-- SB 2.0: header ‖ HMAC(header) ‖ key blob ‖ [certificate section] ‖ boot sections ‖ [signature].
    `flags = 0x08`: signed (certificate section present, signature over everything before it);
    `flags = 0x04`: encrypted only. -/
def romV20 (c : CryptoOps) (kek file : Bytes) : Except RomErr Content :=
  match readImageHdr file with
  | .error e => .error e
  | .ok h =>
    if h.major ≠ 2 ∨ h.minor ≠ 0 then .error .badVersion
    else if h.headerBlocks * 16 ≠ Spec.imageHeaderSize then .error .badLayout
    else match readKeys c kek file h with
      | .error e => .error e
      | .ok (dek, mac) =>
        if slice file Spec.imageHeaderSize Spec.macSize ≠ hmac c .sha256 mac (file.take Spec.imageHeaderSize) then .error .badHeaderMac
        else
          let pos0 := (h.keyBlobBlock + h.keyBlobBlockCount) * 16
          let start := h.firstBootTagBlock * 16
          let stop := h.imageBlocks * 16
          let finish (cert : Bytes) : Except RomErr Content :=
            match readSections c dek mac h.nonce file stop (file.length / 16 + 1) start with
            | .error e => .error e
            | .ok ss =>
              match ss with
              | [] => .error .badLayout
              | s0 :: _ =>
                if s0.uid ≠ h.firstBootSectionId then .error .badLayout
                else .ok (mkContent h dek mac ss stop (file.drop stop) cert)
          if stop < start ∨ file.length < stop then .error .badLayout
          else if h.flags = Spec.flagUnsignedV20 then
            if start ≠ pos0 ∨ file.length ≠ stop then .error .badLayout else finish []
          else if h.flags = Spec.flagSigned then
            if file.length < pos0 + 80 then .error .truncated
            else
              let eh := slice file pos0 16
              if slice file (pos0 + 16) 32 ≠ hmac c .sha256 mac eh then .error .badSectionMac
              else match readHdr (xorBytes eh (ksAt c dek h.nonce pos0)) with
                | .error e => .error e
                | .ok sh =>
                  if sh.tag ≠ Spec.tagTag ∨ sh.address ≠ Spec.certSectionMark then .error .badTag
                  else if sh.flags ≠ Spec.sectCleartext ||| Spec.sectLast ∨ h.offsetToCert ≠ pos0 + 80 then .error .badLayout
                  else match certBlockLen file h.offsetToCert with
                    | .error e => .error e
                    | .ok certLen =>
                      if sh.count * 16 ≠ certLen ∨ start ≠ h.offsetToCert + certLen then .error .badLayout
                      else if file.length < start then .error .truncated
                      else if slice file (pos0 + 48) 32 ≠ hmac c .sha256 mac (slice file h.offsetToCert certLen) then .error .badSectionMac
                      else if file.length = stop then .error .badLayout    -- signature missing
                      else finish (slice file h.offsetToCert certLen)
          else .error .badLayout

end Rom

end SpsdkVerif.Sb2
