/-
C19 — what each *supported* BD statement means: exactly one command with the stated operands.
`cmdOf … = some c` : the statement is in the supported subset and `c` is the command it denotes;
`none`             : outside the subset (SPSDK must refuse it or it is not specified here).
Written directly from the statement (no dictionaries); values come from `Spec.eval`.

Supported subset and its source:
  load <file|source> > addr           LOAD, data = the file's bytes                    (SB21Helper._load docstring)
  load {{blob}} > addr                LOAD, data = the blob's bytes in the written order (lexer: "a sequence of hexadecimal bytes";
                                      _load docstring: "load an eight byte blob")      -> known finding C19-blob-load
  load <fuse|ifr|@4> {{4|8 bytes}}    PROG, word1 / word2 = the little-endian words of the blob (golden elftosb files)
  load <fuse|ifr|@4> value > index    PROG, word1 = value (1 .. 2^32-1), word2 = 0
  load pattern > addr                 FILL of 4 bytes;  load pattern > a..b  FILL of b-a bytes (multiple of 4), the pattern
                                      (1, 2 or 4 bytes by magnitude, 3 -> 4) replicated to a word   (_fill_memory docstring)
  erase [mem] addr | a..b | all, erase unsecure all, enable [mem] addr, jump addr [(arg)], jump_sp sp addr [(arg)],
  version_check sec|nsec v, keystore_to_nv/keystore_from_nv @mem addr, keywrap (id) { load {{kek}} > addr; },
  encrypt (id) { load <file|source> > addr; }
`call addr [(arg)]` -> CALL, `reset` -> RESET.  The section id written in `section (n)` is the id of the boot section
(schema: "ID of the section").
-/
import SpsdkVerif.Spec.BdSem
import SpsdkVerif.Model.BdStmt
namespace SpsdkVerif.Bd.Spec
open SpsdkVerif SpsdkVerif.Bd

/-- integer value of an expression (none: error or no integer) -/
def intOf (env : Env) (e : Expr) : Option Int :=
  match Spec.eval env.vars e with
  | .ok (.int v) => some v
  | _ => none

def isAddr (a : Int) : Bool := 0 ≤ a && a ≤ 0xFFFFFFFF
/-- a value that fits the 32-bit operand fields of a command (larger ones make the export of the SB file fail) -/
def isU32 (a : Int) : Bool := 0 ≤ a && a ≤ 0xFFFFFFFF

/-- memory id named by an optional memory option -/
def memIdOf (env : Env) : MemOpt → Option Int
  | .none => some 0
  | .at e => intOf env e
  | .name n =>
    if n == "" then none   -- an identifier is never empty
    else match env.memNames.find? (fun p => p.1 == n) with
      | some p => if p.2 != 0 then some p.2 else none
      | none => none

def hexBytes : List Char → Option (List UInt8)
  | [] => some []
  | a :: b :: rest =>
    if isHexDigit a && isHexDigit b then (hexBytes rest).map (fun t => UInt8.ofNat (hexDigitVal a * 16 + hexDigitVal b) :: t) else none
  | _ => none

def leWord (bs : List UInt8) : Int := (bs.reverse.foldl (fun acc b => acc * 256 + b.toNat) 0 : Nat)

def fileOf (env : Env) : LoadData → Option (List UInt8)
  | .file p => if p != "" then (env.files.find? (fun q => q.1 == p)).map (·.2) else none
  | .source n => match env.sources.find? (fun p => p.1 == n) with
    | some p => if p.2 != "" then (env.files.find? (fun q => q.1 == p.2)).map (·.2) else none
    | none => none
  | _ => none

/-- fill word of a pattern: 1, 2 or 4 bytes by magnitude (3 bytes count as 4), replicated to 4 bytes, big-endian -/
def fillWord (p : Int) : Option (List UInt8) :=
  if p < 0 then none
  else if p < 0x100 then some (List.replicate 4 (UInt8.ofNat p.toNat))
  else if p < 0x10000 then
    let hi := UInt8.ofNat (p.toNat / 256); let lo := UInt8.ofNat (p.toNat % 256); some [hi, lo, hi, lo]
  else if p ≤ 0xFFFFFFFF then
    some [UInt8.ofNat (p.toNat / 2 ^ 24), UInt8.ofNat (p.toNat / 2 ^ 16 % 256), UInt8.ofNat (p.toNat / 256 % 256), UInt8.ofNat (p.toNat % 256)]
  else none

def hexOfBytes (bs : List UInt8) : String :=
  String.ofList (bs.foldr (fun b acc => Nat.toDigits 16 (b.toNat / 16) ++ Nat.toDigits 16 (b.toNat % 16) ++ acc) [])

/-- the key blob with this id, provided it defines start, end, key and counter -/
def keyblobOf (kbs : List KeyBlobDef) (id : Int) : Option (Int × Int × String × String × Bool) :=
  match kbs.find? (fun k => k.id == .i id) with
  | some k =>
    match k.content.get? "start", k.content.get? "end", k.content.get? "key", k.content.get? "counter" with
    | some (.i st), some (.i en), some (.s key), some (.s ctr) =>
      if isHexStr key && isHexStr ctr then
        -- `byteSwap [boolean, optional] - true for byte swap` (elf2sb.md)
        match k.content.get? "byteSwap" with
        | none => if (k.content.get? "byte_swap").isSome then none else some (st, en, key, ctr, false)
        | some (.i v) => some (st, en, key, ctr, v != 0)
        | some (.s _) => none
      else none
    | _, _, _, _ => none
  | none => none

def loadCmdOf (env : Env) (opt : MemOpt) (d : LoadData) (t : Target) : Option Cmd := do
  let m ← memIdOf env opt
  match d, t with
  | .pattern e, t =>
    let p ← intOf env e
    match opt with
    | .none =>
      let w ← fillWord p
      match t with
      | .addr a => do
        let a ← intOf env a
        if isAddr a then some (.fill a w 4) else none
      | .range a b => do
        let a ← intOf env a
        let b ← intOf env b
        if isAddr a && a < b && (b - a) % 4 == 0 then some (.fill a w (b - a)) else none
    | _ =>
      match t with
      | .addr a => do
        let a ← intOf env a
        if m == 4 && 0 < p && p ≤ 0xFFFFFFFF && isAddr a then some (.prog a m p 0) else none
      | _ => none
  | .blob h, .addr a => do
    let a ← intOf env a
    let bs ← hexBytes h.toList
    if !isAddr a || bs.isEmpty then none
    else if m == 4 then
      if bs.length == 4 then some (.prog a m (leWord bs) 0)
      else if bs.length == 8 then some (.prog a m (leWord (bs.take 4)) (leWord (bs.drop 4)))
      else none
    else some (.load a m bs)
  | d, .addr a => do
    let a ← intOf env a
    let bs ← fileOf env d
    if isAddr a then some (.load a m bs) else none
  | _, _ => none

def cmdOf (env : Env) (kbs : List KeyBlobDef) : Stmt → Option Cmd
  | .load opt d t => loadCmdOf env opt d t
  | .erase opt (.addr a) => do
    let m ← memIdOf env opt
    let a ← intOf env a
    if isAddr a then some (.erase a 0 (memFlags m) m) else none
  | .erase opt (.range a b) => do
    let m ← memIdOf env opt
    let a ← intOf env a
    let b ← intOf env b
    if isAddr a && a ≤ b then some (.erase a (b - a) (memFlags m) m) else none
  | .eraseAll opt => do
    let m ← memIdOf env opt
    some (.erase 0 0 (intOr 1 (memFlags m)) m)
  | .eraseUnsecureAll => some (.erase 0 0 2 0)
  | .enable opt e => do
    let m ← memIdOf env opt
    let a ← intOf env e
    if isAddr a then some (.enable a 4 m) else none
  | .call tgt arg => do
    let a ← intOf env tgt
    let x ← (match arg with | .arg e => intOf env e | _ => some 0)
    if isAddr a && isU32 x then some (.call a (.i x)) else none
  | .reset => some .reset
  | .jump tgt arg => do
    let a ← intOf env tgt
    let x ← (match arg with | .arg e => intOf env e | _ => some 0)
    if isAddr a && isU32 x then some (.jump a (.i x) none) else none
  | .jumpSp sp tgt arg => do
    let s ← intOf env sp
    let a ← intOf env tgt
    let x ← (match arg with | .arg e => intOf env e | _ => some 0)
    if isAddr a && isU32 x && isU32 s then some (.jump a (.i x) (some (.i s))) else none
  | .versionCheck nsec e => do
    let v ← intOf env e
    if isU32 v then some (.versionCheck (if nsec then 1 else 0) (.i v)) else none
  | .keystoreToNv (.at m) (.addr a) => do
    let m ← intOf env m
    let a ← intOf env a
    if env.extMemTags.contains m && 0 ≤ m && m ≤ 0xFF && isAddr a then some (.ksToNv a m) else none
  | .keystoreFromNv (.at m) (.addr a) => do
    let m ← intOf env m
    let a ← intOf env a
    if env.extMemTags.contains m && 0 ≤ m && m ≤ 0xFF && isAddr a then some (.ksFromNv a m) else none
  | .keywrap id blob addr => do
    let i ← intOf env id
    let a ← intOf env addr
    let (st, en, key, ctr, _) ← keyblobOf kbs i
    if isAddr a then some (.loadCrypto "keywrap" a st en key ctr blob false) else none
  | .encrypt id opt d (.addr a) => do
    let i ← intOf env id
    let _ ← memIdOf env opt
    let a ← intOf env a
    let bs ← fileOf env d
    let (st, en, key, ctr, swap) ← keyblobOf kbs i
    if isAddr a then some (.loadCrypto "encrypt" a st en key ctr (hexOfBytes bs) swap) else none
  | _ => none

/-- ids of the boot sections: the ids written in the file -/
def sectionUids (cfg : Config) : Option (List Int) :=
  cfg.sections.mapM (fun s => match s.1 with | .i v => some v | .s _ => none)

/-- any load of a binary blob -/
def isBlobLoad : Stmt → Bool
  | .load _ (.blob _) _ => true
  | _ => false

/-- plain (non-program) load of a binary blob: the implementation packs it as ONE little-endian 32-bit word
    (known finding C19-blob-load) -/
def isPlainBlobLoad (env : Env) : Stmt → Bool
  | .load opt (.blob _) _ => memIdOf env opt != some 4
  | _ => false

/-- program-fuse load of a blob whose byte count the implementation re-derives from the integer value: an 8-byte blob
    starting with four zero bytes is taken for a 4-byte one (known finding C19-prog-blob-zeros) -/
def isProgBlobLeadingZeros (env : Env) : Stmt → Bool
  | .load opt (.blob h) _ =>
    memIdOf env opt == some 4 &&
      (match hexBytes h.toList with
       | some bs => bs.length == 8 && leWord (bs.take 4) == 0
       | none => false)
  | _ => false

end SpsdkVerif.Bd.Spec
